(* Tie/E2E/Alpm.v — END TO END for alpm: the bundle of the CLI section (Gen/Parse/CmdCore.v) built out of the
   functions generated from pkg/ecosystem/alpm, tied to [Top.model_lib $"alpm"].

     Name             Gen.Code.Alpm.Ecosystem_Name
     NewVersion       Gen.Parse.Alpm.Ecosystem_NewVersion at the oracles, fuel length s + 1, made total
     NewVersionRange  Gen.Parse.Alpm.Ecosystem_NewVersionRange, fuel length s + 2, made total
     Compare          Gen.Code.Alpm.Version_Compare at Tie/Loops/Alpm.compareSegmentBySegment_total (the
                      generated loop of Gen/Loops/Alpm.v at the splitToSegments oracle)
     String           Gen.Code.Alpm.Version_String
     Contains         Gen.Code.Alpm.VersionRange_Contains at the same total function

   Hypotheses ([oracles]): unicode.IsDigit / unicode.IsLetter agree with is_digit / is_letter on ASCII bytes,
   constraintPattern.FindStringSubmatch agrees with the reference matcher on texts without white space, and
   splitToSegments (outside both translated fragments: strings.Builder) agrees with the model's
   split_to_segments.

   DOMAIN [dom]: texts of length < 2^63 - 64 made of ASCII bytes only (the parser ties of Tie/Parse/Alpm*.v
   are stated for ASCII texts: range-over-string decodes UTF-8).
   [alpm_lib_ties_on]: all six fields of [lib_ties] on [dom].  ORDER: alpm's Compare is NOT a total preorder
   on the accepted texts (Eco/Alpm/VersionFacts.cmp_core_not_total_preorder); it is one inside a class of
   texts that agree on the presence of a pkgrel ([cls b], [alpm_model_tpo]), so the statements about `sort`
   are for argument vectors inside one class; `compare`, `contains` and the exit status have no such
   restriction. *)
From Coq Require Import ZArith List Ascii Bool Lia Permutation Sorted.
From Verif.Base Require Import Bytes GoNum GoOps Ord Sorting Imp ImpFacts ImpErr ImpCore BytesFacts.
From Verif.Cli Require Import Model.
From Verif.Eco Require Import RangeCore Iface VLayer.
From Verif.Eco.Alpm Require Version VersionFacts Range Entry.
From Verif.Gen.Code Require Alpm.
From Verif.Gen.Loops Require Alpm.
From Verif.Gen.Parse Require Alpm CmdCore.
From Verif.Tie Require Import Tactics.
From Verif.Tie Require Alpm AlpmRange.
From Verif.Tie.Loops Require Import Common.
From Verif.Tie.Loops Require Alpm AlpmRange.
From Verif.Tie.Parse Require Import Common RangeCommon RangeTie RangeOptTie Scanners.
From Verif.Tie.Parse Require Alpm AlpmRange.
From Verif.Tie.Cli Require Import Common Spec Ties.
From Verif.Tie.E2E Require Import Common CommonK6.
From Verif Require Top.
Import ListNotations.
Local Open Scope Z_scope.

Module G := Verif.Gen.Code.Alpm.
Module P := Verif.Gen.Parse.Alpm.
Module M := Verif.Eco.Alpm.Version.
Module MF := Verif.Eco.Alpm.VersionFacts.
Module RM := Verif.Eco.Alpm.Range.
Module TV := Verif.Tie.Alpm.
Module TR := Verif.Tie.AlpmRange.
Module PV := Verif.Tie.Parse.Alpm.
Module PR := Verif.Tie.Parse.AlpmRange.
Module TL := Verif.Tie.Loops.Alpm.

(* the domain: int-length ASCII texts *)
Definition dom : bytes -> bool := dom_q is_ascii.

(* the class of version texts with / without a pkgrel *)
Definition cls (b : bool) (s : bytes) : Prop :=
  exists c, M.parse_core (trim_space s) = Some c /\ M.c_has_pkgrel c = b.

(* the oracles and what is assumed of them *)
Record oracles : Type := {
  isdigit : Z -> bool;                          (* unicode.IsDigit *)
  isletter : Z -> bool;                         (* unicode.IsLetter *)
  cfind : bytes -> option (list bytes);         (* constraintPattern.FindStringSubmatch *)
  split : bytes -> list bytes;                  (* splitToSegments *)
  isdigit_agrees : forall c, is_ascii c = true -> isdigit (byte_z c) = is_digit c;
  isletter_agrees : forall c, is_ascii c = true -> isletter (byte_z c) = is_letter c;
  cfind_agrees : forall t, no_space t = true -> cfind t = ref_cmatch RM.alpm_ops t;
  split_agrees : forall s, split s = M.split_to_segments s
}.

Lemma abs_conc s c : TV.abs (PV.conc s c) = c.
Proof. destruct c. reflexivity. Qed.

(* the pkgver of a parsed version is no longer than the text *)
Lemma parse_core_pkgver_le t c : M.parse_core t = Some c -> (length (M.c_pkgver c) <= length t)%nat.
Proof.
  unfold M.parse_core. destruct t as [|x t0]; [discriminate|].
  destruct (PV.split_epoch_snd (x :: t0)) as [n1 E1].
  destruct (M.split_epoch (x :: t0)) as [es vp]. cbn [snd] in E1.
  destruct (PV.split_pkgrel_fst vp) as [n2 E2].
  destruct (M.split_pkgrel vp) as [pkgver rel]. cbn [fst] in E2.
  assert (Lp : (length pkgver <= length (x :: t0))%nat).
  { rewrite E2, firstn_length, E1, skipn_length. lia. }
  destruct (match es with [] => Some 0 | _ :: _ => atoi es end) as [e|]; [|discriminate].
  destruct (e <? 0); [discriminate|].
  destruct pkgver as [|p0 pk]; [discriminate|].
  destruct (negb (forallb M.valid_char (p0 :: pk))); [discriminate|].
  destruct rel as [|r0 rl].
  - intros H. injection H as <-. exact Lp.
  - destruct (atoi (r0 :: rl)) as [rv|]; [|discriminate]. destruct (rv <? 0); [discriminate|].
    intros H. injection H as <-. exact Lp.
Qed.

Section E2E.
  Variable O : oracles.

  (* ---------- the concrete bundle ---------- *)
  Definition csbs : bytes -> bytes -> Z := TL.compareSegmentBySegment_total (split O).
  Definition Name : bytes := G.Ecosystem_Name G.mk_Ecosystem.
  Definition NV (s : bytes) : option G.Version :=
    total None (P.Ecosystem_NewVersion (isdigit O) (isletter O) (S (length s)) G.mk_Ecosystem s).
  Definition NVR (s : bytes) : option G.VersionRange :=
    total None (P.Ecosystem_NewVersionRange (isdigit O) (isletter O) (cfind O) (length s + 2) G.mk_Ecosystem s).
  Definition Compare : G.Version -> G.Version -> Z := G.Version_Compare csbs.
  Definition Contains : G.VersionRange -> G.Version -> bool := G.VersionRange_Contains csbs.

  Lemma NV_computes fuel e s : all_ascii s = true -> fits s -> (length s < fuel)%nat ->
    P.Ecosystem_NewVersion (isdigit O) (isletter O) fuel e s =
    Done (option_map (PV.conc s) (M.parse_core (trim_space s))).
  Proof.
    intros A F Hf.
    apply (PV.tie_parse_alpm_newversion (isdigit O) (isletter O) (isdigit_agrees O) (isletter_agrees O));
      assumption.
  Qed.

  Lemma NV_eq s : dom s = true -> NV s = option_map (PV.conc s) (M.parse_core (trim_space s)).
  Proof.
    intros Ds. pose proof (dom_q_all _ _ Ds) as A. apply dom_q_short, short_fits in Ds.
    unfold NV. rewrite NV_computes by (assumption || lia). reflexivity.
  Qed.

  Lemma NV_fits a x : dom a = true -> NV a = Some x -> fits (G.Version_pkgver x).
  Proof.
    intros Da. rewrite (NV_eq a Da). destruct (M.parse_core (trim_space a)) as [c|] eqn:E; [|discriminate].
    intros H. injection H as <-. apply parse_core_pkgver_le in E. apply dom_q_short, short_lt in Da.
    pose proof (trim_space_length_le a). unfold fits, PV.conc. cbn [G.Version_pkgver]. lia.
  Qed.

  Lemma NVR_eq s : dom s = true ->
    NVR s = option_map (fun rg => G.mk_VersionRange (r_orig rg) (conc_cs NV G.mk_constraint (r_cs rg)))
                       (parse_range G.Version NV RM.cfg s).
  Proof.
    intros Ds. pose proof (dom_q_all _ _ Ds) as A. apply dom_q_short, short_lt in Ds. unfold NVR.
    rewrite (PR.tie_parse_alpm_newversionrange (isdigit O) (isletter O) (cfind O) (cfind_agrees O) NV).
    - reflexivity.
    - intros fuel e v Av Fv Lv. unfold NV. rewrite !NV_computes by (assumption || lia). reflexivity.
    - exact A.
    - lia.
    - lia.
  Qed.

  Lemma eco_found :
    Top.eco_or_none $"alpm" =
    Some {| e_name := $"alpm"; e_v := mk_vops M.parse_core M.cmp_core M.raw_orig;
            e_r := mk_simple_rops RM.cfg |}.
  Proof. reflexivity. Qed.

  (* ---------- lib_ties ---------- *)

  Theorem alpm_lib_ties_on :
    lib_ties_on G.Version G.VersionRange Name NV NVR Contains Compare G.Version_String
                (Top.model_lib $"alpm") dom.
  Proof.
    apply (simple_lib_ties_on M.core M.parse_core M.cmp_core M.raw_orig RM.cfg $"alpm" eco_found eq_refl
             G.Version G.constraint G.VersionRange Name NV NVR Contains Compare
             G.Version_String G.mk_constraint G.mk_VersionRange
             G.constraint_operator G.constraint_version TV.abs dom).
    - reflexivity.
    - intros s Ds. rewrite (NV_eq s Ds). destruct (M.parse_core (trim_space s)) as [c|]; [|reflexivity].
      cbn [option_map]. rewrite abs_conc. reflexivity.
    - intros a b x y Da Db Ea Eb.
      apply (TL.tie_alpm_compare_closed (split O) (split_agrees O));
        [exact (NV_fits a x Da Ea) | exact (NV_fits b y Db Eb)].
    - intros a x Da E. rewrite (NV_eq a Da) in E. destruct (M.parse_core (trim_space a)); [|discriminate].
      injection E as <-. reflexivity.
    - exact NVR_eq.
    - intros o cs y. unfold Contains, G.VersionRange_Contains. cbn [G.VersionRange_constraints].
      apply forallb_ext_in. intros c _. apply TR.tie_alpm_matches.
    - reflexivity.
    - reflexivity.
    - apply sub_dom.
      + exact split_fields_no_and_le.
      + intros t p Hp Q. change (rc_split RM.cfg t) with (split_fields_no_and t) in Hp.
        unfold split_fields_no_and in Hp. apply filter_In in Hp as [Hp _].
        apply (fields_In_forallb is_ascii t p Q Hp).
  Qed.

  (* the record of Tie/Cli/Common.v, for the bundle guarded by the domain *)
  Corollary alpm_lib_ties :
    lib_ties G.Version G.VersionRange Name (guard dom NV) (guard dom NVR) Contains Compare
             G.Version_String (restrict (Top.model_lib $"alpm") dom).
  Proof. apply lib_ties_guard, alpm_lib_ties_on. Qed.

  Theorem alpm_name_ok : Name = $"alpm".
  Proof. reflexivity. Qed.

  (* the order laws hold inside one pkgrel class (and not on all accepted texts) *)
  Theorem alpm_model_tpo (b : bool) : TotalPreorderOn (cls b) (l_vcmp (Top.model_lib $"alpm")).
  Proof.
    apply (model_lib_tpo_class _ _ _ _ _ _ (fun c => M.c_has_pkgrel c = b) eco_found (MF.cmp_core_tp b)).
  Qed.

  (* ---------- the CLI ---------- *)

  Variable sort_by : forall A : Type, (A -> A -> Z) -> list A -> list A.
  Variable e1 e2 e3 : list bytes -> bytes.

  Definition runEcosystem : nat -> list bytes -> res (bytes * Z) :=
    CmdCore.runEcosystem G.Version G.VersionRange Name NV NVR Contains Compare G.Version_String sort_by e1 e2 e3.

  Local Notation L := (Top.model_lib $"alpm").
  Local Notation accepted := (fun s : bytes => l_vok L s = true).

  (* `univers alpm <args>` as computed by the source-derived code is the CLI model's outcome; for `sort`
     the arguments lie in one pkgrel class [cls b] *)
  Theorem alpm_runEcosystem_e2e (b : bool) (fuel : nat) (args : list bytes) :
    sort_ok G.Version NV Compare sort_by (cls b) ->
    fits args -> (length args < fuel)%nat -> Forall (fun a => dom a = true) args ->
    (forall rest, args = $"sort" :: rest -> Forall accepted rest -> Forall (cls b) rest /\ show_respects L rest) ->
    exists r, runEcosystem fuel args = Done r /\ shown (run_ecosystem L args) r.
  Proof.
    apply (eco_runEcosystem_e2e_on _ _ _ _ _ _ _ _ ($"alpm" : bytes) dom (cls b) alpm_lib_ties_on (alpm_model_tpo b)).
  Qed.

  Corollary alpm_cli_e2e (b : bool) (fuel : nat) (args : list bytes) :
    sort_ok G.Version NV Compare sort_by (cls b) ->
    fits args -> (length args < fuel)%nat -> Forall (fun a => dom a = true) args ->
    (forall rest, args = $"sort" :: rest -> Forall accepted rest -> Forall (cls b) rest /\ show_respects L rest) ->
    exists r, runEcosystem fuel args = Done r /\ shown (Top.model_cli (($"alpm" : bytes) :: args)) r.
  Proof.
    apply (eco_cli_e2e_on _ _ _ _ _ _ _ _ ($"alpm" : bytes) dom (cls b) alpm_lib_ties_on (alpm_model_tpo b)
             eq_refl eq_refl).
  Qed.

  (* the exit status: no hypothesis on the order, the sort oracle only has to return a permutation *)
  Theorem alpm_cli_e2e_exit (fuel : nat) (args : list bytes) :
    (forall l, Permutation (sort_by G.Version Compare l) l) ->
    fits args -> (length args < fuel)%nat -> Forall (fun a => dom a = true) args ->
    exists r, runEcosystem fuel args = Done r /\ snd r = exit_code (Top.model_cli (($"alpm" : bytes) :: args)).
  Proof.
    apply (eco_cli_e2e_exit_on _ _ _ _ _ _ _ _ ($"alpm" : bytes) dom alpm_lib_ties_on eq_refl eq_refl).
  Qed.
End E2E.

Print Assumptions alpm_lib_ties_on.
Print Assumptions alpm_lib_ties.
Print Assumptions alpm_name_ok.
Print Assumptions alpm_model_tpo.
Print Assumptions alpm_runEcosystem_e2e.
Print Assumptions alpm_cli_e2e.
Print Assumptions alpm_cli_e2e_exit.
Print Assumptions abs_conc.
Print Assumptions parse_core_pkgver_le.
Print Assumptions NV_computes.
Print Assumptions NV_eq.
Print Assumptions NV_fits.
Print Assumptions NVR_eq.
Print Assumptions eco_found.
