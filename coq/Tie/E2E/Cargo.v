(* Tie/E2E/Cargo.v — END TO END for cargo: the bundle of the CLI section (Gen/Parse/CmdCore.v) built out of
   the functions generated from pkg/ecosystem/cargo, tied to [Top.model_lib $"cargo"].

     Name             Gen.Code.Cargo.Ecosystem_Name
     NewVersion       Gen.Parse.Cargo.Ecosystem_NewVersion at the regexp oracle (loop-free), made total
     NewVersionRange  Gen.Parse.Cargo.Ecosystem_NewVersionRange, fuel length s + 7, made total
     Compare          Gen.Code.Cargo.Version_Compare at Tie/Loops/Cargo.comparePrereleaseIdentifiers_total
                      (the generated loop of Gen/Loops/Cargo.v at the tryParseInt oracle)
     String           Gen.Code.Cargo.Version_String
     Contains         Gen.Code.Cargo.VersionRange_Contains at the same total function

   Hypotheses ([oracles]): versionPattern.FindStringSubmatch agrees with the reference matcher of
   Tie/Parse/Cargo.v, strings.IndexAny(_, "-+") with ref_index_any of Tie/Parse/CargoRange.v, and tryParseInt
   (outside both translated fragments: strings.TrimLeft) with the model's try_parse_int.

   cargo's range model is a CUSTOM one (Eco/Cargo/Range.v: caret, tilde, wildcards): the fields [rok] and
   [contains] are proved here from Tie/Parse/CargoRange.tie_parse_cargo_newversionrange (the parsed range is
   the concretisation of the model's) and Tie/Loops/CargoRange.tie_cargo_satisfiesConstraint_closed.
   [cargo_lib_ties_on]: all six fields of [lib_ties] on the texts of length < 2^63 - 64 ([short]). *)
From Coq Require Import ZArith List Ascii Bool Lia Permutation Sorted.
From Verif.Base Require Import Bytes GoNum GoOps Ord Sorting Imp ImpFacts ImpErr ImpCore BytesFacts.
From Verif.Cli Require Import Model.
From Verif.Eco Require Import RangeCore Iface VLayer.
From Verif.Eco.Cargo Require Version VersionFacts Range RangeFacts Entry.
From Verif.Eco.Golang Require SpecFacts.
From Verif.Gen.Code Require Cargo.
From Verif.Gen.Loops Require Cargo.
From Verif.Gen.Parse Require Cargo CmdCore.
From Verif.Tie Require Import Tactics.
From Verif.Tie Require Cargo CargoRange.
From Verif.Tie.Loops Require Import Common Idents.
From Verif.Tie.Loops Require Cargo CargoRange.
From Verif.Tie.Parse Require Import Common RangeCommon.
From Verif.Tie.Parse Require Cargo CargoRange NpmRange Semver.
From Verif.Tie.Cli Require Import Common Spec Ties.
From Verif.Properties.Support Require Import SimpleRops.
From Verif.Tie.E2E Require Import Common CommonK6.
From Verif Require Top.
Import ListNotations.
Local Open Scope Z_scope.

Module G := Verif.Gen.Code.Cargo.
Module P := Verif.Gen.Parse.Cargo.
Module M := Verif.Eco.Cargo.Version.
Module MF := Verif.Eco.Cargo.VersionFacts.
Module RM := Verif.Eco.Cargo.Range.
Module RF := Verif.Eco.Cargo.RangeFacts.
Module TV := Verif.Tie.Cargo.
Module PV := Verif.Tie.Parse.Cargo.
Module PR := Verif.Tie.Parse.CargoRange.
Module TL := Verif.Tie.Loops.Cargo.
Module TLR := Verif.Tie.Loops.CargoRange.

Ltac blia := unfold bytes in *; lia.

(* ---------- lengths ---------- *)

Lemma parse_suffix_pre_le r pre bld : M.parse_suffix r = Some (pre, bld) -> (length pre <= length r)%nat.
Proof.
  unfold M.parse_suffix. destruct r as [|c r']; [intros H; injection H as <- <-; cbn; blia|].
  destruct (ceqb c "-"%char).
  - destruct (split2_c "+"%char r') as [p ob] eqn:S2.
    apply Verif.Tie.Parse.Semver.split2_c_length in S2 as [L1 _].
    destruct ob as [b|].
    + destruct (M.dotted_idents p && M.dotted_idents b); [|discriminate].
      intros H; injection H as <- <-. cbn [length]. blia.
    + destruct (M.dotted_idents p); [|discriminate]. intros H; injection H as <- <-. cbn [length]. blia.
  - destruct (ceqb c "+"%char); [|discriminate]. destruct (M.dotted_idents r'); [|discriminate].
    intros H; injection H as <- <-. cbn [length]. blia.
Qed.

Lemma expect_dot_le r r' : M.expect_dot r = Some r' -> (length r' <= length r)%nat.
Proof.
  unfold M.expect_dot. destruct r as [|c r0]; [discriminate|]. destruct (ceqb c "."%char); [|discriminate].
  intros H; injection H as <-. cbn [length]. blia.
Qed.

Lemma parse_core_prerelease_le t c : M.parse_core t = Some c -> (length (M.prerelease c) <= length t)%nat.
Proof.
  unfold M.parse_core, span.
  pose proof (drop_while_length_le is_digit t) as L1.
  destruct (M.expect_dot (drop_while is_digit t)) as [r1|] eqn:E1; [|discriminate].
  apply expect_dot_le in E1. pose proof (drop_while_length_le is_digit r1) as L2.
  destruct (M.expect_dot (drop_while is_digit r1)) as [r2|] eqn:E2; [|discriminate].
  apply expect_dot_le in E2. pose proof (drop_while_length_le is_digit r2) as L3.
  destruct (M.parse_suffix (drop_while is_digit r2)) as [[pre bld]|] eqn:PS; [|discriminate].
  apply parse_suffix_pre_le in PS.
  destruct (atoi _); [|discriminate]. destruct (atoi _); [|discriminate]. destruct (atoi _); [|discriminate].
  destruct (_ && _); [|discriminate]. intros H; injection H as <-. cbn [M.prerelease]. blia.
Qed.

Lemma join3_pad_le (parts : list bytes) :
  (length (join $"." (firstn 3 (parts ++ [$"0"; $"0"; $"0"]))) <= length (join $"." parts) + 6)%nat.
Proof.
  destruct parts as [|a [|b [|c rest]]]; cbn [app firstn join length String.list_ascii_of_string];
    rewrite ?app_length; cbn [length]; rewrite ?app_length; cbn [length]; try blia.
  destruct rest; rewrite ?app_length; cbn [length]; rewrite ?app_length; blia.
Qed.

Lemma normalize_partial_le v : (length (RM.normalize_partial v) <= length v + 6)%nat.
Proof.
  unfold RM.normalize_partial. cbv zeta. rewrite app_length.
  set (q := fun c => negb (RM.is_suffix_start c)).
  pose proof (join3_pad_le (split_c "."%char (take_while q v))) as J.
  change ($".") with (["."%char] : bytes) in J |- *.
  rewrite (Verif.Eco.Golang.SpecFacts.join_split_c "."%char (take_while q v)) in J.
  pose proof (PR.take_drop_while q v) as TD. apply (f_equal (@length ascii)) in TD.
  rewrite app_length in TD. blia.
Qed.

Lemma strip_prefix_le p s r : strip_prefix p s = Some r -> (length r <= length s)%nat.
Proof.
  unfold strip_prefix. destruct (has_prefix p s); [|discriminate]. intros H; injection H as <-.
  apply skipn_length_le.
Qed.

Lemma first_prefix_In ops s op rest : first_prefix ops s = Some (op, rest) -> In op ops.
Proof.
  induction ops as [|o r IH]; cbn [first_prefix]; [discriminate|].
  destruct (has_prefix o s).
  - intros H; injection H as <- <-. left. reflexivity.
  - intros H. right. exact (IH H).
Qed.

(* ---------- what the range parser guarantees of a constraint ---------- *)

(* a comparator constraint never carries the spelling of caret / tilde *)
Definition kind_ok (k : RM.kind) : Prop :=
  match k with RM.KCmp op => beq op $"^" = false /\ beq op $"~" = false | _ => True end.

Definition good (vok : bytes -> bool) (n : nat) (c : RM.constraint) : Prop :=
  vok (RM.c_ver c) = true /\ kind_ok (RM.c_kind c) /\ (length (RM.c_ver c) <= n + 6)%nat.

Lemma mk_good vok k t c n : RM.mk vok k t = Some c -> kind_ok k -> (length t <= n + 6)%nat -> good vok n c.
Proof.
  unfold RM.mk. destruct (vok t) eqn:E; [|discriminate]. intros H; injection H as <-.
  intros K L. repeat split; cbn [RM.c_ver RM.c_kind]; assumption.
Qed.

Lemma parse_constraint_good vok p c : RM.parse_constraint vok p = Some c -> good vok (length p) c.
Proof.
  unfold RM.parse_constraint. cbv zeta.
  pose proof (trim_space_length_le p) as TL. set (s := trim_space p) in *. clearbody s.
  destruct (strip_prefix $"^" s) as [rest|] eqn:S1.
  { apply strip_prefix_le in S1. intros H. apply (mk_good _ _ _ _ _ H); [exact I|].
    pose proof (normalize_partial_le (trim_space rest)). pose proof (trim_space_length_le rest). blia. }
  destruct (strip_prefix $"~" s) as [rest|] eqn:S2.
  { apply strip_prefix_le in S2. intros H. apply (mk_good _ _ _ _ _ H); [exact I|].
    pose proof (normalize_partial_le (trim_space rest)). pose proof (trim_space_length_le rest). blia. }
  destruct (first_prefix RM.cargo_ops s) as [[op rest]|] eqn:F.
  { pose proof (first_prefix_In _ _ _ _ F) as Hop. apply first_prefix_rest in F. subst rest.
    pose proof (trim_space_length_le (skipn (length op) s)) as T2.
    pose proof (skipn_length_le (length op) s) as T3.
    destruct (trim_space (skipn (length op) s)) as [|x t] eqn:E; [discriminate|]. rewrite <- E in *.
    intros H. apply (mk_good _ _ _ _ _ H); [|blia].
    cbn [kind_ok]. cbn in Hop. destruct Hop as [<-|[<-|[<-|[<-|[<-|[<-|[]]]]]]]; split; reflexivity. }
  destruct (contains_c "*"%char s).
  - unfold RM.parse_wildcard. cbv zeta. destruct (beq s $"*").
    { intros H. apply (mk_good _ _ _ _ _ H); [split; reflexivity | cbn [length String.list_ascii_of_string]; blia]. }
    set (base := trim_suffix $"." (trim_suffix $"*" s)).
    assert (Lb : (length base <= length s)%nat).
    { unfold base. pose proof (Verif.Tie.Parse.NpmRange.trim_suffix_length_le $"." (trim_suffix $"*" s)).
      pose proof (Verif.Tie.Parse.NpmRange.trim_suffix_length_le $"*" s). blia. }
    pose proof (normalize_partial_le base) as NL.
    destruct (length (split_c "."%char base)) as [|[|[|n]]]; try discriminate;
      intros H; apply (mk_good _ _ _ _ _ H); try exact I; blia.
  - intros H. apply (mk_good _ _ _ _ _ H); [split; reflexivity | blia].
Qed.

Lemma parse_constraints_good vok n : forall ps cs,
  RM.parse_constraints vok ps = Some cs -> (forall p, In p ps -> (length p <= n)%nat) ->
  forall c, In c cs -> good vok n c.
Proof.
  induction ps as [|p r IH]; intros cs H Hl c Hc; cbn [RM.parse_constraints] in H.
  - injection H as <-. destruct Hc.
  - destruct (RM.parse_constraint vok p) as [c0|] eqn:E; [|discriminate].
    destruct (RM.parse_constraints vok r) as [l|] eqn:R; [|discriminate]. injection H as <-.
    destruct Hc as [<-|Hc].
    + apply parse_constraint_good in E. destruct E as (A & B & L). repeat split; try assumption.
      pose proof (Hl p (or_introl eq_refl)). blia.
    + apply (IH l eq_refl); [|exact Hc]. intros q Hq. apply Hl. right. exact Hq.
Qed.

Lemma parse_range_good vok s rg : RM.parse_range vok s = Some rg ->
  forall c, In c (RM.r_cs rg) -> good vok (length s) c.
Proof.
  unfold RM.parse_range. cbv zeta. destruct (trim_space s) as [|x t] eqn:E; [discriminate|]. rewrite <- E.
  destruct (RM.parse_constraints vok (split_comma_trim (trim_space s))) as [cs|] eqn:PC; [|discriminate].
  destruct cs as [|c0 cs]; [discriminate|]. intros H; injection H as <-. cbn [RM.r_cs].
  apply (parse_constraints_good vok (length s) _ _ PC).
  intros p Hp. apply split_comma_trim_le in Hp. pose proof (trim_space_length_le s). blia.
Qed.

(* the oracles and what is assumed of them *)
Record oracles : Type := {
  find : bytes -> option (list bytes);     (* versionPattern.FindStringSubmatch *)
  indexAny : bytes -> bytes -> Z;          (* strings.IndexAny *)
  tpi : bytes -> Z * bool;                 (* tryParseInt *)
  find_agrees : forall t, find t = PV.ref_match t;
  indexAny_agrees : forall s, indexAny s $"-+" = PR.ref_index_any s;
  tpi_agrees : forall s, tpi s = num_pair (M.try_parse_int s)
}.

Section E2E.
  Variable O : oracles.

  (* ---------- the concrete bundle ---------- *)
  Definition cpi : bytes -> bytes -> Z := TL.comparePrereleaseIdentifiers_total (tpi O).
  Definition Name : bytes := G.Ecosystem_Name G.mk_Ecosystem.
  Definition NV (s : bytes) : option G.Version :=
    total None (P.Ecosystem_NewVersion (find O) G.mk_Ecosystem s).
  Definition NVR (s : bytes) : option G.VersionRange :=
    total None (P.Ecosystem_NewVersionRange (indexAny O) (find O) (length s + 7) G.mk_Ecosystem s).
  Definition Compare : G.Version -> G.Version -> Z := G.Version_Compare cpi.
  Definition Contains : G.VersionRange -> G.Version -> bool := G.VersionRange_Contains cpi.

  Local Notation E0 := G.mk_Ecosystem.
  Local Notation nvm := PR.nv_model.

  Lemma NV_eq s : NV s = nvm E0 s.
  Proof. unfold NV. rewrite (PV.tie_parse_cargo_newversion (find O) (find_agrees O)). reflexivity. Qed.

  Lemma NV_fits a x : short a = true -> NV a = Some x -> fits1 (G.Version_prerelease x).
  Proof.
    intros Hs. rewrite NV_eq. unfold nvm. destruct (M.parse_core (trim_space a)) as [c|] eqn:E; [|discriminate].
    intros H. injection H as <-. apply parse_core_prerelease_le in E. apply short_lt in Hs.
    pose proof (trim_space_length_le a). unfold fits1, PV.conc. cbn [G.Version_prerelease]. lia.
  Qed.

  Lemma NVR_eq s : short s = true ->
    NVR s = option_map (PR.conc nvm E0) (RM.parse_range (PR.vok nvm E0) s).
  Proof.
    intros Hs. apply short_lt in Hs. unfold NVR.
    rewrite (PR.tie_parse_cargo_newversionrange (indexAny O) (find O) (indexAny_agrees O) (find_agrees O))
      by lia.
    reflexivity.
  Qed.

  Lemma eco_found :
    Top.eco_or_none $"cargo" =
    Some {| e_name := $"cargo"; e_v := mk_vops M.parse_core M.cmp_core M.raw_orig;
            e_r := Verif.Eco.Cargo.Entry.r |}.
  Proof. reflexivity. Qed.

  Local Notation e := {| e_name := $"cargo"; e_v := mk_vops M.parse_core M.cmp_core M.raw_orig;
                         e_r := Verif.Eco.Cargo.Entry.r |}.

  Lemma vok_eq t : self_vok e t = PR.vok nvm E0 t.
  Proof.
    unfold self_vok, PR.vok, nvm, mk_vops, v_show, e_v, VLayer.parse.
    destruct (M.parse_core (trim_space t)); reflexivity.
  Qed.

  Lemma H_nv s : option_map TV.abs (NV s) = M.parse_core (trim_space s).
  Proof.
    rewrite NV_eq. unfold nvm. destruct (M.parse_core (trim_space s)) as [c|]; [|reflexivity].
    cbn [option_map]. rewrite PV.abs_conc. reflexivity.
  Qed.

  Lemma H_cmp a b x y : short a = true -> short b = true -> NV a = Some x -> NV b = Some y ->
    Compare x y = Z_of_cmp (M.cmp_core (TV.abs x) (TV.abs y)).
  Proof.
    intros Da Db Ea Eb.
    apply (TL.tie_cargo_compare_closed (tpi O) (tpi_agrees O)); [exact (NV_fits a x Da Ea) | exact (NV_fits b y Db Eb)].
  Qed.

  (* one constraint: the generated satisfiesConstraint on the concretisation is the model's sat_constraint *)
  Lemma sat_one r v y c :
    short r = true -> short v = true -> NV v = Some y -> good (PR.vok nvm E0) (length r) c ->
    exists gc, PR.conc1 nvm E0 c = Some gc /\
               G.satisfiesConstraint cpi y gc = RM.sat_constraint (self_vcmp e) v c.
  Proof.
    intros Dr Dv Ev (Vok & Kok & Len).
    destruct c as [k t]. cbn [RM.c_ver RM.c_kind] in *.
    unfold PR.vok, nvm in Vok. unfold PR.conc1, nvm. cbn [RM.c_ver RM.c_kind].
    destruct (M.parse_core (trim_space t)) as [ct|] eqn:Et; [|discriminate]. cbn [option_map].
    eexists. split; [reflexivity|].
    pose proof (NV_fits v y Dv Ev) as Fy.
    rewrite NV_eq in Ev. unfold nvm in Ev.
    destruct (M.parse_core (trim_space v)) as [cv|] eqn:Ecv; [|discriminate]. injection Ev as <-.
    assert (Ft : fits1 (M.prerelease ct)).
    { apply parse_core_prerelease_le in Et. apply short_lt in Dr.
      pose proof (trim_space_length_le t). unfold fits1. lia. }
    assert (VC : self_vcmp e v t = M.cmp_core cv ct).
    { apply (self_vcmp_core _ M.parse_core M.cmp_core M.raw_orig $"cargo" Verif.Eco.Cargo.Entry.r); assumption. }
    set (p := match k with RM.KCmp _ => 3%nat | RM.KCaret p => p | RM.KTilde p => p end).
    rewrite (TLR.tie_cargo_satisfiesConstraint_closed (tpi O) (tpi_agrees O) _ _ Fy) with (p := p);
      [| cbn [G.constraint_version PV.conc G.Version_prerelease]; exact Ft
       | cbn [G.constraint_precision]; unfold p; destruct k; reflexivity ].
    cbv zeta. cbn [G.constraint_version G.constraint_operator]. rewrite !PV.abs_conc.
    unfold RM.sat_constraint. cbn [RM.c_kind RM.c_ver]. unfold p.
    destruct k as [op|n|n]; cbn [PR.op_of kind_ok] in *.
    - destruct Kok as [K1 K2]. rewrite K1, K2, VC. reflexivity.
    - change (beq $"^" $"^") with true. cbv iota. unfold RM.sat_caret, RM.fields. rewrite VC, Ecv, Et. reflexivity.
    - change (beq $"~" $"^") with false. change (beq $"~" $"~") with true. cbv iota.
      unfold RM.sat_tilde, RM.fields. rewrite VC, Ecv, Et. reflexivity.
  Qed.

  Lemma sat_all r v y cs :
    short r = true -> short v = true -> NV v = Some y ->
    (forall c, In c cs -> good (PR.vok nvm E0) (length r) c) ->
    forallb (fun c => G.satisfiesConstraint cpi y c) (PR.conc_cs nvm E0 cs) =
    forallb (RM.sat_constraint (self_vcmp e) v) cs.
  Proof.
    intros Dr Dv Ev. induction cs as [|c cs IH]; intros H; [reflexivity|].
    destruct (sat_one r v y c Dr Dv Ev (H c (or_introl eq_refl))) as (gc & Egc & S1).
    unfold PR.conc_cs. cbn [flat_map]. rewrite Egc. cbn [app forallb]. rewrite S1. f_equal.
    apply IH. intros c' Hc'. apply H. right. exact Hc'.
  Qed.

  (* ---------- lib_ties ---------- *)

  Theorem cargo_lib_ties_on :
    lib_ties_on G.Version G.VersionRange Name NV NVR Contains Compare G.Version_String
                (Top.model_lib $"cargo") short.
  Proof.
    apply (custom_lib_ties_on M.core M.parse_core M.cmp_core M.raw_orig Verif.Eco.Cargo.Entry.r $"cargo" eco_found
             G.Version G.VersionRange Name NV NVR Contains Compare G.Version_String TV.abs short).
    - reflexivity.
    - intros s _. apply H_nv.
    - exact H_cmp.
    - intros a x _ E. rewrite NV_eq in E. unfold nvm in E. destruct (M.parse_core (trim_space a)); [|discriminate].
      injection E as <-. reflexivity.
    - intros s Ds. cbn [r_show Verif.Eco.Cargo.Entry.r]. unfold RM.r_show.
      rewrite (RF.parse_range_ext _ _ vok_eq s), (NVR_eq s Ds).
      destruct (RM.parse_range (PR.vok nvm E0) s); reflexivity.
    - intros r v x y Dr Dv Er Ev. cbn [r_contains Verif.Eco.Cargo.Entry.r]. unfold RM.r_contains.
      rewrite (RF.parse_range_ext _ _ vok_eq r). rewrite (NVR_eq r Dr) in Er.
      destruct (RM.parse_range (PR.vok nvm E0) r) as [rg|] eqn:PRg; [|discriminate].
      cbn [option_map] in Er. injection Er as <-.
      rewrite vok_eq. unfold PR.vok at 1. rewrite <- NV_eq, Ev.
      unfold Contains, G.VersionRange_Contains, PR.conc, RM.contains. cbn [G.VersionRange_constraints].
      apply (sat_all r v y (RM.r_cs rg) Dr Dv Ev). apply (parse_range_good _ _ _ PRg).
  Qed.

  (* the record of Tie/Cli/Common.v, for the bundle guarded by the length bound *)
  Corollary cargo_lib_ties :
    lib_ties G.Version G.VersionRange Name (guard short NV) (guard short NVR) Contains Compare
             G.Version_String (restrict (Top.model_lib $"cargo") short).
  Proof. apply lib_ties_guard, cargo_lib_ties_on. Qed.

  Theorem cargo_name_ok : Name = $"cargo".
  Proof. reflexivity. Qed.

  Theorem cargo_model_tpo :
    TotalPreorderOn (fun s => l_vok (Top.model_lib $"cargo") s = true) (l_vcmp (Top.model_lib $"cargo")).
  Proof. apply (model_lib_tpo _ _ _ _ _ _ eco_found MF.cmp_core_tp). Qed.

  (* ---------- the CLI ---------- *)

  Variable sort_by : forall A : Type, (A -> A -> Z) -> list A -> list A.
  Variable e1 e2 e3 : list bytes -> bytes.

  Definition runEcosystem : nat -> list bytes -> res (bytes * Z) :=
    CmdCore.runEcosystem G.Version G.VersionRange Name NV NVR Contains Compare G.Version_String sort_by e1 e2 e3.

  Local Notation L := (Top.model_lib $"cargo").
  Local Notation accepted := (fun s : bytes => l_vok L s = true).

  (* `univers cargo <args>` as computed by the source-derived code is the CLI model's outcome *)
  Theorem cargo_runEcosystem_e2e (fuel : nat) (args : list bytes) :
    sort_ok G.Version NV Compare sort_by accepted ->
    fits args -> (length args < fuel)%nat -> Forall (fun a => short a = true) args ->
    (forall rest, args = $"sort" :: rest -> Forall accepted rest -> show_respects L rest) ->
    exists r, runEcosystem fuel args = Done r /\ shown (run_ecosystem L args) r.
  Proof.
    apply (eco_runEcosystem_e2e _ _ _ _ _ _ _ _ ($"cargo" : bytes) cargo_lib_ties_on cargo_model_tpo).
  Qed.

  Corollary cargo_cli_e2e (fuel : nat) (args : list bytes) :
    sort_ok G.Version NV Compare sort_by accepted ->
    fits args -> (length args < fuel)%nat -> Forall (fun a => short a = true) args ->
    (forall rest, args = $"sort" :: rest -> Forall accepted rest -> show_respects L rest) ->
    exists r, runEcosystem fuel args = Done r /\ shown (Top.model_cli (($"cargo" : bytes) :: args)) r.
  Proof.
    apply (eco_cli_e2e _ _ _ _ _ _ _ _ ($"cargo" : bytes) cargo_lib_ties_on cargo_model_tpo eq_refl eq_refl).
  Qed.

  (* the exit status: no hypothesis on the order, the sort oracle only has to return a permutation *)
  Theorem cargo_cli_e2e_exit (fuel : nat) (args : list bytes) :
    (forall l, Permutation (sort_by G.Version Compare l) l) ->
    fits args -> (length args < fuel)%nat -> Forall (fun a => short a = true) args ->
    exists r, runEcosystem fuel args = Done r /\ snd r = exit_code (Top.model_cli (($"cargo" : bytes) :: args)).
  Proof.
    apply (eco_cli_e2e_exit _ _ _ _ _ _ _ _ ($"cargo" : bytes) cargo_lib_ties_on eq_refl eq_refl).
  Qed.
End E2E.

Print Assumptions cargo_lib_ties_on.
Print Assumptions cargo_lib_ties.
Print Assumptions cargo_name_ok.
Print Assumptions cargo_model_tpo.
Print Assumptions cargo_runEcosystem_e2e.
Print Assumptions cargo_cli_e2e.
Print Assumptions cargo_cli_e2e_exit.
Print Assumptions parse_suffix_pre_le.
Print Assumptions expect_dot_le.
Print Assumptions parse_core_prerelease_le.
Print Assumptions join3_pad_le.
Print Assumptions normalize_partial_le.
Print Assumptions strip_prefix_le.
Print Assumptions first_prefix_In.
Print Assumptions mk_good.
Print Assumptions parse_constraint_good.
Print Assumptions parse_constraints_good.
Print Assumptions parse_range_good.
Print Assumptions NV_eq.
Print Assumptions NV_fits.
Print Assumptions NVR_eq.
Print Assumptions eco_found.
Print Assumptions vok_eq.
Print Assumptions H_nv.
Print Assumptions H_cmp.
Print Assumptions sat_one.
Print Assumptions sat_all.
