(* Tie/E2E/Common.v — what the end-to-end files Tie/E2E/<Eco>.v share.

   The per-ecosystem ties (Tie/<Eco>.v, Tie/Loops, Tie/Parse) hold for texts whose length fits Go's
   `int` (cursors are incremented with wrap64; a Coq list can be longer than 2^63, a Go string cannot).
   The record [lib_ties] of Tie/Cli/Common.v quantifies over ALL texts, so for a bundle made of the
   generated functions it is stated here relative to a decidable domain [D] of texts: [lib_ties_on].

     lib_ties_guard        [lib_ties_on D] for (bundle, L) IS the record [lib_ties] of Tie/Cli/Common.v
                           for the bundle whose two parsers are guarded by D and the library record
                           [restrict D L] (acceptance restricted to D)
     lib_ties_on_of_all    [lib_ties] gives [lib_ties_on D] for every D (the converse for D = everything)
     runEcosystem_spec_guard, run_ecosystem_restrict
                           on argument vectors inside D neither guard is observable
     runEcosystem_e2e      hence Ties.runEcosystem_tie for the UNGUARDED bundle against the UNRESTRICTED
                           library record, for argument vectors inside D: the generated runEcosystem is
                           [Done r] with [shown (run_ecosystem L args) r]
     runEcosystem_e2e_exit the exit status alone (no hypothesis on the sort)

   [short]: the domain used by every ecosystem file (length + 64 < 2^63).

   The model side: [model_lib_of] (Top.model_lib at a registered name), and for an ecosystem of the
   VLayer shape whose range parser is a [range_cfg] (Eco/RangeCore.v) the generic construction
   [simple_lib_ties_on] of [lib_ties_on] from the shapes in which the existing tie theorems are stated. *)
From Coq Require Import ZArith List Ascii Bool Lia Permutation Sorted.
From Verif.Base Require Import Bytes GoNum Ord Sorting Imp ImpFacts ImpErr ImpCore BytesFacts.
From Verif.Vers Require Import Model.
From Verif.Cli Require Import Model Facts.
From Verif.Eco Require Import RangeCore Iface VLayer.
From Verif.Tie Require Import Tactics.
From Verif.Tie.Loops Require Import Common.
From Verif.Tie.Parse Require Import Common RangeCommon RangeTie.
From Verif.Tie.Cli Require Import Common Spec Ties.
From Verif.Properties.Support Require Import SimpleRops.
From Verif Require Top.
Import ListNotations.
Local Open Scope Z_scope.

(* ---------- the domain ---------- *)

Definition short (s : bytes) : bool := Z.of_nat (length s) + 64 <? 2 ^ 63.

Lemma short_lt s : short s = true -> Z.of_nat (length s) + 64 < 2 ^ 63.
Proof. unfold short. intros H. apply Z.ltb_lt in H. exact H. Qed.

Lemma short_le s t : (length t <= length s)%nat -> short s = true -> short t = true.
Proof. unfold short. intros L H. apply Z.ltb_lt in H. apply Z.ltb_lt. lia. Qed.

Lemma short_fits s : short s = true -> fits s.
Proof. intros H. apply short_lt in H. unfold fits. lia. Qed.

Lemma short_trim s : short s = true -> short (trim_space s) = true.
Proof. apply short_le, trim_space_length_le. Qed.

(* ---------- lists ---------- *)

Lemma parse_all_ext {A B} (p q : A -> option B) l :
  (forall x, In x l -> p x = q x) -> parse_all p l = parse_all q l.
Proof.
  induction l as [|x t IH]; intros H; [reflexivity|]. cbn [parse_all].
  rewrite (H x (or_introl eq_refl)). destruct (q x); [|reflexivity].
  rewrite IH; [reflexivity|]. intros y Hy. apply H. right. exact Hy.
Qed.

(* ---------- ties on a domain ---------- *)

Section On.
  Variable V VR : Type.
  Variable E_Name : bytes.
  Variable NV : bytes -> option V.
  Variable NVR : bytes -> option VR.
  Variable VR_Contains : VR -> V -> bool.
  Variable V_Compare : V -> V -> Z.
  Variable V_String : V -> bytes.
  Variable sort_by : forall A : Type, (A -> A -> Z) -> list A -> list A.
  Variable e1 e2 e3 : list bytes -> bytes.
  Variable L : lib_ops.
  Variable D : bytes -> bool.

  Record lib_ties_on : Prop := {
    o_name : E_Name = l_name L;
    o_vok : forall s, D s = true -> l_vok L s = is_some (NV s);
    o_rok : forall s, D s = true -> l_rok L s = is_some (NVR s);
    o_cmp : forall a b x y, D a = true -> D b = true -> NV a = Some x -> NV b = Some y ->
            V_Compare x y = Z_of_cmp (l_vcmp L a b);
    o_show : forall a x, D a = true -> NV a = Some x -> V_String x = l_vshow L a;
    o_contains : forall r v x y, D r = true -> D v = true -> NVR r = Some x -> NV v = Some y ->
                 VR_Contains x y = l_rcontains L r v
  }.

  Definition guard {A} (f : bytes -> option A) (s : bytes) : option A := if D s then f s else None.

  Definition restrict : lib_ops := {|
    l_name := l_name L;
    l_vok := fun s => D s && l_vok L s;
    l_vshow := l_vshow L;
    l_vcmp := l_vcmp L;
    l_rok := fun s => D s && l_rok L s;
    l_rcontains := l_rcontains L |}.

  Lemma guard_Some {A} (f : bytes -> option A) s x : guard f s = Some x -> D s = true /\ f s = Some x.
  Proof. unfold guard. destruct (D s); [auto | discriminate]. Qed.

  Theorem lib_ties_guard :
    lib_ties_on ->
    lib_ties V VR E_Name (guard NV) (guard NVR) VR_Contains V_Compare V_String restrict.
  Proof.
    intros T. constructor.
    - exact (o_name T).
    - intros s. unfold restrict, guard. cbn [l_vok]. destruct (D s) eqn:Ds; [|reflexivity].
      cbn [andb]. apply (o_vok T). exact Ds.
    - intros s. unfold restrict, guard. cbn [l_rok]. destruct (D s) eqn:Ds; [|reflexivity].
      cbn [andb]. apply (o_rok T). exact Ds.
    - intros a b x y Ha Hb. apply guard_Some in Ha as [Da Ha]. apply guard_Some in Hb as [Db Hb].
      cbn [restrict l_vcmp]. apply (o_cmp T); assumption.
    - intros a x Ha. apply guard_Some in Ha as [Da Ha]. cbn [restrict l_vshow]. apply (o_show T); assumption.
    - intros r v x y Hr Hv. apply guard_Some in Hr as [Dr Hr]. apply guard_Some in Hv as [Dv Hv].
      cbn [restrict l_rcontains]. apply (o_contains T); assumption.
  Qed.

  Theorem lib_ties_on_of_all :
    lib_ties V VR E_Name NV NVR VR_Contains V_Compare V_String L -> lib_ties_on.
  Proof.
    intros T. constructor.
    - exact (t_name _ _ _ _ _ _ _ _ _ T).
    - intros s _. apply (t_vok _ _ _ _ _ _ _ _ _ T).
    - intros s _. apply (t_rok _ _ _ _ _ _ _ _ _ T).
    - intros a b x y _ _. apply (t_cmp _ _ _ _ _ _ _ _ _ T).
    - intros a x _. apply (t_show _ _ _ _ _ _ _ _ _ T).
    - intros r v x y _ _. apply (t_contains _ _ _ _ _ _ _ _ _ T).
  Qed.

  (* ----- the guards are not observable inside D ----- *)

  Local Notation DP := (fun a : bytes => D a = true).

  Lemma compare_spec_guard rest :
    Forall DP rest -> compare_spec V (guard NV) V_Compare rest = compare_spec V NV V_Compare rest.
  Proof.
    intros F. unfold compare_spec. destruct rest as [|a [|b [|c r]]]; try reflexivity.
    inversion F as [|? ? Da F']; subst. inversion F' as [|? ? Db _]; subst.
    unfold guard. rewrite Da, Db. reflexivity.
  Qed.

  Lemma contains_spec_guard rest :
    Forall DP rest ->
    contains_spec V VR (guard NV) (guard NVR) VR_Contains rest = contains_spec V VR NV NVR VR_Contains rest.
  Proof.
    intros F. unfold contains_spec. destruct rest as [|a [|b [|c r]]]; try reflexivity.
    inversion F as [|? ? Da F']; subst. inversion F' as [|? ? Db _]; subst.
    unfold guard. rewrite Da, Db. reflexivity.
  Qed.

  Lemma sort_spec_guard rest :
    Forall DP rest ->
    sort_spec V (guard NV) V_Compare V_String sort_by rest = sort_spec V NV V_Compare V_String sort_by rest.
  Proof.
    intros F. unfold sort_spec. destruct rest as [|a r]; [reflexivity|].
    rewrite (parse_all_ext (guard NV) NV (a :: r)); [reflexivity|].
    intros x Hx. rewrite Forall_forall in F. unfold guard. rewrite (F x Hx). reflexivity.
  Qed.

  Lemma runEcosystem_spec_guard args :
    Forall DP args ->
    runEcosystem_spec V VR E_Name (guard NV) (guard NVR) VR_Contains V_Compare V_String sort_by e1 e2 e3 args =
    runEcosystem_spec V VR E_Name NV NVR VR_Contains V_Compare V_String sort_by e1 e2 e3 args.
  Proof.
    intros F. unfold runEcosystem_spec. destruct args as [|command rest]; [reflexivity|].
    inversion F as [|? ? _ Fr]; subst.
    rewrite (compare_spec_guard rest Fr), (contains_spec_guard rest Fr), (sort_spec_guard rest Fr).
    reflexivity.
  Qed.

  Lemma first_invalid_restrict rest : Forall DP rest -> first_invalid restrict rest = first_invalid L rest.
  Proof.
    induction 1 as [|a r Da _ IH]; [reflexivity|]. cbn [first_invalid restrict l_vok].
    rewrite Da. cbn [andb]. destruct (l_vok L a); [exact IH | reflexivity].
  Qed.

  Lemma run_ecosystem_restrict args :
    Forall DP args -> run_ecosystem restrict args = run_ecosystem L args.
  Proof.
    intros F. unfold run_ecosystem. destruct args as [|command rest]; [reflexivity|].
    inversion F as [|? ? _ Fr]; subst.
    destruct (beq command $"compare").
    { unfold cmd_compare. destruct rest as [|a [|b [|c r]]]; try reflexivity.
      inversion Fr as [|? ? Da F']; subst. inversion F' as [|? ? Db _]; subst.
      cbn [restrict l_vok l_vcmp]. rewrite Da, Db. reflexivity. }
    destruct (beq command $"sort").
    { unfold cmd_sort. rewrite (first_invalid_restrict rest Fr). reflexivity. }
    destruct (beq command $"contains").
    { unfold cmd_contains. destruct rest as [|a [|b [|c r]]]; try reflexivity.
      inversion Fr as [|? ? Da F']; subst. inversion F' as [|? ? Db _]; subst.
      cbn [restrict l_vok l_rok l_rcontains]. rewrite Da, Db. reflexivity. }
    reflexivity.
  Qed.

  Lemma sort_ok_guard P :
    sort_ok V NV V_Compare sort_by P -> sort_ok V (guard NV) V_Compare sort_by P.
  Proof.
    intros SO. constructor.
    - apply (s_perm _ _ _ _ _ SO).
    - intros l Fl. apply (s_sorted _ _ _ _ _ SO). eapply Forall_impl; [|exact Fl].
      intros x (s & Ps & Es). apply guard_Some in Es as [_ Es]. exists s. split; assumption.
  Qed.

  (* ----- the end-to-end statement for one bundle ----- *)

  Variable P : bytes -> Prop.
  Hypothesis T : lib_ties_on.
  Hypothesis SO : sort_ok V NV V_Compare sort_by P.
  Hypothesis TP : TotalPreorderOn P (l_vcmp L).

  Theorem runEcosystem_spec_e2e (args : list bytes) :
    Forall DP args ->
    (forall rest, args = $"sort" :: rest ->
       Forall (fun a => l_vok L a = true) rest -> Forall P rest /\ show_respects L rest) ->
    shown (run_ecosystem L args)
          (runEcosystem_spec V VR E_Name NV NVR VR_Contains V_Compare V_String sort_by e1 e2 e3 args).
  Proof.
    intros FD SR.
    rewrite <- (run_ecosystem_restrict args FD), <- (runEcosystem_spec_guard args FD).
    apply (runEcosystem_tie V VR E_Name (guard NV) (guard NVR) VR_Contains V_Compare V_String sort_by
                            e1 e2 e3 restrict (lib_ties_guard T) P (sort_ok_guard P SO) TP).
    intros rest E. unfold sort_hyp. intros OK.
    assert (Fr : Forall DP rest).
    { rewrite E in FD. inversion FD; assumption. }
    apply (SR rest E).
    rewrite Forall_forall in *. intros a Ha. specialize (OK a Ha). cbn [restrict l_vok] in OK.
    rewrite (Fr a Ha) in OK. exact OK.
  Qed.

  Theorem runEcosystem_e2e (fuel : nat) (args : list bytes) :
    fits args -> (length args < fuel)%nat -> Forall DP args ->
    (forall rest, args = $"sort" :: rest ->
       Forall (fun a => l_vok L a = true) rest -> Forall P rest /\ show_respects L rest) ->
    exists r,
      G.runEcosystem V VR E_Name NV NVR VR_Contains V_Compare V_String sort_by e1 e2 e3 fuel args = Done r /\
      shown (run_ecosystem L args) r.
  Proof.
    intros F Hf FD SR. eexists. split.
    { apply runEcosystem_eq; [apply sort_len_of_perm, (s_perm _ _ _ _ _ SO) | exact F | exact Hf]. }
    apply runEcosystem_spec_e2e; assumption.
  Qed.
End On.

(* the exit status: neither the order laws nor [show_respects]; the sort oracle only has to keep the
   length *)
Section OnExit.
  Variable V VR : Type.
  Variable E_Name : bytes.
  Variable NV : bytes -> option V.
  Variable NVR : bytes -> option VR.
  Variable VR_Contains : VR -> V -> bool.
  Variable V_Compare : V -> V -> Z.
  Variable V_String : V -> bytes.
  Variable sort_by : forall A : Type, (A -> A -> Z) -> list A -> list A.
  Variable e1 e2 e3 : list bytes -> bytes.
  Variable L : lib_ops.
  Variable D : bytes -> bool.
  Hypothesis T : lib_ties_on V VR E_Name NV NVR VR_Contains V_Compare V_String L D.

  Theorem runEcosystem_e2e_exit (fuel : nat) (args : list bytes) :
    (forall l, Permutation (sort_by V V_Compare l) l) ->
    fits args -> (length args < fuel)%nat -> Forall (fun a => D a = true) args ->
    exists r,
      G.runEcosystem V VR E_Name NV NVR VR_Contains V_Compare V_String sort_by e1 e2 e3 fuel args = Done r /\
      snd r = exit_code (run_ecosystem L args).
  Proof.
    intros SP F Hf FD. eexists. split.
    { apply runEcosystem_eq; [apply sort_len_of_perm, SP | exact F | exact Hf]. }
    rewrite <- (run_ecosystem_restrict L D args FD).
    rewrite <- (runEcosystem_spec_guard V VR E_Name NV NVR VR_Contains V_Compare V_String sort_by e1 e2 e3 D args FD).
    apply (runEcosystem_exit_code V VR E_Name (guard D NV) (guard D NVR) VR_Contains V_Compare V_String sort_by
                                  e1 e2 e3 (restrict L D)).
    apply lib_ties_guard. exact T.
  Qed.
End OnExit.

(* ---------- the model side ---------- *)

Lemma model_lib_of name e :
  Top.eco_or_none name = Some e ->
  Top.model_lib name = {|
    l_name := name;
    l_vok := self_vok e;
    l_vshow := fun s => match v_show (e_v e) s with Some t => t | None => [] end;
    l_vcmp := self_vcmp e;
    l_rok := fun r => match r_show (e_r e) (self_vok e) r with Some _ => true | None => false end;
    l_rcontains := fun r v => match r_contains (e_r e) (self_vok e) (self_vcmp e) r v with
                              | Some b => b | None => false end |}.
Proof. intros H. unfold Top.model_lib. rewrite H. reflexivity. Qed.

(* the model's comparison of an ecosystem of the VLayer shape is a total preorder on the accepted texts *)
Lemma model_lib_tpo name C (pc : bytes -> option C) cc ro rops :
  Top.eco_or_none name = Some {| e_name := name; e_v := mk_vops pc cc ro; e_r := rops |} ->
  TotalPreorder cc ->
  TotalPreorderOn (fun s => l_vok (Top.model_lib name) s = true) (l_vcmp (Top.model_lib name)).
Proof.
  intros H TPc. rewrite (model_lib_of _ _ H). cbn [l_vcmp l_vok].
  apply (self_tpo C pc cc ro name rops TPc).
Qed.

(* ---------- RangeCore: the parser looks at the bound parser through its acceptance only ---------- *)

Lemma parse_constraints_ext {V1 V2} (vp1 : bytes -> option V1) (vp2 : bytes -> option V2) cfg parts :
  (forall p c, In p parts -> parse_constraint cfg p = Some c ->
               is_some (vp1 (snd c)) = is_some (vp2 (snd c))) ->
  parse_constraints V1 vp1 cfg parts = parse_constraints V2 vp2 cfg parts.
Proof.
  induction parts as [|a parts IH]; intros H; [reflexivity|]. cbn [parse_constraints].
  destruct (parse_constraint cfg a) as [c|] eqn:E; [|reflexivity].
  assert (B : bound_ok V1 vp1 cfg c = bound_ok V2 vp2 cfg c).
  { unfold bound_ok. destruct (rc_eager cfg); [|reflexivity].
    specialize (H a c (or_introl eq_refl) E).
    destruct (vp1 (snd c)), (vp2 (snd c)); cbn [is_some] in H; congruence. }
  rewrite B, IH; [reflexivity|]. intros p c' Hp. apply H. right. exact Hp.
Qed.

Lemma parse_range_ext {V1 V2} (vp1 : bytes -> option V1) (vp2 : bytes -> option V2) cfg s :
  (forall p c, In p (rc_split cfg (trim_space s)) -> parse_constraint cfg p = Some c ->
               is_some (vp1 (snd c)) = is_some (vp2 (snd c))) ->
  parse_range V1 vp1 cfg s = parse_range V2 vp2 cfg s.
Proof.
  intros H. unfold parse_range. cbv zeta. destruct (trim_space s) as [|x t] eqn:E; [reflexivity|].
  rewrite (parse_constraints_ext vp1 vp2 cfg _ H). reflexivity.
Qed.

Lemma parse_constraints_In {V} (vp : bytes -> option V) cfg : forall ps l,
  parse_constraints V vp cfg ps = Some l ->
  forall c, In c l -> exists p, In p ps /\ parse_constraint cfg p = Some c /\ bound_ok V vp cfg c = true.
Proof.
  induction ps as [|p r IH]; intros l H c Hc; cbn [parse_constraints] in H.
  - injection H as <-. destruct Hc.
  - destruct (parse_constraint cfg p) as [c0|] eqn:E; [|discriminate].
    destruct (bound_ok V vp cfg c0) eqn:B; [|discriminate].
    destruct (parse_constraints V vp cfg r) as [l'|] eqn:R; [|discriminate].
    injection H as <-. destruct Hc as [<-|Hc].
    + exists p. repeat split; [left; reflexivity | exact E | exact B].
    + destruct (IH l' eq_refl c Hc) as (q & Hq & Eq & Bq). exists q. repeat split; [right|..]; assumption.
Qed.

Lemma parse_range_cs {V} (vp : bytes -> option V) cfg s rg :
  parse_range V vp cfg s = Some rg ->
  parse_constraints V vp cfg (rc_split cfg (trim_space s)) = Some (r_cs rg).
Proof.
  unfold parse_range. cbv zeta. destruct (trim_space s) as [|x t]; [discriminate|].
  destruct (parse_constraints V vp cfg _) as [[|c l]|]; [| |discriminate].
  - destruct (rc_empty_ok cfg); [|discriminate]. intros H. injection H as <-. reflexivity.
  - intros H. injection H as <-. reflexivity.
Qed.

(* bounds are no longer than the range text, for a splitter that does not lengthen *)
Definition split_le (cfg : range_cfg) : Prop :=
  forall t p, In p (rc_split cfg t) -> (length p <= length t)%nat.

Lemma first_prefix_rest ops s op rest :
  first_prefix ops s = Some (op, rest) -> rest = skipn (length op) s.
Proof.
  induction ops as [|o r IH]; cbn [first_prefix]; [discriminate|].
  destruct (has_prefix o s); [|exact IH]. intros H. injection H as <- <-. reflexivity.
Qed.

Lemma first_prefix_ne_rest ops s op rest :
  first_prefix_ne ops s = Some (op, rest) -> rest = skipn (length op) s.
Proof.
  induction ops as [|o r IH]; cbn [first_prefix_ne]; [discriminate|].
  destruct (has_prefix o s); [|exact IH].
  destruct (skipn (length o) s) eqn:E; [exact IH|]. intros H. injection H as <- <-. symmetry. exact E.
Qed.

Lemma parse_constraint_bound_le cfg p c :
  parse_constraint cfg p = Some c -> (length (snd c) <= length p)%nat.
Proof.
  unfold parse_constraint. cbv zeta.
  pose proof (trim_space_length_le p) as TL.
  destruct (rc_style cfg).
  - destruct (first_prefix (rc_ops cfg) (trim_space p)) as [[op rest]|] eqn:F.
    + apply first_prefix_rest in F. subst rest.
      pose proof (trim_space_length_le (skipn (length op) (trim_space p))) as T2.
      pose proof (skipn_length_le (length op) (trim_space p)) as T3.
      destruct (trim_space (skipn (length op) (trim_space p))) eqn:E; [discriminate|].
      intros H. injection H as <-. cbn [snd]. rewrite <- E in *. lia.
    + intros H. injection H as <-. cbn [snd]. exact TL.
  - destruct (first_prefix (rc_ops cfg) (trim_space p)) as [[op rest]|] eqn:F.
    + apply first_prefix_rest in F. subst rest.
      pose proof (trim_space_length_le (skipn (length op) (trim_space p))) as T2.
      pose proof (skipn_length_le (length op) (trim_space p)) as T3.
      intros H. injection H as <-. cbn [snd]. lia.
    + intros H. injection H as <-. cbn [snd]. exact TL.
  - destruct (trim_space p) as [|x t] eqn:E; [discriminate|]. rewrite <- E in *.
    destruct (first_prefix_ne (rc_ops cfg) (trim_space p)) as [[op rest]|] eqn:F.
    + apply first_prefix_ne_rest in F. subst rest.
      pose proof (trim_space_length_le (skipn (length op) (trim_space p))) as T2.
      pose proof (skipn_length_le (length op) (trim_space p)) as T3.
      intros H. injection H as <-. cbn [snd]. lia.
    + intros H. injection H as <-. cbn [snd].
      pose proof (trim_space_length_le (trim_space p)). lia.
Qed.

Lemma split_le_short cfg : split_le cfg ->
  forall s p c, short s = true -> In p (rc_split cfg (trim_space s)) -> parse_constraint cfg p = Some c ->
                short (snd c) = true.
Proof.
  intros SL s p c Hs Hp Hc. apply (short_le s); [|exact Hs].
  apply parse_constraint_bound_le in Hc. apply SL in Hp.
  pose proof (trim_space_length_le s). lia.
Qed.

Lemma split_fields_le t p : In p (split_fields t) -> (length p <= length t)%nat.
Proof. apply fields_In_length. Qed.

(* ---------- an ecosystem of the VLayer shape with a RangeCore range parser ---------- *)

Section SimpleEco.
  (* the model *)
  Variable C : Type.
  Variable pc : bytes -> option C.
  Variable cc : C -> C -> comparison.
  Variable ro : bool.
  Variable cfg : range_cfg.
  Variable name : bytes.
  Let e : eco := {| e_name := name; e_v := mk_vops pc cc ro; e_r := mk_simple_rops cfg |}.
  Hypothesis Hfind : Top.eco_or_none name = Some e.
  Hypothesis eager : rc_eager cfg = true.

  (* the generated side *)
  Variable GV GC GVR : Type.
  Variable GName : bytes.
  Variable NV : bytes -> option GV.
  Variable NVR : bytes -> option GVR.
  Variable GContains : GVR -> GV -> bool.
  Variable GCompare : GV -> GV -> Z.
  Variable GString : GV -> bytes.
  Variable mk : bytes -> GV -> GC.
  Variable mkR : bytes -> list GC -> GVR.
  Variable gop : GC -> bytes.
  Variable gver : GC -> GV.
  Variable absV : GV -> C.
  Variable D : bytes -> bool.

  Hypothesis H_name : GName = name.
  (* NewVersion: acceptance and the parsed structure *)
  Hypothesis H_nv : forall s, D s = true -> option_map absV (NV s) = pc (trim_space s).
  Hypothesis H_cmp : forall a b x y, D a = true -> D b = true -> NV a = Some x -> NV b = Some y ->
    GCompare x y = Z_of_cmp (cc (absV x) (absV y)).
  Hypothesis H_str : forall a x, D a = true -> NV a = Some x ->
    GString x = if ro then a else trim_space a.
  (* NewVersionRange computes the model's parse_range with NewVersion as the bound parser *)
  Hypothesis H_nvr : forall s, D s = true ->
    NVR s = option_map (fun rg => mkR (r_orig rg) (conc_cs NV mk (r_cs rg))) (parse_range GV NV cfg s).
  Hypothesis H_contains : forall o cs y,
    GContains (mkR o cs) y =
    forallb (fun g => sat (rc_sem cfg (gop g)) (cmp_of_Z (GCompare y (gver g)))) cs.
  Hypothesis gop_mk : forall o x, gop (mk o x) = o.
  Hypothesis gver_mk : forall o x, gver (mk o x) = x.
  (* the bounds of a range text inside D are inside D *)
  Hypothesis H_sub : forall s p c, D s = true -> In p (rc_split cfg (trim_space s)) ->
    parse_constraint cfg p = Some c -> D (snd c) = true.

  Lemma simple_vok s : D s = true -> self_vok e s = is_some (NV s).
  Proof.
    intros Ds. unfold self_vok, e, mk_vops, v_show, e_v, VLayer.parse. rewrite <- (H_nv s Ds).
    destruct (NV s); reflexivity.
  Qed.

  Lemma simple_core s x : D s = true -> NV s = Some x -> pc (trim_space s) = Some (absV x).
  Proof. intros Ds E. rewrite <- (H_nv s Ds), E. reflexivity. Qed.

  Lemma simple_vcmp a b x y : D a = true -> D b = true -> NV a = Some x -> NV b = Some y ->
    self_vcmp e a b = cc (absV x) (absV y).
  Proof.
    intros Da Db Ea Eb.
    apply (self_vcmp_core C pc cc ro name (mk_simple_rops cfg) a b (absV x) (absV y));
      apply simple_core; assumption.
  Qed.

  Lemma simple_parse_range s : D s = true ->
    parse_range bytes (oracle_parse (self_vok e)) cfg s = parse_range GV NV cfg s.
  Proof.
    intros Ds. apply parse_range_ext. intros p c Hp Hc.
    pose proof (H_sub s p c Ds Hp Hc) as Dc.
    unfold oracle_parse. rewrite (simple_vok _ Dc). destruct (NV (snd c)); reflexivity.
  Qed.

  Lemma simple_forallb cs y v :
    NV v = Some y -> D v = true ->
    (forall c, In c cs -> D (snd c) = true /\ is_some (NV (snd c)) = true) ->
    forallb (fun g => sat (rc_sem cfg (gop g)) (cmp_of_Z (GCompare y (gver g)))) (conc_cs NV mk cs) =
    forallb (sat_constraint bytes (oracle_parse (self_vok e)) (self_vcmp e) cfg v) cs.
  Proof.
    intros Ev Dv. induction cs as [|c cs IH]; intros H; [reflexivity|].
    destruct (H c (or_introl eq_refl)) as [Dc Sc].
    change (conc_cs NV mk (c :: cs))
      with ((match conc1 NV mk c with Some x => [x] | None => [] end) ++ conc_cs NV mk cs).
    unfold conc1. destruct (NV (snd c)) as [x|] eqn:Ec; [|discriminate]. cbn [option_map app forallb].
    rewrite IH by (intros c' Hc'; apply H; right; exact Hc'). f_equal.
    rewrite gop_mk, gver_mk, (H_cmp v (snd c) y x Dv Dc Ev Ec), cmp_of_Z_of_cmp.
    unfold sat_constraint, oracle_parse. rewrite (simple_vok _ Dc), Ec. cbn [is_some].
    rewrite (simple_vcmp v (snd c) y x Dv Dc Ev Ec). reflexivity.
  Qed.

  Theorem simple_lib_ties_on :
    lib_ties_on GV GVR GName NV NVR GContains GCompare GString (Top.model_lib name) D.
  Proof.
    rewrite (model_lib_of _ _ Hfind). constructor; cbn [l_name l_vok l_rok l_vcmp l_vshow l_rcontains].
    - exact H_name.
    - exact simple_vok.
    - intros s Ds. change (e_r e) with (mk_simple_rops cfg). cbn [r_show mk_simple_rops].
      rewrite (simple_parse_range s Ds), (H_nvr s Ds).
      destruct (parse_range GV NV cfg s); reflexivity.
    - intros a b x y Da Db Ea Eb. rewrite (simple_vcmp a b x y Da Db Ea Eb). apply (H_cmp a b x y); assumption.
    - intros a x Da Ea. rewrite (H_str a x Da Ea).
      unfold e, mk_vops, v_show, e_v, VLayer.parse. rewrite (simple_core a x Da Ea). reflexivity.
    - intros r v x y Dr Dv Er Ev. change (e_r e) with (mk_simple_rops cfg). cbn [r_contains mk_simple_rops].
      rewrite (simple_parse_range r Dr). rewrite (H_nvr r Dr) in Er.
      destruct (parse_range GV NV cfg r) as [rg|] eqn:PR; [|discriminate].
      cbn [option_map] in Er. injection Er as <-.
      rewrite (simple_vok v Dv), Ev. cbn [is_some].
      rewrite H_contains. unfold contains. apply simple_forallb; [exact Ev | exact Dv|].
      intros c Hc. apply parse_range_cs in PR.
      destruct (parse_constraints_In NV cfg _ _ PR c Hc) as (p & Hp & Ec & Bc).
      split; [apply (H_sub r p c Dr Hp Ec)|].
      unfold bound_ok in Bc. rewrite eager in Bc. destruct (NV (snd c)); [reflexivity | discriminate].
  Qed.
End SimpleEco.

Print Assumptions lib_ties_guard.
Print Assumptions lib_ties_on_of_all.
Print Assumptions runEcosystem_spec_guard.
Print Assumptions run_ecosystem_restrict.
Print Assumptions runEcosystem_spec_e2e.
Print Assumptions runEcosystem_e2e.
Print Assumptions runEcosystem_e2e_exit.
Print Assumptions model_lib_of.
Print Assumptions model_lib_tpo.
Print Assumptions parse_range_ext.
Print Assumptions split_le_short.
Print Assumptions simple_lib_ties_on.

(* ---------- the CLI model at an ecosystem key ---------- *)

Lemma model_cli_eco name rest :
  mem name Verif.Gen.Registry.cli_specs = false ->
  lookup name Verif.Gen.Registry.cli_registry = Some name ->
  Top.model_cli (name :: rest) = run_ecosystem (Top.model_lib name) rest.
Proof. intros H1 H2. unfold Top.model_cli, Verif.Cli.Model.run. rewrite H1, H2. reflexivity. Qed.
Print Assumptions model_cli_eco.

(* the same when [cmp_core] is a total preorder on the cores the parser produces only *)
Lemma model_lib_tpo_on name C (pc : bytes -> option C) cc ro rops (wf : C -> Prop) :
  Top.eco_or_none name = Some {| e_name := name; e_v := mk_vops pc cc ro; e_r := rops |} ->
  TotalPreorderOn wf cc -> (forall t c, pc t = Some c -> wf c) ->
  TotalPreorderOn (fun s => l_vok (Top.model_lib name) s = true) (l_vcmp (Top.model_lib name)).
Proof.
  intros H TPc W. rewrite (model_lib_of _ _ H). cbn [l_vcmp l_vok].
  apply (self_tpo_on C pc cc ro name rops wf TPc W).
Qed.
Print Assumptions model_lib_tpo_on.

(* ---------- the splitters of Eco/RangeCore.v do not lengthen ---------- *)

Lemma split_comma_space_le t p : In p (split_comma_space t) -> (length p <= length t)%nat.
Proof.
  unfold split_comma_space. cbv zeta.
  destruct (length (fields (replace_c ","%char " "%char t)) <=? 1)%nat.
  - intros [<-|[]]. lia.
  - intros H. apply fields_In_length in H. rewrite replace_c_length in H. exact H.
Qed.

Lemma split_comma_trim_le t p : In p (split_comma_trim t) -> (length p <= length t)%nat.
Proof.
  unfold split_comma_trim. intros H. apply filter_In in H as [H _]. apply in_map_iff in H as (q & <- & Hq).
  apply split_c_In_length in Hq. pose proof (trim_space_length_le q). lia.
Qed.

Lemma split_fields_no_and_le t p : In p (split_fields_no_and t) -> (length p <= length t)%nat.
Proof. unfold split_fields_no_and. intros H. apply filter_In in H as [H _]. apply fields_In_length. exact H. Qed.

Lemma split_golang_le t p : In p (split_golang t) -> (length p <= length t)%nat.
Proof.
  unfold split_golang. destruct (contains_c " "%char t).
  - apply fields_In_length.
  - intros [<-|[]]. lia.
Qed.

(* ---------- the CLI statements for one ecosystem key ---------- *)

Section EcoCli.
  Variable V VR : Type.
  Variable E_Name : bytes.
  Variable NV : bytes -> option V.
  Variable NVR : bytes -> option VR.
  Variable VR_Contains : VR -> V -> bool.
  Variable V_Compare : V -> V -> Z.
  Variable V_String : V -> bytes.
  Variable name : bytes.
  Local Notation L := (Top.model_lib name).
  Local Notation accepted := (fun s : bytes => l_vok L s = true).
  Hypothesis T : lib_ties_on V VR E_Name NV NVR VR_Contains V_Compare V_String L short.
  Hypothesis TP : TotalPreorderOn accepted (l_vcmp L).
  Hypothesis K1 : mem name Verif.Gen.Registry.cli_specs = false.
  Hypothesis K2 : lookup name Verif.Gen.Registry.cli_registry = Some name.
  Variable sort_by : forall A : Type, (A -> A -> Z) -> list A -> list A.
  Variable e1 e2 e3 : list bytes -> bytes.

  Local Notation runEco :=
    (G.runEcosystem V VR E_Name NV NVR VR_Contains V_Compare V_String sort_by e1 e2 e3).

  Theorem eco_runEcosystem_e2e (fuel : nat) (args : list bytes) :
    sort_ok V NV V_Compare sort_by accepted ->
    fits args -> (length args < fuel)%nat -> Forall (fun a => short a = true) args ->
    (forall rest, args = $"sort" :: rest -> Forall accepted rest -> show_respects L rest) ->
    exists r, runEco fuel args = Done r /\ shown (run_ecosystem L args) r.
  Proof.
    intros SO F Hf FD SR.
    apply (runEcosystem_e2e V VR E_Name NV NVR VR_Contains V_Compare V_String sort_by e1 e2 e3 L short accepted
             T SO TP fuel args F Hf FD).
    intros rest E OK. split; [exact OK | exact (SR rest E OK)].
  Qed.

  Theorem eco_cli_e2e (fuel : nat) (args : list bytes) :
    sort_ok V NV V_Compare sort_by accepted ->
    fits args -> (length args < fuel)%nat -> Forall (fun a => short a = true) args ->
    (forall rest, args = $"sort" :: rest -> Forall accepted rest -> show_respects L rest) ->
    exists r, runEco fuel args = Done r /\ shown (Top.model_cli (name :: args)) r.
  Proof.
    intros SO F Hf FD SR.
    destruct (eco_runEcosystem_e2e fuel args SO F Hf FD SR) as (r & E1 & E2).
    exists r. split; [exact E1|]. rewrite (model_cli_eco name args K1 K2). exact E2.
  Qed.

  Theorem eco_cli_e2e_exit (fuel : nat) (args : list bytes) :
    (forall l, Permutation (sort_by V V_Compare l) l) ->
    fits args -> (length args < fuel)%nat -> Forall (fun a => short a = true) args ->
    exists r, runEco fuel args = Done r /\ snd r = exit_code (Top.model_cli (name :: args)).
  Proof.
    intros SP F Hf FD.
    destruct (runEcosystem_e2e_exit V VR E_Name NV NVR VR_Contains V_Compare V_String sort_by e1 e2 e3 L short
                T fuel args SP F Hf FD) as (r & E1 & E2).
    exists r. split; [exact E1|]. rewrite (model_cli_eco name args K1 K2). exact E2.
  Qed.
End EcoCli.
Print Assumptions eco_runEcosystem_e2e.
Print Assumptions eco_cli_e2e.
Print Assumptions eco_cli_e2e_exit.
Print Assumptions short_lt.
Print Assumptions short_le.
Print Assumptions short_fits.
Print Assumptions short_trim.
Print Assumptions parse_all_ext.
Print Assumptions guard_Some.
Print Assumptions compare_spec_guard.
Print Assumptions contains_spec_guard.
Print Assumptions sort_spec_guard.
Print Assumptions first_invalid_restrict.
Print Assumptions sort_ok_guard.
Print Assumptions parse_constraints_ext.
Print Assumptions parse_constraints_In.
Print Assumptions parse_range_cs.
Print Assumptions first_prefix_rest.
Print Assumptions first_prefix_ne_rest.
Print Assumptions parse_constraint_bound_le.
Print Assumptions split_fields_le.
Print Assumptions simple_vok.
Print Assumptions simple_core.
Print Assumptions simple_vcmp.
Print Assumptions simple_parse_range.
Print Assumptions simple_forallb.
Print Assumptions split_comma_space_le.
Print Assumptions split_comma_trim_le.
Print Assumptions split_fields_no_and_le.
Print Assumptions split_golang_le.
