(* Tie/E2E/CommonK6.v — additions to Tie/E2E/Common.v shared by the end-to-end files of alpm, cargo, semver,
   nuget and npm.

     eco_runEcosystem_e2e_on, eco_cli_e2e_on, eco_cli_e2e_exit_on
                             the three CLI statements of Common.EcoCli for an ARBITRARY decidable domain D of
                             texts (alpm: short and ASCII) and an arbitrary class P of version texts on which
                             the model's comparison is a total preorder (alpm: one pkgrel class)
     model_lib_tpo_class     the model's comparison of an ecosystem of the VLayer shape is a total preorder on
                             the texts whose parsed core satisfies wf, when cmp_core is one on wf
     parse_constraint_bound_forallb, sub_dom
                             the bounds of a RangeCore range text inside [short && forallb q] are inside it *)
From Coq Require Import ZArith List Ascii Bool Lia Permutation Sorted.
From Verif.Base Require Import Bytes GoNum Ord Sorting Imp ImpFacts ImpErr ImpCore BytesFacts.
From Verif.Vers Require Import Model.
From Verif.Cli Require Import Model Facts.
From Verif.Eco Require Import RangeCore Iface VLayer.
From Verif.Tie Require Import Tactics.
From Verif.Tie.Loops Require Import Common.
From Verif.Tie.Parse Require Import Common RangeCommon RangeTie Scanners.
From Verif.Tie.Cli Require Import Common Spec Ties.
From Verif.Properties.Support Require Import SimpleRops.
From Verif.Tie.E2E Require Import Common.
From Verif Require Top.
Import ListNotations.
Local Open Scope Z_scope.

(* ---------- the CLI statements for one ecosystem key, any domain, any order class ---------- *)

Section EcoCliOn.
  Variable V VR : Type.
  Variable E_Name : bytes.
  Variable NV : bytes -> option V.
  Variable NVR : bytes -> option VR.
  Variable VR_Contains : VR -> V -> bool.
  Variable V_Compare : V -> V -> Z.
  Variable V_String : V -> bytes.
  Variable name : bytes.
  Variable D : bytes -> bool.
  Variable P : bytes -> Prop.
  Local Notation L := (Top.model_lib name).
  Local Notation accepted := (fun s : bytes => l_vok L s = true).
  Hypothesis T : lib_ties_on V VR E_Name NV NVR VR_Contains V_Compare V_String L D.
  Hypothesis TP : TotalPreorderOn P (l_vcmp L).
  Hypothesis K1 : mem name Verif.Gen.Registry.cli_specs = false.
  Hypothesis K2 : lookup name Verif.Gen.Registry.cli_registry = Some name.
  Variable sort_by : forall A : Type, (A -> A -> Z) -> list A -> list A.
  Variable e1 e2 e3 : list bytes -> bytes.

  Local Notation runEco :=
    (G.runEcosystem V VR E_Name NV NVR VR_Contains V_Compare V_String sort_by e1 e2 e3).

  Theorem eco_runEcosystem_e2e_on (fuel : nat) (args : list bytes) :
    sort_ok V NV V_Compare sort_by P ->
    fits args -> (length args < fuel)%nat -> Forall (fun a => D a = true) args ->
    (forall rest, args = $"sort" :: rest -> Forall accepted rest -> Forall P rest /\ show_respects L rest) ->
    exists r, runEco fuel args = Done r /\ shown (run_ecosystem L args) r.
  Proof.
    intros SO F Hf FD SR.
    exact (runEcosystem_e2e V VR E_Name NV NVR VR_Contains V_Compare V_String sort_by e1 e2 e3 L D P
             T SO TP fuel args F Hf FD SR).
  Qed.

  Theorem eco_cli_e2e_on (fuel : nat) (args : list bytes) :
    sort_ok V NV V_Compare sort_by P ->
    fits args -> (length args < fuel)%nat -> Forall (fun a => D a = true) args ->
    (forall rest, args = $"sort" :: rest -> Forall accepted rest -> Forall P rest /\ show_respects L rest) ->
    exists r, runEco fuel args = Done r /\ shown (Top.model_cli (name :: args)) r.
  Proof.
    intros SO F Hf FD SR.
    destruct (eco_runEcosystem_e2e_on fuel args SO F Hf FD SR) as (r & E1 & E2).
    exists r. split; [exact E1|]. rewrite (model_cli_eco name args K1 K2). exact E2.
  Qed.

  Theorem eco_cli_e2e_exit_on (fuel : nat) (args : list bytes) :
    (forall l, Permutation (sort_by V V_Compare l) l) ->
    fits args -> (length args < fuel)%nat -> Forall (fun a => D a = true) args ->
    exists r, runEco fuel args = Done r /\ snd r = exit_code (Top.model_cli (name :: args)).
  Proof.
    intros SP F Hf FD.
    destruct (runEcosystem_e2e_exit V VR E_Name NV NVR VR_Contains V_Compare V_String sort_by e1 e2 e3 L D
                T fuel args SP F Hf FD) as (r & E1 & E2).
    exists r. split; [exact E1|]. rewrite (model_cli_eco name args K1 K2). exact E2.
  Qed.
End EcoCliOn.
Print Assumptions eco_runEcosystem_e2e_on.
Print Assumptions eco_cli_e2e_on.
Print Assumptions eco_cli_e2e_exit_on.

(* ---------- the order laws on a class of parsed cores ---------- *)

Lemma model_lib_tpo_class name C (pc : bytes -> option C) cc ro rops (wf : C -> Prop) :
  Top.eco_or_none name = Some {| e_name := name; e_v := mk_vops pc cc ro; e_r := rops |} ->
  TotalPreorderOn wf cc ->
  TotalPreorderOn (fun s => exists c, pc (trim_space s) = Some c /\ wf c) (l_vcmp (Top.model_lib name)).
Proof.
  intros H T. rewrite (model_lib_of _ _ H). cbn [l_vcmp].
  constructor.
  - intros a (ca & Ha & Wa). rewrite (self_vcmp_core C pc cc ro name rops a a ca ca Ha Ha).
    apply (tpo_refl T). exact Wa.
  - intros a b (ca & Ha & Wa) (cb & Hb & Wb).
    rewrite (self_vcmp_core C pc cc ro name rops b a cb ca Hb Ha),
            (self_vcmp_core C pc cc ro name rops a b ca cb Ha Hb).
    apply (tpo_anti T); assumption.
  - intros a b c x (ca & Ha & Wa) (cb & Hb & Wb) (c' & Hc & Wc).
    rewrite (self_vcmp_core C pc cc ro name rops a b ca cb Ha Hb),
            (self_vcmp_core C pc cc ro name rops b c cb c' Hb Hc),
            (self_vcmp_core C pc cc ro name rops a c ca c' Ha Hc).
    apply (tpo_trans T); assumption.
  - intros a b c (ca & Ha & Wa) (cb & Hb & Wb) (c' & Hc & Wc).
    rewrite (self_vcmp_core C pc cc ro name rops a b ca cb Ha Hb),
            (self_vcmp_core C pc cc ro name rops b c cb c' Hb Hc),
            (self_vcmp_core C pc cc ro name rops a c ca c' Ha Hc).
    apply (tpo_eq_l T); assumption.
Qed.
Print Assumptions model_lib_tpo_class.

(* ---------- a domain "short and every byte satisfies q" is closed under taking bounds ---------- *)

Lemma first_prefix_ne_forallb (q : ascii -> bool) ops s op rest :
  first_prefix_ne ops s = Some (op, rest) -> forallb q s = true -> forallb q rest = true.
Proof.
  intros H Q. apply first_prefix_ne_rest in H. subst rest. apply forallb_skipn. exact Q.
Qed.

Lemma first_prefix_forallb (q : ascii -> bool) ops s op rest :
  first_prefix ops s = Some (op, rest) -> forallb q s = true -> forallb q rest = true.
Proof.
  intros H Q. apply first_prefix_rest in H. subst rest. apply forallb_skipn. exact Q.
Qed.

Lemma parse_constraint_bound_forallb (q : ascii -> bool) cfg p c :
  parse_constraint cfg p = Some c -> forallb q p = true -> forallb q (snd c) = true.
Proof.
  unfold parse_constraint. cbv zeta. intros H Q.
  pose proof (forallb_trim_space q p Q) as Qt.
  destruct (rc_style cfg).
  - destruct (first_prefix (rc_ops cfg) (trim_space p)) as [[op rest]|] eqn:F.
    + pose proof (first_prefix_forallb q _ _ _ _ F Qt) as Qr.
      pose proof (forallb_trim_space q rest Qr) as Qb.
      destruct (trim_space rest) eqn:E; [discriminate|]. injection H as <-. exact Qb.
    + injection H as <-. exact Qt.
  - destruct (first_prefix (rc_ops cfg) (trim_space p)) as [[op rest]|] eqn:F.
    + pose proof (first_prefix_forallb q _ _ _ _ F Qt) as Qr.
      injection H as <-. apply forallb_trim_space. exact Qr.
    + injection H as <-. exact Qt.
  - destruct (trim_space p) as [|x t] eqn:E; [discriminate|]. rewrite <- E in *.
    destruct (first_prefix_ne (rc_ops cfg) (trim_space p)) as [[op rest]|] eqn:F.
    + pose proof (first_prefix_ne_forallb q _ _ _ _ F Qt) as Qr.
      injection H as <-. apply forallb_trim_space. exact Qr.
    + injection H as <-. apply forallb_trim_space. exact Qt.
Qed.
Print Assumptions parse_constraint_bound_forallb.

Definition dom_q (q : ascii -> bool) (s : bytes) : bool := short s && forallb q s.

Lemma dom_q_short q s : dom_q q s = true -> short s = true.
Proof. unfold dom_q. intros H. apply andb_true_iff in H. tauto. Qed.

Lemma dom_q_all q s : dom_q q s = true -> forallb q s = true.
Proof. unfold dom_q. intros H. apply andb_true_iff in H. tauto. Qed.

Lemma sub_dom (q : ascii -> bool) cfg :
  split_le cfg ->
  (forall t p, In p (rc_split cfg t) -> forallb q t = true -> forallb q p = true) ->
  forall s p c, dom_q q s = true -> In p (rc_split cfg (trim_space s)) -> parse_constraint cfg p = Some c ->
                dom_q q (snd c) = true.
Proof.
  intros SL SQ s p c Ds Hp Hc. unfold dom_q. apply andb_true_iff. split.
  - apply (split_le_short cfg SL s p c (dom_q_short q s Ds) Hp Hc).
  - apply (parse_constraint_bound_forallb q cfg p c Hc).
    apply (SQ _ _ Hp). apply forallb_trim_space. apply (dom_q_all q s Ds).
Qed.
Print Assumptions sub_dom.
Print Assumptions first_prefix_ne_forallb.
Print Assumptions first_prefix_forallb.
Print Assumptions dom_q_short.
Print Assumptions dom_q_all.

(* ---------- an ecosystem of the VLayer shape with a CUSTOM range model ---------- *)

Section CustomEco.
  (* the model *)
  Variable C : Type.
  Variable pc : bytes -> option C.
  Variable cc : C -> C -> comparison.
  Variable ro : bool.
  Variable rops_ : rops.
  Variable name : bytes.
  Let e : eco := {| e_name := name; e_v := mk_vops pc cc ro; e_r := rops_ |}.
  Hypothesis Hfind : Top.eco_or_none name = Some e.

  (* the generated side *)
  Variable GV GVR : Type.
  Variable GName : bytes.
  Variable NV : bytes -> option GV.
  Variable NVR : bytes -> option GVR.
  Variable GContains : GVR -> GV -> bool.
  Variable GCompare : GV -> GV -> Z.
  Variable GString : GV -> bytes.
  Variable absV : GV -> C.
  Variable D : bytes -> bool.

  Hypothesis H_name : GName = name.
  Hypothesis H_nv : forall s, D s = true -> option_map absV (NV s) = pc (trim_space s).
  Hypothesis H_cmp : forall a b x y, D a = true -> D b = true -> NV a = Some x -> NV b = Some y ->
    GCompare x y = Z_of_cmp (cc (absV x) (absV y)).
  Hypothesis H_str : forall a x, D a = true -> NV a = Some x ->
    GString x = if ro then a else trim_space a.

  Lemma custom_vok s : D s = true -> self_vok e s = is_some (NV s).
  Proof.
    intros Ds. unfold self_vok, e, mk_vops, v_show, e_v, VLayer.parse. rewrite <- (H_nv s Ds).
    destruct (NV s); reflexivity.
  Qed.

  Lemma custom_core s x : D s = true -> NV s = Some x -> pc (trim_space s) = Some (absV x).
  Proof. intros Ds E. rewrite <- (H_nv s Ds), E. reflexivity. Qed.

  Lemma custom_vcmp a b x y : D a = true -> D b = true -> NV a = Some x -> NV b = Some y ->
    self_vcmp e a b = cc (absV x) (absV y).
  Proof.
    intros Da Db Ea Eb.
    apply (self_vcmp_core C pc cc ro name rops_ a b (absV x) (absV y)); apply custom_core; assumption.
  Qed.

  (* the four fields that do not speak about ranges *)
  Hypothesis H_rok : forall s, D s = true ->
    (match r_show rops_ (self_vok e) s with Some _ => true | None => false end) = is_some (NVR s).
  Hypothesis H_contains : forall r v x y, D r = true -> D v = true -> NVR r = Some x -> NV v = Some y ->
    GContains x y = match r_contains rops_ (self_vok e) (self_vcmp e) r v with Some b => b | None => false end.

  Theorem custom_lib_ties_on :
    lib_ties_on GV GVR GName NV NVR GContains GCompare GString (Top.model_lib name) D.
  Proof.
    rewrite (model_lib_of _ _ Hfind). constructor; cbn [l_name l_vok l_rok l_vcmp l_vshow l_rcontains].
    - exact H_name.
    - exact custom_vok.
    - exact H_rok.
    - intros a b x y Da Db Ea Eb. rewrite (custom_vcmp a b x y Da Db Ea Eb). apply (H_cmp a b x y); assumption.
    - intros a x Da Ea. rewrite (H_str a x Da Ea).
      unfold e, mk_vops, v_show, e_v, VLayer.parse. rewrite (custom_core a x Da Ea). reflexivity.
    - exact H_contains.
  Qed.
End CustomEco.
Print Assumptions custom_vok.
Print Assumptions custom_core.
Print Assumptions custom_vcmp.
Print Assumptions custom_lib_ties_on.

(* ---------- the version level alone: `compare` and `sort` ---------- *)

(* When the range functions of an ecosystem stay oracles, the four version-level fields of [lib_ties_on]
   still give the end-to-end statements for the commands that never reach the range functions.  The record
   [lib_ties_on] is completed with a stand-in range parser / Contains read off the library record itself
   ([NVR0], [Contains0]: possible when Contains cannot tell a version text from the String() of its parse), and the generated
   runEcosystem at `compare` / `sort` does not depend on the two range components. *)
Section VersionOnly.
  Variable V : Type.
  Variable E_Name : bytes.
  Variable NV : bytes -> option V.
  Variable V_Compare : V -> V -> Z.
  Variable V_String : V -> bytes.
  Variable L : lib_ops.
  Variable D : bytes -> bool.

  Hypothesis vo_name : E_Name = l_name L.
  Hypothesis vo_vok : forall s, D s = true -> l_vok L s = is_some (NV s).
  Hypothesis vo_cmp : forall a b x y, D a = true -> D b = true -> NV a = Some x -> NV b = Some y ->
    V_Compare x y = Z_of_cmp (l_vcmp L a b).
  Hypothesis vo_show : forall a x, D a = true -> NV a = Some x -> V_String x = l_vshow L a.
  (* the library's Contains does not tell a version text from the String() of its parse (String() is the text,
     or the trimmed text of an ecosystem whose version layer looks at the trimmed text only) *)
  Hypothesis vo_txt : forall r a x, D a = true -> NV a = Some x ->
    l_rcontains L r (V_String x) = l_rcontains L r a.

  Definition NVR0 (r : bytes) : option bytes := if l_rok L r then Some r else None.
  Definition Contains0 (r : bytes) (y : V) : bool := l_rcontains L r (V_String y).

  Theorem version_only_lib_ties_on :
    lib_ties_on V bytes E_Name NV NVR0 Contains0 V_Compare V_String L D.
  Proof.
    constructor.
    - exact vo_name.
    - exact vo_vok.
    - intros s _. unfold NVR0. destruct (l_rok L s); reflexivity.
    - exact vo_cmp.
    - exact vo_show.
    - intros r v x y _ Dv Er Ev. unfold NVR0 in Er. destruct (l_rok L r); [|discriminate].
      injection Er as <-. unfold Contains0. apply (vo_txt r v y Dv Ev).
  Qed.

  Variable VR : Type.
  Variable NVR : bytes -> option VR.
  Variable VR_Contains : VR -> V -> bool.
  Variable sort_by : forall A : Type, (A -> A -> Z) -> list A -> list A.
  Variable e1 e2 e3 : list bytes -> bytes.

  Lemma runEcosystem_spec_version_only cmd rest :
    cmd = $"compare" \/ cmd = $"sort" ->
    runEcosystem_spec V VR E_Name NV NVR VR_Contains V_Compare V_String sort_by e1 e2 e3 (cmd :: rest) =
    runEcosystem_spec V bytes E_Name NV NVR0 Contains0 V_Compare V_String sort_by e1 e2 e3 (cmd :: rest).
  Proof.
    intros [-> | ->]; unfold runEcosystem_spec.
    - change (beq ($"compare" : bytes) $"compare") with true. reflexivity.
    - change (beq ($"sort" : bytes) $"compare") with false. change (beq ($"sort" : bytes) $"sort") with true.
      reflexivity.
  Qed.

  Variable P : bytes -> Prop.
  Hypothesis SO : sort_ok V NV V_Compare sort_by P.
  Hypothesis TP : TotalPreorderOn P (l_vcmp L).

  (* `univers <eco> compare|sort <rest>`: the generated runEcosystem with ANY range parser and Contains *)
  Theorem version_only_e2e (fuel : nat) (cmd : bytes) (rest : list bytes) :
    cmd = $"compare" \/ cmd = $"sort" ->
    fits (cmd :: rest) -> (length (cmd :: rest) < fuel)%nat -> Forall (fun a => D a = true) (cmd :: rest) ->
    (cmd = $"sort" -> Forall (fun a => l_vok L a = true) rest -> Forall P rest /\ show_respects L rest) ->
    exists r,
      G.runEcosystem V VR E_Name NV NVR VR_Contains V_Compare V_String sort_by e1 e2 e3 fuel (cmd :: rest) = Done r /\
      shown (run_ecosystem L (cmd :: rest)) r.
  Proof.
    intros Hc F Hf FD SR.
    exists (runEcosystem_spec V VR E_Name NV NVR VR_Contains V_Compare V_String sort_by e1 e2 e3 (cmd :: rest)). split.
    { apply runEcosystem_eq; [apply sort_len_of_perm, (s_perm _ _ _ _ _ SO) | exact F | exact Hf]. }
    refine (eq_ind_r (fun z => shown (run_ecosystem L (cmd :: rest)) z) _ (runEcosystem_spec_version_only cmd rest Hc)).
    apply (runEcosystem_spec_e2e V bytes E_Name NV NVR0 Contains0 V_Compare V_String sort_by e1 e2 e3 L D P
             version_only_lib_ties_on SO TP (cmd :: rest) FD).
    intros rest' E OK. injection E as -> <-. apply SR; [reflexivity | exact OK].
  Qed.
End VersionOnly.
Print Assumptions version_only_lib_ties_on.
Print Assumptions runEcosystem_spec_version_only.
Print Assumptions version_only_e2e.

(* ---------- an ecosystem of the VLayer shape, version level only ---------- *)

Section CustomEcoV.
  Variable C : Type.
  Variable pc : bytes -> option C.
  Variable cc : C -> C -> comparison.
  Variable ro : bool.
  Variable rops_ : rops.
  Variable name : bytes.
  Let e : eco := {| e_name := name; e_v := mk_vops pc cc ro; e_r := rops_ |}.
  Hypothesis Hfind : Top.eco_or_none name = Some e.

  Variable GV : Type.
  Variable GName : bytes.
  Variable NV : bytes -> option GV.
  Variable GCompare : GV -> GV -> Z.
  Variable GString : GV -> bytes.
  Variable absV : GV -> C.
  Variable D : bytes -> bool.

  Hypothesis H_name : GName = name.
  Hypothesis H_nv : forall s, D s = true -> option_map absV (NV s) = pc (trim_space s).
  Hypothesis H_cmp : forall a b x y, D a = true -> D b = true -> NV a = Some x -> NV b = Some y ->
    GCompare x y = Z_of_cmp (cc (absV x) (absV y)).
  Hypothesis H_str : forall a x, D a = true -> NV a = Some x ->
    GString x = if ro then a else trim_space a.
  (* the range model reads the version text through the oracles only (when String() is the trimmed text) *)
  Hypothesis H_txt : ro = false -> forall vok vcmp r a,
    (forall b, vcmp (trim_space a) b = vcmp a b) -> vok (trim_space a) = vok a ->
    r_contains rops_ vok vcmp r (trim_space a) = r_contains rops_ vok vcmp r a.

  Local Notation L := (Top.model_lib name).

  Lemma self_parse_trim a : VLayer.parse pc ro (trim_space a) =
    option_map (fun v => {| v_core := v_core v; v_orig := if ro then trim_space a else v_orig v |}) (VLayer.parse pc ro a).
  Proof.
    unfold VLayer.parse. cbv zeta. rewrite trim_space_idem. destruct (pc (trim_space a)); [|reflexivity].
    cbn [option_map v_core v_orig]. destruct ro; reflexivity.
  Qed.

  Lemma self_vok_trim a : self_vok e (trim_space a) = self_vok e a.
  Proof.
    unfold self_vok, e, mk_vops, v_show, e_v. rewrite self_parse_trim.
    destruct (VLayer.parse pc ro a); reflexivity.
  Qed.

  Lemma self_vcmp_trim a b : self_vcmp e (trim_space a) b = self_vcmp e a b.
  Proof.
    unfold self_vcmp, e, mk_vops, v_cmp, e_v. rewrite self_parse_trim.
    destruct (VLayer.parse pc ro a); [|reflexivity]. cbn [option_map].
    destruct (VLayer.parse pc ro b); reflexivity.
  Qed.

  Lemma custom_vo_txt r a x : D a = true -> NV a = Some x ->
    l_rcontains L r (GString x) = l_rcontains L r a.
  Proof.
    intros Da Ea. rewrite (H_str a x Da Ea). rewrite (model_lib_of _ _ Hfind). cbn [l_rcontains].
    destruct (Bool.bool_dec ro true) as [R|R]; [|apply Bool.not_true_is_false in R]; rewrite R; [reflexivity|].
    change (e_r e) with rops_.
    rewrite (H_txt R (self_vok e) (self_vcmp e) r a (self_vcmp_trim a) (self_vok_trim a)). reflexivity.
  Qed.

  (* the four version-level fields of [lib_ties_on], with the stand-in range components *)
  Theorem custom_version_lib_ties_on :
    lib_ties_on GV bytes GName NV (NVR0 L) (Contains0 GV GString L) GCompare GString L D.
  Proof.
    apply version_only_lib_ties_on; [| | | | exact custom_vo_txt];
      rewrite (model_lib_of _ _ Hfind); cbn [l_name l_vok l_vcmp l_vshow l_rcontains].
    - exact H_name.
    - apply (custom_vok C pc cc ro rops_ name GV NV absV D H_nv).
    - intros a b x y Da Db Ea Eb.
      etransitivity; [apply (H_cmp a b x y); assumption|]. f_equal. symmetry.
      apply (custom_vcmp C pc cc ro rops_ name GV NV absV D H_nv a b x y Da Db Ea Eb).
    - intros a x Da Ea. rewrite (H_str a x Da Ea).
      unfold e, mk_vops, v_show, e_v, VLayer.parse.
      rewrite (custom_core C pc GV NV absV D H_nv a x Da Ea). reflexivity.
  Qed.

  Variable VR : Type.
  Variable NVR : bytes -> option VR.
  Variable VR_Contains : VR -> GV -> bool.
  Variable sort_by : forall A : Type, (A -> A -> Z) -> list A -> list A.
  Variable e1 e2 e3 : list bytes -> bytes.
  Variable P : bytes -> Prop.
  Hypothesis SO : sort_ok GV NV GCompare sort_by P.
  Hypothesis TP : TotalPreorderOn P (l_vcmp L).
  Hypothesis K1 : mem name Verif.Gen.Registry.cli_specs = false.
  Hypothesis K2 : lookup name Verif.Gen.Registry.cli_registry = Some name.

  (* `univers <eco> compare|sort ...` with ANY range parser and ANY Contains in the bundle *)
  Theorem custom_version_only_cli_e2e (fuel : nat) (cmd : bytes) (rest : list bytes) :
    cmd = $"compare" \/ cmd = $"sort" ->
    fits (cmd :: rest) -> (length (cmd :: rest) < fuel)%nat -> Forall (fun a => D a = true) (cmd :: rest) ->
    (cmd = $"sort" -> Forall (fun a => l_vok L a = true) rest -> Forall P rest /\ show_respects L rest) ->
    exists r,
      G.runEcosystem GV VR GName NV NVR VR_Contains GCompare GString sort_by e1 e2 e3 fuel (cmd :: rest) = Done r /\
      shown (Top.model_cli (name :: cmd :: rest)) r.
  Proof.
    intros Hc F Hf FD SR. rewrite (model_cli_eco name (cmd :: rest) K1 K2).
    apply (version_only_e2e GV GName NV GCompare GString L D
             (o_name _ _ _ _ _ _ _ _ _ _ custom_version_lib_ties_on)
             (o_vok _ _ _ _ _ _ _ _ _ _ custom_version_lib_ties_on)
             (o_cmp _ _ _ _ _ _ _ _ _ _ custom_version_lib_ties_on)
             (o_show _ _ _ _ _ _ _ _ _ _ custom_version_lib_ties_on)
             custom_vo_txt VR NVR VR_Contains sort_by e1 e2 e3 P SO TP fuel cmd rest Hc F Hf FD SR).
  Qed.
End CustomEcoV.
Print Assumptions custom_version_lib_ties_on.
Print Assumptions custom_version_only_cli_e2e.
Print Assumptions self_parse_trim.
Print Assumptions self_vok_trim.
Print Assumptions self_vcmp_trim.
Print Assumptions custom_vo_txt.
