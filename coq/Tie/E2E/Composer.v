(* Tie/E2E/Composer.v — END TO END for composer: the bundle of the CLI section (Gen/Parse/CmdCore.v)
   built out of the functions generated from pkg/ecosystem/composer, tied to [Top.model_lib $"composer"].

     Name             Gen.Code.Composer.Ecosystem_Name
     NewVersion       the oracle [nv] (Ecosystem_NewVersion is NOT translated: assignment to a field)
     NewVersionRange  Gen.Parse.Composer.Ecosystem_NewVersionRange (translated: groups, hyphen ranges, space / comma
                      lists) at the oracles [single] (parseSingleConstraint, NOT translated: a nil pointer as a value)
                      and [nv], fuel length s + 3, made total
     Compare          Gen.Code.Composer.Version_Compare (fully translated, loop-free)
     String           Gen.Code.Composer.Version_String
     Contains         Gen.Loops.Composer.VersionRange_Contains (the translated nested loop), fuel
                      number of groups + longest group + 2, made total, at the oracle [matches]
                      (constraint.matches and the three matchesCaret* are NOT translated: == on *Version)

   No existing file ties the nested loop of Contains: [tie_loops_composer_contains] is proved HERE (the loop
   returns existsb (forallb (matches . v)) over the groups, for group lists and groups of an int length, fuel
   above both lengths; inner loop: [forallb_loop], outer loop: Tie/Parse/ListCursor.cursor_forall).

   Hypotheses ([oracles]):
     nv_agrees       forall e s, match nv e s with
                                 | Some v => M.parse_core (trim_space s) = Some (Tie.Composer.abs v) /\ original v = s
                                 | None => M.parse_core (trim_space s) = None end
                     (the fields of the Go struct the model does not keep — build, and the numbers of a dev
                      branch — are left unspecified)
     single_agrees   forall c, single c = option_map (map cc) (RM.parse_single (vok nv) c)
     cc_ge, cc_le    what the reading [cc] of model constraints as Go values is on the two comparators that the
                     translated parseHyphenRange builds (the three hypotheses of Tie/Parse/ComposerRange.v;
                     [cc] is a field of the record)
     matches_agrees  forall r rg g k v y, RM.parse_range (vok nv) r = Some rg -> In g (r_groups rg) -> In k g ->
                       nv mk_Ecosystem v = Some y ->
                       matches (cc k) y = RM.matches (self_vcmp entry) v (Tie.Composer.abs y) k
                     (only for the constraints of a parsed range and the versions NewVersion returns)
   name: none.  vok: nv_agrees.  cmp: nv_agrees.  show: nv_agrees.  rok: nv_agrees, single_agrees, cc_ge, cc_le.
   contains: all five.

   [composer_lib_ties_on]: all six fields of [lib_ties] on the texts of length < 2^63 - 64. *)
From Coq Require Import ZArith List Ascii Bool Lia Permutation Sorted.
From Verif.Base Require Import Bytes GoNum GoOps Ord Sorting Imp ImpFacts ImpErr ImpCore BytesFacts.
From Verif.Cli Require Import Model.
From Verif.Eco Require Import RangeCore Iface VLayer.
From Verif.Eco.Composer Require Version VersionFacts Range Entry.
From Verif.Gen.Code Require Composer.
From Verif.Gen.Loops Require Composer.
From Verif.Gen.Parse Require Composer CmdCore.
From Verif.Tie Require Import Tactics.
From Verif.Tie Require Composer.
From Verif.Tie.Loops Require Import Common.
From Verif.Tie.Parse Require Import Common RangeCommon RangeTie Scanners ListCursor.
From Verif.Tie.Parse Require ComposerRange RangeInv NpmRange.
From Verif.Tie.Cli Require Import Common Spec Ties.
From Verif.Tie.E2E Require Import Common.
From Verif.Properties.Support Require Import SimpleRops.
From Verif Require Top.
Import ListNotations.
Local Open Scope Z_scope.

Module G := Verif.Gen.Code.Composer.
Module L := Verif.Gen.Loops.Composer.
Module P := Verif.Gen.Parse.Composer.
Module M := Verif.Eco.Composer.Version.
Module MF := Verif.Eco.Composer.VersionFacts.
Module RM := Verif.Eco.Composer.Range.
Module TV := Verif.Tie.Composer.
Module PR := Verif.Tie.Parse.ComposerRange.

(* ---------- the range parser looks at the validity oracle pointwise ---------- *)

Section Ext.
  Variable vok1 vok2 : bytes -> bool.
  Hypothesis H : forall t, vok1 t = vok2 t.

  Lemma vfields_ext s : RM.vfields vok1 s = RM.vfields vok2 s.
  Proof. unfold RM.vfields. rewrite H. reflexivity. Qed.

  Lemma ge_lt_ext a b : RM.ge_lt vok1 a b = RM.ge_lt vok2 a b.
  Proof. unfold RM.ge_lt. rewrite !H. reflexivity. Qed.

  Lemma parse_caret_ext s : RM.parse_caret vok1 s = RM.parse_caret vok2 s.
  Proof.
    unfold RM.parse_caret. cbv zeta. rewrite vfields_ext.
    destruct (RM.vfields vok2 s) as [[b|ma mi pa ex st sn]|]; [reflexivity| |reflexivity].
    rewrite !ge_lt_ext, !H. reflexivity.
  Qed.

  Lemma parse_tilde_ext s : RM.parse_tilde vok1 s = RM.parse_tilde vok2 s.
  Proof.
    unfold RM.parse_tilde. rewrite vfields_ext.
    destruct (RM.vfields vok2 s) as [[b|ma mi pa ex st sn]|]; [reflexivity| |reflexivity].
    rewrite !ge_lt_ext. reflexivity.
  Qed.

  Lemma parse_wildcard_ext s : RM.parse_wildcard vok1 s = RM.parse_wildcard vok2 s.
  Proof.
    unfold RM.parse_wildcard. cbv zeta.
    destruct (RM.wild_index _) as [[|[|[|n]]]|]; try reflexivity.
    - destruct (atoi _); [apply ge_lt_ext | reflexivity].
    - destruct (atoi _); [|reflexivity]. destruct (atoi _); [apply ge_lt_ext | reflexivity].
  Qed.

  Lemma parse_stability_ext s : RM.parse_stability vok1 s = RM.parse_stability vok2 s.
  Proof.
    unfold RM.parse_stability. cbv zeta.
    destruct (split_c "@"%char s) as [|p0 [|p1 [|p2 r]]]; try reflexivity.
    destruct (trim_space p0); [reflexivity|]. rewrite H. reflexivity.
  Qed.

  Lemma parse_single_ext s : RM.parse_single vok1 s = RM.parse_single vok2 s.
  Proof.
    unfold RM.parse_single. cbv zeta.
    destruct (beq _ _); [reflexivity|].
    destruct (has_prefix _ _); [apply parse_caret_ext|].
    destruct (has_prefix _ _); [apply parse_tilde_ext|].
    destruct (existsb _ _); [apply parse_wildcard_ext|].
    destruct (first_prefix _ _) as [[op rest]|].
    - destruct (contains_c _ _); [apply parse_stability_ext|]. rewrite H. reflexivity.
    - destruct (contains_c _ _); [apply parse_stability_ext|]. rewrite H. reflexivity.
  Qed.

  Lemma parse_hyphen_ext s : RM.parse_hyphen vok1 s = RM.parse_hyphen vok2 s.
  Proof.
    unfold RM.parse_hyphen. cbv zeta. destruct (has_suffix _ _); [reflexivity|].
    destruct (split_sub _ s) as [|a [|b [|c r]]]; try reflexivity.
    destruct (trim_space a); [reflexivity|]. destruct (trim_space b); [reflexivity|].
    rewrite !H. reflexivity.
  Qed.

  Lemma parse_parts_ext ps : RM.parse_parts vok1 ps = RM.parse_parts vok2 ps.
  Proof.
    induction ps as [|p r IH]; [reflexivity|]. cbn [RM.parse_parts]. rewrite parse_single_ext, IH. reflexivity.
  Qed.

  Lemma parse_one_ext s : RM.parse_one vok1 s = RM.parse_one vok2 s.
  Proof.
    unfold RM.parse_one, RM.parse_space. cbv zeta.
    destruct (contains_sub _ _); [apply parse_hyphen_ext|].
    destruct (_ || _); [apply parse_parts_ext | apply parse_single_ext].
  Qed.

  Lemma parse_all_ext ps : RM.parse_all vok1 ps = RM.parse_all vok2 ps.
  Proof.
    induction ps as [|p r IH]; [reflexivity|]. cbn [RM.parse_all]. rewrite parse_one_ext, IH. reflexivity.
  Qed.

  Lemma parse_range_ext s : RM.parse_range vok1 s = RM.parse_range vok2 s.
  Proof.
    unfold RM.parse_range, RM.parse_groups. cbv zeta.
    destruct (trim_space s) as [|x t]; [reflexivity|].
    rewrite parse_all_ext, parse_one_ext. reflexivity.
  Qed.
End Ext.


(* ---------- the generated nested loop of VersionRange.Contains ---------- *)

(* a translated `ok := true; for _, c := range xs { if !t(c) { ok = false; break } }`: the flag after the
   loop is forallb t xs (Tie/Parse/Scanners.existsb_loop with the flag inverted) *)
Lemma forallb_loop {A R : Type} (fuel : nat) (body : Z * bool -> res (step (Z * bool) R))
      (xs : list A) (d : A) (t : A -> bool) :
  (forall k h, body (k, h) =
     if Z.ltb k (Z.of_nat (length xs)) then
       bind (idx xs k) (fun c => if negb (t c) then Done (Break (k, false))
                                 else Done (Next (wrap64 (k + 1), h)))
     else Done (Break (k, h))) ->
  fits xs -> (length xs < fuel)%nat ->
  exists k', while fuel body (0, true) = Done (Fell (k', forallb t xs)).
Proof.
  intros Eb F Hf.
  destruct (while_rule_ex body
              (fun st => 0 <= fst st <= Z.of_nat (length xs) /\ snd st = true /\
                         forallb t (firstn (Z.to_nat (fst st)) xs) = true)
              (fun st => up_to (Z.of_nat (length xs)) (fst st))
              (fun st => snd st = forallb t xs)
              (fun _ => False)) with (fuel := fuel) (s := (0, true)) as (x & E & Q).
  - intros [k h] (Hk & Hh & Hp). cbn [fst snd] in Hk, Hh, Hp. subst h.
    unfold step_ok, up_to. rewrite Eb.
    destruct (Z.ltb_spec k (Z.of_nat (length xs))) as [Lt|Ge].
    + rewrite (idx_in_range xs k d) by (unfold len; lia). cbn [bind].
      destruct (t (nth (Z.to_nat k) xs d)) eqn:T; cbn [negb].
      * rewrite (wrap64_succ k (Z.of_nat (length xs))) by (unfold fits in F; lia).
        cbn [fst snd]. split; [split; [lia|split; [reflexivity|]] | lia].
        rewrite Z_to_nat_succ by lia. rewrite (firstn_succ_nth xs _ d) by lia.
        rewrite forallb_app, Hp. cbn [forallb]. rewrite T. reflexivity.
      * cbn [snd]. symmetry. destruct (forallb t xs) eqn:FA; [|reflexivity].
        rewrite forallb_forall in FA. rewrite <- T. symmetry. apply FA. apply nth_In. lia.
    + cbn [snd]. rewrite firstn_all2 in Hp by lia. symmetry. exact Hp.
  - cbn [fst snd]. split; [lia|]. split; reflexivity.
  - unfold up_to. cbn [fst]. lia.
  - destruct x as [[k' h]|r]; [|contradiction]. cbn [snd] in Q. subst h. exists k'. exact E.
Qed.

Lemma not_all_not {A} (p : A -> bool) l : negb (forallb (fun x => negb (p x)) l) = existsb p l.
Proof. induction l as [|x l IH]; [reflexivity|]. cbn [forallb existsb]. rewrite <- IH. destruct (p x); reflexivity. Qed.

Definition dflt_constraint : G.constraint :=
  G.mk_constraint [] (G.mk_Version 0 0 0 0 0 0 [] false [] []) [].

(* the generated Contains: some group all of whose constraints match *)
Theorem tie_loops_composer_contains (m : G.constraint -> G.Version -> bool) fuel r v :
  fits (G.VersionRange_constraintGroups r) ->
  (forall g, In g (G.VersionRange_constraintGroups r) -> fits g /\ (length g < fuel)%nat) ->
  (length (G.VersionRange_constraintGroups r) < fuel)%nat ->
  L.VersionRange_Contains m fuel r v =
  Done (existsb (fun g => forallb (fun c => m c v) g) (G.VersionRange_constraintGroups r)).
Proof.
  intros F Fg Hf. unfold L.VersionRange_Contains. cbv zeta.
  set (gs := G.VersionRange_constraintGroups r) in *.
  pose (test := fun g : list G.constraint => negb (forallb (fun c => m c v) g)).
  match goal with |- bind (while fuel ?bd 0) _ = _ =>
    assert (W : while fuel bd 0 =
                Done (if forallb test gs then Fell (Z.of_nat (length gs)) else Returned true)) end.
  { apply (cursor_forall fuel gs); [exact F | exact Hf |].
    intros i g Hi Hn. cbv beta. apply nth_error_In in Hn. destruct (Fg g Hn) as [Fits Lg].
    match goal with |- bind (while fuel ?b _) _ = _ =>
      destruct (forallb_loop (R := bool) fuel b g dflt_constraint (fun c => m c v)) as [k' E];
        [intros k h; reflexivity | exact Fits | exact Lg |] end.
    rewrite E. cbn [bind]. unfold test. destruct (forallb _ g); reflexivity. }
  rewrite W. rewrite <- (not_all_not (fun g => forallb (fun c => m c v) g) gs).
  fold test. destruct (forallb test gs); reflexivity.
Qed.

(* ---------- how many constraints the range parser makes ---------- *)

Section Len.
  Variable vok : bytes -> bool.

  Lemma ge_lt_len a b cs : RM.ge_lt vok a b = Some cs -> length cs = 2%nat.
  Proof. unfold RM.ge_lt. destruct (_ && _); [|discriminate]. intros E. injection E as <-. reflexivity. Qed.

  Ltac len_branches :=
    repeat match goal with |- (if ?b then _ else _) = _ -> _ => destruct b end;
    intros E; try discriminate; try (apply ge_lt_len in E; lia); try (injection E as <-; cbn [length]; lia).

  Lemma parse_caret_len s cs : RM.parse_caret vok s = Some cs -> (length cs <= 2)%nat.
  Proof.
    unfold RM.parse_caret. cbv zeta.
    destruct (RM.vfields vok s) as [[b|ma mi pa ex st sn]|]; [| |discriminate].
    - intros E. injection E as <-. cbn [length]. lia.
    - len_branches.
  Qed.

  Lemma parse_tilde_len s cs : RM.parse_tilde vok s = Some cs -> (length cs <= 2)%nat.
  Proof.
    unfold RM.parse_tilde.
    destruct (RM.vfields vok s) as [[b|ma mi pa ex st sn]|]; [| |discriminate].
    - intros E. injection E as <-. cbn [length]. lia.
    - destruct (split_c "."%char s) as [|a [|b [|c l]]]; intros E; apply ge_lt_len in E; lia.
  Qed.

  Lemma parse_wildcard_len s cs : RM.parse_wildcard vok s = Some cs -> (length cs <= 2)%nat.
  Proof.
    unfold RM.parse_wildcard. cbv zeta.
    destruct (RM.wild_index _) as [[|[|[|n]]]|]; try discriminate.
    - destruct (atoi _); [|discriminate]. intros E. apply ge_lt_len in E. lia.
    - destruct (atoi _); [|discriminate]. destruct (atoi _); [|discriminate].
      intros E. apply ge_lt_len in E. lia.
  Qed.

  Lemma parse_stability_len s cs : RM.parse_stability vok s = Some cs -> (length cs <= 1)%nat.
  Proof.
    unfold RM.parse_stability. cbv zeta.
    destruct (split_c "@"%char s) as [|p0 [|p1 [|p2 r]]]; try discriminate.
    destruct (trim_space p0); [intros E; injection E as <-; cbn [length]; lia|].
    destruct (vok _); [|discriminate]. intros E. injection E as <-. cbn [length]. lia.
  Qed.

  Lemma parse_single_len p cs : RM.parse_single vok p = Some cs ->
    (length cs <= 2)%nat /\ (trim_space p = [] -> (length cs <= 1)%nat).
  Proof.
    unfold RM.parse_single. cbv zeta. destruct (trim_space p) as [|x c] eqn:ET.
    - cbn. destruct (vok []); [|discriminate]. intros E. injection E as <-. cbn [length]. split; lia.
    - intros E. split; [|discriminate]. revert E.
      destruct (beq _ _); [intros E; injection E as <-; cbn [length]; lia|].
      destruct (has_prefix _ _); [apply parse_caret_len|].
      destruct (has_prefix _ _); [apply parse_tilde_len|].
      destruct (existsb _ _); [apply parse_wildcard_len|].
      destruct (first_prefix _ _) as [[op rest]|].
      + destruct (contains_c _ _); [intros E; apply parse_stability_len in E; lia|].
        destruct (vok _); [|discriminate]. intros E. injection E as <-. cbn [length]. lia.
      + destruct (contains_c _ _); [intros E; apply parse_stability_len in E; lia|].
        destruct (vok _); [|discriminate]. intros E. injection E as <-. cbn [length]. lia.
  Qed.

  Lemma parse_single_len_S p cs : RM.parse_single vok p = Some cs -> (length cs <= S (length p))%nat.
  Proof.
    intros E. apply parse_single_len in E as [L2 L1]. destruct p as [|x p]; [|cbn [length]; lia].
    specialize (L1 eq_refl). cbn [length]. lia.
  Qed.

  Lemma parse_hyphen_len s cs : RM.parse_hyphen vok s = Some cs -> (length cs <= 2)%nat.
  Proof.
    unfold RM.parse_hyphen. cbv zeta. destruct (has_suffix _ _); [discriminate|].
    destruct (split_sub _ s) as [|a [|b [|c r]]]; try discriminate.
    destruct (trim_space a); [discriminate|]. destruct (trim_space b); [discriminate|].
    destruct (_ && _); [|discriminate]. intros E. injection E as <-. cbn [length]. lia.
  Qed.

  Lemma parse_parts_len ps : forall cs,
    RM.parse_parts vok ps = Some cs -> (length cs <= RangeInv.total ps)%nat.
  Proof.
    induction ps as [|p r IH]; intros cs; cbn [RM.parse_parts RangeInv.total].
    - intros E. injection E as <-. cbn [length]. lia.
    - destruct (RM.parse_single vok p) as [c1|] eqn:E1; [|discriminate].
      destruct (RM.parse_parts vok r) as [c2|]; [|discriminate].
      intros E. injection E as <-. rewrite app_length.
      apply parse_single_len_S in E1. specialize (IH c2 eq_refl). lia.
  Qed.

  Lemma parse_one_len r cs : RM.parse_one vok r = Some cs -> (length cs <= length r + 2)%nat.
  Proof.
    unfold RM.parse_one, RM.parse_space. cbv zeta. pose proof (trim_space_length_le r) as TL.
    destruct (contains_sub _ _); [intros E; apply parse_hyphen_len in E; lia|].
    destruct (_ || _).
    - intros E. apply parse_parts_len in E.
      pose proof (RangeInv.fields_total (replace_c ","%char " "%char (trim_space r))) as FT.
      rewrite replace_c_length in FT. lia.
    - intros E. apply parse_single_len in E as [E _]. lia.
  Qed.

  Lemma parse_all_len n ps : Forall (fun p : bytes => (length p <= n)%nat) ps -> forall gs,
    RM.parse_all vok ps = Some gs ->
    length gs = length ps /\ Forall (fun g : list RM.con => (length g <= n + 2)%nat) gs.
  Proof.
    induction 1 as [|p r Lp _ IH]; intros gs; cbn [RM.parse_all].
    - intros E. injection E as <-. split; [reflexivity | constructor].
    - destruct (RM.parse_one vok (trim_space p)) as [g|] eqn:E1; [|discriminate].
      destruct (RM.parse_all vok r) as [gs'|]; [|discriminate].
      intros E. injection E as <-. destruct (IH gs' eq_refl) as [L1 F1].
      apply parse_one_len in E1. pose proof (trim_space_length_le p).
      split; [cbn [length]; lia | constructor; [lia | exact F1]].
  Qed.

  Lemma parse_range_len s rg : RM.parse_range vok s = Some rg ->
    (length (RM.r_groups rg) <= length s + 2)%nat /\
    Forall (fun g : list RM.con => (length g <= length s + 2)%nat) (RM.r_groups rg).
  Proof.
    unfold RM.parse_range, RM.parse_groups. cbv zeta. pose proof (trim_space_length_le s) as TL.
    destruct (trim_space s) as [|x t] eqn:ET; [discriminate|]. rewrite <- ET in *. clear ET.
    destruct (contains_sub _ _).
    - destruct (RM.parse_all vok _) as [gs|] eqn:E; [|discriminate].
      intros H. injection H as <-. cbn [RM.r_groups].
      assert (FA : Forall (fun p : bytes => (length p <= length s)%nat)
                          (split_sub (list_ascii_of_string "||") (trim_space s))).
      { apply Forall_forall. intros p Hp. apply NpmRange.split_sub_In_length in Hp. lia. }
      destruct (parse_all_len (length s) _ FA gs E) as [L1 F1].
      pose proof (NpmRange.split_sub_length_le (list_ascii_of_string "||") (trim_space s)).
      split; [lia | exact F1].
    - destruct (RM.parse_one vok (trim_space s)) as [g|] eqn:E; [|discriminate].
      intros H. injection H as <-. cbn [RM.r_groups length]. apply parse_one_len in E.
      split; [lia | constructor; [lia | constructor]].
  Qed.
End Len.

(* the oracles and what is assumed of them *)
Record oracles : Type := {
  nv : G.Ecosystem -> bytes -> option G.Version;            (* Ecosystem_NewVersion, not translated *)
  single : bytes -> option (list G.constraint);             (* parseSingleConstraint, not translated *)
  matches : G.constraint -> G.Version -> bool;              (* constraint.matches, not translated *)
  cc : RM.con -> G.constraint;                              (* the Go value of a model constraint *)
  nv_agrees : forall e s,
    match nv e s with
    | Some v => M.parse_core (trim_space s) = Some (TV.abs v) /\ G.Version_original v = s
    | None => M.parse_core (trim_space s) = None
    end;
  single_agrees : forall c, single c = option_map (map cc) (RM.parse_single (PR.vok nv) c);
  cc_ge : forall t v, nv G.mk_Ecosystem t = Some v -> cc (RM.KCmp CGe t) = G.mk_constraint $">=" v ([] : bytes);
  cc_le : forall t v, nv G.mk_Ecosystem t = Some v -> cc (RM.KCmp CLe t) = G.mk_constraint $"<=" v ([] : bytes);
  matches_agrees : forall r rg g k v y,
    RM.parse_range (PR.vok nv) r = Some rg -> In g (RM.r_groups rg) -> In k g ->
    nv G.mk_Ecosystem v = Some y ->
    matches (cc k) y = RM.matches (self_vcmp Verif.Eco.Composer.Entry.entry) v (TV.abs y) k
}.

Section E2E.
  Variable O : oracles.

  (* ---------- the concrete bundle ---------- *)
  Definition Name : bytes := G.Ecosystem_Name G.mk_Ecosystem.
  Definition Compare : G.Version -> G.Version -> Z := G.Version_Compare.
  Definition NV (s : bytes) : option G.Version := nv O G.mk_Ecosystem s.
  Definition NVR (s : bytes) : option G.VersionRange :=
    total None (P.Ecosystem_NewVersionRange (single O) (nv O) (length s + 3) G.mk_Ecosystem s).
  Definition contains_fuel (r : G.VersionRange) : nat :=
    length (G.VersionRange_constraintGroups r) +
    fold_right Nat.max 0%nat (map (@length _) (G.VersionRange_constraintGroups r)) + 2.
  Definition Contains (r : G.VersionRange) (v : G.Version) : bool :=
    total false (L.VersionRange_Contains (matches O) (contains_fuel r) r v).

  Definition e : eco := Verif.Eco.Composer.Entry.entry.

  Lemma eco_found : Top.eco_or_none $"composer" = Some e.
  Proof. reflexivity. Qed.

  Lemma NV_core s v : NV s = Some v ->
    M.parse_core (trim_space s) = Some (TV.abs v) /\ G.Version_original v = s.
  Proof. unfold NV. intros E. pose proof (nv_agrees O G.mk_Ecosystem s) as A. rewrite E in A. exact A. Qed.

  Lemma vok_self t : PR.vok (nv O) t = self_vok e t.
  Proof.
    unfold PR.vok, self_vok, e, Verif.Eco.Composer.Entry.entry, Verif.Eco.Composer.Entry.v, mk_vops, v_show, e_v,
      VLayer.parse.
    pose proof (nv_agrees O G.mk_Ecosystem t) as A.
    destruct (nv O G.mk_Ecosystem t) as [v|]; [destruct A as [A _]|]; rewrite A; reflexivity.
  Qed.

  Lemma self_cmp a b ca cb : M.parse_core (trim_space a) = Some ca -> M.parse_core (trim_space b) = Some cb ->
    self_vcmp e a b = M.cmp_core ca cb.
  Proof. apply (self_vcmp_core M.core M.parse_core M.cmp_core M.raw_orig $"composer" Verif.Eco.Composer.Entry.r). Qed.

  Lemma NVR_eq s : short s = true ->
    NVR s = option_map (PR.conc (cc O)) (RM.parse_range (PR.vok (nv O)) s).
  Proof.
    intros Hs. apply short_lt in Hs. unfold NVR.
    rewrite (PR.tie_parse_composer_newversionrange (single O) (nv O) (cc O) (single_agrees O) (cc_ge O) (cc_le O))
      by lia.
    reflexivity.
  Qed.

  (* ---------- the five fields ---------- *)

  Theorem composer_name_ok : Name = $"composer".
  Proof. reflexivity. Qed.

  Theorem composer_vok_tie : forall s, self_vok e s = is_some (NV s).
  Proof. intros s. rewrite <- vok_self. unfold PR.vok, NV. destruct (nv O G.mk_Ecosystem s); reflexivity. Qed.

  Theorem composer_rok_tie : forall s, short s = true ->
    (match r_show (e_r e) (self_vok e) s with Some _ => true | None => false end) = is_some (NVR s).
  Proof.
    intros s Ds. rewrite (NVR_eq s Ds).
    change (r_show (e_r e) (self_vok e) s) with (option_map RM.show (RM.parse_range (self_vok e) s)).
    rewrite (parse_range_ext (self_vok e) (PR.vok (nv O))) by (intros t; symmetry; apply vok_self).
    destruct (RM.parse_range (PR.vok (nv O)) s); reflexivity.
  Qed.

  Theorem composer_cmp_tie : forall a b x y, NV a = Some x -> NV b = Some y ->
    Compare x y = Z_of_cmp (self_vcmp e a b).
  Proof.
    intros a b x y Ea Eb. destruct (NV_core a x Ea) as [Ca _]. destruct (NV_core b y Eb) as [Cb _].
    rewrite (self_cmp a b _ _ Ca Cb). apply TV.tie_composer_compare.
  Qed.

  Theorem composer_show_tie : forall a x, NV a = Some x ->
    G.Version_String x = match v_show (e_v e) a with Some t => t | None => [] end.
  Proof.
    intros a x Ea. destruct (NV_core a x Ea) as [Ca Oa].
    unfold e, Verif.Eco.Composer.Entry.entry, Verif.Eco.Composer.Entry.v, mk_vops, v_show, e_v, VLayer.parse.
    rewrite Ca. unfold G.Version_String. rewrite Oa. reflexivity.
  Qed.

  (* the five fields against the library record of the model *)
  Theorem composer_ties_but_contains :
    Name = l_name (Top.model_lib $"composer") /\
    (forall s, short s = true -> l_vok (Top.model_lib $"composer") s = is_some (NV s)) /\
    (forall s, short s = true -> l_rok (Top.model_lib $"composer") s = is_some (NVR s)) /\
    (forall a b x y, short a = true -> short b = true -> NV a = Some x -> NV b = Some y ->
       Compare x y = Z_of_cmp (l_vcmp (Top.model_lib $"composer") a b)) /\
    (forall a x, short a = true -> NV a = Some x -> G.Version_String x = l_vshow (Top.model_lib $"composer") a).
  Proof.
    rewrite (model_lib_of _ _ eco_found). cbn [l_name l_vok l_rok l_vcmp l_vshow].
    split; [reflexivity|]. split; [intros s _; apply composer_vok_tie|].
    split; [exact composer_rok_tie|].
    split; [intros a b x y _ _; apply composer_cmp_tie | intros a x _; apply composer_show_tie].
  Qed.

  Theorem composer_model_tpo :
    TotalPreorderOn (fun s => l_vok (Top.model_lib $"composer") s = true) (l_vcmp (Top.model_lib $"composer")).
  Proof. apply (model_lib_tpo _ _ _ _ _ _ eco_found MF.cmp_core_tp). Qed.


  (* ---------- Contains ---------- *)

  Lemma max_len_In {A} (g : list A) gs : In g gs -> (length g <= fold_right Nat.max 0%nat (map (@length _) gs))%nat.
  Proof.
    induction gs as [|h gs IH]; [intros []|]. cbn [map fold_right]. intros [<-|Hg]; [lia|].
    specialize (IH Hg). lia.
  Qed.

  Lemma groups_tie v y gs :
    (forall g k, In g gs -> In k g -> matches O (cc O k) y = RM.matches (self_vcmp e) v (TV.abs y) k) ->
    existsb (fun g => forallb (fun c => matches O c y) g) (map (map (cc O)) gs) =
    RM.contains_groups (self_vcmp e) v (TV.abs y) gs.
  Proof.
    unfold RM.contains_groups. induction gs as [|g gs IH]; intros Hm; [reflexivity|]. cbn [map existsb].
    rewrite IH by (intros g' k Hg Hk; apply (Hm g' k); [right; exact Hg | exact Hk]). f_equal.
    assert (Hg : forall k, In k g -> matches O (cc O k) y = RM.matches (self_vcmp e) v (TV.abs y) k).
    { intros k Hk. apply (Hm g k); [left; reflexivity | exact Hk]. }
    clear Hm IH. induction g as [|k g IHg]; [reflexivity|]. cbn [map forallb].
    rewrite (Hg k (or_introl eq_refl)), IHg by (intros k' Hk'; apply Hg; right; exact Hk'). reflexivity.
  Qed.

  Theorem composer_contains_tie : forall r v x y, short r = true -> NVR r = Some x -> NV v = Some y ->
    Contains x y = match r_contains (e_r e) (self_vok e) (self_vcmp e) r v with Some b => b | None => false end.
  Proof.
    intros r v x y Dr Er Ev. rewrite (NVR_eq r Dr) in Er.
    change (r_contains (e_r e) (self_vok e) (self_vcmp e) r v)
      with (match RM.parse_range (self_vok e) r with
            | Some x => if self_vok e v then RM.contains (self_vcmp e) x v else None
            | None => None
            end).
    rewrite (parse_range_ext (self_vok e) (PR.vok (nv O))) by (intros t; symmetry; apply vok_self).
    destruct (RM.parse_range (PR.vok (nv O)) r) as [rg|] eqn:PRg; [|discriminate].
    injection Er as <-. rewrite composer_vok_tie, Ev. cbn [is_some].
    destruct (NV_core v y Ev) as [Cy _]. unfold RM.contains. rewrite Cy.
    destruct (parse_range_len _ r rg PRg) as [Lg Fg]. apply short_lt in Dr.
    unfold Contains. rewrite tie_loops_composer_contains.
    - cbn [total]. unfold PR.conc. cbn [G.VersionRange_constraintGroups].
      apply groups_tie. intros g k Hg Hk. exact (matches_agrees O r rg g k v y PRg Hg Hk Ev).
    - unfold PR.conc, fits. cbn [G.VersionRange_constraintGroups]. rewrite map_length. lia.
    - intros g Hg. split.
      + unfold PR.conc in Hg. cbn [G.VersionRange_constraintGroups] in Hg.
        apply in_map_iff in Hg as (g0 & <- & Hg0). rewrite Forall_forall in Fg. specialize (Fg g0 Hg0).
        unfold fits. rewrite map_length. lia.
      + unfold contains_fuel. pose proof (max_len_In g _ Hg). lia.
    - unfold contains_fuel. lia.
  Qed.

  (* ---------- lib_ties ---------- *)

  Theorem composer_lib_ties_on :
    lib_ties_on G.Version G.VersionRange Name NV NVR Contains Compare G.Version_String
                (Top.model_lib $"composer") short.
  Proof.
    destruct composer_ties_but_contains as (T1 & T2 & T3 & T4 & T5).
    constructor; [exact T1 | exact T2 | exact T3 | exact T4 | exact T5 |].
    rewrite (model_lib_of _ _ eco_found). cbn [l_rcontains].
    intros r v x y Dr Dv Er Ev. exact (composer_contains_tie r v x y Dr Er Ev).
  Qed.

  (* the record of Tie/Cli/Common.v, for the bundle guarded by the length bound *)
  Corollary composer_lib_ties :
    lib_ties G.Version G.VersionRange Name (guard short NV) (guard short NVR) Contains Compare
             G.Version_String (restrict (Top.model_lib $"composer") short).
  Proof. apply lib_ties_guard, composer_lib_ties_on. Qed.

  (* ---------- the CLI ---------- *)

  Variable sort_by : forall A : Type, (A -> A -> Z) -> list A -> list A.
  Variable e1 e2 e3 : list bytes -> bytes.

  Definition runEcosystem : nat -> list bytes -> res (bytes * Z) :=
    CmdCore.runEcosystem G.Version G.VersionRange Name NV NVR Contains Compare G.Version_String sort_by e1 e2 e3.

  Local Notation LL := (Top.model_lib $"composer").
  Local Notation accepted := (fun s : bytes => l_vok LL s = true).

  (* `univers composer <args>` as computed by the source-derived code is the CLI model's outcome *)
  Theorem composer_runEcosystem_e2e (fuel : nat) (args : list bytes) :
    sort_ok G.Version NV Compare sort_by accepted ->
    fits args -> (length args < fuel)%nat -> Forall (fun a => short a = true) args ->
    (forall rest, args = $"sort" :: rest -> Forall accepted rest -> show_respects LL rest) ->
    exists r, runEcosystem fuel args = Done r /\ shown (run_ecosystem LL args) r.
  Proof.
    apply (eco_runEcosystem_e2e _ _ _ _ _ _ _ _ ($"composer" : bytes) composer_lib_ties_on composer_model_tpo).
  Qed.

  Corollary composer_cli_e2e (fuel : nat) (args : list bytes) :
    sort_ok G.Version NV Compare sort_by accepted ->
    fits args -> (length args < fuel)%nat -> Forall (fun a => short a = true) args ->
    (forall rest, args = $"sort" :: rest -> Forall accepted rest -> show_respects LL rest) ->
    exists r, runEcosystem fuel args = Done r /\ shown (Top.model_cli (($"composer" : bytes) :: args)) r.
  Proof.
    apply (eco_cli_e2e _ _ _ _ _ _ _ _ ($"composer" : bytes) composer_lib_ties_on composer_model_tpo eq_refl eq_refl).
  Qed.

  (* the exit status: no hypothesis on the order, the sort oracle only has to return a permutation *)
  Theorem composer_cli_e2e_exit (fuel : nat) (args : list bytes) :
    (forall l, Permutation (sort_by G.Version Compare l) l) ->
    fits args -> (length args < fuel)%nat -> Forall (fun a => short a = true) args ->
    exists r, runEcosystem fuel args = Done r /\ snd r = exit_code (Top.model_cli (($"composer" : bytes) :: args)).
  Proof.
    apply (eco_cli_e2e_exit _ _ _ _ _ _ _ _ ($"composer" : bytes) composer_lib_ties_on eq_refl eq_refl).
  Qed.
End E2E.

Print Assumptions vfields_ext.
Print Assumptions ge_lt_ext.
Print Assumptions parse_caret_ext.
Print Assumptions parse_tilde_ext.
Print Assumptions parse_wildcard_ext.
Print Assumptions parse_stability_ext.
Print Assumptions parse_single_ext.
Print Assumptions parse_hyphen_ext.
Print Assumptions parse_parts_ext.
Print Assumptions parse_one_ext.
Print Assumptions parse_all_ext.
Print Assumptions parse_range_ext.
Print Assumptions eco_found.
Print Assumptions NV_core.
Print Assumptions vok_self.
Print Assumptions self_cmp.
Print Assumptions NVR_eq.
Print Assumptions composer_name_ok.
Print Assumptions composer_vok_tie.
Print Assumptions composer_rok_tie.
Print Assumptions composer_cmp_tie.
Print Assumptions composer_show_tie.
Print Assumptions composer_ties_but_contains.
Print Assumptions composer_model_tpo.
Print Assumptions forallb_loop.
Print Assumptions not_all_not.
Print Assumptions tie_loops_composer_contains.
Print Assumptions ge_lt_len.
Print Assumptions parse_caret_len.
Print Assumptions parse_tilde_len.
Print Assumptions parse_wildcard_len.
Print Assumptions parse_stability_len.
Print Assumptions parse_single_len.
Print Assumptions parse_single_len_S.
Print Assumptions parse_hyphen_len.
Print Assumptions parse_parts_len.
Print Assumptions parse_one_len.
Print Assumptions parse_all_len.
Print Assumptions parse_range_len.
Print Assumptions max_len_In.
Print Assumptions groups_tie.
Print Assumptions composer_contains_tie.
Print Assumptions composer_lib_ties_on.
Print Assumptions composer_lib_ties.
Print Assumptions composer_runEcosystem_e2e.
Print Assumptions composer_cli_e2e.
Print Assumptions composer_cli_e2e_exit.
