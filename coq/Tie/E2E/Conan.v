(* Tie/E2E/Conan.v — END TO END for conan: the bundle of the CLI section (Gen/Parse/CmdCore.v) built out
   of the functions generated from pkg/ecosystem/conan, tied to [Top.model_lib $"conan"].

     Name             Gen.Code.Conan.Ecosystem_Name
     NewVersion       Gen.Parse.Conan.Ecosystem_NewVersion at the regexp oracles, fuel length s + 2, made total
     NewVersionRange  Gen.Parse.Conan.Ecosystem_NewVersionRange at the regexp oracles, fuel length s + 3
     Compare          Gen.Code.Conan.Version_Compare at Tie/Loops/Conan.compareVersionParts_total /
                      comparePrerelease_total (the generated loops of Gen/Loops/Conan.v made total)
     String           Gen.Code.Conan.Version_String
     Contains         Gen.Code.Conan.VersionRange_Contains at Tie/Loops/ConanRange.tildeMatch_total /
                      caretMatch_total (generated loops) and the same comparison functions

   conan has a CUSTOM range model (Eco/Conan/Range.v: OR groups, `~` and `^` read the main parts of both
   versions): the Contains field is proved constraint by constraint from the operator switch
   (Tie/ConanRange.tie_conan_VersionRange_constraintSatisfied), the loop ties (tildeMatch_total_model,
   caretMatch_total_model, tie_conan_compare_closed) and Tie/Parse/ConanRange.tie_parse_conan_newversionrange.

   Hypotheses ([oracles]): cfind_agrees (constraintPattern), find_agrees (versionPattern), partok_agrees,
   preok_agrees, numeric_agrees (the three MatchString patterns).  extractLeadingNumber is the generated loop
   Gen.Parse.Conan.extractLeadingNumber made total ([extract]; [tie_conan_extractLeadingNumber] is proved HERE:
   it returns the leading digits).
   [conan_lib_ties_on]: all six fields of [lib_ties] on the texts of length < 2^63 - 64. *)
From Coq Require Import ZArith List Ascii Bool Lia Permutation Sorted.
From Verif.Base Require Import Bytes GoNum GoOps Ord Sorting Imp ImpFacts ImpErr ImpCore BytesFacts.
From Verif.Cli Require Import Model.
From Verif.Eco Require Import RangeCore Iface VLayer.
From Verif.Eco.Conan Require Version VersionFacts Range Entry.
From Verif.Gen.Code Require Conan.
From Verif.Gen.Parse Require Conan CmdCore.
From Verif.Tie Require Import Tactics.
From Verif.Tie Require Conan ConanRange.
From Verif.Tie.Loops Require Import Common.
From Verif.Tie.Loops Require Conan ConanRange.
From Verif.Tie.Parse Require Import Common RangeCommon ListCursor Scanners.
From Verif.Tie.Parse Require Conan ConanRange NpmRange.
From Verif.Tie.Cli Require Import Common Spec Ties.
From Verif.Tie.E2E Require Import Common.
From Verif.Properties.Support Require Import SimpleRops.
From Verif Require Top.
Import ListNotations.
Local Open Scope Z_scope.

Module G := Verif.Gen.Code.Conan.
Module P := Verif.Gen.Parse.Conan.
Module M := Verif.Eco.Conan.Version.
Module MF := Verif.Eco.Conan.VersionFacts.
Module RM := Verif.Eco.Conan.Range.
Module TV := Verif.Tie.Conan.
Module TR := Verif.Tie.ConanRange.
Module PV := Verif.Tie.Parse.Conan.
Module PR := Verif.Tie.Parse.ConanRange.
Module TL := Verif.Tie.Loops.Conan.
Module TLR := Verif.Tie.Loops.ConanRange.

(* ---------- what NewVersion computes, as a function of the text ---------- *)

Definition nvm (s : bytes) : option G.Version :=
  let t := trim_space (to_lower s) in
  if beq t [] then None
  else match PV.ref_match t with
       | Some [_; main; pre; build] =>
           if (beq pre [] || M.idents_ok (split_c "."%char pre))
              && (beq build [] || M.idents_ok (split_c "."%char build))
           then Some (G.mk_Version (split_c "."%char main) pre build s) else None
       | _ => None
       end.

Lemma ref_match_shape t m : PV.ref_match t = Some m ->
  exists main pre build, m = [t; main; pre; build] /\ M.main_ok (split_c "."%char main) = true /\
    (length main <= length t)%nat /\ (length pre <= length t)%nat /\ (length build <= length t)%nat.
Proof.
  unfold PV.ref_match. cbv zeta.
  pose proof (PV.take_while_length_le (fun c => negb (M.is_pm c)) t) as L1.
  pose proof (drop_while_length_le (fun c => negb (M.is_pm c)) t) as L2.
  destruct (M.main_ok _) eqn:MO; [|discriminate].
  destruct (drop_while (fun c => negb (M.is_pm c)) t) as [|c rest'].
  { intros H. injection H as <-. eexists _, _, _. repeat split; try exact MO; cbn [length]; lia. }
  cbn [length] in L2.
  pose proof (PV.take_while_length_le (fun c => negb (M.is_plus c)) rest') as L3.
  pose proof (drop_while_length_le (fun c => negb (M.is_plus c)) rest') as L4.
  destruct (ceqb c "-"%char).
  - destruct (PV.ids_shape (take_while _ rest')); [|discriminate].
    destruct (drop_while (fun c => negb (M.is_plus c)) rest') as [|d build].
    + intros H. injection H as <-. eexists _, _, _. repeat split; try exact MO; cbn [length]; lia.
    + cbn [length] in L4. destruct (PV.ids_shape build); [|discriminate].
      intros H. injection H as <-. eexists _, _, _. repeat split; try exact MO; cbn [length]; lia.
  - destruct (PV.ids_shape rest'); [|discriminate].
    intros H. injection H as <-. eexists _, _, _. repeat split; try exact MO; cbn [length]; lia.
Qed.

Lemma nvm_fits_version s v : Z.of_nat (length s) + 2 < 2 ^ 63 -> nvm s = Some v -> TL.fits_version v.
Proof.
  intros F. unfold nvm. cbv zeta.
  pose proof (trim_space_length_le (to_lower s)) as TL. rewrite PV.to_lower_length in TL.
  destruct (beq (trim_space (to_lower s)) []); [discriminate|].
  destruct (PV.ref_match _) as [m|] eqn:RMt; [|discriminate].
  destruct (ref_match_shape _ _ RMt) as (main & pre & build & -> & MO & Lm & Lp & Lb).
  destruct (beq pre [] || M.idents_ok (split_c "."%char pre)) eqn:PO; [|discriminate].
  destruct (beq build [] || M.idents_ok (split_c "."%char build)); [|discriminate].
  intros H. injection H as <-. unfold TL.fits_version. cbn [G.Version_parts G.Version_prerelease].
  pose proof (split_c_length_le "."%char main). unfold fits, TL.fits1.
  repeat split; try lia.
  apply orb_prop in PO as [PO|PO].
  - apply beq_eq in PO. subst pre. intros X. congruence.
  - apply TL.idents_ok_pre_wf. exact PO.
Qed.

(* ---------- the model's range parser ---------- *)

Section RangeInv.
  Variable vok : bytes -> bool.

  (* a bound of a parsed range of length at most n: accepted by the version parser, no longer than n *)
  Definition bound_ok (n : nat) (c : RM.constraint) : Prop := vok (snd c) = true /\ (length (snd c) <= n)%nat.

  Lemma match_constraint_length c op v : RM.match_constraint c = Some (op, v) -> (length v <= length c)%nat.
  Proof.
    unfold RM.match_constraint. cbv zeta. pose proof (drop_while_length_le RM.re_space c) as DL.
    destruct (RM.try_ops RM.conan_ops _) as [[op' v']|] eqn:TO.
    - intros H. injection H as <- <-. apply PR.try_ops_spec in TO as [_ L]. lia.
    - destruct (RM.match_tail _) as [v'|] eqn:MT; [|discriminate].
      intros H. injection H as <- <-. apply PR.match_tail_length in MT. lia.
  Qed.

  Lemma parse_constraint_inv n c x : (length c <= n)%nat -> RM.parse_constraint vok c = Some x -> bound_ok n x.
  Proof.
    intros Ln. unfold RM.parse_constraint. destruct (RM.match_constraint c) as [[op v]|] eqn:MC; [|discriminate].
    destruct (vok v) eqn:V; [|discriminate]. intros H. injection H as <-.
    apply match_constraint_length in MC. split; [exact V | cbn [snd]; lia].
  Qed.

  Lemma parse_constraints_inv n cs : Forall (fun c : bytes => (length c <= n)%nat) cs -> forall xs,
    RM.parse_constraints vok cs = Some xs -> Forall (bound_ok n) xs.
  Proof.
    induction 1 as [|c r Lc _ IH]; intros xs; cbn [RM.parse_constraints].
    - intros H. injection H as <-. constructor.
    - pose proof (trim_space_length_le c) as TL.
      destruct (trim_space c) as [|y t] eqn:ET; [apply IH|]. rewrite <- ET in *.
      destruct (RM.parse_constraint vok (trim_space c)) as [x|] eqn:PC; [|discriminate].
      destruct (RM.parse_constraints vok r) as [xs'|]; [|discriminate].
      intros H. injection H as <-. constructor; [|apply IH; reflexivity].
      apply (parse_constraint_inv n (trim_space c) x); [lia | exact PC].
  Qed.

  Lemma split_constraints_length s : Z.of_nat (length s) + 3 < 2 ^ 63 ->
    Forall (fun c : bytes => (length c <= length s)%nat) (RM.split_constraints s).
  Proof.
    intros F.
    destruct (PR.splitConstraints_no_panic (length s + 2) s F ltac:(lia)) as (r & E & HF & _).
    rewrite PR.splitConstraints_model in E by lia. injection E as <-. exact HF.
  Qed.

  Lemma parse_groups_inv n ors : Z.of_nat n + 3 < 2 ^ 63 ->
    Forall (fun o : bytes => (length o <= n)%nat) ors -> forall gs,
    RM.parse_groups vok ors = Some gs -> Forall (Forall (bound_ok n)) gs.
  Proof.
    intros Hn. induction 1 as [|o r Lo _ IH]; intros gs; cbn [RM.parse_groups].
    - intros H. injection H as <-. constructor.
    - pose proof (trim_space_length_le o) as TL.
      destruct (trim_space o) as [|y t] eqn:ET; [apply IH|]. rewrite <- ET in *.
      destruct (RM.parse_constraints vok (RM.split_constraints (trim_space o))) as [g|] eqn:PC; [|discriminate].
      destruct (RM.parse_groups vok r) as [gs'|]; [|discriminate].
      intros H. injection H as <-.
      assert (Fg : Forall (bound_ok n) g).
      { refine (parse_constraints_inv n _ _ g PC).
        eapply Forall_impl; [|apply split_constraints_length; lia]. cbv beta. intros c Hc. lia. }
      destruct g; [apply IH; reflexivity|]. constructor; [exact Fg | apply IH; reflexivity].
  Qed.

  Lemma parse_range_inv s rg : Z.of_nat (length s) + 3 < 2 ^ 63 ->
    RM.parse_range vok s = Some rg -> Forall (Forall (bound_ok (length s))) (RM.r_groups rg).
  Proof.
    intros F. unfold RM.parse_range. cbv zeta.
    pose proof (trim_space_length_le (to_lower s)) as TL. rewrite PV.to_lower_length in TL.
    destruct (trim_space (to_lower s)) as [|y t] eqn:ET; [discriminate|]. rewrite <- ET in *.
    destruct (RM.parse_groups vok _) as [gs|] eqn:PG; [|discriminate].
    assert (Fg : Forall (Forall (bound_ok (length s))) gs).
    { refine (parse_groups_inv (length s) _ F _ gs PG). apply Forall_forall. intros o Ho.
      apply NpmRange.split_sub_In_length in Ho. lia. }
    destruct gs; [discriminate|]. intros H. injection H as <-. exact Fg.
  Qed.
End RangeInv.

Section RangeExt.
  Variable vok1 vok2 : bytes -> bool.
  Variable n : nat.
  Hypothesis Hn : Z.of_nat n + 3 < 2 ^ 63.
  Hypothesis H : forall t, (length t <= n)%nat -> vok1 t = vok2 t.

  Lemma parse_constraint_ext c : (length c <= n)%nat -> RM.parse_constraint vok1 c = RM.parse_constraint vok2 c.
  Proof.
    intros Lc. unfold RM.parse_constraint. destruct (RM.match_constraint c) as [[op v]|] eqn:MC; [|reflexivity].
    apply match_constraint_length in MC. rewrite H by lia. reflexivity.
  Qed.

  Lemma parse_constraints_ext cs : Forall (fun c : bytes => (length c <= n)%nat) cs ->
    RM.parse_constraints vok1 cs = RM.parse_constraints vok2 cs.
  Proof.
    induction 1 as [|c r Lc _ IH]; [reflexivity|]. cbn [RM.parse_constraints].
    pose proof (trim_space_length_le c) as TL.
    destruct (trim_space c) as [|y t] eqn:ET; [exact IH|]. rewrite <- ET in *.
    rewrite parse_constraint_ext by lia. rewrite IH. reflexivity.
  Qed.

  Lemma parse_groups_ext ors : Forall (fun o : bytes => (length o <= n)%nat) ors ->
    RM.parse_groups vok1 ors = RM.parse_groups vok2 ors.
  Proof.
    induction 1 as [|o r Lo _ IH]; [reflexivity|]. cbn [RM.parse_groups].
    pose proof (trim_space_length_le o) as TL.
    destruct (trim_space o) as [|y t] eqn:ET; [exact IH|]. rewrite <- ET in *.
    rewrite parse_constraints_ext, IH; [reflexivity|].
    eapply Forall_impl; [|apply split_constraints_length; lia]. cbv beta. intros c Hc. lia.
  Qed.
End RangeExt.

Lemma parse_range_ext vok1 vok2 s : Z.of_nat (length s) + 3 < 2 ^ 63 ->
  (forall t, (length t <= length s)%nat -> vok1 t = vok2 t) ->
  RM.parse_range vok1 s = RM.parse_range vok2 s.
Proof.
  intros F H. unfold RM.parse_range. cbv zeta.
  pose proof (trim_space_length_le (to_lower s)) as TL. rewrite PV.to_lower_length in TL.
  rewrite (parse_groups_ext vok1 vok2 (length s) F H); [reflexivity|].
  apply Forall_forall. intros o Ho. apply NpmRange.split_sub_In_length in Ho. lia.
Qed.

(* ---------- extractLeadingNumber (a range-over-string loop, translated by the parse pass) ---------- *)

Lemma non_digit_byte c : orb (Z.ltb (byte_z c) 48) (Z.ltb 57 (byte_z c)) = negb (is_digit c).
Proof.
  unfold byte_z, is_digit, in_range. cbv zeta.
  destruct (Z.ltb_spec (Z.of_N (code c)) 48), (Z.ltb_spec 57 (Z.of_N (code c))),
    (N.leb_spec 48 (code c)), (N.leb_spec (code c) 57); cbn; try reflexivity; lia.
Qed.

Lemma skipn_cons_step {A} (k : nat) : forall (s : list A) c rest, skipn k s = c :: rest ->
  firstn (S k) s = firstn k s ++ [c] /\ skipn (S k) s = rest.
Proof.
  induction k as [|k IH]; intros s c rest H.
  - cbn [skipn] in H. subst s. split; reflexivity.
  - destruct s as [|x s]; [discriminate|]. cbn [skipn] in H. destruct (IH s c rest H) as [E1 E2].
    split; [cbn [firstn app]; f_equal; exact E1 | exact E2].
Qed.

Theorem tie_conan_extractLeadingNumber : forall (s : bytes) (fuel : nat),
  Z.of_nat (length s) < 2 ^ 63 -> (length s < fuel)%nat ->
  P.extractLeadingNumber fuel s = Done (take_while is_digit s).
Proof.
  intros s fuel F Hf. unfold P.extractLeadingNumber. cbv zeta.
  set (n := Z.of_nat (length s)) in *.
  set (body := fun i : Z => _).
  pose (Inv := fun i : Z => 0 <= i <= n /\
     take_while is_digit s = firstn (Z.to_nat i) s ++ take_while is_digit (skipn (Z.to_nat i) s)).
  pose (Q := fun r : bytes => r = take_while is_digit s).
  pose (Qb := fun _ : Z => take_while is_digit s = s).
  assert (R : exit_ok Qb Q (while fuel body 0)).
  { apply (while_rule_fuel body Inv (fun i => Z.to_nat (n - i))).
    - intros i [Hi E]. unfold step_ok, body.
      destruct (Z.ltb_spec i n) as [Lt|Ge].
      + destruct (skipn (Z.to_nat i) s) as [|c rest] eqn:SK.
        { exfalso. apply (f_equal (@length ascii)) in SK. rewrite skipn_length in SK. cbn [length] in SK. lia. }
        rewrite (idx_skipn s i c rest) by (lia || exact SK). cbn [bind]. cbv zeta.
        rewrite non_digit_byte. cbn [take_while] in E.
        destruct (is_digit c) eqn:Dc; cbn [negb].
        * destruct (skipn_cons_step _ _ _ _ SK) as [E1 E2].
          rewrite (wrap64_succ_lt i n) by lia.
          split; [|lia]. split; [lia|].
          rewrite Z2Nat.inj_add by lia. change (Z.to_nat 1) with 1%nat. rewrite Nat.add_1_r.
          rewrite E1, E2, <- app_assoc. exact E.
        * rewrite app_nil_r in E. destruct (Z.eqb_spec i 0) as [I0|I0].
          { unfold Q. rewrite E, I0. reflexivity. }
          rewrite slice_to_Done by lia. cbn [bind]. unfold Q. symmetry. exact E.
      + unfold Qb. assert (i = n) by lia. subst i. rewrite E. unfold n. rewrite Nat2Z.id.
        rewrite skipn_all, firstn_all. cbn [take_while]. apply app_nil_r.
    - split; [lia | reflexivity].
    - lia. }
  destruct (while fuel body 0) as [[i|r]| |]; cbn [exit_ok] in R; try contradiction; cbn [bind].
  - unfold Qb in R. rewrite R. reflexivity.
  - unfold Q in R. rewrite R. reflexivity.
Qed.

(* the total function the comparison loops are applied to.  Tie/Loops/Conan.v asks for
   [extract s = take_while is_digit s] for EVERY list; the generated loop computes it for the lists whose
   length is an int (a Go string), hence the guard, which no Go string can observe. *)
Definition extract (s : bytes) : bytes :=
  if Z.of_nat (length s) <? 2 ^ 63 then total [] (P.extractLeadingNumber (S (length s)) s)
  else take_while is_digit s.

Lemma extract_model s : extract s = take_while is_digit s.
Proof.
  unfold extract. destruct (Z.ltb_spec (Z.of_nat (length s)) (2 ^ 63)) as [L|_]; [|reflexivity].
  rewrite tie_conan_extractLeadingNumber by (lia || exact L). reflexivity.
Qed.

(* the oracles and what is assumed of them *)
Record oracles : Type := {
  cfind : bytes -> option (list bytes);    (* constraintPattern.FindStringSubmatch *)
  find : bytes -> option (list bytes);     (* versionPattern.FindStringSubmatch *)
  partok : bytes -> bool;                  (* versionPartPattern.MatchString *)
  preok : bytes -> bool;                   (* prereleasePartPattern.MatchString *)
  numeric : bytes -> bool;                 (* numericPattern.MatchString *)
  cfind_agrees : forall c, cfind c = PR.ref_cmatch c;
  find_agrees : forall t, find t = PV.ref_match t;
  partok_agrees : forall p, partok p = M.nonempty_all M.is_part_c p;
  preok_agrees : forall p, preok p = M.nonempty_all M.is_ident_c p;
  numeric_agrees : forall p, numeric p = nonempty_digits p
}.

Section E2E.
  Variable O : oracles.

  (* ---------- the concrete bundle ---------- *)
  Definition Name : bytes := G.Ecosystem_Name G.mk_Ecosystem.
  Definition compareVersionParts : list bytes -> list bytes -> Z := TL.compareVersionParts_total extract.
  Definition comparePrerelease : bytes -> bytes -> Z := TL.comparePrerelease_total (numeric O).
  Definition tildeMatch : G.VersionRange -> G.Version -> G.Version -> bool :=
    TLR.tildeMatch_total compareVersionParts comparePrerelease extract.
  Definition caretMatch : G.VersionRange -> G.Version -> G.Version -> bool :=
    TLR.caretMatch_total compareVersionParts comparePrerelease extract.
  Definition Compare : G.Version -> G.Version -> Z := G.Version_Compare compareVersionParts comparePrerelease.
  Definition NV (s : bytes) : option G.Version :=
    total None (P.Ecosystem_NewVersion (find O) (partok O) (preok O) (numeric O) (length s + 2) G.mk_Ecosystem s).
  Definition NVR (s : bytes) : option G.VersionRange :=
    total None (P.Ecosystem_NewVersionRange (cfind O) (find O) (partok O) (preok O) (numeric O) (length s + 3)
                  G.mk_Ecosystem s).
  Definition Contains : G.VersionRange -> G.Version -> bool :=
    G.VersionRange_Contains tildeMatch caretMatch compareVersionParts comparePrerelease.

  Lemma NV_computes fuel e s : Z.of_nat (length s) + 1 < 2 ^ 63 -> (S (length s) < fuel)%nat ->
    P.Ecosystem_NewVersion (find O) (partok O) (preok O) (numeric O) fuel e s = Done (nvm s).
  Proof.
    intros F Hf. unfold nvm. cbv zeta.
    pose proof (trim_space_length_le (to_lower s)) as TL. rewrite PV.to_lower_length in TL.
    destruct (beq (trim_space (to_lower s)) []) eqn:NE.
    { unfold P.Ecosystem_NewVersion. cbv zeta. rewrite NE. reflexivity. }
    destruct (PV.ref_match (trim_space (to_lower s))) as [m|] eqn:RMt.
    - destruct (ref_match_shape _ _ RMt) as (main & pre & build & -> & MO & Lm & Lp & Lb).
      apply (PV.newversion_matched (find O) (partok O) (preok O) (numeric O)
               (partok_agrees O) (preok_agrees O) (numeric_agrees O)); try assumption; try lia.
      rewrite (find_agrees O). exact RMt.
    - apply PV.newversion_unmatched; [exact NE | rewrite (find_agrees O); exact RMt].
  Qed.

  Lemma NV_eq s : short s = true -> NV s = nvm s.
  Proof. intros Hs. apply short_lt in Hs. unfold NV. rewrite NV_computes by lia. reflexivity. Qed.

  Lemma nvm_parse s : Z.of_nat (length s) + 1 < 2 ^ 63 -> option_map TV.abs_ver (nvm s) = M.parse s.
  Proof.
    intros F.
    destruct (PV.tie_parse_conan_newversion (find O) (partok O) (preok O) (numeric O)
                (find_agrees O) (partok_agrees O) (preok_agrees O) (numeric_agrees O)
                G.mk_Ecosystem s (length s + 2) F ltac:(lia)) as (r & E1 & E2).
    rewrite NV_computes in E1 by lia. injection E1 as <-. exact E2.
  Qed.

  Lemma nvm_abs s v : Z.of_nat (length s) + 1 < 2 ^ 63 -> nvm s = Some v ->
    M.parse_core (trim_space s) = Some (TV.abs v) /\ G.Version_original v = s.
  Proof.
    intros F E. pose proof (nvm_parse s F) as H. rewrite E in H. cbn [option_map] in H.
    unfold M.parse, VLayer.parse in H. destruct (M.parse_core (trim_space s)) as [c|]; [|discriminate].
    injection H as H1 H2. unfold M.raw_orig in H2. split; [rewrite H1; reflexivity | exact H2].
  Qed.

  Lemma nvm_none s : Z.of_nat (length s) + 1 < 2 ^ 63 -> nvm s = None -> M.parse_core (trim_space s) = None.
  Proof.
    intros F E. pose proof (nvm_parse s F) as H. rewrite E in H. cbn [option_map] in H.
    unfold M.parse, VLayer.parse in H. destruct (M.parse_core (trim_space s)); [discriminate | reflexivity].
  Qed.

  Definition nv (_ : G.Ecosystem) (s : bytes) : option G.Version := nvm s.

  Lemma NVR_eq s : short s = true ->
    NVR s = option_map (PR.conc nv G.mk_Ecosystem) (RM.parse_range (PR.vok nv G.mk_Ecosystem) s).
  Proof.
    intros Hs. apply short_lt in Hs. unfold NVR.
    rewrite (PR.tie_parse_conan_newversionrange (cfind O) (find O) (partok O) (preok O) (numeric O) nv
               (cfind_agrees O)) by (try lia; intros; apply NV_computes; assumption).
    reflexivity.
  Qed.

  Definition e : eco := Verif.Eco.Conan.Entry.entry.

  Lemma eco_found : Top.eco_or_none $"conan" = Some e.
  Proof. reflexivity. Qed.

  Lemma self_core t : self_vok e t = true <-> exists c, M.parse_core (trim_space t) = Some c.
  Proof. apply (self_vok_core M.core M.parse_core M.cmp_core M.raw_orig $"conan" Verif.Eco.Conan.Entry.r). Qed.

  Lemma self_cmp a b ca cb : M.parse_core (trim_space a) = Some ca -> M.parse_core (trim_space b) = Some cb ->
    self_vcmp e a b = M.cmp_core ca cb.
  Proof. apply (self_vcmp_core M.core M.parse_core M.cmp_core M.raw_orig $"conan" Verif.Eco.Conan.Entry.r). Qed.

  (* NewVersion's acceptance is the model's, on texts that fit *)
  Lemma vok_self t : Z.of_nat (length t) + 1 < 2 ^ 63 -> PR.vok nv G.mk_Ecosystem t = self_vok e t.
  Proof.
    intros F. unfold PR.vok, nv. destruct (nvm t) as [v|] eqn:E.
    - symmetry. apply self_core. exists (TV.abs v). apply (nvm_abs t v F E).
    - pose proof (nvm_none t F E) as N. destruct (self_vok e t) eqn:S; [|reflexivity].
      apply self_core in S as [c Hc]. congruence.
  Qed.

  (* ---------- Contains on a parsed range: the generated code against the custom range model ---------- *)

  Local Notation vokN := (PR.vok nv G.mk_Ecosystem).
  Local Notation satisfied := (G.VersionRange_constraintSatisfied tildeMatch caretMatch compareVersionParts comparePrerelease).

  Lemma Compare_model x y : TL.fits_version x -> TL.fits_version y ->
    Compare x y = Z_of_cmp (M.cmp_core (TV.abs x) (TV.abs y)).
  Proof. apply (TL.tie_conan_compare_closed extract extract_model (numeric O) (numeric_agrees O)). Qed.

  Section Sat.
    Variable rr : G.VersionRange.
    Variable v : bytes.
    Variable y : G.Version.
    Variable n : nat.
    Hypothesis Dv : short v = true.
    Hypothesis Ev : nvm v = Some y.
    Hypothesis Hn : Z.of_nat n + 64 < 2 ^ 63.

    Lemma sat_tie c : bound_ok vokN n c ->
      forallb (fun g => satisfied rr g y)
              (match PR.conc1 nv G.mk_Ecosystem c with Some x => [x] | None => [] end) =
      RM.sat_constraint (self_vcmp e) v c.
    Proof.
      destruct c as [op b]. intros [Vb Lb]. cbn [snd] in Vb, Lb.
      unfold PR.vok, nv in Vb. unfold PR.conc1, nv. cbn [fst snd].
      destruct (nvm b) as [w|] eqn:Eb; [|discriminate]. cbn [option_map forallb]. rewrite andb_true_r.
      apply short_lt in Dv.
      destruct (nvm_abs v y ltac:(lia) Ev) as [Ay _]. destruct (nvm_abs b w ltac:(lia) Eb) as [Aw _].
      pose proof (nvm_fits_version v y ltac:(lia) Ev) as Fy.
      pose proof (nvm_fits_version b w ltac:(lia) Eb) as Fw.
      rewrite TR.tie_conan_VersionRange_constraintSatisfied.
      cbn [G.constraint_operator G.constraint_version]. unfold RM.sat_constraint.
      assert (Pv : RM.parts_of v = Some (G.Version_parts y)) by (unfold RM.parts_of; rewrite Ay; reflexivity).
      assert (Pb : RM.parts_of b = Some (G.Version_parts w)) by (unfold RM.parts_of; rewrite Aw; reflexivity).
      rewrite Pv, Pb, (self_cmp v b _ _ Ay Aw).
      fold Compare. unfold tildeMatch, caretMatch.
      rewrite (TLR.tildeMatch_total_model _ _ extract extract_model).
      rewrite (TLR.caretMatch_total_model _ _ extract extract_model) by apply Fw.
      fold Compare. rewrite (Compare_model y w Fy Fw), cmp_of_Z_of_cmp. reflexivity.
    Qed.

    Lemma group_tie g : Forall (bound_ok vokN n) g ->
      G.VersionRange_groupSatisfied tildeMatch caretMatch compareVersionParts comparePrerelease rr
        (PR.conc_cs nv G.mk_Ecosystem g) y =
      forallb (RM.sat_constraint (self_vcmp e) v) g.
    Proof.
      unfold G.VersionRange_groupSatisfied.
      induction 1 as [|c cs Wc _ IH]; [reflexivity|].
      change (PR.conc_cs nv G.mk_Ecosystem (c :: cs))
        with ((match PR.conc1 nv G.mk_Ecosystem c with Some x => [x] | None => [] end)
              ++ PR.conc_cs nv G.mk_Ecosystem cs).
      rewrite forallb_app, IH, (sat_tie c Wc). reflexivity.
    Qed.

    Lemma groups_tie gs : Forall (Forall (bound_ok vokN n)) gs ->
      existsb (fun g => G.VersionRange_groupSatisfied tildeMatch caretMatch compareVersionParts comparePrerelease rr g y)
              (map (PR.conc_cs nv G.mk_Ecosystem) gs) =
      existsb (fun g => forallb (RM.sat_constraint (self_vcmp e) v) g) gs.
    Proof.
      induction 1 as [|g gs' Wg _ IH]; [reflexivity|]. cbn [map existsb]. rewrite IH, (group_tie g Wg). reflexivity.
    Qed.
  End Sat.

  Lemma contains_tie rg v y : short v = true -> nvm v = Some y ->
    forall n, Z.of_nat n + 64 < 2 ^ 63 -> Forall (Forall (bound_ok vokN n)) (RM.r_groups rg) ->
    Contains (PR.conc nv G.mk_Ecosystem rg) y = RM.contains (self_vcmp e) rg v.
  Proof.
    intros Dv Ev n Hn W. unfold Contains, G.VersionRange_Contains, RM.contains, PR.conc.
    cbn [G.VersionRange_orGroups].
    destruct (RM.r_groups rg) as [|g gs] eqn:EG; [reflexivity|].
    replace (Z.of_nat (length (map (PR.conc_cs nv G.mk_Ecosystem) (g :: gs))) =? 0) with false
      by (cbn [map length]; lia).
    apply (groups_tie _ v y n Dv Ev Hn). exact W.
  Qed.

  (* ---------- lib_ties ---------- *)

  Lemma short_fit1 t : short t = true -> Z.of_nat (length t) + 1 < 2 ^ 63.
  Proof. intros H. apply short_lt in H. lia. Qed.

  Lemma range_vok_ext s : short s = true ->
    RM.parse_range (self_vok e) s = RM.parse_range vokN s.
  Proof.
    intros Ds. apply short_lt in Ds. apply parse_range_ext; [lia|].
    intros t Lt. symmetry. apply vok_self. lia.
  Qed.

  Theorem conan_lib_ties_on :
    lib_ties_on G.Version G.VersionRange Name NV NVR Contains Compare G.Version_String
                (Top.model_lib $"conan") short.
  Proof.
    rewrite (model_lib_of _ _ eco_found). constructor; cbn [l_name l_vok l_rok l_vcmp l_vshow l_rcontains].
    - reflexivity.
    - intros s Ds. rewrite (NV_eq s Ds), <- (vok_self s (short_fit1 s Ds)). unfold PR.vok, nv.
      destruct (nvm s); reflexivity.
    - intros s Ds. rewrite (NVR_eq s Ds).
      change (r_show (e_r e) (self_vok e) s) with (option_map RM.show (RM.parse_range (self_vok e) s)).
      rewrite (range_vok_ext s Ds). destruct (RM.parse_range vokN s); reflexivity.
    - intros a b x y Da Db Ea Eb. rewrite (NV_eq a Da) in Ea. rewrite (NV_eq b Db) in Eb.
      destruct (nvm_abs a x (short_fit1 a Da) Ea) as [Aa _]. destruct (nvm_abs b y (short_fit1 b Db) Eb) as [Ab _].
      rewrite (self_cmp a b _ _ Aa Ab).
      apply short_lt in Da. apply short_lt in Db.
      apply Compare_model; [apply (nvm_fits_version a) | apply (nvm_fits_version b)]; (lia || assumption).
    - intros a x Da Ea. rewrite (NV_eq a Da) in Ea.
      destruct (nvm_abs a x (short_fit1 a Da) Ea) as [Aa Oa].
      unfold e, Verif.Eco.Conan.Entry.entry, Verif.Eco.Conan.Entry.v, mk_vops, v_show, e_v, VLayer.parse.
      rewrite Aa. cbn [option_map VLayer.show v_orig M.raw_orig]. exact Oa.
    - intros r v x y Dr Dv Er Ev. rewrite (NVR_eq r Dr) in Er. rewrite (NV_eq v Dv) in Ev.
      change (r_contains (e_r e) (self_vok e) (self_vcmp e) r v)
        with (match RM.parse_range (self_vok e) r with
              | Some x => if self_vok e v then Some (RM.contains (self_vcmp e) x v) else None
              | None => None
              end).
      rewrite (range_vok_ext r Dr).
      destruct (RM.parse_range vokN r) as [rg|] eqn:PRg; [|discriminate].
      injection Er as <-. rewrite <- (vok_self v (short_fit1 v Dv)). unfold PR.vok. change (nv G.mk_Ecosystem v) with (nvm v). rewrite Ev.
      apply (contains_tie rg v y Dv Ev (length r)); [apply short_lt; exact Dr|].
      apply short_lt in Dr. apply (parse_range_inv vokN r rg); [lia | exact PRg].
  Qed.

  (* the record of Tie/Cli/Common.v, for the bundle guarded by the length bound *)
  Corollary conan_lib_ties :
    lib_ties G.Version G.VersionRange Name (guard short NV) (guard short NVR) Contains Compare
             G.Version_String (restrict (Top.model_lib $"conan") short).
  Proof. apply lib_ties_guard, conan_lib_ties_on. Qed.

  Theorem conan_name_ok : Name = $"conan".
  Proof. reflexivity. Qed.

  Theorem conan_model_tpo :
    TotalPreorderOn (fun s => l_vok (Top.model_lib $"conan") s = true) (l_vcmp (Top.model_lib $"conan")).
  Proof. apply (model_lib_tpo _ _ _ _ _ _ eco_found MF.cmp_core_tp). Qed.

  (* ---------- the CLI ---------- *)

  Variable sort_by : forall A : Type, (A -> A -> Z) -> list A -> list A.
  Variable e1 e2 e3 : list bytes -> bytes.

  Definition runEcosystem : nat -> list bytes -> res (bytes * Z) :=
    CmdCore.runEcosystem G.Version G.VersionRange Name NV NVR Contains Compare G.Version_String sort_by e1 e2 e3.

  Local Notation L := (Top.model_lib $"conan").
  Local Notation accepted := (fun s : bytes => l_vok L s = true).

  (* `univers conan <args>` as computed by the source-derived code is the CLI model's outcome *)
  Theorem conan_runEcosystem_e2e (fuel : nat) (args : list bytes) :
    sort_ok G.Version NV Compare sort_by accepted ->
    fits args -> (length args < fuel)%nat -> Forall (fun a => short a = true) args ->
    (forall rest, args = $"sort" :: rest -> Forall accepted rest -> show_respects L rest) ->
    exists r, runEcosystem fuel args = Done r /\ shown (run_ecosystem L args) r.
  Proof.
    apply (eco_runEcosystem_e2e _ _ _ _ _ _ _ _ ($"conan" : bytes) conan_lib_ties_on conan_model_tpo).
  Qed.

  Corollary conan_cli_e2e (fuel : nat) (args : list bytes) :
    sort_ok G.Version NV Compare sort_by accepted ->
    fits args -> (length args < fuel)%nat -> Forall (fun a => short a = true) args ->
    (forall rest, args = $"sort" :: rest -> Forall accepted rest -> show_respects L rest) ->
    exists r, runEcosystem fuel args = Done r /\ shown (Top.model_cli (($"conan" : bytes) :: args)) r.
  Proof.
    apply (eco_cli_e2e _ _ _ _ _ _ _ _ ($"conan" : bytes) conan_lib_ties_on conan_model_tpo eq_refl eq_refl).
  Qed.

  (* the exit status: no hypothesis on the order, the sort oracle only has to return a permutation *)
  Theorem conan_cli_e2e_exit (fuel : nat) (args : list bytes) :
    (forall l, Permutation (sort_by G.Version Compare l) l) ->
    fits args -> (length args < fuel)%nat -> Forall (fun a => short a = true) args ->
    exists r, runEcosystem fuel args = Done r /\ snd r = exit_code (Top.model_cli (($"conan" : bytes) :: args)).
  Proof.
    apply (eco_cli_e2e_exit _ _ _ _ _ _ _ _ ($"conan" : bytes) conan_lib_ties_on eq_refl eq_refl).
  Qed.
End E2E.

Print Assumptions conan_lib_ties_on.
Print Assumptions conan_lib_ties.
Print Assumptions conan_name_ok.
Print Assumptions conan_model_tpo.
Print Assumptions conan_runEcosystem_e2e.
Print Assumptions conan_cli_e2e.
Print Assumptions conan_cli_e2e_exit.
Print Assumptions non_digit_byte.
Print Assumptions skipn_cons_step.
Print Assumptions tie_conan_extractLeadingNumber.
Print Assumptions extract_model.
Print Assumptions ref_match_shape.
Print Assumptions nvm_fits_version.
Print Assumptions match_constraint_length.
Print Assumptions parse_constraint_inv.
Print Assumptions parse_constraints_inv.
Print Assumptions split_constraints_length.
Print Assumptions parse_groups_inv.
Print Assumptions parse_range_inv.
Print Assumptions parse_constraint_ext.
Print Assumptions parse_constraints_ext.
Print Assumptions parse_groups_ext.
Print Assumptions parse_range_ext.
Print Assumptions NV_computes.
Print Assumptions NV_eq.
Print Assumptions nvm_parse.
Print Assumptions nvm_abs.
Print Assumptions nvm_none.
Print Assumptions NVR_eq.
Print Assumptions eco_found.
Print Assumptions self_core.
Print Assumptions self_cmp.
Print Assumptions vok_self.
Print Assumptions Compare_model.
Print Assumptions sat_tie.
Print Assumptions group_tie.
Print Assumptions groups_tie.
Print Assumptions contains_tie.
Print Assumptions short_fit1.
Print Assumptions range_vok_ext.
