(* Tie/E2E/Cran.v — END TO END for cran: the bundle of the CLI section (Gen/Parse/CmdCore.v) built out
   of the functions generated from pkg/ecosystem/cran, tied to [Top.model_lib $"cran"].

     Name             Gen.Code.Cran.Ecosystem_Name
     NewVersion       NOT translated by the generator (builtin make at version.go:46): the oracle field
                      [nv] of [oracles], with the agreement hypothesis [nv_agrees]
     NewVersionRange  Gen.Parse.Cran.Ecosystem_NewVersionRange at [nv], fuel length s + 7, made total
     Compare          Gen.Loops.Cran.Version_Compare made total (Tie/Loops/Cran.Version_Compare_total)
     String           Gen.Code.Cran.Version_String
     Contains         Gen.Code.Cran.VersionRange_Contains at the same total function

   Hypothesis: ONE oracle agreement,
     nv_agrees : forall e s, nv e s = option_map (conc s) (M.parse_core (trim_space s))
   i.e. Ecosystem.NewVersion accepts what the model's parse_core accepts on the trimmed text and returns
   &Version{components: the model's components, original: the untrimmed text}.

   Which field of [lib_ties_on] depends on what:
     name      nothing (computation)
     vok       nv_agrees
     rok       nv_agrees (the bound parser of the generated NewVersionRange is [nv]) + Tie/Parse/CranRange
     cmp       nv_agrees (the parsed structure, and the bound on the number of components that the
               loop tie Tie/Loops/Cran needs) + Tie/Loops/Cran
     show      nv_agrees (original = the text)
     contains  nv_agrees + Tie/Parse/CranRange + Tie/CranRange + Tie/Loops/Cran

   [cran_lib_ties_on]: all six fields of [lib_ties] on the texts of length < 2^63 - 64 ([short]);
   [cran_lib_ties]: the record itself for the guarded bundle; [cran_runEcosystem_e2e], [cran_cli_e2e],
   [cran_cli_e2e_exit]: the generated runEcosystem at this bundle against the CLI model. *)
From Coq Require Import ZArith List Ascii Bool Lia Permutation Sorted.
From Verif.Base Require Import Bytes GoNum GoOps Ord Sorting Imp ImpFacts ImpErr ImpCore BytesFacts.
From Verif.Cli Require Import Model.
From Verif.Eco Require Import RangeCore Iface VLayer.
From Verif.Eco.Cran Require Version VersionFacts Range Entry.
From Verif.Gen.Code Require Cran.
From Verif.Gen.Loops Require Cran.
From Verif.Gen.Parse Require Cran CmdCore.
From Verif.Tie Require Import Tactics.
From Verif.Tie Require Cran CranRange.
From Verif.Tie.Loops Require Import Common.
From Verif.Tie.Loops Require Cran CranRange.
From Verif.Tie.Parse Require Import Common RangeCommon RangeTie.
From Verif.Tie.Parse Require CranRange.
From Verif.Tie.Cli Require Import Common Spec Ties.
From Verif.Tie.E2E Require Import Common.
From Verif Require Top.
Import ListNotations.
Local Open Scope Z_scope.

Module G := Verif.Gen.Code.Cran.
Module P := Verif.Gen.Parse.Cran.
Module M := Verif.Eco.Cran.Version.
Module MF := Verif.Eco.Cran.VersionFacts.
Module RM := Verif.Eco.Cran.Range.
Module TV := Verif.Tie.Cran.
Module TR := Verif.Tie.CranRange.
Module PR := Verif.Tie.Parse.CranRange.
Module TL := Verif.Tie.Loops.Cran.

(* the generated Version.Compare (index loop of Gen/Loops/Cran.v), made total *)
Definition Compare : G.Version -> G.Version -> Z := TL.Version_Compare_total.

(* the Go value of a parsed core: &Version{components: c, original: the text given to NewVersion} *)
Definition conc (s : bytes) (c : M.core) : G.Version := G.mk_Version c s.

Lemma abs_conc s c : TV.abs (conc s c) = c.
Proof. reflexivity. Qed.

(* Ecosystem.NewVersion is outside the translated fragment: an oracle and what is assumed of it *)
Record oracles : Type := {
  nv : G.Ecosystem -> bytes -> option G.Version;   (* Ecosystem.NewVersion, not translated *)
  nv_agrees : forall e s, nv e s = option_map (conc s) (M.parse_core (trim_space s))
}.

(* the number of components is bounded by the length of the text *)
Lemma parse_core_length_le t c : M.parse_core t = Some c -> (length c <= S (length t))%nat.
Proof.
  unfold M.parse_core. cbv zeta.
  destruct (_ && _ && _); [|discriminate]. intros H. injection H as <-.
  rewrite map_length.
  pose proof (split_c_length_le "."%char (replace_c "-"%char "."%char t)) as SL.
  rewrite replace_c_length in SL. exact SL.
Qed.

Section E2E.
  Variable O : oracles.

  (* ---------- the concrete bundle ---------- *)
  Definition Name : bytes := G.Ecosystem_Name G.mk_Ecosystem.
  Definition NV (s : bytes) : option G.Version := nv O G.mk_Ecosystem s.
  Definition NVR (s : bytes) : option G.VersionRange :=
    total None (P.Ecosystem_NewVersionRange (nv O) (length s + 7) G.mk_Ecosystem s).
  Definition Contains : G.VersionRange -> G.Version -> bool := G.VersionRange_Contains TL.Version_Compare_total.

  Lemma NV_eq s : NV s = option_map (conc s) (M.parse_core (trim_space s)).
  Proof. apply (nv_agrees O). Qed.

  Lemma NV_fits a x : short a = true -> NV a = Some x -> fits (G.Version_components x).
  Proof.
    intros Hs. rewrite NV_eq. destruct (M.parse_core (trim_space a)) as [c|] eqn:E; [|discriminate].
    intros H. injection H as <-. apply parse_core_length_le in E. apply short_lt in Hs.
    pose proof (trim_space_length_le a). unfold fits, conc. cbn [G.Version_components]. lia.
  Qed.

  Lemma NVR_eq s : short s = true ->
    NVR s = option_map (fun rg => G.mk_VersionRange (conc_cs NV G.mk_constraint (r_cs rg)) (r_orig rg))
                       (parse_range G.Version NV RM.cfg s).
  Proof.
    intros Hs. apply short_lt in Hs. unfold NVR.
    rewrite (PR.tie_parse_cran_newversionrange (nv O)) by lia. reflexivity.
  Qed.

  Lemma eco_found :
    Top.eco_or_none $"cran" =
    Some {| e_name := $"cran"; e_v := mk_vops M.parse_core M.cmp_core M.raw_orig;
            e_r := mk_simple_rops RM.cfg |}.
  Proof. reflexivity. Qed.

  (* ---------- lib_ties ---------- *)

  Theorem cran_lib_ties_on :
    lib_ties_on G.Version G.VersionRange Name NV NVR Contains Compare G.Version_String
                (Top.model_lib $"cran") short.
  Proof.
    apply (simple_lib_ties_on M.core M.parse_core M.cmp_core M.raw_orig RM.cfg $"cran" eco_found eq_refl
             G.Version G.constraint G.VersionRange Name NV NVR Contains Compare
             G.Version_String G.mk_constraint (fun o cs => G.mk_VersionRange cs o)
             G.constraint_operator G.constraint_version TV.abs short).
    - reflexivity.
    - intros s Hs. rewrite (NV_eq s). destruct (M.parse_core (trim_space s)) as [c|]; [|reflexivity].
      cbn [option_map]. rewrite abs_conc. reflexivity.
    - intros a b x y Da Db Ea Eb. unfold Compare.
      apply TL.Version_Compare_total_model; [exact (NV_fits a x Da Ea) | exact (NV_fits b y Db Eb)].
    - intros a x Da E. rewrite (NV_eq a) in E. destruct (M.parse_core (trim_space a)); [|discriminate].
      injection E as <-. reflexivity.
    - exact NVR_eq.
    - intros o cs y. unfold Contains. rewrite TR.tie_cran_contains. reflexivity.
    - reflexivity.
    - reflexivity.
    - apply split_le_short. intros t p Hp. change (rc_split RM.cfg t) with (split_comma_trim t) in Hp.
      apply split_comma_trim_le. exact Hp.
  Qed.

  (* the record of Tie/Cli/Common.v, for the bundle guarded by the length bound *)
  Corollary cran_lib_ties :
    lib_ties G.Version G.VersionRange Name (guard short NV) (guard short NVR) Contains Compare
             G.Version_String (restrict (Top.model_lib $"cran") short).
  Proof. apply lib_ties_guard, cran_lib_ties_on. Qed.

  Theorem cran_name_ok : Name = $"cran".
  Proof. reflexivity. Qed.

  Theorem cran_model_tpo :
    TotalPreorderOn (fun s => l_vok (Top.model_lib $"cran") s = true) (l_vcmp (Top.model_lib $"cran")).
  Proof. apply (model_lib_tpo _ _ _ _ _ _ eco_found MF.cmp_core_tp). Qed.

  (* ---------- the CLI ---------- *)

  Variable sort_by : forall A : Type, (A -> A -> Z) -> list A -> list A.
  Variable e1 e2 e3 : list bytes -> bytes.

  Definition runEcosystem : nat -> list bytes -> res (bytes * Z) :=
    CmdCore.runEcosystem G.Version G.VersionRange Name NV NVR Contains Compare G.Version_String sort_by e1 e2 e3.

  Local Notation L := (Top.model_lib $"cran").
  Local Notation accepted := (fun s : bytes => l_vok L s = true).

  (* `univers cran <args>` as computed by the source-derived code is the CLI model's outcome *)
  Theorem cran_runEcosystem_e2e (fuel : nat) (args : list bytes) :
    sort_ok G.Version NV Compare sort_by accepted ->
    fits args -> (length args < fuel)%nat -> Forall (fun a => short a = true) args ->
    (forall rest, args = $"sort" :: rest -> Forall accepted rest -> show_respects L rest) ->
    exists r, runEcosystem fuel args = Done r /\ shown (run_ecosystem L args) r.
  Proof.
    apply (eco_runEcosystem_e2e _ _ _ _ _ _ _ _ ($"cran" : bytes) cran_lib_ties_on cran_model_tpo).
  Qed.

  Corollary cran_cli_e2e (fuel : nat) (args : list bytes) :
    sort_ok G.Version NV Compare sort_by accepted ->
    fits args -> (length args < fuel)%nat -> Forall (fun a => short a = true) args ->
    (forall rest, args = $"sort" :: rest -> Forall accepted rest -> show_respects L rest) ->
    exists r, runEcosystem fuel args = Done r /\ shown (Top.model_cli (($"cran" : bytes) :: args)) r.
  Proof.
    apply (eco_cli_e2e _ _ _ _ _ _ _ _ ($"cran" : bytes) cran_lib_ties_on cran_model_tpo eq_refl eq_refl).
  Qed.

  (* the exit status: no hypothesis on the order, the sort oracle only has to return a permutation *)
  Theorem cran_cli_e2e_exit (fuel : nat) (args : list bytes) :
    (forall l, Permutation (sort_by G.Version Compare l) l) ->
    fits args -> (length args < fuel)%nat -> Forall (fun a => short a = true) args ->
    exists r, runEcosystem fuel args = Done r /\ snd r = exit_code (Top.model_cli (($"cran" : bytes) :: args)).
  Proof.
    apply (eco_cli_e2e_exit _ _ _ _ _ _ _ _ ($"cran" : bytes) cran_lib_ties_on eq_refl eq_refl).
  Qed.
End E2E.

Print Assumptions cran_lib_ties_on.
Print Assumptions cran_lib_ties.
Print Assumptions cran_name_ok.
Print Assumptions cran_model_tpo.
Print Assumptions cran_runEcosystem_e2e.
Print Assumptions cran_cli_e2e.
Print Assumptions cran_cli_e2e_exit.
Print Assumptions abs_conc.
Print Assumptions parse_core_length_le.
Print Assumptions NV_eq.
Print Assumptions NV_fits.
Print Assumptions NVR_eq.
Print Assumptions eco_found.
Check (NVR : oracles -> bytes -> option G.VersionRange).
Check (Compare : G.Version -> G.Version -> Z).
Check (Contains : G.VersionRange -> G.Version -> bool).
