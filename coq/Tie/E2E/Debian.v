(* Tie/E2E/Debian.v — END TO END for debian: the bundle of the CLI section (Gen/Parse/CmdCore.v) built out
   of the functions generated from pkg/ecosystem/debian, tied to [Top.model_lib $"debian"].

     Name             Gen.Code.Debian.Ecosystem_Name
     NewVersion       Gen.Parse.Debian.Ecosystem_NewVersion at the oracles, fuel length s + 1, made total
     NewVersionRange  Gen.Parse.Debian.Ecosystem_NewVersionRange, fuel length s + 9, made total
     Compare          Gen.Code.Debian.Version_Compare at Tie/Loops/Debian.compareDebianVersionString_total
     String           Gen.Code.Debian.Version_String
     Contains         Gen.Code.Debian.VersionRange_Contains at the same total function

   Hypotheses: the oracle agreements of Tie/Parse/Debian.v ([oracles]: versionPattern, unicode.IsDigit,
   unicode.IsLetter on ASCII).  [debian_lib_ties_on]: all six fields of [lib_ties] on the texts of length
   < 2^63 - 64 ([short]); [debian_lib_ties]: the record itself for the guarded bundle;
   [debian_runEcosystem_e2e], [debian_cli_e2e], [debian_cli_e2e_exit]: the generated runEcosystem at this
   bundle against the CLI model. *)
From Coq Require Import ZArith List Ascii Bool Lia Permutation Sorted.
From Verif.Base Require Import Bytes GoNum GoOps Ord Sorting Imp ImpFacts ImpErr ImpCore BytesFacts.
From Verif.Cli Require Import Model.
From Verif.Eco Require Import RangeCore Iface VLayer.
From Verif.Eco.Debian Require Version VersionFacts Range Entry.
From Verif.Gen.Code Require Debian.
From Verif.Gen.Parse Require Debian CmdCore.
From Verif.Tie Require Import Tactics.
From Verif.Tie Require Debian DebianRange.
From Verif.Tie.Loops Require Import Common.
From Verif.Tie.Loops Require Debian DebianRange.
From Verif.Tie.Parse Require Import Common RangeTie.
From Verif.Tie.Parse Require Debian DebianRange.
From Verif.Tie.Cli Require Import Common Spec Ties.
From Verif.Tie.E2E Require Import Common.
From Verif Require Top.
Import ListNotations.
Local Open Scope Z_scope.

Module G := Verif.Gen.Code.Debian.
Module P := Verif.Gen.Parse.Debian.
Module M := Verif.Eco.Debian.Version.
Module MF := Verif.Eco.Debian.VersionFacts.
Module RM := Verif.Eco.Debian.Range.
Module TV := Verif.Tie.Debian.
Module TR := Verif.Tie.DebianRange.
Module PV := Verif.Tie.Parse.Debian.
Module PR := Verif.Tie.Parse.DebianRange.
Module TL := Verif.Tie.Loops.Debian.

Definition Compare : G.Version -> G.Version -> Z := G.Version_Compare TL.compareDebianVersionString_total.

(* the regexp oracle and what is assumed of it *)
Record oracles : Type := {
  find : bytes -> option (list bytes);     (* versionPattern.FindStringSubmatch *)
  isdigit : Z -> bool;                     (* unicode.IsDigit *)
  isletter : Z -> bool;                    (* unicode.IsLetter *)
  find_agrees : forall t, find t = PV.ref_match t;
  isdigit_agrees : forall c, isdigit (byte_z c) = is_digit c;
  isletter_agrees : forall c, isletter (byte_z c) = is_letter c
}.

Section E2E.
  Variable O : oracles.

  (* ---------- the concrete bundle ---------- *)
  Definition Name : bytes := G.Ecosystem_Name G.mk_Ecosystem.
  Definition NV (s : bytes) : option G.Version :=
    total None (P.Ecosystem_NewVersion (isdigit O) (isletter O) (find O) (S (length s)) G.mk_Ecosystem s).
  Definition NVR (s : bytes) : option G.VersionRange :=
    total None (P.Ecosystem_NewVersionRange (isdigit O) (isletter O) (find O) (length s + 9) G.mk_Ecosystem s).
  Definition Contains : G.VersionRange -> G.Version -> bool := G.VersionRange_Contains TL.compareDebianVersionString_total.

  Lemma NV_computes fuel e s : Z.of_nat (length s) < 2 ^ 63 -> (length s < fuel)%nat ->
    P.Ecosystem_NewVersion (isdigit O) (isletter O) (find O) fuel e s =
    Done (option_map (PV.conc s) (M.parse_core (trim_space s))).
  Proof.
    apply (PV.tie_parse_debian_newversion (isdigit O) (isletter O) (find O) (find_agrees O)
             (isdigit_agrees O) (isletter_agrees O)).
  Qed.

  Lemma NV_eq s : short s = true -> NV s = option_map (PV.conc s) (M.parse_core (trim_space s)).
  Proof. intros Hs. apply short_lt in Hs. unfold NV. rewrite NV_computes by lia. reflexivity. Qed.

  Lemma parse_core_fields_le t c : M.parse_core t = Some c ->
    (length (M.upstream c) <= length t)%nat /\ (length (M.revision c) <= length t)%nat.
  Proof.
    unfold M.parse_core. destruct t as [|x t0]; [discriminate|].
    destruct (M.match_version (x :: t0)) as [[[e u] rv]|] eqn:MV; [|discriminate].
    apply PV.match_version_length in MV.
    destruct (match e with [] => Some 0 | _ :: _ => atoi e end); [|discriminate].
    destruct u as [|c0 u0]; [discriminate|].
    destruct (is_digit c0 && forallb M.valid_char (c0 :: u0) && forallb M.valid_char rv); [|discriminate].
    intros H. injection H as <-. exact MV.
  Qed.

  Lemma NV_fits a x : short a = true -> NV a = Some x -> TL.fits_version x.
  Proof.
    intros Hs. rewrite (NV_eq a Hs). destruct (M.parse_core (trim_space a)) as [c|] eqn:E; [|discriminate].
    intros H. injection H as <-. apply parse_core_fields_le in E. apply short_lt in Hs.
    pose proof (trim_space_length_le a). unfold TL.fits_version, fits, PV.conc.
    cbn [G.Version_upstream G.Version_revision]. lia.
  Qed.

  Lemma NVR_eq s : short s = true ->
    NVR s = option_map (fun rg => G.mk_VersionRange (conc_cs NV G.mk_constraint (r_cs rg)) (r_orig rg))
                       (parse_range G.Version NV RM.cfg s).
  Proof.
    intros Hs. apply short_lt in Hs. unfold NVR.
    rewrite (PR.tie_parse_debian_newversionrange (isdigit O) (isletter O) (find O) (fun _ => NV) (fun n => n)).
    - reflexivity.
    - intros a b L. exact L.
    - intros fuel e v Hv Hf. unfold NV. rewrite !NV_computes by lia. reflexivity.
    - lia.
    - lia.
    - lia.
  Qed.

  Lemma eco_found :
    Top.eco_or_none $"debian" =
    Some {| e_name := $"debian"; e_v := mk_vops M.parse_core M.cmp_core M.raw_orig;
            e_r := mk_simple_rops RM.cfg |}.
  Proof. reflexivity. Qed.

  (* ---------- lib_ties ---------- *)

  Theorem debian_lib_ties_on :
    lib_ties_on G.Version G.VersionRange Name NV NVR Contains Compare G.Version_String
                (Top.model_lib $"debian") short.
  Proof.
    apply (simple_lib_ties_on M.core M.parse_core M.cmp_core M.raw_orig RM.cfg $"debian" eco_found eq_refl
             G.Version G.constraint G.VersionRange Name NV NVR Contains Compare
             G.Version_String G.mk_constraint (fun o cs => G.mk_VersionRange cs o)
             G.constraint_operator G.constraint_version TV.abs short).
    - reflexivity.
    - intros s Hs. rewrite (NV_eq s Hs). destruct (M.parse_core (trim_space s)) as [c|]; [|reflexivity].
      cbn [option_map]. rewrite PV.abs_conc. reflexivity.
    - intros a b x y Da Db Ea Eb.
      apply TL.tie_debian_compare_closed; [exact (NV_fits a x Da Ea) | exact (NV_fits b y Db Eb)].
    - intros a x Da E. rewrite (NV_eq a Da) in E. destruct (M.parse_core (trim_space a)); [|discriminate].
      injection E as <-. reflexivity.
    - exact NVR_eq.
    - intros o cs y. unfold Contains, G.VersionRange_Contains. cbn [G.VersionRange_constraints].
      apply forallb_ext_in. intros c _. apply TR.tie_debian_satisfiesConstraint.
    - reflexivity.
    - reflexivity.
    - apply split_le_short. exact split_comma_trim_le.
  Qed.

  (* the record of Tie/Cli/Common.v, for the bundle guarded by the length bound *)
  Corollary debian_lib_ties :
    lib_ties G.Version G.VersionRange Name (guard short NV) (guard short NVR) Contains Compare
             G.Version_String (restrict (Top.model_lib $"debian") short).
  Proof. apply lib_ties_guard, debian_lib_ties_on. Qed.

  Theorem debian_name_ok : Name = $"debian".
  Proof. reflexivity. Qed.

  Theorem debian_model_tpo :
    TotalPreorderOn (fun s => l_vok (Top.model_lib $"debian") s = true) (l_vcmp (Top.model_lib $"debian")).
  Proof. apply (model_lib_tpo _ _ _ _ _ _ eco_found MF.cmp_core_tp). Qed.

  (* ---------- the CLI ---------- *)

  Variable sort_by : forall A : Type, (A -> A -> Z) -> list A -> list A.
  Variable e1 e2 e3 : list bytes -> bytes.

  Definition runEcosystem : nat -> list bytes -> res (bytes * Z) :=
    CmdCore.runEcosystem G.Version G.VersionRange Name NV NVR Contains Compare G.Version_String sort_by e1 e2 e3.

  Local Notation L := (Top.model_lib $"debian").
  Local Notation accepted := (fun s : bytes => l_vok L s = true).

  (* `univers debian <args>` as computed by the source-derived code is the CLI model's outcome *)
  Theorem debian_runEcosystem_e2e (fuel : nat) (args : list bytes) :
    sort_ok G.Version NV Compare sort_by accepted ->
    fits args -> (length args < fuel)%nat -> Forall (fun a => short a = true) args ->
    (forall rest, args = $"sort" :: rest -> Forall accepted rest -> show_respects L rest) ->
    exists r, runEcosystem fuel args = Done r /\ shown (run_ecosystem L args) r.
  Proof.
    apply (eco_runEcosystem_e2e _ _ _ _ _ _ _ _ ($"debian" : bytes) debian_lib_ties_on debian_model_tpo).
  Qed.

  Corollary debian_cli_e2e (fuel : nat) (args : list bytes) :
    sort_ok G.Version NV Compare sort_by accepted ->
    fits args -> (length args < fuel)%nat -> Forall (fun a => short a = true) args ->
    (forall rest, args = $"sort" :: rest -> Forall accepted rest -> show_respects L rest) ->
    exists r, runEcosystem fuel args = Done r /\ shown (Top.model_cli (($"debian" : bytes) :: args)) r.
  Proof.
    apply (eco_cli_e2e _ _ _ _ _ _ _ _ ($"debian" : bytes) debian_lib_ties_on debian_model_tpo eq_refl eq_refl).
  Qed.

  (* the exit status: no hypothesis on the order, the sort oracle only has to return a permutation *)
  Theorem debian_cli_e2e_exit (fuel : nat) (args : list bytes) :
    (forall l, Permutation (sort_by G.Version Compare l) l) ->
    fits args -> (length args < fuel)%nat -> Forall (fun a => short a = true) args ->
    exists r, runEcosystem fuel args = Done r /\ snd r = exit_code (Top.model_cli (($"debian" : bytes) :: args)).
  Proof.
    apply (eco_cli_e2e_exit _ _ _ _ _ _ _ _ ($"debian" : bytes) debian_lib_ties_on eq_refl eq_refl).
  Qed.
End E2E.

Print Assumptions debian_lib_ties_on.
Print Assumptions debian_lib_ties.
Print Assumptions debian_name_ok.
Print Assumptions debian_model_tpo.
Print Assumptions debian_runEcosystem_e2e.
Print Assumptions debian_cli_e2e.
Print Assumptions debian_cli_e2e_exit.
Print Assumptions NV_computes.
Print Assumptions NV_eq.
Print Assumptions parse_core_fields_le.
Print Assumptions NV_fits.
Print Assumptions NVR_eq.
Print Assumptions eco_found.
