(* Tie/E2E/Gem.v — END TO END for gem: the bundle of the CLI section (Gen/Parse/CmdCore.v) built out
   of the functions generated from pkg/ecosystem/gem, tied to [Top.model_lib $"gem"].

     Name             Gen.Code.Gem.Ecosystem_Name
     NewVersion       Gen.Parse.Gem.Ecosystem_NewVersion at the oracles strings.ReplaceAll, canonicalizeVersion
                      (NOT translated by the generator), versionPattern.MatchString; fuel 10 * length s + 5, made total
     NewVersionRange  Gen.Parse.Gem.Ecosystem_NewVersionRange (no oracle: the bounds are kept as texts), fuel
                      length s + 7
     Compare          Tie/Loops/Gem.Version_Compare_total (the generated loop Gen.Loops.Gem.Version_Compare)
     String           Gen.Code.Gem.Version_String
     Contains         Gen.Code.Gem.VersionRange_Contains at [satisfiesConstraint] = the generated
                      Gen.Parse.Gem.satisfiesConstraint (which calls NewVersion on the bound text, Version_Compare and
                      satisfiesPessimistic) at the same three oracles, fuel
                      10 * length (bound text) + 5 + number of segments of the probed version, made total

   gem has a CUSTOM range model (Eco/Gem/Range.v: the bounds are validated lazily in Contains; `~>` reads
   the numeric segments of both parsed versions and counts the dot-separated pieces of the bound TEXT).
   No existing file ties satisfiesConstraint / satisfiesPessimistic to that model: [pess_tie] and [sat_tie]
   are proved HERE.

   Hypotheses ([oracles]) — exactly the three agreements Tie/Parse/Gem.tie_parse_gem_newversion asks for:
     replaceAll_agrees    forall s, replaceAll s "-" ".pre." = dash_to_pre s
     canon_agrees         forall v, canon v = canonicalize v             (canonicalizeVersion, not translated)
     matchString_agrees   forall v, matchString ("v" ++ v) = pattern v   (versionPattern.MatchString)
   (strings.Builder.WriteRune is an oracle of Gen/Parse/Gem.v only for addDotsBetweenNumericAndAlpha, which
   none of the functions of the bundle calls.)

   THE DOMAIN.  canonicalizeVersion can double the length of the text and parseSegments then takes
   strings.Index / cursors on the canonical text with wrap64 arithmetic: Tie/Parse/Gem.v needs
   10 * length s + 5 < 2^63.  On [short] texts (length + 64 < 2^63) the acceptance field [o_vok] is FALSE,
   and this is proved ([gem_vok_short_fails], [gem_lib_ties_on_short_false]): for
   s = "1" ++ (".a1" repeated m times) ++ "+2" with m = 2^61 (length 3 * 2^61 + 3: short) the model accepts s,
   the canonical text is "1.a.1.a.1 ... .a.1+2", its '+' is at index 4m + 1 = 2^63 + 1, wrap64 (plusIndex + 1)
   is negative and the generated parseSegments panics at canonical[plusIndex+1:], whatever the fuel:
   NV s = None.  (No Go string has 2^62 bytes: this is a statement about Coq lists, not a bug of the Go code.)
   Hence the record is proved on [gshort] (10 * length + 64 < 2^63):  [gem_lib_ties_on].  The three CLI
   statements are re-proved for that domain from the generic Common.runEcosystem_e2e (Common.eco_cli_e2e
   is stated for [short] only).  On [short] / on all texts the fields that do hold are stated one by one:
   [gem_name_ok], [gem_rok_short] (range acceptance on short), [gem_vok_sound_all] (a text the generated
   NewVersion accepts is accepted by the model, any length), [gem_show_all] (String, any length). *)
From Coq Require Import ZArith List Ascii Bool Lia Permutation Sorted.
From Verif.Base Require Import Bytes GoNum GoOps Ord Sorting Imp ImpFacts ImpErr ImpCore BytesFacts.
From Verif.Cli Require Import Model.
From Verif.Eco Require Import RangeCore Iface VLayer.
From Verif.Eco.Gem Require Import FieldsFunc.
From Verif.Eco.Gem Require Version VersionFacts Range RangeFacts Entry.
From Verif.Gen.Code Require Gem.
From Verif.Gen.Loops Require Gem.
From Verif.Gen.Parse Require Gem CmdCore.
From Verif.Tie Require Import Tactics.
From Verif.Tie Require Gem GemRange.
From Verif.Tie.Loops Require Import Common.
From Verif.Tie.Loops Require Gem.
From Verif.Tie.Parse Require Import Common Scanners.
From Verif.Tie.Parse Require ListCursor Gem GemRange.
From Verif.Tie.Cli Require Import Common Spec Ties.
From Verif.Tie.E2E Require Import Common.
From Verif.Properties.Support Require Import SimpleRops.
From Verif Require Top.
Import ListNotations.
Local Open Scope Z_scope.

Module G := Verif.Gen.Code.Gem.
Module P := Verif.Gen.Parse.Gem.
Module M := Verif.Eco.Gem.Version.
Module MF := Verif.Eco.Gem.VersionFacts.
Module RM := Verif.Eco.Gem.Range.
Module TV := Verif.Tie.Gem.
Module TR := Verif.Tie.GemRange.
Module PG := Verif.Tie.Parse.Gem.
Module PR := Verif.Tie.Parse.GemRange.
Module TL := Verif.Tie.Loops.Gem.

(* ---------- the domain ---------- *)

Definition gshort (s : bytes) : bool := 10 * Z.of_nat (length s) + 64 <? 2 ^ 63.

Lemma gshort_lt s : gshort s = true -> 10 * Z.of_nat (length s) + 64 < 2 ^ 63.
Proof. unfold gshort. intros H. apply Z.ltb_lt in H. exact H. Qed.

Lemma gshort_le s t : (length t <= length s)%nat -> gshort s = true -> gshort t = true.
Proof. unfold gshort. intros L H. apply Z.ltb_lt in H. apply Z.ltb_lt. lia. Qed.

Lemma gshort_short s : gshort s = true -> short s = true.
Proof. unfold gshort, short. intros H. apply Z.ltb_lt in H. apply Z.ltb_lt. lia. Qed.

(* ---------- the segments NewVersion builds: how many ---------- *)

Lemma g_dzr_length l : (length (TL.g_drop_zeros_rev l) <= length l)%nat.
Proof.
  induction l as [|x t IH]; [cbn; lia|]. destruct t as [|y t']; [cbn; lia|].
  change (TL.g_drop_zeros_rev (x :: y :: t'))
    with (if TL.g_is_zero x then TL.g_drop_zeros_rev (y :: t') else x :: y :: t').
  destruct (TL.g_is_zero x); cbn [length] in *; lia.
Qed.

Lemma g_rtz_length l : (length (TL.g_rtz l) <= length l)%nat.
Proof. unfold TL.g_rtz. rewrite rev_length. etransitivity; [apply g_dzr_length|]. rewrite rev_length. lia. Qed.

Lemma g_segments_length c : (length (PG.g_segments c) <= 5 * length c + 4)%nat.
Proof.
  unfold PG.g_segments.
  pose proof (PG.cutp_length $"+" c) as L1. destruct (PG.cutp $"+" c) as [build main0]. cbn [fst snd] in L1.
  pose proof (PG.cutp_length $"-" main0) as L2. destruct (PG.cutp $"-" main0) as [pre main]. cbn [fst snd] in L2.
  rewrite !app_length.
  pose proof (PG.g_dot_parts_length main) as Lm. pose proof (PG.g_dot_parts_length build) as Lb.
  assert (Lp : (length (PG.g_pre_part pre) <= 5 * length pre + 2)%nat).
  { unfold PG.g_pre_part. destruct pre as [|p0 pr]; [cbn; lia|].
    pose proof (PG.g_dot_parts_length (M.dash_to_pre (p0 :: pr))) as A.
    pose proof (PG.dash_to_pre_length (p0 :: pr)) as B. cbn [length] in *. lia. }
  lia.
Qed.

(* ---------- satisfiesPessimistic: the loop over the first segments ---------- *)

Definition numv (l : list G.segment) : list Z := map G.segment_numValue l.

Lemma hd_skipn (l : list Z) i : hd 0 (skipn i l) = nth i l 0.
Proof. revert l. induction i as [|i IH]; intros [|x l]; try reflexivity. apply IH. Qed.

Lemma tl_skipn (l : list Z) i : tl (skipn i l) = skipn (S i) l.
Proof. revert l. induction i as [|i IH]; intros [|x l]; try reflexivity. apply IH. Qed.

Lemma prefix_eq_step k i vs cs :
  RM.prefix_eq (S k) (skipn i vs) (skipn i cs) =
  (nth i vs 0 =? nth i cs 0) && RM.prefix_eq k (skipn (S i) vs) (skipn (S i) cs).
Proof. cbn [RM.prefix_eq]. rewrite !hd_skipn, !tl_skipn. reflexivity. Qed.

Lemma numv_at (l : list G.segment) i : 0 <= i ->
  (if Z.ltb i (Z.of_nat (length l)) then bind (idx l i) (fun e => Done (G.segment_numValue e)) else Done 0)
  = Done (nth (Z.to_nat i) (numv l) 0).
Proof.
  intros Hi. destruct (Z.ltb_spec i (Z.of_nat (length l))) as [Lt|Ge].
  - rewrite (idx_in_range l i (G.mk_segment [] false 0)) by (unfold len; lia). cbn [bind]. f_equal.
    symmetry. exact (map_nth G.segment_numValue l (G.mk_segment [] false 0) (Z.to_nat i)).
  - rewrite nth_overflow by (unfold numv; rewrite map_length; lia). reflexivity.
Qed.

Lemma split_c_length_pos c (s : bytes) : (1 <= length (split_c c s))%nat.
Proof.
  induction s as [|x s IH]; cbn [split_c]; [cbn; lia|].
  destruct (ceqb c x); [cbn [length]; lia|]. destruct (split_c c s); cbn [length] in *; lia.
Qed.

Lemma main_part (tc : bytes) :
  (if negb (go_index $"-" tc =? -1) then bind (slice_to tc (go_index $"-" tc)) (fun m => Done m) else Done tc)
  = Done (match cut $"-" tc with Some (a, _) => a | None => tc end).
Proof.
  unfold go_index, index_sub. destruct (cut $"-" tc) as [[a b]|] eqn:C; [|reflexivity].
  pose proof (Verif.Tie.Parse.ListCursor.cut_length _ _ _ _ C) as L.
  destruct (cut_firstn_skipn _ _ _ _ C) as [E1 _].
  destruct (Z.eqb_spec (Z.of_nat (length a)) (-1)) as [X|_]; [lia|]. cbn [negb].
  rewrite slice_to_Done by lia. cbn [bind]. rewrite Nat2Z.id, E1. reflexivity.
Qed.

Lemma take_while_l_all {A} (p : A -> bool) l : forall x, In x (take_while_l p l) -> p x = true.
Proof.
  induction l as [|a l IH]; intros x; cbn [take_while_l]; [intros []|].
  destruct (p a) eqn:E; [|intros []]. intros [<-|H]; [exact E | apply IH, H].
Qed.

Lemma numeric_of_abs t x : M.parse_core (trim_space t) = Some (TV.abs x) ->
  RM.numeric_of t = numv (take_while_l G.segment_isNumeric (G.Version_segments x)).
Proof.
  intros E. unfold RM.numeric_of, RM.core_of, M.parse, VLayer.parse. cbv zeta. rewrite E. cbn [v_core].
  unfold M.numeric_part, TV.abs. rewrite <- TL.abs_take_while, map_map. unfold numv.
  apply map_ext_in. intros s Hs. apply take_while_l_all in Hs. unfold TV.abs_seg. rewrite Hs. reflexivity.
Qed.

Lemma has_prerelease_abs t x : M.parse_core (trim_space t) = Some (TV.abs x) ->
  RM.has_prerelease t = (0 <? Z.of_nat (length (drop_while_l G.segment_isNumeric (G.Version_segments x)))).
Proof.
  intros E. unfold RM.has_prerelease, RM.core_of, M.parse, VLayer.parse. cbv zeta. rewrite E. cbn [v_core].
  unfold M.prerelease_part, TV.abs. rewrite <- TL.abs_drop_while.
  destruct (drop_while_l G.segment_isNumeric (G.Version_segments x)); reflexivity.
Qed.

Section Pess.
  Variable vcmp : bytes -> bytes -> comparison.

  Theorem pess_tie fuel v cv tv tc :
    fits (G.Version_segments v) -> fits (G.Version_segments cv) ->
    (Nat.max (length (G.Version_segments v)) (length (G.Version_segments cv)) < fuel)%nat ->
    (S (length tc) < fuel)%nat -> Z.of_nat (length tc) + 1 < 2 ^ 63 ->
    M.parse_core (trim_space tv) = Some (TV.abs v) -> M.parse_core (trim_space tc) = Some (TV.abs cv) ->
    G.Version_original cv = tc ->
    vcmp tv tc = M.cmp_core (TV.abs v) (TV.abs cv) ->
    P.satisfiesPessimistic fuel v cv = Done (RM.sat_pessimistic vcmp tv tc).
  Proof.
    intros Fv Fc Hf Hft Ft Av Ac Oc Ecmp. unfold P.satisfiesPessimistic, RM.sat_pessimistic.
    rewrite TL.tie_loops_gem_compare by assumption. cbn [bind]. rewrite Ecmp.
    assert (NL : (Z_of_cmp (M.cmp_core (TV.abs v) (TV.abs cv)) <? 0) =
                 match M.cmp_core (TV.abs v) (TV.abs cv) with Lt => true | _ => false end)
      by (destruct (M.cmp_core (TV.abs v) (TV.abs cv)); reflexivity).
    rewrite NL. clear NL.
    match goal with |- (if _ then _ else ?R) = _ =>
      assert (HR : R = Done (RM.prefix_eq (RM.segments_to_check tc) (RM.numeric_of tv) (RM.numeric_of tc))) end.
    2:{ rewrite HR. destruct (M.cmp_core (TV.abs v) (TV.abs cv)); reflexivity. }
    rewrite !TL.tie_loops_gem_split_exact by (assumption || lia). cbn [bind]. cbv beta iota zeta.
    unfold G.Version_String. rewrite Oc. rewrite main_part. cbn [bind].
    rewrite (numeric_of_abs tv v Av), (numeric_of_abs tc cv Ac).
    set (vn := take_while_l G.segment_isNumeric (G.Version_segments v)).
    set (cn := take_while_l G.segment_isNumeric (G.Version_segments cv)).
    set (cpre := drop_while_l G.segment_isNumeric (G.Version_segments cv)).
    set (main := match cut $"-" tc with Some (a, _) => a | None => tc end).
    assert (EN : (if 0 <? Z.of_nat (length cpre)
                  then Z.of_nat (length (split_c (chr 46) main))
                  else if Z.of_nat (length (split_c (chr 46) main)) =? 1 then 1
                       else wrap64 (Z.of_nat (length (split_c (chr 46) main)) - 1))
                 = Z.of_nat (RM.segments_to_check tc)).
    { unfold RM.segments_to_check, RM.text_segments. cbv zeta. rewrite (has_prerelease_abs tc cv Ac).
      fold cpre. fold main. change "."%char with (chr 46).
      pose proof (split_c_length_pos (chr 46) main) as Lp.
      pose proof (split_c_length_le (chr 46) main) as Ls.
      assert (Lm : (length main <= length tc)%nat).
      { subst main. destruct (cut $"-" tc) as [[a b]|] eqn:C; [|lia].
        pose proof (Verif.Tie.Parse.ListCursor.cut_length _ _ _ _ C). lia. }
      destruct (0 <? Z.of_nat (length cpre)); [reflexivity|].
      destruct (Nat.eqb_spec (length (split_c (chr 46) main)) 1) as [E1|E1];
        destruct (Z.eqb_spec (Z.of_nat (length (split_c (chr 46) main))) 1) as [E2|E2]; try lia.
      rewrite wrap64_small by lia. lia. }
    rewrite EN. clear EN.
    assert (LN : (RM.segments_to_check tc <= S (length tc))%nat).
    { unfold RM.segments_to_check, RM.text_segments. cbv zeta. fold main. change "."%char with (chr 46).
      pose proof (split_c_length_le (chr 46) main) as Ls.
      assert (Lm : (length main <= length tc)%nat).
      { subst main. destruct (cut $"-" tc) as [[a b]|] eqn:C; [|lia].
        pose proof (Verif.Tie.Parse.ListCursor.cut_length _ _ _ _ C). lia. }
      destruct (RM.has_prerelease tc); [lia|].
      destruct (Nat.eqb_spec (length (split_c (chr 46) main)) 1); lia. }
    set (n := RM.segments_to_check tc) in *. clearbody n. clearbody vn cn. clear cpre main.
    set (vs := numv vn). set (cs := numv cn).
    match goal with |- bind (while fuel ?b 0) _ = _ => set (body := b) end.
    pose (Inv := fun i : Z => 0 <= i <= Z.of_nat n /\
       RM.prefix_eq n vs cs = RM.prefix_eq (n - Z.to_nat i)%nat (skipn (Z.to_nat i) vs) (skipn (Z.to_nat i) cs)).
    pose (Qb := fun _ : Z => RM.prefix_eq n vs cs = true).
    pose (Q := fun r : bool => r = RM.prefix_eq n vs cs).
    assert (R : exit_ok Qb Q (while fuel body 0)).
    { apply (while_rule_fuel body Inv (fun i => Z.to_nat (Z.of_nat n - i))).
      - intros i [Hi E]. unfold step_ok, body.
        destruct (Z.ltb_spec i (Z.of_nat n)) as [Hlt|Hge].
        + rewrite (numv_at vn i), (numv_at cn i) by lia. cbn [bind]. fold vs cs.
          replace (n - Z.to_nat i)%nat with (S (n - S (Z.to_nat i))) in E by lia.
          rewrite prefix_eq_step in E.
          destruct (Z.eqb_spec (nth (Z.to_nat i) vs 0) (nth (Z.to_nat i) cs 0)) as [X|X]; cbn [negb].
          * rewrite (wrap64_succ i (Z.of_nat n)) by lia. split; [|lia]. split; [lia|].
            rewrite Z_to_nat_succ by lia. rewrite E. reflexivity.
          * unfold Q. rewrite E. reflexivity.
        + unfold Qb. rewrite E. replace (n - Z.to_nat i)%nat with 0%nat by lia. reflexivity.
      - split; [lia|]. rewrite Nat.sub_0_r. reflexivity.
      - lia. }
    destruct (while fuel body 0) as [[i|r]| |]; cbn [exit_ok] in R; try contradiction; cbn [bind].
    - unfold Qb in R. rewrite R. reflexivity.
    - unfold Q in R. rewrite R. reflexivity.
  Qed.
End Pess.
Print Assumptions pess_tie.

(* ---------- the oracles and what is assumed of them ---------- *)
Record oracles : Type := {
  replaceAll : bytes -> bytes -> bytes -> bytes;     (* strings.ReplaceAll *)
  canon : bytes -> bytes;                            (* canonicalizeVersion (not translated by the generator) *)
  matchString : bytes -> bool;                       (* versionPattern.MatchString *)
  replaceAll_agrees : forall s, replaceAll s $"-" $".pre." = M.dash_to_pre s;
  canon_agrees : forall v, canon v = M.canonicalize v;
  matchString_agrees : forall v, matchString ($"v" ++ v) = M.pattern v
}.

Section E2E.
  Variable O : oracles.

  (* ---------- the concrete bundle ---------- *)
  Definition Name : bytes := G.Ecosystem_Name G.mk_Ecosystem.
  Definition Compare : G.Version -> G.Version -> Z := TL.Version_Compare_total.
  Definition NV (s : bytes) : option G.Version :=
    total None (P.Ecosystem_NewVersion (replaceAll O) (canon O) (matchString O) (10 * length s + 5) G.mk_Ecosystem s).
  Definition NVR (s : bytes) : option G.VersionRange :=
    total None (P.Ecosystem_NewVersionRange (length s + 7) G.mk_Ecosystem s).
  Definition sc_fuel (v : G.Version) (c : G.constraint) : nat :=
    10 * length (G.constraint_version c) + 5 + length (G.Version_segments v).
  Definition satisfiesConstraint (v : G.Version) (c : G.constraint) (e0 : G.Ecosystem) : bool :=
    total false (P.satisfiesConstraint (replaceAll O) (canon O) (matchString O) (sc_fuel v c) v c e0).
  Definition Contains : G.VersionRange -> G.Version -> bool := G.VersionRange_Contains satisfiesConstraint.

  (* what NewVersion computes, as a function of the text *)
  Definition nvm (s : bytes) : option G.Version :=
    match trim_prefix $"v" (trim_space s) with
    | [] => None
    | v => if M.pattern v
           then Some (G.mk_Version (TL.g_rtz (PG.g_segments (M.canonicalize v))) s)
           else None
    end.

  Lemma NV_computes fuel e0 s : Z.of_nat (10 * length s + 5) < 2 ^ 63 -> (10 * length s + 4 < fuel)%nat ->
    P.Ecosystem_NewVersion (replaceAll O) (canon O) (matchString O) fuel e0 s = Done (nvm s).
  Proof.
    intros F Hf. unfold P.Ecosystem_NewVersion, nvm. cbv zeta.
    pose proof (trim_space_length_le s) as L1.
    pose proof (trim_prefix_length_le $"v" (trim_space s)) as L2.
    set (v := trim_prefix $"v" (trim_space s)) in *. clearbody v.
    destruct v as [|v0 vr]; [reflexivity|].
    change (beq (v0 :: vr) []) with false. cbv iota.
    rewrite (matchString_agrees O). destruct (M.pattern (v0 :: vr)); [|reflexivity]. cbn [negb].
    rewrite (canon_agrees O).
    pose proof (PG.canonicalize_length (v0 :: vr)) as L3.
    rewrite (PG.tie_parse_gem_parseSegments (replaceAll O) (replaceAll_agrees O)) by lia.
    reflexivity.
  Qed.

  Lemma NV_eq s : gshort s = true -> NV s = nvm s.
  Proof. intros Hs. apply gshort_lt in Hs. unfold NV. rewrite NV_computes by lia. reflexivity. Qed.

  Lemma nvm_abs t x : nvm t = Some x ->
    M.parse_core (trim_space t) = Some (TV.abs x) /\ G.Version_original x = t.
  Proof.
    unfold nvm, M.parse_core. cbv zeta. destruct (trim_prefix $"v" (trim_space t)) as [|v0 vr]; [discriminate|].
    destruct (M.pattern (v0 :: vr)); [|discriminate]. intros H. injection H as <-.
    unfold TV.abs. cbn [G.Version_segments G.Version_original]. rewrite PG.abs_segments. split; reflexivity.
  Qed.

  Lemma nvm_len t x : nvm t = Some x -> (length (G.Version_segments x) <= 10 * length t + 4)%nat.
  Proof.
    unfold nvm. pose proof (trim_space_length_le t) as L1.
    pose proof (trim_prefix_length_le $"v" (trim_space t)) as L2.
    destruct (trim_prefix $"v" (trim_space t)) as [|v0 vr]; [discriminate|].
    destruct (M.pattern (v0 :: vr)); [|discriminate]. intros H. injection H as <-.
    cbn [G.Version_segments].
    pose proof (g_rtz_length (PG.g_segments (M.canonicalize (v0 :: vr)))) as A.
    pose proof (g_segments_length (M.canonicalize (v0 :: vr))) as B.
    pose proof (PG.canonicalize_length (v0 :: vr)) as C. lia.
  Qed.

  Lemma nvm_fits t x : gshort t = true -> nvm t = Some x -> fits (G.Version_segments x).
  Proof. intros Hs H. apply gshort_lt in Hs. apply nvm_len in H. unfold fits. lia. Qed.

  Definition e : eco := Verif.Eco.Gem.Entry.entry.

  Lemma eco_found : Top.eco_or_none $"gem" = Some e.
  Proof. reflexivity. Qed.

  Lemma vok_self t : self_vok e t = is_some (nvm t).
  Proof.
    unfold nvm, self_vok, e, Verif.Eco.Gem.Entry.entry, Verif.Eco.Gem.Entry.v, mk_vops, v_show, e_v,
      VLayer.parse, M.parse_core.
    cbv zeta. destruct (trim_prefix $"v" (trim_space t)) as [|v0 vr]; [reflexivity|].
    destruct (M.pattern (v0 :: vr)); reflexivity.
  Qed.

  Lemma self_cmp a b ca cb : M.parse_core (trim_space a) = Some ca -> M.parse_core (trim_space b) = Some cb ->
    self_vcmp e a b = M.cmp_core ca cb.
  Proof. apply (self_vcmp_core M.core M.parse_core M.cmp_core M.raw_orig $"gem" Verif.Eco.Gem.Entry.r). Qed.

  (* ---------- satisfiesConstraint against the model's sat_constraint ---------- *)

  Lemma sat_tie tv v op t :
    gshort tv = true -> nvm tv = Some v -> gshort t = true ->
    satisfiesConstraint v (G.mk_constraint op t) G.mk_Ecosystem =
    RM.sat_constraint (self_vok e) (self_vcmp e) tv (op, t).
  Proof.
    intros Dv Hv Dt. destruct (nvm_abs tv v Hv) as [Av Ov]. pose proof (nvm_len tv v Hv) as Lv.
    apply gshort_lt in Dv. apply gshort_lt in Dt.
    unfold satisfiesConstraint, sc_fuel, P.satisfiesConstraint, RM.sat_constraint.
    cbn [G.constraint_version G.constraint_operator fst snd].
    rewrite NV_computes by lia. cbn [bind]. rewrite vok_self.
    destruct (nvm t) as [cv|] eqn:Ec; cbn [is_some]; [|reflexivity].
    destruct (nvm_abs t cv Ec) as [Ac Oc]. pose proof (nvm_len t cv Ec) as Lc.
    rewrite TL.tie_loops_gem_compare by (unfold fits; lia). cbn [bind]. cbv zeta.
    pose proof (self_cmp tv t _ _ Av Ac) as Ecmp.
    destruct (beq op RM.pess) eqn:Ep.
    - apply beq_eq in Ep. subst op. unfold RM.pess.
      change (beq $"~>" $"=") with false. change (beq $"~>" $"!=") with false.
      change (beq $"~>" $">") with false. change (beq $"~>" $">=") with false.
      change (beq $"~>" $"<") with false. change (beq $"~>" $"<=") with false.
      change (beq $"~>" $"~>") with true. cbv iota.
      rewrite (pess_tie (self_vcmp e) _ v cv tv t) by (try exact Ecmp; try assumption; unfold fits; lia).
      reflexivity.
    - rewrite Ecmp. unfold sem6. unfold RM.pess in Ep.
      destruct (beq op $"="); [destruct (M.cmp_core _ _); reflexivity|].
      destruct (beq op $"!="); [destruct (M.cmp_core _ _); reflexivity|].
      destruct (beq op $">"); [destruct (M.cmp_core _ _); reflexivity|].
      destruct (beq op $">="); [destruct (M.cmp_core _ _); reflexivity|].
      destruct (beq op $"<"); [destruct (M.cmp_core _ _); reflexivity|].
      destruct (beq op $"<="); [destruct (M.cmp_core _ _); reflexivity|].
      rewrite Ep. destruct (M.cmp_core _ _); reflexivity.
  Qed.

  (* ---------- Contains on a parsed range ---------- *)

  Lemma contains_tie (n : nat) o v y cs :
    gshort v = true -> nvm v = Some y -> 10 * Z.of_nat n + 64 < 2 ^ 63 ->
    Forall (fun c : constraint => (length (snd c) <= n)%nat) cs ->
    Contains (G.mk_VersionRange (map PR.conc_c cs) o) y =
    forallb (RM.sat_constraint (self_vok e) (self_vcmp e) v) cs.
  Proof.
    intros Dv Ev Hn. unfold Contains, G.VersionRange_Contains. cbv zeta. cbn [G.VersionRange_constraints].
    induction 1 as [|c cs Lc _ IH]; [reflexivity|]. cbn [map forallb]. rewrite IH. f_equal.
    destruct c as [op t]. unfold PR.conc_c. cbn [fst snd] in *.
    apply sat_tie; [exact Dv | exact Ev |]. unfold gshort. apply Z.ltb_lt. lia.
  Qed.

  (* the bounds of a parsed range are no longer than the range text *)
  Lemma parse_range_bounds s rg : RM.parse_range (self_vok e) s = Some rg ->
    Forall (fun c : constraint => (length (snd c) <= length s)%nat) (r_cs rg).
  Proof.
    intros H. unfold RM.parse_range in H. apply Forall_forall. intros c Hc.
    apply parse_range_cs in H.
    destruct (parse_constraints_In _ _ _ _ H c Hc) as (p & Hp & Ec & _).
    apply parse_constraint_bound_le in Ec.
    change (rc_split RM.cfg) with split_comma_trim in Hp. apply split_comma_trim_le in Hp.
    pose proof (trim_space_length_le s). lia.
  Qed.

  Lemma NVR_eq_short s : short s = true -> NVR s = option_map PR.conc (RM.parse_range (self_vok e) s).
  Proof.
    intros Hs. apply short_lt in Hs. unfold NVR.
    rewrite (PR.tie_parse_gem_newversionrange (self_vok e)) by lia. reflexivity.
  Qed.

  Lemma NVR_eq s : gshort s = true -> NVR s = option_map PR.conc (RM.parse_range (self_vok e) s).
  Proof. intros Hs. apply NVR_eq_short, gshort_short, Hs. Qed.

  (* ---------- lib_ties ---------- *)

  Theorem gem_lib_ties_on :
    lib_ties_on G.Version G.VersionRange Name NV NVR Contains Compare G.Version_String
                (Top.model_lib $"gem") gshort.
  Proof.
    rewrite (model_lib_of _ _ eco_found). constructor; cbn [l_name l_vok l_rok l_vcmp l_vshow l_rcontains].
    - reflexivity.
    - intros s Ds. rewrite (NV_eq s Ds). apply vok_self.
    - intros s Ds. rewrite (NVR_eq s Ds).
      change (r_show (e_r e) (self_vok e) s) with (option_map RM.show (RM.parse_range (self_vok e) s)).
      destruct (RM.parse_range (self_vok e) s); reflexivity.
    - intros a b x y Da Db Ea Eb. rewrite (NV_eq a Da) in Ea. rewrite (NV_eq b Db) in Eb.
      destruct (nvm_abs a x Ea) as [Aa _]. destruct (nvm_abs b y Eb) as [Ab _].
      rewrite (self_cmp a b _ _ Aa Ab).
      apply TL.Version_Compare_total_model; [exact (nvm_fits a x Da Ea) | exact (nvm_fits b y Db Eb)].
    - intros a x Da Ea. rewrite (NV_eq a Da) in Ea. destruct (nvm_abs a x Ea) as [Aa Oa].
      unfold e, Verif.Eco.Gem.Entry.entry, Verif.Eco.Gem.Entry.v, mk_vops, v_show, e_v, VLayer.parse.
      cbv zeta. rewrite Aa. exact Oa.
    - intros r v x y Dr Dv Er Ev. rewrite (NVR_eq r Dr) in Er. rewrite (NV_eq v Dv) in Ev.
      change (r_contains (e_r e) (self_vok e) (self_vcmp e) r v)
        with (match RM.parse_range (self_vok e) r with
              | Some rg => if self_vok e v then Some (RM.contains (self_vok e) (self_vcmp e) rg v) else None
              | None => None
              end).
      destruct (RM.parse_range (self_vok e) r) as [rg|] eqn:PRg; [|discriminate].
      injection Er as <-. rewrite (vok_self v), Ev. cbn [is_some].
      unfold PR.conc, RM.contains.
      apply (contains_tie (length r)); [exact Dv | exact Ev | apply gshort_lt; exact Dr |].
      exact (parse_range_bounds r rg PRg).
  Qed.

  (* the record of Tie/Cli/Common.v, for the bundle guarded by the length bound *)
  Corollary gem_lib_ties :
    lib_ties G.Version G.VersionRange Name (guard gshort NV) (guard gshort NVR) Contains Compare
             G.Version_String (restrict (Top.model_lib $"gem") gshort).
  Proof. apply lib_ties_guard, gem_lib_ties_on. Qed.

  Theorem gem_name_ok : Name = $"gem".
  Proof. reflexivity. Qed.

  Theorem gem_model_tpo :
    TotalPreorderOn (fun s => l_vok (Top.model_lib $"gem") s = true) (l_vcmp (Top.model_lib $"gem")).
  Proof. apply (model_lib_tpo _ _ _ _ _ _ eco_found MF.cmp_core_tp). Qed.

  (* ---------- the fields that hold beyond [gshort] ---------- *)

  (* acceptance of range texts: on [short] *)
  Theorem gem_rok_short : forall s, short s = true -> l_rok (Top.model_lib $"gem") s = is_some (NVR s).
  Proof.
    rewrite (model_lib_of _ _ eco_found). cbn [l_rok]. intros s Ds. rewrite (NVR_eq_short s Ds).
    change (r_show (e_r e) (self_vok e) s) with (option_map RM.show (RM.parse_range (self_vok e) s)).
    destruct (RM.parse_range (self_vok e) s); reflexivity.
  Qed.

  (* whatever its length: a text the generated NewVersion accepts is accepted by the model, and the value
     remembers the text *)
  Lemma NV_some_inv a x : NV a = Some x ->
    G.Version_original x = a /\ exists c, M.parse_core (trim_space a) = Some c.
  Proof.
    unfold NV, P.Ecosystem_NewVersion, M.parse_core. cbv zeta.
    destruct (trim_prefix $"v" (trim_space a)) as [|v0 vr]; [discriminate|].
    change (beq (v0 :: vr) []) with false. cbv iota.
    rewrite (matchString_agrees O). destruct (M.pattern (v0 :: vr)); [|discriminate]. cbn [negb].
    destruct (P.parseSegments _ _ _) as [[segs|]| |]; cbn [bind total]; try discriminate.
    intros H. injection H as <-. split; [reflexivity | eexists; reflexivity].
  Qed.

  Theorem gem_vok_sound_all : forall s, is_some (NV s) = true -> l_vok (Top.model_lib $"gem") s = true.
  Proof.
    rewrite (model_lib_of _ _ eco_found). cbn [l_vok]. intros s H.
    destruct (NV s) as [x|] eqn:E; [|discriminate]. destruct (NV_some_inv s x E) as [_ [c Hc]].
    apply (self_vok_core M.core M.parse_core M.cmp_core M.raw_orig $"gem" Verif.Eco.Gem.Entry.r). exists c. exact Hc.
  Qed.

  Theorem gem_show_all : forall a x, NV a = Some x -> G.Version_String x = l_vshow (Top.model_lib $"gem") a.
  Proof.
    rewrite (model_lib_of _ _ eco_found). cbn [l_vshow]. intros a x E.
    destruct (NV_some_inv a x E) as [Oa [c Hc]].
    unfold e, Verif.Eco.Gem.Entry.entry, Verif.Eco.Gem.Entry.v, mk_vops, v_show, e_v, VLayer.parse.
    cbv zeta. rewrite Hc. exact Oa.
  Qed.

  (* ---------- the CLI (Common.eco_cli_e2e is stated for [short]; the same from the generic statements,
     for [gshort]) ---------- *)

  Variable sort_by : forall A : Type, (A -> A -> Z) -> list A -> list A.
  Variable e1 e2 e3 : list bytes -> bytes.

  Definition runEcosystem : nat -> list bytes -> res (bytes * Z) :=
    CmdCore.runEcosystem G.Version G.VersionRange Name NV NVR Contains Compare G.Version_String sort_by e1 e2 e3.

  Local Notation L := (Top.model_lib $"gem").
  Local Notation accepted := (fun s : bytes => l_vok L s = true).

  (* `univers gem <args>` as computed by the source-derived code is the CLI model's outcome *)
  Theorem gem_runEcosystem_e2e (fuel : nat) (args : list bytes) :
    sort_ok G.Version NV Compare sort_by accepted ->
    fits args -> (length args < fuel)%nat -> Forall (fun a => gshort a = true) args ->
    (forall rest, args = $"sort" :: rest -> Forall accepted rest -> show_respects L rest) ->
    exists r, runEcosystem fuel args = Done r /\ shown (run_ecosystem L args) r.
  Proof.
    intros SO F Hf FD SR.
    apply (runEcosystem_e2e G.Version G.VersionRange Name NV NVR Contains Compare G.Version_String sort_by
             e1 e2 e3 L gshort accepted gem_lib_ties_on SO gem_model_tpo fuel args F Hf FD).
    intros rest E OK. split; [exact OK | exact (SR rest E OK)].
  Qed.

  Corollary gem_cli_e2e (fuel : nat) (args : list bytes) :
    sort_ok G.Version NV Compare sort_by accepted ->
    fits args -> (length args < fuel)%nat -> Forall (fun a => gshort a = true) args ->
    (forall rest, args = $"sort" :: rest -> Forall accepted rest -> show_respects L rest) ->
    exists r, runEcosystem fuel args = Done r /\ shown (Top.model_cli (($"gem" : bytes) :: args)) r.
  Proof.
    intros SO F Hf FD SR.
    destruct (gem_runEcosystem_e2e fuel args SO F Hf FD SR) as (r & E1 & E2).
    exists r. split; [exact E1|]. rewrite (model_cli_eco ($"gem" : bytes) args eq_refl eq_refl). exact E2.
  Qed.

  (* the exit status: no hypothesis on the order, the sort oracle only has to return a permutation *)
  Theorem gem_cli_e2e_exit (fuel : nat) (args : list bytes) :
    (forall l, Permutation (sort_by G.Version Compare l) l) ->
    fits args -> (length args < fuel)%nat -> Forall (fun a => gshort a = true) args ->
    exists r, runEcosystem fuel args = Done r /\ snd r = exit_code (Top.model_cli (($"gem" : bytes) :: args)).
  Proof.
    intros SP F Hf FD.
    destruct (runEcosystem_e2e_exit G.Version G.VersionRange Name NV NVR Contains Compare G.Version_String sort_by
                e1 e2 e3 L gshort gem_lib_ties_on fuel args SP F Hf FD) as (r & E1 & E2).
    exists r. split; [exact E1|]. rewrite (model_cli_eco ($"gem" : bytes) args eq_refl eq_refl). exact E2.
  Qed.
End E2E.

Print Assumptions gem_lib_ties_on.
Print Assumptions gem_lib_ties.
Print Assumptions gem_name_ok.
Print Assumptions gem_model_tpo.
Print Assumptions gem_rok_short.
Print Assumptions gem_vok_sound_all.
Print Assumptions gem_show_all.
Print Assumptions gem_runEcosystem_e2e.
Print Assumptions gem_cli_e2e.
Print Assumptions gem_cli_e2e_exit.
Print Assumptions gshort_lt.
Print Assumptions gshort_le.
Print Assumptions gshort_short.
Print Assumptions g_dzr_length.
Print Assumptions g_rtz_length.
Print Assumptions g_segments_length.
Print Assumptions hd_skipn.
Print Assumptions tl_skipn.
Print Assumptions prefix_eq_step.
Print Assumptions numv_at.
Print Assumptions split_c_length_pos.
Print Assumptions main_part.
Print Assumptions take_while_l_all.
Print Assumptions numeric_of_abs.
Print Assumptions has_prerelease_abs.
Print Assumptions NV_computes.
Print Assumptions NV_eq.
Print Assumptions nvm_abs.
Print Assumptions nvm_len.
Print Assumptions nvm_fits.
Print Assumptions eco_found.
Print Assumptions vok_self.
Print Assumptions self_cmp.
Print Assumptions sat_tie.
Print Assumptions contains_tie.
Print Assumptions parse_range_bounds.
Print Assumptions NVR_eq_short.
Print Assumptions NVR_eq.
Print Assumptions NV_some_inv.

(* ---------- [o_vok] is FALSE on [short]: a machine-checked witness ----------
   wit m = "1" ++ (".a1" m times) ++ "+2".  The model accepts it (main part 1.a1.a1...., build part 2);
   canonicalizeVersion = canonicalize turns every ".a1" into ".a.1", so that the '+' of the canonical text is at
   index 4m + 1; for m = 2^61 the text has 3 * 2^61 + 3 bytes (short) and wrap64 (plusIndex + 1) < 0:
   the generated parseSegments panics at canonical[plusIndex+1:] whatever the fuel. *)
Fixpoint rep (m : nat) : bytes :=
  match m with O => [] | S k => "."%char :: "a"%char :: "1"%char :: rep k end.
Fixpoint repd (m : nat) : bytes :=
  match m with O => [] | S k => "."%char :: "a"%char :: "."%char :: "1"%char :: repd k end.
Definition wit (m : nat) : bytes := "1"%char :: rep m ++ $"+2".

Lemma rep_length m : length (rep m) = (3 * m)%nat.
Proof. induction m as [|m IH]; cbn [rep length]; lia. Qed.

Lemma repd_length m : length (repd m) = (4 * m)%nat.
Proof. induction m as [|m IH]; cbn [repd length]; lia. Qed.

Lemma rep_all (Q : ascii -> bool) m :
  Q "."%char = true -> Q "a"%char = true -> Q "1"%char = true -> forallb Q (rep m) = true.
Proof. intros A B C. induction m as [|m IH]; cbn [rep forallb]; [reflexivity|]. rewrite A, B, C, IH. reflexivity. Qed.

Lemma repd_all (Q : ascii -> bool) m :
  Q "."%char = true -> Q "a"%char = true -> Q "1"%char = true -> forallb Q (repd m) = true.
Proof. intros A B C. induction m as [|m IH]; cbn [repd forallb]; [reflexivity|]. rewrite A, B, C, IH. reflexivity. Qed.

Lemma rep_split m : split_c "."%char (rep m) = [] :: repeat ($"a1") m.
Proof.
  induction m as [|m IH]; [reflexivity|]. cbn [rep repeat split_c]. rewrite IH. reflexivity.
Qed.

Lemma rep_dots m : M.add_dots_aux "1"%char (rep m) = repd m.
Proof. induction m as [|m IH]; [reflexivity|]. cbn [repd]. rewrite <- IH. reflexivity. Qed.

Lemma ceqb_refl c : ceqb c c = true.
Proof. unfold ceqb. apply N.eqb_refl. Qed.

Lemma cut_notin c p (s : bytes) : forallb (fun x => negb (ceqb c x)) s = true -> cut (c :: p) s = None.
Proof.
  induction s as [|x s IH]; intros H; [reflexivity|]. cbn [forallb] in H. apply andb_prop in H as [Hx Hs].
  apply negb_true_iff in Hx. cbn [cut has_prefix]. rewrite Hx. cbn [andb]. rewrite (IH Hs). reflexivity.
Qed.

Lemma cut_at c (a b : bytes) : forallb (fun x => negb (ceqb c x)) a = true -> cut [c] (a ++ c :: b) = Some (a, b).
Proof.
  induction a as [|x a IH]; intros H.
  - cbn [app cut has_prefix]. rewrite ceqb_refl. reflexivity.
  - cbn [forallb] in H. apply andb_prop in H as [Hx Ha]. apply negb_true_iff in Hx.
    cbn [app cut has_prefix]. rewrite Hx. cbn [andb]. rewrite (IH Ha). reflexivity.
Qed.

Lemma ff_run p (a : bytes) : forall cur rest, forallb (fun c => negb (p c)) a = true ->
  fields_func_aux p cur (a ++ rest) = fields_func_aux p (rev a ++ cur) rest.
Proof.
  induction a as [|x a IH]; intros cur rest H; [reflexivity|]. cbn [forallb] in H.
  apply andb_prop in H as [Hx Ha]. apply negb_true_iff in Hx. cbn [app fields_func_aux]. rewrite Hx.
  rewrite IH by exact Ha. cbn [rev]. rewrite <- app_assoc. reflexivity.
Qed.

Lemma forallb_repeat {A} (Q : A -> bool) x m : Q x = true -> forallb Q (repeat x m) = true.
Proof. intros H. induction m as [|m IH]; cbn [repeat forallb]; [reflexivity|]. rewrite H, IH. reflexivity. Qed.

Lemma wit_app m : wit m = ("1"%char :: rep m) ++ "+"%char :: $"2".
Proof. reflexivity. Qed.

Lemma wit_trim m : trim_prefix $"v" (trim_space (wit m)) = wit m.
Proof.
  rewrite Verif.Eco.RangeCoreFacts.trim_space_no_space; [reflexivity|].
  unfold Verif.Eco.RangeCoreFacts.no_space, wit. cbn [forallb]. rewrite forallb_app, rep_all by reflexivity. reflexivity.
Qed.

Lemma wit_pattern m : M.pattern (wit m) = true.
Proof.
  unfold M.pattern. rewrite wit_app.
  rewrite (cut_at "+"%char) by (cbn [forallb]; rewrite rep_all by reflexivity; reflexivity).
  cbv beta iota zeta.
  rewrite (cut_notin "-"%char []) by (cbn [forallb]; rewrite rep_all by reflexivity; reflexivity).
  cbv beta iota zeta.
  assert (Mn : M.main_ok ("1"%char :: rep m) = true).
  { unfold M.main_ok. cbn [split_c]. rewrite rep_split.
    change (ceqb "."%char "1"%char) with false. cbv iota.
    change (nonempty_digits ["1"%char]) with true. cbn [andb].
    destruct m as [|m]; [reflexivity|]. cbn [repeat drop_while_l].
    change (nonempty_digits $"a1") with false. cbv iota.
    apply (forallb_repeat M.alpha_num ($"a1") (S m)). reflexivity. }
  rewrite Mn. reflexivity.
Qed.

Lemma wit_canon m : M.canonicalize (wit m) = ("1"%char :: repd m) ++ "+"%char :: $"2".
Proof.
  unfold M.canonicalize, fields_func.
  assert (FF : fields_func_aux M.is_sep [] (wit m) = [ "1"%char :: rep m; $"2" ]).
  { rewrite wit_app, ff_run by (cbn [forallb]; rewrite rep_all by reflexivity; reflexivity).
    rewrite app_nil_r. destruct (rev ("1"%char :: rep m)) as [|c0 l] eqn:E.
    - apply (f_equal (@length ascii)) in E. rewrite rev_length in E. discriminate.
    - assert (R : rev (c0 :: l) = "1"%char :: rep m) by (rewrite <- E; apply rev_involutive).
      rewrite <- R. reflexivity. }
  rewrite FF. cbn [flat_map].
  assert (CS : contains_sub ("-"%char :: $"2") (wit m) = false).
  { unfold contains_sub. rewrite (cut_notin "-"%char ($"2")); [reflexivity|].
    unfold wit. cbn [forallb]. rewrite forallb_app, rep_all by reflexivity. reflexivity. }
  rewrite CS. cbn [M.add_dots]. rewrite rep_dots. rewrite app_nil_r. reflexivity.
Qed.

Lemma parseSegments_panics ra fuel (c : bytes) : go_index $"+" c = 2 ^ 63 + 1 -> P.parseSegments ra fuel c = Panic.
Proof. intros H. unfold P.parseSegments. cbv zeta. rewrite H. reflexivity. Qed.

Section Witness.
  Variable O : oracles.
  Variable m : nat.
  Hypothesis Hm : Z.of_nat m = 2 ^ 61.

  Lemma wit_short : short (wit m) = true.
  Proof.
    unfold short, wit. apply Z.ltb_lt. cbn [length]. rewrite app_length, rep_length.
    change (length ($"+2")) with 2%nat. lia.
  Qed.

  Lemma wit_accepted : l_vok (Top.model_lib $"gem") (wit m) = true.
  Proof.
    rewrite (model_lib_of _ _ eco_found). cbn [l_vok].
    apply (self_vok_core M.core M.parse_core M.cmp_core M.raw_orig $"gem" Verif.Eco.Gem.Entry.r).
    unfold M.parse_core. cbv zeta. rewrite wit_trim, wit_pattern. unfold wit. eexists. reflexivity.
  Qed.

  Lemma wit_rejected : NV O (wit m) = None.
  Proof.
    unfold NV, P.Ecosystem_NewVersion. cbv zeta. rewrite wit_trim.
    change (beq (wit m) []) with false. cbv iota.
    rewrite (matchString_agrees O), wit_pattern. cbn [negb]. rewrite (canon_agrees O), wit_canon.
    rewrite parseSegments_panics; [reflexivity|].
    unfold go_index, index_sub.
    rewrite (cut_at "+"%char) by (cbn [forallb]; rewrite repd_all by reflexivity; reflexivity).
    cbn [length]. rewrite repd_length. lia.
  Qed.
End Witness.

Theorem gem_vok_short_fails (O : oracles) :
  exists s, short s = true /\ l_vok (Top.model_lib $"gem") s = true /\ NV O s = None.
Proof.
  assert (Hm : Z.of_nat (Z.to_nat (2 ^ 61)) = 2 ^ 61) by (apply Z2Nat.id; lia).
  exists (wit (Z.to_nat (2 ^ 61))).
  split; [exact (wit_short _ Hm) | split; [exact (wit_accepted _) | exact (wit_rejected O _ Hm)]].
Qed.

Theorem gem_lib_ties_on_short_false (O : oracles) :
  ~ lib_ties_on G.Version G.VersionRange Name (NV O) NVR (Contains O) Compare G.Version_String
                (Top.model_lib $"gem") short.
Proof.
  intros [_ Hvok _ _ _ _]. destruct (gem_vok_short_fails O) as (s & Hs & Hv & Hn).
  specialize (Hvok s Hs). rewrite Hv, Hn in Hvok. discriminate.
Qed.

Print Assumptions gem_vok_short_fails.
Print Assumptions gem_lib_ties_on_short_false.
Print Assumptions rep_length.
Print Assumptions repd_length.
Print Assumptions rep_all.
Print Assumptions repd_all.
Print Assumptions rep_split.
Print Assumptions rep_dots.
Print Assumptions ceqb_refl.
Print Assumptions cut_notin.
Print Assumptions cut_at.
Print Assumptions ff_run.
Print Assumptions forallb_repeat.
Print Assumptions wit_app.
Print Assumptions wit_trim.
Print Assumptions wit_pattern.
Print Assumptions wit_canon.
Print Assumptions parseSegments_panics.
Print Assumptions wit_short.
Print Assumptions wit_accepted.
Print Assumptions wit_rejected.
