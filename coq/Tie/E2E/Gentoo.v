(* Tie/E2E/Gentoo.v — END TO END for gentoo: the bundle of the CLI section (Gen/Parse/CmdCore.v) built out
   of the functions generated from pkg/ecosystem/gentoo, tied to [Top.model_lib $"gentoo"].

     Name             Gen.Code.Gentoo.Ecosystem_Name
     NewVersion       Gen.Parse.Gentoo.Ecosystem_NewVersion at the regexp oracle, fuel 12, made total
     NewVersionRange  Gen.Parse.Gentoo.Ecosystem_NewVersionRange, fuel length s + 12, made total
     Compare          Gen.Parse.Gentoo.Version_Compare (index loop), fuel max(len, len) + 1, made total
     String           Gen.Code.Gentoo.Version_String
     Contains         Gen.Code.Gentoo.VersionRange_Contains at this Compare

   No existing file ties gentoo's Version.Compare (it is translated by the parse pass because of the map
   suffixValues): [tie_gentoo_compare] is proved HERE (no panic, linear fuel, the sign of the model's
   cmp_core).  Hypothesis: the regexp-oracle agreement of Tie/Parse/Gentoo.v ([oracles]).
   [gentoo_lib_ties_on]: all six fields of [lib_ties] on the texts of length < 2^63 - 64 ([short]);
   [gentoo_lib_ties]: the record itself for the guarded bundle; [gentoo_runEcosystem_e2e], [gentoo_cli_e2e],
   [gentoo_cli_e2e_exit]: the generated runEcosystem at this bundle against the CLI model. *)
From Coq Require Import ZArith List Ascii Bool Lia Permutation Sorted.
From Verif.Base Require Import Bytes GoNum GoOps Ord Sorting Imp ImpFacts ImpErr ImpCore BytesFacts.
From Verif.Cli Require Import Model.
From Verif.Eco Require Import RangeCore Iface VLayer.
From Verif.Eco.Gentoo Require Version VersionFacts Range Entry.
From Verif.Gen.Code Require Gentoo.
From Verif.Gen.Parse Require Gentoo CmdCore.
From Verif.Tie Require Import Tactics.
From Verif.Tie Require Gentoo GentooRange.
From Verif.Tie.Loops Require Import Common PadIdx.
From Verif.Tie.Parse Require Import RangeTie.
From Verif.Tie.Parse Require Gentoo GentooRange.
From Verif.Tie.Cli Require Import Common Spec Ties.
From Verif.Tie.E2E Require Import Common.
From Verif Require Top.
Import ListNotations.
Local Open Scope Z_scope.

Module G := Verif.Gen.Code.Gentoo.
Module P := Verif.Gen.Parse.Gentoo.
Module M := Verif.Eco.Gentoo.Version.
Module MF := Verif.Eco.Gentoo.VersionFacts.
Module RM := Verif.Eco.Gentoo.Range.
Module TV := Verif.Tie.Gentoo.
Module TR := Verif.Tie.GentooRange.
Module PV := Verif.Tie.Parse.Gentoo.
Module PR := Verif.Tie.Parse.GentooRange.

(* ---------- Version.Compare against the model (missing in the existing tie files) ---------- *)

Lemma suffix_value_eq s : s <> [] -> map_get 0 (lookup s P.suffixValues_table) = M.suffix_value s.
Proof. destruct s; [congruence|]. intros _. reflexivity. Qed.

Lemma thenc_ne c d : c <> Eq -> thenc c d = c.
Proof. destruct c; congruence || reflexivity. Qed.

Theorem tie_gentoo_compare : forall (v o : G.Version) (fuel : nat),
  fits (G.Version_numbers v) -> fits (G.Version_numbers o) ->
  (Nat.max (length (G.Version_numbers v)) (length (G.Version_numbers o)) < fuel)%nat ->
  P.Version_Compare fuel v o = Done (Z_of_cmp (M.cmp_core (TV.abs v) (TV.abs o))).
Proof.
  intros v o fuel Fa Fb Hfuel. unfold P.Version_Compare, TV.abs, M.cmp_core.
  cbn [M.numbers M.letter M.suffix M.suffixNum M.revision].
  set (a := G.Version_numbers v) in *. set (b := G.Version_numbers o) in *.
  cbv zeta. rewrite max_len_Z.
  set (maxLen := Z.of_nat (Nat.max (length a) (length b))).
  set (body := fun i : Z => _).
  set (tail := thenc (bytes_cmp _ _) _).
  pose (Inv := fun i : Z => 0 <= i <= maxLen /\
     lex_pad 0 Z.compare a b = lex_pad 0 Z.compare (skipn (Z.to_nat i) a) (skipn (Z.to_nat i) b)).
  pose (Q := fun r : Z => r = Z_of_cmp (thenc (lex_pad 0 Z.compare a b) tail)).
  pose (Qb := fun _ : Z => lex_pad 0 Z.compare a b = Eq).
  assert (R : exit_ok Qb Q (while fuel body 0)).
  { apply (while_rule_fuel body Inv (fun i => Z.to_nat (maxLen - i))).
    - intros i [Hi E]. unfold step_ok, body.
      destruct (Z.ltb_spec i maxLen) as [Lt|Ge].
      + rewrite (idx_or_default a 0 i) by lia. cbn [bind].
        rewrite (idx_or_default b 0 i) by lia. cbn [bind].
        rewrite (lex_pad_skipn_step 0 Z.compare a b (Z.to_nat i) eq_refl) in E.
        destruct (Z.eqb_spec (nth (Z.to_nat i) a 0) (nth (Z.to_nat i) b 0)) as [Eq|Ne]; cbn [negb].
        * rewrite (wrap64_succ i maxLen) by (unfold fits in *; lia).
          split; [|lia]. split; [lia|].
          rewrite E, Z_to_nat_succ by lia. rewrite Eq, Z.compare_refl. reflexivity.
        * unfold Q. rewrite TV.tie_gentoo_compareInt, E.
          assert (N : Z.compare (nth (Z.to_nat i) a 0) (nth (Z.to_nat i) b 0) <> Datatypes.Eq).
          { intros X. apply Z.compare_eq in X. contradiction. }
          rewrite !(thenc_ne _ _ N). reflexivity.
      + unfold Qb. rewrite E. apply lex_pad_exhausted; lia.
    - split; [lia | reflexivity].
    - lia. }
  destruct (while fuel body 0) as [[i|r]| |]; cbn [exit_ok] in R; try contradiction; cbn [bind].
  2:{ unfold Q in R. rewrite R. reflexivity. }
  unfold Qb in R. rewrite R. cbn [thenc]. subst tail. clear R body Inv Q Qb.
  destruct (bytes_cmp (G.Version_letter v) (G.Version_letter o)) eqn:LC; cbn [z_sign Z.eqb negb thenc];
    try reflexivity.
  set (sa := G.Version_suffix v). set (sb := G.Version_suffix o).
  assert (Ea : (if negb (beq sa []) then map_get 0 (lookup sa P.suffixValues_table) else 0) = M.suffix_value sa).
  { destruct sa; [reflexivity|]. change (negb (beq (a0 :: sa) [])) with true. cbv iota. apply suffix_value_eq. discriminate. }
  assert (Eb : (if negb (beq sb []) then map_get 0 (lookup sb P.suffixValues_table) else 0) = M.suffix_value sb).
  { destruct sb; [reflexivity|]. change (negb (beq (a0 :: sb) [])) with true. cbv iota. apply suffix_value_eq. discriminate. }
  rewrite Ea, Eb. rewrite !TV.tie_gentoo_compareInt.
  destruct (Z.eqb_spec (M.suffix_value sa) (M.suffix_value sb)) as [E1|N1]; cbn [negb].
  2:{ rewrite thenc_ne; [reflexivity|]. intros X. apply Z.compare_eq in X. contradiction. }
  rewrite E1, Z.compare_refl. cbn [thenc].
  destruct sa as [|x sa']; cbn [beq negb andb].
  { reflexivity. }
  change (negb (beq (x :: sa') [])) with true. cbn [andb].
  destruct (Z.eqb_spec (G.Version_suffixNum v) (G.Version_suffixNum o)) as [E2|N2]; cbn [negb].
  - rewrite E2, Z.compare_refl. reflexivity.
  - rewrite thenc_ne; [reflexivity|]. intros X. apply Z.compare_eq in X. contradiction.
Qed.
Print Assumptions tie_gentoo_compare.

Definition Compare (x y : G.Version) : Z :=
  total 0 (P.Version_Compare (S (Nat.max (length (G.Version_numbers x)) (length (G.Version_numbers y)))) x y).

Lemma Compare_model x y : fits (G.Version_numbers x) -> fits (G.Version_numbers y) ->
  Compare x y = Z_of_cmp (M.cmp_core (TV.abs x) (TV.abs y)).
Proof. intros Fx Fy. unfold Compare. rewrite tie_gentoo_compare by (assumption || lia). reflexivity. Qed.

(* a parsed version has at most eleven numbers *)
Lemma atoi_all_length ps ns : M.atoi_all ps = Some ns -> length ns = length ps.
Proof.
  revert ns. induction ps as [|p r IH]; intros ns; cbn [M.atoi_all].
  - intros H. injection H as <-. reflexivity.
  - destruct (M.atoi_digits p); [|discriminate]. destruct (M.atoi_all r) as [zs|]; [|discriminate].
    intros H. injection H as <-. cbn [length]. rewrite (IH zs eq_refl). reflexivity.
Qed.

Lemma parse_core_numbers_le t c : M.parse_core t = Some c -> (length (M.numbers c) <= M.max_components)%nat.
Proof.
  unfold M.parse_core. destruct t as [|c0 t0]; [discriminate|].
  destruct (is_digit c0); [|discriminate].
  destruct (M.scan_numbers (c0 :: t0) []) as [nums r1]. unfold M.parse_rest.
  destruct (length nums <=? M.max_components)%nat eqn:LE; [|discriminate].
  destruct (M.scan_letter r1) as [lt r2].
  destruct (M.scan_suffix r2) as [[[sf sn] r3]|]; [|discriminate].
  destruct (M.scan_revision r3) as [rv|]; [|discriminate].
  destruct (M.atoi_all nums) as [ns|] eqn:A; [|discriminate].
  destruct (M.atoi_opt sn) as [snz|]; [|discriminate].
  destruct (M.atoi_opt rv) as [rvz|]; [|discriminate].
  intros H. injection H as <-. cbn [M.numbers]. rewrite (atoi_all_length _ _ A).
  apply Nat.leb_le. exact LE.
Qed.

(* the regexp oracle and what is assumed of it *)
Record oracles : Type := {
  find : bytes -> option (list bytes);     (* versionPattern.FindStringSubmatch *)
  find_agrees : forall t, find t = PV.ref_match t
}.

Section E2E.
  Variable O : oracles.

  (* ---------- the concrete bundle ---------- *)
  Definition Name : bytes := G.Ecosystem_Name G.mk_Ecosystem.
  Definition NV (s : bytes) : option G.Version :=
    total None (P.Ecosystem_NewVersion (find O) (S M.max_components) G.mk_Ecosystem s).
  Definition NVR (s : bytes) : option G.VersionRange :=
    total None (P.Ecosystem_NewVersionRange (find O) (length s + 12) G.mk_Ecosystem s).
  Definition Contains : G.VersionRange -> G.Version -> bool := G.VersionRange_Contains Compare.

  Lemma NV_eq s : NV s = option_map (PV.conc s) (M.parse_core (trim_space s)).
  Proof.
    unfold NV. rewrite (PV.tie_parse_gentoo_newversion (find O) (find_agrees O)) by lia. reflexivity.
  Qed.

  Lemma NV_fits a x : NV a = Some x -> fits (G.Version_numbers x).
  Proof.
    rewrite NV_eq. destruct (M.parse_core (trim_space a)) as [c|] eqn:E; [|discriminate].
    intros H. injection H as <-. apply parse_core_numbers_le in E. unfold M.max_components in E.
    unfold fits, PV.conc. cbn [G.Version_numbers]. lia.
  Qed.

  Lemma NVR_eq s : short s = true ->
    NVR s = option_map (fun rg => G.mk_VersionRange (conc_cs NV G.mk_constraint (r_cs rg)) (r_orig rg))
                       (parse_range G.Version NV RM.cfg s).
  Proof.
    intros Hs. apply short_lt in Hs. unfold NVR.
    rewrite (PR.tie_parse_gentoo_newversionrange (find O) (fun _ => NV) (fun _ => M.max_components)).
    - reflexivity.
    - intros a b _. lia.
    - intros fuel e v _ Hf. rewrite NV_eq.
      apply (PV.tie_parse_gentoo_newversion (find O) (find_agrees O)). exact Hf.
    - lia.
    - lia.
    - unfold M.max_components. lia.
  Qed.

  Lemma eco_found :
    Top.eco_or_none $"gentoo" =
    Some {| e_name := $"gentoo"; e_v := mk_vops M.parse_core M.cmp_core M.raw_orig;
            e_r := mk_simple_rops RM.cfg |}.
  Proof. reflexivity. Qed.

  (* ---------- lib_ties ---------- *)

  Theorem gentoo_lib_ties_on :
    lib_ties_on G.Version G.VersionRange Name NV NVR Contains Compare G.Version_String
                (Top.model_lib $"gentoo") short.
  Proof.
    apply (simple_lib_ties_on M.core M.parse_core M.cmp_core M.raw_orig RM.cfg $"gentoo" eco_found eq_refl
             G.Version G.constraint G.VersionRange Name NV NVR Contains Compare
             G.Version_String G.mk_constraint (fun o cs => G.mk_VersionRange cs o)
             G.constraint_operator G.constraint_version TV.abs short).
    - reflexivity.
    - intros s _. rewrite NV_eq. destruct (M.parse_core (trim_space s)) as [c|]; [|reflexivity].
      cbn [option_map]. rewrite PV.abs_conc. reflexivity.
    - intros a b x y _ _ Ea Eb. apply Compare_model; [exact (NV_fits a x Ea) | exact (NV_fits b y Eb)].
    - intros a x _ E. rewrite NV_eq in E. destruct (M.parse_core (trim_space a)); [|discriminate].
      injection E as <-. reflexivity.
    - exact NVR_eq.
    - intros o cs y. unfold Contains. rewrite TR.tie_gentoo_contains. reflexivity.
    - reflexivity.
    - reflexivity.
    - apply split_le_short. exact split_comma_space_le.
  Qed.

  (* the record of Tie/Cli/Common.v, for the bundle guarded by the length bound *)
  Corollary gentoo_lib_ties :
    lib_ties G.Version G.VersionRange Name (guard short NV) (guard short NVR) Contains Compare
             G.Version_String (restrict (Top.model_lib $"gentoo") short).
  Proof. apply lib_ties_guard, gentoo_lib_ties_on. Qed.

  Theorem gentoo_name_ok : Name = $"gentoo".
  Proof. reflexivity. Qed.

  Theorem gentoo_model_tpo :
    TotalPreorderOn (fun s => l_vok (Top.model_lib $"gentoo") s = true) (l_vcmp (Top.model_lib $"gentoo")).
  Proof. apply (model_lib_tpo_on _ _ _ _ _ _ MF.wf eco_found MF.cmp_core_tp MF.parse_core_wf). Qed.

  (* ---------- the CLI ---------- *)

  Variable sort_by : forall A : Type, (A -> A -> Z) -> list A -> list A.
  Variable e1 e2 e3 : list bytes -> bytes.

  Definition runEcosystem : nat -> list bytes -> res (bytes * Z) :=
    CmdCore.runEcosystem G.Version G.VersionRange Name NV NVR Contains Compare G.Version_String sort_by e1 e2 e3.

  Local Notation L := (Top.model_lib $"gentoo").
  Local Notation accepted := (fun s : bytes => l_vok L s = true).

  (* `univers gentoo <args>` as computed by the source-derived code is the CLI model's outcome *)
  Theorem gentoo_runEcosystem_e2e (fuel : nat) (args : list bytes) :
    sort_ok G.Version NV Compare sort_by accepted ->
    fits args -> (length args < fuel)%nat -> Forall (fun a => short a = true) args ->
    (forall rest, args = $"sort" :: rest -> Forall accepted rest -> show_respects L rest) ->
    exists r, runEcosystem fuel args = Done r /\ shown (run_ecosystem L args) r.
  Proof.
    apply (eco_runEcosystem_e2e _ _ _ _ _ _ _ _ ($"gentoo" : bytes) gentoo_lib_ties_on gentoo_model_tpo).
  Qed.

  Corollary gentoo_cli_e2e (fuel : nat) (args : list bytes) :
    sort_ok G.Version NV Compare sort_by accepted ->
    fits args -> (length args < fuel)%nat -> Forall (fun a => short a = true) args ->
    (forall rest, args = $"sort" :: rest -> Forall accepted rest -> show_respects L rest) ->
    exists r, runEcosystem fuel args = Done r /\ shown (Top.model_cli (($"gentoo" : bytes) :: args)) r.
  Proof.
    apply (eco_cli_e2e _ _ _ _ _ _ _ _ ($"gentoo" : bytes) gentoo_lib_ties_on gentoo_model_tpo eq_refl eq_refl).
  Qed.

  (* the exit status: no hypothesis on the order, the sort oracle only has to return a permutation *)
  Theorem gentoo_cli_e2e_exit (fuel : nat) (args : list bytes) :
    (forall l, Permutation (sort_by G.Version Compare l) l) ->
    fits args -> (length args < fuel)%nat -> Forall (fun a => short a = true) args ->
    exists r, runEcosystem fuel args = Done r /\ snd r = exit_code (Top.model_cli (($"gentoo" : bytes) :: args)).
  Proof.
    apply (eco_cli_e2e_exit _ _ _ _ _ _ _ _ ($"gentoo" : bytes) gentoo_lib_ties_on eq_refl eq_refl).
  Qed.
End E2E.

Print Assumptions gentoo_lib_ties_on.
Print Assumptions gentoo_lib_ties.
Print Assumptions gentoo_name_ok.
Print Assumptions gentoo_model_tpo.
Print Assumptions gentoo_runEcosystem_e2e.
Print Assumptions gentoo_cli_e2e.
Print Assumptions gentoo_cli_e2e_exit.
Print Assumptions suffix_value_eq.
Print Assumptions thenc_ne.
Print Assumptions Compare_model.
Print Assumptions atoi_all_length.
Print Assumptions parse_core_numbers_le.
Print Assumptions NV_eq.
Print Assumptions NV_fits.
Print Assumptions NVR_eq.
Print Assumptions eco_found.
