(* Tie/E2E/Github.v — END TO END for github: the bundle of the CLI section (Gen/Parse/CmdCore.v) built out
   of the functions generated from pkg/ecosystem/github, tied to [Top.model_lib $"github"].

     Name             Gen.Code.Github.Ecosystem_Name                      (loop-free)
     NewVersion       Gen.Parse.Github.Ecosystem_NewVersion at the two regexp oracles, made total
     NewVersionRange  Gen.Parse.Github.Ecosystem_NewVersionRange, fuel length s + 2, made total
     Compare, String, Contains   Gen.Code.Github.*                         (loop-free)

   The only hypotheses are the three regexp-oracle agreements of Tie/Parse/Github.v and
   Tie/Parse/GithubRange.v ([oracles]).  [github_lib_ties_on]: all six fields of [lib_ties] on the texts
   of length < 2^63 - 64 ([short]); [github_lib_ties]: the record itself for the guarded bundle;
   [github_runEcosystem_e2e], [github_cli_e2e]: the generated runEcosystem at this bundle against the CLI
   model. *)
From Coq Require Import ZArith List Ascii Bool Lia Permutation Sorted.
From Verif.Base Require Import Bytes GoNum Ord Sorting Imp ImpFacts ImpErr ImpCore BytesFacts.
From Verif.Cli Require Import Model.
From Verif.Eco Require Import RangeCore Iface VLayer.
From Verif.Eco.Github Require Version VersionFacts Range Entry.
From Verif.Gen.Code Require Github.
From Verif.Gen.Parse Require Github CmdCore.
From Verif.Tie Require Import Tactics.
From Verif.Tie Require Github GithubRange.
From Verif.Tie.Loops Require Import Common.
From Verif.Tie.Parse Require Import RangeTie RangeOptTie.
From Verif.Tie.Parse Require Github GithubRange.
From Verif.Tie.Cli Require Import Common Spec Ties.
From Verif.Tie.E2E Require Import Common.
From Verif Require Top.
Import ListNotations.
Local Open Scope Z_scope.

Module G := Verif.Gen.Code.Github.
Module P := Verif.Gen.Parse.Github.
Module M := Verif.Eco.Github.Version.
Module RM := Verif.Eco.Github.Range.
Module TV := Verif.Tie.Github.
Module TR := Verif.Tie.GithubRange.
Module PV := Verif.Tie.Parse.Github.
Module PR := Verif.Tie.Parse.GithubRange.

(* the regexp oracles and what is assumed of them *)
Record oracles : Type := {
  find : bytes -> option (list bytes);     (* githubVersionPattern.FindStringSubmatch *)
  findd : bytes -> option (list bytes);    (* githubDatePattern.FindStringSubmatch *)
  cfind : bytes -> option (list bytes);    (* constraintPattern.FindStringSubmatch *)
  find_agrees : forall t, find t = PV.ref_match_semantic t;
  findd_agrees : forall t, findd t = PV.ref_match_date t;
  cfind_agrees : forall t, no_space t = true -> cfind t = ref_cmatch RM.github_ops t
}.

Section E2E.
  Variable O : oracles.

  (* ---------- the concrete bundle ---------- *)
  Definition Name : bytes := G.Ecosystem_Name G.mk_Ecosystem.
  Definition NV (s : bytes) : option G.Version :=
    total None (P.Ecosystem_NewVersion (find O) (findd O) G.mk_Ecosystem s).
  Definition NVR (s : bytes) : option G.VersionRange :=
    total None (P.Ecosystem_NewVersionRange (cfind O) (find O) (findd O) (S (S (length s))) G.mk_Ecosystem s).

  Lemma NV_eq s : NV s = option_map (PV.conc s) (M.parse_core (trim_space s)).
  Proof. unfold NV. rewrite (PV.tie_parse_github_newversion (find O) (findd O) (find_agrees O) (findd_agrees O)). reflexivity. Qed.

  Lemma NV_computes e v : P.Ecosystem_NewVersion (find O) (findd O) e v = Done (NV v).
  Proof. rewrite NV_eq. apply (PV.tie_parse_github_newversion (find O) (findd O) (find_agrees O) (findd_agrees O)). Qed.

  Lemma NVR_eq s : short s = true ->
    NVR s = option_map (fun rg => G.mk_VersionRange (r_orig rg) (conc_cs NV G.mk_constraint (r_cs rg)))
                       (parse_range G.Version NV RM.cfg s).
  Proof.
    intros Hs. apply short_lt in Hs. unfold NVR.
    rewrite (PR.tie_parse_github_newversionrange (cfind O) (find O) (findd O) (cfind_agrees O) NV NV_computes)
      by lia.
    reflexivity.
  Qed.

  Lemma Contains_eq o cs y :
    G.VersionRange_Contains (G.mk_VersionRange o cs) y =
    forallb (fun g => sat (rc_sem RM.cfg (G.constraint_operator g))
                          (cmp_of_Z (G.Version_Compare y (G.constraint_version g)))) cs.
  Proof.
    unfold G.VersionRange_Contains. cbn [G.VersionRange_constraints].
    apply forallb_ext_in. intros c _. apply TR.tie_github_matches.
  Qed.

  Lemma eco_found :
    Top.eco_or_none $"github" =
    Some {| e_name := $"github"; e_v := mk_vops M.parse_core M.cmp_core M.raw_orig;
            e_r := mk_simple_rops RM.cfg |}.
  Proof. reflexivity. Qed.

  (* ---------- lib_ties ---------- *)

  Theorem github_lib_ties_on :
    lib_ties_on G.Version G.VersionRange Name NV NVR G.VersionRange_Contains G.Version_Compare
                G.Version_String (Top.model_lib $"github") short.
  Proof.
    apply (simple_lib_ties_on M.core M.parse_core M.cmp_core M.raw_orig RM.cfg $"github" eco_found eq_refl
             G.Version G.constraint G.VersionRange Name NV NVR G.VersionRange_Contains G.Version_Compare
             G.Version_String G.mk_constraint G.mk_VersionRange G.constraint_operator G.constraint_version
             TV.abs short).
    - reflexivity.
    - intros s _. rewrite NV_eq. destruct (M.parse_core (trim_space s)) as [c|]; [|reflexivity].
      cbn [option_map]. rewrite PV.abs_conc. reflexivity.
    - intros a b x y _ _ _ _. apply TV.tie_github_compare.
    - intros a x _ E. rewrite NV_eq in E. destruct (M.parse_core (trim_space a)); [|discriminate].
      injection E as <-. reflexivity.
    - exact NVR_eq.
    - exact Contains_eq.
    - reflexivity.
    - reflexivity.
    - apply split_le_short. exact split_fields_le.
  Qed.

  (* the record of Tie/Cli/Common.v, for the bundle guarded by the length bound *)
  Corollary github_lib_ties :
    lib_ties G.Version G.VersionRange Name (guard short NV) (guard short NVR) G.VersionRange_Contains
             G.Version_Compare G.Version_String (restrict (Top.model_lib $"github") short).
  Proof. apply lib_ties_guard, github_lib_ties_on. Qed.

  Theorem github_name_ok : Name = $"github".
  Proof. reflexivity. Qed.

  Theorem github_model_tpo :
    TotalPreorderOn (fun s => l_vok (Top.model_lib $"github") s = true) (l_vcmp (Top.model_lib $"github")).
  Proof. apply (model_lib_tpo _ _ _ _ _ _ eco_found), Verif.Eco.Github.VersionFacts.cmp_core_tp. Qed.

  (* ---------- the CLI ---------- *)

  Variable sort_by : forall A : Type, (A -> A -> Z) -> list A -> list A.
  Variable e1 e2 e3 : list bytes -> bytes.

  Definition runEcosystem : nat -> list bytes -> res (bytes * Z) :=
    CmdCore.runEcosystem G.Version G.VersionRange Name NV NVR G.VersionRange_Contains G.Version_Compare
                         G.Version_String sort_by e1 e2 e3.

  Local Notation L := (Top.model_lib $"github").
  Local Notation accepted := (fun s : bytes => l_vok L s = true).

  (* `univers github <args>` as computed by the source-derived code is the CLI model's outcome *)
  Theorem github_runEcosystem_e2e (fuel : nat) (args : list bytes) :
    sort_ok G.Version NV G.Version_Compare sort_by accepted ->
    fits args -> (length args < fuel)%nat -> Forall (fun a => short a = true) args ->
    (forall rest, args = $"sort" :: rest -> Forall accepted rest -> show_respects L rest) ->
    exists r, runEcosystem fuel args = Done r /\ shown (run_ecosystem L args) r.
  Proof.
    intros SO F Hf FD SR.
    apply (runEcosystem_e2e G.Version G.VersionRange Name NV NVR G.VersionRange_Contains G.Version_Compare
             G.Version_String sort_by e1 e2 e3 L short accepted github_lib_ties_on SO github_model_tpo
             fuel args F Hf FD).
    intros rest E OK. split; [exact OK | exact (SR rest E OK)].
  Qed.

  Corollary github_cli_e2e (fuel : nat) (args : list bytes) :
    sort_ok G.Version NV G.Version_Compare sort_by accepted ->
    fits args -> (length args < fuel)%nat -> Forall (fun a => short a = true) args ->
    (forall rest, args = $"sort" :: rest -> Forall accepted rest -> show_respects L rest) ->
    exists r, runEcosystem fuel args = Done r /\ shown (Top.model_cli (($"github" : bytes) :: args)) r.
  Proof.
    intros SO F Hf FD SR.
    destruct (github_runEcosystem_e2e fuel args SO F Hf FD SR) as (r & E1 & E2).
    exists r. split; [exact E1|].
    rewrite (model_cli_eco ($"github" : bytes) args eq_refl eq_refl). exact E2.
  Qed.

  (* the exit status: no hypothesis on the order, the sort oracle only has to return a permutation *)
  Theorem github_cli_e2e_exit (fuel : nat) (args : list bytes) :
    (forall l, Permutation (sort_by G.Version G.Version_Compare l) l) ->
    fits args -> (length args < fuel)%nat -> Forall (fun a => short a = true) args ->
    exists r, runEcosystem fuel args = Done r /\ snd r = exit_code (Top.model_cli (($"github" : bytes) :: args)).
  Proof.
    intros SP F Hf FD.
    destruct (runEcosystem_e2e_exit G.Version G.VersionRange Name NV NVR G.VersionRange_Contains
                G.Version_Compare G.Version_String sort_by e1 e2 e3 L short github_lib_ties_on fuel args SP F Hf FD)
      as (r & E1 & E2).
    exists r. split; [exact E1|].
    rewrite (model_cli_eco ($"github" : bytes) args eq_refl eq_refl). exact E2.
  Qed.
End E2E.

Print Assumptions github_lib_ties_on.
Print Assumptions github_lib_ties.
Print Assumptions github_name_ok.
Print Assumptions github_model_tpo.
Print Assumptions github_runEcosystem_e2e.
Print Assumptions github_cli_e2e.
Print Assumptions github_cli_e2e_exit.
Print Assumptions NV_eq.
Print Assumptions NV_computes.
Print Assumptions NVR_eq.
Print Assumptions Contains_eq.
Print Assumptions eco_found.
