(* Tie/E2E/Golang.v — END TO END for golang: the bundle of the CLI section (Gen/Parse/CmdCore.v) built out
   of the functions generated from pkg/ecosystem/golang, tied to [Top.model_lib $"golang"].

     Name             Gen.Code.Golang.Ecosystem_Name
     NewVersion       NOT translated by the generator (multi-value assignment at version.go:60): the
                      oracle field [nv] of [oracles]
     NewVersionRange  Gen.Parse.Golang.Ecosystem_NewVersionRange, fuel length s + 7, made total
                      (it does not call NewVersion: the bounds are kept as text)
     Compare          Gen.Code.Golang.Version_Compare at the oracle [sp] (Version.semverPrerelease, not
                      translated: operator == on *pseudoVersion) and at [comparePrerelease] = the loop
                      Gen.Loops.Golang.comparePrerelease made total (Tie/Loops/Golang.comparePrerelease_total)
                      at [compareIdentifier] = Gen.Parse.Golang.compareIdentifier at the oracle [trimleft]
                      (strings.TrimLeft)
     String           Gen.Code.Golang.Version_String
     Contains         Gen.Code.Golang.VersionRange_Contains at Gen.Parse.Golang.constraint_matches at
                      [nv], [sp] and the same [comparePrerelease] (the stand-in comparePrerelease_pure of
                      Gen/Parse is instantiated with the total loop function, it is not an oracle)

   The range model of golang is a RangeCore [range_cfg] with rc_eager = FALSE (the bound texts are parsed
   in Contains only) and the generated constraint record keeps the bound as text, so [simple_lib_ties_on]
   of Common.v (rc_eager = true, parsed bounds) does not apply: its lazy counterpart [lazy_lib_ties_on]
   is proved here (Section LazyEco; reused by Tie/E2E/Alpine.v).

   Hypotheses: TWO oracle agreements,
     nv_agrees       : forall e t, option_map (TV.abs_ver sp) (nv e t) = M.parse t
        NewVersion accepts what the model's parser accepts; on the value it returns, major/minor/patch
        are the model's, String() is the untrimmed text and v.semverPrerelease() is the model's [pre]
        (a JOINT statement on NewVersion and semverPrerelease: the generated record has lost the
        nil-ness of the pointer v.pseudo that semverPrerelease tests, and the model's core does not keep
        the fields prerelease/build/pseudo, so the Go value is not a function of the model's core)
     trimleft_agrees : forall a, trimleft a $"0123456789" = drop_while is_digit a

   Which field of [lib_ties_on] depends on what:
     name      nothing (computation)
     vok       nv_agrees
     rok       nothing about the oracles (Tie/Parse/GolangRange; the proof goes through the generic lemma
               and the closed statement is [golang_rok_closed])
     cmp       nv_agrees (structure; length of the pre-release text) + trimleft_agrees (compareIdentifier)
               + Tie/Loops/Golang
     show      nv_agrees
     contains  nv_agrees + trimleft_agrees + Tie/Parse/GolangRange + Tie/Loops/Golang

   [golang_lib_ties_on]: all six fields of [lib_ties] on the texts of length < 2^63 - 64 ([short]);
   [golang_lib_ties]: the record itself for the guarded bundle; [golang_runEcosystem_e2e],
   [golang_cli_e2e], [golang_cli_e2e_exit]: the generated runEcosystem at this bundle against the CLI model. *)
From Coq Require Import ZArith List Ascii Bool Lia ZifyBool Permutation Sorted.
From Verif.Base Require Import Bytes GoNum GoOps Ord Sorting Imp ImpFacts ImpErr ImpCore BytesFacts.
From Verif.Cli Require Import Model.
From Verif.Eco Require Import RangeCore Iface VLayer.
From Verif.Eco.Golang Require Version VersionFacts Range Entry.
From Verif.Gen.Code Require Golang.
From Verif.Gen.Loops Require Golang.
From Verif.Gen.Parse Require Golang CmdCore.
From Verif.Tie Require Import Tactics.
From Verif.Tie Require Golang GolangRange.
From Verif.Tie.Loops Require Import Common Idents.
From Verif.Tie.Loops Require Golang GolangRange.
From Verif.Tie.Parse Require Import Common RangeCommon RangeTie RangeLazyTie.
From Verif.Tie.Parse Require GolangRange.
From Verif.Tie.Cli Require Import Common Spec Ties.
From Verif.Tie.E2E Require Import Common.
From Verif.Properties.Support Require Import SimpleRops.
From Verif Require Top.
Import ListNotations.
Local Open Scope Z_scope.

(* ====================================================================================================
   An ecosystem of the VLayer shape whose range parser is a LAZY RangeCore [range_cfg]
   (rc_eager = false): the generated constraint keeps the bound text, Contains parses it.
   ==================================================================================================== *)

Lemma parse_constraints_lazy {V1 V2} (vp1 : bytes -> option V1) (vp2 : bytes -> option V2) cfg parts :
  rc_eager cfg = false ->
  parse_constraints V1 vp1 cfg parts = parse_constraints V2 vp2 cfg parts.
Proof.
  intros Lz. induction parts as [|a parts IH]; [reflexivity|]. cbn [parse_constraints].
  destruct (parse_constraint cfg a) as [c|]; [|reflexivity].
  unfold bound_ok. rewrite Lz, IH. reflexivity.
Qed.

Lemma parse_range_lazy {V1 V2} (vp1 : bytes -> option V1) (vp2 : bytes -> option V2) cfg s :
  rc_eager cfg = false ->
  parse_range V1 vp1 cfg s = parse_range V2 vp2 cfg s.
Proof.
  intros Lz. unfold parse_range. cbv zeta. destruct (trim_space s) as [|x t]; [reflexivity|].
  rewrite (parse_constraints_lazy vp1 vp2 cfg _ Lz). reflexivity.
Qed.

Section LazyEco.
  (* the model *)
  Variable C : Type.
  Variable pc : bytes -> option C.
  Variable cc : C -> C -> comparison.
  Variable ro : bool.
  Variable cfg : range_cfg.
  Variable name : bytes.
  Let e : eco := {| e_name := name; e_v := mk_vops pc cc ro; e_r := mk_simple_rops cfg |}.
  Hypothesis Hfind : Top.eco_or_none name = Some e.
  Hypothesis lazy : rc_eager cfg = false.

  (* the generated side *)
  Variable GV GC GVR : Type.
  Variable GName : bytes.
  Variable NV : bytes -> option GV.
  Variable NVR : bytes -> option GVR.
  Variable GContains : GVR -> GV -> bool.
  Variable GCompare : GV -> GV -> Z.
  Variable GString : GV -> bytes.
  Variable mk : bytes -> bytes -> GC.           (* operator, bound text *)
  Variable mkR : bytes -> list GC -> GVR.
  Variable gop : GC -> bytes.
  Variable gver : GC -> bytes.
  Variable absV : GV -> C.
  Variable D : bytes -> bool.

  Hypothesis H_name : GName = name.
  Hypothesis H_nv : forall s, D s = true -> option_map absV (NV s) = pc (trim_space s).
  Hypothesis H_cmp : forall a b x y, D a = true -> D b = true -> NV a = Some x -> NV b = Some y ->
    GCompare x y = Z_of_cmp (cc (absV x) (absV y)).
  Hypothesis H_str : forall a x, D a = true -> NV a = Some x ->
    GString x = if ro then a else trim_space a.
  (* NewVersionRange computes the model's parse_range (which, lazy, ignores the bound parser) *)
  Hypothesis H_nvr : forall s, D s = true ->
    NVR s = option_map (fun rg => mkR (r_orig rg) (map (mkc mk) (r_cs rg))) (parse_range GV NV cfg s).
  (* Contains parses every bound text with NewVersion; an unparsable bound matches nothing *)
  Hypothesis H_contains : forall o cs y,
    GContains (mkR o cs) y =
    forallb (fun g => match NV (gver g) with
                      | Some w => sat (rc_sem cfg (gop g)) (cmp_of_Z (GCompare y w))
                      | None => false
                      end) cs.
  Hypothesis gop_mk : forall o x, gop (mk o x) = o.
  Hypothesis gver_mk : forall o x, gver (mk o x) = x.
  Hypothesis H_sub : forall s p c, D s = true -> In p (rc_split cfg (trim_space s)) ->
    parse_constraint cfg p = Some c -> D (snd c) = true.

  Lemma lazy_vok s : D s = true -> self_vok e s = is_some (NV s).
  Proof.
    intros Ds. unfold self_vok, e, mk_vops, v_show, e_v, VLayer.parse. rewrite <- (H_nv s Ds).
    destruct (NV s); reflexivity.
  Qed.

  Lemma lazy_core s x : D s = true -> NV s = Some x -> pc (trim_space s) = Some (absV x).
  Proof. intros Ds E. rewrite <- (H_nv s Ds), E. reflexivity. Qed.

  Lemma lazy_vcmp a b x y : D a = true -> D b = true -> NV a = Some x -> NV b = Some y ->
    self_vcmp e a b = cc (absV x) (absV y).
  Proof.
    intros Da Db Ea Eb.
    apply (self_vcmp_core C pc cc ro name (mk_simple_rops cfg) a b (absV x) (absV y));
      apply lazy_core; assumption.
  Qed.

  Lemma lazy_forallb cs y v :
    NV v = Some y -> D v = true ->
    (forall c, In c cs -> D (snd c) = true) ->
    forallb (fun g => match NV (gver g) with
                      | Some w => sat (rc_sem cfg (gop g)) (cmp_of_Z (GCompare y w))
                      | None => false
                      end) (map (mkc mk) cs) =
    forallb (sat_constraint bytes (oracle_parse (self_vok e)) (self_vcmp e) cfg v) cs.
  Proof.
    intros Ev Dv. induction cs as [|c cs IH]; intros H; [reflexivity|].
    pose proof (H c (or_introl eq_refl)) as Dc.
    cbn [map forallb]. rewrite IH by (intros c' Hc'; apply H; right; exact Hc'). f_equal.
    unfold mkc. rewrite gop_mk, gver_mk.
    unfold sat_constraint, oracle_parse. rewrite (lazy_vok _ Dc).
    destruct (NV (snd c)) as [w|] eqn:Ec; cbn [is_some]; [|reflexivity].
    rewrite (H_cmp v (snd c) y w Dv Dc Ev Ec), cmp_of_Z_of_cmp.
    rewrite (lazy_vcmp v (snd c) y w Dv Dc Ev Ec). reflexivity.
  Qed.

  Theorem lazy_lib_ties_on :
    lib_ties_on GV GVR GName NV NVR GContains GCompare GString (Top.model_lib name) D.
  Proof.
    rewrite (model_lib_of _ _ Hfind). constructor; cbn [l_name l_vok l_rok l_vcmp l_vshow l_rcontains].
    - exact H_name.
    - exact lazy_vok.
    - intros s Ds. change (e_r e) with (mk_simple_rops cfg). cbn [r_show mk_simple_rops].
      rewrite (parse_range_lazy (oracle_parse (self_vok e)) NV cfg s lazy), (H_nvr s Ds).
      destruct (parse_range GV NV cfg s); reflexivity.
    - intros a b x y Da Db Ea Eb. rewrite (lazy_vcmp a b x y Da Db Ea Eb). apply (H_cmp a b x y); assumption.
    - intros a x Da Ea. rewrite (H_str a x Da Ea).
      unfold e, mk_vops, v_show, e_v, VLayer.parse. rewrite (lazy_core a x Da Ea). reflexivity.
    - intros r v x y Dr Dv Er Ev. change (e_r e) with (mk_simple_rops cfg). cbn [r_contains mk_simple_rops].
      rewrite (parse_range_lazy (oracle_parse (self_vok e)) NV cfg r lazy). rewrite (H_nvr r Dr) in Er.
      destruct (parse_range GV NV cfg r) as [rg|] eqn:PR; [|discriminate].
      cbn [option_map] in Er. injection Er as <-.
      rewrite (lazy_vok v Dv), Ev. cbn [is_some].
      rewrite H_contains. unfold contains. apply lazy_forallb; [exact Ev | exact Dv|].
      intros c Hc. apply parse_range_cs in PR.
      destruct (parse_constraints_In NV cfg _ _ PR c Hc) as (p & Hp & Ec & _).
      apply (H_sub r p c Dr Hp Ec).
  Qed.
End LazyEco.

Print Assumptions parse_constraints_lazy.
Print Assumptions parse_range_lazy.
Print Assumptions lazy_vok.
Print Assumptions lazy_core.
Print Assumptions lazy_vcmp.
Print Assumptions lazy_forallb.
Print Assumptions lazy_lib_ties_on.

(* ====================================================================================================
   golang
   ==================================================================================================== *)

Module G := Verif.Gen.Code.Golang.
Module P := Verif.Gen.Parse.Golang.
Module M := Verif.Eco.Golang.Version.
Module MF := Verif.Eco.Golang.VersionFacts.
Module RM := Verif.Eco.Golang.Range.
Module TV := Verif.Tie.Golang.
Module TR := Verif.Tie.GolangRange.
Module PR := Verif.Tie.Parse.GolangRange.
Module TL := Verif.Tie.Loops.Golang.

(* ---------- compareIdentifier (Gen/Parse/Golang.v, at the strings.TrimLeft oracle) ---------- *)

Lemma tie_golang_compareIdentifier (tl : bytes -> bytes -> bytes) :
  (forall a, tl a $"0123456789" = drop_while is_digit a) ->
  forall a b, P.compareIdentifier tl a b = Z_of_cmp (M.compare_identifier a b).
Proof.
  intros H a b. unfold P.compareIdentifier, M.compare_identifier, M.is_num_ident. cbv zeta.
  rewrite !H. change (chr 48) with "0"%char.
  destruct (drop_while is_digit a) as [|xa ra]; destruct (drop_while is_digit b) as [|xb rb];
    cbn [beq andb]; try reflexivity.
  unfold digits_cmp, strip_zeros. cbv zeta.
  set (a' := drop_while (ceqb "0"%char) a). set (b' := drop_while (ceqb "0"%char) b).
  rewrite TV.tie_golang_compareInt.
  destruct (Nat.compare_spec (length a') (length b')) as [E|L|L]; cbn [thenc].
  - rewrite E, Z.eqb_refl. reflexivity.
  - destruct (Z.eqb_spec (Z.of_nat (length a')) (Z.of_nat (length b'))); [lia|]. cbn [negb].
    replace (Z.of_nat (length a') ?= Z.of_nat (length b')) with Lt; [reflexivity|].
    symmetry. apply Z.compare_lt_iff. lia.
  - destruct (Z.eqb_spec (Z.of_nat (length a')) (Z.of_nat (length b'))); [lia|]. cbn [negb].
    replace (Z.of_nat (length a') ?= Z.of_nat (length b')) with Gt; [reflexivity|].
    symmetry. apply Z.compare_gt_iff. lia.
Qed.

(* ---------- the model's pre-release text is no longer than the version text ---------- *)

Lemma take_while_length_le p (s : bytes) : (length (take_while p s) <= length s)%nat.
Proof. induction s as [|x s IH]; cbn [take_while length]; [lia|]. destruct (p x); cbn [length]; lia. Qed.

Lemma num_dot_rest_le s d r : M.num_dot s = Some (d, r) -> (length r <= length s)%nat.
Proof.
  unfold M.num_dot. pose proof (drop_while_length_le is_digit s) as DL.
  destruct (take_while is_digit s); [discriminate|].
  destruct (drop_while is_digit s) as [|c r']; [discriminate|].
  destruct (ceqb c "."%char); [|discriminate]. intros E. injection E as _ <-. cbn [length] in DL. lia.
Qed.

Lemma split_mmp_rest_le body ma mi pa rest :
  M.split_mmp body = Some (ma, mi, pa, rest) -> (length rest <= length body)%nat.
Proof.
  unfold M.split_mmp. destruct (M.num_dot body) as [[ma' r1]|] eqn:N1; [|discriminate].
  destruct (M.num_dot r1) as [[mi' r2]|] eqn:N2; [|discriminate].
  apply num_dot_rest_le in N1. apply num_dot_rest_le in N2.
  pose proof (drop_while_length_le is_digit r2) as DL.
  destruct (take_while is_digit r2); [discriminate|]. intros E. injection E as _ _ _ <-. lia.
Qed.

Lemma semver_tail_le rest p : M.semver_tail rest = Some p -> (length p <= length rest)%nat.
Proof.
  unfold M.semver_tail. destruct rest as [|c x]; [intros E; injection E as <-; cbn; lia|].
  pose proof (take_while_length_le M.not_plus x) as TL. cbn [length].
  destruct (ceqb c "-"%char).
  - destruct (M.idents_ok (take_while M.not_plus x)); [|discriminate].
    destruct (drop_while M.not_plus x) as [|c' b].
    + intros E. injection E as <-. lia.
    + destruct (M.idents_ok b); [|discriminate]. intros E. injection E as <-. lia.
  - destruct (ceqb c "+"%char); [|discriminate].
    destruct (M.idents_ok x); [|discriminate]. intros E. injection E as <-. cbn [length]. lia.
Qed.

Lemma parse_body_pre_le body c : M.parse_body body = Some c -> (length (M.pre c) <= length body)%nat.
Proof.
  unfold M.parse_body. destruct (M.split_mmp body) as [[[[ma mi] pa] rest]|] eqn:S; [|discriminate].
  apply split_mmp_rest_le in S.
  destruct (M.is_pseudo mi pa rest).
  - intros E. injection E as <-. cbn [M.pre]. unfold M.pseudo_pre.
    destruct rest as [|c0 x]; [cbn; lia|].
    pose proof (take_while_length_le M.not_plus x). cbn [length] in S. lia.
  - destruct (M.semver_tail rest) as [p|] eqn:ST; [|discriminate]. apply semver_tail_le in ST.
    destruct (atoi ma); [|discriminate]. destruct (atoi mi); [|discriminate].
    destruct (atoi pa); [|discriminate]. intros E. injection E as <-. cbn [M.pre]. lia.
Qed.

Lemma parse_core_pre_le t c : M.parse_core t = Some c -> (length (M.pre c) <= length t)%nat.
Proof.
  unfold M.parse_core. destruct t as [|ch r]; [discriminate|].
  destruct (ceqb ch "v"%char); intros E; apply parse_body_pre_le in E; cbn [length] in *; lia.
Qed.

(* ---------- the oracles: the functions of version.go outside the translated fragments ---------- *)

Record oracles : Type := {
  nv : G.Ecosystem -> bytes -> option G.Version;   (* Ecosystem.NewVersion, not translated *)
  sp : G.Version -> bytes;                         (* Version.semverPrerelease, not translated *)
  trimleft : bytes -> bytes -> bytes;              (* strings.TrimLeft *)
  nv_agrees : forall e t, option_map (TV.abs_ver sp) (nv e t) = M.parse t;
  trimleft_agrees : forall a, trimleft a $"0123456789" = drop_while is_digit a
}.

Section E2E.
  Variable O : oracles.

  (* ---------- the concrete bundle ---------- *)
  Definition compareIdentifier : bytes -> bytes -> Z := P.compareIdentifier (trimleft O).
  Definition comparePrerelease : bytes -> bytes -> Z := TL.comparePrerelease_total compareIdentifier.

  Definition Name : bytes := G.Ecosystem_Name G.mk_Ecosystem.
  Definition NV (s : bytes) : option G.Version := nv O G.mk_Ecosystem s.
  (* NewVersionRange uses no oracle; [let _ := O] only keeps the argument O after the Section is closed,
     so that every parser of the bundle is applied to O (NV O, NVR O) *)
  Definition NVR (s : bytes) : option G.VersionRange :=
    let _ := O in total None (P.Ecosystem_NewVersionRange (length s + 7) G.mk_Ecosystem s).
  Definition Compare : G.Version -> G.Version -> Z := G.Version_Compare (sp O) comparePrerelease.
  Definition Contains : G.VersionRange -> G.Version -> bool :=
    G.VersionRange_Contains (P.constraint_matches (nv O) (sp O) comparePrerelease).

  Lemma compareIdentifier_model x y : compareIdentifier x y = Z_of_cmp (M.compare_identifier x y).
  Proof. apply tie_golang_compareIdentifier, (trimleft_agrees O). Qed.

  (* what [nv_agrees] says of an accepted text *)
  Lemma NV_some a x : NV a = Some x ->
    M.parse_core (trim_space a) = Some (TV.abs (sp O) x) /\ G.Version_original x = a.
  Proof.
    intros E. pose proof (nv_agrees O G.mk_Ecosystem a) as H. unfold NV in E. rewrite E in H.
    cbn [option_map] in H. unfold M.parse, VLayer.parse in H. cbv zeta in H.
    destruct (M.parse_core (trim_space a)) as [c|]; [|discriminate].
    injection H as H1 H2. unfold M.raw_orig in H2. split; [rewrite H1; reflexivity | exact H2].
  Qed.

  Lemma NV_abs s : option_map (TV.abs (sp O)) (NV s) = M.parse_core (trim_space s).
  Proof.
    destruct (NV s) as [x|] eqn:E.
    - apply NV_some in E as [E _]. rewrite E. reflexivity.
    - pose proof (nv_agrees O G.mk_Ecosystem s) as H. unfold NV in E. rewrite E in H.
      cbn [option_map] in H. unfold M.parse, VLayer.parse in H. cbv zeta in H.
      destruct (M.parse_core (trim_space s)); [discriminate | reflexivity].
  Qed.

  Lemma NV_fits a x : short a = true -> NV a = Some x -> fits1 (sp O x).
  Proof.
    intros Hs E. apply NV_some in E as [E _]. apply parse_core_pre_le in E. cbn [TV.abs M.pre] in E.
    apply short_lt in Hs. pose proof (trim_space_length_le a). unfold fits1. lia.
  Qed.

  Lemma NVR_eq s : short s = true ->
    NVR s = option_map (fun rg => G.mk_VersionRange (map (mkc G.mk_constraint) (r_cs rg)) (r_orig rg))
                       (parse_range G.Version NV RM.cfg s).
  Proof.
    intros Hs. apply short_lt in Hs. unfold NVR. cbv zeta.
    rewrite (PR.tie_parse_golang_newversionrange G.Version NV) by lia. reflexivity.
  Qed.

  (* constraint.matches: the bound text parsed by NewVersion, then the switch on Compare *)
  Lemma matches_eq c y :
    P.constraint_matches (nv O) (sp O) comparePrerelease c y =
    match NV (G.constraint_version c) with
    | Some w => sat (rc_sem RM.cfg (G.constraint_operator c)) (cmp_of_Z (Compare y w))
    | None => false
    end.
  Proof.
    unfold P.constraint_matches, NV. cbv zeta.
    destruct (nv O G.mk_Ecosystem (G.constraint_version c)) as [w|]; [|reflexivity].
    fold (Compare y w). set (z := Compare y w). clearbody z.
    change (rc_sem RM.cfg) with RM.golang_sem. unfold RM.golang_sem, cmp_of_Z.
    set (tag := G.constraint_operator c). clearbody tag.
    destruct (beq tag $"="); cbn [orb].
    { destruct (Z.compare_spec z 0); cbn [sat]; lia. }
    destruct (beq tag $"==").
    { destruct (Z.compare_spec z 0); cbn [sat]; lia. }
    destruct (beq tag $"!=").
    { destruct (Z.compare_spec z 0); cbn [sat]; lia. }
    destruct (beq tag $">").
    { destruct (Z.compare_spec z 0); cbn [sat]; lia. }
    destruct (beq tag $">=").
    { destruct (Z.compare_spec z 0); cbn [sat]; lia. }
    destruct (beq tag $"<").
    { destruct (Z.compare_spec z 0); cbn [sat]; lia. }
    destruct (beq tag $"<=").
    { destruct (Z.compare_spec z 0); cbn [sat]; lia. }
    destruct (z ?= 0); reflexivity.
  Qed.

  Lemma eco_found :
    Top.eco_or_none $"golang" =
    Some {| e_name := $"golang"; e_v := mk_vops M.parse_core M.cmp_core M.raw_orig;
            e_r := mk_simple_rops RM.cfg |}.
  Proof. reflexivity. Qed.

  (* ---------- lib_ties ---------- *)

  Theorem golang_lib_ties_on :
    lib_ties_on G.Version G.VersionRange Name NV NVR Contains Compare G.Version_String
                (Top.model_lib $"golang") short.
  Proof.
    apply (lazy_lib_ties_on M.core M.parse_core M.cmp_core M.raw_orig RM.cfg $"golang" eco_found eq_refl
             G.Version G.constraint G.VersionRange Name NV NVR Contains Compare
             G.Version_String G.mk_constraint (fun o cs => G.mk_VersionRange cs o)
             G.constraint_operator G.constraint_version (TV.abs (sp O)) short).
    - reflexivity.
    - intros s _. apply NV_abs.
    - intros a b x y Da Db Ea Eb. unfold Compare, comparePrerelease.
      apply (TL.tie_golang_compare_closed compareIdentifier compareIdentifier_model (sp O) x y);
        [exact (NV_fits a x Da Ea) | exact (NV_fits b y Db Eb)].
    - intros a x _ E. apply NV_some in E as [_ E]. exact E.
    - exact NVR_eq.
    - intros o cs y. unfold Contains, G.VersionRange_Contains. cbn [G.VersionRange_constraints].
      apply forallb_ext_in. intros c _. apply matches_eq.
    - reflexivity.
    - reflexivity.
    - apply split_le_short. intros t p Hp. change (rc_split RM.cfg t) with (split_golang t) in Hp.
      apply split_golang_le. exact Hp.
  Qed.

  (* acceptance of a range text does not depend on any oracle *)
  Theorem golang_rok_closed s : short s = true ->
    l_rok (Top.model_lib $"golang") s =
    is_some (total None (P.Ecosystem_NewVersionRange (length s + 7) G.mk_Ecosystem s)).
  Proof. intros Hs. apply (o_rok _ _ _ _ _ _ _ _ _ _ golang_lib_ties_on s Hs). Qed.

  (* the record of Tie/Cli/Common.v, for the bundle guarded by the length bound *)
  Corollary golang_lib_ties :
    lib_ties G.Version G.VersionRange Name (guard short NV) (guard short NVR) Contains Compare
             G.Version_String (restrict (Top.model_lib $"golang") short).
  Proof. apply lib_ties_guard, golang_lib_ties_on. Qed.

  Theorem golang_name_ok : Name = $"golang".
  Proof. reflexivity. Qed.

  Theorem golang_model_tpo :
    TotalPreorderOn (fun s => l_vok (Top.model_lib $"golang") s = true) (l_vcmp (Top.model_lib $"golang")).
  Proof. apply (model_lib_tpo _ _ _ _ _ _ eco_found MF.cmp_core_tp). Qed.

  (* ---------- the CLI ---------- *)

  Variable sort_by : forall A : Type, (A -> A -> Z) -> list A -> list A.
  Variable e1 e2 e3 : list bytes -> bytes.

  Definition runEcosystem : nat -> list bytes -> res (bytes * Z) :=
    CmdCore.runEcosystem G.Version G.VersionRange Name NV NVR Contains Compare G.Version_String sort_by e1 e2 e3.

  Local Notation L := (Top.model_lib $"golang").
  Local Notation accepted := (fun s : bytes => l_vok L s = true).

  (* `univers golang <args>` as computed by the source-derived code is the CLI model's outcome *)
  Theorem golang_runEcosystem_e2e (fuel : nat) (args : list bytes) :
    sort_ok G.Version NV Compare sort_by accepted ->
    fits args -> (length args < fuel)%nat -> Forall (fun a => short a = true) args ->
    (forall rest, args = $"sort" :: rest -> Forall accepted rest -> show_respects L rest) ->
    exists r, runEcosystem fuel args = Done r /\ shown (run_ecosystem L args) r.
  Proof.
    apply (eco_runEcosystem_e2e _ _ _ _ _ _ _ _ ($"golang" : bytes) golang_lib_ties_on golang_model_tpo).
  Qed.

  Corollary golang_cli_e2e (fuel : nat) (args : list bytes) :
    sort_ok G.Version NV Compare sort_by accepted ->
    fits args -> (length args < fuel)%nat -> Forall (fun a => short a = true) args ->
    (forall rest, args = $"sort" :: rest -> Forall accepted rest -> show_respects L rest) ->
    exists r, runEcosystem fuel args = Done r /\ shown (Top.model_cli (($"golang" : bytes) :: args)) r.
  Proof.
    apply (eco_cli_e2e _ _ _ _ _ _ _ _ ($"golang" : bytes) golang_lib_ties_on golang_model_tpo eq_refl eq_refl).
  Qed.

  (* the exit status: no hypothesis on the order, the sort oracle only has to return a permutation *)
  Theorem golang_cli_e2e_exit (fuel : nat) (args : list bytes) :
    (forall l, Permutation (sort_by G.Version Compare l) l) ->
    fits args -> (length args < fuel)%nat -> Forall (fun a => short a = true) args ->
    exists r, runEcosystem fuel args = Done r /\ snd r = exit_code (Top.model_cli (($"golang" : bytes) :: args)).
  Proof.
    apply (eco_cli_e2e_exit _ _ _ _ _ _ _ _ ($"golang" : bytes) golang_lib_ties_on eq_refl eq_refl).
  Qed.
End E2E.

Print Assumptions golang_lib_ties_on.
Print Assumptions golang_rok_closed.
Print Assumptions golang_lib_ties.
Print Assumptions golang_name_ok.
Print Assumptions golang_model_tpo.
Print Assumptions golang_runEcosystem_e2e.
Print Assumptions golang_cli_e2e.
Print Assumptions golang_cli_e2e_exit.
Print Assumptions tie_golang_compareIdentifier.
Print Assumptions take_while_length_le.
Print Assumptions num_dot_rest_le.
Print Assumptions split_mmp_rest_le.
Print Assumptions semver_tail_le.
Print Assumptions parse_body_pre_le.
Print Assumptions parse_core_pre_le.
Print Assumptions compareIdentifier_model.
Print Assumptions NV_some.
Print Assumptions NV_abs.
Print Assumptions NV_fits.
Print Assumptions NVR_eq.
Print Assumptions matches_eq.
Print Assumptions eco_found.
Check (NVR : oracles -> bytes -> option G.VersionRange).
Check (Compare : oracles -> G.Version -> G.Version -> Z).
Check (Contains : oracles -> G.VersionRange -> G.Version -> bool).
