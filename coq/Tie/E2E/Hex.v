(* Tie/E2E/Hex.v — END TO END for hex: the bundle of the CLI section (Gen/Parse/CmdCore.v) built out
   of the functions generated from pkg/ecosystem/hex, tied to [Top.model_lib $"hex"].

     Name             Gen.Code.Hex.Ecosystem_Name
     NewVersion       Gen.Parse.Hex.Ecosystem_NewVersion at the two regexp oracles, fuel length s + 2, made total
     NewVersionRange  Gen.Parse.Hex.Ecosystem_NewVersionRange at the three regexp oracles, fuel length s + 2
     Compare          Gen.Code.Hex.Version_Compare at Tie/Loops/Hex.comparePreRelease_total (the generated loop)
                      at the oracle for comparePreReleaseIdentifier (NOT translated by the generator)
     String           Gen.Code.Hex.Version_String
     Contains         Gen.Code.Hex.VersionRange_Contains at the same comparePreRelease

   No existing file ties hex's NewVersion to the model (Tie/Parse/Hex.v has the no-panic theorem only):
   [tie_parse_hex_newversion] is proved HERE under the regexp-oracle agreements [find_agrees] /
   [findp_agrees] ([ref_match], [ref_match_partial]: the two patterns re-expressed with the model's scanners).
   hex has a CUSTOM range model (Eco/Hex/Range.v: `~>` is expanded into two constraints, the upper one a
   synthesised Version literal): the Contains field is proved through Tie/Parse/HexRange.tie_parse_hex_newversionrange
   and Tie/Loops/HexRange.tie_hex_contains_closed.

   Hypotheses ([oracles]): find_agrees, findp_agrees (version patterns), cfind_agrees (constraint pattern, on
   texts without white space), cmpIdent_agrees (comparePreReleaseIdentifier returns the sign of the model's
   cmp_ident).  [hex_lib_ties_on]: all six fields of [lib_ties] on the texts of length < 2^63 - 64. *)
From Coq Require Import ZArith List Ascii Bool Lia Permutation Sorted.
From Verif.Base Require Import Bytes GoNum GoOps Ord Sorting Imp ImpFacts ImpErr ImpCore BytesFacts.
From Verif.Cli Require Import Model.
From Verif.Eco Require Import RangeCore Iface VLayer.
From Verif.Eco.Hex Require Version VersionFacts Range RangeFacts Entry.
From Verif.Gen.Code Require Hex.
From Verif.Gen.Parse Require Hex CmdCore.
From Verif.Tie Require Import Tactics.
From Verif.Tie Require Hex HexRange.
From Verif.Tie.Loops Require Import Common.
From Verif.Tie.Loops Require Hex HexRange.
From Verif.Tie.Parse Require Import Common RangeCommon RangeTie RangeOptTie ListCursor.
From Verif.Tie.Parse Require Hex HexRange Semver.
From Verif.Tie.Cli Require Import Common Spec Ties.
From Verif.Tie.E2E Require Import Common.
From Verif.Properties.Support Require Import SimpleRops.
From Verif Require Top.
Import ListNotations.
Local Open Scope Z_scope.

Module G := Verif.Gen.Code.Hex.
Module P := Verif.Gen.Parse.Hex.
Module M := Verif.Eco.Hex.Version.
Module MF := Verif.Eco.Hex.VersionFacts.
Module RM := Verif.Eco.Hex.Range.
Module RF := Verif.Eco.Hex.RangeFacts.
Module TV := Verif.Tie.Hex.
Module TR := Verif.Tie.HexRange.
Module PR := Verif.Tie.Parse.HexRange.
Module TL := Verif.Tie.Loops.Hex.
Module TLR := Verif.Tie.Loops.HexRange.

(* ---------- NewVersion against the model (missing in the existing tie files) ---------- *)

(* hexVersionPattern ^(\d+)\.(\d+)\.(\d+)(?:-([a-zA-Z0-9\-\.]+))?(?:\+([a-zA-Z0-9\-\.]+))?$ on the trimmed
   text, re-expressed with the scanners of the model: [whole; major; minor; patch; prerelease; build]
   (a group that did not take part is reported as "").  That the regexp engine agrees with this function
   is the oracle-agreement hypothesis [find_agrees]. *)
Definition ref_match (t : bytes) : option (list bytes) :=
  match M.digits_dot t with
  | None => None
  | Some (d1, r1) =>
      match M.digits_dot r1 with
      | None => None
      | Some (d2, r2) =>
          match span is_digit r2 with
          | ([], _) => None
          | (d3, r3) =>
              match M.sem_tail r3 with
              | None => None
              | Some (p, b) => Some [t; d1; d2; d3; p; b]
              end
          end
      end
  end.

(* hexPartialVersionPattern ^(\d+)\.(\d+)$ : [whole; major; minor] *)
Definition ref_match_partial (t : bytes) : option (list bytes) :=
  match M.digits_dot t with
  | None => None
  | Some (d1, r1) => if nonempty_digits r1 then Some [t; d1; r1] else None
  end.

(* the Go value for a parsed core: original is the TRIMMED text *)
Definition conc (s : bytes) (c : M.core) : G.Version :=
  G.mk_Version (trim_space s) (M.major c) (M.minor c) (M.patch c) (M.pre c) (M.build c).

Lemma abs_conc s c : TV.abs (conc s c) = c.
Proof. destruct c; reflexivity. Qed.

Lemma take_while_length_le p (s : bytes) : (length (take_while p s) <= length s)%nat.
Proof. induction s as [|c s IH]; cbn; [lia|]. destruct (p c); cbn; lia. Qed.

Lemma digits_dot_length s d r : M.digits_dot s = Some (d, r) -> (length d + length r <= length s)%nat.
Proof.
  unfold M.digits_dot, span.
  assert (L : (length (take_while is_digit s) + length (drop_while is_digit s) = length s)%nat).
  { induction s as [|c s IH]; cbn; [reflexivity|]. destruct (is_digit c); cbn; lia. }
  destruct (take_while is_digit s) as [|d0 dr]; [discriminate|].
  destruct (drop_while is_digit s) as [|c r']; [discriminate|].
  destruct (ceqb c "."%char); [|discriminate]. intros H. injection H as <- <-. cbn [length] in *. lia.
Qed.

Lemma build_tail_length s b : M.build_tail s = Some b -> (length b <= length s)%nat.
Proof.
  unfold M.build_tail. destruct s as [|c y]; [intros H; injection H as <-; cbn; lia|].
  destruct (ceqb c "+"%char); [|discriminate]. destruct y as [|y0 yr]; [discriminate|].
  destruct (forallb M.is_idch (y0 :: yr)); [|discriminate]. intros H. injection H as <-. cbn [length]. lia.
Qed.

Lemma sem_tail_length s p b : M.sem_tail s = Some (p, b) -> (length p <= length s)%nat.
Proof.
  unfold M.sem_tail. destruct s as [|c x]; [intros H; injection H as <- <-; cbn; lia|].
  destruct (ceqb c "-"%char).
  - unfold span. pose proof (take_while_length_le M.is_idch x) as L.
    destruct (take_while M.is_idch x) as [|p0 pr]; [discriminate|].
    destruct (M.build_tail _); [|discriminate]. intros H. injection H as <- <-. cbn [length] in *. lia.
  - destruct (M.build_tail (c :: x)); [|discriminate]. intros H. injection H as <- <-. cbn [length]. lia.
Qed.

Section NewVersion.
  Variable find : bytes -> option (list bytes).      (* hexVersionPattern.FindStringSubmatch *)
  Variable findp : bytes -> option (list bytes).     (* hexPartialVersionPattern.FindStringSubmatch *)
  Hypothesis find_agrees : forall t, find t = ref_match t.
  Hypothesis findp_agrees : forall t, findp t = ref_match_partial t.

  Local Opaque atoi trim_space split_c.

  Theorem tie_parse_hex_newversion : forall e s fuel,
    Z.of_nat (length s) + 1 < 2 ^ 63 -> (S (length s) < fuel)%nat ->
    P.Ecosystem_NewVersion find findp fuel e s = Done (option_map (conc s) (M.parse_core (trim_space s))).
  Proof.
    intros e s fuel F Hf. unfold P.Ecosystem_NewVersion. cbv zeta.
    destruct (beq s []) eqn:E00.
    { apply beq_eq in E00. subst s. reflexivity. }
    unfold conc. pose proof (trim_space_length_le s) as TL.
    set (t := trim_space s) in *. clearbody t.
    destruct (beq t []) eqn:E0.
    { apply beq_eq in E0. subst t. reflexivity. }
    rewrite find_agrees, findp_agrees. unfold ref_match, ref_match_partial, M.parse_core, M.parse_semantic, M.parse_partial.
    assert (Partial :
      match
        match M.digits_dot t with
        | Some (d1, r1) => if nonempty_digits r1 then Some [t; d1; r1] else None
        | None => None
        end
      with
      | Some partialMatches => bind (P.parsePartialVersion t partialMatches) (fun r => Done r)
      | None => Done None
      end =
      Done (option_map (fun c => G.mk_Version t (M.major c) (M.minor c) (M.patch c) (M.pre c) (M.build c))
              match M.digits_dot t with
              | Some (d1, r1) =>
                  if nonempty_digits r1
                  then match M.atoi_digits d1, M.atoi_digits r1 with
                       | Some ma, Some mi =>
                           Some {| M.major := ma; M.minor := mi; M.patch := 0; M.pre := []; M.build := [] |}
                       | _, _ => None
                       end
                  else None
              | None => None
              end)).
    { destruct (M.digits_dot t) as [[d1 r1]|]; [|reflexivity].
      destruct (nonempty_digits r1); [|reflexivity].
      unfold P.parsePartialVersion, M.atoi_digits.
      repeat (erewrite idx_known by reflexivity; cbn [bind]).
      destruct (atoi d1) as [ma|]; [|reflexivity].
      repeat (erewrite idx_known by reflexivity; cbn [bind]).
      destruct (atoi r1) as [mi|]; reflexivity. }
    destruct (M.digits_dot t) as [[d1 r1]|] eqn:D1; [|exact Partial].
    destruct (M.digits_dot r1) as [[d2 r2]|] eqn:D2; [|exact Partial].
    destruct (span is_digit r2) as [d3 r3] eqn:D3.
    destruct d3 as [|d30 d3r]; [exact Partial|].
    destruct (M.sem_tail r3) as [[p b]|] eqn:ST; [|exact Partial].
    clear Partial.
    apply digits_dot_length in D1. apply digits_dot_length in D2. apply sem_tail_length in ST.
    assert (L3 : (length r3 <= length r2)%nat).
    { unfold span in D3. injection D3 as _ <-. apply drop_while_length_le. }
    unfold P.parseSemanticVersion, M.atoi_digits.
    repeat (erewrite idx_known by reflexivity; cbn [bind]).
    destruct (atoi d1) as [ma|]; [|reflexivity].
    repeat (erewrite idx_known by reflexivity; cbn [bind]).
    destruct (atoi d2) as [mi|]; [|reflexivity].
    repeat (erewrite idx_known by reflexivity; cbn [bind]).
    destruct (atoi (d30 :: d3r)) as [pa|]; [|reflexivity].
    repeat (erewrite idx_known by reflexivity; cbn [bind]).
    assert (Five : forall l : bytes, (5 <? Z.of_nat (length [t; d1; d2; d30 :: d3r; l; b])) = true) by reflexivity.
    destruct p as [|p0 pr].
    - rewrite beq_nil_nil. cbn [negb forallb]. cbv zeta. rewrite Five.
      destruct b as [|b0 br]; [rewrite beq_nil_nil | rewrite beq_cons_nil]; reflexivity.
    - rewrite beq_cons_nil. cbn [negb]. repeat (erewrite idx_known by reflexivity; cbn [bind]). cbv zeta.
      pose proof (split_c_length_le (chr 46) (p0 :: pr)) as SL.
      change "."%char with (chr 46). cbv iota.
      set (xs := split_c (chr 46) (p0 :: pr)) in *.
      match goal with |- context [forallb ?f xs] => set (tst := f) end.
      match goal with |- bind (bind (while fuel ?bd 0) _) _ = _ =>
        assert (W : while fuel bd 0 =
                    Done (if forallb tst xs then Fell (Z.of_nat (length xs)) else Returned None)) end.
      { apply (cursor_forall fuel xs); [lia | lia |].
        intros i part Hi Hc. cbv beta.
        destruct part as [|c r]; [rewrite beq_nil_nil; reflexivity|]. rewrite beq_cons_nil. reflexivity. }
      rewrite W. cbn [bind].
      destruct (forallb tst xs); [|reflexivity].
      rewrite Five.
      destruct b as [|b0 br]; [rewrite beq_nil_nil | rewrite beq_cons_nil]; reflexivity.
  Qed.
End NewVersion.
Print Assumptions tie_parse_hex_newversion.

(* ---------- facts about the model used below ---------- *)

(* a parsed version has at most length t + 1 pre-release identifiers *)
Lemma parse_core_pre_le t c : M.parse_core t = Some c -> (length (M.pre c) <= S (length t))%nat.
Proof.
  unfold M.parse_core, M.parse_semantic, M.parse_partial.
  assert (Partial : forall o : option M.core,
            o = match M.digits_dot t with
                | Some (d1, r1) =>
                    if nonempty_digits r1
                    then match M.atoi_digits d1, M.atoi_digits r1 with
                         | Some ma, Some mi =>
                             Some {| M.major := ma; M.minor := mi; M.patch := 0; M.pre := []; M.build := [] |}
                         | _, _ => None
                         end
                    else None
                | None => None
                end -> o = Some c -> (length (M.pre c) <= S (length t))%nat).
  { intros o ->. destruct (M.digits_dot t) as [[d1 r1]|]; [|discriminate].
    destruct (nonempty_digits r1); [|discriminate].
    destruct (M.atoi_digits d1); [|discriminate]. destruct (M.atoi_digits r1); [|discriminate].
    intros H. injection H as <-. cbn [M.pre length]. lia. }
  destruct (M.digits_dot t) as [[d1 r1]|] eqn:D1; [|apply (Partial _ eq_refl)].
  destruct (M.digits_dot r1) as [[d2 r2]|] eqn:D2; [|apply (Partial _ eq_refl)].
  destruct (span is_digit r2) as [d3 r3] eqn:D3.
  destruct d3 as [|d30 d3r]; [apply (Partial _ eq_refl)|].
  destruct (M.sem_tail r3) as [[p b]|] eqn:ST; [|apply (Partial _ eq_refl)].
  clear Partial.
  apply digits_dot_length in D1. apply digits_dot_length in D2. apply sem_tail_length in ST.
  assert (L3 : (length r3 <= length r2)%nat).
  { unfold span in D3. injection D3 as _ <-. apply drop_while_length_le. }
  destruct (M.atoi_digits d1); [|discriminate]. destruct (M.atoi_digits d2); [|discriminate].
  destruct (M.atoi_digits (d30 :: d3r)); [|discriminate].
  match goal with |- context [forallb ?f ?l] => destruct (forallb f l) end; [|discriminate].
  intros H. injection H as <-. cbn [M.pre]. destruct p as [|p0 pr]; [cbn [length]; lia|].
  pose proof (split_c_length_le "."%char (p0 :: pr)). lia.
Qed.

Lemma wrap64_range z : - 2 ^ 63 <= wrap64 z < 2 ^ 63.
Proof.
  unfold wrap64, two64, two63.
  change (Z.of_N 18446744073709551616) with (2 ^ 64). change (Z.of_N 9223372036854775808) with (2 ^ 63).
  cbv zeta. pose proof (Z.mod_pos_bound z (2 ^ 64) ltac:(lia)) as B.
  destruct (Z.ltb_spec (z mod 2 ^ 64) (2 ^ 63)); lia.
Qed.

(* the synthesised upper bound of `~>` with non-negative fields is the version its text denotes *)
Lemma synth_parse ma mi : 0 <= ma < 2 ^ 63 -> 0 <= mi < 2 ^ 63 ->
  M.parse_core (trim_space (RM.synth_text ma mi)) = Some (RM.synth_core ma mi).
Proof.
  intros Ha Hi. rewrite <- (Z2N.id ma), <- (Z2N.id mi) by lia.
  rewrite RF.synth_text_ver3.
  pose proof (RF.scope_ver3 (Z.to_N ma) (Z.to_N mi) 0 [] eq_refl) as Sc. rewrite app_nil_r in Sc.
  unfold RF.scope_b in Sc. apply andb_prop in Sc as [Sc _]. apply andb_prop in Sc as [_ Sc].
  rewrite (Verif.Eco.RangeCoreFacts.trim_space_no_space _ Sc).
  rewrite MF.parse_release; [reflexivity | | | reflexivity];
    unfold two63; change 9223372036854775808%N with (Z.to_N (2 ^ 63)); apply Z2N.inj_lt; lia.
Qed.

(* the range parser looks at the validity oracle pointwise *)
Lemma parse_constraint_ext vok1 vok2 : (forall t, vok1 t = vok2 t) ->
  forall p, RM.parse_constraint vok1 p = RM.parse_constraint vok2 p.
Proof. intros H p. unfold RM.parse_constraint. destruct p; [reflexivity|]. destruct (match _ with Some _ => _ | None => _ end). cbv zeta. rewrite H. reflexivity. Qed.

Lemma parse_range_ext vok1 vok2 : (forall t, vok1 t = vok2 t) ->
  forall s, RM.parse_range vok1 s = RM.parse_range vok2 s.
Proof.
  intros H s. unfold RM.parse_range. cbv zeta. destruct (trim_space s) as [|x t]; [reflexivity|].
  assert (E : forall ps, RM.parse_constraints vok1 ps = RM.parse_constraints vok2 ps).
  { induction ps as [|p r IH]; [reflexivity|]. cbn [RM.parse_constraints].
    rewrite (parse_constraint_ext vok1 vok2 H), IH. reflexivity. }
  rewrite E. reflexivity.
Qed.

(* what the parser guarantees about the bounds of a parsed range of length at most n *)
Definition bound_wf (n : nat) (b : RM.bound) : Prop :=
  match b with
  | RM.BText t => (length t <= n)%nat /\ exists c, M.parse_core (trim_space t) = Some c
  | RM.BSynth ma mi => - 2 ^ 63 <= ma < 2 ^ 63 /\ - 2 ^ 63 <= mi < 2 ^ 63
  end.

Section RangeWf.
  Variable vok : bytes -> bool.
  Hypothesis vok_core : forall t, vok t = true -> exists c, M.parse_core (trim_space t) = Some c.

  Lemma pess_upper_range t c : MF.wf c ->
    - 2 ^ 63 <= fst (RM.pess_upper t c) < 2 ^ 63 /\ - 2 ^ 63 <= snd (RM.pess_upper t c) < 2 ^ 63.
  Proof.
    intros (H1 & H2 & _). unfold max_int64 in *. unfold RM.pess_upper.
    pose proof (wrap64_range (M.major c + 1)). pose proof (wrap64_range (M.minor c + 1)).
    destruct (count_c "."%char t =? 1)%nat; [destruct (M.minor c =? 0)|]; cbn [fst snd]; lia.
  Qed.

  Lemma parse_constraint_wf n p cs : (length p <= n)%nat ->
    RM.parse_constraint vok p = Some cs -> Forall (fun c => bound_wf n (snd c)) cs.
  Proof.
    intros Ln. unfold RM.parse_constraint. destruct p as [|x p]; [discriminate|].
    assert (Main : forall op rest, (length rest <= n)%nat ->
      (let t := trim_space rest in
       if vok t then
         if beq op $"~>" then
           match M.parse_core (trim_space t) with
           | Some c0 => let '(ma, mi) := RM.pess_upper (trim_space t) c0 in
                        Some [($">=", RM.BText t); ($"<", RM.BSynth ma mi)]
           | None => None
           end
         else Some [(op, RM.BText t)]
       else None) = Some cs -> Forall (fun c => bound_wf n (snd c)) cs).
    { intros op rest Lr. cbv zeta.
      destruct (vok (trim_space rest)) eqn:V; [|discriminate].
      assert (W : bound_wf n (RM.BText (trim_space rest))).
      { split; [pose proof (trim_space_length_le rest); lia | apply vok_core; exact V]. }
      destruct (beq op $"~>").
      - destruct (M.parse_core (trim_space (trim_space rest))) as [c|] eqn:PC; [|discriminate].
        pose proof (pess_upper_range (trim_space (trim_space rest)) c (MF.parse_core_wf _ _ PC)) as R.
        destruct (RM.pess_upper _ c) as [ma mi]. cbn [fst snd] in R.
        intros H. injection H as <-.
        apply Forall_cons; [exact W | apply Forall_cons; [exact R | apply Forall_nil]].
      - intros H. injection H as <-. apply Forall_cons; [exact W | apply Forall_nil]. }
    destruct (first_prefix_ne RM.hex_ops (x :: p)) as [[op rest]|] eqn:FP; apply Main; [|exact Ln].
    apply Verif.Tie.E2E.Common.first_prefix_ne_rest in FP. subst rest.
    pose proof (skipn_length_le (length op) (x :: p)). lia.
  Qed.

  Lemma parse_constraints_wf n ps : Forall (fun p : bytes => (length p <= n)%nat) ps -> forall cs,
    RM.parse_constraints vok ps = Some cs -> Forall (fun c => bound_wf n (snd c)) cs.
  Proof.
    induction 1 as [|p r Lp _ IH]; intros cs; cbn [RM.parse_constraints].
    - intros H. injection H as <-. constructor.
    - destruct (beq (to_lower p) $"and"); [apply IH|].
      destruct (RM.parse_constraint vok p) as [c1|] eqn:E; [|discriminate].
      destruct (RM.parse_constraints vok r) as [c2|]; [|discriminate].
      intros H. injection H as <-. apply Forall_app. split; [exact (parse_constraint_wf n p c1 Lp E) | apply IH; reflexivity].
  Qed.

  Lemma parse_range_wf s rg : RM.parse_range vok s = Some rg ->
    Forall (fun c => bound_wf (length s) (snd c)) (RM.r_cs rg).
  Proof.
    unfold RM.parse_range. cbv zeta. pose proof (trim_space_length_le s) as TL.
    destruct (trim_space s) as [|x t] eqn:ET; [discriminate|]. rewrite <- ET in *.
    destruct (RM.parse_constraints vok _) as [cs|] eqn:E; [|discriminate].
    intros H. injection H as <-. cbn [RM.r_cs]. refine (parse_constraints_wf _ _ _ _ E).
    apply Forall_forall. intros p Hp. apply fields_In_length in Hp. lia.
  Qed.
End RangeWf.

(* the oracles and what is assumed of them *)
Record oracles : Type := {
  cfind : bytes -> option (list bytes);    (* constraintPattern.FindStringSubmatch *)
  find : bytes -> option (list bytes);     (* hexVersionPattern.FindStringSubmatch *)
  findp : bytes -> option (list bytes);    (* hexPartialVersionPattern.FindStringSubmatch *)
  cmpIdent : bytes -> bytes -> Z;          (* comparePreReleaseIdentifier (not translated by the generator) *)
  cfind_agrees : forall t, no_space t = true -> cfind t = ref_cmatch RM.hex_ops t;
  find_agrees : forall t, find t = ref_match t;
  findp_agrees : forall t, findp t = ref_match_partial t;
  cmpIdent_agrees : forall x y, cmpIdent x y = Z_of_cmp (M.cmp_ident x y)
}.

Section E2E.
  Variable O : oracles.

  (* ---------- the concrete bundle ---------- *)
  Definition Name : bytes := G.Ecosystem_Name G.mk_Ecosystem.
  Definition comparePreRelease : list bytes -> list bytes -> Z := TL.comparePreRelease_total (cmpIdent O).
  Definition Compare : G.Version -> G.Version -> Z := G.Version_Compare comparePreRelease.
  Definition NV (s : bytes) : option G.Version :=
    total None (P.Ecosystem_NewVersion (find O) (findp O) (length s + 2) G.mk_Ecosystem s).
  Definition NVR (s : bytes) : option G.VersionRange :=
    total None (P.Ecosystem_NewVersionRange (cfind O) (find O) (findp O) (length s + 2) G.mk_Ecosystem s).
  Definition Contains : G.VersionRange -> G.Version -> bool := G.VersionRange_Contains comparePreRelease.

  (* what NewVersion computes, as a function of the text *)
  Definition nvm (s : bytes) : option G.Version := option_map (conc s) (M.parse_core (trim_space s)).

  Lemma NV_computes fuel e s : Z.of_nat (length s) + 1 < 2 ^ 63 -> (S (length s) < fuel)%nat ->
    P.Ecosystem_NewVersion (find O) (findp O) fuel e s = Done (nvm s).
  Proof. intros F Hf. apply (tie_parse_hex_newversion (find O) (findp O) (find_agrees O) (findp_agrees O)); assumption. Qed.

  Lemma NV_eq s : short s = true -> NV s = nvm s.
  Proof. intros Hs. apply short_lt in Hs. unfold NV. rewrite NV_computes by lia. reflexivity. Qed.

  Lemma nvm_core t v : nvm t = Some v ->
    exists c, M.parse_core (trim_space t) = Some c /\
              G.Version_major v = M.major c /\ G.Version_minor v = M.minor c /\
              G.Version_original v = trim_space t.
  Proof.
    unfold nvm. destruct (M.parse_core (trim_space t)) as [c|]; [|discriminate].
    intros H. injection H as <-. exists c. repeat split.
  Qed.

  Lemma nvm_abs t v : nvm t = Some v -> M.parse_core (trim_space t) = Some (TV.abs v).
  Proof.
    unfold nvm. destruct (M.parse_core (trim_space t)) as [c|]; [|discriminate].
    intros H. injection H as <-. rewrite abs_conc. reflexivity.
  Qed.

  Lemma nvm_fits t v : short t = true -> nvm t = Some v -> fits (G.Version_preRelease v).
  Proof.
    intros Hs H. pose proof (nvm_abs t v H) as E. apply parse_core_pre_le in E.
    apply short_lt in Hs. pose proof (trim_space_length_le t). unfold fits.
    change (G.Version_preRelease v) with (M.pre (TV.abs v)). lia.
  Qed.

  Lemma NVR_eq s : short s = true -> NVR s = option_map (PR.conc nvm) (RM.parse_range (PR.vok nvm) s).
  Proof.
    intros Hs. apply short_lt in Hs. unfold NVR.
    rewrite (PR.tie_parse_hex_newversionrange (cfind O) (find O) (findp O) (cfind_agrees O) nvm) by (try lia; auto using NV_computes, nvm_core).
    reflexivity.
  Qed.

  Definition e : eco := Verif.Eco.Hex.Entry.entry.

  Lemma eco_found : Top.eco_or_none $"hex" = Some e.
  Proof. reflexivity. Qed.

  Lemma vok_self t : PR.vok nvm t = self_vok e t.
  Proof.
    unfold PR.vok, nvm, self_vok, e, Verif.Eco.Hex.Entry.entry, Verif.Eco.Hex.Entry.v, mk_vops, v_show, e_v, VLayer.parse.
    destruct (M.parse_core (trim_space t)); reflexivity.
  Qed.

  Lemma self_core t : self_vok e t = true -> exists c, M.parse_core (trim_space t) = Some c.
  Proof. apply (self_vok_core M.core M.parse_core M.cmp_core M.raw_orig $"hex" Verif.Eco.Hex.Entry.r). Qed.

  Lemma self_cmp a b ca cb : M.parse_core (trim_space a) = Some ca -> M.parse_core (trim_space b) = Some cb ->
    self_vcmp e a b = M.cmp_core ca cb.
  Proof. apply (self_vcmp_core M.core M.parse_core M.cmp_core M.raw_orig $"hex" Verif.Eco.Hex.Entry.r). Qed.

  (* ---------- Contains on a parsed range: the generated code against the custom range model ---------- *)

  Lemma contains_tie n o v y cs :
    short v = true -> nvm v = Some y -> Z.of_nat n + 64 < 2 ^ 63 ->
    Forall (fun c => bound_wf n (snd c)) cs ->
    Contains (G.mk_VersionRange o (PR.conc_cs nvm cs)) y = forallb (RM.sat_constraint (self_vcmp e) v) cs.
  Proof.
    intros Dv Ev Hn. unfold Contains, G.VersionRange_Contains. cbn [G.VersionRange_constraints].
    pose proof (nvm_fits v y Dv Ev) as Fy. pose proof (nvm_abs v y Ev) as Ay.
    induction 1 as [|c cs Wc _ IH]; [reflexivity|].
    change (PR.conc_cs nvm (c :: cs))
      with ((match PR.conc_b nvm (snd c) with Some x => [G.mk_constraint (fst c) x] | None => [] end)
            ++ PR.conc_cs nvm cs).
    rewrite forallb_app, IH. cbn [forallb]. f_equal.
    destruct c as [op b]. cbn [fst snd] in *. unfold RM.sat_constraint. cbn [fst snd].
    destruct b as [t|ma mi]; cbn [bound_wf PR.conc_b RM.cmp_bound] in *.
    - destruct Wc as (Lt & c' & Ec).
      assert (Et : nvm t = Some (conc t c')) by (unfold nvm; rewrite Ec; reflexivity).
      rewrite Et. cbn [forallb]. rewrite andb_true_r.
      assert (St : short t = true) by (unfold short; apply Z.ltb_lt; lia).
      rewrite (TLR.tie_hex_matches_closed (cmpIdent O) (cmpIdent_agrees O));
        [| exact Fy | exact (nvm_fits t _ St Et)].
      cbn [G.constraint_operator G.constraint_version]. rewrite abs_conc.
      rewrite (self_cmp v t _ _ Ay Ec). reflexivity.
    - cbn [forallb]. rewrite andb_true_r.
      rewrite (TLR.tie_hex_matches_closed (cmpIdent O) (cmpIdent_agrees O));
        [| exact Fy | unfold fits; cbn; lia].
      cbn [G.constraint_operator G.constraint_version].
      change (TV.abs (G.mk_Version (RM.synth_text ma mi) ma mi 0 [] [])) with (RM.synth_core ma mi).
      destruct ((0 <=? ma) && (0 <=? mi)) eqn:NN.
      + apply andb_prop in NN as [N1 N2]. apply Z.leb_le in N1. apply Z.leb_le in N2.
        rewrite (self_cmp v (RM.synth_text ma mi) _ _ Ay (synth_parse ma mi ltac:(lia) ltac:(lia))). reflexivity.
      + rewrite Ay. reflexivity.
  Qed.

  (* ---------- lib_ties ---------- *)

  Theorem hex_lib_ties_on :
    lib_ties_on G.Version G.VersionRange Name NV NVR Contains Compare G.Version_String
                (Top.model_lib $"hex") short.
  Proof.
    rewrite (model_lib_of _ _ eco_found). constructor; cbn [l_name l_vok l_rok l_vcmp l_vshow l_rcontains].
    - reflexivity.
    - intros s Ds. rewrite (NV_eq s Ds), <- vok_self. unfold PR.vok. destruct (nvm s); reflexivity.
    - intros s Ds. rewrite (NVR_eq s Ds).
      change (r_show (e_r e) (self_vok e) s) with (option_map RM.show (RM.parse_range (self_vok e) s)).
      rewrite (parse_range_ext (self_vok e) (PR.vok nvm)) by (intros t; symmetry; apply vok_self).
      destruct (RM.parse_range (PR.vok nvm) s); reflexivity.
    - intros a b x y Da Db Ea Eb. rewrite (NV_eq a Da) in Ea. rewrite (NV_eq b Db) in Eb.
      rewrite (self_cmp a b _ _ (nvm_abs a x Ea) (nvm_abs b y Eb)).
      apply (TL.tie_hex_compare_closed (cmpIdent O) (cmpIdent_agrees O));
        [exact (nvm_fits a x Da Ea) | exact (nvm_fits b y Db Eb)].
    - intros a x Da Ea. rewrite (NV_eq a Da) in Ea. pose proof (nvm_abs a x Ea) as Aa.
      unfold e, Verif.Eco.Hex.Entry.entry, Verif.Eco.Hex.Entry.v, mk_vops, v_show, e_v, VLayer.parse.
      rewrite Aa. unfold nvm in Ea. destruct (M.parse_core (trim_space a)); [|discriminate].
      injection Ea as <-. reflexivity.
    - intros r v x y Dr Dv Er Ev. rewrite (NVR_eq r Dr) in Er. rewrite (NV_eq v Dv) in Ev.
      change (r_contains (e_r e) (self_vok e) (self_vcmp e) r v)
        with (match RM.parse_range (self_vok e) r with
              | Some x => if self_vok e v then Some (RM.contains (self_vcmp e) x v) else None
              | None => None
              end).
      rewrite (parse_range_ext (self_vok e) (PR.vok nvm)) by (intros t; symmetry; apply vok_self).
      destruct (RM.parse_range (PR.vok nvm) r) as [rg|] eqn:PRg; [|discriminate].
      injection Er as <-. rewrite <- vok_self. unfold PR.vok at 1. rewrite Ev.
      unfold PR.conc, RM.contains.
      apply (contains_tie (length r)); [exact Dv | exact Ev | apply short_lt; exact Dr |].
      refine (parse_range_wf (PR.vok nvm) _ r rg PRg).
      intros t Ht. rewrite vok_self in Ht. apply self_core. exact Ht.
  Qed.

  (* the record of Tie/Cli/Common.v, for the bundle guarded by the length bound *)
  Corollary hex_lib_ties :
    lib_ties G.Version G.VersionRange Name (guard short NV) (guard short NVR) Contains Compare
             G.Version_String (restrict (Top.model_lib $"hex") short).
  Proof. apply lib_ties_guard, hex_lib_ties_on. Qed.

  Theorem hex_name_ok : Name = $"hex".
  Proof. reflexivity. Qed.

  Theorem hex_model_tpo :
    TotalPreorderOn (fun s => l_vok (Top.model_lib $"hex") s = true) (l_vcmp (Top.model_lib $"hex")).
  Proof. apply (model_lib_tpo _ _ _ _ _ _ eco_found MF.cmp_core_tp). Qed.

  (* ---------- the CLI ---------- *)

  Variable sort_by : forall A : Type, (A -> A -> Z) -> list A -> list A.
  Variable e1 e2 e3 : list bytes -> bytes.

  Definition runEcosystem : nat -> list bytes -> res (bytes * Z) :=
    CmdCore.runEcosystem G.Version G.VersionRange Name NV NVR Contains Compare G.Version_String sort_by e1 e2 e3.

  Local Notation L := (Top.model_lib $"hex").
  Local Notation accepted := (fun s : bytes => l_vok L s = true).

  (* `univers hex <args>` as computed by the source-derived code is the CLI model's outcome *)
  Theorem hex_runEcosystem_e2e (fuel : nat) (args : list bytes) :
    sort_ok G.Version NV Compare sort_by accepted ->
    fits args -> (length args < fuel)%nat -> Forall (fun a => short a = true) args ->
    (forall rest, args = $"sort" :: rest -> Forall accepted rest -> show_respects L rest) ->
    exists r, runEcosystem fuel args = Done r /\ shown (run_ecosystem L args) r.
  Proof.
    apply (eco_runEcosystem_e2e _ _ _ _ _ _ _ _ ($"hex" : bytes) hex_lib_ties_on hex_model_tpo).
  Qed.

  Corollary hex_cli_e2e (fuel : nat) (args : list bytes) :
    sort_ok G.Version NV Compare sort_by accepted ->
    fits args -> (length args < fuel)%nat -> Forall (fun a => short a = true) args ->
    (forall rest, args = $"sort" :: rest -> Forall accepted rest -> show_respects L rest) ->
    exists r, runEcosystem fuel args = Done r /\ shown (Top.model_cli (($"hex" : bytes) :: args)) r.
  Proof.
    apply (eco_cli_e2e _ _ _ _ _ _ _ _ ($"hex" : bytes) hex_lib_ties_on hex_model_tpo eq_refl eq_refl).
  Qed.

  (* the exit status: no hypothesis on the order, the sort oracle only has to return a permutation *)
  Theorem hex_cli_e2e_exit (fuel : nat) (args : list bytes) :
    (forall l, Permutation (sort_by G.Version Compare l) l) ->
    fits args -> (length args < fuel)%nat -> Forall (fun a => short a = true) args ->
    exists r, runEcosystem fuel args = Done r /\ snd r = exit_code (Top.model_cli (($"hex" : bytes) :: args)).
  Proof.
    apply (eco_cli_e2e_exit _ _ _ _ _ _ _ _ ($"hex" : bytes) hex_lib_ties_on eq_refl eq_refl).
  Qed.
End E2E.

Print Assumptions hex_lib_ties_on.
Print Assumptions hex_lib_ties.
Print Assumptions hex_name_ok.
Print Assumptions hex_model_tpo.
Print Assumptions hex_runEcosystem_e2e.
Print Assumptions hex_cli_e2e.
Print Assumptions hex_cli_e2e_exit.
Print Assumptions abs_conc.
Print Assumptions take_while_length_le.
Print Assumptions digits_dot_length.
Print Assumptions build_tail_length.
Print Assumptions sem_tail_length.
Print Assumptions parse_core_pre_le.
Print Assumptions wrap64_range.
Print Assumptions synth_parse.
Print Assumptions parse_constraint_ext.
Print Assumptions parse_range_ext.
Print Assumptions pess_upper_range.
Print Assumptions parse_constraint_wf.
Print Assumptions parse_constraints_wf.
Print Assumptions parse_range_wf.
Print Assumptions NV_computes.
Print Assumptions NV_eq.
Print Assumptions nvm_core.
Print Assumptions nvm_abs.
Print Assumptions nvm_fits.
Print Assumptions NVR_eq.
Print Assumptions eco_found.
Print Assumptions vok_self.
Print Assumptions self_core.
Print Assumptions self_cmp.
Print Assumptions contains_tie.
