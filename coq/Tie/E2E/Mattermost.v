(* Tie/E2E/Mattermost.v — END TO END for mattermost: the bundle of the CLI section (Gen/Parse/CmdCore.v)
   built out of the functions generated from pkg/ecosystem/mattermost, tied to [Top.model_lib $"mattermost"].

     Name             Gen.Code.Mattermost.Ecosystem_Name                  (loop-free)
     NewVersion       Gen.Parse.Mattermost.Ecosystem_NewVersion at the regexp oracle, made total
     NewVersionRange  Gen.Parse.Mattermost.Ecosystem_NewVersionRange, fuel length s + 2, made total
     Compare, String, Contains   Gen.Code.Mattermost.*                     (loop-free)

   Tie/Parse/Mattermost.v has the no-panic theorem of NewVersion only; the tie to the model's parser
   ([tie_parse_mattermost_newversion], under the agreement of the version-pattern oracle with the scanner
   [ref_match]) is proved HERE.  Hypotheses: the two regexp-oracle agreements ([oracles]).
   [mattermost_lib_ties_on]: all six fields of [lib_ties] on the texts of length < 2^63 - 64 ([short]);
   [mattermost_lib_ties]: the record itself for the guarded bundle; [mattermost_runEcosystem_e2e],
   [mattermost_cli_e2e]: the generated runEcosystem at this bundle against the CLI model. *)
From Coq Require Import ZArith List Ascii Bool Lia Permutation Sorted.
From Verif.Base Require Import Bytes GoNum Ord Sorting Imp ImpFacts ImpErr ImpCore BytesFacts.
From Verif.Cli Require Import Model.
From Verif.Eco Require Import RangeCore Iface VLayer.
From Verif.Eco.Mattermost Require Version VersionFacts Range Entry.
From Verif.Gen.Code Require Mattermost.
From Verif.Gen.Parse Require Mattermost CmdCore.
From Verif.Tie Require Import Tactics.
From Verif.Tie Require Mattermost MattermostRange.
From Verif.Tie.Loops Require Import Common.
From Verif.Tie.Parse Require Import Common RangeTie RangeOptTie.
From Verif.Tie.Parse Require Mattermost MattermostRange.
From Verif.Tie.Cli Require Import Common Spec Ties.
From Verif.Tie.E2E Require Import Common.
From Verif Require Top.
Import ListNotations.
Local Open Scope Z_scope.

Module G := Verif.Gen.Code.Mattermost.
Module P := Verif.Gen.Parse.Mattermost.
Module M := Verif.Eco.Mattermost.Version.
Module RM := Verif.Eco.Mattermost.Range.
Module TV := Verif.Tie.Mattermost.
Module TR := Verif.Tie.MattermostRange.
Module PV := Verif.Tie.Parse.Mattermost.
Module PR := Verif.Tie.Parse.MattermostRange.

(* ---------- NewVersion against the model's parser (missing in Tie/Parse/Mattermost.v) ---------- *)

(* what mattermostVersionPattern ^(v)?(0|[1-9]\d* )\.(0|[1-9]\d* )\.(0|[1-9]\d* )(?:-(esr|rc)(\d* ))?$ returns on the
   trimmed text, with the scanners of the model: [whole; v; major; minor; patch; qualifier; digits] *)
Definition ref_match (t : bytes) : option (list bytes) :=
  let (pfx, t0) := match strip_prefix $"v" t with Some r => ($"v", r) | None => ([], t) end in
  let (d1, r1) := span is_digit t0 in
  match r1 with
  | c1 :: r1' =>
    if ceqb c1 "."%char then
      let (d2, r2) := span is_digit r1' in
      match r2 with
      | c2 :: r2' =>
        if ceqb c2 "."%char then
          let (d3, r3) := span is_digit r2' in
          if M.num_ok d1 && M.num_ok d2 && M.num_ok d3 then
            match M.parse_tail r3 with
            | Some (q, d) => Some [t; pfx; d1; d2; d3; q; d]
            | None => None
            end
          else None
        else None
      | [] => None
      end
    else None
  | [] => None
  end.

Definition conc (s : bytes) (c : M.core) : G.Version :=
  G.mk_Version s (M.prefix c) (M.major c) (M.minor c) (M.patch c) (M.qualifier c) (M.number c).

Lemma abs_conc s c : TV.abs (conc s c) = c.
Proof. destruct c; reflexivity. Qed.

Lemma take_while_forallb p (s : bytes) : forallb p (take_while p s) = true.
Proof.
  induction s as [|c s IH]; cbn; [reflexivity|]. destruct (p c) eqn:E; cbn; [rewrite E; exact IH | reflexivity].
Qed.

Lemma atoi_digits_run (d : bytes) : d <> [] -> forallb is_digit d = true -> atoi d = M.atoi_digits d.
Proof.
  intros N A. destruct d as [|c r]; [congruence|].
  assert (ND : nonempty_digits (c :: r) = true) by exact A.
  unfold atoi, M.atoi_digits.
  cbn [forallb] in A. apply andb_prop in A as [Dc _].
  assert (ceqb c "-"%char = false /\ ceqb c "+"%char = false) as [E1 E2].
  { unfold is_digit, in_range in Dc. unfold ceqb. apply andb_prop in Dc as [D1 D2].
    apply N.leb_le in D1. split; apply N.eqb_neq; intros X; rewrite X in D1; vm_compute in D1; congruence. }
  rewrite E1, E2. cbv zeta. rewrite ND. cbn [andb]. reflexivity.
Qed.

Lemma num_ok_ne d : M.num_ok d = true -> d <> [].
Proof. destruct d; [discriminate | discriminate]. Qed.

Lemma parse_tail_digits rest q d : M.parse_tail rest = Some (q, d) -> forallb is_digit d = true.
Proof.
  unfold M.parse_tail. destruct rest as [|c r]; [intros H; injection H as <- <-; reflexivity|].
  destruct (strip_prefix $"-esr" (c :: r)) as [d'|].
  - destruct (all_digits d') eqn:A; [|discriminate]. intros H. injection H as <- <-. exact A.
  - destruct (strip_prefix $"-rc" (c :: r)) as [d'|]; [|discriminate].
    destruct (all_digits d') eqn:A; [|discriminate]. intros H. injection H as <- <-. exact A.
Qed.

Lemma to_lower_nil : to_lower [] = [].
Proof. reflexivity. Qed.

Section NewVersionTie.
  Variable find : bytes -> option (list bytes).
  Hypothesis find_agrees : forall t, find t = ref_match t.

  Theorem tie_parse_mattermost_newversion : forall e s,
    P.Ecosystem_NewVersion find e s =
    Done (option_map (conc (trim_space s)) (M.parse_core (trim_space s))).
  Proof.
    intros e s. unfold P.Ecosystem_NewVersion.
    destruct (beq s []) eqn:E0.
    { apply beq_eq in E0. subst s. reflexivity. }
    cbv zeta. destruct (beq (trim_space s) []) eqn:E1.
    { apply beq_eq in E1. rewrite E1. reflexivity. }
    rewrite find_agrees. set (t := trim_space s). clearbody t. clear E0 E1 s.
    unfold ref_match, M.parse_core.
    destruct (match strip_prefix $"v" t with Some r => ($"v", r) | None => ([], t) end) as [pfx t0].
    unfold span.
    pose proof (take_while_forallb is_digit t0) as A1.
    set (d1 := take_while is_digit t0) in *.
    destruct (drop_while is_digit t0) as [|c1 r1]; [reflexivity|].
    destruct (ceqb c1 "."%char); [|reflexivity].
    pose proof (take_while_forallb is_digit r1) as A2.
    set (d2 := take_while is_digit r1) in *.
    destruct (drop_while is_digit r1) as [|c2 r2]; [reflexivity|].
    destruct (ceqb c2 "."%char); [|reflexivity].
    pose proof (take_while_forallb is_digit r2) as A3.
    set (d3 := take_while is_digit r2) in *.
    destruct (M.num_ok d1) eqn:N1; [|reflexivity].
    destruct (M.num_ok d2) eqn:N2; [|reflexivity].
    destruct (M.num_ok d3) eqn:N3; [|reflexivity].
    cbn [andb].
    destruct (M.parse_tail (drop_while is_digit r2)) as [[q d]|] eqn:PT; [|reflexivity].
    pose proof (parse_tail_digits _ _ _ PT) as Ad.
    apply num_ok_ne in N1. apply num_ok_ne in N2. apply num_ok_ne in N3.
    clearbody d1 d2 d3. clear PT.
    Local Opaque atoi to_lower M.atoi_digits.
    cbn [bind]. unfold P.parseSemanticVersion.
    repeat (erewrite idx_known by reflexivity; cbn [bind]).
    rewrite !atoi_digits_run by assumption.
    destruct (M.atoi_digits d1) as [ma|]; [|reflexivity].
    destruct (M.atoi_digits d2) as [mi|]; [|reflexivity].
    destruct (M.atoi_digits d3) as [pa|]; [|reflexivity].
    destruct q as [|x q].
    { change (negb (beq [] [])) with false. cbv iota. cbn [bind]. rewrite to_lower_nil.
      destruct d; reflexivity. }
    change (negb (beq (x :: q) [])) with true. cbv iota.
    destruct d as [|y d].
    { reflexivity. }
    change (negb (beq (y :: d) [])) with true. cbv iota.
    rewrite atoi_digits_run by (assumption || discriminate).
    destruct (M.atoi_digits (y :: d)) as [n|]; reflexivity.
  Qed.
End NewVersionTie.
Print Assumptions tie_parse_mattermost_newversion.

(* the regexp oracles and what is assumed of them *)
Record oracles : Type := {
  find : bytes -> option (list bytes);     (* mattermostVersionPattern.FindStringSubmatch *)
  cfind : bytes -> option (list bytes);    (* constraintPattern.FindStringSubmatch *)
  find_agrees : forall t, find t = ref_match t;
  cfind_agrees : forall t, no_space t = true -> cfind t = ref_cmatch RM.mattermost_ops t
}.

Section E2E.
  Variable O : oracles.

  (* ---------- the concrete bundle ---------- *)
  Definition Name : bytes := G.Ecosystem_Name G.mk_Ecosystem.
  Definition NV (s : bytes) : option G.Version :=
    total None (P.Ecosystem_NewVersion (find O) G.mk_Ecosystem s).
  Definition NVR (s : bytes) : option G.VersionRange :=
    total None (P.Ecosystem_NewVersionRange (cfind O) (find O) (S (S (length s))) G.mk_Ecosystem s).

  Lemma NV_eq s : NV s = option_map (conc (trim_space s)) (M.parse_core (trim_space s)).
  Proof. unfold NV. rewrite (tie_parse_mattermost_newversion (find O) (find_agrees O)). reflexivity. Qed.

  Lemma NV_computes e v : P.Ecosystem_NewVersion (find O) e v = Done (NV v).
  Proof. rewrite NV_eq. apply (tie_parse_mattermost_newversion (find O) (find_agrees O)). Qed.

  Lemma NVR_eq s : short s = true ->
    NVR s = option_map (fun rg => G.mk_VersionRange (r_orig rg) (conc_cs NV G.mk_constraint (r_cs rg)))
                       (parse_range G.Version NV RM.cfg s).
  Proof.
    intros Hs. apply short_lt in Hs. unfold NVR.
    rewrite (PR.tie_parse_mattermost_newversionrange (cfind O) (find O) (cfind_agrees O) NV NV_computes)
      by lia.
    reflexivity.
  Qed.

  Lemma Contains_eq o cs y :
    G.VersionRange_Contains (G.mk_VersionRange o cs) y =
    forallb (fun g => sat (rc_sem RM.cfg (G.constraint_operator g))
                          (cmp_of_Z (G.Version_Compare y (G.constraint_version g)))) cs.
  Proof.
    unfold G.VersionRange_Contains. cbn [G.VersionRange_constraints].
    apply forallb_ext_in. intros c _. apply TR.tie_mattermost_matches.
  Qed.

  Lemma eco_found :
    Top.eco_or_none $"mattermost" =
    Some {| e_name := $"mattermost"; e_v := mk_vops M.parse_core M.cmp_core M.raw_orig;
            e_r := mk_simple_rops RM.cfg |}.
  Proof. reflexivity. Qed.

  (* ---------- lib_ties ---------- *)

  Theorem mattermost_lib_ties_on :
    lib_ties_on G.Version G.VersionRange Name NV NVR G.VersionRange_Contains G.Version_Compare
                G.Version_String (Top.model_lib $"mattermost") short.
  Proof.
    apply (simple_lib_ties_on M.core M.parse_core M.cmp_core M.raw_orig RM.cfg $"mattermost" eco_found eq_refl
             G.Version G.constraint G.VersionRange Name NV NVR G.VersionRange_Contains G.Version_Compare
             G.Version_String G.mk_constraint G.mk_VersionRange G.constraint_operator G.constraint_version
             TV.abs short).
    - reflexivity.
    - intros s _. rewrite NV_eq. destruct (M.parse_core (trim_space s)) as [c|]; [|reflexivity].
      cbn [option_map]. rewrite abs_conc. reflexivity.
    - intros a b x y _ _ _ _. apply TV.tie_mattermost_compare.
    - intros a x _ E. rewrite NV_eq in E. destruct (M.parse_core (trim_space a)); [|discriminate].
      injection E as <-. reflexivity.
    - exact NVR_eq.
    - exact Contains_eq.
    - reflexivity.
    - reflexivity.
    - apply split_le_short. exact split_fields_le.
  Qed.

  (* the record of Tie/Cli/Common.v, for the bundle guarded by the length bound *)
  Corollary mattermost_lib_ties :
    lib_ties G.Version G.VersionRange Name (guard short NV) (guard short NVR) G.VersionRange_Contains
             G.Version_Compare G.Version_String (restrict (Top.model_lib $"mattermost") short).
  Proof. apply lib_ties_guard, mattermost_lib_ties_on. Qed.

  Theorem mattermost_name_ok : Name = $"mattermost".
  Proof. reflexivity. Qed.

  Theorem mattermost_model_tpo :
    TotalPreorderOn (fun s => l_vok (Top.model_lib $"mattermost") s = true) (l_vcmp (Top.model_lib $"mattermost")).
  Proof. apply (model_lib_tpo _ _ _ _ _ _ eco_found), Verif.Eco.Mattermost.VersionFacts.cmp_core_tp. Qed.

  (* ---------- the CLI ---------- *)

  Variable sort_by : forall A : Type, (A -> A -> Z) -> list A -> list A.
  Variable e1 e2 e3 : list bytes -> bytes.

  Definition runEcosystem : nat -> list bytes -> res (bytes * Z) :=
    CmdCore.runEcosystem G.Version G.VersionRange Name NV NVR G.VersionRange_Contains G.Version_Compare
                         G.Version_String sort_by e1 e2 e3.

  Local Notation L := (Top.model_lib $"mattermost").
  Local Notation accepted := (fun s : bytes => l_vok L s = true).

  (* `univers mattermost <args>` as computed by the source-derived code is the CLI model's outcome *)
  Theorem mattermost_runEcosystem_e2e (fuel : nat) (args : list bytes) :
    sort_ok G.Version NV G.Version_Compare sort_by accepted ->
    fits args -> (length args < fuel)%nat -> Forall (fun a => short a = true) args ->
    (forall rest, args = $"sort" :: rest -> Forall accepted rest -> show_respects L rest) ->
    exists r, runEcosystem fuel args = Done r /\ shown (run_ecosystem L args) r.
  Proof.
    intros SO F Hf FD SR.
    apply (runEcosystem_e2e G.Version G.VersionRange Name NV NVR G.VersionRange_Contains G.Version_Compare
             G.Version_String sort_by e1 e2 e3 L short accepted mattermost_lib_ties_on SO mattermost_model_tpo
             fuel args F Hf FD).
    intros rest E OK. split; [exact OK | exact (SR rest E OK)].
  Qed.

  Corollary mattermost_cli_e2e (fuel : nat) (args : list bytes) :
    sort_ok G.Version NV G.Version_Compare sort_by accepted ->
    fits args -> (length args < fuel)%nat -> Forall (fun a => short a = true) args ->
    (forall rest, args = $"sort" :: rest -> Forall accepted rest -> show_respects L rest) ->
    exists r, runEcosystem fuel args = Done r /\ shown (Top.model_cli (($"mattermost" : bytes) :: args)) r.
  Proof.
    intros SO F Hf FD SR.
    destruct (mattermost_runEcosystem_e2e fuel args SO F Hf FD SR) as (r & E1 & E2).
    exists r. split; [exact E1|].
    rewrite (model_cli_eco ($"mattermost" : bytes) args eq_refl eq_refl). exact E2.
  Qed.

  (* the exit status: no hypothesis on the order, the sort oracle only has to return a permutation *)
  Theorem mattermost_cli_e2e_exit (fuel : nat) (args : list bytes) :
    (forall l, Permutation (sort_by G.Version G.Version_Compare l) l) ->
    fits args -> (length args < fuel)%nat -> Forall (fun a => short a = true) args ->
    exists r, runEcosystem fuel args = Done r /\ snd r = exit_code (Top.model_cli (($"mattermost" : bytes) :: args)).
  Proof.
    intros SP F Hf FD.
    destruct (runEcosystem_e2e_exit G.Version G.VersionRange Name NV NVR G.VersionRange_Contains
                G.Version_Compare G.Version_String sort_by e1 e2 e3 L short mattermost_lib_ties_on fuel args SP F Hf FD)
      as (r & E1 & E2).
    exists r. split; [exact E1|].
    rewrite (model_cli_eco ($"mattermost" : bytes) args eq_refl eq_refl). exact E2.
  Qed.
End E2E.

Print Assumptions mattermost_lib_ties_on.
Print Assumptions mattermost_lib_ties.
Print Assumptions mattermost_name_ok.
Print Assumptions mattermost_model_tpo.
Print Assumptions mattermost_runEcosystem_e2e.
Print Assumptions mattermost_cli_e2e.
Print Assumptions mattermost_cli_e2e_exit.
Print Assumptions abs_conc.
Print Assumptions take_while_forallb.
Print Assumptions atoi_digits_run.
Print Assumptions num_ok_ne.
Print Assumptions parse_tail_digits.
Print Assumptions to_lower_nil.
Print Assumptions NV_eq.
Print Assumptions NV_computes.
Print Assumptions NVR_eq.
Print Assumptions Contains_eq.
Print Assumptions eco_found.
