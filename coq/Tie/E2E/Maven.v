(* Tie/E2E/Maven.v — END TO END for maven: the bundle of the CLI section (Gen/Parse/CmdCore.v) built out
   of the functions generated from pkg/ecosystem/maven, tied to [Top.model_lib $"maven"].

     Name             Gen.Code.Maven.Ecosystem_Name
     NewVersion       Gen.Parse.Maven.Ecosystem_NewVersion at the oracles unicode.IsDigit and parseVersionString
                      (NOT translated), fuel length s + 10, made total
     NewVersionRange  Gen.Parse.Maven.Ecosystem_NewVersionRange (a PURE function of the translation) at the
                      oracle parseVersionRange (NOT translated: regexp.MustCompile in its body)
     Compare          the oracle [compare] (Version.Compare and compareElements are NOT translated: the field
                      element.value has type interface{} and is omitted from the generated record)
     String           Gen.Code.Maven.Version_String
     Contains         Gen.Code.Maven.VersionRange_Contains at the oracle [compare]

   The generated record Gen.Code.Maven.element keeps isNumber only, so a generated Version does not carry
   the values of its elements and there is no function from it to the model's core.  The agreement
   hypothesis for Compare is therefore stated through the ORIGINAL text of the two values (every value made
   by NewVersion has the elements of its trimmed original).

   Hypotheses ([oracles]) and the fields of [lib_ties_on] that depend on them:
     isdigit_agrees            forall c, isdigit (byte_z c) = is_digit c
                               (stated for EVERY byte, not only ASCII ones: the domain [short] has no ASCII
                               restriction; true of unicode.IsDigit on U+0000..U+00FF, no Nd there but 0-9)
     compare_agrees            forall x y cx cy, parse_core (trim (original x)) = Some cx ->
                               parse_core (trim (original y)) = Some cy -> compare x y = Z_of_cmp (cmp_core cx cy)
     parseVersionRange_agrees  forall t e, parseVersionRange t e =
                               option_map (map (cc parseVersionString)) (RM.parseVersionRange mvok t)
                               (the shape of Tie/Parse/MavenRange.v at vok := the model's acceptance and
                                cc := the Go constraint of a model constraint)
     parseVersionString        no hypothesis
   name: none.  vok: isdigit_agrees.  rok: parseVersionRange_agrees.  cmp: isdigit_agrees, compare_agrees.
   show: isdigit_agrees.  contains: isdigit_agrees, parseVersionRange_agrees, compare_agrees.

   [maven_lib_ties_on]: all six fields on the texts of length < 2^63 - 64.
   The model's cmp_core is NOT a total preorder on the accepted texts (Eco/Maven/VersionFacts.cmp_core_not_tp:
   1-foo < 1.5 < 1-sp < 1-foo), so [maven_model_tpo], and with it the `sort` part of the CLI statements, is
   stated on the accepted texts WITHOUT an unknown qualifier ([tame]); [maven_cli_e2e_exit] (exit status)
   has no such restriction. *)
From Coq Require Import ZArith List Ascii Bool Lia Permutation Sorted.
From Verif.Base Require Import Bytes GoNum GoOps Ord Sorting Imp ImpFacts ImpErr ImpCore BytesFacts.
From Verif.Cli Require Import Model.
From Verif.Eco Require Import RangeCore Iface VLayer.
From Verif.Eco.Maven Require Version VersionFacts Range Entry.
From Verif.Gen.Code Require Maven.
From Verif.Gen.Parse Require Maven CmdCore.
From Verif.Tie Require Import Tactics.
From Verif.Tie Require MavenRange.
From Verif.Tie.Loops Require Import Common.
From Verif.Tie.Parse Require Import Common Scanners.
From Verif.Tie.Parse Require Maven MavenRange.
From Verif.Tie.Cli Require Import Common Spec Ties.
From Verif.Tie.E2E Require Import Common.
From Verif.Properties.Support Require Import SimpleRops.
From Verif Require Top.
Import ListNotations.
Local Open Scope Z_scope.

Module G := Verif.Gen.Code.Maven.
Module P := Verif.Gen.Parse.Maven.
Module M := Verif.Eco.Maven.Version.
Module MF := Verif.Eco.Maven.VersionFacts.
Module RM := Verif.Eco.Maven.Range.
Module TR := Verif.Tie.MavenRange.
Module PV := Verif.Tie.Parse.Maven.
Module PR := Verif.Tie.Parse.MavenRange.

(* ---------- NewVersion against the model on every text (Tie/Parse/Maven.v: ASCII texts only) ---------- *)

Section NewVersion.
  Variable isdigit : Z -> bool.                          (* unicode.IsDigit *)
  Variable parseVersionString : bytes -> list G.element. (* outside the fragment *)
  Hypothesis isdigit_agrees : forall c, isdigit (byte_z c) = is_digit c.

  Local Opaque trim_space beq wrap64 to_lower contains_sub.

  Lemma isValid_all : forall fuel t,
    fits t -> (length t < fuel)%nat -> (9 < fuel)%nat ->
    P.isValidMavenVersion isdigit fuel t = Done (M.valid t).
  Proof.
    intros fuel t F Hf H9. unfold P.isValidMavenVersion. cbv zeta.
    match goal with |- bind (while fuel ?b _) _ = _ =>
      destruct (existsb_loop fuel b t "000"%char (fun c => isdigit (byte_z c))) as [k1 E1];
        [intros k h; reflexivity | exact F | exact Hf |]
    end.
    rewrite E1. cbn [bind]. clear E1.
    match goal with |- bind (while fuel ?b _) _ = _ =>
      destruct (existsb_loop fuel b M.knownQualifiers [] (fun q => contains_sub q (to_lower t))) as [k2 E2];
        [intros k h; reflexivity | unfold fits; cbn; lia | cbn; lia |]
    end.
    rewrite E2. cbn [bind]. clear E2.
    rewrite (existsb_agree (fun _ => true) (fun c => isdigit (byte_z c)) is_digit t
               (fun c _ => isdigit_agrees c)) by (apply forallb_forall; reflexivity).
    unfold M.valid, M.single_letter. cbv zeta. f_equal.
    set (a := existsb is_digit t). set (b := existsb _ M.knownQualifiers).
    set (sl := beq t $"a" || beq t $"b" || beq t $"m").
    destruct sl eqn:SL.
    - assert (L1 : (Z.of_nat (length t) =? 1) = true).
      { subst sl. apply orb_prop in SL as [SL|SL]; [apply orb_prop in SL as [SL|SL]|];
          apply beq_eq in SL; subst t; reflexivity. }
      rewrite L1. destruct a, b; reflexivity.
    - rewrite andb_false_r. destruct a, b; reflexivity.
  Qed.

  Theorem newversion_all : forall e s fuel,
    fits s -> (length s + 9 < fuel)%nat ->
    P.Ecosystem_NewVersion isdigit parseVersionString fuel e s =
    Done (match M.parse_core (trim_space s) with
          | Some _ => Some (G.mk_Version s (parseVersionString (trim_space s)))
          | None => None
          end).
  Proof.
    intros e s fuel F Hf. unfold P.Ecosystem_NewVersion.
    destruct (beq s []) eqn:B0.
    { apply beq_eq in B0. subst s. reflexivity. }
    cbv zeta.
    pose proof (trim_space_length_le s) as TL.
    set (t := trim_space s) in *. clearbody t.
    destruct (beq t []) eqn:B1.
    { apply beq_eq in B1. subst t. reflexivity. }
    rewrite isValid_all; [| unfold fits in *; lia | lia | lia].
    cbn [bind]. unfold M.parse_core.
    destruct t as [|c t']; [rewrite beq_refl in B1; discriminate|].
    destruct (M.valid (c :: t')); reflexivity.
  Qed.
End NewVersion.
Print Assumptions isValid_all.
Print Assumptions newversion_all.

(* ---------- the Go values of the model's constraints ---------- *)

Definition op_lower (o : cop) : bool := match o with CGe | CGt => true | _ => false end.
Definition op_incl (o : cop) : bool := match o with CGe | CLe => true | _ => false end.
Definition op_bound (o : cop) : bool := match o with CGe | CGt | CLe | CLt => true | _ => false end.

(* what e.NewVersion(text) returns for an accepted bound text *)
Definition ver_of (pvs : bytes -> list G.element) (t : bytes) : G.Version := G.mk_Version t (pvs (trim_space t)).

Definition cc (pvs : bytes -> list G.element) (c : RM.constraint) : G.constraint :=
  G.mk_constraint (ver_of pvs (snd c)) (op_incl (fst c)) (op_lower (fst c)).

(* the model's acceptance of a version text *)
Definition mvok (t : bytes) : bool := is_some (M.parse_core (trim_space t)).

Lemma bound_op_cc pvs c : op_bound (fst c) = true -> TR.bound_op (cc pvs c) = fst c.
Proof. destruct c as [o t]. cbn [fst]. destruct o; try discriminate; reflexivity. Qed.

(* the range parser looks at the validity oracle pointwise *)
Lemma parseVersionRange_ext vok1 vok2 : (forall t, vok1 t = vok2 t) ->
  forall t, RM.parseVersionRange vok1 t = RM.parseVersionRange vok2 t.
Proof.
  intros H t. unfold RM.parseVersionRange. cbv zeta.
  destruct (RM.match_bracket t) as [m|].
  - destruct (RM.bm_g3 m) as [g3|]; rewrite ?H; reflexivity.
  - rewrite H. reflexivity.
Qed.

Lemma parse_range_ext vok1 vok2 : (forall t, vok1 t = vok2 t) ->
  forall s, RM.parse_range vok1 s = RM.parse_range vok2 s.
Proof.
  intros H s. unfold RM.parse_range. cbv zeta. rewrite (parseVersionRange_ext vok1 vok2 H). reflexivity.
Qed.

(* what the parser guarantees about the constraints of a parsed range *)
Definition c_wf (vok : bytes -> bool) (c : RM.constraint) : Prop :=
  op_bound (fst c) = true /\ vok (snd c) = true.

Lemma bound_op_ok a b : op_bound (RM.bound_op a b) = true.
Proof. destruct a, b; reflexivity. Qed.

Lemma parseVersionRange_wf vok t cs :
  RM.parseVersionRange vok t = Some cs -> Forall (c_wf vok) cs.
Proof.
  unfold RM.parseVersionRange. cbv zeta.
  assert (Ex : forall b, vok b = true -> Forall (c_wf vok) (RM.exact b)).
  { intros b Hb. unfold RM.exact. repeat constructor; exact Hb. }
  destruct (RM.match_bracket t) as [m|].
  - destruct (RM.bm_g3 m) as [g3|].
    + set (lo := trim_space (RM.bm_g1 m)). set (hi := trim_space g3).
      set (oplo := RM.bound_op true _). set (ophi := RM.bound_op false _).
      assert (Wlo : op_bound oplo = true) by apply bound_op_ok.
      assert (Whi : op_bound ophi = true) by apply bound_op_ok.
      clearbody lo hi oplo ophi.
      destruct lo as [|l0 lr], hi as [|h0 hr]; cbn [app andb].
      * discriminate.
      * destruct (vok (h0 :: hr)) eqn:V; [|discriminate]. intros E. injection E as <-.
        repeat constructor; assumption.
      * rewrite andb_true_r. destruct (vok (l0 :: lr)) eqn:V; [|discriminate]. intros E. injection E as <-.
        repeat constructor; assumption.
      * destruct (vok (l0 :: lr)) eqn:V1; [|discriminate]. destruct (vok (h0 :: hr)) eqn:V2; [|discriminate].
        cbn [andb]. intros E. injection E as <-. repeat constructor; assumption.
    + destruct (trim_space (RM.bm_g1 m)) as [|l0 lr]; [discriminate|].
      destruct (vok (l0 :: lr)) eqn:V; [|discriminate]. intros E. injection E as <-. apply Ex, V.
  - destruct (RM.has_bracket t); [discriminate|].
    destruct (vok t) eqn:V; [|discriminate]. intros E. injection E as <-. apply Ex, V.
Qed.

Lemma parse_range_wf vok s rg : RM.parse_range vok s = Some rg -> Forall (c_wf vok) (RM.r_cs rg).
Proof.
  unfold RM.parse_range. cbv zeta. destruct (trim_space s) as [|x t]; [discriminate|].
  destruct (RM.parseVersionRange vok (x :: t)) as [cs|] eqn:E; [|discriminate].
  intros H. injection H as <-. cbn [RM.r_cs]. exact (parseVersionRange_wf vok _ cs E).
Qed.

(* the oracles and what is assumed of them *)
Record oracles : Type := {
  isdigit : Z -> bool;                                                      (* unicode.IsDigit *)
  parseVersionString : bytes -> list G.element;                             (* not translated *)
  parseVersionRange : bytes -> G.Ecosystem -> option (list G.constraint);   (* not translated *)
  compare : G.Version -> G.Version -> Z;                                    (* Version.Compare, not translated *)
  isdigit_agrees : forall c, isdigit (byte_z c) = is_digit c;
  parseVersionRange_agrees : forall t e,
    parseVersionRange t e = option_map (map (cc parseVersionString)) (RM.parseVersionRange mvok t);
  compare_agrees : forall x y cx cy,
    M.parse_core (trim_space (G.Version_original x)) = Some cx ->
    M.parse_core (trim_space (G.Version_original y)) = Some cy ->
    compare x y = Z_of_cmp (M.cmp_core cx cy)
}.

Section E2E.
  Variable O : oracles.

  (* ---------- the concrete bundle ---------- *)
  Definition Name : bytes := G.Ecosystem_Name G.mk_Ecosystem.
  Definition Compare : G.Version -> G.Version -> Z := compare O.
  Definition NV (s : bytes) : option G.Version :=
    total None (P.Ecosystem_NewVersion (isdigit O) (parseVersionString O) (length s + 10) G.mk_Ecosystem s).
  Definition NVR (s : bytes) : option G.VersionRange :=
    P.Ecosystem_NewVersionRange (parseVersionRange O) G.mk_Ecosystem s.
  Definition Contains : G.VersionRange -> G.Version -> bool := G.VersionRange_Contains Compare.

  (* what NewVersion computes, as a function of the text *)
  Definition nvm (s : bytes) : option G.Version :=
    match M.parse_core (trim_space s) with
    | Some _ => Some (ver_of (parseVersionString O) s)
    | None => None
    end.

  Lemma NV_eq s : short s = true -> NV s = nvm s.
  Proof.
    intros Hs. pose proof (short_fits s Hs) as F. unfold NV.
    rewrite (newversion_all (isdigit O) (parseVersionString O) (isdigit_agrees O)) by (assumption || lia).
    reflexivity.
  Qed.

  Lemma nvm_core t v : nvm t = Some v ->
    G.Version_original v = t /\ exists c, M.parse_core (trim_space t) = Some c.
  Proof.
    unfold nvm. destruct (M.parse_core (trim_space t)) as [c|]; [|discriminate].
    intros H. injection H as <-. split; [reflexivity | exists c; reflexivity].
  Qed.

  Lemma NVR_eq s :
    NVR s = option_map (PR.conc (cc (parseVersionString O))) (RM.parse_range mvok s).
  Proof.
    unfold NVR. apply (PR.tie_parse_maven_newversionrange mvok (parseVersionRange O) _ (parseVersionRange_agrees O)).
  Qed.

  Definition e : eco := Verif.Eco.Maven.Entry.entry.

  Lemma eco_found : Top.eco_or_none $"maven" = Some e.
  Proof. reflexivity. Qed.

  Lemma vok_self t : mvok t = self_vok e t.
  Proof.
    unfold mvok, self_vok, e, Verif.Eco.Maven.Entry.entry, Verif.Eco.Maven.Entry.v, mk_vops, v_show, e_v, VLayer.parse.
    destruct (M.parse_core (trim_space t)); reflexivity.
  Qed.

  Lemma self_cmp a b ca cb : M.parse_core (trim_space a) = Some ca -> M.parse_core (trim_space b) = Some cb ->
    self_vcmp e a b = M.cmp_core ca cb.
  Proof. apply (self_vcmp_core M.core M.parse_core M.cmp_core M.raw_orig $"maven" Verif.Eco.Maven.Entry.r). Qed.

  (* ---------- Contains on a parsed range ---------- *)

  Lemma contains_tie v y cs :
    nvm v = Some y -> Forall (c_wf mvok) cs ->
    forallb (fun c => sat (TR.bound_op c) (cmp_of_Z (Compare y (G.constraint_version c))))
            (map (cc (parseVersionString O)) cs) =
    forallb (RM.sat_constraint (self_vcmp e) v) cs.
  Proof.
    intros Ev. destruct (nvm_core v y Ev) as (Oy & cy & Ey).
    induction 1 as [|c cs [Wop Wv] _ IH]; [reflexivity|]. cbn [map forallb]. rewrite IH. f_equal.
    rewrite (bound_op_cc _ c Wop). unfold RM.sat_constraint.
    unfold mvok in Wv. destruct (M.parse_core (trim_space (snd c))) as [cb|] eqn:Eb; [|discriminate].
    unfold Compare. rewrite (compare_agrees O y _ cy cb); [| rewrite Oy; exact Ey | exact Eb].
    rewrite cmp_of_Z_of_cmp, (self_cmp v (snd c) cy cb Ey Eb). reflexivity.
  Qed.

  (* ---------- lib_ties ---------- *)

  Theorem maven_lib_ties_on :
    lib_ties_on G.Version G.VersionRange Name NV NVR Contains Compare G.Version_String
                (Top.model_lib $"maven") short.
  Proof.
    rewrite (model_lib_of _ _ eco_found). constructor; cbn [l_name l_vok l_rok l_vcmp l_vshow l_rcontains].
    - reflexivity.
    - intros s Ds. rewrite (NV_eq s Ds), <- vok_self. unfold mvok, nvm.
      destruct (M.parse_core (trim_space s)); reflexivity.
    - intros s Ds. rewrite (NVR_eq s).
      change (r_show (e_r e) (self_vok e) s) with (option_map RM.show (RM.parse_range (self_vok e) s)).
      rewrite (parse_range_ext (self_vok e) mvok) by (intros t; symmetry; apply vok_self).
      destruct (RM.parse_range mvok s); reflexivity.
    - intros a b x y Da Db Ea Eb. rewrite (NV_eq a Da) in Ea. rewrite (NV_eq b Db) in Eb.
      destruct (nvm_core a x Ea) as (Oa & ca & Ca). destruct (nvm_core b y Eb) as (Ob & cb & Cb).
      rewrite (self_cmp a b ca cb Ca Cb). unfold Compare.
      apply (compare_agrees O); [rewrite Oa; exact Ca | rewrite Ob; exact Cb].
    - intros a x Da Ea. rewrite (NV_eq a Da) in Ea. destruct (nvm_core a x Ea) as (Oa & ca & Ca).
      unfold e, Verif.Eco.Maven.Entry.entry, Verif.Eco.Maven.Entry.v, mk_vops, v_show, e_v, VLayer.parse.
      rewrite Ca. unfold G.Version_String. rewrite Oa. reflexivity.
    - intros r v x y Dr Dv Er Ev. rewrite (NVR_eq r) in Er. rewrite (NV_eq v Dv) in Ev.
      change (r_contains (e_r e) (self_vok e) (self_vcmp e) r v)
        with (match RM.parse_range (self_vok e) r with
              | Some x => if self_vok e v then Some (RM.contains (self_vcmp e) x v) else None
              | None => None
              end).
      rewrite (parse_range_ext (self_vok e) mvok) by (intros t; symmetry; apply vok_self).
      destruct (RM.parse_range mvok r) as [rg|] eqn:PRg; [|discriminate].
      injection Er as <-. rewrite <- vok_self.
      destruct (nvm_core v y Ev) as (_ & cy & Cy). unfold mvok at 1. rewrite Cy. cbn [is_some].
      unfold Contains. rewrite TR.tie_maven_contains. unfold PR.conc, RM.contains.
      cbn [G.VersionRange_constraints].
      pose proof (parse_range_wf mvok r rg PRg) as W.
      destruct (RM.r_cs rg) as [|c cs] eqn:Ecs; [reflexivity|].
      change (map (cc (parseVersionString O)) (c :: cs))
        with (cc (parseVersionString O) c :: map (cc (parseVersionString O)) cs).
      exact (contains_tie v y (c :: cs) Ev W).
  Qed.

  (* the record of Tie/Cli/Common.v, for the bundle guarded by the length bound *)
  Corollary maven_lib_ties :
    lib_ties G.Version G.VersionRange Name (guard short NV) (guard short NVR) Contains Compare
             G.Version_String (restrict (Top.model_lib $"maven") short).
  Proof. apply lib_ties_guard, maven_lib_ties_on. Qed.

  Theorem maven_name_ok : Name = $"maven".
  Proof. reflexivity. Qed.

  (* the accepted texts on which the model's comparison is a total preorder: no unknown qualifier *)
  Definition tame (s : bytes) : bool :=
    match M.parse_core (trim_space s) with Some c => MF.no_unknown c | None => false end.

  Lemma tame_core s : tame s = true -> exists c, M.parse_core (trim_space s) = Some c /\ MF.no_unknown c = true.
  Proof. unfold tame. destruct (M.parse_core (trim_space s)) as [c|]; [eauto | discriminate]. Qed.

  Lemma tame_accepted s : tame s = true -> l_vok (Top.model_lib $"maven") s = true.
  Proof.
    intros H. apply tame_core in H as (c & Ec & _). rewrite (model_lib_of _ _ eco_found). cbn [l_vok].
    rewrite <- vok_self. unfold mvok. rewrite Ec. reflexivity.
  Qed.

  Theorem maven_model_tpo :
    TotalPreorderOn (fun s => tame s = true) (l_vcmp (Top.model_lib $"maven")).
  Proof.
    rewrite (model_lib_of _ _ eco_found). cbn [l_vcmp]. pose proof MF.cmp_core_tpo as T. constructor.
    - intros a Ha. apply tame_core in Ha as (ca & Ea & Wa). rewrite (self_cmp a a ca ca Ea Ea).
      apply (tpo_refl T). exact Wa.
    - intros a b Ha Hb. apply tame_core in Ha as (ca & Ea & Wa). apply tame_core in Hb as (cb & Eb & Wb).
      rewrite (self_cmp b a cb ca Eb Ea), (self_cmp a b ca cb Ea Eb). apply (tpo_anti T); assumption.
    - intros a b c x Ha Hb Hc. apply tame_core in Ha as (ca & Ea & Wa). apply tame_core in Hb as (cb & Eb & Wb).
      apply tame_core in Hc as (cc' & Ec & Wc).
      rewrite (self_cmp a b ca cb Ea Eb), (self_cmp b c cb cc' Eb Ec), (self_cmp a c ca cc' Ea Ec).
      apply (tpo_trans T); assumption.
    - intros a b c Ha Hb Hc. apply tame_core in Ha as (ca & Ea & Wa). apply tame_core in Hb as (cb & Eb & Wb).
      apply tame_core in Hc as (cc' & Ec & Wc).
      rewrite (self_cmp a b ca cb Ea Eb), (self_cmp b c cb cc' Eb Ec), (self_cmp a c ca cc' Ea Ec).
      apply (tpo_eq_l T); assumption.
  Qed.

  (* ---------- the CLI ---------- *)

  Variable sort_by : forall A : Type, (A -> A -> Z) -> list A -> list A.
  Variable e1 e2 e3 : list bytes -> bytes.

  Definition runEcosystem : nat -> list bytes -> res (bytes * Z) :=
    CmdCore.runEcosystem G.Version G.VersionRange Name NV NVR Contains Compare G.Version_String sort_by e1 e2 e3.

  Local Notation L := (Top.model_lib $"maven").
  Local Notation accepted := (fun s : bytes => l_vok L s = true).
  Local Notation tamed := (fun s : bytes => tame s = true).

  (* `univers maven <args>` as computed by the source-derived code is the CLI model's outcome; for `sort`
     the arguments, when all accepted, have to be tame (the model's order is not transitive otherwise) *)
  Theorem maven_runEcosystem_e2e (fuel : nat) (args : list bytes) :
    sort_ok G.Version NV Compare sort_by tamed ->
    fits args -> (length args < fuel)%nat -> Forall (fun a => short a = true) args ->
    (forall rest, args = $"sort" :: rest -> Forall accepted rest -> Forall tamed rest /\ show_respects L rest) ->
    exists r, runEcosystem fuel args = Done r /\ shown (run_ecosystem L args) r.
  Proof.
    intros SO F Hf FD SR.
    exact (runEcosystem_e2e G.Version G.VersionRange Name NV NVR Contains Compare G.Version_String sort_by
             e1 e2 e3 L short tamed maven_lib_ties_on SO maven_model_tpo fuel args F Hf FD SR).
  Qed.

  Corollary maven_cli_e2e (fuel : nat) (args : list bytes) :
    sort_ok G.Version NV Compare sort_by tamed ->
    fits args -> (length args < fuel)%nat -> Forall (fun a => short a = true) args ->
    (forall rest, args = $"sort" :: rest -> Forall accepted rest -> Forall tamed rest /\ show_respects L rest) ->
    exists r, runEcosystem fuel args = Done r /\ shown (Top.model_cli (($"maven" : bytes) :: args)) r.
  Proof.
    intros SO F Hf FD SR.
    destruct (maven_runEcosystem_e2e fuel args SO F Hf FD SR) as (r & E1 & E2).
    exists r. split; [exact E1|]. rewrite (model_cli_eco ($"maven" : bytes) args eq_refl eq_refl). exact E2.
  Qed.

  (* the exit status: no hypothesis on the order, the sort oracle only has to return a permutation *)
  Theorem maven_cli_e2e_exit (fuel : nat) (args : list bytes) :
    (forall l, Permutation (sort_by G.Version Compare l) l) ->
    fits args -> (length args < fuel)%nat -> Forall (fun a => short a = true) args ->
    exists r, runEcosystem fuel args = Done r /\ snd r = exit_code (Top.model_cli (($"maven" : bytes) :: args)).
  Proof.
    apply (eco_cli_e2e_exit _ _ _ _ _ _ _ _ ($"maven" : bytes) maven_lib_ties_on eq_refl eq_refl).
  Qed.
End E2E.

Print Assumptions maven_lib_ties_on.
Print Assumptions maven_lib_ties.
Print Assumptions maven_name_ok.
Print Assumptions maven_model_tpo.
Print Assumptions maven_runEcosystem_e2e.
Print Assumptions maven_cli_e2e.
Print Assumptions maven_cli_e2e_exit.
Print Assumptions bound_op_cc.
Print Assumptions parseVersionRange_ext.
Print Assumptions parse_range_ext.
Print Assumptions bound_op_ok.
Print Assumptions parseVersionRange_wf.
Print Assumptions parse_range_wf.
Print Assumptions NV_eq.
Print Assumptions nvm_core.
Print Assumptions NVR_eq.
Print Assumptions eco_found.
Print Assumptions vok_self.
Print Assumptions self_cmp.
Print Assumptions contains_tie.
Print Assumptions tame_core.
Print Assumptions tame_accepted.
