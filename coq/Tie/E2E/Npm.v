(* Tie/E2E/Npm.v — END TO END for npm, VERSION LEVEL: the version half of the bundle of the CLI section
   (Gen/Parse/CmdCore.v) built out of the functions generated from pkg/ecosystem/npm, tied to
   [Top.model_lib $"npm"].

     Name             Gen.Code.Npm.Ecosystem_Name
     NewVersion       Gen.Parse.Npm.Ecosystem_NewVersion at the regexp oracle (loop-free), made total
     Compare          Gen.Code.Npm.Version_Compare at Tie/Loops/Npm.comparePrerelease_total (the generated loop of
                      Gen/Loops/Npm.v) at the GENERATED parseNum (Gen/Parse/Npm.v) over strings.TrimLeft
     String           Gen.Code.Npm.Version_String

   Hypotheses ([oracles]): versionPattern.FindStringSubmatch agrees with the reference matcher of Tie/Parse/Npm.v;
   strings.TrimLeft(s, "0123456789") drops the leading digits.

   PROVED HERE, with no hypothesis about the range functions:
     [npm_version_lib_ties_on]  the fields name / vok / cmp / show of [lib_ties_on] on [short] (the two range
                                components are stand-ins read off the library record)
     [npm_compare_sort_e2e]     `univers npm compare a b` and `univers npm sort ...`: the generated runEcosystem at
                                a bundle with this NewVersion / Compare / String and ANY range parser and Contains
                                (in particular the generated NewVersionRange at any parseSingleConstraint oracle
                                and the generated VersionRange.Contains) is the CLI model's outcome.
   The range half ([rok], [contains]) is in Tie/E2E/NpmRange.v. *)
From Coq Require Import ZArith List Ascii Bool Lia Permutation Sorted.
From Verif.Base Require Import Bytes GoNum GoOps Ord Sorting Imp ImpFacts ImpErr ImpCore BytesFacts.
From Verif.Cli Require Import Model.
From Verif.Eco Require Import RangeCore Iface VLayer.
From Verif.Eco.Npm Require Version VersionFacts Range Entry.
From Verif.Gen.Code Require Npm.
From Verif.Gen.Loops Require Npm.
From Verif.Gen.Parse Require Npm CmdCore.
From Verif.Tie Require Import Tactics.
From Verif.Tie Require Npm.
From Verif.Tie.Loops Require Import Common Idents.
From Verif.Tie.Loops Require Npm.
From Verif.Tie.Parse Require Import Common RangeCommon.
From Verif.Tie.Parse Require Npm NpmRange.
From Verif.Tie.Cli Require Import Common Spec Ties.
From Verif.Properties.Support Require Import SimpleRops.
From Verif.Tie.E2E Require Import Common CommonK6.
From Verif Require Top.
Import ListNotations.
Local Open Scope Z_scope.

Module G := Verif.Gen.Code.Npm.
Module P := Verif.Gen.Parse.Npm.
Module M := Verif.Eco.Npm.Version.
Module MF := Verif.Eco.Npm.VersionFacts.
Module RM := Verif.Eco.Npm.Range.
Module TV := Verif.Tie.Npm.
Module PV := Verif.Tie.Parse.Npm.
Module TL := Verif.Tie.Loops.Npm.

Ltac blia := unfold bytes in *; lia.

(* ---------- lengths ---------- *)

Lemma take_while_le p (s : bytes) : (length (take_while p s) <= length s)%nat.
Proof. induction s as [|c s IH]; cbn [take_while length]; [lia|]. destruct (p c); cbn [length]; lia. Qed.

Lemma num_dot_rest_le s d r : M.num_dot s = Some (d, r) -> (length r <= length s)%nat.
Proof.
  unfold M.num_dot. pose proof (drop_while_length_le is_digit s) as L.
  destruct (take_while is_digit s); [discriminate|].
  destruct (drop_while is_digit s) as [|c r']; [discriminate|].
  destruct (ceqb c "."%char); [|discriminate]. intros H; injection H as <- <-. cbn [length] in L. lia.
Qed.

Lemma parse_tail_pre_le r pre bld : M.parse_tail r = Some (pre, bld) -> (length pre <= length r)%nat.
Proof.
  unfold M.parse_tail. destruct r as [|c r1].
  - cbn. intros H; injection H as <- <-. cbn [length]. lia.
  - destruct (ceqb c "-"%char).
    + pose proof (take_while_le M.not_plus r1) as L.
      destruct (M.ident_list_ok (take_while M.not_plus r1)); [|discriminate].
      destruct (drop_while M.not_plus r1) as [|c2 b].
      * intros H; injection H as <- <-. cbn [length]. blia.
      * destruct (_ && _); [|discriminate]. intros H; injection H as <- <-. cbn [length]. blia.
    + cbn [M.parse_tail]. destruct (ceqb c "+"%char && M.ident_list_ok r1); [|discriminate].
      intros H; injection H as <- <-. cbn [length]. lia.
Qed.

Lemma parse_core_prerelease_le t c : M.parse_core t = Some c -> (length (M.prerelease c) <= length t)%nat.
Proof.
  unfold M.parse_core. cbv zeta.
  pose proof (Verif.Tie.Parse.NpmRange.trim_prefix_length_le $"v" t) as L1.
  set (t1 := trim_prefix $"v" t) in *.
  pose proof (Verif.Tie.Parse.NpmRange.trim_prefix_length_le $"=" t1) as L2.
  set (t2 := trim_prefix $"=" t1) in *.
  pose proof (Verif.Tie.Parse.NpmRange.trim_prefix_length_le $"v" t2) as L3.
  set (t3 := trim_prefix $"v" t2) in *.
  destruct (M.num_dot t3) as [[ma r1]|] eqn:N1; [|discriminate]. apply num_dot_rest_le in N1.
  destruct (M.num_dot r1) as [[mi r2]|] eqn:N2; [|discriminate]. apply num_dot_rest_le in N2.
  pose proof (drop_while_length_le is_digit r2) as L4.
  destruct (take_while is_digit r2); [discriminate|].
  destruct (M.parse_tail (drop_while is_digit r2)) as [[pre b0]|] eqn:PT; [|discriminate].
  apply parse_tail_pre_le in PT.
  destruct (M.atoi_digits ma); [|discriminate]. destruct (M.atoi_digits mi); [|discriminate].
  destruct (M.atoi_digits _); [|discriminate]. intros H; injection H as <-. cbn [M.prerelease]. blia.
Qed.

Lemma drop_while_nil_forallb p (s : bytes) : beq (drop_while p s) [] = forallb p s.
Proof.
  induction s as [|c s IH]; [reflexivity|]. cbn [drop_while forallb]. destruct (p c); [exact IH | reflexivity].
Qed.

(* the version-level oracles and what is assumed of them *)
Record oracles : Type := {
  find : bytes -> option (list bytes);     (* versionPattern.FindStringSubmatch *)
  trimleft : bytes -> bytes -> bytes;      (* strings.TrimLeft *)
  find_agrees : forall t, find t = PV.ref_match t;
  trimleft_agrees : forall s, trimleft s $"0123456789" = drop_while is_digit s
}.

Definition Name : bytes := G.Ecosystem_Name G.mk_Ecosystem.

Lemma eco_found :
  Top.eco_or_none $"npm" =
  Some {| e_name := $"npm"; e_v := mk_vops M.parse_core M.cmp_core M.raw_orig;
          e_r := Verif.Eco.Npm.Entry.r |}.
Proof. reflexivity. Qed.

Theorem npm_name_ok : Name = $"npm".
Proof. reflexivity. Qed.

Theorem npm_model_tpo :
  TotalPreorderOn (fun s => l_vok (Top.model_lib $"npm") s = true) (l_vcmp (Top.model_lib $"npm")).
Proof. apply (model_lib_tpo _ _ _ _ _ _ eco_found MF.cmp_core_tp). Qed.

(* npm's Contains reads the version text through the two oracles only *)
Lemma npm_contains_txt (vok : bytes -> bool) (vcmp : bytes -> bytes -> comparison) (r a : bytes) :
  (forall b, vcmp (trim_space a) b = vcmp a b) -> vok (trim_space a) = vok a ->
  r_contains Verif.Eco.Npm.Entry.r vok vcmp r (trim_space a) = r_contains Verif.Eco.Npm.Entry.r vok vcmp r a.
Proof.
  intros Hc Hv. cbn [r_contains Verif.Eco.Npm.Entry.r]. rewrite Hv.
  destruct (RM.parse_range vok r) as [x|]; [|reflexivity]. destruct (vok a); [|reflexivity]. f_equal.
  unfold RM.contains. induction (RM.r_groups x) as [|g gs IH]; [reflexivity|]. cbn [existsb]. rewrite IH. f_equal.
  clear IH. induction g as [|c g IH]; [reflexivity|]. cbn [forallb]. rewrite IH. f_equal.
  unfold RM.matches. rewrite Hc. reflexivity.
Qed.

Section V.
  Variable O : oracles.

  (* ---------- the version half of the bundle ---------- *)
  Definition pnum : bytes -> Z * bool := P.parseNum (trimleft O).
  Definition cpr : bytes -> bytes -> Z := TL.comparePrerelease_total pnum.
  Definition NV (s : bytes) : option G.Version :=
    total None (P.Ecosystem_NewVersion (find O) G.mk_Ecosystem s).
  Definition Compare : G.Version -> G.Version -> Z := G.Version_Compare cpr.

  Lemma pnum_model s : pnum s = num_pair (M.parse_num s).
  Proof.
    unfold pnum, P.parseNum, M.parse_num, nonempty_digits. rewrite trimleft_agrees, drop_while_nil_forallb.
    destruct s as [|c s']; [reflexivity|].
    destruct (forallb is_digit (c :: s')) eqn:A; cbn [negb]; [|reflexivity].
    rewrite (PV.atoi_digits_run (c :: s')) by (assumption || discriminate).
    destruct (M.atoi_digits (c :: s')); reflexivity.
  Qed.

  Lemma NV_eq s : NV s = option_map (PV.conc s) (M.parse_core (trim_space s)).
  Proof. unfold NV. rewrite (PV.tie_parse_npm_newversion (find O) (find_agrees O)). reflexivity. Qed.

  Lemma NV_computes e v : P.Ecosystem_NewVersion (find O) e v = Done (NV v).
  Proof. rewrite NV_eq. apply (PV.tie_parse_npm_newversion (find O) (find_agrees O)). Qed.

  Lemma NV_fits n a x : (Z.of_nat n + 1 < 2 ^ 63) -> (length a <= n)%nat -> NV a = Some x ->
    fits1 (G.Version_prerelease x).
  Proof.
    intros Hn La. rewrite NV_eq. destruct (M.parse_core (trim_space a)) as [c|] eqn:E; [|discriminate].
    intros H. injection H as <-. apply parse_core_prerelease_le in E.
    pose proof (trim_space_length_le a). unfold fits1, PV.conc. cbn [G.Version_prerelease]. blia.
  Qed.

  Lemma H_nv s : option_map TV.abs (NV s) = M.parse_core (trim_space s).
  Proof.
    rewrite NV_eq. destruct (M.parse_core (trim_space s)) as [c|]; [|reflexivity].
    cbn [option_map]. rewrite PV.abs_conc. reflexivity.
  Qed.

  Lemma cmp_fits x y : fits1 (G.Version_prerelease x) -> fits1 (G.Version_prerelease y) ->
    Compare x y = Z_of_cmp (M.cmp_core (TV.abs x) (TV.abs y)).
  Proof. apply (TL.tie_npm_compare_closed pnum pnum_model). Qed.

  Lemma H_cmp a b x y : short a = true -> short b = true -> NV a = Some x -> NV b = Some y ->
    Compare x y = Z_of_cmp (M.cmp_core (TV.abs x) (TV.abs y)).
  Proof.
    intros Da Db Ea Eb. apply short_lt in Da, Db.
    apply cmp_fits; [apply (NV_fits (length a) a x) | apply (NV_fits (length b) b y)]; assumption || lia.
  Qed.

  Lemma H_str a x : NV a = Some x -> G.Version_String x = if M.raw_orig then a else trim_space a.
  Proof.
    intros E. rewrite NV_eq in E. destruct (M.parse_core (trim_space a)); [|discriminate].
    injection E as <-. reflexivity.
  Qed.

  Local Notation L := (Top.model_lib $"npm").
  Local Notation accepted := (fun s : bytes => l_vok L s = true).

  (* the fields name / vok / cmp / show of [lib_ties_on] (the two range components are stand-ins read off the
     library record): no hypothesis about the range functions *)
  Theorem npm_version_lib_ties_on :
    lib_ties_on G.Version bytes Name NV (NVR0 L) (Contains0 G.Version G.Version_String L) Compare
                G.Version_String L short.
  Proof.
    apply (custom_version_lib_ties_on M.core M.parse_core M.cmp_core M.raw_orig Verif.Eco.Npm.Entry.r $"npm" eco_found
             G.Version Name NV Compare G.Version_String TV.abs short eq_refl).
    - intros s _. apply H_nv.
    - exact H_cmp.
    - intros a x _. apply H_str.
    - intros _ vok vcmp r a. apply npm_contains_txt.
  Qed.

  (* `univers npm compare a b` and `univers npm sort ...`: the generated runEcosystem whatever the bundle's
     range parser and Contains are *)
  Theorem npm_compare_sort_e2e
      (VR : Type) (NVR : bytes -> option VR) (VR_Contains : VR -> G.Version -> bool)
      (sort_by : forall A : Type, (A -> A -> Z) -> list A -> list A) (e1 e2 e3 : list bytes -> bytes)
      (fuel : nat) (cmd : bytes) (rest : list bytes) :
    sort_ok G.Version NV Compare sort_by accepted ->
    cmd = $"compare" \/ cmd = $"sort" ->
    fits (cmd :: rest) -> (length (cmd :: rest) < fuel)%nat -> Forall (fun a => short a = true) (cmd :: rest) ->
    (cmd = $"sort" -> Forall accepted rest -> show_respects L rest) ->
    exists r,
      CmdCore.runEcosystem G.Version VR Name NV NVR VR_Contains Compare G.Version_String sort_by e1 e2 e3
                           fuel (cmd :: rest) = Done r /\
      shown (Top.model_cli (($"npm" : bytes) :: cmd :: rest)) r.
  Proof.
    intros SO Hc F Hf FD SR.
    apply (custom_version_only_cli_e2e M.core M.parse_core M.cmp_core M.raw_orig Verif.Eco.Npm.Entry.r $"npm" eco_found
             G.Version Name NV Compare G.Version_String TV.abs short eq_refl
             (fun s _ => H_nv s) H_cmp (fun a x _ => H_str a x)
             (fun _ vok vcmp r a => npm_contains_txt vok vcmp r a)
             VR NVR VR_Contains sort_by e1 e2 e3 accepted SO npm_model_tpo eq_refl eq_refl
             fuel cmd rest Hc F Hf FD).
    intros E OK. split; [exact OK | exact (SR E OK)].
  Qed.
End V.

Print Assumptions npm_version_lib_ties_on.
Print Assumptions npm_compare_sort_e2e.
Print Assumptions npm_name_ok.
Print Assumptions npm_model_tpo.
Print Assumptions npm_contains_txt.
Print Assumptions take_while_le.
Print Assumptions num_dot_rest_le.
Print Assumptions parse_tail_pre_le.
Print Assumptions parse_core_prerelease_le.
Print Assumptions drop_while_nil_forallb.
Print Assumptions eco_found.
Print Assumptions pnum_model.
Print Assumptions NV_eq.
Print Assumptions NV_computes.
Print Assumptions NV_fits.
Print Assumptions H_nv.
Print Assumptions cmp_fits.
Print Assumptions H_cmp.
Print Assumptions H_str.
