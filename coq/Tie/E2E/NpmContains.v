(* Tie/E2E/NpmContains.v — npm's VersionRange.Contains (Gen/Loops/Npm.v: two nested loops, the inner one left by
   `break`) and constraint.matches (Gen/Parse/Npm.v) as functions.

     tie_loops_npm_contains     VersionRange_Contains at ANY total constraint.matches [cm], with fuel above the
                                number of groups and above every group's length (all of int size):
                                Done (existsb (fun g => forallb (fun c => cm c v) g) groups)
     tie_parse_npm_matches      constraint_matches at a function [nv] that NewVersion computes:
                                "*" matches; a bound that does not parse matches nothing; else the comparator
                                switch (sem6) on Version.Compare *)
From Coq Require Import ZArith List Ascii Bool Lia.
From Verif.Base Require Import Bytes GoNum GoOps Ord Imp ImpFacts ImpErr BytesFacts.
From Verif.Eco Require Import RangeCore.
From Verif.Gen.Code Require Npm.
From Verif.Gen.Loops Require Npm.
From Verif.Gen.Parse Require Npm.
From Verif.Tie Require Import Tactics.
From Verif.Tie.Loops Require Import Common.
From Verif.Tie.Parse Require Import Common RangeCommon RangeTie.
Import ListNotations.
Local Open Scope Z_scope.

Module G := Verif.Gen.Code.Npm.
Module L := Verif.Gen.Loops.Npm.
Module P := Verif.Gen.Parse.Npm.

(* ---------- a range loop whose step equation is known on the members of the list only ---------- *)

Section Loop0In.
  Context {A R : Type}.
  Variable xs : list A.
  Variable H : Z -> A -> res (step Z R).
  Variable g : A -> option R.
  Hypothesis H_spec : forall k x, In x xs ->
    H k x = match g x with Some r => Done (Ret r) | None => Done (Next (wrap64 (k + 1))) end.

  Fixpoint first_some_in (l : list A) : option R :=
    match l with
    | [] => None
    | x :: t => match g x with Some r => Some r | None => first_some_in t end
    end.

  Lemma range_loop0_in_aux (Hfit : Z.of_nat (length xs) < 2 ^ 63) :
    forall suf pre fuel, xs = pre ++ suf -> (length suf < fuel)%nat ->
    while fuel (range_body0 xs H) (Z.of_nat (length pre)) =
    Done (match first_some_in suf with Some r => Returned r | None => Fell (Z.of_nat (length xs)) end).
  Proof.
    induction suf as [|x t IH]; intros pre fuel E Hf; (destruct fuel as [|fuel]; [cbn in Hf; lia|]);
      cbn [while first_some_in]; unfold range_body0 at 1.
    - rewrite app_nil_r in E. subst pre. rewrite Z.ltb_irrefl. reflexivity.
    - assert (Ln : length xs = (length pre + S (length t))%nat) by (rewrite E, app_length; reflexivity).
      destruct (Z.ltb_spec (Z.of_nat (length pre)) (Z.of_nat (length xs))) as [_|Ge]; [|lia].
      rewrite E at 1. rewrite idx_app_mid. cbn [bind].
      rewrite H_spec by (rewrite E; apply in_or_app; right; left; reflexivity).
      destruct (g x) as [r|]; [reflexivity|].
      rewrite (wrap64_succ_lt _ (Z.of_nat (length xs))) by lia.
      replace (Z.of_nat (length pre) + 1) with (Z.of_nat (length (pre ++ [x])))
        by (rewrite app_length; cbn [length]; lia).
      apply IH; [rewrite <- app_assoc; exact E | cbn [length] in Hf; lia].
  Qed.

  Lemma range_loop0_in fuel :
    Z.of_nat (length xs) < 2 ^ 63 -> (length xs < fuel)%nat ->
    while fuel (range_body0 xs H) 0 =
    Done (match first_some_in xs with Some r => Returned r | None => Fell (Z.of_nat (length xs)) end).
  Proof. intros Hfit Hf. exact (range_loop0_in_aux Hfit xs [] fuel eq_refl Hf). Qed.
End Loop0In.

(* ---------- the inner loop: `if !c.matches(v) { groupSatisfied = false; break }` ---------- *)

Section Inner.
  Context {A : Type}.
  Variable p : A -> bool.
  Variable xs : list A.

  Definition inner_body : Z * bool -> res (step (Z * bool) bool) :=
    fun '(k_, groupSatisfied) =>
      if Z.ltb k_ (Z.of_nat (length xs)) then
        bind (idx xs k_) (fun c =>
          if negb (p c) then Done (Break (k_, false))
          else Done (Next (wrap64 (k_ + 1), groupSatisfied)))
      else Done (Break (k_, groupSatisfied)).

  Definition fell_flag (r : res (exit (Z * bool) bool)) : option bool :=
    match r with Done (Fell (_, b)) => Some b | _ => None end.

  Lemma inner_loop_aux (Hfit : Z.of_nat (length xs) < 2 ^ 63) :
    forall suf pre fuel b, xs = pre ++ suf -> (length suf < fuel)%nat ->
    fell_flag (while (R := bool) fuel inner_body (Z.of_nat (length pre), b)) = Some (b && forallb p suf).
  Proof.
    induction suf as [|x t IH]; intros pre fuel b E Hf; (destruct fuel as [|fuel]; [cbn in Hf; lia|]);
      cbn [while forallb]; unfold inner_body at 1.
    - rewrite app_nil_r in E. subst pre. rewrite Z.ltb_irrefl. rewrite andb_true_r. reflexivity.
    - assert (Ln : length xs = (length pre + S (length t))%nat) by (rewrite E, app_length; reflexivity).
      destruct (Z.ltb_spec (Z.of_nat (length pre)) (Z.of_nat (length xs))) as [_|Ge]; [|lia].
      rewrite E at 1. rewrite idx_app_mid. cbn [bind].
      destruct (p x); cbn [negb andb].
      + rewrite (wrap64_succ_lt _ (Z.of_nat (length xs))) by lia.
        replace (Z.of_nat (length pre) + 1) with (Z.of_nat (length (pre ++ [x])))
          by (rewrite app_length; cbn [length]; lia).
        apply IH; [rewrite <- app_assoc; exact E | cbn [length] in Hf; lia].
      + rewrite andb_false_r. reflexivity.
  Qed.

  Lemma inner_loop fuel :
    Z.of_nat (length xs) < 2 ^ 63 -> (length xs < fuel)%nat ->
    exists k', while (R := bool) fuel inner_body (0, true) = Done (Fell (k', forallb p xs)).
  Proof.
    intros Hfit Hf. pose proof (inner_loop_aux Hfit xs [] fuel true eq_refl Hf) as X.
    change (Z.of_nat (length (@nil A))) with 0 in X. cbn [andb] in X.
    destruct (while fuel inner_body (0, true)) as [[[k' b']|r]| |]; cbn [fell_flag] in X; try discriminate.
    injection X as ->. exists k'. reflexivity.
  Qed.
End Inner.

(* ---------- VersionRange.Contains ---------- *)

Section Contains.
  Variable cm : G.constraint -> G.Version -> bool.      (* constraint.matches *)

  Theorem tie_loops_npm_contains : forall (fuel : nat) (nr : G.VersionRange) (v : G.Version),
    Z.of_nat (length (G.VersionRange_constraintGroups nr)) < 2 ^ 63 ->
    (length (G.VersionRange_constraintGroups nr) < fuel)%nat ->
    (forall g, In g (G.VersionRange_constraintGroups nr) ->
               Z.of_nat (length g) < 2 ^ 63 /\ (length g < fuel)%nat) ->
    L.VersionRange_Contains cm fuel nr v =
    Done (existsb (fun g => forallb (fun c => cm c v) g) (G.VersionRange_constraintGroups nr)).
  Proof.
    intros fuel nr v Hfit Hf Hg. unfold L.VersionRange_Contains. cbv zeta.
    set (xs := G.VersionRange_constraintGroups nr) in *.
    match goal with |- context [while fuel ?b 0] =>
      change b with (range_body0 (R := bool) xs (fun k grp =>
        bind (while (R := bool) fuel (inner_body (fun c => cm c v) grp) (0, true)) (fun lp =>
          match lp with
          | Fell (k_, groupSatisfied) =>
              if groupSatisfied then Done (Ret true) else Done (Next (wrap64 (k + 1)))
          | Returned r => Done (Ret r)
          end)))
    end.
    rewrite (range_loop0_in xs _ (fun grp => if forallb (fun c => cm c v) grp then Some true else None));
      [| | exact Hfit | exact Hf].
    - cbn [bind]. clear Hfit Hf Hg. clearbody xs. generalize (Z.of_nat (length xs)). intros n.
      induction xs as [|grp t IH]; [reflexivity|].
      cbn [first_some_in existsb]. destruct (forallb _ grp); [reflexivity|]. cbn [orb]. exact IH.
    - intros k grp Hin. destruct (Hg grp Hin) as [F1 F2].
      destruct (inner_loop (fun c => cm c v) grp fuel F1 F2) as [k' ->]. cbn [bind].
      destruct (forallb _ grp); reflexivity.
  Qed.
End Contains.
Print Assumptions range_loop0_in.
Print Assumptions inner_loop.
Print Assumptions tie_loops_npm_contains.

(* ---------- constraint.matches ---------- *)

Lemma switch_sem6 (tag : bytes) (comparison : Z) :
  (if beq tag $"=" then Z.eqb comparison 0
   else if beq tag $"!=" then negb (Z.eqb comparison 0)
   else if beq tag $"<" then Z.ltb comparison 0
   else if beq tag $"<=" then Z.leb comparison 0
   else if beq tag $">" then Z.ltb 0 comparison
   else if beq tag $">=" then Z.leb 0 comparison
   else false) = sat (sem6 tag) (cmp_of_Z comparison).
Proof.
  unfold sem6.
  destruct (beq tag $"=") eqn:E1.
  { unfold cmp_of_Z. destruct comparison; reflexivity. }
  destruct (beq tag $"!=") eqn:E2.
  { unfold cmp_of_Z. destruct comparison; reflexivity. }
  destruct (beq tag $"<") eqn:E3.
  { apply beq_eq in E3. subst tag. unfold cmp_of_Z. destruct comparison; reflexivity. }
  destruct (beq tag $"<=") eqn:E4.
  { apply beq_eq in E4. subst tag. unfold cmp_of_Z. destruct comparison; reflexivity. }
  destruct (beq tag $">") eqn:E5.
  { unfold cmp_of_Z. destruct comparison; reflexivity. }
  destruct (beq tag $">=") eqn:E6.
  { unfold cmp_of_Z. destruct comparison; reflexivity. }
  reflexivity.
Qed.
Print Assumptions switch_sem6.

Section Matches.
  Variable cpr : bytes -> bytes -> Z.                     (* comparePrerelease, total *)
  Variable find : bytes -> option (list bytes).           (* versionPattern.FindStringSubmatch *)
  Variable nv : bytes -> option G.Version.                (* NewVersion as a function *)
  Hypothesis newversion_computes : forall e v, P.Ecosystem_NewVersion find e v = Done (nv v).

  Local Opaque P.Ecosystem_NewVersion.

  Theorem tie_parse_npm_matches : forall (c : G.constraint) (v : G.Version),
    P.constraint_matches cpr find c v =
    Done (if beq (G.constraint_operator c) $"*" then true
          else match nv (G.constraint_version c) with
               | None => false
               | Some cv => sat (sem6 (G.constraint_operator c)) (cmp_of_Z (G.Version_Compare cpr v cv))
               end).
  Proof.
    intros c v. unfold P.constraint_matches. destruct (beq (G.constraint_operator c) $"*"); [reflexivity|].
    cbv zeta. rewrite newversion_computes. cbn [bind].
    destruct (nv (G.constraint_version c)) as [cv|]; [|reflexivity].
    rewrite <- switch_sem6.
    repeat match goal with |- (if ?b then _ else _) = _ => destruct b; [reflexivity|] end. reflexivity.
  Qed.
End Matches.
Print Assumptions tie_parse_npm_matches.
Print Assumptions range_loop0_in_aux.
Print Assumptions inner_loop_aux.
