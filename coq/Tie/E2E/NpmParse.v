(* Tie/E2E/NpmParse.v — the generated NewVersionRange of npm (Gen/Parse/Npm.v) COMPUTES the model's parse_range
   (Eco/Npm/Range.v), GIVEN the agreement of the one untranslated callee parseSingleConstraint (range.go:87,
   skipped: slices.ContainsFunc) with the model's parse_single.  Tie/Parse/NpmRange.v has the no-panic half.

   A Go constraint is {operator, version TEXT}: the Go value of a model constraint (op, text) is just the pair.
   Parameter: a function [nv] that Ecosystem_NewVersion computes (parseHyphenRange validates its two bounds).

     tie_parse_npm_hyphen       parseHyphenRange = parse_hyphen
     tie_parse_npm_spaced       the field loop = parse_spaced
     tie_parse_npm_parseRange   = parse_group
     tie_parse_npm_groups       the "||" loop = parse_groups
     tie_parse_npm_newversionrange      fuel length s + 3 *)
From Coq Require Import ZArith List Ascii Bool Lia.
From Verif.Base Require Import Bytes GoNum GoOps Imp ImpFacts ImpErr BytesFacts.
From Verif.Eco Require Import RangeCore.
From Verif.Eco.Npm Require Range.
From Verif.Gen.Code Require Npm.
From Verif.Gen.Parse Require Npm.
From Verif.Tie.Parse Require Import Common RangeCommon RangeTie.
From Verif.Tie.Parse Require NpmRange SemverRange.
Import ListNotations.
Local Open Scope Z_scope.

Module G := Verif.Gen.Code.Npm.
Module P := Verif.Gen.Parse.Npm.
Module RM := Verif.Eco.Npm.Range.
Module NR := Verif.Tie.Parse.NpmRange.

Ltac blia := unfold bytes in *; lia.

Definition cc (c : RM.constraint) : G.constraint := G.mk_constraint (fst c) (snd c).
Definition lift (o : option (list RM.constraint)) : option (list G.constraint) := option_map (map cc) o.
Definition conc (r : RM.range) : G.VersionRange :=
  G.mk_VersionRange (map (map cc) (RM.r_groups r)) (RM.r_orig r).

Section Tie.
  Variable single : bytes -> option (list G.constraint).  (* parseSingleConstraint *)
  Variable find : bytes -> option (list bytes).           (* versionPattern.FindStringSubmatch *)
  Variable nv : bytes -> option G.Version.                (* NewVersion as a function *)
  Hypothesis newversion_computes : forall e v, P.Ecosystem_NewVersion find e v = Done (nv v).
  (* AGREEMENT for the untranslated callee *)
  Hypothesis single_agrees : forall c, single c = lift (RM.parse_single c).

  Definition vok (t : bytes) : bool := match nv t with Some _ => true | None => false end.

  Local Opaque P.Ecosystem_NewVersion trim_space split_sub fields.

  Theorem tie_parse_npm_hyphen : forall s,
    P.parseHyphenRange find s = Done (lift (RM.parse_hyphen vok s)).
  Proof.
    intros s. unfold P.parseHyphenRange, RM.parse_hyphen. cbv zeta.
    destruct (split_sub ($" - ") s) as [|p0 [|p1 [|p2 r]]]; try reflexivity.
    2:{ replace (Z.of_nat (length (p0 :: p1 :: p2 :: r)) =? 2) with false
          by (symmetry; apply Z.eqb_neq; cbn [length]; lia). reflexivity. }
    repeat (erewrite idx_known by reflexivity; cbn [bind]).
    destruct (trim_space p0) as [|x a]; [reflexivity|].
    destruct (trim_space p1) as [|y b]; [reflexivity|].
    change (beq (x :: a) []) with false. change (beq (y :: b) []) with false. cbn [orb].
    rewrite newversion_computes. cbn [bind]. unfold vok.
    destruct (nv (x :: a)); [|reflexivity]. rewrite newversion_computes. cbn [bind].
    destruct (nv (y :: b)); reflexivity.
  Qed.

  Definition space_g (part : bytes) (cs : list G.constraint) : option (list G.constraint) + list G.constraint :=
    match RM.parse_single part with
    | None => inl None
    | Some k => inr (cs ++ map cc k)
    end.

  Lemma run_space : forall parts acc,
    run space_g parts acc =
    match RM.parse_spaced parts with
    | None => inl None
    | Some l => inr (acc ++ map cc l)
    end.
  Proof.
    induction parts as [|part r IH]; intros acc; cbn [run RM.parse_spaced].
    - cbn. rewrite app_nil_r. reflexivity.
    - unfold space_g at 1. destruct (RM.parse_single part) as [k|]; [|reflexivity].
      rewrite IH. destruct (RM.parse_spaced r) as [l|]; [|reflexivity].
      rewrite map_app, app_assoc. reflexivity.
  Qed.

  Theorem tie_parse_npm_spaced : forall fuel s,
    Z.of_nat (length s) + 1 < 2 ^ 63 -> (S (length s) < fuel)%nat ->
    P.parseSpaceSeparatedConstraints single fuel s = Done (lift (RM.parse_spaced (fields s))).
  Proof.
    intros fuel s Hfit Hf. unfold P.parseSpaceSeparatedConstraints. cbv zeta.
    pose proof (fields_length_le s) as SL.
    match goal with |- context [while fuel ?b (0, [])] =>
      change b with (range_body (R := option (list G.constraint)) (fields s)
             (fun k part cs =>
                match single part with
                | None => Done (Ret None)
                | Some pcs => Done (Next (wrap64 (k + 1), cs ++ pcs))
                end))
    end.
    rewrite (range_loop_result _ _ space_g); [| |lia|lia].
    - rewrite run_space. cbn [bind app]. destruct (RM.parse_spaced _) as [l|]; reflexivity.
    - intros k part cs. unfold space_g. rewrite single_agrees. destruct (RM.parse_single part); reflexivity.
  Qed.

  Theorem tie_parse_npm_parseRange : forall fuel s,
    Z.of_nat (length s) + 1 < 2 ^ 63 -> (S (length s) < fuel)%nat ->
    P.parseRange single find fuel s = Done (lift (RM.parse_group vok s)).
  Proof.
    intros fuel s Hfit Hf. unfold P.parseRange, RM.parse_group. cbv zeta.
    set (s' := trim_suffix _ _).
    assert (L : (length s' <= length s)%nat).
    { subst s'. etransitivity; [apply NR.trim_suffix_length_le|].
      etransitivity; [apply NR.trim_prefix_length_le|]. apply trim_space_length_le. }
    clearbody s'.
    rewrite (Verif.Tie.Parse.SemverRange.contains_sub_c " "%char : forall s, contains_sub ($" ") s = _).
    destruct (_ || _).
    - rewrite tie_parse_npm_hyphen. reflexivity.
    - destruct (_ && _).
      + rewrite tie_parse_npm_spaced by blia. reflexivity.
      + rewrite single_agrees. reflexivity.
  Qed.

  Definition group_g (part : bytes) (gs : list (list G.constraint))
    : option (list (list G.constraint)) + list (list G.constraint) :=
    match RM.parse_group vok (trim_space part) with
    | None => inl None
    | Some g => inr (gs ++ [map cc g])
    end.

  Lemma run_group : forall parts acc,
    run group_g parts acc =
    match RM.parse_groups vok parts with
    | None => inl None
    | Some l => inr (acc ++ map (map cc) l)
    end.
  Proof.
    induction parts as [|part r IH]; intros acc; cbn [run RM.parse_groups].
    - cbn. rewrite app_nil_r. reflexivity.
    - unfold group_g at 1. destruct (RM.parse_group vok (trim_space part)) as [g|]; [|reflexivity].
      rewrite IH. destruct (RM.parse_groups vok r) as [l|]; [|reflexivity].
      rewrite <- app_assoc. reflexivity.
  Qed.

  Theorem tie_parse_npm_groups : forall fuel s,
    Z.of_nat (length s) + 2 < 2 ^ 63 -> (length s + 2 < fuel)%nat ->
    P.parseRangeGroups single find fuel s =
    Done (option_map (map (map cc))
            (if contains_sub $"||" s then RM.parse_groups vok (split_sub $"||" s)
             else match RM.parse_group vok s with Some g => Some [g] | None => None end)).
  Proof.
    intros fuel s Hfit Hf. unfold P.parseRangeGroups.
    destruct (contains_sub $"||" s).
    - cbv zeta. pose proof (NR.split_sub_length_le $"||" s) as SL.
      match goal with |- context [while fuel ?b (0, [])] =>
        change b with (range_body (R := option (list (list G.constraint))) (split_sub $"||" s)
               (fun k part gs =>
                  bind (P.parseRange single find fuel (trim_space part)) (fun r =>
                    match r with
                    | None => Done (Ret None)
                    | Some cs => Done (Next (wrap64 (k + 1), gs ++ [cs]))
                    end)))
      end.
      assert (HS : forall k part gs, In part (split_sub $"||" s) ->
        bind (P.parseRange single find fuel (trim_space part)) (fun r =>
          match r with
          | None => Done (Ret None)
          | Some cs => Done (Next (wrap64 (k + 1), gs ++ [cs]))
          end) =
        match group_g part gs with
        | inl r => Done (Ret r)
        | inr acc' => Done (Next (wrap64 (k + 1), acc'))
        end).
      { intros k part gs Hin. apply NR.split_sub_In_length in Hin.
        pose proof (trim_space_length_le part).
        rewrite tie_parse_npm_parseRange by blia. cbn [bind]. unfold group_g, lift.
        destruct (RM.parse_group vok (trim_space part)); reflexivity. }
      (* the loop lemma wants the step equation for every element: restrict to the members *)
      assert (R : forall suf pre fuel' acc, split_sub $"||" s = pre ++ suf -> (length suf < fuel')%nat ->
        while fuel' (range_body (R := option (list (list G.constraint))) (split_sub $"||" s)
               (fun k part gs =>
                  bind (P.parseRange single find fuel (trim_space part)) (fun r =>
                    match r with
                    | None => Done (Ret None)
                    | Some cs => Done (Next (wrap64 (k + 1), gs ++ [cs]))
                    end))) (Z.of_nat (length pre), acc) =
        Done (match run group_g suf acc with
              | inl r => Returned r
              | inr acc' => Fell (Z.of_nat (length (split_sub $"||" s)), acc')
              end)).
      { induction suf as [|x t IH]; intros pre fuel' acc E Hf'; (destruct fuel' as [|fuel']; [cbn in Hf'; lia|]);
          cbn [while run]; unfold range_body at 1.
        - rewrite app_nil_r in E. rewrite <- E. rewrite Z.ltb_irrefl. reflexivity.
        - assert (Ln : length (split_sub $"||" s) = (length pre + S (length t))%nat)
            by (rewrite E, app_length; reflexivity).
          destruct (Z.ltb_spec (Z.of_nat (length pre)) (Z.of_nat (length (split_sub $"||" s)))) as [_|Ge]; [|lia].
          rewrite E at 1. rewrite idx_app_mid. cbn [bind].
          rewrite HS by (rewrite E; apply in_or_app; right; left; reflexivity).
          destruct (group_g x acc) as [r|acc']; [reflexivity|].
          rewrite (wrap64_succ_lt _ (Z.of_nat (length (split_sub $"||" s)))) by lia.
          replace (Z.of_nat (length pre) + 1) with (Z.of_nat (length (pre ++ [x])))
            by (rewrite app_length; cbn [length]; lia).
          apply IH; [rewrite <- app_assoc; exact E | cbn [length] in Hf'; lia]. }
      assert (Lf : (length (split_sub $"||" s) < fuel)%nat) by lia.
      pose proof (R (split_sub $"||" s) [] fuel [] eq_refl Lf) as RR.
      change (Z.of_nat (length (@nil bytes))) with 0 in RR. rewrite RR.
      rewrite run_group. cbn [bind app]. destruct (RM.parse_groups vok _) as [l|]; reflexivity.
    - rewrite tie_parse_npm_parseRange by blia. cbn [bind]. unfold lift.
      destruct (RM.parse_group vok s); reflexivity.
  Qed.

  (* the generated NewVersionRange computes the model's parse_range *)
  Theorem tie_parse_npm_newversionrange : forall fuel e s,
    Z.of_nat (length s) + 2 < 2 ^ 63 -> (length s + 2 < fuel)%nat ->
    P.Ecosystem_NewVersionRange single find fuel e s = Done (option_map conc (RM.parse_range vok s)).
  Proof.
    intros fuel e s Hfit Hf. unfold P.Ecosystem_NewVersionRange, RM.parse_range. cbv zeta.
    pose proof (trim_space_length_le s) as TL.
    set (t := trim_space s) in *. clearbody t.
    rewrite beq_nil_nonempty. destruct (nonempty t) eqn:NE; cbn [negb].
    - rewrite tie_parse_npm_groups by blia. cbn [bind].
      destruct t as [|x t']; [discriminate|].
      destruct (if contains_sub $"||" (x :: t') then _ else _) as [gs|]; reflexivity.
    - destruct t; [reflexivity | discriminate].
  Qed.
End Tie.
Print Assumptions tie_parse_npm_hyphen.
Print Assumptions run_space.
Print Assumptions tie_parse_npm_spaced.
Print Assumptions tie_parse_npm_parseRange.
Print Assumptions run_group.
Print Assumptions tie_parse_npm_groups.
Print Assumptions tie_parse_npm_newversionrange.
