(* Tie/E2E/NpmRange.v — END TO END for npm, the WHOLE bundle: Tie/E2E/Npm.v (version half) completed with

     NewVersionRange  Gen.Parse.Npm.Ecosystem_NewVersionRange at the parseSingleConstraint oracle, fuel length s + 3
     Contains         Gen.Loops.Npm.VersionRange_Contains (two nested loops; fuel above the number of groups and
                      every group's length) at the GENERATED constraint.matches (Gen/Parse/Npm.v), made total

   Hypotheses ([oracles]): the two of Tie/E2E/Npm.v (regexp, strings.TrimLeft) and ONE NAMED AGREEMENT HYPOTHESIS for
   the one function of the package that lies outside every translated fragment:
     [single_agrees]   parseSingleConstraint (range.go:87, skipped: slices.ContainsFunc) returns the constraints
                       (operator, version text) that Eco/Npm/Range.parse_single describes.
   Its callees parseCaretRange / parseTildeRange / parseXRange / padPartial are generated but not tied here.

   DOMAIN [dom]: texts with 2 * length + 512 < 2^63 (a caret / tilde / x-range bound is a PRINTED version, up to
   ~200 bytes longer than the text it came from, and a group has up to two constraints per field).
   [npm_lib_ties_on]: all six fields of [lib_ties] on [dom]; the fields name / vok / cmp / show do not use
   [single_agrees] (Tie/E2E/Npm.npm_version_lib_ties_on states them without it, on [short]). *)
From Coq Require Import ZArith NArith List Ascii Bool Lia Permutation Sorted.
From Verif.Base Require Import Bytes GoNum GoOps Ord Sorting Imp ImpFacts ImpErr ImpCore BytesFacts.
From Verif.Cli Require Import Model.
From Verif.Eco Require Import RangeCore Iface VLayer.
From Verif.Eco.Npm Require Version VersionFacts Range RangeFacts Entry.
From Verif.Gen.Code Require Npm.
From Verif.Gen.Loops Require Npm.
From Verif.Gen.Parse Require Npm CmdCore.
From Verif.Tie Require Import Tactics.
From Verif.Tie Require Npm.
From Verif.Tie.Loops Require Import Common Idents.
From Verif.Tie.Loops Require Npm.
From Verif.Tie.Parse Require Import Common RangeCommon.
From Verif.Tie.Parse Require Npm NpmRange.
From Verif.Tie.Cli Require Import Common Spec Ties.
From Verif.Properties.Support Require Import SimpleRops.
From Verif.Tie.E2E Require Import Common CommonK6.
From Verif.Tie.E2E Require Npm NpmParse NpmContains.
From Verif Require Top.
Import ListNotations.
Local Open Scope Z_scope.

Module G := Verif.Gen.Code.Npm.
Module L := Verif.Gen.Loops.Npm.
Module P := Verif.Gen.Parse.Npm.
Module M := Verif.Eco.Npm.Version.
Module RM := Verif.Eco.Npm.Range.
Module RF := Verif.Eco.Npm.RangeFacts.
Module TV := Verif.Tie.Npm.
Module PV := Verif.Tie.Parse.Npm.
Module NR := Verif.Tie.Parse.NpmRange.
Module V := Verif.Tie.E2E.Npm.
Module PR := Verif.Tie.E2E.NpmParse.
Module PC := Verif.Tie.E2E.NpmContains.

Ltac blia := unfold bytes in *; lia.

(* ---------- the domain ---------- *)

Definition dom (s : bytes) : bool := 2 * Z.of_nat (length s) + 512 <? 2 ^ 63.

Lemma dom_lt s : dom s = true -> 2 * Z.of_nat (length s) + 512 < 2 ^ 63.
Proof. unfold dom. intros H. apply Z.ltb_lt in H. exact H. Qed.

Lemma dom_short s : dom s = true -> short s = true.
Proof. intros H. apply dom_lt in H. unfold short. apply Z.ltb_lt. lia. Qed.

(* ---------- the length of a printed number ---------- *)

Lemma dec_fuel_len f : forall n acc, (length (dec_fuel f n acc) <= f + length acc)%nat.
Proof.
  induction f as [|k IH]; intros n acc; cbn [dec_fuel]; [lia|].
  destruct (n <? 10)%N; cbn [length]; [lia|].
  specialize (IH (n / 10)%N (chr (48 + n mod 10) :: acc)). cbn [length] in IH. lia.
Qed.

Lemma size_nat_le : forall p k, (N.pos p < 2 ^ N.of_nat k)%N -> (Pos.size_nat p <= k)%nat.
Proof.
  induction p as [p IH|p IH|]; intros k H; destruct k as [|k]; cbn [Pos.size_nat];
    try (change (2 ^ N.of_nat 0)%N with 1%N in H; lia); try lia.
  - apply le_n_S, IH. rewrite Nat2N.inj_succ, N.pow_succ_r' in H. lia.
  - apply le_n_S, IH. rewrite Nat2N.inj_succ, N.pow_succ_r' in H. lia.
Qed.

Lemma dec_len_pos p k : (N.pos p < 2 ^ N.of_nat k)%N -> (length (dec (N.pos p)) <= S k)%nat.
Proof.
  intros H. unfold dec. pose proof (dec_fuel_len (S (N.size_nat (N.pos p))) (N.pos p) []) as L.
  cbn [length N.size_nat] in *. apply size_nat_le in H. lia.
Qed.

Lemma dec_z_len z : - 2 ^ 63 <= z < 2 ^ 63 -> (length (dec_z z) <= 66)%nat.
Proof.
  intros H. destruct z as [|p|p]; cbn [dec_z].
  - cbn. lia.
  - change (Z.to_N (Z.pos p)) with (N.pos p).
    pose proof (dec_len_pos p 63) as X. assert (Hp : (N.pos p < 2 ^ N.of_nat 63)%N).
    { change (2 ^ N.of_nat 63)%N with 9223372036854775808%N. change (2 ^ 63) with 9223372036854775808 in H. lia. }
    specialize (X Hp). lia.
  - cbn [length]. pose proof (dec_len_pos p 64) as X. assert (Hp : (N.pos p < 2 ^ N.of_nat 64)%N).
    { change (2 ^ N.of_nat 64)%N with 18446744073709551616%N. change (2 ^ 63) with 9223372036854775808 in H. lia. }
    specialize (X Hp). lia.
Qed.

Lemma wrap64_range z : - 2 ^ 63 <= wrap64 z < 2 ^ 63.
Proof.
  unfold wrap64. cbv zeta. change (Z.of_N two64) with 18446744073709551616.
  change (Z.of_N two63) with 9223372036854775808. change (2 ^ 63) with 9223372036854775808.
  pose proof (Z.mod_pos_bound z 18446744073709551616 eq_refl) as B.
  destruct (Z.ltb_spec (z mod 18446744073709551616) 9223372036854775808); lia.
Qed.

Lemma succ64_range z : - 2 ^ 63 <= RM.succ64 z < 2 ^ 63.
Proof. apply wrap64_range. Qed.

Lemma atoi_range s z : atoi s = Some z -> - 2 ^ 63 <= z < 2 ^ 63.
Proof.
  unfold atoi. change (2 ^ 63) with 9223372036854775808. destruct s as [|c r]; [discriminate|]. cbv zeta.
  destruct (ceqb c "-"%char).
  - destruct (nonempty_digits r); [|discriminate].
    destruct (N.leb_spec (digits_val r) two63) as [Le|]; [|intros X; discriminate X].
    intros H; injection H as <-. unfold two63 in Le. lia.
  - destruct (nonempty_digits _); [|discriminate].
    match goal with |- context [(?a <? ?b)%N] => destruct (N.ltb_spec a b) as [Lt|] end; [|intros X; discriminate X].
    intros H; injection H as <-. unfold two63 in Lt. lia.
Qed.

Lemma ver3_0_len a b c :
  - 2 ^ 63 <= a < 2 ^ 63 -> - 2 ^ 63 <= b < 2 ^ 63 -> - 2 ^ 63 <= c < 2 ^ 63 ->
  (length (RM.ver3_0 a b c) <= 210)%nat.
Proof.
  intros Ha Hb Hc. unfold RM.ver3_0. rewrite !app_length.
  pose proof (dec_z_len a Ha). pose proof (dec_z_len b Hb). pose proof (dec_z_len c Hc).
  change (length ($"." : bytes)) with 1%nat. change (length ($"-0" : bytes)) with 2%nat. lia.
Qed.

Lemma z0_range : - 2 ^ 63 <= 0 < 2 ^ 63.
Proof. change (2 ^ 63) with 9223372036854775808. lia. Qed.

(* ---------- the build text of a parsed version ---------- *)

Lemma drop_while_le p (s : bytes) : (length (drop_while p s) <= length s)%nat.
Proof. apply drop_while_length_le. Qed.

Lemma parse_tail_build_le r pre bld : M.parse_tail r = Some (pre, bld) -> (length bld <= length r)%nat.
Proof.
  unfold M.parse_tail. destruct r as [|c r1].
  - cbn. intros H; injection H as <- <-. cbn [length]. lia.
  - destruct (ceqb c "-"%char).
    + pose proof (drop_while_le M.not_plus r1) as Ld.
      destruct (M.ident_list_ok (take_while M.not_plus r1)); [|discriminate].
      destruct (drop_while M.not_plus r1) as [|c2 b].
      * intros H; injection H as <- <-. cbn [length]. lia.
      * destruct (_ && _); [|discriminate]. intros H; injection H as <- <-. cbn [length] in *. blia.
    + cbn [M.parse_tail]. destruct (ceqb c "+"%char && M.ident_list_ok r1); [|discriminate].
      intros H; injection H as <- <-. cbn [length]. lia.
Qed.

Lemma parse_core_build_le t c : M.parse_core t = Some c -> (length (M.build c) <= length t)%nat.
Proof.
  unfold M.parse_core. cbv zeta.
  pose proof (NR.trim_prefix_length_le $"v" t) as L1.
  set (t1 := trim_prefix $"v" t) in *.
  pose proof (NR.trim_prefix_length_le $"=" t1) as L2.
  set (t2 := trim_prefix $"=" t1) in *.
  pose proof (NR.trim_prefix_length_le $"v" t2) as L3.
  set (t3 := trim_prefix $"v" t2) in *.
  destruct (M.num_dot t3) as [[ma r1]|] eqn:N1; [|discriminate]. apply V.num_dot_rest_le in N1.
  destruct (M.num_dot r1) as [[mi r2]|] eqn:N2; [|discriminate]. apply V.num_dot_rest_le in N2.
  pose proof (drop_while_length_le is_digit r2) as L4.
  destruct (take_while is_digit r2); [discriminate|].
  destruct (M.parse_tail (drop_while is_digit r2)) as [[pre b0]|] eqn:PT; [|discriminate].
  apply parse_tail_build_le in PT.
  destruct (M.atoi_digits ma); [|discriminate]. destruct (M.atoi_digits mi); [|discriminate].
  destruct (M.atoi_digits _); [|discriminate]. intros H; injection H as <-. cbn [M.build]. blia.
Qed.

Lemma int_range z : 0 <= z <= max_int64 -> - 2 ^ 63 <= z < 2 ^ 63.
Proof. unfold max_int64. change (2 ^ 63) with 9223372036854775808. lia. Qed.

Lemma normalize_len t v : M.parse_core t = Some v -> (length (M.normalize v) <= 2 * length t + 204)%nat.
Proof.
  intros H. pose proof (RF.parse_core_bounds t v H) as (B1 & B2 & B3).
  pose proof (V.parse_core_prerelease_le t v H) as Lp. pose proof (parse_core_build_le t v H) as Lb.
  unfold M.normalize. rewrite !app_length.
  pose proof (dec_z_len _ (int_range _ B1)). pose proof (dec_z_len _ (int_range _ B2)).
  pose proof (dec_z_len _ (int_range _ B3)).
  change (length ($"." : bytes)) with 1%nat.
  destruct (M.prerelease v); destruct (M.build v); cbn [length] in *; blia.
Qed.

(* ---------- what parse_single returns: at most two constraints, bounds of bounded length ---------- *)

Definition bnd (n : nat) (c : RM.constraint) : Prop := (length (snd c) <= 2 * n + 214)%nat.
Definition good_cs (n k : nat) (cs : list RM.constraint) : Prop := (length cs <= k)%nat /\ Forall (bnd n) cs.

Lemma pad_partial_le s : (length (fst (RM.pad_partial s)) <= length s + 4)%nat.
Proof.
  unfold RM.pad_partial. destruct (RM.contains_any _ s); cbn [fst]; [lia|].
  destruct (count_c "."%char s) as [|[|k]]; cbn [fst]; rewrite ?app_length; cbn; lia.
Qed.

Lemma own_parse_normalize_len padded v : RM.own_parse padded = Some v ->
  (length (M.normalize v) <= 2 * length padded + 204)%nat.
Proof.
  unfold RM.own_parse. intros H. apply normalize_len in H. pose proof (trim_space_length_le padded). blia.
Qed.

Lemma own_parse_ranges padded v : RM.own_parse padded = Some v ->
  - 2 ^ 63 <= M.major v < 2 ^ 63 /\ - 2 ^ 63 <= M.minor v < 2 ^ 63 /\ - 2 ^ 63 <= M.patch v < 2 ^ 63.
Proof.
  unfold RM.own_parse. intros H. apply RF.parse_core_bounds in H as (B1 & B2 & B3).
  repeat split; apply int_range; assumption.
Qed.

Ltac two_bounds n :=
  split; [cbn [length]; lia | repeat constructor; unfold bnd; cbn [snd]].

Lemma parse_caret_good s cs : RM.parse_caret s = Some cs -> good_cs (length s) 2 cs.
Proof.
  unfold RM.parse_caret. pose proof (pad_partial_le s) as PL.
  destruct (RM.pad_partial s) as [padded written]. cbn [fst] in PL.
  destruct (RM.own_parse padded) as [v|] eqn:OP; [|discriminate].
  pose proof (own_parse_normalize_len _ _ OP) as NL. pose proof (own_parse_ranges _ _ OP) as (R1 & R2 & R3).
  pose proof z0_range as Z0.
  destruct (_ && _).
  - destruct (_ && _); intros H; injection H as <-; two_bounds (length s);
      try blia; (etransitivity; [apply ver3_0_len; try assumption; apply succ64_range | lia]).
  - intros H; injection H as <-; two_bounds (length s);
      try blia; (etransitivity; [apply ver3_0_len; try assumption; apply succ64_range | lia]).
Qed.

Lemma parse_tilde_good s cs : RM.parse_tilde s = Some cs -> good_cs (length s) 2 cs.
Proof.
  unfold RM.parse_tilde. pose proof (pad_partial_le s) as PL.
  destruct (RM.pad_partial s) as [padded written]. cbn [fst] in PL.
  destruct (RM.own_parse padded) as [v|] eqn:OP; [|discriminate].
  pose proof (own_parse_normalize_len _ _ OP) as NL. pose proof (own_parse_ranges _ _ OP) as (R1 & R2 & R3).
  pose proof z0_range as Z0.
  destruct (_ =? _)%N; intros H; injection H as <-; two_bounds (length s);
    try blia; (etransitivity; [apply ver3_0_len; try assumption; apply succ64_range | lia]).
Qed.

Lemma parse_xrange_good s cs : RM.parse_xrange s = Some cs -> good_cs (length s) 2 cs.
Proof.
  unfold RM.parse_xrange. pose proof z0_range as Z0.
  destruct (split_c "."%char s) as [|p0 [|p1 [|p2 [|p3 r]]]]; try discriminate.
  - destruct (atoi p0) as [ma|] eqn:A0; [|discriminate]. apply atoi_range in A0.
    destruct (RM.is_x p1); [|discriminate]. intros H; injection H as <-; two_bounds (length s);
      (etransitivity; [apply ver3_0_len; try assumption; apply succ64_range | lia]).
  - destruct (atoi p0) as [ma|] eqn:A0; [|discriminate]. apply atoi_range in A0.
    destruct (RM.is_x p2); [|discriminate].
    destruct (atoi p1) as [mi|] eqn:A1; [|discriminate]. apply atoi_range in A1.
    intros H; injection H as <-; two_bounds (length s);
      (etransitivity; [apply ver3_0_len; try assumption; apply succ64_range | lia]).
Qed.

Lemma good_cs_mono n m k cs : (n <= m)%nat -> good_cs n k cs -> good_cs m k cs.
Proof.
  intros Le [A B]. split; [exact A|]. eapply Forall_impl; [|exact B]. unfold bnd. intros c Hc. lia.
Qed.

Lemma parse_single_good c0 cs : RM.parse_single c0 = Some cs -> good_cs (length c0) 2 cs.
Proof.
  unfold RM.parse_single. cbv zeta. pose proof (trim_space_length_le c0) as TL.
  set (c := trim_space c0) in *. clearbody c.
  destruct (RM.contains_any _ c); [discriminate|]. unfold RM.parse_single_core.
  destruct (beq c $"*").
  { intros H; injection H as <-. split; [cbn [length]; lia|]. repeat constructor. unfold bnd. cbn. lia. }
  pose proof (skipn_length_le 1 c) as SL.
  destruct (has_prefix $"^" c).
  { intros H. apply parse_caret_good in H. eapply good_cs_mono; [|exact H]. blia. }
  destruct (has_prefix $"~" c).
  { intros H. apply parse_tilde_good in H. eapply good_cs_mono; [|exact H]. blia. }
  destruct (existsb _ _).
  { intros H. apply parse_xrange_good in H. eapply good_cs_mono; [|exact H]. blia. }
  destruct (first_prefix RM.npm_ops c) as [[op rest]|] eqn:F.
  - apply first_prefix_rest in F. subst rest.
    pose proof (trim_space_length_le (skipn (length op) c)) as T2.
    pose proof (skipn_length_le (length op) c) as T3.
    intros H; injection H as <-. split; [cbn [length]; lia|]. repeat constructor. unfold bnd. cbn [snd]. blia.
  - intros H; injection H as <-. split; [cbn [length]; lia|]. repeat constructor. unfold bnd. cbn [snd]. blia.
Qed.

Section GoodRange.
  Variable vok : bytes -> bool.

  Lemma parse_spaced_good n : forall ps cs,
    RM.parse_spaced ps = Some cs -> (forall p, In p ps -> (length p <= n)%nat) ->
    good_cs n (2 * length ps) cs.
  Proof.
    induction ps as [|p r IH]; intros cs H Hl; cbn [RM.parse_spaced] in H.
    - injection H as <-. split; [cbn; lia | constructor].
    - destruct (RM.parse_single p) as [k|] eqn:PS; [|discriminate].
      destruct (RM.parse_spaced r) as [l|] eqn:R; [|discriminate]. injection H as <-.
      apply parse_single_good in PS. apply (good_cs_mono _ n) in PS; [|apply Hl; left; reflexivity].
      destruct PS as [A1 B1].
      destruct (IH l eq_refl) as [A2 B2]; [intros q Hq; apply Hl; right; exact Hq|].
      split; [rewrite app_length; cbn [length]; lia | apply Forall_app; split; assumption].
  Qed.

  Lemma parse_hyphen_good s cs : RM.parse_hyphen vok s = Some cs -> good_cs (length s) 2 cs.
  Proof.
    unfold RM.parse_hyphen. destruct (split_sub _ s) as [|a [|b [|c r]]] eqn:E; try discriminate.
    pose proof (NR.split_sub_In_length ($" - ") s a) as La. pose proof (NR.split_sub_In_length ($" - ") s b) as Lb.
    rewrite E in La, Lb. specialize (La (or_introl eq_refl)). specialize (Lb (or_intror (or_introl eq_refl))).
    pose proof (trim_space_length_le a) as Ta. pose proof (trim_space_length_le b) as Tb.
    destruct (trim_space a) as [|x a'] eqn:Ea; [discriminate|]. rewrite <- Ea in *.
    destruct (trim_space b) as [|y b'] eqn:Eb; [discriminate|]. rewrite <- Eb in *.
    destruct (_ && _); [|discriminate]. intros H; injection H as <-.
    split; [cbn [length]; lia|]. repeat constructor; unfold bnd; cbn [snd]; blia.
  Qed.

  Lemma parse_group_good s0 cs : RM.parse_group vok s0 = Some cs -> good_cs (length s0) (2 * length s0 + 2) cs.
  Proof.
    unfold RM.parse_group. cbv zeta.
    set (s := trim_suffix _ _).
    assert (Ls : (length s <= length s0)%nat).
    { subst s. etransitivity; [apply NR.trim_suffix_length_le|].
      etransitivity; [apply NR.trim_prefix_length_le|]. apply trim_space_length_le. }
    clearbody s.
    destruct (_ || _).
    { intros H. apply parse_hyphen_good in H. apply (good_cs_mono _ (length s0)) in H; [|exact Ls].
      destruct H as [A B]. split; [lia | exact B]. }
    destruct (_ && _).
    - intros H. pose proof (fields_length_le s) as FL.
      apply (parse_spaced_good (length s0)) in H.
      + destruct H as [A B]. split; [blia | exact B].
      + intros p Hp. apply fields_In_length in Hp. blia.
    - intros H. apply parse_single_good in H. apply (good_cs_mono _ (length s0)) in H; [|exact Ls].
      destruct H as [A B]. split; [lia | exact B].
  Qed.

  Lemma parse_groups_good n : forall ps gs,
    RM.parse_groups vok ps = Some gs -> (forall p, In p ps -> (length p <= n)%nat) ->
    length gs = length ps /\ Forall (good_cs n (2 * n + 2)) gs.
  Proof.
    induction ps as [|p r IH]; intros gs H Hl; cbn [RM.parse_groups] in H.
    - injection H as <-. split; [reflexivity | constructor].
    - destruct (RM.parse_group vok (trim_space p)) as [g|] eqn:PG; [|discriminate].
      destruct (RM.parse_groups vok r) as [l|] eqn:R; [|discriminate]. injection H as <-.
      destruct (IH l eq_refl) as [A B]; [intros q Hq; apply Hl; right; exact Hq|].
      split; [cbn [length]; rewrite A; reflexivity|]. constructor; [|exact B].
      apply parse_group_good in PG. pose proof (trim_space_length_le p) as TL.
      pose proof (Hl p (or_introl eq_refl)) as Lp.
      apply (good_cs_mono _ n) in PG; [|blia]. destruct PG as [X Y]. split; [blia | exact Y].
  Qed.

  Lemma parse_range_good s rg : RM.parse_range vok s = Some rg ->
    (length (RM.r_groups rg) <= length s + 2)%nat /\
    Forall (good_cs (length s) (2 * length s + 2)) (RM.r_groups rg).
  Proof.
    unfold RM.parse_range. cbv zeta. pose proof (trim_space_length_le s) as TL.
    destruct (trim_space s) as [|x t] eqn:E; [discriminate|]. rewrite <- E in *.
    destruct (contains_sub $"||" (trim_space s)).
    - destruct (RM.parse_groups vok (split_sub $"||" (trim_space s))) as [gs|] eqn:PG; [|discriminate].
      intros H; injection H as <-. cbn [RM.r_groups].
      apply (parse_groups_good (length s)) in PG.
      + destruct PG as [A B]. pose proof (NR.split_sub_length_le $"||" (trim_space s)). split; [blia | exact B].
      + intros p Hp. apply NR.split_sub_In_length in Hp. blia.
    - destruct (RM.parse_group vok (trim_space s)) as [g|] eqn:PG; [|discriminate].
      intros H; injection H as <-. cbn [RM.r_groups]. split; [cbn [length]; lia|].
      constructor; [|constructor]. apply parse_group_good in PG.
      apply (good_cs_mono _ (length s)) in PG; [|exact TL]. destruct PG as [X Y]. split; [blia | exact Y].
  Qed.
End GoodRange.

(* ---------- the range parser looks at the version oracle through its values only ---------- *)

Section Ext.
  Variables vok1 vok2 : bytes -> bool.
  Hypothesis H : forall t, vok1 t = vok2 t.

  Lemma parse_hyphen_ext s : RM.parse_hyphen vok1 s = RM.parse_hyphen vok2 s.
  Proof.
    unfold RM.parse_hyphen. destruct (split_sub _ s) as [|a [|b [|c r]]]; try reflexivity. cbv zeta.
    destruct (trim_space a); [reflexivity|]. destruct (trim_space b); [reflexivity|]. rewrite !H. reflexivity.
  Qed.

  Lemma parse_group_ext s : RM.parse_group vok1 s = RM.parse_group vok2 s.
  Proof. unfold RM.parse_group. cbv zeta. rewrite parse_hyphen_ext. reflexivity. Qed.

  Lemma parse_groups_ext ps : RM.parse_groups vok1 ps = RM.parse_groups vok2 ps.
  Proof.
    induction ps as [|p r IH]; [reflexivity|]. cbn [RM.parse_groups]. rewrite parse_group_ext, IH. reflexivity.
  Qed.

  Lemma parse_range_ext s : RM.parse_range vok1 s = RM.parse_range vok2 s.
  Proof. unfold RM.parse_range. cbv zeta. rewrite parse_groups_ext, parse_group_ext. reflexivity. Qed.
End Ext.

(* the oracles and what is assumed of them *)
Record oracles : Type := {
  vo : V.oracles;
  single : bytes -> option (list G.constraint);        (* parseSingleConstraint *)
  single_agrees : forall c, single c = PR.lift (RM.parse_single c)
}.

(* fuel for Contains: above the number of groups and every group's length *)
Definition cfuel (x : G.VersionRange) : nat :=
  S (Nat.max (length (G.VersionRange_constraintGroups x))
             (list_max (map (@length G.constraint) (G.VersionRange_constraintGroups x)))).

Section E2E.
  Variable O : oracles.

  Local Notation NV := (V.NV (vo O)).
  Local Notation Compare := (V.Compare (vo O)).
  Local Notation findO := (V.find (vo O)).

  (* ---------- the range half of the bundle ---------- *)
  Definition NVR (s : bytes) : option G.VersionRange :=
    total None (P.Ecosystem_NewVersionRange (single O) findO (length s + 3) G.mk_Ecosystem s).
  Definition cm (c : G.constraint) (v : G.Version) : bool :=
    total false (P.constraint_matches (V.cpr (vo O)) findO c v).
  Definition Contains (x : G.VersionRange) (y : G.Version) : bool :=
    total false (L.VersionRange_Contains cm (cfuel x) x y).

  Lemma NVR_eq s : dom s = true -> NVR s = option_map PR.conc (RM.parse_range (PR.vok NV) s).
  Proof.
    intros Hs. apply dom_lt in Hs. unfold NVR.
    rewrite (PR.tie_parse_npm_newversionrange (single O) findO NV (V.NV_computes (vo O)) (single_agrees O)) by lia.
    reflexivity.
  Qed.

  Local Notation e := {| e_name := $"npm"; e_v := mk_vops M.parse_core M.cmp_core M.raw_orig;
                         e_r := Verif.Eco.Npm.Entry.r |}.

  Lemma vok_eq t : self_vok e t = PR.vok NV t.
  Proof.
    unfold PR.vok. rewrite V.NV_eq. unfold self_vok, mk_vops, v_show, e_v, VLayer.parse.
    destruct (M.parse_core (trim_space t)); reflexivity.
  Qed.

  Lemma cm_eq c y :
    cm c y = if beq (G.constraint_operator c) $"*" then true
             else match NV (G.constraint_version c) with
                  | None => false
                  | Some cv => sat (sem6 (G.constraint_operator c)) (cmp_of_Z (Compare y cv))
                  end.
  Proof.
    unfold cm. rewrite (PC.tie_parse_npm_matches (V.cpr (vo O)) findO NV (V.NV_computes (vo O))). reflexivity.
  Qed.

  Lemma matches_one n v y c :
    2 * Z.of_nat n + 512 < 2 ^ 63 -> dom v = true -> NV v = Some y -> bnd n c ->
    cm (PR.cc c) y = RM.matches (self_vok e) (self_vcmp e) v c.
  Proof.
    intros Hn Dv Ev Bc. rewrite cm_eq. destruct c as [op b]. unfold bnd in Bc. cbn [snd] in Bc.
    cbn [PR.cc fst snd G.constraint_operator G.constraint_version]. unfold RM.matches. cbn [fst snd].
    destruct (beq op $"*"); [reflexivity|]. rewrite vok_eq. unfold PR.vok.
    destruct (NV b) as [x|] eqn:Eb; [|reflexivity].
    apply dom_lt in Dv.
    assert (Fy : fits1 (G.Version_prerelease y)) by (apply (V.NV_fits (vo O) (length v) v y); assumption || lia).
    assert (Fx : fits1 (G.Version_prerelease x))
      by (apply (V.NV_fits (vo O) (2 * n + 214) b x); try assumption; lia).
    rewrite (V.cmp_fits (vo O) y x Fy Fx), cmp_of_Z_of_cmp. f_equal. symmetry.
    apply (self_vcmp_core _ M.parse_core M.cmp_core M.raw_orig $"npm" Verif.Eco.Npm.Entry.r).
    - rewrite <- (V.H_nv (vo O)), Ev. reflexivity.
    - rewrite <- (V.H_nv (vo O)), Eb. reflexivity.
  Qed.

  Lemma forallb_one n v y g :
    2 * Z.of_nat n + 512 < 2 ^ 63 -> dom v = true -> NV v = Some y -> Forall (bnd n) g ->
    forallb (fun c => cm c y) (map PR.cc g) = forallb (RM.matches (self_vok e) (self_vcmp e) v) g.
  Proof.
    intros Hn Dv Ev. induction 1 as [|c g Bc _ IH]; [reflexivity|]. cbn [map forallb].
    rewrite (matches_one n v y c Hn Dv Ev Bc), IH. reflexivity.
  Qed.

  Lemma Contains_eq r v y rg :
    dom r = true -> dom v = true -> NV v = Some y -> RM.parse_range (PR.vok NV) r = Some rg ->
    Contains (PR.conc rg) y = RM.contains (self_vok e) (self_vcmp e) rg v.
  Proof.
    intros Dr Dv Ev PRg. pose proof (dom_lt r Dr) as Hr.
    destruct (parse_range_good _ _ _ PRg) as [Lg Gg].
    unfold Contains. set (x := PR.conc rg).
    assert (Ex : G.VersionRange_constraintGroups x = map (map PR.cc) (RM.r_groups rg)) by reflexivity.
    rewrite (PC.tie_loops_npm_contains cm (cfuel x) x y).
    - cbn [total]. rewrite Ex. clear Ex Lg. unfold RM.contains.
      induction Gg as [|g gs [_ Bg] _ IH]; [reflexivity|]. cbn [map existsb].
      rewrite (forallb_one (length r) v y g) by (assumption || lia). f_equal. exact IH.
    - rewrite Ex, map_length. lia.
    - unfold cfuel. lia.
    - intros g Hg. pose proof Hg as Hg'. rewrite Ex in Hg. apply in_map_iff in Hg as (g0 & <- & Hg0).
      rewrite Forall_forall in Gg. destruct (Gg g0 Hg0) as [Lg0 _]. rewrite map_length.
      split; [lia|].
      assert (LM : (length (map PR.cc g0) <= list_max (map (@length G.constraint) (G.VersionRange_constraintGroups x)))%nat).
      { pose proof (proj1 (list_max_le (map (@length G.constraint) (G.VersionRange_constraintGroups x)) _) (le_n _)) as FM.
        rewrite Forall_forall in FM. apply FM. apply in_map. exact Hg'. }
      rewrite map_length in LM. unfold cfuel. lia.
  Qed.

  (* ---------- lib_ties ---------- *)

  Theorem npm_lib_ties_on :
    lib_ties_on G.Version G.VersionRange V.Name NV NVR Contains Compare G.Version_String
                (Top.model_lib $"npm") dom.
  Proof.
    apply (custom_lib_ties_on M.core M.parse_core M.cmp_core M.raw_orig Verif.Eco.Npm.Entry.r $"npm" V.eco_found
             G.Version G.VersionRange V.Name NV NVR Contains Compare G.Version_String TV.abs dom).
    - reflexivity.
    - intros s _. apply V.H_nv.
    - intros a b x y Da Db. apply (V.H_cmp (vo O)); apply dom_short; assumption.
    - intros a x _. apply V.H_str.
    - intros s Ds. cbn [r_show Verif.Eco.Npm.Entry.r].
      rewrite (parse_range_ext _ _ vok_eq s), (NVR_eq s Ds).
      destruct (RM.parse_range (PR.vok NV) s); reflexivity.
    - intros r v x y Dr Dv Er Ev. cbn [r_contains Verif.Eco.Npm.Entry.r].
      rewrite (parse_range_ext _ _ vok_eq r). rewrite (NVR_eq r Dr) in Er.
      destruct (RM.parse_range (PR.vok NV) r) as [rg|] eqn:PRg; [|discriminate].
      cbn [option_map] in Er. injection Er as <-.
      rewrite vok_eq. unfold PR.vok at 1. rewrite Ev.
      apply (Contains_eq r v y rg Dr Dv Ev PRg).
  Qed.

  (* the record of Tie/Cli/Common.v, for the bundle guarded by the domain *)
  Corollary npm_lib_ties :
    lib_ties G.Version G.VersionRange V.Name (guard dom NV) (guard dom NVR) Contains Compare
             G.Version_String (restrict (Top.model_lib $"npm") dom).
  Proof. apply lib_ties_guard, npm_lib_ties_on. Qed.

  (* ---------- the CLI ---------- *)

  Variable sort_by : forall A : Type, (A -> A -> Z) -> list A -> list A.
  Variable e1 e2 e3 : list bytes -> bytes.

  Definition runEcosystem : nat -> list bytes -> res (bytes * Z) :=
    CmdCore.runEcosystem G.Version G.VersionRange V.Name NV NVR Contains Compare G.Version_String sort_by e1 e2 e3.

  Local Notation Lm := (Top.model_lib $"npm").
  Local Notation accepted := (fun s : bytes => l_vok Lm s = true).

  (* `univers npm <args>` as computed by the source-derived code is the CLI model's outcome *)
  Theorem npm_runEcosystem_e2e (fuel : nat) (args : list bytes) :
    sort_ok G.Version NV Compare sort_by accepted ->
    fits args -> (length args < fuel)%nat -> Forall (fun a => dom a = true) args ->
    (forall rest, args = $"sort" :: rest -> Forall accepted rest -> show_respects Lm rest) ->
    exists r, runEcosystem fuel args = Done r /\ shown (run_ecosystem Lm args) r.
  Proof.
    intros SO F Hf FD SR.
    apply (eco_runEcosystem_e2e_on _ _ _ _ _ _ _ _ ($"npm" : bytes) dom accepted npm_lib_ties_on V.npm_model_tpo
             sort_by e1 e2 e3 fuel args SO F Hf FD).
    intros rest E OK. split; [exact OK | exact (SR rest E OK)].
  Qed.

  Corollary npm_cli_e2e (fuel : nat) (args : list bytes) :
    sort_ok G.Version NV Compare sort_by accepted ->
    fits args -> (length args < fuel)%nat -> Forall (fun a => dom a = true) args ->
    (forall rest, args = $"sort" :: rest -> Forall accepted rest -> show_respects Lm rest) ->
    exists r, runEcosystem fuel args = Done r /\ shown (Top.model_cli (($"npm" : bytes) :: args)) r.
  Proof.
    intros SO F Hf FD SR.
    apply (eco_cli_e2e_on _ _ _ _ _ _ _ _ ($"npm" : bytes) dom accepted npm_lib_ties_on V.npm_model_tpo
             eq_refl eq_refl sort_by e1 e2 e3 fuel args SO F Hf FD).
    intros rest E OK. split; [exact OK | exact (SR rest E OK)].
  Qed.

  (* the exit status: no hypothesis on the order, the sort oracle only has to return a permutation *)
  Theorem npm_cli_e2e_exit (fuel : nat) (args : list bytes) :
    (forall l, Permutation (sort_by G.Version Compare l) l) ->
    fits args -> (length args < fuel)%nat -> Forall (fun a => dom a = true) args ->
    exists r, runEcosystem fuel args = Done r /\ snd r = exit_code (Top.model_cli (($"npm" : bytes) :: args)).
  Proof.
    apply (eco_cli_e2e_exit_on _ _ _ _ _ _ _ _ ($"npm" : bytes) dom npm_lib_ties_on eq_refl eq_refl).
  Qed.
End E2E.

Print Assumptions npm_lib_ties_on.
Print Assumptions npm_lib_ties.
Print Assumptions npm_runEcosystem_e2e.
Print Assumptions npm_cli_e2e.
Print Assumptions npm_cli_e2e_exit.
Print Assumptions dom_lt.
Print Assumptions dom_short.
Print Assumptions dec_fuel_len.
Print Assumptions size_nat_le.
Print Assumptions dec_len_pos.
Print Assumptions dec_z_len.
Print Assumptions wrap64_range.
Print Assumptions atoi_range.
Print Assumptions ver3_0_len.
Print Assumptions parse_core_build_le.
Print Assumptions normalize_len.
Print Assumptions parse_caret_good.
Print Assumptions parse_tilde_good.
Print Assumptions parse_xrange_good.
Print Assumptions parse_single_good.
Print Assumptions parse_range_good.
Print Assumptions parse_range_ext.
Print Assumptions NVR_eq.
Print Assumptions vok_eq.
Print Assumptions cm_eq.
Print Assumptions matches_one.
Print Assumptions forallb_one.
Print Assumptions Contains_eq.
Print Assumptions succ64_range.
Print Assumptions z0_range.
Print Assumptions drop_while_le.
Print Assumptions parse_tail_build_le.
Print Assumptions int_range.
Print Assumptions pad_partial_le.
Print Assumptions own_parse_normalize_len.
Print Assumptions own_parse_ranges.
Print Assumptions good_cs_mono.
Print Assumptions parse_spaced_good.
Print Assumptions parse_hyphen_good.
Print Assumptions parse_group_good.
Print Assumptions parse_groups_good.
Print Assumptions parse_hyphen_ext.
Print Assumptions parse_group_ext.
Print Assumptions parse_groups_ext.
