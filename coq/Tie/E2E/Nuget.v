(* Tie/E2E/Nuget.v — END TO END for nuget: the bundle of the CLI section (Gen/Parse/CmdCore.v) built out of the
   functions generated from pkg/ecosystem/nuget, tied to [Top.model_lib $"nuget"].

     Name             Gen.Code.Nuget.Ecosystem_Name
     NewVersion       Gen.Parse.Nuget.Ecosystem_NewVersion at the regexp oracle (loop-free), made total
     NewVersionRange  Gen.Parse.Nuget.Ecosystem_NewVersionRange, fuel length s + 7, made total
     Compare          Gen.Code.Nuget.Version_Compare at Tie/Loops/Nuget.comparePrerelease_total (the generated loop
                      of Gen/Loops/Nuget.v) at the GENERATED parseNum (Gen/Parse/Nuget.v) over strings.TrimLeft
     String           Gen.Code.Nuget.Version_String
     Contains         Gen.Code.Nuget.VersionRange_Contains at the same total function

   Hypotheses ([oracles]): versionPattern.FindStringSubmatch agrees with the reference matcher of
   Tie/Parse/Nuget.v; strings.TrimLeft(s, "0123456789") drops the leading digits.  Every function of the package
   is source-derived (nothing is skipped).

   nuget's range model is a CUSTOM one (Eco/Nuget/Range.v: bracket intervals): the functional tie of the range
   parser is Tie/E2E/NugetParse.tie_parse_nuget_newversionrange (new: Tie/Parse/NugetRange.v had the no-panic
   half only); Contains is Tie/Loops/NugetRange.tie_nuget_matches_closed constraint by constraint.
   [nuget_lib_ties_on]: all six fields of [lib_ties] on the texts of length < 2^63 - 64 ([short]). *)
From Coq Require Import ZArith List Ascii Bool Lia Permutation Sorted.
From Verif.Base Require Import Bytes GoNum GoOps Ord Sorting Imp ImpFacts ImpErr ImpCore BytesFacts.
From Verif.Cli Require Import Model.
From Verif.Eco Require Import RangeCore Iface VLayer.
From Verif.Eco.Nuget Require Version VersionFacts Range Entry.
From Verif.Gen.Code Require Nuget.
From Verif.Gen.Loops Require Nuget.
From Verif.Gen.Parse Require Nuget CmdCore.
From Verif.Tie Require Import Tactics.
From Verif.Tie Require Nuget NugetRange.
From Verif.Tie.Loops Require Import Common Idents.
From Verif.Tie.Loops Require Nuget NugetRange.
From Verif.Tie.Parse Require Import Common RangeCommon.
From Verif.Tie.Parse Require Nuget NugetRange NpmRange.
From Verif.Tie.Cli Require Import Common Spec Ties.
From Verif.Properties.Support Require Import SimpleRops.
From Verif.Tie.E2E Require Import Common CommonK6.
From Verif.Tie.E2E Require NugetParse.
From Verif Require Top.
Import ListNotations.
Local Open Scope Z_scope.

Module G := Verif.Gen.Code.Nuget.
Module P := Verif.Gen.Parse.Nuget.
Module M := Verif.Eco.Nuget.Version.
Module MF := Verif.Eco.Nuget.VersionFacts.
Module RM := Verif.Eco.Nuget.Range.
Module TV := Verif.Tie.Nuget.
Module PV := Verif.Tie.Parse.Nuget.
Module PR := Verif.Tie.E2E.NugetParse.
Module TL := Verif.Tie.Loops.Nuget.
Module TLR := Verif.Tie.Loops.NugetRange.

Ltac blia := unfold bytes in *; lia.

(* ---------- lengths ---------- *)

Lemma take_while_le p (s : bytes) : (length (take_while p s) <= length s)%nat.
Proof. induction s as [|c s IH]; cbn [take_while length]; [lia|]. destruct (p c); cbn [length]; lia. Qed.

Lemma num_groups_rest_le n : forall r, (length (snd (M.num_groups n r)) <= length r)%nat.
Proof.
  induction n as [|k IH]; intros r; cbn [M.num_groups snd]; [lia|].
  destruct r as [|c r']; cbn [snd]; [lia|]. destruct (ceqb c "."%char); cbn [snd]; [|lia].
  destruct (take_while is_digit r') eqn:E; cbn [snd]; [lia|].
  specialize (IH (drop_while is_digit r')). pose proof (drop_while_length_le is_digit r').
  destruct (M.num_groups k (drop_while is_digit r')) as [ds rest]. cbn [snd length] in *. blia.
Qed.

Lemma parse_tail_pre_le r pre bld : M.parse_tail r = Some (pre, bld) -> (length pre <= length r)%nat.
Proof.
  unfold M.parse_tail, span. destruct r as [|c r']; [intros H; injection H as <- <-; cbn; lia|].
  destruct (ceqb c "-"%char).
  - pose proof (take_while_le M.is_idc_dot r') as L.
    destruct (M.ident_list_ok (take_while M.is_idc_dot r')); [|discriminate].
    destruct (drop_while M.is_idc_dot r') as [|c2 b].
    + intros H; injection H as <- <-. cbn [length]. blia.
    + destruct (ceqb c2 "+"%char); [|discriminate]. destruct (M.ident_list_ok b); [|discriminate].
      intros H; injection H as <- <-. cbn [length]. blia.
  - destruct (ceqb c "+"%char); [|discriminate]. destruct (M.ident_list_ok r'); [|discriminate].
    intros H; injection H as <- <-. cbn [length]. lia.
Qed.

Lemma parse_core_prerelease_le t c : M.parse_core t = Some c -> (length (M.prerelease c) <= length t)%nat.
Proof.
  unfold M.parse_core, span. cbv zeta.
  pose proof (Verif.Tie.Parse.NpmRange.trim_prefix_length_le $"v" t) as L1.
  set (t1 := trim_prefix $"v" t) in *.
  pose proof (Verif.Tie.Parse.NpmRange.trim_prefix_length_le $"v" t1) as L2.
  set (t2 := trim_prefix $"v" t1) in *.
  pose proof (drop_while_length_le is_digit t2) as L3.
  destruct (take_while is_digit t2); [discriminate|].
  pose proof (num_groups_rest_le 3 (drop_while is_digit t2)) as L4.
  destruct (M.num_groups 3 (drop_while is_digit t2)) as [ds r2]. cbn [snd] in L4.
  destruct (M.parse_tail r2) as [[pre bld]|] eqn:PT; [|discriminate]. apply parse_tail_pre_le in PT.
  destruct (M.num_of _); [|discriminate]. destruct (M.nth_num ds 0); [|discriminate].
  destruct (M.nth_num ds 1); [|discriminate]. destruct (M.nth_num ds 2); [|discriminate].
  intros H; injection H as <-. cbn [M.prerelease]. blia.
Qed.

(* ---------- the range parser looks at the version oracle through its values only ---------- *)

Section Ext.
  Variables vok1 vok2 : bytes -> bool.
  Hypothesis H : forall t, vok1 t = vok2 t.

  Lemma two_bounds_ext lo hi a b : RM.two_bounds vok1 lo hi a b = RM.two_bounds vok2 lo hi a b.
  Proof. unfold RM.two_bounds. rewrite !H. reflexivity. Qed.

  Lemma parse_incl_ext t : RM.parse_incl vok1 t = RM.parse_incl vok2 t.
  Proof.
    unfold RM.parse_incl. destruct (split_c _ _) as [|p0 [|p1 [|p2 r]]]; try reflexivity. apply two_bounds_ext.
  Qed.

  Lemma parse_mixed_ext t : RM.parse_mixed vok1 t = RM.parse_mixed vok2 t.
  Proof.
    unfold RM.parse_mixed. cbv zeta. destruct (split_c _ _) as [|p0 [|p1 [|p2 r]]]; try reflexivity.
    rewrite two_bounds_ext, !H. reflexivity.
  Qed.

  Lemma parse_excl_ext t : RM.parse_excl vok1 t = RM.parse_excl vok2 t.
  Proof.
    unfold RM.parse_excl. cbv zeta. destruct (split_c _ _) as [|p0 [|p1 [|p2 r]]]; try reflexivity.
    rewrite two_bounds_ext, parse_mixed_ext. reflexivity.
  Qed.

  Lemma parse_single_ext c : RM.parse_single vok1 c = RM.parse_single vok2 c.
  Proof.
    unfold RM.parse_single. cbv zeta. destruct (first_prefix _ _) as [[op rest]|]; rewrite H; reflexivity.
  Qed.

  Lemma parse_parts_ext ps : RM.parse_parts vok1 ps = RM.parse_parts vok2 ps.
  Proof.
    induction ps as [|p r IH]; [reflexivity|]. cbn [RM.parse_parts]. cbv zeta.
    destruct (trim_space p); [exact IH|]. rewrite parse_single_ext, IH. reflexivity.
  Qed.

  Lemma parse_plain_ext t : RM.parse_plain vok1 t = RM.parse_plain vok2 t.
  Proof. unfold RM.parse_plain, RM.parse_comma. rewrite parse_parts_ext, H. reflexivity. Qed.

  Lemma parse_cs_ext t : RM.parse_cs vok1 t = RM.parse_cs vok2 t.
  Proof.
    unfold RM.parse_cs. cbv zeta.
    rewrite parse_incl_ext, parse_excl_ext, parse_mixed_ext, parse_plain_ext, !H. reflexivity.
  Qed.

  Lemma parse_range_ext s : RM.parse_range vok1 s = RM.parse_range vok2 s.
  Proof. unfold RM.parse_range. cbv zeta. rewrite parse_cs_ext. reflexivity. Qed.
End Ext.

(* ---------- every bound of a parsed range is accepted and no longer than the range text ---------- *)

Section Good.
  Variable vok : bytes -> bool.

  Definition good (n : nat) (c : constraint) : Prop := vok (snd c) = true /\ (length (snd c) <= n)%nat.

  Lemma inner_le (t : bytes) : (length (RM.inner t) <= length t)%nat.
  Proof.
    unfold RM.inner. rewrite removelast_firstn_len. rewrite firstn_length.
    destruct t; cbn [tl length]; lia.
  Qed.

  Lemma two_bounds_good n lo hi a b cs :
    RM.two_bounds vok lo hi a b = Some cs -> (length a <= n)%nat -> (length b <= n)%nat -> Forall (good n) cs.
  Proof.
    unfold RM.two_bounds. destruct (vok a) eqn:Va; [|discriminate]. destruct (vok b) eqn:Vb; [|discriminate].
    intros E La Lb. injection E as <-. repeat constructor; cbn [snd]; assumption.
  Qed.

  Lemma one_bound_good n op a cs :
    (if vok a then Some [(op, a)] else None) = Some cs -> (length a <= n)%nat -> Forall (good n) cs.
  Proof.
    destruct (vok a) eqn:Va; [|discriminate]. intros E La. injection E as <-.
    repeat constructor; cbn [snd]; assumption.
  Qed.

  (* the two parts of the inner text *)
  Lemma parts_le t p0 p1 : split_c ","%char (RM.inner t) = [p0; p1] ->
    (length (trim_space p0) <= length t)%nat /\ (length (trim_space p1) <= length t)%nat.
  Proof.
    intros E. pose proof (inner_le t) as IL.
    pose proof (split_c_In_length ","%char (RM.inner t) p0) as L0.
    pose proof (split_c_In_length ","%char (RM.inner t) p1) as L1.
    rewrite E in L0, L1. specialize (L0 (or_introl eq_refl)). specialize (L1 (or_intror (or_introl eq_refl))).
    pose proof (trim_space_length_le p0). pose proof (trim_space_length_le p1). blia.
  Qed.

  Lemma parse_incl_good t cs : RM.parse_incl vok t = Some cs -> Forall (good (length t)) cs.
  Proof.
    unfold RM.parse_incl. destruct (split_c _ _) as [|p0 [|p1 [|p2 r]]] eqn:E; try discriminate.
    destruct (parts_le t p0 p1 E) as [L0 L1]. intros H. apply (two_bounds_good _ _ _ _ _ _ H L0 L1).
  Qed.

  Lemma parse_mixed_good t cs : RM.parse_mixed vok t = Some cs -> Forall (good (length t)) cs.
  Proof.
    unfold RM.parse_mixed. cbv zeta. destruct (split_c _ _) as [|p0 [|p1 [|p2 r]]] eqn:E; try discriminate.
    destruct (parts_le t p0 p1 E) as [L0 L1].
    destruct (_ && _); [intros H; apply (one_bound_good _ _ _ _ H L1)|].
    destruct (_ && _); [intros H; apply (one_bound_good _ _ _ _ H L0)|].
    intros H. apply (two_bounds_good _ _ _ _ _ _ H L0 L1).
  Qed.

  Lemma parse_excl_good t cs : RM.parse_excl vok t = Some cs -> Forall (good (length t)) cs.
  Proof.
    unfold RM.parse_excl. cbv zeta. destruct (split_c _ _) as [|p0 [|p1 [|p2 r]]] eqn:E; try discriminate.
    destruct (parts_le t p0 p1 E) as [L0 L1].
    destruct (xorb _ _); [apply parse_mixed_good|].
    intros H. apply (two_bounds_good _ _ _ _ _ _ H L0 L1).
  Qed.

  Lemma parse_single_good c k : RM.parse_single vok c = Some k -> good (length c) k.
  Proof.
    unfold RM.parse_single. cbv zeta. pose proof (trim_space_length_le c) as TL.
    set (s := trim_space c) in *. clearbody s.
    destruct (first_prefix RM.nuget_ops s) as [[op rest]|] eqn:F.
    - apply first_prefix_rest in F. subst rest.
      pose proof (trim_space_length_le (skipn (length op) s)) as T2.
      pose proof (skipn_length_le (length op) s) as T3.
      destruct (vok _) eqn:V; [|discriminate]. intros H; injection H as <-. split; cbn [snd]; [exact V | blia].
    - destruct (vok s) eqn:V; [|discriminate]. intros H; injection H as <-. split; cbn [snd]; [exact V | blia].
  Qed.

  Lemma parse_parts_good n : forall ps cs,
    RM.parse_parts vok ps = Some cs -> (forall p, In p ps -> (length p <= n)%nat) -> Forall (good n) cs.
  Proof.
    induction ps as [|p r IH]; intros cs H Hl; cbn [RM.parse_parts] in H.
    - injection H as <-. constructor.
    - cbv zeta in H. pose proof (trim_space_length_le p) as TL. pose proof (Hl p (or_introl eq_refl)) as Lp.
      assert (Hr : forall q, In q r -> (length q <= n)%nat) by (intros q Hq; apply Hl; right; exact Hq).
      destruct (trim_space p) as [|x p'] eqn:E; [exact (IH cs H Hr)|]. rewrite <- E in *.
      destruct (RM.parse_single vok (trim_space p)) as [k|] eqn:PS; [|discriminate].
      destruct (RM.parse_parts vok r) as [l|] eqn:R; [|discriminate]. injection H as <-.
      constructor; [|exact (IH l eq_refl Hr)].
      apply parse_single_good in PS. destruct PS as [A B]. split; [exact A | blia].
  Qed.

  Lemma parse_plain_good t cs : RM.parse_plain vok t = Some cs -> Forall (good (length t)) cs.
  Proof.
    unfold RM.parse_plain, RM.parse_comma. destruct (contains_c ","%char t).
    - destruct (_ || _); [discriminate|].
      destruct (RM.parse_parts vok (split_c ","%char t)) as [[|c l]|] eqn:PP; try discriminate.
      intros H; injection H as <-. apply (parse_parts_good _ _ _ PP). intros p Hp.
      apply split_c_In_length in Hp. exact Hp.
    - intros H. apply (one_bound_good _ _ _ _ H). lia.
  Qed.

  Lemma parse_cs_good t cs : RM.parse_cs vok t = Some cs -> Forall (good (length t)) cs.
  Proof.
    unfold RM.parse_cs. cbv zeta.
    destruct (_ && _); [|apply parse_plain_good].
    destruct (_ || _); [discriminate|].
    destruct (_ && _).
    { pose proof (inner_le t) as IL. pose proof (trim_space_length_le (RM.inner t)) as TL.
      destruct (trim_space (RM.inner t)) as [|x a] eqn:E; [discriminate|]. rewrite <- E in *.
      intros H. apply (one_bound_good _ _ _ _ H). blia. }
    destruct (_ && _); [apply parse_incl_good|].
    destruct (_ && _); [apply parse_excl_good|].
    destruct (_ && _); [apply parse_mixed_good|].
    apply parse_plain_good.
  Qed.

  Lemma parse_range_good s rg : RM.parse_range vok s = Some rg -> Forall (good (length s)) (RM.r_cs rg).
  Proof.
    unfold RM.parse_range. cbv zeta. pose proof (trim_space_length_le s) as TL.
    destruct (trim_space s) as [|x t] eqn:E; [discriminate|]. rewrite <- E in *.
    destruct (RM.parse_cs vok (trim_space s)) as [cs|] eqn:PC; [|discriminate].
    intros H; injection H as <-. cbn [RM.r_cs]. apply parse_cs_good in PC.
    eapply Forall_impl; [|exact PC]. intros c [A B]. split; [exact A | blia].
  Qed.
End Good.

(* ---------- the generated parseNum ---------- *)

Lemma drop_while_nil_forallb p (s : bytes) : beq (drop_while p s) [] = forallb p s.
Proof.
  induction s as [|c s IH]; [reflexivity|]. cbn [drop_while forallb]. destruct (p c); [exact IH | reflexivity].
Qed.

(* the oracles and what is assumed of them *)
Record oracles : Type := {
  find : bytes -> option (list bytes);     (* versionPattern.FindStringSubmatch *)
  trimleft : bytes -> bytes -> bytes;      (* strings.TrimLeft *)
  find_agrees : forall t, find t = PV.ref_match t;
  trimleft_agrees : forall s, trimleft s $"0123456789" = drop_while is_digit s
}.

Section E2E.
  Variable O : oracles.

  (* ---------- the concrete bundle ---------- *)
  Definition pnum : bytes -> Z * bool := P.parseNum (trimleft O).
  Definition cpr : bytes -> bytes -> Z := TL.comparePrerelease_total pnum.
  Definition Name : bytes := G.Ecosystem_Name G.mk_Ecosystem.
  Definition NV (s : bytes) : option G.Version :=
    total None (P.Ecosystem_NewVersion (find O) G.mk_Ecosystem s).
  Definition NVR (s : bytes) : option G.VersionRange :=
    total None (P.Ecosystem_NewVersionRange (find O) (length s + 7) G.mk_Ecosystem s).
  Definition Compare : G.Version -> G.Version -> Z := G.Version_Compare cpr.
  Definition Contains : G.VersionRange -> G.Version -> bool := G.VersionRange_Contains cpr.

  Lemma pnum_model s : pnum s = num_pair (M.parse_num s).
  Proof.
    unfold pnum, P.parseNum, M.parse_num, all_digits. rewrite trimleft_agrees, drop_while_nil_forallb.
    destruct (forallb is_digit s); cbn [negb]; [|reflexivity]. destruct (atoi s); reflexivity.
  Qed.

  Lemma NV_eq s : NV s = option_map (PV.conc s) (M.parse_core (trim_space s)).
  Proof. unfold NV. rewrite (PV.tie_parse_nuget_newversion (find O) (find_agrees O)). reflexivity. Qed.

  Lemma NV_computes e v : P.Ecosystem_NewVersion (find O) e v = Done (NV v).
  Proof. rewrite NV_eq. apply (PV.tie_parse_nuget_newversion (find O) (find_agrees O)). Qed.

  Lemma NV_fits n a x : (Z.of_nat n + 1 < 2 ^ 63) -> (length a <= n)%nat -> NV a = Some x ->
    fits1 (G.Version_prerelease x).
  Proof.
    intros Hn La. rewrite NV_eq. destruct (M.parse_core (trim_space a)) as [c|] eqn:E; [|discriminate].
    intros H. injection H as <-. apply parse_core_prerelease_le in E.
    pose proof (trim_space_length_le a). unfold fits1, PV.conc. cbn [G.Version_prerelease]. blia.
  Qed.

  Lemma NVR_eq s : short s = true ->
    NVR s = option_map (PR.conc NV) (RM.parse_range (PR.vok NV) s).
  Proof.
    intros Hs. apply short_lt in Hs. unfold NVR.
    rewrite (PR.tie_parse_nuget_newversionrange (find O) NV NV_computes) by lia. reflexivity.
  Qed.

  Lemma eco_found :
    Top.eco_or_none $"nuget" =
    Some {| e_name := $"nuget"; e_v := mk_vops M.parse_core M.cmp_core M.raw_orig;
            e_r := Verif.Eco.Nuget.Entry.r |}.
  Proof. reflexivity. Qed.

  Local Notation e := {| e_name := $"nuget"; e_v := mk_vops M.parse_core M.cmp_core M.raw_orig;
                         e_r := Verif.Eco.Nuget.Entry.r |}.

  Lemma H_nv s : option_map TV.abs (NV s) = M.parse_core (trim_space s).
  Proof.
    rewrite NV_eq. destruct (M.parse_core (trim_space s)) as [c|]; [|reflexivity].
    cbn [option_map]. rewrite PV.abs_conc. reflexivity.
  Qed.

  Lemma cmp_fits x y : fits1 (G.Version_prerelease x) -> fits1 (G.Version_prerelease y) ->
    Compare x y = Z_of_cmp (M.cmp_core (TV.abs x) (TV.abs y)).
  Proof. apply (TL.tie_nuget_compare_closed pnum pnum_model). Qed.

  Lemma H_cmp a b x y : short a = true -> short b = true -> NV a = Some x -> NV b = Some y ->
    Compare x y = Z_of_cmp (M.cmp_core (TV.abs x) (TV.abs y)).
  Proof.
    intros Da Db Ea Eb. apply short_lt in Da, Db.
    apply cmp_fits; [apply (NV_fits (length a) a x) | apply (NV_fits (length b) b y)]; assumption || lia.
  Qed.

  Lemma vok_eq t : self_vok e t = PR.vok NV t.
  Proof.
    unfold PR.vok. rewrite NV_eq. unfold self_vok, mk_vops, v_show, e_v, VLayer.parse.
    destruct (M.parse_core (trim_space t)); reflexivity.
  Qed.

  Lemma matches_one r v y c :
    short r = true -> short v = true -> NV v = Some y -> good (PR.vok NV) (length r) c ->
    G.constraint_matches cpr (PR.cc NV c) y = RM.sat_constraint (self_vcmp e) v c.
  Proof.
    intros Dr Dv Ev [Vc Lc]. destruct c as [op b]. cbn [fst snd] in *.
    unfold PR.vok in Vc. destruct (NV b) as [x|] eqn:Eb; [|discriminate].
    apply short_lt in Dr. pose proof Dv as Dv'. apply short_lt in Dv'.
    assert (Fy : fits1 (G.Version_prerelease y)) by (apply (NV_fits (length v) v y); assumption || lia).
    assert (Fx : fits1 (G.Version_prerelease x)) by (apply (NV_fits (length r) b x); assumption || lia).
    unfold PR.cc, PR.getv. cbn [fst snd]. rewrite Eb.
    rewrite (TLR.tie_nuget_matches_closed pnum pnum_model) by assumption.
    cbn [G.constraint_operator G.constraint_version]. unfold RM.sat_constraint. cbn [fst snd].
    f_equal. symmetry.
    apply (self_vcmp_core _ M.parse_core M.cmp_core M.raw_orig $"nuget" Verif.Eco.Nuget.Entry.r).
    - rewrite <- H_nv, Ev. reflexivity.
    - rewrite <- H_nv, Eb. reflexivity.
  Qed.

  (* ---------- lib_ties ---------- *)

  Theorem nuget_lib_ties_on :
    lib_ties_on G.Version G.VersionRange Name NV NVR Contains Compare G.Version_String
                (Top.model_lib $"nuget") short.
  Proof.
    apply (custom_lib_ties_on M.core M.parse_core M.cmp_core M.raw_orig Verif.Eco.Nuget.Entry.r $"nuget" eco_found
             G.Version G.VersionRange Name NV NVR Contains Compare G.Version_String TV.abs short).
    - reflexivity.
    - intros s _. apply H_nv.
    - exact H_cmp.
    - intros a x _ E. rewrite NV_eq in E. destruct (M.parse_core (trim_space a)); [|discriminate].
      injection E as <-. reflexivity.
    - intros s Ds. cbn [r_show Verif.Eco.Nuget.Entry.r].
      rewrite (parse_range_ext _ _ vok_eq s), (NVR_eq s Ds).
      destruct (RM.parse_range (PR.vok NV) s); reflexivity.
    - intros r v x y Dr Dv Er Ev. cbn [r_contains Verif.Eco.Nuget.Entry.r].
      rewrite (parse_range_ext _ _ vok_eq r). rewrite (NVR_eq r Dr) in Er.
      destruct (RM.parse_range (PR.vok NV) r) as [rg|] eqn:PRg; [|discriminate].
      cbn [option_map] in Er. injection Er as <-.
      rewrite vok_eq. unfold PR.vok at 1. rewrite Ev.
      unfold Contains, G.VersionRange_Contains, PR.conc, RM.contains. cbn [G.VersionRange_constraints].
      pose proof (parse_range_good _ _ _ PRg) as GG.
      induction (RM.r_cs rg) as [|k ks IH]; [reflexivity|]. cbn [map forallb].
      inversion GG as [|? ? Gk Gks]; subst.
      rewrite (matches_one r v y k Dr Dv Ev Gk). f_equal. apply IH. exact Gks.
  Qed.

  (* the record of Tie/Cli/Common.v, for the bundle guarded by the length bound *)
  Corollary nuget_lib_ties :
    lib_ties G.Version G.VersionRange Name (guard short NV) (guard short NVR) Contains Compare
             G.Version_String (restrict (Top.model_lib $"nuget") short).
  Proof. apply lib_ties_guard, nuget_lib_ties_on. Qed.

  Theorem nuget_name_ok : Name = $"nuget".
  Proof. reflexivity. Qed.

  Theorem nuget_model_tpo :
    TotalPreorderOn (fun s => l_vok (Top.model_lib $"nuget") s = true) (l_vcmp (Top.model_lib $"nuget")).
  Proof. apply (model_lib_tpo _ _ _ _ _ _ eco_found MF.cmp_core_tp). Qed.

  (* ---------- the CLI ---------- *)

  Variable sort_by : forall A : Type, (A -> A -> Z) -> list A -> list A.
  Variable e1 e2 e3 : list bytes -> bytes.

  Definition runEcosystem : nat -> list bytes -> res (bytes * Z) :=
    CmdCore.runEcosystem G.Version G.VersionRange Name NV NVR Contains Compare G.Version_String sort_by e1 e2 e3.

  Local Notation L := (Top.model_lib $"nuget").
  Local Notation accepted := (fun s : bytes => l_vok L s = true).

  (* `univers nuget <args>` as computed by the source-derived code is the CLI model's outcome *)
  Theorem nuget_runEcosystem_e2e (fuel : nat) (args : list bytes) :
    sort_ok G.Version NV Compare sort_by accepted ->
    fits args -> (length args < fuel)%nat -> Forall (fun a => short a = true) args ->
    (forall rest, args = $"sort" :: rest -> Forall accepted rest -> show_respects L rest) ->
    exists r, runEcosystem fuel args = Done r /\ shown (run_ecosystem L args) r.
  Proof.
    apply (eco_runEcosystem_e2e _ _ _ _ _ _ _ _ ($"nuget" : bytes) nuget_lib_ties_on nuget_model_tpo).
  Qed.

  Corollary nuget_cli_e2e (fuel : nat) (args : list bytes) :
    sort_ok G.Version NV Compare sort_by accepted ->
    fits args -> (length args < fuel)%nat -> Forall (fun a => short a = true) args ->
    (forall rest, args = $"sort" :: rest -> Forall accepted rest -> show_respects L rest) ->
    exists r, runEcosystem fuel args = Done r /\ shown (Top.model_cli (($"nuget" : bytes) :: args)) r.
  Proof.
    apply (eco_cli_e2e _ _ _ _ _ _ _ _ ($"nuget" : bytes) nuget_lib_ties_on nuget_model_tpo eq_refl eq_refl).
  Qed.

  (* the exit status: no hypothesis on the order, the sort oracle only has to return a permutation *)
  Theorem nuget_cli_e2e_exit (fuel : nat) (args : list bytes) :
    (forall l, Permutation (sort_by G.Version Compare l) l) ->
    fits args -> (length args < fuel)%nat -> Forall (fun a => short a = true) args ->
    exists r, runEcosystem fuel args = Done r /\ snd r = exit_code (Top.model_cli (($"nuget" : bytes) :: args)).
  Proof.
    apply (eco_cli_e2e_exit _ _ _ _ _ _ _ _ ($"nuget" : bytes) nuget_lib_ties_on eq_refl eq_refl).
  Qed.
End E2E.

Print Assumptions nuget_lib_ties_on.
Print Assumptions nuget_lib_ties.
Print Assumptions nuget_name_ok.
Print Assumptions nuget_model_tpo.
Print Assumptions nuget_runEcosystem_e2e.
Print Assumptions nuget_cli_e2e.
Print Assumptions nuget_cli_e2e_exit.
Print Assumptions take_while_le.
Print Assumptions num_groups_rest_le.
Print Assumptions parse_tail_pre_le.
Print Assumptions parse_core_prerelease_le.
Print Assumptions parse_range_ext.
Print Assumptions parse_range_good.
Print Assumptions drop_while_nil_forallb.
Print Assumptions pnum_model.
Print Assumptions NV_eq.
Print Assumptions NV_computes.
Print Assumptions NV_fits.
Print Assumptions NVR_eq.
Print Assumptions eco_found.
Print Assumptions H_nv.
Print Assumptions cmp_fits.
Print Assumptions H_cmp.
Print Assumptions vok_eq.
Print Assumptions matches_one.
Print Assumptions two_bounds_ext.
Print Assumptions parse_incl_ext.
Print Assumptions parse_mixed_ext.
Print Assumptions parse_excl_ext.
Print Assumptions parse_single_ext.
Print Assumptions parse_parts_ext.
Print Assumptions parse_plain_ext.
Print Assumptions parse_cs_ext.
Print Assumptions inner_le.
Print Assumptions two_bounds_good.
Print Assumptions one_bound_good.
Print Assumptions parts_le.
Print Assumptions parse_incl_good.
Print Assumptions parse_mixed_good.
Print Assumptions parse_excl_good.
Print Assumptions parse_single_good.
Print Assumptions parse_parts_good.
Print Assumptions parse_plain_good.
Print Assumptions parse_cs_good.
