(* Tie/E2E/NugetParse.v — the generated NewVersionRange of nuget (Gen/Parse/Nuget.v: every function of range.go
   is translated, nothing is skipped) COMPUTES the model's parse_range (Eco/Nuget/Range.v).  Tie/Parse/NugetRange.v
   has the no-panic / termination half only; this file is the functional half, needed by Tie/E2E/Nuget.v.

   Parameter: a function [nv] that Ecosystem_NewVersion computes (Tie/Parse/Nuget.v gives it under the regexp
   agreement).  The model's validity oracle is then "nv accepts", the Go value of a model constraint (op, text)
   is {op, nv text}.

     tie_parse_nuget_inclusive / _mixed / _exclusive     the three bracket parsers (rangeStr[1:len-1] = inner)
     tie_parse_nuget_parseSingleConstraint               the operator loop = first_prefix
     tie_parse_nuget_parseCommaSeparatedConstraints      the part loop = parse_parts
     tie_parse_nuget_parseRange                          the bracket dispatch = parse_cs
     tie_parse_nuget_newversionrange                     fuel length s + 7 *)
From Coq Require Import ZArith List Ascii Bool Lia.
From Verif.Base Require Import Bytes GoNum GoOps Imp ImpFacts ImpErr BytesFacts.
From Verif.Eco Require Import RangeCore.
From Verif.Eco.Nuget Require Range.
From Verif.Gen.Code Require Nuget.
From Verif.Gen.Parse Require Nuget.
From Verif.Tie.Parse Require Import Common RangeCommon RangeTie.
From Verif.Tie.Parse Require NugetRange SemverRange.
Import ListNotations.
Local Open Scope Z_scope.

Module G := Verif.Gen.Code.Nuget.
Module P := Verif.Gen.Parse.Nuget.
Module RM := Verif.Eco.Nuget.Range.
Module NR := Verif.Tie.Parse.NugetRange.

Ltac blia := unfold bytes in *; lia.

(* ---------- HasPrefix / HasSuffix with a one-byte pattern, the inner slice ---------- *)

Lemma has_prefix1 c (s : bytes) : has_prefix [c] s = RM.starts_c c s.
Proof. destruct s as [|x t]; [reflexivity|]. cbn [has_prefix RM.starts_c]. apply andb_true_r. Qed.

Lemma has_suffix1 c (s : bytes) : has_suffix [c] s = RM.ends_c c s.
Proof.
  unfold has_suffix, RM.ends_c, last_c. cbn [rev app]. rewrite has_prefix1.
  destruct (rev s); reflexivity.
Qed.

Lemma beq_nil_is_nil (a : bytes) : beq a [] = RM.is_nil a.
Proof. destruct a; reflexivity. Qed.

Lemma slice_inner_eq (s : bytes) :
  (2 <= length s)%nat -> Z.of_nat (length s) < 2 ^ 63 ->
  slice s 1 (wrap64 (Z.of_nat (length s) - 1)) = Done (RM.inner s).
Proof.
  intros H2 Hfit.
  assert (W : wrap64 (Z.of_nat (length s) - 1) = Z.of_nat (length s) - 1).
  { replace (Z.of_nat (length s) - 1) with ((Z.of_nat (length s) - 2) + 1) by lia.
    apply (wrap64_succ_lt _ (Z.of_nat (length s))); lia. }
  rewrite W. rewrite slice_in_range by (unfold len; lia). f_equal.
  unfold RM.inner. rewrite removelast_firstn_len.
  destruct s as [|x t]; [cbn [length] in H2; lia|].
  change (Z.to_nat 1) with 1%nat. cbn [skipn tl]. f_equal. cbn [length]. lia.
Qed.

Lemma bracket2 (a b : ascii) (s : bytes) :
  RM.starts_c a s = true -> RM.ends_c b s = true -> a <> b -> (2 <= length s)%nat.
Proof. rewrite <- has_prefix1, <- has_suffix1. apply NR.bracket_length. Qed.

Lemma xorb_eqb (x y : bool) : negb (Bool.eqb x y) = xorb x y.
Proof. destruct x, y; reflexivity. Qed.

Section Tie.
  Variable find : bytes -> option (list bytes).           (* versionPattern.FindStringSubmatch *)
  Variable nv : bytes -> option G.Version.                (* NewVersion as a function *)
  Hypothesis newversion_computes : forall e v, P.Ecosystem_NewVersion find e v = Done (nv v).

  Definition vok (t : bytes) : bool := match nv t with Some _ => true | None => false end.
  Definition nilV : G.Version := G.mk_Version 0 0 0 0 [] [] [].
  Definition getv (t : bytes) : G.Version := match nv t with Some x => x | None => nilV end.
  Definition cc (c : constraint) : G.constraint := G.mk_constraint (fst c) (getv (snd c)).
  Definition lift (o : option (list constraint)) : option (list G.constraint) := option_map (map cc) o.
  Definition conc (r : RM.range) : G.VersionRange := G.mk_VersionRange (map cc (RM.r_cs r)) (RM.r_orig r).

  Local Opaque P.Ecosystem_NewVersion trim_space split_c.

  (* both sides must parse *)
  Lemma two_bounds_tie e lo hi a b :
    bind (P.Ecosystem_NewVersion find e a) (fun r =>
      match r with
      | None => Done None
      | Some sv =>
          bind (P.Ecosystem_NewVersion find e b) (fun r1 =>
            match r1 with
            | None => Done None
            | Some ev => Done (Some [G.mk_constraint lo sv; G.mk_constraint hi ev])
            end)
      end) = Done (lift (RM.two_bounds vok lo hi a b)).
  Proof.
    rewrite newversion_computes. cbn [bind]. unfold RM.two_bounds, vok, lift, cc, getv.
    destruct (nv a) as [sv|] eqn:Ea; [|reflexivity]. rewrite newversion_computes. cbn [bind].
    destruct (nv b) as [ev|] eqn:Eb; [|reflexivity]. cbn [option_map map fst snd]. rewrite Ea, Eb. reflexivity.
  Qed.

  (* one side *)
  Lemma one_bound_tie e op a :
    bind (P.Ecosystem_NewVersion find e a) (fun r =>
      match r with
      | None => Done None
      | Some sv => Done (Some [G.mk_constraint op sv])
      end) = Done (lift (if vok a then Some [(op, a)] else None)).
  Proof.
    rewrite newversion_computes. cbn [bind]. unfold vok, lift, cc, getv.
    destruct (nv a) as [sv|] eqn:Ea; [|reflexivity]. cbn [option_map map fst snd]. rewrite Ea. reflexivity.
  Qed.

  Ltac long_parts p0 p1 p2 r :=
    replace (Z.of_nat (length (p0 :: p1 :: p2 :: r)) =? 2) with false
      by (symmetry; apply Z.eqb_neq; cbn [length]; lia).

  Theorem tie_parse_nuget_inclusive : forall e t,
    (2 <= length t)%nat -> Z.of_nat (length t) < 2 ^ 63 ->
    P.parseInclusiveRange find e t = Done (lift (RM.parse_incl vok t)).
  Proof.
    intros e t H2 Hfit. unfold P.parseInclusiveRange, RM.parse_incl.
    rewrite (slice_inner_eq t H2 Hfit). cbn [bind]. cbv zeta. change (chr 44) with ","%char.
    destruct (split_c ","%char (RM.inner t)) as [|p0 [|p1 [|p2 r]]]; try reflexivity.
    - repeat (erewrite idx_known by reflexivity; cbn [bind]). apply two_bounds_tie.
    - long_parts p0 p1 p2 r. reflexivity.
  Qed.

  Theorem tie_parse_nuget_mixed : forall e t,
    (2 <= length t)%nat -> Z.of_nat (length t) < 2 ^ 63 ->
    P.parseMixedRange find e t = Done (lift (RM.parse_mixed vok t)).
  Proof.
    intros e t H2 Hfit. unfold P.parseMixedRange, RM.parse_mixed.
    rewrite (slice_inner_eq t H2 Hfit). cbn [bind]. cbv zeta. change (chr 44) with ","%char.
    rewrite (has_prefix1 "["%char : forall s, has_prefix $"[" s = _).
    rewrite (has_suffix1 "]"%char : forall s, has_suffix $"]" s = _).
    destruct (split_c ","%char (RM.inner t)) as [|p0 [|p1 [|p2 r]]]; try reflexivity.
    2:{ long_parts p0 p1 p2 r. reflexivity. }
    repeat (erewrite idx_known by reflexivity; cbn [bind]). rewrite !beq_nil_is_nil.
    set (a := trim_space p0). set (b := trim_space p1).
    destruct (RM.is_nil a && negb (RM.is_nil b)).
    { rewrite newversion_computes. cbn [bind]. unfold vok, lift, cc, getv.
      destruct (nv b) as [ev|] eqn:Eb; [|reflexivity].
      destruct (RM.ends_c "]"%char t); cbn [option_map map fst snd]; rewrite Eb; reflexivity. }
    destruct (negb (RM.is_nil a) && RM.is_nil b).
    { rewrite newversion_computes. cbn [bind]. unfold vok, lift, cc, getv.
      destruct (nv a) as [sv|] eqn:Ea; [|reflexivity].
      destruct (RM.starts_c "["%char t); cbn [option_map map fst snd]; rewrite Ea; reflexivity. }
    rewrite newversion_computes. cbn [bind]. unfold RM.two_bounds, vok, lift, cc, getv.
    destruct (nv a) as [sv|] eqn:Ea; [|reflexivity]. rewrite newversion_computes. cbn [bind].
    destruct (nv b) as [ev|] eqn:Eb; [|reflexivity].
    destruct (RM.starts_c "["%char t), (RM.ends_c "]"%char t); cbn [option_map map fst snd app];
      rewrite Ea, Eb; reflexivity.
  Qed.

  Theorem tie_parse_nuget_exclusive : forall e t,
    (2 <= length t)%nat -> Z.of_nat (length t) < 2 ^ 63 ->
    P.parseExclusiveRange find e t = Done (lift (RM.parse_excl vok t)).
  Proof.
    intros e t H2 Hfit. unfold P.parseExclusiveRange, RM.parse_excl.
    rewrite (slice_inner_eq t H2 Hfit). cbn [bind]. cbv zeta. change (chr 44) with ","%char.
    destruct (split_c ","%char (RM.inner t)) as [|p0 [|p1 [|p2 r]]]; try reflexivity.
    2:{ long_parts p0 p1 p2 r. reflexivity. }
    repeat (erewrite idx_known by reflexivity; cbn [bind]). rewrite !beq_nil_is_nil, xorb_eqb.
    destruct (xorb _ _).
    - rewrite (tie_parse_nuget_mixed e t H2 Hfit). reflexivity.
    - apply two_bounds_tie.
  Qed.

  (* parseSingleConstraint: the operator loop computes first_prefix *)
  Theorem tie_parse_nuget_parseSingleConstraint : forall fuel e c,
    (6 < fuel)%nat ->
    P.parseSingleConstraint find fuel e c = Done (option_map (fun k => [cc k]) (RM.parse_single vok c)).
  Proof.
    intros fuel e c Hf. unfold P.parseSingleConstraint, RM.parse_single. cbv zeta.
    set (s := trim_space c).
    match goal with |- context [while fuel ?b 0] =>
      change b with (ops_body (R := option (list G.constraint)) [$">="; $"<="; $"!="; $">"; $"<"; $"="] s
        (fun op sl =>
           bind (P.Ecosystem_NewVersion find e (trim_space sl)) (fun r =>
             match r with
             | None => Done (Ret None)
             | Some version => Done (Ret (Some [G.mk_constraint op version]))
             end)))
    end.
    rewrite (ops_loop_result _ _ _
               (fun op rest => option_map (fun v => [G.mk_constraint op v]) (nv (trim_space rest))));
      [| | cbn; lia | cbn [length]; lia].
    2:{ intros op. rewrite newversion_computes. cbn [bind]. destruct (nv _); reflexivity. }
    change RM.nuget_ops with [$">="; $"<="; $"!="; $">"; $"<"; $"="].
    destruct (first_prefix _ s) as [[op rest]|]; cbn [bind].
    - unfold vok, cc, getv. destruct (nv (trim_space rest)) as [x|] eqn:E; [|reflexivity].
      cbn [option_map fst snd]. rewrite E. reflexivity.
    - rewrite newversion_computes. cbn [bind]. unfold vok, cc, getv.
      destruct (nv s) as [x|] eqn:E; [|reflexivity]. cbn [option_map fst snd]. rewrite E. reflexivity.
  Qed.

  (* parseCommaSeparatedConstraints: the part loop computes parse_parts *)
  Definition comma_g (part : bytes) (cs : list G.constraint) : option (list G.constraint) + list G.constraint :=
    let p := trim_space part in
    if beq p [] then inr cs
    else match RM.parse_single vok p with
         | None => inl None
         | Some k => inr (cs ++ [cc k])
         end.

  Lemma run_comma : forall parts acc,
    run comma_g parts acc =
    match RM.parse_parts vok parts with
    | None => inl None
    | Some l => inr (acc ++ map cc l)
    end.
  Proof.
    induction parts as [|part r IH]; intros acc; cbn [run RM.parse_parts].
    - cbn. rewrite app_nil_r. reflexivity.
    - unfold comma_g at 1. cbv zeta. destruct (trim_space part) as [|x p] eqn:E; [apply IH|].
      change (beq (x :: p) []) with false. cbv iota.
      destruct (RM.parse_single vok (x :: p)) as [k|]; [|reflexivity].
      rewrite IH. destruct (RM.parse_parts vok r) as [l|]; [|reflexivity].
      rewrite <- app_assoc. reflexivity.
  Qed.

  Theorem tie_parse_nuget_parseCommaSeparatedConstraints : forall fuel e s,
    Z.of_nat (length s) + 1 < 2 ^ 63 -> (length s + 6 < fuel)%nat ->
    P.parseCommaSeparatedConstraints find fuel e s = Done (lift (RM.parse_comma vok s)).
  Proof.
    intros fuel e s Hfit Hf. unfold P.parseCommaSeparatedConstraints, RM.parse_comma.
    rewrite (has_prefix1 "["%char : forall s, has_prefix $"[" s = _).
    rewrite (has_prefix1 "("%char : forall s, has_prefix $"(" s = _).
    rewrite (has_suffix1 "]"%char : forall s, has_suffix $"]" s = _).
    rewrite (has_suffix1 ")"%char : forall s, has_suffix $")" s = _).
    match goal with |- (if ?c then _ else _) = _ => destruct c end; [reflexivity|]. cbv zeta.
    pose proof (split_c_length_le (chr 44) s) as SL.
    match goal with |- context [while fuel ?b (0, [])] =>
      change b with (range_body (R := option (list G.constraint)) (split_c (chr 44) s)
             (fun k part cs =>
                if beq (trim_space part) [] then Done (Next (wrap64 (k + 1), cs))
                else bind (P.parseSingleConstraint find fuel e (trim_space part)) (fun r =>
                  match r with
                  | None => Done (Ret None)
                  | Some pcs => Done (Next (wrap64 (k + 1), cs ++ pcs))
                  end)))
    end.
    rewrite (range_loop_result _ _ comma_g); [| |lia|lia].
    - rewrite run_comma. cbn [bind app]. change (chr 44) with ","%char.
      destruct (RM.parse_parts vok (split_c ","%char s)) as [[|c l]|]; reflexivity.
    - intros k part cs. unfold comma_g. cbv zeta.
      destruct (beq (trim_space part) []); [reflexivity|].
      rewrite tie_parse_nuget_parseSingleConstraint by lia. cbn [bind].
      destruct (RM.parse_single vok _); reflexivity.
  Qed.

  (* parseRange on a trimmed text: the bracket dispatch *)
  Theorem tie_parse_nuget_parseRange : forall fuel e t,
    trim_space t = t -> Z.of_nat (length t) + 1 < 2 ^ 63 -> (length t + 6 < fuel)%nat ->
    P.parseRange find fuel e t = Done (lift (RM.parse_cs vok t)).
  Proof.
    intros fuel e t Ht Hfit Hf. unfold P.parseRange, RM.parse_cs. cbv zeta. rewrite Ht.
    rewrite (has_prefix1 "["%char : forall s, has_prefix $"[" s = _).
    rewrite (has_prefix1 "("%char : forall s, has_prefix $"(" s = _).
    rewrite (has_suffix1 "]"%char : forall s, has_suffix $"]" s = _).
    rewrite (has_suffix1 ")"%char : forall s, has_suffix $")" s = _).
    rewrite (Verif.Tie.Parse.SemverRange.contains_sub_c ","%char : forall s, contains_sub $"," s = _).
    assert (B1 : RM.starts_c "["%char t = true -> RM.ends_c "]"%char t = true -> (2 <= length t)%nat)
      by (intros; eapply bracket2; eauto; discriminate).
    assert (B2 : RM.starts_c "["%char t = true -> RM.ends_c ")"%char t = true -> (2 <= length t)%nat)
      by (intros; eapply bracket2; eauto; discriminate).
    assert (B3 : RM.starts_c "("%char t = true -> RM.ends_c "]"%char t = true -> (2 <= length t)%nat)
      by (intros; eapply bracket2; eauto; discriminate).
    assert (B4 : RM.starts_c "("%char t = true -> RM.ends_c ")"%char t = true -> (2 <= length t)%nat)
      by (intros; eapply bracket2; eauto; discriminate).
    assert (PLt : contains_c ","%char t = true ->
      bind (P.parseCommaSeparatedConstraints find fuel e t) (fun r => Done r) = Done (lift (RM.parse_plain vok t))).
    { intros Ec. unfold RM.parse_plain. rewrite Ec.
      rewrite tie_parse_nuget_parseCommaSeparatedConstraints by assumption. reflexivity. }
    assert (PLf : contains_c ","%char t = false ->
      bind (P.Ecosystem_NewVersion find e t) (fun r =>
              match r with
              | None => Done None
              | Some version_ => Done (Some [G.mk_constraint $">=" version_])
              end) = Done (lift (RM.parse_plain vok t))).
    { intros Ec. unfold RM.parse_plain. rewrite Ec. apply one_bound_tie. }
    destruct (RM.starts_c "["%char t) eqn:LB, (RM.starts_c "("%char t) eqn:LP,
             (RM.ends_c "]"%char t) eqn:RB, (RM.ends_c ")"%char t) eqn:RP;
      cbn [andb orb negb];
      try specialize (B1 eq_refl eq_refl); try specialize (B2 eq_refl eq_refl);
      try specialize (B3 eq_refl eq_refl); try specialize (B4 eq_refl eq_refl);
      try (destruct (beq t $"[]" || beq t $"()"); [reflexivity|]);
      destruct (contains_c ","%char t) eqn:CM; cbn [andb orb negb];
      try (apply PLt; reflexivity); try (apply PLf; reflexivity);
      try (rewrite tie_parse_nuget_inclusive by blia; reflexivity);
      try (rewrite tie_parse_nuget_exclusive by blia; reflexivity);
      try (rewrite tie_parse_nuget_mixed by blia; reflexivity);
      try (rewrite slice_inner_eq by blia; cbn [bind]; cbv zeta;
           destruct (trim_space (RM.inner t)) as [|x a] eqn:Ea; [reflexivity|];
           change (beq (x :: a) []) with false; cbv iota; apply one_bound_tie).
  Qed.

  (* the generated NewVersionRange computes the model's parse_range *)
  Theorem tie_parse_nuget_newversionrange : forall fuel e s,
    Z.of_nat (length s) + 1 < 2 ^ 63 -> (length s + 6 < fuel)%nat ->
    P.Ecosystem_NewVersionRange find fuel e s = Done (option_map conc (RM.parse_range vok s)).
  Proof.
    intros fuel e s Hfit Hf. unfold P.Ecosystem_NewVersionRange, RM.parse_range. cbv zeta.
    pose proof (trim_space_length_le s) as TL. pose proof (trim_space_idem s) as TI.
    set (t := trim_space s) in *. clearbody t.
    rewrite beq_nil_nonempty. destruct (nonempty t) eqn:NE; cbn [negb].
    - rewrite tie_parse_nuget_parseRange by (assumption || blia). cbn [bind].
      destruct t as [|x t']; [discriminate|].
      destruct (RM.parse_cs vok (x :: t')); reflexivity.
    - destruct t; [reflexivity | discriminate].
  Qed.
End Tie.
Print Assumptions tie_parse_nuget_inclusive.
Print Assumptions tie_parse_nuget_mixed.
Print Assumptions tie_parse_nuget_exclusive.
Print Assumptions tie_parse_nuget_parseSingleConstraint.
Print Assumptions tie_parse_nuget_parseCommaSeparatedConstraints.
Print Assumptions tie_parse_nuget_parseRange.
Print Assumptions tie_parse_nuget_newversionrange.
Print Assumptions has_prefix1.
Print Assumptions has_suffix1.
Print Assumptions beq_nil_is_nil.
Print Assumptions slice_inner_eq.
Print Assumptions bracket2.
Print Assumptions xorb_eqb.
Print Assumptions two_bounds_tie.
Print Assumptions one_bound_tie.
Print Assumptions run_comma.
