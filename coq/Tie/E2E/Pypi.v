(* Tie/E2E/Pypi.v — END TO END for pypi: the bundle of the CLI section (Gen/Parse/CmdCore.v) built out
   of the functions generated from pkg/ecosystem/pypi, tied to [Top.model_lib $"pypi"].

     Name             Gen.Code.Pypi.Ecosystem_Name
     NewVersion       the oracle [nv] (Ecosystem_NewVersion is NOT translated: assignment to a field)
     NewVersionRange  Gen.Parse.Pypi.Ecosystem_NewVersionRange (a PURE function of the translation) at the oracle
                      [parseSpecifier] (NOT translated: call cycle)
     Compare          Gen.Code.Pypi.Version_Compare at Tie/Loops/Pypi.compareReleaseVersions_total (the generated loop)
     String           Gen.Code.Pypi.Version_String
     Contains         Gen.Code.Pypi.VersionRange_Contains at Gen.Parse.Pypi.constraint_matches (translated) at the
                      same compareReleaseVersions and the oracle [nv]

   Hypotheses ([oracles]); [mvok] is the model's own acceptance of a version text (self_vok of Eco/Pypi/Entry):
     nv_agrees               forall e s, nv e s = option_map (conc s) (M.parse_core (trim_space s))
                             ([conc]: the Go struct of a parsed core: "" / -1 / -1 for no pre / post / dev release,
                              original = the trimmed text)
     compat_agrees           forall v, compat v = option_map (map conc_c) (RM.parse_compatible mvok v)
     wildcard_agrees         forall op v, wildcard op v = option_map (map conc_c) (RM.parse_wildcard mvok op v)
                             (parseCompatibleRelease / parseWildcardConstraint, NOT translated: builtin make; the
                              shapes of Tie/Parse/PypiRange.v)
     parseSpecifier_splits   forall t, parseSpecifier t =
                               spec_parts (the TRANSLATED parseSingleConstraint at compat, wildcard, fuel 9, made total)
                                          (split_c "," t)
                             (the structure of the untranslated recursive function only: split at the commas, the
                              translated parseSingleConstraint on each part, concatenation, first error wins)
   From these [parseSpecifier_agrees] (the hypothesis of Tie/Parse/PypiRange.tie_parse_pypi_newversionrange) is PROVED.
   name: none.  vok: nv_agrees.  cmp: nv_agrees.  show: nv_agrees.
   rok: compat_agrees, wildcard_agrees, parseSpecifier_splits.
   contains: all four.

   [pypi_lib_ties_on]: all six fields of [lib_ties] on the texts of length < 2^63 - 64. *)
From Coq Require Import ZArith List Ascii Bool Lia Permutation Sorted.
From Verif.Base Require Import Bytes GoNum GoOps Ord Sorting Imp ImpFacts ImpErr ImpCore BytesFacts.
From Verif.Cli Require Import Model.
From Verif.Eco Require Import RangeCore Iface VLayer.
From Verif.Eco.Pypi Require Version VersionFacts DecFacts Range Entry.
From Verif.Gen.Code Require Pypi.
From Verif.Gen.Parse Require Pypi CmdCore.
From Verif.Tie Require Import Tactics.
From Verif.Tie Require Pypi PypiRange.
From Verif.Tie.Loops Require Import Common.
From Verif.Tie.Loops Require Pypi PypiRange.
From Verif.Tie.Parse Require Import Common RangeCommon RangeTie.
From Verif.Tie.Parse Require PypiRange.
From Verif.Tie.Cli Require Import Common Spec Ties.
From Verif.Tie.E2E Require Import Common.
From Verif.Properties.Support Require Import SimpleRops.
From Verif Require Top.
Import ListNotations.
Local Open Scope Z_scope.

Module G := Verif.Gen.Code.Pypi.
Module P := Verif.Gen.Parse.Pypi.
Module M := Verif.Eco.Pypi.Version.
Module MF := Verif.Eco.Pypi.VersionFacts.
Module RM := Verif.Eco.Pypi.Range.
Module TV := Verif.Tie.Pypi.
Module TR := Verif.Tie.PypiRange.
Module PR := Verif.Tie.Parse.PypiRange.
Module TL := Verif.Tie.Loops.Pypi.

(* ---------- the Go value of a parsed core ---------- *)

Definition conc (s : bytes) (c : M.core) : G.Version :=
  G.mk_Version (M.c_epoch c) (M.c_release c)
    (match M.c_pre c with Some (m, _) => m | None => [] end)
    (match M.c_pre c with Some (_, n) => n | None => 0 end)
    (match M.c_post c with Some z => z | None => -1 end)
    (match M.c_dev c with Some z => z | None => -1 end)
    (M.c_local c) (trim_space s).

(* what the parser guarantees: a pre-release marker is not empty, post / dev numbers are not negative *)
Definition wf (c : M.core) : Prop :=
  match M.c_pre c with Some (m, _) => m <> [] | None => True end /\
  match M.c_post c with Some z => 0 <= z | None => True end /\
  match M.c_dev c with Some z => 0 <= z | None => True end.

Lemma abs_conc s c : wf c -> TV.abs (conc s c) = c.
Proof.
  destruct c as [ep rel pre post dev loc]. unfold wf, conc, TV.abs. cbn.
  intros (Hp & Ho & Hd). f_equal.
  - destruct pre as [[m n]|]; [|reflexivity]. unfold TV.opt_pre.
    destruct m as [|x m]; [contradiction|]. reflexivity.
  - destruct post as [z|]; [|reflexivity]. unfold TV.opt_num.
    destruct (Z.eqb_spec z (-1)); [lia | reflexivity].
  - destruct dev as [z|]; [|reflexivity]. unfold TV.opt_num.
    destruct (Z.eqb_spec z (-1)); [lia | reflexivity].
Qed.

Lemma first_marker_ne ms : forallb nonempty ms = true -> forall s m d r,
  M.first_marker ms s = Some (m, d, r) -> m <> [].
Proof.
  induction ms as [|m0 ms IH]; intros Hne s m d r; cbn [M.first_marker]; [discriminate|].
  cbn [forallb] in Hne. apply andb_prop in Hne as [H0 Hr].
  destruct (has_prefix m0 s); [|apply (IH Hr)].
  destruct (take_while is_digit (skipn (length m0) s)); [apply (IH Hr)|].
  intros E. injection E as <- _ _. destruct m0; [discriminate | discriminate].
Qed.

Lemma opt_group_ne ms s m d r : forallb nonempty ms = true ->
  M.opt_group ms s = (Some (m, d), r) -> m <> [].
Proof.
  intros Hne. unfold M.opt_group.
  destruct (M.first_marker ms _) as [[[m' d'] r']|] eqn:E; [|discriminate].
  intros H. injection H as <- _ _. exact (first_marker_ne ms Hne _ _ _ _ E).
Qed.

Lemma num_nonneg d : 0 <= M.num d.
Proof. unfold M.num. lia. Qed.

(* ---------- counting dots: a bound on the number of release components ---------- *)

Notation dots := (count_c "."%char).

Lemma dots_app a b : dots (a ++ b) = (dots a + dots b)%nat.
Proof. unfold count_c. rewrite filter_app, app_length. reflexivity. Qed.

Lemma dots_le_length s : (dots s <= length s)%nat.
Proof.
  unfold count_c. induction s as [|c s IH]; cbn [filter length]; [lia|].
  destruct (ceqb "."%char c); cbn [length]; lia.
Qed.

Lemma dots_rev s : dots (rev s) = dots s.
Proof.
  induction s as [|c s IH]; [reflexivity|]. cbn [rev]. rewrite dots_app, IH.
  unfold count_c. cbn [filter]. destruct (ceqb "."%char c); cbn [length]; lia.
Qed.

Lemma dots_cons c s : (dots s <= dots (c :: s))%nat.
Proof. unfold count_c. cbn [filter]. destruct (ceqb "."%char c); cbn [length]; lia. Qed.

Lemma dots_drop_while p s : (dots (drop_while p s) <= dots s)%nat.
Proof.
  induction s as [|c s IH]; cbn [drop_while]; [lia|]. destruct (p c); [|lia].
  pose proof (dots_cons c s). lia.
Qed.

Lemma dots_take_while p s : (dots (take_while p s) <= dots s)%nat.
Proof.
  induction s as [|c s IH]; cbn [take_while]; [lia|]. destruct (p c); [|apply Nat.le_0_l].
  unfold count_c in *. cbn [filter]. destruct (ceqb "."%char c); cbn [length]; lia.
Qed.

Lemma dots_trim_space s : (dots (trim_space s) <= dots s)%nat.
Proof.
  unfold trim_space, trim_right, trim_left. rewrite dots_rev.
  pose proof (dots_drop_while is_space (rev (drop_while is_space s))) as H1. rewrite dots_rev in H1.
  pose proof (dots_drop_while is_space s). lia.
Qed.

Lemma dots_skipn n s : (dots (skipn n s) <= dots s)%nat.
Proof.
  revert s. induction n as [|n IH]; intros s; [apply Nat.le_refl|]. destruct s as [|c s]; [apply Nat.le_refl|].
  cbn [skipn]. pose proof (IH s). pose proof (dots_cons c s). lia.
Qed.

Lemma dots_firstn n s : (dots (firstn n s) <= dots s)%nat.
Proof.
  revert s. induction n as [|n IH]; intros s; [apply Nat.le_0_l|]. destruct s as [|c s]; [apply Nat.le_refl|].
  cbn [firstn]. pose proof (IH s). unfold count_c in *. cbn [filter].
  destruct (ceqb "."%char c); cbn [length]; lia.
Qed.

Lemma split_c_dots s : length (split_c "."%char s) = S (dots s).
Proof.
  induction s as [|c s IH]; [reflexivity|]. cbn [split_c]. unfold count_c in *. cbn [filter].
  destruct (ceqb "."%char c); cbn [length].
  - rewrite IH. reflexivity.
  - destruct (split_c "."%char s) as [|f fs]; [discriminate|]. cbn [length] in *. exact IH.
Qed.

Lemma scan_epoch_dots t ep s1 : M.scan_epoch t = (ep, s1) -> (dots s1 <= dots t)%nat.
Proof.
  unfold M.scan_epoch. pose proof (dots_drop_while is_digit t) as D.
  destruct (take_while is_digit t) as [|d0 dr]; [intros E; injection E as _ <-; lia|].
  destruct (drop_while is_digit t) as [|c r]; [intros E; injection E as _ <-; lia|].
  destruct (ceqb c "!"%char); intros E; injection E as _ <-; [|lia].
  pose proof (dots_cons c r). lia.
Qed.

Lemma scan_release_dots s rel s2 : M.scan_release s = (rel, s2) -> (dots rel <= dots s)%nat.
Proof.
  unfold M.scan_release. cbv zeta. pose proof (dots_take_while M.is_rel_char s) as T.
  rewrite <- (dots_rev (take_while M.is_rel_char s)) in T.
  destruct (rev (take_while M.is_rel_char s)) as [|c r] eqn:E.
  - intros H. injection H as <- _. rewrite <- (dots_rev (take_while _ _)), E. exact T.
  - destruct (ceqb c "."%char); intros H; injection H as <- _.
    + rewrite dots_rev. pose proof (dots_cons c r). lia.
    + rewrite <- (dots_rev (take_while _ _)), E. exact T.
Qed.

Lemma parse_core_facts t c : M.parse_core t = Some c ->
  wf c /\ (length (M.c_release c) <= S (dots t))%nat.
Proof.
  unfold M.parse_core.
  destruct (M.scan_epoch t) as [ep s1] eqn:E1. destruct (M.scan_release s1) as [rel s2] eqn:E2.
  apply scan_epoch_dots in E1. apply scan_release_dots in E2.
  unfold M.parse_tail. cbv zeta.
  destruct (M.scan_suffix s2) as [[[[pre post] dev] l]|] eqn:SS; [|discriminate].
  match goal with |- (if ?b then _ else _) = _ -> _ => destruct b end; [|discriminate].
  intros H. injection H as <-. unfold wf. cbn [M.c_pre M.c_post M.c_dev M.c_release]. split.
  - split; [|split].
    + destruct pre as [[m d]|]; [|exact I].
      unfold M.scan_suffix in SS.
      destruct (M.opt_group M.pre_markers s2) as [pre' s3] eqn:G1.
      destruct (M.opt_group M.post_markers s3) as [post' s4].
      destruct (M.opt_group M.dev_markers s4) as [dev' s5].
      assert (pre' = Some (m, d)) as ->.
      { destruct s5 as [|x s5']; [injection SS as -> _ _ _; reflexivity|].
        destruct (_ && _); [injection SS as -> _ _ _; reflexivity | discriminate]. }
      exact (opt_group_ne M.pre_markers s2 m d s3 eq_refl G1).
    + destruct post as [[m d]|]; [apply num_nonneg | exact I].
    + destruct dev as [[m d]|]; [apply num_nonneg | exact I].
  - rewrite map_length, split_c_dots. lia.
Qed.

(* ---------- the texts the range parser synthesises ---------- *)

Lemma dots_digits s : forallb is_digit s = true -> dots s = 0%nat.
Proof.
  unfold count_c. induction s as [|c s IH]; [reflexivity|]. cbn [forallb filter]. intros H.
  apply andb_prop in H as [Hc Hs]. rewrite <- (IH Hs).
  destruct (ceqb "."%char c) eqn:E; [|reflexivity].
  apply ceqb_eq in E. subst c. discriminate.
Qed.

Lemma dots_dec n : dots (dec n) = 0%nat.
Proof. apply dots_digits. apply (Verif.Eco.Pypi.DecFacts.dec_spec n). Qed.

Lemma dots_dec_z z : dots (dec_z z) = 0%nat.
Proof. destruct z as [|p|p]; unfold dec_z; [apply dots_dec | apply dots_dec | exact (dots_dec (Npos p))]. Qed.

Lemma dots_join l : Forall (fun x => dots x = 0%nat) l -> (dots (join ["."%char] l) <= length l)%nat.
Proof.
  induction 1 as [|x l Hx _ IH]; [cbn; lia|]. cbn [join length].
  destruct l as [|y l']; [lia|]. rewrite !dots_app, Hx.
  change (dots ["."%char]) with 1%nat. lia.
Qed.

Lemma bump_init_facts l :
  Forall (fun x => dots x = 0%nat) (RM.bump_init l) /\ (length (RM.bump_init l) <= length l)%nat.
Proof.
  induction l as [|a r IH]; [split; [constructor | cbn; lia]|]. cbn [RM.bump_init].
  destruct r as [|b [|c r']].
  - split; [constructor | cbn; lia].
  - split; [repeat constructor; apply dots_dec_z | cbn; lia].
  - destruct IH as [F L]. split; [constructor; [apply dots_dec_z | exact F] | cbn [length] in *; lia].
Qed.

Lemma bump_last_facts l :
  Forall (fun x => dots x = 0%nat) (RM.bump_last l) /\ (length (RM.bump_last l) <= length l)%nat.
Proof.
  induction l as [|a r IH]; [split; [constructor | cbn; lia]|]. cbn [RM.bump_last].
  destruct r as [|b r'].
  - split; [repeat constructor; apply dots_dec_z | cbn; lia].
  - destruct IH as [F L]. split; [constructor; [apply dots_dec_z | exact F] | cbn [length] in *; lia].
Qed.

Lemma dots_epoch_prefix ep : dots (RM.epoch_prefix ep) = 0%nat.
Proof.
  unfold RM.epoch_prefix. destruct (ep =? 0); [reflexivity|]. rewrite dots_app, dots_dec_z. reflexivity.
Qed.

(* a bound on the dots of the two texts of a constraint *)
Definition c_fit (n : nat) (c : RM.constraint) : Prop :=
  (dots (RM.c_ver c) <= n + 2)%nat /\ (dots (RM.c_upper c) <= n + 2)%nat.

Ltac fit_simpl := unfold c_fit, RM.plain; cbn [RM.c_ver RM.c_upper]; change (dots []) with 0%nat.

Lemma plain_fit n op v : (length v <= n)%nat -> c_fit n (RM.plain op v).
Proof. intros H. fit_simpl. pose proof (dots_le_length v). split; lia. Qed.

Section RangeFit.
  Variable vok : bytes -> bool.

  Lemma fields_of_len t ep rel : RM.fields_of vok t = Some (ep, rel) -> (length rel <= S (length t))%nat.
  Proof.
    unfold RM.fields_of. destruct (vok t); [|discriminate].
    destruct (M.parse_core (trim_space t)) as [c|] eqn:E; [|discriminate].
    intros H. injection H as _ <-. apply parse_core_facts in E as [_ L].
    pose proof (dots_trim_space t). pose proof (dots_le_length t). lia.
  Qed.

  Lemma parse_compatible_fit n v cs : (length v <= n)%nat ->
    RM.parse_compatible vok v = Some cs -> Forall (c_fit n) cs.
  Proof.
    intros Ln. unfold RM.parse_compatible.
    destruct (RM.fields_of vok v) as [[ep rel]|] eqn:F; [|discriminate].
    apply fields_of_len in F.
    destruct (RM.compatible_upper ep rel) as [up|] eqn:U.
    - intros H. injection H as <-. constructor; [apply plain_fit, Ln|]. constructor; [|constructor].
      fit_simpl. split; [|lia].
      unfold RM.compatible_upper in U.
      destruct (bump_init_facts rel) as [FF LL]. pose proof (dots_join _ FF) as J.
      remember (RM.bump_init rel) as bi eqn:Ebi. clear Ebi FF.
      destruct rel as [|a [|b r]]; [discriminate| |];
        injection U as <-; rewrite !dots_app, dots_epoch_prefix.
      + rewrite dots_dec_z. change (dots ["."%char; "0"%char]) with 1%nat. lia.
      + change (dots ["."%char; "0"%char]) with 1%nat. cbn [length] in *.
        change (list_ascii_of_string ".") with ["."%char] in *. lia.
    - intros H. injection H as <-. constructor; [apply plain_fit, Ln | constructor].
  Qed.

  Lemma parse_wildcard_fit n op v cs : (length v <= n)%nat ->
    RM.parse_wildcard vok op v = Some cs -> Forall (c_fit n) cs.
  Proof.
    intros Ln. unfold RM.parse_wildcard. cbv zeta.
    destruct (RM.fields_of vok (trim_suffix $".*" v)) as [[ep rel]|] eqn:F; [|discriminate].
    apply fields_of_len in F.
    assert (LB0 : forall sfx, (length (trim_suffix sfx v) <= length v)%nat).
    { intros sfx. unfold trim_suffix. destruct (has_suffix _ _); [rewrite firstn_length; lia | lia]. }
    match type of F with context [trim_suffix ?x v] => pose proof (LB0 x) as LB end. clear LB0.
    assert (Lo : (dots (RM.wildcard_lower ep rel) <= n + 2)%nat).
    { unfold RM.wildcard_lower. rewrite dots_app, dots_epoch_prefix.
      assert (FF : Forall (fun x => dots x = 0%nat) (map dec_z rel)).
      { apply Forall_forall. intros x Hx. apply in_map_iff in Hx as (z & <- & _). apply dots_dec_z. }
      pose proof (dots_join _ FF) as J. rewrite map_length in J.
      change (list_ascii_of_string ".") with ["."%char] in *. lia. }
    assert (Up : (dots (RM.wildcard_upper ep rel) <= n + 2)%nat).
    { unfold RM.wildcard_upper. rewrite dots_app, dots_epoch_prefix.
      destruct (bump_last_facts rel) as [FF LL]. pose proof (dots_join _ FF).
      change (list_ascii_of_string ".") with ["."%char] in *. lia. }
    destruct (beq op $"==").
    - intros H. injection H as <-. repeat constructor; fit_simpl; lia.
    - destruct (beq op $"!="); [|discriminate]. intros H. injection H as <-.
      repeat constructor; fit_simpl; lia.
  Qed.

  Lemma parse_single_fit n p cs : (length p <= n)%nat ->
    RM.parse_single vok p = Some cs -> Forall (c_fit n) cs.
  Proof.
    intros Ln. unfold RM.parse_single. cbv zeta. pose proof (trim_space_length_le p) as TL.
    destruct (first_prefix RM.pypi_ops (trim_space p)) as [[op rest]|] eqn:FP.
    - apply Verif.Tie.E2E.Common.first_prefix_rest in FP. subst rest.
      pose proof (skipn_length_le (length op) (trim_space p)) as SL.
      pose proof (trim_space_length_le (skipn (length op) (trim_space p))) as TL2.
      set (version := trim_space (skipn (length op) (trim_space p))) in *.
      destruct version as [|x ver] eqn:EV; [discriminate|]. rewrite <- EV in *. clear EV.
      destruct (beq op $"~="); [apply parse_compatible_fit; lia|].
      destruct (_ && _); [apply parse_wildcard_fit; lia|].
      intros H. injection H as <-. constructor; [apply plain_fit; lia | constructor].
    - intros H. injection H as <-. constructor; [apply plain_fit; lia | constructor].
  Qed.

  Lemma parse_parts_fit n ps : Forall (fun p : bytes => (length p <= n)%nat) ps -> forall cs,
    RM.parse_parts vok ps = Some cs -> Forall (c_fit n) cs.
  Proof.
    induction 1 as [|p r Lp _ IH]; intros cs; cbn [RM.parse_parts].
    - intros H. injection H as <-. constructor.
    - destruct (RM.parse_single vok p) as [c1|] eqn:E; [|discriminate].
      destruct (RM.parse_parts vok r) as [c2|]; [|discriminate].
      intros H. injection H as <-. apply Forall_app. split; [exact (parse_single_fit n p c1 Lp E) | apply IH; reflexivity].
  Qed.

  Lemma parse_range_fit s rg : RM.parse_range vok s = Some rg -> Forall (c_fit (length s)) (RM.r_cs rg).
  Proof.
    unfold RM.parse_range. cbv zeta. pose proof (trim_space_length_le s) as TL.
    destruct (trim_space s) as [|x t] eqn:ET; [discriminate|]. rewrite <- ET in *.
    unfold RM.parse_specifier.
    destruct (RM.parse_parts vok _) as [cs|] eqn:E; [|discriminate].
    intros H. injection H as <-. cbn [RM.r_cs]. refine (parse_parts_fit _ _ _ _ E).
    apply Forall_forall. intros p Hp. apply split_c_In_length in Hp. lia.
  Qed.
End RangeFit.

(* ---------- parseSpecifier: the structure of the untranslated recursive function ---------- *)

Fixpoint spec_parts (single : bytes -> option (list G.constraint)) (parts : list bytes)
  : option (list G.constraint) :=
  match parts with
  | [] => Some []
  | p :: r =>
      match single p with
      | None => None
      | Some cs => match spec_parts single r with Some cs' => Some (cs ++ cs') | None => None end
      end
  end.

Definition mvok : bytes -> bool := self_vok Verif.Eco.Pypi.Entry.entry.

(* the oracles and what is assumed of them *)
Record oracles : Type := {
  nv : G.Ecosystem -> bytes -> option G.Version;                  (* Ecosystem_NewVersion, not translated *)
  parseSpecifier : bytes -> option (list G.constraint);           (* not translated (call cycle) *)
  compat : bytes -> option (list G.constraint);                   (* parseCompatibleRelease, not translated *)
  wildcard : bytes -> bytes -> option (list G.constraint);        (* parseWildcardConstraint, not translated *)
  nv_agrees : forall e s, nv e s = option_map (conc s) (M.parse_core (trim_space s));
  compat_agrees : forall v, compat v = option_map (map PR.conc_c) (RM.parse_compatible mvok v);
  wildcard_agrees : forall op v, wildcard op v = option_map (map PR.conc_c) (RM.parse_wildcard mvok op v);
  parseSpecifier_splits : forall t,
    parseSpecifier t =
    spec_parts (fun p => total None (P.parseSingleConstraint compat wildcard 9 p)) (split_c ","%char t)
}.

Section E2E.
  Variable O : oracles.

  (* ---------- the concrete bundle ---------- *)
  Definition Name : bytes := G.Ecosystem_Name G.mk_Ecosystem.
  Definition Compare : G.Version -> G.Version -> Z := G.Version_Compare TL.compareReleaseVersions_total.
  Definition NV (s : bytes) : option G.Version := nv O G.mk_Ecosystem s.
  Definition NVR (s : bytes) : option G.VersionRange :=
    P.Ecosystem_NewVersionRange (parseSpecifier O) G.mk_Ecosystem s.
  Definition Contains : G.VersionRange -> G.Version -> bool :=
    G.VersionRange_Contains (P.constraint_matches TL.compareReleaseVersions_total (nv O)).

  (* what NewVersion computes, as a function of the text *)
  Definition nvm (s : bytes) : option G.Version := option_map (conc s) (M.parse_core (trim_space s)).

  Lemma NV_eq s : NV s = nvm s.
  Proof. apply (nv_agrees O). Qed.

  Definition e : eco := Verif.Eco.Pypi.Entry.entry.

  Lemma eco_found : Top.eco_or_none $"pypi" = Some e.
  Proof. reflexivity. Qed.

  Lemma vok_self t : mvok t = is_some (M.parse_core (trim_space t)).
  Proof.
    unfold mvok, self_vok, Verif.Eco.Pypi.Entry.entry, Verif.Eco.Pypi.Entry.v, mk_vops, v_show, e_v, VLayer.parse.
    destruct (M.parse_core (trim_space t)); reflexivity.
  Qed.

  Lemma self_cmp a b ca cb : M.parse_core (trim_space a) = Some ca -> M.parse_core (trim_space b) = Some cb ->
    self_vcmp e a b = M.cmp_core ca cb.
  Proof. apply (self_vcmp_core M.core M.parse_core M.cmp_core M.raw_orig $"pypi" Verif.Eco.Pypi.Entry.r). Qed.

  Lemma nvm_abs t v : nvm t = Some v ->
    M.parse_core (trim_space t) = Some (TV.abs v) /\ G.Version_original v = trim_space t.
  Proof.
    unfold nvm. destruct (M.parse_core (trim_space t)) as [c|] eqn:E; [|discriminate].
    intros H. injection H as <-. rewrite (abs_conc t c (proj1 (parse_core_facts _ _ E))). split; reflexivity.
  Qed.

  Lemma core_fits n t c : (dots t <= n + 2)%nat -> Z.of_nat n + 64 < 2 ^ 63 ->
    M.parse_core (trim_space t) = Some c -> fits (M.c_release c).
  Proof.
    intros Hd Hn E. apply parse_core_facts in E as [_ L]. pose proof (dots_trim_space t). unfold fits. lia.
  Qed.

  Lemma nvm_fits t v : short t = true -> nvm t = Some v -> fits (G.Version_release v).
  Proof.
    intros Hs H. apply nvm_abs in H as [E _]. apply short_lt in Hs.
    change (G.Version_release v) with (M.c_release (TV.abs v)).
    apply (core_fits (length t) t _ ltac:(pose proof (dots_le_length t); lia) Hs E).
  Qed.

  (* parseSpecifier computes the model's parse_specifier: the hypothesis of Tie/Parse/PypiRange.v, proved *)
  Lemma parseSpecifier_agrees t :
    parseSpecifier O t = option_map (map PR.conc_c) (RM.parse_specifier mvok t).
  Proof.
    rewrite (parseSpecifier_splits O). unfold RM.parse_specifier.
    induction (split_c ","%char t) as [|p r IH]; [reflexivity|]. cbn [spec_parts RM.parse_parts].
    rewrite (PR.tie_parse_pypi_parseSingleConstraint mvok (compat O) (wildcard O) (compat_agrees O) (wildcard_agrees O))
      by lia.
    cbn [total]. destruct (RM.parse_single mvok p) as [cs|]; [|reflexivity]. cbn [option_map].
    rewrite IH. destruct (RM.parse_parts mvok r) as [cs'|]; [|reflexivity]. cbn [option_map].
    rewrite map_app. reflexivity.
  Qed.

  Lemma NVR_eq s : NVR s = option_map PR.conc (RM.parse_range mvok s).
  Proof.
    unfold NVR. apply (PR.tie_parse_pypi_newversionrange mvok (parseSpecifier O)). exact parseSpecifier_agrees.
  Qed.

  (* ---------- Contains on a parsed range ---------- *)

  Local Opaque G.Version_Compare M.cmp_core.

  Lemma matches_tie n v y c :
    short v = true -> nvm v = Some y -> Z.of_nat n + 64 < 2 ^ 63 -> c_fit n c ->
    P.constraint_matches TL.compareReleaseVersions_total (nv O) (PR.conc_c c) y =
    RM.matches mvok (self_vcmp e) v c.
  Proof.
    intros Dv Ev Hn [Fv Fu]. pose proof (nvm_fits v y Dv Ev) as Fy. destruct (nvm_abs v y Ev) as [Ay Oy].
    unfold P.constraint_matches, RM.matches, PR.conc_c. cbv zeta.
    cbn [G.constraint_operator G.constraint_version G.constraint_upper].
    unfold G.Version_String. rewrite Oy.
    destruct (beq (RM.c_op c) $"==="); [reflexivity|].
    rewrite (nv_agrees O), vok_self.
    destruct (M.parse_core (trim_space (RM.c_ver c))) as [cw|] eqn:Ew; [|reflexivity].
    cbn [option_map is_some].
    pose proof (proj1 (parse_core_facts _ _ Ew)) as Ww.
    rewrite (TL.tie_pypi_compare_closed y (conc (RM.c_ver c) cw) Fy)
      by (exact (core_fits n _ _ Fv Hn Ew)).
    rewrite (abs_conc _ cw Ww), (self_cmp v (RM.c_ver c) _ cw Ay Ew).
    destruct (beq (RM.c_op c) $"!=*").
    - rewrite (nv_agrees O), vok_self.
      destruct (M.parse_core (trim_space (RM.c_upper c))) as [cu|] eqn:Eu; [|reflexivity].
      cbn [option_map is_some].
      pose proof (proj1 (parse_core_facts _ _ Eu)) as Wu.
      rewrite (TL.tie_pypi_compare_closed y (conc (RM.c_upper c) cu) Fy)
        by (exact (core_fits n _ _ Fu Hn Eu)).
      rewrite (abs_conc _ cu Wu), (self_cmp v (RM.c_upper c) _ cu Ay Eu).
      destruct (M.cmp_core (TV.abs y) cw), (M.cmp_core (TV.abs y) cu); reflexivity.
    - unfold RM.sem. set (z := M.cmp_core _ _).
      repeat match goal with |- context [beq ?a ?b] => destruct (beq a b) end;
        destruct z; reflexivity.
  Qed.

  (* ---------- lib_ties ---------- *)

  Theorem pypi_lib_ties_on :
    lib_ties_on G.Version G.VersionRange Name NV NVR Contains Compare G.Version_String
                (Top.model_lib $"pypi") short.
  Proof.
    rewrite (model_lib_of _ _ eco_found). constructor; cbn [l_name l_vok l_rok l_vcmp l_vshow l_rcontains].
    - reflexivity.
    - intros s Ds. rewrite NV_eq. change (self_vok e s) with (mvok s). rewrite vok_self. unfold nvm.
      destruct (M.parse_core (trim_space s)); reflexivity.
    - intros s Ds. rewrite (NVR_eq s).
      change (r_show (e_r e) (self_vok e) s) with (option_map RM.show (RM.parse_range mvok s)).
      destruct (RM.parse_range mvok s); reflexivity.
    - intros a b x y Da Db Ea Eb. rewrite NV_eq in Ea, Eb.
      destruct (nvm_abs a x Ea) as [Aa _]. destruct (nvm_abs b y Eb) as [Ab _].
      rewrite (self_cmp a b _ _ Aa Ab).
      apply TL.tie_pypi_compare_closed; [exact (nvm_fits a x Da Ea) | exact (nvm_fits b y Db Eb)].
    - intros a x Da Ea. rewrite NV_eq in Ea. destruct (nvm_abs a x Ea) as [Aa Oa].
      unfold e, Verif.Eco.Pypi.Entry.entry, Verif.Eco.Pypi.Entry.v, mk_vops, v_show, e_v, VLayer.parse.
      rewrite Aa. unfold G.Version_String. rewrite Oa. reflexivity.
    - intros r v x y Dr Dv Er Ev. rewrite (NVR_eq r) in Er. rewrite NV_eq in Ev.
      change (r_contains (e_r e) (self_vok e) (self_vcmp e) r v)
        with (match RM.parse_range mvok r with
              | Some x => if mvok v then Some (RM.contains mvok (self_vcmp e) x v) else None
              | None => None
              end).
      destruct (RM.parse_range mvok r) as [rg|] eqn:PRg; [|discriminate].
      injection Er as <-. rewrite vok_self. destruct (nvm_abs v y Ev) as [Ay _]. rewrite Ay. cbn [is_some].
      unfold Contains, G.VersionRange_Contains, PR.conc, RM.contains. cbn [G.VersionRange_constraints].
      pose proof (parse_range_fit mvok r rg PRg) as W. apply short_lt in Dr.
      induction W as [|c cs Wc _ IH]; [reflexivity|]. cbn [map forallb]. rewrite IH. f_equal.
      apply (matches_tie (length r)); assumption.
  Qed.

  (* the record of Tie/Cli/Common.v, for the bundle guarded by the length bound *)
  Corollary pypi_lib_ties :
    lib_ties G.Version G.VersionRange Name (guard short NV) (guard short NVR) Contains Compare
             G.Version_String (restrict (Top.model_lib $"pypi") short).
  Proof. apply lib_ties_guard, pypi_lib_ties_on. Qed.

  Theorem pypi_name_ok : Name = $"pypi".
  Proof. reflexivity. Qed.

  Theorem pypi_model_tpo :
    TotalPreorderOn (fun s => l_vok (Top.model_lib $"pypi") s = true) (l_vcmp (Top.model_lib $"pypi")).
  Proof. apply (model_lib_tpo _ _ _ _ _ _ eco_found MF.cmp_core_tp). Qed.

  (* ---------- the CLI ---------- *)

  Variable sort_by : forall A : Type, (A -> A -> Z) -> list A -> list A.
  Variable e1 e2 e3 : list bytes -> bytes.

  Definition runEcosystem : nat -> list bytes -> res (bytes * Z) :=
    CmdCore.runEcosystem G.Version G.VersionRange Name NV NVR Contains Compare G.Version_String sort_by e1 e2 e3.

  Local Notation L := (Top.model_lib $"pypi").
  Local Notation accepted := (fun s : bytes => l_vok L s = true).

  (* `univers pypi <args>` as computed by the source-derived code is the CLI model's outcome *)
  Theorem pypi_runEcosystem_e2e (fuel : nat) (args : list bytes) :
    sort_ok G.Version NV Compare sort_by accepted ->
    fits args -> (length args < fuel)%nat -> Forall (fun a => short a = true) args ->
    (forall rest, args = $"sort" :: rest -> Forall accepted rest -> show_respects L rest) ->
    exists r, runEcosystem fuel args = Done r /\ shown (run_ecosystem L args) r.
  Proof.
    apply (eco_runEcosystem_e2e _ _ _ _ _ _ _ _ ($"pypi" : bytes) pypi_lib_ties_on pypi_model_tpo).
  Qed.

  Corollary pypi_cli_e2e (fuel : nat) (args : list bytes) :
    sort_ok G.Version NV Compare sort_by accepted ->
    fits args -> (length args < fuel)%nat -> Forall (fun a => short a = true) args ->
    (forall rest, args = $"sort" :: rest -> Forall accepted rest -> show_respects L rest) ->
    exists r, runEcosystem fuel args = Done r /\ shown (Top.model_cli (($"pypi" : bytes) :: args)) r.
  Proof.
    apply (eco_cli_e2e _ _ _ _ _ _ _ _ ($"pypi" : bytes) pypi_lib_ties_on pypi_model_tpo eq_refl eq_refl).
  Qed.

  (* the exit status: no hypothesis on the order, the sort oracle only has to return a permutation *)
  Theorem pypi_cli_e2e_exit (fuel : nat) (args : list bytes) :
    (forall l, Permutation (sort_by G.Version Compare l) l) ->
    fits args -> (length args < fuel)%nat -> Forall (fun a => short a = true) args ->
    exists r, runEcosystem fuel args = Done r /\ snd r = exit_code (Top.model_cli (($"pypi" : bytes) :: args)).
  Proof.
    apply (eco_cli_e2e_exit _ _ _ _ _ _ _ _ ($"pypi" : bytes) pypi_lib_ties_on eq_refl eq_refl).
  Qed.
End E2E.

Print Assumptions pypi_lib_ties_on.
Print Assumptions pypi_lib_ties.
Print Assumptions pypi_name_ok.
Print Assumptions pypi_model_tpo.
Print Assumptions pypi_runEcosystem_e2e.
Print Assumptions pypi_cli_e2e.
Print Assumptions pypi_cli_e2e_exit.
Print Assumptions abs_conc.
Print Assumptions first_marker_ne.
Print Assumptions opt_group_ne.
Print Assumptions num_nonneg.
Print Assumptions dots_app.
Print Assumptions dots_le_length.
Print Assumptions dots_rev.
Print Assumptions dots_cons.
Print Assumptions dots_drop_while.
Print Assumptions dots_take_while.
Print Assumptions dots_trim_space.
Print Assumptions dots_skipn.
Print Assumptions dots_firstn.
Print Assumptions split_c_dots.
Print Assumptions scan_epoch_dots.
Print Assumptions scan_release_dots.
Print Assumptions parse_core_facts.
Print Assumptions dots_digits.
Print Assumptions dots_dec.
Print Assumptions dots_dec_z.
Print Assumptions dots_join.
Print Assumptions bump_init_facts.
Print Assumptions bump_last_facts.
Print Assumptions dots_epoch_prefix.
Print Assumptions plain_fit.
Print Assumptions fields_of_len.
Print Assumptions parse_compatible_fit.
Print Assumptions parse_wildcard_fit.
Print Assumptions parse_single_fit.
Print Assumptions parse_parts_fit.
Print Assumptions parse_range_fit.
Print Assumptions NV_eq.
Print Assumptions eco_found.
Print Assumptions vok_self.
Print Assumptions self_cmp.
Print Assumptions nvm_abs.
Print Assumptions core_fits.
Print Assumptions nvm_fits.
Print Assumptions parseSpecifier_agrees.
Print Assumptions NVR_eq.
Print Assumptions matches_tie.
