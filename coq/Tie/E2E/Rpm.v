(* Tie/E2E/Rpm.v — END TO END for rpm: the bundle of the CLI section (Gen/Parse/CmdCore.v) built out
   of the functions generated from pkg/ecosystem/rpm, tied to [Top.model_lib $"rpm"].

     Name             Gen.Code.Rpm.Ecosystem_Name
     NewVersion       Gen.Parse.Rpm.Ecosystem_NewVersion at the oracles, fuel length s + 1, made total
     NewVersionRange  Gen.Parse.Rpm.Ecosystem_NewVersionRange, fuel length s + 7, made total
     Compare          Gen.Code.Rpm.Version_Compare at Tie/Loops/Rpm.compareRPMVersionString_total
     String           Gen.Code.Rpm.Version_String
     Contains         Gen.Code.Rpm.VersionRange_Contains at the same total function

   Hypotheses: the oracle agreements of Tie/Parse/Rpm.v ([oracles]: versionPattern, strings.LastIndex,
   unicode.IsDigit, unicode.IsLetter on ASCII).  [rpm_lib_ties_on]: all six fields of [lib_ties] on the
   texts of length < 2^63 - 64 ([short]); [rpm_lib_ties]: the record itself for the guarded bundle;
   [rpm_runEcosystem_e2e], [rpm_cli_e2e], [rpm_cli_e2e_exit]: the generated runEcosystem at this bundle
   against the CLI model. *)
From Coq Require Import ZArith List Ascii Bool Lia Permutation Sorted.
From Verif.Base Require Import Bytes GoNum GoOps Ord Sorting Imp ImpFacts ImpErr ImpCore BytesFacts.
From Verif.Cli Require Import Model.
From Verif.Eco Require Import RangeCore Iface VLayer.
From Verif.Eco.Rpm Require Version VersionFacts Range Entry.
From Verif.Gen.Code Require Rpm.
From Verif.Gen.Parse Require Rpm CmdCore.
From Verif.Tie Require Import Tactics.
From Verif.Tie Require Rpm RpmRange.
From Verif.Tie.Loops Require Import Common.
From Verif.Tie.Loops Require Rpm RpmRange.
From Verif.Tie.Parse Require Import Common RangeCommon RangeTie ListCursor.
From Verif.Tie.Parse Require Rpm RpmRange.
From Verif.Tie.Cli Require Import Common Spec Ties.
From Verif.Tie.E2E Require Import Common.
From Verif Require Top.
Import ListNotations.
Local Open Scope Z_scope.

Module G := Verif.Gen.Code.Rpm.
Module P := Verif.Gen.Parse.Rpm.
Module M := Verif.Eco.Rpm.Version.
Module MF := Verif.Eco.Rpm.VersionFacts.
Module RM := Verif.Eco.Rpm.Range.
Module TV := Verif.Tie.Rpm.
Module TR := Verif.Tie.RpmRange.
Module PV := Verif.Tie.Parse.Rpm.
Module PR := Verif.Tie.Parse.RpmRange.
Module TL := Verif.Tie.Loops.Rpm.

Definition Compare : G.Version -> G.Version -> Z := G.Version_Compare TL.compareRPMVersionString_total.

(* the regexp oracle and what is assumed of it *)
Record oracles : Type := {
  find : bytes -> option (list bytes);     (* versionPattern.FindStringSubmatch *)
  lastindex : bytes -> bytes -> Z;         (* strings.LastIndex *)
  isdigit : Z -> bool;                     (* unicode.IsDigit *)
  isletter : Z -> bool;                    (* unicode.IsLetter *)
  find_agrees : forall t, find t = PV.ref_match t;
  lastindex_agrees : forall s, lastindex s (list_ascii_of_string "-") = PV.ref_lastindex s;
  isdigit_agrees : forall c, isdigit (byte_z c) = is_digit c;
  isletter_agrees : forall c, isletter (byte_z c) = is_letter c
}.

Section E2E.
  Variable O : oracles.

  (* ---------- the concrete bundle ---------- *)
  Definition Name : bytes := G.Ecosystem_Name G.mk_Ecosystem.
  Definition NV (s : bytes) : option G.Version :=
    total None (P.Ecosystem_NewVersion (lastindex O) (isdigit O) (isletter O) (find O) (S (length s)) G.mk_Ecosystem s).
  Definition NVR (s : bytes) : option G.VersionRange :=
    total None (P.Ecosystem_NewVersionRange (lastindex O) (isdigit O) (isletter O) (find O) (length s + 7) G.mk_Ecosystem s).
  Definition Contains : G.VersionRange -> G.Version -> bool := G.VersionRange_Contains TL.compareRPMVersionString_total.

  Lemma NV_computes fuel e s : Z.of_nat (length s) < 2 ^ 63 -> (length s < fuel)%nat ->
    P.Ecosystem_NewVersion (lastindex O) (isdigit O) (isletter O) (find O) fuel e s =
    Done (option_map (PV.conc s) (M.parse_core (trim_space s))).
  Proof.
    apply (PV.tie_parse_rpm_newversion (lastindex O) (isdigit O) (isletter O) (find O) (find_agrees O)
             (lastindex_agrees O) (isdigit_agrees O) (isletter_agrees O)).
  Qed.

  Lemma NV_eq s : short s = true -> NV s = option_map (PV.conc s) (M.parse_core (trim_space s)).
  Proof. intros Hs. apply short_lt in Hs. unfold NV. rewrite NV_computes by lia. reflexivity. Qed.

  Lemma parse_core_fields_le t c : M.parse_core t = Some c ->
    (length (M.version c) <= length t)%nat /\ (length (M.release c) <= length t)%nat.
  Proof.
    unfold M.parse_core. destruct t as [|x t0]; [discriminate|].
    destruct (M.split_epoch (x :: t0)) as [es vr] eqn:SE.
    apply PV.split_epoch_length in SE.
    assert (X : forall vp rp,
              (match cut_last_c "-"%char vr with Some (a, b) => (a, b) | None => (vr, []) end) = (vp, rp) ->
              (length vp <= length vr)%nat /\ (length rp <= length vr)%nat).
    { intros vp rp. destruct (cut_last_c "-"%char vr) as [[a b]|] eqn:CL.
      - apply cut_last_c_length in CL. intros H. injection H as <- <-. lia.
      - intros H. injection H as <- <-. cbn [length]. lia. }
    destruct (match cut_last_c "-"%char vr with Some (a, b) => (a, b) | None => (vr, []) end) as [vp rp].
    specialize (X vp rp eq_refl). cbv zeta.
    destruct (match es with [] => Some 0 | _ :: _ => atoi es end) as [e|]; [|discriminate].
    destruct (e <? 0); [discriminate|].
    destruct vp as [|v0 vp0]; [discriminate|].
    destruct (M.valid_str (v0 :: vp0) && M.valid_str rp); [|discriminate].
    intros H. injection H as <-. cbn [M.version M.release]. lia.
  Qed.

  Lemma NV_fits a x : short a = true -> NV a = Some x -> TL.fits_version x.
  Proof.
    intros Hs. rewrite (NV_eq a Hs). destruct (M.parse_core (trim_space a)) as [c|] eqn:E; [|discriminate].
    intros H. injection H as <-. apply parse_core_fields_le in E. apply short_lt in Hs.
    pose proof (trim_space_length_le a). unfold TL.fits_version, fits, PV.conc.
    cbn [G.Version_version G.Version_release]. lia.
  Qed.

  Lemma NVR_eq s : short s = true ->
    NVR s = option_map (fun rg => G.mk_VersionRange (conc_cs NV G.mk_constraint (r_cs rg)) (r_orig rg))
                       (parse_range G.Version NV RM.cfg s).
  Proof.
    intros Hs. apply short_lt in Hs. unfold NVR.
    rewrite (PR.tie_parse_rpm_newversionrange (lastindex O) (isdigit O) (isletter O) (find O) (fun _ => NV) (fun n => n)).
    - reflexivity.
    - intros a b L. exact L.
    - intros fuel e v Hv Hf. unfold NV. rewrite !NV_computes by lia. reflexivity.
    - lia.
    - lia.
    - lia.
  Qed.

  Lemma eco_found :
    Top.eco_or_none $"rpm" =
    Some {| e_name := $"rpm"; e_v := mk_vops M.parse_core M.cmp_core M.raw_orig;
            e_r := mk_simple_rops RM.cfg |}.
  Proof. reflexivity. Qed.

  (* ---------- lib_ties ---------- *)

  Theorem rpm_lib_ties_on :
    lib_ties_on G.Version G.VersionRange Name NV NVR Contains Compare G.Version_String
                (Top.model_lib $"rpm") short.
  Proof.
    apply (simple_lib_ties_on M.core M.parse_core M.cmp_core M.raw_orig RM.cfg $"rpm" eco_found eq_refl
             G.Version G.constraint G.VersionRange Name NV NVR Contains Compare
             G.Version_String G.mk_constraint (fun o cs => G.mk_VersionRange cs o)
             G.constraint_operator G.constraint_version TV.abs short).
    - reflexivity.
    - intros s Hs. rewrite (NV_eq s Hs). destruct (M.parse_core (trim_space s)) as [c|]; [|reflexivity].
      cbn [option_map]. rewrite PV.abs_conc. reflexivity.
    - intros a b x y Da Db Ea Eb.
      apply TL.tie_rpm_compare_closed; [exact (NV_fits a x Da Ea) | exact (NV_fits b y Db Eb)].
    - intros a x Da E. rewrite (NV_eq a Da) in E. destruct (M.parse_core (trim_space a)); [|discriminate].
      injection E as <-. reflexivity.
    - exact NVR_eq.
    - intros o cs y. unfold Contains, G.VersionRange_Contains. cbn [G.VersionRange_constraints].
      apply forallb_ext_in. intros c _. apply TR.tie_rpm_satisfiesRPMConstraint.
    - reflexivity.
    - reflexivity.
    - apply split_le_short. intros t p Hp. change (rc_split RM.cfg t) with (RM.split_rpm t) in Hp.
      unfold RM.split_rpm in Hp. apply fields_In_length in Hp. rewrite replace_c_length in Hp. exact Hp.
  Qed.

  (* the record of Tie/Cli/Common.v, for the bundle guarded by the length bound *)
  Corollary rpm_lib_ties :
    lib_ties G.Version G.VersionRange Name (guard short NV) (guard short NVR) Contains Compare
             G.Version_String (restrict (Top.model_lib $"rpm") short).
  Proof. apply lib_ties_guard, rpm_lib_ties_on. Qed.

  Theorem rpm_name_ok : Name = $"rpm".
  Proof. reflexivity. Qed.

  Theorem rpm_model_tpo :
    TotalPreorderOn (fun s => l_vok (Top.model_lib $"rpm") s = true) (l_vcmp (Top.model_lib $"rpm")).
  Proof. apply (model_lib_tpo _ _ _ _ _ _ eco_found MF.cmp_core_tp). Qed.

  (* ---------- the CLI ---------- *)

  Variable sort_by : forall A : Type, (A -> A -> Z) -> list A -> list A.
  Variable e1 e2 e3 : list bytes -> bytes.

  Definition runEcosystem : nat -> list bytes -> res (bytes * Z) :=
    CmdCore.runEcosystem G.Version G.VersionRange Name NV NVR Contains Compare G.Version_String sort_by e1 e2 e3.

  Local Notation L := (Top.model_lib $"rpm").
  Local Notation accepted := (fun s : bytes => l_vok L s = true).

  (* `univers rpm <args>` as computed by the source-derived code is the CLI model's outcome *)
  Theorem rpm_runEcosystem_e2e (fuel : nat) (args : list bytes) :
    sort_ok G.Version NV Compare sort_by accepted ->
    fits args -> (length args < fuel)%nat -> Forall (fun a => short a = true) args ->
    (forall rest, args = $"sort" :: rest -> Forall accepted rest -> show_respects L rest) ->
    exists r, runEcosystem fuel args = Done r /\ shown (run_ecosystem L args) r.
  Proof.
    apply (eco_runEcosystem_e2e _ _ _ _ _ _ _ _ ($"rpm" : bytes) rpm_lib_ties_on rpm_model_tpo).
  Qed.

  Corollary rpm_cli_e2e (fuel : nat) (args : list bytes) :
    sort_ok G.Version NV Compare sort_by accepted ->
    fits args -> (length args < fuel)%nat -> Forall (fun a => short a = true) args ->
    (forall rest, args = $"sort" :: rest -> Forall accepted rest -> show_respects L rest) ->
    exists r, runEcosystem fuel args = Done r /\ shown (Top.model_cli (($"rpm" : bytes) :: args)) r.
  Proof.
    apply (eco_cli_e2e _ _ _ _ _ _ _ _ ($"rpm" : bytes) rpm_lib_ties_on rpm_model_tpo eq_refl eq_refl).
  Qed.

  (* the exit status: no hypothesis on the order, the sort oracle only has to return a permutation *)
  Theorem rpm_cli_e2e_exit (fuel : nat) (args : list bytes) :
    (forall l, Permutation (sort_by G.Version Compare l) l) ->
    fits args -> (length args < fuel)%nat -> Forall (fun a => short a = true) args ->
    exists r, runEcosystem fuel args = Done r /\ snd r = exit_code (Top.model_cli (($"rpm" : bytes) :: args)).
  Proof.
    apply (eco_cli_e2e_exit _ _ _ _ _ _ _ _ ($"rpm" : bytes) rpm_lib_ties_on eq_refl eq_refl).
  Qed.
End E2E.

Print Assumptions rpm_lib_ties_on.
Print Assumptions rpm_lib_ties.
Print Assumptions rpm_name_ok.
Print Assumptions rpm_model_tpo.
Print Assumptions rpm_runEcosystem_e2e.
Print Assumptions rpm_cli_e2e.
Print Assumptions rpm_cli_e2e_exit.
Print Assumptions NV_computes.
Print Assumptions NV_eq.
Print Assumptions parse_core_fields_le.
Print Assumptions NV_fits.
Print Assumptions NVR_eq.
Print Assumptions eco_found.
