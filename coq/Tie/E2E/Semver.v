(* Tie/E2E/Semver.v — END TO END for semver: the bundle of the CLI section (Gen/Parse/CmdCore.v) built out of
   the functions generated from pkg/ecosystem/semver, tied to [Top.model_lib $"semver"].

     Name             Gen.Code.Semver.Ecosystem_Name
     NewVersion       Gen.Parse.Semver.Ecosystem_NewVersion at the regexp oracles, fuel length s + 2, made total
     NewVersionRange  Gen.Parse.Semver.Ecosystem_NewVersionRange at the parseSingleConstraint oracle,
                      fuel length s + 2, made total
     Compare          Gen.Code.Semver.Version_Compare at Tie/Loops/Semver.comparePrerelease_total (the generated
                      loop of Gen/Loops/Semver.v at the numericPattern oracle)
     String           Gen.Code.Semver.Version_String
     Contains         Gen.Code.Semver.VersionRange_Contains at the constraint.matches oracle

   Hypotheses ([oracles]).  The three regexp agreements of Tie/Parse/Semver.v (versionPattern, validCharsPattern,
   numericPattern).  TWO functions of range.go lie outside every translated fragment and stay oracles, each
   with a NAMED AGREEMENT HYPOTHESIS that restates its Go body over the bundle's own NewVersion / Compare:
     [single_agrees]   parseSingleConstraint (range.go:55, skipped: nil pointer) returns the one constraint that
                       Eco/Semver/Range.parse_single describes, built with THIS bundle's NewVersion
     [cmatch_agrees]   constraint.matches (range.go:150, skipped: == on *Version) is "operator * matches; else
                       the comparator switch on THIS bundle's Compare"
   The fields [vok], [cmp], [show], [name] of [lib_ties_on] use neither; [rok] uses [single_agrees];
   [contains] uses both ([semver_lib_ties_on], record [oracles]).  WITHOUT the two range hypotheses (record
   [voracles]): [semver_version_lib_ties_on] (the four version-level fields) and [semver_compare_sort_e2e]
   (`univers semver compare|sort ...` for a bundle with ANY range parser and Contains). *)
From Coq Require Import ZArith List Ascii Bool Lia Permutation Sorted.
From Verif.Base Require Import Bytes GoNum GoOps Ord Sorting Imp ImpFacts ImpErr ImpCore BytesFacts.
From Verif.Cli Require Import Model.
From Verif.Eco Require Import RangeCore Iface VLayer.
From Verif.Eco.Semver Require Version VersionFacts Range Entry.
From Verif.Gen.Code Require Semver.
From Verif.Gen.Loops Require Semver.
From Verif.Gen.Parse Require Semver CmdCore.
From Verif.Tie Require Import Tactics.
From Verif.Tie Require Semver.
From Verif.Tie.Loops Require Import Common.
From Verif.Tie.Loops Require Semver.
From Verif.Tie.Parse Require Import Common RangeCommon.
From Verif.Tie.Parse Require Semver SemverRange.
From Verif.Tie.Cli Require Import Common Spec Ties.
From Verif.Properties.Support Require Import SimpleRops.
From Verif.Tie.E2E Require Import Common CommonK6.
From Verif Require Top.
Import ListNotations.
Local Open Scope Z_scope.

Module G := Verif.Gen.Code.Semver.
Module P := Verif.Gen.Parse.Semver.
Module M := Verif.Eco.Semver.Version.
Module MF := Verif.Eco.Semver.VersionFacts.
Module RM := Verif.Eco.Semver.Range.
Module TV := Verif.Tie.Semver.
Module PV := Verif.Tie.Parse.Semver.
Module PR := Verif.Tie.Parse.SemverRange.
Module TL := Verif.Tie.Loops.Semver.

Ltac blia := unfold bytes in *; lia.

(* ---------- lengths ---------- *)

Lemma parse_core_prerelease_le t c : M.parse_core t = Some c -> (length (M.prerelease c) <= length t)%nat.
Proof.
  unfold M.parse_core.
  destruct (split2_c "+"%char t) as [main bld] eqn:S1. apply PV.split2_c_length in S1 as [L1 _].
  destruct (split2_c "-"%char main) as [nums pre] eqn:S2. apply PV.split2_c_length in S2 as [_ L2].
  destruct (split_c "."%char nums) as [|a [|b [|c0 [|d r]]]]; try discriminate.
  destruct (M.parse_num a); [|discriminate]. destruct (M.parse_num b); [|discriminate].
  destruct (M.parse_num c0); [|discriminate]. destruct (_ && _); [|discriminate].
  intros H; injection H as <-. cbn [M.prerelease]. destruct pre as [p|]; [|cbn [length]; blia].
  specialize (L2 p eq_refl). blia.
Qed.

(* ---------- the range parser asks the version oracle on texts no longer than the range ---------- *)

Lemma first_prefix_In ops s op rest : first_prefix ops s = Some (op, rest) -> In op ops.
Proof.
  induction ops as [|o r IH]; cbn [first_prefix]; [discriminate|].
  destruct (has_prefix o s).
  - intros H; injection H as <- <-. left. reflexivity.
  - intros H. right. exact (IH H).
Qed.

Definition good (vok : bytes -> bool) (n : nat) (k : RM.constr) : Prop :=
  match k with
  | RM.Wild => True
  | RM.Cmp op b => vok b = true /\ beq op $"*" = false /\ (length b <= n)%nat
  end.

Lemma parse_single_good vok c k : RM.parse_single vok c = Some k -> good vok (length c) k.
Proof.
  unfold RM.parse_single. cbv zeta. pose proof (trim_space_length_le c) as TL.
  set (s := trim_space c) in *. clearbody s.
  destruct (beq s $"*"). { intros H; injection H as <-. exact I. }
  destruct (first_prefix RM.semver_ops s) as [[op rest]|] eqn:F.
  - pose proof (first_prefix_In _ _ _ _ F) as Hop. apply first_prefix_rest in F. subst rest.
    pose proof (trim_space_length_le (skipn (length op) s)) as T2.
    pose proof (skipn_length_le (length op) s) as T3.
    destruct (trim_space (skipn (length op) s)) as [|x t] eqn:E; [discriminate|]. rewrite <- E in *.
    destruct (vok (trim_space (skipn (length op) s))) eqn:V; [|discriminate].
    intros H; injection H as <-. cbn [good]. split; [exact V | split; [|blia]].
    cbn in Hop. destruct Hop as [<-|[<-|[<-|[<-|[<-|[<-|[]]]]]]]; reflexivity.
  - destruct (vok s) eqn:V; [|discriminate]. intros H; injection H as <-. cbn [good].
    split; [exact V | split; [reflexivity | blia]].
Qed.

Lemma parse_single_ext vok1 vok2 c :
  (forall t, (length t <= length c)%nat -> vok1 t = vok2 t) -> RM.parse_single vok1 c = RM.parse_single vok2 c.
Proof.
  intros H. unfold RM.parse_single. cbv zeta. pose proof (trim_space_length_le c) as TL.
  set (s := trim_space c) in *. clearbody s.
  destruct (beq s $"*"); [reflexivity|].
  destruct (first_prefix RM.semver_ops s) as [[op rest]|] eqn:F.
  - apply first_prefix_rest in F. subst rest.
    pose proof (trim_space_length_le (skipn (length op) s)) as T2.
    pose proof (skipn_length_le (length op) s) as T3.
    destruct (trim_space (skipn (length op) s)) as [|x t] eqn:E; [reflexivity|]. rewrite <- E in *.
    rewrite H by blia. reflexivity.
  - rewrite H by blia. reflexivity.
Qed.

Lemma parse_all_ext vok1 vok2 n : forall ps,
  (forall t, (length t <= n)%nat -> vok1 t = vok2 t) -> (forall p, In p ps -> (length p <= n)%nat) ->
  RM.parse_all vok1 ps = RM.parse_all vok2 ps.
Proof.
  induction ps as [|p r IH]; intros H Hl; [reflexivity|]. cbn [RM.parse_all].
  rewrite (parse_single_ext vok1 vok2 p).
  - rewrite IH; [reflexivity | exact H |]. intros q Hq. apply Hl. right. exact Hq.
  - intros t Lt. apply H. pose proof (Hl p (or_introl eq_refl)). blia.
Qed.

Lemma split_range_le t p : In p (RM.split_range t) -> (length p <= length t)%nat.
Proof.
  unfold RM.split_range. destruct (contains_c ","%char t).
  - apply split_comma_trim_le.
  - destruct (contains_c " "%char t).
    + apply fields_In_length.
    + intros [<-|[]]. blia.
Qed.

Lemma parse_range_ext vok1 vok2 s :
  (forall t, (length t <= length s)%nat -> vok1 t = vok2 t) -> RM.parse_range vok1 s = RM.parse_range vok2 s.
Proof.
  intros H. unfold RM.parse_range. cbv zeta. pose proof (trim_space_length_le s) as TL.
  destruct (trim_space s) as [|x t] eqn:E; [reflexivity|]. rewrite <- E in *.
  rewrite (parse_all_ext vok1 vok2 (length s) _ H); [reflexivity|].
  intros p Hp. apply split_range_le in Hp. blia.
Qed.

Lemma parse_all_good vok n : forall ps cs,
  RM.parse_all vok ps = Some cs -> (forall p, In p ps -> (length p <= n)%nat) ->
  forall k, In k cs -> good vok n k.
Proof.
  induction ps as [|p r IH]; intros cs H Hl k Hk; cbn [RM.parse_all] in H.
  - injection H as <-. destruct Hk.
  - destruct (RM.parse_single vok p) as [k0|] eqn:E; [|discriminate].
    destruct (RM.parse_all vok r) as [l|] eqn:R; [|discriminate]. injection H as <-.
    destruct Hk as [<-|Hk].
    + apply parse_single_good in E. pose proof (Hl p (or_introl eq_refl)) as Lp.
      destruct k0 as [|op b]; [exact I|]. destruct E as (A & B & L). split; [exact A | split; [exact B | blia]].
    + apply (IH l eq_refl); [|exact Hk]. intros q Hq. apply Hl. right. exact Hq.
Qed.

Lemma parse_range_good vok s rg : RM.parse_range vok s = Some rg ->
  forall k, In k (RM.r_cs rg) -> good vok (length s) k.
Proof.
  unfold RM.parse_range. cbv zeta. pose proof (trim_space_length_le s) as TL.
  destruct (trim_space s) as [|x t] eqn:E; [discriminate|]. rewrite <- E in *.
  destruct (RM.parse_all vok (RM.split_range (trim_space s))) as [cs|] eqn:PA; [|discriminate].
  destruct cs as [|c0 cs]; [discriminate|]. intros H; injection H as <-. cbn [RM.r_cs].
  apply (parse_all_good vok (length s) _ _ PA). intros p Hp. apply split_range_le in Hp. blia.
Qed.

(* ---------- the bundle's NewVersion, as a function of the three regexp oracles ---------- *)

Definition NV_of (find : bytes -> option (list bytes)) (validchars numeric : bytes -> bool) (s : bytes)
  : option G.Version :=
  total None (P.Ecosystem_NewVersion find validchars numeric (length s + 2) G.mk_Ecosystem s).

Definition Compare_of (numeric : bytes -> bool) : G.Version -> G.Version -> Z :=
  G.Version_Compare (TL.comparePrerelease_total numeric).

(* the Go value of a model constraint; the wildcard's nil version is any value (matches never reads it) *)
Definition nilV : G.Version := G.mk_Version 0 0 0 [] [] [].
Definition cc_of (nv : bytes -> option G.Version) (k : RM.constr) : G.constraint :=
  match k with
  | RM.Wild => G.mk_constraint $"*" nilV
  | RM.Cmp op b => G.mk_constraint op (match nv b with Some x => x | None => nilV end)
  end.
Definition vok_of (nv : bytes -> option G.Version) (t : bytes) : bool := is_some (nv t).

(* the version-level oracles (three regular expressions) and what is assumed of them *)
Record voracles : Type := {
  find : bytes -> option (list bytes);                 (* versionPattern.FindStringSubmatch *)
  validchars : bytes -> bool;                          (* validCharsPattern.MatchString *)
  numeric : bytes -> bool;                             (* numericPattern.MatchString *)
  find_agrees : forall t, find t = PV.ref_match t;
  validchars_agrees : forall p, validchars p = M.valid_chars p;
  numeric_agrees : forall p, numeric p = M.is_numeric p
}.

(* .. and the two untranslated functions of range.go *)
Record oracles : Type := {
  vo :> voracles;
  single : bytes -> option (list G.constraint);        (* parseSingleConstraint *)
  cmatch : G.constraint -> G.Version -> bool;          (* constraint.matches *)
  (* parseSingleConstraint over THIS bundle's NewVersion *)
  single_agrees : forall c,
    single c = option_map (fun k => [cc_of (NV_of (find vo) (validchars vo) (numeric vo)) k])
                          (RM.parse_single (vok_of (NV_of (find vo) (validchars vo) (numeric vo))) c);
  (* constraint.matches over THIS bundle's Compare *)
  cmatch_agrees : forall c v,
    cmatch c v = if beq (G.constraint_operator c) $"*" then true
                 else sat (sem6 (G.constraint_operator c))
                          (cmp_of_Z (Compare_of (numeric vo) v (G.constraint_version c)))
}.

Definition Name : bytes := G.Ecosystem_Name G.mk_Ecosystem.

Lemma eco_found :
  Top.eco_or_none $"semver" =
  Some {| e_name := $"semver"; e_v := mk_vops M.parse_core M.cmp_core M.raw_orig;
          e_r := Verif.Eco.Semver.Entry.r |}.
Proof. reflexivity. Qed.

Theorem semver_name_ok : Name = $"semver".
Proof. reflexivity. Qed.

Theorem semver_model_tpo :
  TotalPreorderOn (fun s => l_vok (Top.model_lib $"semver") s = true) (l_vcmp (Top.model_lib $"semver")).
Proof. apply (model_lib_tpo _ _ _ _ _ _ eco_found MF.cmp_core_tp). Qed.

(* ---------- the version level: only the three regexp agreements ---------- *)

Section V.
  Variable O : voracles.

  Definition NV : bytes -> option G.Version := NV_of (find O) (validchars O) (numeric O).
  Definition Compare : G.Version -> G.Version -> Z := Compare_of (numeric O).

  Lemma NV_eq s : short s = true -> NV s = option_map (PV.conc s) (M.parse_core (trim_space s)).
  Proof.
    intros Hs. apply short_lt in Hs. unfold NV, NV_of.
    rewrite (PV.tie_parse_semver_newversion (find O) (validchars O) (numeric O) (find_agrees O)
               (validchars_agrees O) (numeric_agrees O)) by lia.
    reflexivity.
  Qed.

  Lemma NV_fits a x : short a = true -> NV a = Some x -> TL.fits1 (G.Version_prerelease x).
  Proof.
    intros Hs. rewrite (NV_eq a Hs). destruct (M.parse_core (trim_space a)) as [c|] eqn:E; [|discriminate].
    intros H. injection H as <-. apply parse_core_prerelease_le in E. apply short_lt in Hs.
    pose proof (trim_space_length_le a). unfold TL.fits1, PV.conc. cbn [G.Version_prerelease]. blia.
  Qed.

  Lemma H_nv s : short s = true -> option_map TV.abs (NV s) = M.parse_core (trim_space s).
  Proof.
    intros Hs. rewrite (NV_eq s Hs). destruct (M.parse_core (trim_space s)) as [c|]; [|reflexivity].
    cbn [option_map]. rewrite PV.abs_conc. reflexivity.
  Qed.

  Lemma H_cmp a b x y : short a = true -> short b = true -> NV a = Some x -> NV b = Some y ->
    Compare x y = Z_of_cmp (M.cmp_core (TV.abs x) (TV.abs y)).
  Proof.
    intros Da Db Ea Eb.
    apply (TL.tie_semver_compare_closed (numeric O) (numeric_agrees O));
      [exact (NV_fits a x Da Ea) | exact (NV_fits b y Db Eb)].
  Qed.

  Lemma H_str a x : short a = true -> NV a = Some x -> G.Version_String x = a.
  Proof.
    intros Da E. rewrite (NV_eq a Da) in E. destruct (M.parse_core (trim_space a)); [|discriminate].
    injection E as <-. reflexivity.
  Qed.

  Local Notation L := (Top.model_lib $"semver").
  Local Notation accepted := (fun s : bytes => l_vok L s = true).

  (* the fields name / vok / cmp / show of [lib_ties_on] (the two range components are stand-ins read off the
     library record): no hypothesis about parseSingleConstraint or constraint.matches *)
  Theorem semver_version_lib_ties_on :
    lib_ties_on G.Version bytes Name NV (NVR0 L) (Contains0 G.Version G.Version_String L) Compare
                G.Version_String L short.
  Proof.
    apply (custom_version_lib_ties_on M.core M.parse_core M.cmp_core true Verif.Eco.Semver.Entry.r $"semver" eco_found
             G.Version Name NV Compare G.Version_String TV.abs short eq_refl H_nv H_cmp H_str).
    intros X. discriminate X.
  Qed.

  (* `univers semver compare a b` and `univers semver sort ...`: the generated runEcosystem whatever the
     bundle's range parser and Contains are (in particular at ANY parseSingleConstraint / matches oracle) *)
  Theorem semver_compare_sort_e2e
      (VR : Type) (NVR : bytes -> option VR) (VR_Contains : VR -> G.Version -> bool)
      (sort_by : forall A : Type, (A -> A -> Z) -> list A -> list A) (e1 e2 e3 : list bytes -> bytes)
      (fuel : nat) (cmd : bytes) (rest : list bytes) :
    sort_ok G.Version NV Compare sort_by accepted ->
    cmd = $"compare" \/ cmd = $"sort" ->
    fits (cmd :: rest) -> (length (cmd :: rest) < fuel)%nat -> Forall (fun a => short a = true) (cmd :: rest) ->
    (cmd = $"sort" -> Forall accepted rest -> show_respects L rest) ->
    exists r,
      CmdCore.runEcosystem G.Version VR Name NV NVR VR_Contains Compare G.Version_String sort_by e1 e2 e3
                           fuel (cmd :: rest) = Done r /\
      shown (Top.model_cli (($"semver" : bytes) :: cmd :: rest)) r.
  Proof.
    intros SO Hc F Hf FD SR.
    apply (custom_version_only_cli_e2e M.core M.parse_core M.cmp_core true Verif.Eco.Semver.Entry.r $"semver" eco_found
             G.Version Name NV Compare G.Version_String TV.abs short eq_refl H_nv H_cmp H_str
             (fun X : true = false => False_ind _ (Bool.diff_true_false X))
             VR NVR VR_Contains sort_by e1 e2 e3 accepted SO semver_model_tpo eq_refl eq_refl
             fuel cmd rest Hc F Hf FD).
    intros E OK. split; [exact OK | exact (SR E OK)].
  Qed.
End V.

(* ---------- the whole library record: with the two range agreements ---------- *)

Section E2E.
  Variable O : oracles.

  Local Notation NV := (NV O).
  Local Notation Compare := (Compare O).
  Local Notation H_nv := (H_nv O).
  Local Notation H_cmp := (H_cmp O).

  (* ---------- the concrete bundle ---------- *)
  Definition NVR (s : bytes) : option G.VersionRange :=
    total None (P.Ecosystem_NewVersionRange (single O) (length s + 2) G.mk_Ecosystem s).
  Definition Contains : G.VersionRange -> G.Version -> bool := G.VersionRange_Contains (cmatch O).

  Lemma NVR_eq s : short s = true ->
    NVR s = option_map (PR.conc (cc_of NV)) (RM.parse_range (vok_of NV) s).
  Proof.
    intros Hs. apply short_lt in Hs. unfold NVR.
    rewrite (PR.tie_parse_semver_newversionrange (single O) (vok_of NV) (cc_of NV) (single_agrees O)) by lia.
    reflexivity.
  Qed.

  Local Notation e := {| e_name := $"semver"; e_v := mk_vops M.parse_core M.cmp_core M.raw_orig;
                         e_r := Verif.Eco.Semver.Entry.r |}.

  Lemma vok_eq s t : short s = true -> (length t <= length s)%nat -> self_vok e t = vok_of NV t.
  Proof.
    intros Hs Lt. unfold vok_of.
    apply (custom_vok M.core M.parse_core M.cmp_core M.raw_orig Verif.Eco.Semver.Entry.r $"semver"
             G.Version NV TV.abs short H_nv).
    apply (short_le s t Lt Hs).
  Qed.

  Lemma parse_range_eq s : short s = true -> RM.parse_range (self_vok e) s = RM.parse_range (vok_of NV) s.
  Proof. intros Hs. apply parse_range_ext. intros t Lt. apply (vok_eq s t Hs Lt). Qed.

  Lemma matches_one r v y k :
    short r = true -> short v = true -> NV v = Some y -> good (vok_of NV) (length r) k ->
    cmatch O (cc_of NV k) y = RM.matches (self_vcmp e) v k.
  Proof.
    intros Dr Dv Ev Gk. rewrite cmatch_agrees. destruct k as [|op b]; [reflexivity|].
    destruct Gk as (Vb & Nop & Lb). cbn [cc_of G.constraint_operator G.constraint_version RM.matches].
    rewrite Nop. unfold vok_of in Vb. destruct (NV b) as [x|] eqn:Eb; [|discriminate].
    pose proof (short_le r b Lb Dr) as Db.
    change (Compare_of (numeric O)) with Compare. rewrite (H_cmp v b y x Dv Db Ev Eb), cmp_of_Z_of_cmp.
    rewrite (custom_vcmp M.core M.parse_core M.cmp_core M.raw_orig Verif.Eco.Semver.Entry.r $"semver"
               G.Version NV TV.abs short H_nv v b y x Dv Db Ev Eb).
    reflexivity.
  Qed.

  (* ---------- lib_ties ---------- *)

  Theorem semver_lib_ties_on :
    lib_ties_on G.Version G.VersionRange Name NV NVR Contains Compare G.Version_String
                (Top.model_lib $"semver") short.
  Proof.
    apply (custom_lib_ties_on M.core M.parse_core M.cmp_core M.raw_orig Verif.Eco.Semver.Entry.r $"semver" eco_found
             G.Version G.VersionRange Name NV NVR Contains Compare G.Version_String TV.abs short).
    - reflexivity.
    - exact H_nv.
    - exact H_cmp.
    - exact (H_str O).
    - intros s Ds. cbn [r_show Verif.Eco.Semver.Entry.r].
      rewrite (parse_range_eq s Ds), (NVR_eq s Ds).
      destruct (RM.parse_range (vok_of NV) s); reflexivity.
    - intros r v x y Dr Dv Er Ev. cbn [r_contains Verif.Eco.Semver.Entry.r].
      rewrite (parse_range_eq r Dr). rewrite (NVR_eq r Dr) in Er.
      destruct (RM.parse_range (vok_of NV) r) as [rg|] eqn:PRg; [|discriminate].
      cbn [option_map] in Er. injection Er as <-.
      rewrite (vok_eq v v Dv (le_n _)). unfold vok_of at 1. rewrite Ev. cbn [is_some].
      unfold Contains, G.VersionRange_Contains, PR.conc, RM.contains. cbn [G.VersionRange_constraints].
      pose proof (parse_range_good _ _ _ PRg) as GG.
      induction (RM.r_cs rg) as [|k ks IH]; [reflexivity|]. cbn [map forallb].
      rewrite (matches_one r v y k Dr Dv Ev (GG k (or_introl eq_refl))). f_equal.
      apply IH. intros k' Hk'. apply GG. right. exact Hk'.
  Qed.

  (* the record of Tie/Cli/Common.v, for the bundle guarded by the length bound *)
  Corollary semver_lib_ties :
    lib_ties G.Version G.VersionRange Name (guard short NV) (guard short NVR) Contains Compare
             G.Version_String (restrict (Top.model_lib $"semver") short).
  Proof. apply lib_ties_guard, semver_lib_ties_on. Qed.

  (* ---------- the CLI ---------- *)

  Variable sort_by : forall A : Type, (A -> A -> Z) -> list A -> list A.
  Variable e1 e2 e3 : list bytes -> bytes.

  Definition runEcosystem : nat -> list bytes -> res (bytes * Z) :=
    CmdCore.runEcosystem G.Version G.VersionRange Name NV NVR Contains Compare G.Version_String sort_by e1 e2 e3.

  Local Notation L := (Top.model_lib $"semver").
  Local Notation accepted := (fun s : bytes => l_vok L s = true).

  (* `univers semver <args>` as computed by the source-derived code is the CLI model's outcome *)
  Theorem semver_runEcosystem_e2e (fuel : nat) (args : list bytes) :
    sort_ok G.Version NV Compare sort_by accepted ->
    fits args -> (length args < fuel)%nat -> Forall (fun a => short a = true) args ->
    (forall rest, args = $"sort" :: rest -> Forall accepted rest -> show_respects L rest) ->
    exists r, runEcosystem fuel args = Done r /\ shown (run_ecosystem L args) r.
  Proof.
    apply (eco_runEcosystem_e2e _ _ _ _ _ _ _ _ ($"semver" : bytes) semver_lib_ties_on semver_model_tpo).
  Qed.

  Corollary semver_cli_e2e (fuel : nat) (args : list bytes) :
    sort_ok G.Version NV Compare sort_by accepted ->
    fits args -> (length args < fuel)%nat -> Forall (fun a => short a = true) args ->
    (forall rest, args = $"sort" :: rest -> Forall accepted rest -> show_respects L rest) ->
    exists r, runEcosystem fuel args = Done r /\ shown (Top.model_cli (($"semver" : bytes) :: args)) r.
  Proof.
    apply (eco_cli_e2e _ _ _ _ _ _ _ _ ($"semver" : bytes) semver_lib_ties_on semver_model_tpo eq_refl eq_refl).
  Qed.

  (* the exit status: no hypothesis on the order, the sort oracle only has to return a permutation *)
  Theorem semver_cli_e2e_exit (fuel : nat) (args : list bytes) :
    (forall l, Permutation (sort_by G.Version Compare l) l) ->
    fits args -> (length args < fuel)%nat -> Forall (fun a => short a = true) args ->
    exists r, runEcosystem fuel args = Done r /\ snd r = exit_code (Top.model_cli (($"semver" : bytes) :: args)).
  Proof.
    apply (eco_cli_e2e_exit _ _ _ _ _ _ _ _ ($"semver" : bytes) semver_lib_ties_on eq_refl eq_refl).
  Qed.
End E2E.

Print Assumptions semver_lib_ties_on.
Print Assumptions semver_lib_ties.
Print Assumptions semver_name_ok.
Print Assumptions semver_model_tpo.
Print Assumptions semver_runEcosystem_e2e.
Print Assumptions semver_cli_e2e.
Print Assumptions semver_cli_e2e_exit.
Print Assumptions semver_version_lib_ties_on.
Print Assumptions semver_compare_sort_e2e.
Print Assumptions parse_core_prerelease_le.
Print Assumptions first_prefix_In.
Print Assumptions parse_single_good.
Print Assumptions parse_single_ext.
Print Assumptions parse_all_ext.
Print Assumptions split_range_le.
Print Assumptions parse_range_ext.
Print Assumptions parse_all_good.
Print Assumptions parse_range_good.
Print Assumptions NV_eq.
Print Assumptions NV_fits.
Print Assumptions NVR_eq.
Print Assumptions eco_found.
Print Assumptions H_nv.
Print Assumptions H_cmp.
Print Assumptions H_str.
Print Assumptions vok_eq.
Print Assumptions parse_range_eq.
Print Assumptions matches_one.
