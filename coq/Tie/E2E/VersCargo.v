(* Tie/E2E/VersCargo.v -- written by Tie/E2E/gen_vers.py.
   END TO END for the VERS scheme `cargo`: the generated vers.Contains (Gen/Parse/SpecVersCore.v,
   Section Instances) with the bundle of `cargoContains` instantiated by the source-derived cargo bundle of
   Tie/E2E/Cargo.v equals the model [Top.model_vers] -- the model that C04 / C16 / C17 are proved about.
   The bundles of the other ten ecosystems are arbitrary (Section variables): for a text of scheme `cargo`
   the routing ([Contains_routing], through [Contains_tie]) never calls them.

   [cargo_contains_e2e]   the generic [contains] at the cargo bundle = [contains_generic] at [Top.model_scheme_ops "cargo"]
   [cargoContains_e2e]    the same for the generated wrapper `cargoContains`
   [vers_cargo_e2e]    Contains fuel s v = Done (conc_vres (Top.model_vers s v)) for every text s whose scheme is
                        `cargo` (invalid texts included), s and v in the domain of the ecosystem's ties
                        ([short]: length + 64 < 2^63), length s < fuel, constraint versions pairwise non-equivalent.
   Hypotheses left: the oracle agreements of Cargo.oracles, [sort_spec sort_by],
   strings.Map(drop unicode.IsSpace) = strip_spaces ([Hstrip]). *)
From Coq Require Import ZArith List Ascii Bool Lia Permutation Sorted.
From Verif.Base Require Import Bytes GoNum GoOps Ord Sorting Imp ImpFacts ImpErr ImpCore BytesFacts.
From Verif.Vers Require Model FactsC16.
From Verif.Cli Require Import Model.
From Verif.Eco Require Import RangeCore Iface VLayer.
From Verif.Gen Require VersDispatch.
From Verif.Gen.Parse Require SpecVersCore.
From Verif.Tie Require Import Tactics.
From Verif.Tie.Loops Require Import Common.
From Verif.Tie.Parse Require Import Common.
From Verif.Tie.Cli Require Import Common.
From Verif.Tie.Vers Require Import Common CoreNormalize CoreContains CoreDispatch.
From Verif.Tie.E2E Require Import Common VersCommon VersCommon2.
From Verif.Tie.E2E Require Cargo.
From Verif Require Top.
Import ListNotations.
Local Open Scope Z_scope.

Module Cargo := Verif.Tie.E2E.Cargo.
Module M := Verif.Vers.Model.
Module D := Verif.Gen.VersDispatch.
Module C := Verif.Gen.Parse.SpecVersCore.

Lemma cargo_rops_coherent : rops_coherent Verif.Eco.Cargo.Entry.r.
Proof.
  intros vok vcmp t v. unfold Verif.Eco.Cargo.Entry.r; cbn [r_contains r_show]; unfold Verif.Eco.Cargo.Range.r_contains, Verif.Eco.Cargo.Range.r_show.
  destruct (Verif.Eco.Cargo.Range.parse_range vok t) as [rg|]; cbn [option_map andb]; [|reflexivity].
  destruct (vok v); reflexivity.
Qed.

Section VersCargo.
  Variable O : Cargo.oracles.

  (* the zero value of the version type; the bundles of the other ecosystems; the library oracles *)
  Variable alpine_Version : Type.
  Variable debian_Version : Type.
  Variable gem_Version : Type.
  Variable golang_Version : Type.
  Variable maven_Version : Type.
  Variable npm_Version : Type.
  Variable nuget_Version : Type.
  Variable rpm_Version : Type.
  Variable semver_Version : Type.
  Variable alpine_VersionRange : Type.
  Variable debian_VersionRange : Type.
  Variable gem_VersionRange : Type.
  Variable golang_VersionRange : Type.
  Variable maven_VersionRange : Type.
  Variable npm_VersionRange : Type.
  Variable nuget_VersionRange : Type.
  Variable pypi_VersionRange : Type.
  Variable rpm_VersionRange : Type.
  Variable semver_VersionRange : Type.
  Variable pypi_Version : Type.
  Variable alpine_Version_zero : alpine_Version.
  Variable cargo_Version_zero : Cargo.G.Version.
  Variable debian_Version_zero : debian_Version.
  Variable gem_Version_zero : gem_Version.
  Variable golang_Version_zero : golang_Version.
  Variable maven_Version_zero : maven_Version.
  Variable npm_Version_zero : npm_Version.
  Variable nuget_Version_zero : nuget_Version.
  Variable pypi_Version_zero : pypi_Version.
  Variable rpm_Version_zero : rpm_Version.
  Variable semver_Version_zero : semver_Version.
  Variable alpine_Ecosystem_Name : bytes.
  Variable alpine_Ecosystem_NewVersion : bytes -> option alpine_Version.
  Variable alpine_Ecosystem_NewVersionRange : bytes -> option alpine_VersionRange.
  Variable alpine_VersionRange_Contains : alpine_VersionRange -> alpine_Version -> bool.
  Variable alpine_Version_Compare : alpine_Version -> alpine_Version -> Z.
  Variable debian_Ecosystem_Name : bytes.
  Variable debian_Ecosystem_NewVersion : bytes -> option debian_Version.
  Variable debian_Ecosystem_NewVersionRange : bytes -> option debian_VersionRange.
  Variable debian_VersionRange_Contains : debian_VersionRange -> debian_Version -> bool.
  Variable debian_Version_Compare : debian_Version -> debian_Version -> Z.
  Variable gem_Ecosystem_Name : bytes.
  Variable gem_Ecosystem_NewVersion : bytes -> option gem_Version.
  Variable gem_Ecosystem_NewVersionRange : bytes -> option gem_VersionRange.
  Variable gem_VersionRange_Contains : gem_VersionRange -> gem_Version -> bool.
  Variable gem_Version_Compare : gem_Version -> gem_Version -> Z.
  Variable golang_Ecosystem_Name : bytes.
  Variable golang_Ecosystem_NewVersion : bytes -> option golang_Version.
  Variable golang_Ecosystem_NewVersionRange : bytes -> option golang_VersionRange.
  Variable golang_VersionRange_Contains : golang_VersionRange -> golang_Version -> bool.
  Variable golang_Version_Compare : golang_Version -> golang_Version -> Z.
  Variable maven_Ecosystem_Name : bytes.
  Variable maven_Ecosystem_NewVersion : bytes -> option maven_Version.
  Variable maven_Ecosystem_NewVersionRange : bytes -> option maven_VersionRange.
  Variable maven_VersionRange_Contains : maven_VersionRange -> maven_Version -> bool.
  Variable maven_Version_Compare : maven_Version -> maven_Version -> Z.
  Variable npm_Ecosystem_Name : bytes.
  Variable npm_Ecosystem_NewVersion : bytes -> option npm_Version.
  Variable npm_Ecosystem_NewVersionRange : bytes -> option npm_VersionRange.
  Variable npm_VersionRange_Contains : npm_VersionRange -> npm_Version -> bool.
  Variable npm_Version_Compare : npm_Version -> npm_Version -> Z.
  Variable nuget_Ecosystem_Name : bytes.
  Variable nuget_Ecosystem_NewVersion : bytes -> option nuget_Version.
  Variable nuget_Ecosystem_NewVersionRange : bytes -> option nuget_VersionRange.
  Variable nuget_VersionRange_Contains : nuget_VersionRange -> nuget_Version -> bool.
  Variable nuget_Version_Compare : nuget_Version -> nuget_Version -> Z.
  Variable pypi_Ecosystem_Name : bytes.
  Variable pypi_Ecosystem_NewVersionRange : bytes -> option pypi_VersionRange.
  Variable pypi_VersionRange_Contains : pypi_VersionRange -> pypi_Version -> bool.
  Variable pypi_Version_Compare : pypi_Version -> pypi_Version -> Z.
  Variable rpm_Ecosystem_Name : bytes.
  Variable rpm_Ecosystem_NewVersion : bytes -> option rpm_Version.
  Variable rpm_Ecosystem_NewVersionRange : bytes -> option rpm_VersionRange.
  Variable rpm_VersionRange_Contains : rpm_VersionRange -> rpm_Version -> bool.
  Variable rpm_Version_Compare : rpm_Version -> rpm_Version -> Z.
  Variable semver_Ecosystem_Name : bytes.
  Variable semver_Ecosystem_NewVersion : bytes -> option semver_Version.
  Variable semver_Ecosystem_NewVersionRange : bytes -> option semver_VersionRange.
  Variable semver_VersionRange_Contains : semver_VersionRange -> semver_Version -> bool.
  Variable semver_Version_Compare : semver_Version -> semver_Version -> Z.
  Variable pypi_Ecosystem_NewVersion : bytes -> option pypi_Version.
  Variable pypi_Version_String : pypi_Version -> bytes.
  Variable sort_by : forall A : Type, (A -> A -> Z) -> list A -> list A.
  Variable strings_Map : (Z -> Z) -> bytes -> bytes.
  Variable strings_ReplaceAll : bytes -> bytes -> bytes -> bytes.
  Variable unicode_IsSpace : Z -> bool.

  Local Notation ALL f := (f alpine_Version Cargo.G.Version debian_Version gem_Version golang_Version maven_Version npm_Version nuget_Version rpm_Version semver_Version alpine_VersionRange Cargo.G.VersionRange debian_VersionRange gem_VersionRange golang_VersionRange maven_VersionRange npm_VersionRange nuget_VersionRange pypi_VersionRange rpm_VersionRange semver_VersionRange pypi_Version alpine_Version_zero cargo_Version_zero debian_Version_zero gem_Version_zero golang_Version_zero maven_Version_zero npm_Version_zero nuget_Version_zero pypi_Version_zero rpm_Version_zero semver_Version_zero alpine_Ecosystem_Name alpine_Ecosystem_NewVersion alpine_Ecosystem_NewVersionRange alpine_VersionRange_Contains alpine_Version_Compare Cargo.Name (Cargo.NV O) (Cargo.NVR O) (Cargo.Contains O) (Cargo.Compare O) debian_Ecosystem_Name debian_Ecosystem_NewVersion debian_Ecosystem_NewVersionRange debian_VersionRange_Contains debian_Version_Compare gem_Ecosystem_Name gem_Ecosystem_NewVersion gem_Ecosystem_NewVersionRange gem_VersionRange_Contains gem_Version_Compare golang_Ecosystem_Name golang_Ecosystem_NewVersion golang_Ecosystem_NewVersionRange golang_VersionRange_Contains golang_Version_Compare maven_Ecosystem_Name maven_Ecosystem_NewVersion maven_Ecosystem_NewVersionRange maven_VersionRange_Contains maven_Version_Compare npm_Ecosystem_Name npm_Ecosystem_NewVersion npm_Ecosystem_NewVersionRange npm_VersionRange_Contains npm_Version_Compare nuget_Ecosystem_Name nuget_Ecosystem_NewVersion nuget_Ecosystem_NewVersionRange nuget_VersionRange_Contains nuget_Version_Compare pypi_Ecosystem_Name pypi_Ecosystem_NewVersionRange pypi_VersionRange_Contains pypi_Version_Compare rpm_Ecosystem_Name rpm_Ecosystem_NewVersion rpm_Ecosystem_NewVersionRange rpm_VersionRange_Contains rpm_Version_Compare semver_Ecosystem_Name semver_Ecosystem_NewVersion semver_Ecosystem_NewVersionRange semver_VersionRange_Contains semver_Version_Compare pypi_Ecosystem_NewVersion pypi_Version_String sort_by strings_Map strings_ReplaceAll unicode_IsSpace) (only parsing).

  Hypothesis Hstrip : forall c, despace strings_Map unicode_IsSpace c = strip_spaces c.
  Hypothesis Hsort : sort_spec sort_by.

  Local Notation S := (Top.model_scheme_ops $"cargo").

  (* the generic contains at the source-derived cargo bundle *)
  Theorem cargo_contains_e2e (cs : list bytes) (version : bytes) (fuel : nat) :
    fits cs -> (length cs + 6 < fuel)%nat ->
    shortn (tlen cs + 7) = true ->
    short version = true ->
    FactsC16.pairwise_nonequiv S cs ->
    C.contains Cargo.G.Version Cargo.G.VersionRange cargo_Version_zero Cargo.Name (Cargo.NV O) (Cargo.NVR O)
               (Cargo.Contains O) (Cargo.Compare O) sort_by strings_Map unicode_IsSpace fuel cs version =
    Done (conc_vres (M.contains_generic S (lookup ($"cargo") D.style_table) cs version)).
  Proof.
    exact (contains_e2e_len ($"cargo") _ Cargo.eco_found cargo_rops_coherent
             Cargo.G.Version Cargo.G.VersionRange cargo_Version_zero Cargo.Name (Cargo.NV O) (Cargo.NVR O)
             (Cargo.Contains O) (Cargo.Compare O) Cargo.G.Version_String sort_by strings_Map unicode_IsSpace short
             (Cargo.cargo_lib_ties_on O) Cargo.cargo_model_tpo Hstrip Hsort shortn short_len shortn_mono cs version fuel).
  Qed.

  (* the generated wrapper `cargoContains` (what the dispatch table of vers.Contains holds for `cargo`) *)
  Theorem cargoContains_e2e (cs : list bytes) (version : bytes) (fuel : nat) :
    fits cs -> (length cs + 6 < fuel)%nat ->
    shortn (tlen cs + 7) = true ->
    short version = true ->
    FactsC16.pairwise_nonequiv S cs ->
    C.cargoContains Cargo.G.Version Cargo.G.VersionRange cargo_Version_zero Cargo.Name (Cargo.NV O) (Cargo.NVR O)
               (Cargo.Contains O) (Cargo.Compare O) sort_by strings_Map unicode_IsSpace fuel cs version =
    Done (conc_vres (M.contains_generic S (lookup ($"cargo") D.style_table) cs version)).
  Proof.
    intros. etransitivity; [|apply (cargo_contains_e2e cs version fuel); assumption].
    apply (cargoContains_is_contains Cargo.G.Version Cargo.G.VersionRange cargo_Version_zero Cargo.Name (Cargo.NV O) (Cargo.NVR O)
             (Cargo.Contains O) (Cargo.Compare O) sort_by strings_Map unicode_IsSpace fuel cs version).
  Qed.

  (* vers.Contains as computed by the source-derived code = the model *)
  Theorem vers_cargo_e2e (s v : bytes) (fuel : nat) :
    short s = true -> short v = true -> (length s < fuel)%nat ->
    (forall name cl, M.valid s = Some (name, cl) -> name = $"cargo") ->
    (forall name cl, M.valid s = Some (name, cl) -> FactsC16.pairwise_nonequiv S cl) ->
    ALL Contains_g fuel s v = Done (conc_vres (Top.model_vers s v)).
  Proof.
    intros Ds Dv Hf Hname HPW. unfold Top.model_vers.
    pose proof (short_lt s Ds) as Ls.
    assert (Fits : fits s) by (unfold fits; lia).
    apply (ALL Contains_tie Top.model_scheme_ops s v fuel Fits Hf).
    intros name cl sc f V OS Fs Dn.
    pose proof (Hname name cl V) as E. subst name.
    assert (DK : ALL dispatch ($"cargo") = Some (contains_cargo Cargo.G.Version Cargo.G.VersionRange cargo_Version_zero
                    Cargo.Name (Cargo.NV O) (Cargo.NVR O) (Cargo.Contains O) (Cargo.Compare O) sort_by strings_Map unicode_IsSpace))
      by reflexivity.
    rewrite DK in Dn. injection Dn as <-.
    assert (Fs' : M.find_scheme ($"cargo") D.scheme_table =
                  Some {| M.sc_name := $"cargo"; M.sc_eco := $"cargo"; M.sc_pypi_gate := false |}) by reflexivity.
    rewrite Fs' in Fs. injection Fs as <-.
    unfold model_of. cbn [M.sc_eco M.sc_pypi_gate]. unfold contains_cargo.
    destruct (valid_lengths s _ cl V) as [L1 L2].
    apply cargo_contains_e2e.
    - unfold fits. lia.
    - lia.
    - apply (shortn_mono (length s)); [lia | rewrite <- short_len; exact Ds].
    - exact Dv.
    - exact (HPW _ cl V).
  Qed.
End VersCargo.
Print Assumptions cargo_contains_e2e.
Print Assumptions cargoContains_e2e.
Print Assumptions vers_cargo_e2e.
Print Assumptions cargo_rops_coherent.
