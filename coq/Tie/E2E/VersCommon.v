(* Tie/E2E/VersCommon.v -- what the end-to-end files for the VERS schemes (Tie/E2E/Vers<Scheme>.v) share.

   Lengths.  [tlen]: the total length of a list of texts; [split_c_tlen]: the pieces of a split are
   together no longer than the text; [W]: the total length of the version texts of model constraints;
   [normalize_W]: normalize does not lengthen ([W ncs <= tlen cs]); [group_IW]: the bounds of one
   interval of [group cs] are together no longer than [W cs] (every constraint is used at most once
   per interval); [native_text_len]: the printed native range text of an interval is at most 7 bytes
   longer than its bounds.  Hence ([texts_short], [cs_short]): when the constraint texts are together
   shorter than 2^63 - 71, every text that vers.contains hands to the ecosystem is [short].
   [valid_lengths]: for a VERS text s the constraint texts are together at most [length s - 7] long.

   The model side.  For an ecosystem whose range layer is a [range_cfg] ([mk_simple_rops]):
   [model_scheme_ops_of]; the three agreements of Tie/Vers/CoreContainsOn.v with [Top.model_scheme_ops]
   from the record [lib_ties_on .. (Top.model_lib name) short] of the ecosystem's E2E file.

   [contains_e2e]: the generic [contains] at such a bundle is [contains_generic] at
   [Top.model_scheme_ops name] for short texts. *)
From Coq Require Import ZArith List Ascii Bool Lia Permutation Sorted.
From Verif.Base Require Import Bytes GoNum GoOps Ord Sorting Imp ImpFacts ImpErr ImpCore BytesFacts.
From Verif.Vers Require Model FactsStr FactsSort FactsC16.
From Verif.Cli Require Import Model.
From Verif.Eco Require Import RangeCore Iface VLayer.
From Verif.Gen Require VersDispatch.
From Verif.Gen.Parse Require SpecVersCore.
From Verif.Tie Require Import Tactics.
From Verif.Tie.Loops Require Import Common.
From Verif.Tie.Parse Require Import Common.
From Verif.Tie.Cli Require Import Common.
From Verif.Tie.Vers Require Import Common Constraints Texts CoreNormalize CoreContains CoreContainsOn.
From Verif.Tie.E2E Require Import Common.
From Verif Require Top.
Import ListNotations.
Local Open Scope Z_scope.

Module C := Verif.Gen.Parse.SpecVersCore.
Module M := Verif.Vers.Model.
Module D := Verif.Gen.VersDispatch.

(* ---------- total lengths ---------- *)

Definition tlen (l : list bytes) : nat := fold_right (fun c n => (length c + n)%nat) 0%nat l.

Lemma tlen_In c l : In c l -> (length c <= tlen l)%nat.
Proof.
  induction l as [|x l IH]; intros H; [destruct H|]. cbn [tlen fold_right]. fold (tlen l).
  destruct H as [->|H]; [lia | specialize (IH H); lia].
Qed.

Lemma split_c_tlen sep (s : bytes) : (tlen (split_c sep s) <= length s)%nat.
Proof.
  induction s as [|x s IH]; cbn [split_c]; [cbn; lia|].
  destruct (ceqb sep x).
  - cbn [tlen fold_right length]. fold (tlen (split_c sep s)). lia.
  - destruct (split_c sep s) as [|f fs]; cbn [tlen fold_right length] in *; lia.
Qed.

Ltac blia := unfold M.vcons, bytes in *; lia.

Definition W (l : list M.vcons) : nat := fold_right (fun c n => (length (snd c) + n)%nat) 0%nat l.

Lemma W_cons c l : W (c :: l) = (length (snd c) + W l)%nat.
Proof. reflexivity. Qed.

Lemma W_In c l : In c l -> (length (snd c) <= W l)%nat.
Proof.
  induction l as [|x l IH]; intros H; [destruct H|]. rewrite W_cons.
  destruct H as [->|H]; [blia | specialize (IH H); blia].
Qed.

Lemma W_perm l l' : Permutation l l' -> W l = W l'.
Proof.
  induction 1 as [|x l l' _ IH|x y l|l l' l'' _ IH1 _ IH2]; rewrite ?W_cons; [reflexivity | blia | blia | blia].
Qed.

Lemma W_filter f l : (W (filter f l) <= W l)%nat.
Proof. induction l as [|x l IH]; cbn [filter]; [blia|]. destruct (f x); rewrite ?W_cons; blia. Qed.

Lemma W_lower_upper (l : list M.vcons) :
  (W (filter (fun c => M.is_lower_op (fst c)) l) + W (filter (fun c => M.is_upper_op (fst c)) l) <= W l)%nat.
Proof.
  induction l as [|[o v] l IH]; cbn [filter fst]; [cbn; blia|].
  destruct o; cbn [M.is_lower_op M.is_upper_op]; rewrite ?W_cons; cbn [snd]; blia.
Qed.

(* the bounds of one interval *)
Definition blen (o : option (bytes * bool)) : nat := match o with Some (a, _) => length a | None => 0%nat end.
Definition IW (i : M.interval) : nat :=
  (blen (M.i_lower i) + blen (M.i_upper i) + match M.i_exact i with Some a => length a | None => 0%nat end)%nat.

Definition Wopt (p : option M.vcons) : nat := match p with Some c => length (snd c) | None => 0%nat end.

Lemma alternating_IW : forall bs pending prev l i,
  M.alternating pending prev bs = Some l -> In i l -> (IW i <= W bs + Wopt pending)%nat.
Proof.
  induction bs as [|c r IH]; intros pending prev l i H Hi; cbn [M.alternating] in H.
  - injection H as <-. destruct pending as [p|]; [|destruct Hi].
    destruct Hi as [<-|[]]. cbn. blia.
  - cbv zeta in H. rewrite W_cons.
    assert (LOW : M.alternating (Some c) (Some (M.is_lower_op (fst c))) r = Some l ->
                  (IW i <= length (snd c) + W r + Wopt pending)%nat).
    { intros H0. pose proof (IH _ _ _ i H0 Hi) as X. cbn [Wopt] in X. blia. }
    assert (UP : forall f : M.interval,
              (IW f <= length (snd c) + Wopt pending)%nat ->
              match M.alternating None (Some (M.is_lower_op (fst c))) r with
              | Some l1 => Some (f :: l1) | None => None end = Some l ->
              (IW i <= length (snd c) + W r + Wopt pending)%nat).
    { intros f Hf H0.
      destruct (M.alternating None (Some (M.is_lower_op (fst c))) r) as [l1|] eqn:A; [|discriminate].
      injection H0 as <-. destruct Hi as [<-|Hi]; [blia|].
      pose proof (IH _ _ _ i A Hi) as X. cbn [Wopt] in X. blia. }
    assert (F1 : (IW (match pending with Some lo => M.iv_both lo c | None => M.iv_upper c end)
                  <= length (snd c) + Wopt pending)%nat).
    { destruct pending as [lo|]; cbn; blia. }
    assert (F2 : (IW (M.iv_upper c) <= length (snd c) + Wopt pending)%nat) by (cbn; blia).
    destruct prev as [p|].
    + destruct (Bool.eqb p (M.is_lower_op (fst c))); [discriminate|].
      destruct (M.is_lower_op (fst c)); [exact (LOW H) | exact (UP _ F1 H)].
    + destruct (M.is_lower_op (fst c)); [exact (LOW H) | exact (UP _ F2 H)].
Qed.

Lemma zip_both_In : forall ls us i, In i (M.zip_both ls us) ->
  exists l u, In l ls /\ In u us /\ i = M.iv_both l u.
Proof.
  induction ls as [|l ls IH]; intros [|u us] i H; cbn [M.zip_both] in H; try (destruct H; fail); destruct H as [<-|H].
  - exists l, u. repeat split; left; reflexivity.
  - destruct (IH us i H) as (l' & u' & Hl & Hu & E). exists l', u'. repeat split; [right|right|]; assumption.
Qed.

Lemma heuristic_IW ls us i : In i (M.heuristic ls us) -> (IW i <= W ls + W us)%nat.
Proof.
  unfold M.heuristic. cbv zeta.
  destruct (_ || _ || _)%bool.
  - assert (HL : forall l, M.last_opt ls = Some l -> (length (snd l) <= W ls)%nat)
      by (intros l L; apply W_In, last_opt_In; exact L).
    assert (HU : forall u, hd_error us = Some u -> (length (snd u) <= W us)%nat)
      by (intros u U; apply W_In, hd_error_In; exact U).
    destruct (M.last_opt ls) as [l|], (hd_error us) as [u|]; intros H; try (destruct H as [<-|[]]);
      try (specialize (HL _ eq_refl)); try (specialize (HU _ eq_refl)); cbn; try blia.
    destruct H.
  - destruct (_ && _)%bool.
    + intros H. apply zip_both_In in H. destruct H as (l & u & Hl & Hu & ->).
      apply W_In in Hl. apply W_In in Hu. cbn. blia.
    + intros H. apply in_app_or in H. destruct H as [H|H]; apply in_map_iff in H; destruct H as (c & <- & Hc);
        apply W_In in Hc; cbn; blia.
Qed.

Lemma group_IW cs i : In i (M.group cs) -> (IW i <= W cs)%nat.
Proof.
  unfold M.group. cbv zeta. intros H. apply in_app_or in H. destruct H as [H|H].
  - apply in_map_iff in H. destruct H as (c & <- & Hc). apply filter_In in Hc. destruct Hc as [Hc _].
    apply W_In in Hc. cbn. blia.
  - destruct (filter (fun c => M.is_lower_op (fst c) || M.is_upper_op (fst c)) cs) as [|b bs] eqn:FB; [destruct H|].
    assert (WB : (W (b :: bs) <= W cs)%nat) by (rewrite <- FB; apply W_filter).
    destruct (M.alternating None None (b :: bs)) as [l|] eqn:A.
    + pose proof (alternating_IW _ _ _ _ i A H) as X. cbn [Wopt] in X. blia.
    + apply heuristic_IW in H. pose proof (W_lower_upper cs). blia.
Qed.

Lemma ensure_v_len v : (length (M.ensure_v v) <= S (length v))%nat.
Proof. unfold M.ensure_v. destruct v as [|x v]; [cbn; blia|]. destruct (has_prefix _ _); cbn [length]; blia. Qed.

Lemma native_text_len st i t : M.native_text st i = Some t -> (length t <= IW i + 7)%nat.
Proof.
  destruct i as [lo up ex]. unfold M.native_text, IW. cbn [M.i_exact M.i_lower M.i_upper].
  destruct ex as [e|].
  - intros H. injection H as <-. pose proof (ensure_v_len e).
    destruct st; repeat first [rewrite app_length | progress cbn [length list_ascii_of_string]]; blia.
  - destruct lo as [[a ia]|], up as [[b ib]|]; cbn [blen];
      pose proof (ensure_v_len a) as Ea || idtac; pose proof (ensure_v_len b) as Eb || idtac;
      destruct st; intros H; try discriminate; injection H as <-;
      try destruct ia; try destruct ib; unfold M.lo_op, M.up_op;
      repeat first [rewrite app_length | progress cbn [length list_ascii_of_string]]; blia.
Qed.

Lemma filter_some_In {A} (l : list (option A)) x : In x (M.filter_some l) -> In (Some x) l.
Proof.
  induction l as [|[y|] l IH]; cbn [M.filter_some]; intros H; [destruct H| |right; exact (IH H)].
  destruct H as [->|H]; [left; reflexivity | right; exact (IH H)].
Qed.

Lemma strip_spaces_len s : (length (strip_spaces s) <= length s)%nat.
Proof.
  unfold strip_spaces. induction s as [|x s IH]; cbn [filter length]; [blia|].
  destruct (negb (is_space x)); cbn [length]; blia.
Qed.

Lemma strip_vop_len c o v : M.strip_vop M.vers_ops c = Some (o, v) -> (length v <= length c)%nat.
Proof. intros H. apply strip_vop_text in H. subst c. rewrite app_length. blia. Qed.

Lemma split_op_len c : (length (snd (split_op c)) <= length c)%nat.
Proof.
  unfold split_op. destruct (M.strip_vop M.vers_ops c) as [[o v]|] eqn:E; cbn [snd length]; [|blia].
  exact (strip_vop_len c o v E).
Qed.

Lemma nc_W S : forall cs seen l, M.normalize_collect S seen cs = Some l -> (W l <= tlen cs)%nat.
Proof.
  induction cs as [|c0 r IH]; intros seen l H.
  - cbn in H. injection H as <-. cbn. blia.
  - cbn [tlen fold_right]. fold (tlen r). destruct (FactsC16.blank_dec c0) as [E0|E0].
    + rewrite (FactsC16.nc_cons_blank _ _ _ _ E0) in H. apply IH in H. blia.
    + rewrite (FactsC16.nc_cons_nonblank _ _ _ _ E0) in H. cbv zeta in H.
      destruct (beq _ $"*"); [discriminate|].
      destruct (M.strip_vop M.vers_ops _) as [[o v]|] eqn:SV; [|discriminate].
      apply strip_vop_len in SV. pose proof (strip_spaces_len c0) as SL.
      destruct v as [|y v']; [discriminate|].
      destruct (mem _ seen); [apply IH in H; blia|].
      destruct (M.s_vok S _); [|discriminate].
      destruct (M.normalize_collect S _ r) as [l2|] eqn:R; [|discriminate].
      injection H as <-. apply IH in R. rewrite W_cons. cbn [snd]. blia.
Qed.

Lemma normalize_W S cs l : M.normalize S cs = Some l -> (W l <= tlen cs)%nat.
Proof.
  unfold M.normalize. destruct (M.normalize_collect S [] cs) as [l0|] eqn:N; [|discriminate].
  intros H. injection H as <-. rewrite (W_perm _ _ (FactsSort.isort_perm _ _ l0)).
  exact (nc_W S cs [] l0 N).
Qed.

(* the texts vers.contains hands to the ecosystem are short *)
Lemma cs_short cs : Z.of_nat (tlen cs) + 64 < 2 ^ 63 ->
  forall c0, In c0 cs -> short (snd (split_op (strip_spaces c0))) = true.
Proof.
  intros H c0 Hc. apply tlen_In in Hc. pose proof (split_op_len (strip_spaces c0)). pose proof (strip_spaces_len c0).
  unfold short. apply Z.ltb_lt. blia.
Qed.

Lemma texts_short S cs : Z.of_nat (tlen cs) + 71 < 2 ^ 63 ->
  forall ncs st t, M.normalize S cs = Some ncs ->
    In t (M.filter_some (map (M.native_text st) (M.group ncs))) -> short t = true.
Proof.
  intros H ncs st t NM Ht. apply filter_some_In in Ht. apply in_map_iff in Ht. destruct Ht as (i & E & Hi).
  apply native_text_len in E. apply group_IW in Hi. apply normalize_W in NM.
  unfold short. apply Z.ltb_lt. blia.
Qed.

(* a VERS text: vers:<scheme>/<c1>|<c2>|.. *)
Lemma valid_lengths s name cl : M.valid s = Some (name, cl) ->
  (tlen cl + 7 <= length s)%nat /\ (length cl + 6 <= length s)%nat.
Proof.
  unfold M.valid.
  destruct (has_prefix $"vers:" s) eqn:HP; cbn [negb]; [|discriminate].
  pose proof (has_prefix_len _ _ HP) as L5. cbn [length list_ascii_of_string] in L5.
  destruct (negb (forallb M.printable s)); [discriminate|].
  destruct (split2_c "/"%char (skipn 5 s)) as [e [ctext|]] eqn:SP; [|discriminate].
  destruct e as [|e0 e']; [discriminate|].
  destruct (negb (forallb M.scheme_char (e0 :: e'))); [discriminate|].
  destruct ctext as [|c0 ct] eqn:EC; [discriminate|]. rewrite <- EC in *. clear EC.
  cbv zeta. destruct (Nat.ltb _ _); [discriminate|]. destruct (andb _ _); [discriminate|].
  intros H. injection H as _ <-.
  assert (LS : (length (e0 :: e') + 1 + length ctext + 5 = length s)%nat).
  { unfold split2_c in SP. destruct (cut ["/"%char] (skipn 5 s)) as [[a b]|] eqn:Cu; [|discriminate].
    injection SP as <- <-. apply cut1_length in Cu. rewrite skipn_length in Cu. unfold bytes in *. blia. }
  pose proof (split_c_tlen "|"%char ctext). pose proof (split_c_len_le "|"%char ctext).
  cbn [length] in *. blia.
Qed.

Print Assumptions group_IW.
Print Assumptions native_text_len.
Print Assumptions normalize_W.
Print Assumptions cs_short.
Print Assumptions texts_short.
Print Assumptions valid_lengths.

(* ---------- the model side ---------- *)

Lemma model_scheme_ops_of name e :
  Top.eco_or_none name = Some e ->
  Top.model_scheme_ops name = {|
    M.s_vok := self_vok e;
    M.s_vcmp := self_vcmp e;
    M.s_vshow := fun s => match v_show (e_v e) s with Some t => t | None => [] end;
    M.s_rcontains := fun r v => r_contains (e_r e) (self_vok e) (self_vcmp e) r v |}.
Proof. intros H. unfold Top.model_scheme_ops. rewrite H. reflexivity. Qed.
Print Assumptions model_scheme_ops_of.

Section SimpleScheme.
  (* the model: an ecosystem whose range layer is a range_cfg *)
  Variable name : bytes.
  Variable ev : vops.
  Variable cfg : range_cfg.
  Let e : eco := {| e_name := name; e_v := ev; e_r := mk_simple_rops cfg |}.
  Hypothesis Hfind : Top.eco_or_none name = Some e.

  (* the bundle *)
  Variable V VR : Type.
  Variable V_zero : V.
  Variable E_Name : bytes.
  Variable NV : bytes -> option V.
  Variable NVR : bytes -> option VR.
  Variable VR_Contains : VR -> V -> bool.
  Variable V_Compare : V -> V -> Z.
  Variable V_String : V -> bytes.
  Variable sort_by : forall A : Type, (A -> A -> Z) -> list A -> list A.
  Variable strings_Map : (Z -> Z) -> bytes -> bytes.
  Variable unicode_IsSpace : Z -> bool.

  Local Notation L := (Top.model_lib name).
  Local Notation S := (Top.model_scheme_ops name).

  Hypothesis TI : lib_ties_on V VR E_Name NV NVR VR_Contains V_Compare V_String L short.
  Hypothesis TP : TotalPreorderOn (fun s => l_vok L s = true) (l_vcmp L).
  Hypothesis Hstrip : forall c, despace strings_Map unicode_IsSpace c = strip_spaces c.
  Hypothesis Hsort : sort_spec sort_by.

  Lemma scheme_name : E_Name = name.
  Proof. rewrite (o_name _ _ _ _ _ _ _ _ _ _ TI). rewrite (model_lib_of _ _ Hfind). reflexivity. Qed.

  Lemma scheme_vok s : M.s_vok S s = l_vok L s.
  Proof. rewrite (model_scheme_ops_of _ _ Hfind), (model_lib_of _ _ Hfind). reflexivity. Qed.

  Lemma scheme_vcmp a b : M.s_vcmp S a b = l_vcmp L a b.
  Proof. rewrite (model_scheme_ops_of _ _ Hfind), (model_lib_of _ _ Hfind). reflexivity. Qed.

  Lemma scheme_rcontains t v :
    M.s_rcontains S t v = if l_rok L t && l_vok L v then Some (l_rcontains L t v) else None.
  Proof.
    rewrite (model_scheme_ops_of _ _ Hfind), (model_lib_of _ _ Hfind).
    cbn [M.s_rcontains l_rok l_vok l_rcontains]. change (e_r e) with (mk_simple_rops cfg).
    cbn [r_contains r_show mk_simple_rops].
    destruct (parse_range bytes (oracle_parse (self_vok e)) cfg t) as [rg|]; cbn [option_map andb]; [|reflexivity].
    destruct (self_vok e v); reflexivity.
  Qed.

  Lemma scheme_vok_on s : short s = true -> (NV s = None <-> M.s_vok S s = false).
  Proof.
    intros Ds. rewrite scheme_vok, (o_vok _ _ _ _ _ _ _ _ _ _ TI s Ds).
    destruct (NV s); cbn [is_some]; split; intros H; congruence.
  Qed.

  Lemma scheme_cmp_on a b va vb : short a = true -> short b = true -> NV a = Some va -> NV b = Some vb ->
    V_Compare va vb = Z_of_cmp (M.s_vcmp S a b).
  Proof. intros Da Db Ha Hb. rewrite scheme_vcmp. exact (o_cmp _ _ _ _ _ _ _ _ _ _ TI a b va vb Da Db Ha Hb). Qed.

  Lemma scheme_range_on t v ver : short t = true -> short v = true -> NV v = Some ver ->
    M.s_rcontains S t v = option_map (fun r => VR_Contains r ver) (NVR t).
  Proof.
    intros Dt Dv Hv. rewrite scheme_rcontains.
    rewrite (o_rok _ _ _ _ _ _ _ _ _ _ TI t Dt), (o_vok _ _ _ _ _ _ _ _ _ _ TI v Dv), Hv. cbn [is_some].
    destruct (NVR t) as [x|] eqn:Ht; cbn [is_some andb option_map]; [|reflexivity].
    rewrite (o_contains _ _ _ _ _ _ _ _ _ _ TI t v x ver Dt Dv Ht Hv). reflexivity.
  Qed.

  Lemma scheme_tpo : TotalPreorderOn (FactsC16.vok_text S) (M.s_vcmp S).
  Proof.
    unfold FactsC16.vok_text. constructor.
    - intros a Pa. rewrite scheme_vok in Pa. rewrite scheme_vcmp. apply (tpo_refl TP). exact Pa.
    - intros a b Pa Pb. rewrite scheme_vok in Pa, Pb. rewrite !scheme_vcmp. apply (tpo_anti TP); assumption.
    - intros a b c x Pa Pb Pc. rewrite scheme_vok in Pa, Pb, Pc. rewrite !scheme_vcmp.
      apply (tpo_trans TP); assumption.
    - intros a b c Pa Pb Pc. rewrite scheme_vok in Pa, Pb, Pc. rewrite !scheme_vcmp.
      apply (tpo_eq_l TP); assumption.
  Qed.

  (* vers.contains at the source-derived bundle = the model's contains_generic at the model's own layer *)
  Theorem contains_e2e (cs : list bytes) (version : bytes) (fuel : nat) :
    fits cs -> (length cs + 6 < fuel)%nat ->
    Z.of_nat (tlen cs) + 71 < 2 ^ 63 ->
    short version = true ->
    FactsC16.pairwise_nonequiv S cs ->
    C.contains V VR V_zero E_Name NV NVR VR_Contains V_Compare sort_by strings_Map unicode_IsSpace fuel cs version =
    Done (res_of_vres (M.contains_generic S (lookup name D.style_table) cs version)).
  Proof.
    intros F L Hlen Dv PW.
    replace (lookup name D.style_table) with (lookup E_Name D.style_table) by (rewrite scheme_name; reflexivity).
    apply (contains_tie_on V VR V_zero E_Name NV NVR VR_Contains V_Compare sort_by strings_Map unicode_IsSpace
             S short Hstrip scheme_vok_on scheme_cmp_on scheme_range_on Hsort scheme_tpo cs version fuel).
    - exact F.
    - exact L.
    - exact PW.
    - exact Dv.
    - apply cs_short. blia.
    - intros ncs st t NM _ Ht. apply (texts_short S cs ltac:(blia) ncs st t NM Ht).
  Qed.
End SimpleScheme.
Print Assumptions contains_e2e.
Print Assumptions tlen_In.
Print Assumptions split_c_tlen.
Print Assumptions W_cons.
Print Assumptions W_In.
Print Assumptions W_perm.
Print Assumptions W_filter.
Print Assumptions W_lower_upper.
Print Assumptions alternating_IW.
Print Assumptions zip_both_In.
Print Assumptions heuristic_IW.
Print Assumptions ensure_v_len.
Print Assumptions filter_some_In.
Print Assumptions strip_spaces_len.
Print Assumptions strip_vop_len.
Print Assumptions split_op_len.
Print Assumptions nc_W.
Print Assumptions scheme_name.
Print Assumptions scheme_vok.
Print Assumptions scheme_vcmp.
Print Assumptions scheme_rcontains.
Print Assumptions scheme_vok_on.
Print Assumptions scheme_cmp_on.
Print Assumptions scheme_range_on.
Print Assumptions scheme_tpo.
