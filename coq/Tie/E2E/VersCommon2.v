(* Tie/E2E/VersCommon2.v -- [contains_e2e] of VersCommon.v for ANY range layer and ANY domain.

   VersCommon.contains_e2e is stated for an ecosystem whose range layer is a [range_cfg] ([mk_simple_rops]) and
   whose record [lib_ties_on] holds on [short].  Here:

     [rops_coherent r]     the one property of a range layer [r : rops] that is used: [r_contains] answers
                           exactly when [r_show] accepts the range text and the version oracle accepts the version
                           (true by [destruct] for every custom range model of Eco/<Eco>/Entry.v and for
                           [mk_simple_rops]: [simple_rops_coherent]);
     Section GenScheme     the three agreements [Hvok_on] / [Hcmp_on] / [Hrange_on] of Tie/Vers/CoreContainsOn.v
                           with [Top.model_scheme_ops name] from the record [lib_ties_on .. (Top.model_lib name) dom]
                           of the ecosystem's E2E file, for an arbitrary decidable domain [dom];
     [contains_e2e_on]     the generic [contains] at such a bundle is [contains_generic] at
                           [Top.model_scheme_ops name], when the probe, the version parts of the constraints and
                           the native range texts the model prints are in [dom] (the three conditions of
                           [contains_tie_on], nothing else);
     [contains_e2e_len]    the same for a domain that only looks at the length ([dom s = domn (length s)], [domn]
                           downward closed): the three conditions follow from [domn (tlen cs + 7) = true] by the
                           length lemmas of VersCommon.v (a printed native range text is at most 7 bytes longer
                           than the bounds of its interval -- whatever the style: spaces (npm, semver, alpine),
                           commas, brackets (maven, nuget), `,` and `==` (pypi)).
   [short_len], [short_domn_mono]: [short] is such a domain. *)
From Coq Require Import ZArith List Ascii Bool Lia Permutation Sorted.
From Verif.Base Require Import Bytes GoNum GoOps Ord Sorting Imp ImpFacts ImpErr ImpCore BytesFacts.
From Verif.Vers Require Model FactsStr FactsSort FactsC16.
From Verif.Cli Require Import Model.
From Verif.Eco Require Import RangeCore Iface VLayer.
From Verif.Gen Require VersDispatch.
From Verif.Gen.Parse Require SpecVersCore.
From Verif.Tie Require Import Tactics.
From Verif.Tie.Loops Require Import Common.
From Verif.Tie.Parse Require Import Common.
From Verif.Tie.Cli Require Import Common.
From Verif.Tie.Vers Require Import Common Constraints Texts CoreNormalize CoreContains CoreContainsOn.
From Verif.Tie.E2E Require Import Common VersCommon.
From Verif Require Top.
Import ListNotations.
Local Open Scope Z_scope.

Module C := Verif.Gen.Parse.SpecVersCore.
Module M := Verif.Vers.Model.
Module D := Verif.Gen.VersDispatch.

(* ---------- the range layer answers iff it accepts the range text and the version ---------- *)

Definition rops_coherent (r : rops) : Prop :=
  forall (vok : bytes -> bool) (vcmp : bytes -> bytes -> comparison) (t v : bytes),
    match r_contains r vok vcmp t v with Some _ => true | None => false end =
    (match r_show r vok t with Some _ => true | None => false end) && vok v.

Lemma simple_rops_coherent cfg : rops_coherent (mk_simple_rops cfg).
Proof.
  intros vok vcmp t v. cbn [r_contains r_show mk_simple_rops].
  destruct (parse_range bytes (oracle_parse vok) cfg t); cbn [option_map andb]; [|reflexivity].
  destruct (vok v); reflexivity.
Qed.
Print Assumptions simple_rops_coherent.

(* ---------- a domain that only looks at the length ---------- *)

Definition shortn (n : nat) : bool := Z.of_nat n + 64 <? 2 ^ 63.

Lemma short_len s : short s = shortn (length s).
Proof. reflexivity. Qed.

Lemma shortn_mono n m : (m <= n)%nat -> shortn n = true -> shortn m = true.
Proof. unfold shortn. intros L H. apply Z.ltb_lt in H. apply Z.ltb_lt. lia. Qed.
Print Assumptions short_len.
Print Assumptions shortn_mono.

Section GenScheme.
  (* the model: any registered ecosystem with a coherent range layer *)
  Variable name : bytes.
  Variable e : eco.
  Hypothesis Hfind : Top.eco_or_none name = Some e.
  Hypothesis Hcoh : rops_coherent (e_r e).

  (* the bundle *)
  Variable V VR : Type.
  Variable V_zero : V.
  Variable E_Name : bytes.
  Variable NV : bytes -> option V.
  Variable NVR : bytes -> option VR.
  Variable VR_Contains : VR -> V -> bool.
  Variable V_Compare : V -> V -> Z.
  Variable V_String : V -> bytes.
  Variable sort_by : forall A : Type, (A -> A -> Z) -> list A -> list A.
  Variable strings_Map : (Z -> Z) -> bytes -> bytes.
  Variable unicode_IsSpace : Z -> bool.
  Variable dom : bytes -> bool.

  Local Notation L := (Top.model_lib name).
  Local Notation S := (Top.model_scheme_ops name).

  Hypothesis TI : lib_ties_on V VR E_Name NV NVR VR_Contains V_Compare V_String L dom.
  Hypothesis TP : TotalPreorderOn (fun s => l_vok L s = true) (l_vcmp L).
  Hypothesis Hstrip : forall c, despace strings_Map unicode_IsSpace c = strip_spaces c.
  Hypothesis Hsort : sort_spec sort_by.

  Lemma gscheme_name : E_Name = name.
  Proof. rewrite (o_name _ _ _ _ _ _ _ _ _ _ TI). rewrite (model_lib_of _ _ Hfind). reflexivity. Qed.

  Lemma gscheme_vok s : M.s_vok S s = l_vok L s.
  Proof. rewrite (model_scheme_ops_of _ _ Hfind), (model_lib_of _ _ Hfind). reflexivity. Qed.

  Lemma gscheme_vcmp a b : M.s_vcmp S a b = l_vcmp L a b.
  Proof. rewrite (model_scheme_ops_of _ _ Hfind), (model_lib_of _ _ Hfind). reflexivity. Qed.

  Lemma gscheme_vshow s : M.s_vshow S s = l_vshow L s.
  Proof. rewrite (model_scheme_ops_of _ _ Hfind), (model_lib_of _ _ Hfind). reflexivity. Qed.

  Lemma gscheme_rcontains t v :
    M.s_rcontains S t v = if l_rok L t && l_vok L v then Some (l_rcontains L t v) else None.
  Proof.
    rewrite (model_scheme_ops_of _ _ Hfind), (model_lib_of _ _ Hfind).
    cbn [M.s_rcontains l_rok l_vok l_rcontains].
    pose proof (Hcoh (self_vok e) (self_vcmp e) t v) as X.
    destruct (r_contains (e_r e) (self_vok e) (self_vcmp e) t v) as [b|];
      destruct (match r_show (e_r e) (self_vok e) t with Some _ => true | None => false end);
      destruct (self_vok e v); cbn [andb] in *; try discriminate; reflexivity.
  Qed.

  Lemma gscheme_vok_on s : dom s = true -> (NV s = None <-> M.s_vok S s = false).
  Proof.
    intros Ds. rewrite gscheme_vok, (o_vok _ _ _ _ _ _ _ _ _ _ TI s Ds).
    destruct (NV s); cbn [is_some]; split; intros H; congruence.
  Qed.

  Lemma gscheme_cmp_on a b va vb : dom a = true -> dom b = true -> NV a = Some va -> NV b = Some vb ->
    V_Compare va vb = Z_of_cmp (M.s_vcmp S a b).
  Proof. intros Da Db Ha Hb. rewrite gscheme_vcmp. exact (o_cmp _ _ _ _ _ _ _ _ _ _ TI a b va vb Da Db Ha Hb). Qed.

  Lemma gscheme_show_on a x : dom a = true -> NV a = Some x -> V_String x = M.s_vshow S a.
  Proof. intros Da Ha. rewrite gscheme_vshow. exact (o_show _ _ _ _ _ _ _ _ _ _ TI a x Da Ha). Qed.

  Lemma gscheme_range_on t v ver : dom t = true -> dom v = true -> NV v = Some ver ->
    M.s_rcontains S t v = option_map (fun r => VR_Contains r ver) (NVR t).
  Proof.
    intros Dt Dv Hv. rewrite gscheme_rcontains.
    rewrite (o_rok _ _ _ _ _ _ _ _ _ _ TI t Dt), (o_vok _ _ _ _ _ _ _ _ _ _ TI v Dv), Hv. cbn [is_some].
    destruct (NVR t) as [x|] eqn:Ht; cbn [is_some andb option_map]; [|reflexivity].
    rewrite (o_contains _ _ _ _ _ _ _ _ _ _ TI t v x ver Dt Dv Ht Hv). reflexivity.
  Qed.

  Lemma gscheme_tpo : TotalPreorderOn (FactsC16.vok_text S) (M.s_vcmp S).
  Proof.
    unfold FactsC16.vok_text. constructor.
    - intros a Pa. rewrite gscheme_vok in Pa. rewrite gscheme_vcmp. apply (tpo_refl TP). exact Pa.
    - intros a b Pa Pb. rewrite gscheme_vok in Pa, Pb. rewrite !gscheme_vcmp. apply (tpo_anti TP); assumption.
    - intros a b c x Pa Pb Pc. rewrite gscheme_vok in Pa, Pb, Pc. rewrite !gscheme_vcmp.
      apply (tpo_trans TP); assumption.
    - intros a b c Pa Pb Pc. rewrite gscheme_vok in Pa, Pb, Pc. rewrite !gscheme_vcmp.
      apply (tpo_eq_l TP); assumption.
  Qed.

  (* vers.contains at the source-derived bundle = the model's contains_generic at the model's own layer,
     under the three domain conditions of [contains_tie_on] *)
  Theorem contains_e2e_on (cs : list bytes) (version : bytes) (fuel : nat) :
    fits cs -> (length cs + 6 < fuel)%nat ->
    dom version = true ->
    (forall c0, In c0 cs -> dom (snd (split_op (strip_spaces c0))) = true) ->
    (forall ncs st t, M.normalize S cs = Some ncs -> lookup name D.style_table = Some st ->
                      In t (M.filter_some (map (M.native_text st) (M.group ncs))) -> dom t = true) ->
    FactsC16.pairwise_nonequiv S cs ->
    C.contains V VR V_zero E_Name NV NVR VR_Contains V_Compare sort_by strings_Map unicode_IsSpace fuel cs version =
    Done (res_of_vres (M.contains_generic S (lookup name D.style_table) cs version)).
  Proof.
    intros F Lf Dv HDcs HDt PW.
    replace (lookup name D.style_table) with (lookup E_Name D.style_table) by (rewrite gscheme_name; reflexivity).
    apply (contains_tie_on V VR V_zero E_Name NV NVR VR_Contains V_Compare sort_by strings_Map unicode_IsSpace
             S dom Hstrip gscheme_vok_on gscheme_cmp_on gscheme_range_on Hsort gscheme_tpo cs version fuel).
    - exact F.
    - exact Lf.
    - exact PW.
    - exact Dv.
    - exact HDcs.
    - intros ncs st t NM LS Ht. rewrite gscheme_name in LS. exact (HDt ncs st t NM LS Ht).
  Qed.

  (* a domain that only looks at the length *)
  Variable domn : nat -> bool.
  Hypothesis Hdom : forall s, dom s = domn (length s).
  Hypothesis Hmono : forall n m, (m <= n)%nat -> domn n = true -> domn m = true.

  Lemma cs_dom cs : domn (tlen cs) = true ->
    forall c0, In c0 cs -> dom (snd (split_op (strip_spaces c0))) = true.
  Proof.
    intros H c0 Hc. apply tlen_In in Hc. pose proof (split_op_len (strip_spaces c0)). pose proof (strip_spaces_len c0).
    rewrite Hdom. apply (Hmono (tlen cs)); [unfold bytes in *; lia | exact H].
  Qed.

  Lemma texts_dom Sx cs : domn (tlen cs + 7) = true ->
    forall ncs st t, M.normalize Sx cs = Some ncs ->
      In t (M.filter_some (map (M.native_text st) (M.group ncs))) -> dom t = true.
  Proof.
    intros H ncs st t NM Ht. apply filter_some_In in Ht. apply in_map_iff in Ht. destruct Ht as (i & E & Hi).
    apply native_text_len in E. apply group_IW in Hi. apply normalize_W in NM.
    rewrite Hdom. apply (Hmono (tlen cs + 7)); [unfold M.vcons, bytes in *; lia | exact H].
  Qed.

  Theorem contains_e2e_len (cs : list bytes) (version : bytes) (fuel : nat) :
    fits cs -> (length cs + 6 < fuel)%nat ->
    domn (tlen cs + 7) = true ->
    dom version = true ->
    FactsC16.pairwise_nonequiv S cs ->
    C.contains V VR V_zero E_Name NV NVR VR_Contains V_Compare sort_by strings_Map unicode_IsSpace fuel cs version =
    Done (res_of_vres (M.contains_generic S (lookup name D.style_table) cs version)).
  Proof.
    intros F Lf Hlen Dv PW. apply contains_e2e_on; try assumption.
    - apply cs_dom. apply (Hmono (tlen cs + 7)); [lia | exact Hlen].
    - intros ncs st t NM _ Ht. exact (texts_dom S cs Hlen ncs st t NM Ht).
  Qed.
End GenScheme.
Print Assumptions contains_e2e_on.
Print Assumptions contains_e2e_len.
Print Assumptions gscheme_name.
Print Assumptions gscheme_vok.
Print Assumptions gscheme_vcmp.
Print Assumptions gscheme_vshow.
Print Assumptions gscheme_rcontains.
Print Assumptions gscheme_vok_on.
Print Assumptions gscheme_cmp_on.
Print Assumptions gscheme_show_on.
Print Assumptions gscheme_range_on.
Print Assumptions gscheme_tpo.
Print Assumptions cs_dom.
Print Assumptions texts_dom.
