(* Tie/E2E/VersMaven.v -- written by Tie/E2E/gen_vers.py.
   END TO END for the VERS scheme `maven`: the generated vers.Contains (Gen/Parse/SpecVersCore.v,
   Section Instances) with the bundle of `mavenContains` instantiated by the source-derived maven bundle of
   Tie/E2E/Maven.v equals the model [Top.model_vers] -- the model that C04 / C16 / C17 are proved about.
   The bundles of the other ten ecosystems are arbitrary (Section variables): for a text of scheme `maven`
   the routing ([Contains_routing], through [Contains_tie]) never calls them.

   [maven_contains_e2e]   the generic [contains] at the maven bundle = [contains_generic] at [Top.model_scheme_ops "maven"]
   [mavenContains_e2e]    the same for the generated wrapper `mavenContains`
   [vers_maven_e2e]    Contains fuel s v = Done (conc_vres (Top.model_vers s v)) for every text s whose scheme is
                        `maven` (invalid texts included), s and v in the domain of the ecosystem's ties
                        ([short]: length + 64 < 2^63), length s < fuel, constraint versions pairwise non-equivalent.
   MAVEN: the model's comparison is a total preorder on the [tame] texts only (Tie/E2E/Maven.v: the recorded order
   cycle 1-foo < 1.5 < 1-sp < 1-foo), so the statement is made for probes and constraint versions that are
   tame when accepted ([mtame]); the native range texts (`[1.0,2.0)`: accepted, non-tame VERSION texts) are in
   the second domain of Tie/Vers/CoreContainsOn2.v.
   Hypotheses left: the oracle agreements of Maven.oracles, [sort_spec sort_by],
   strings.Map(drop unicode.IsSpace) = strip_spaces ([Hstrip]). *)
From Coq Require Import ZArith List Ascii Bool Lia Permutation Sorted.
From Verif.Base Require Import Bytes GoNum GoOps Ord Sorting Imp ImpFacts ImpErr ImpCore BytesFacts.
From Verif.Vers Require Model FactsC16.
From Verif.Cli Require Import Model.
From Verif.Eco Require Import RangeCore Iface VLayer.
From Verif.Gen Require VersDispatch.
From Verif.Gen.Parse Require SpecVersCore.
From Verif.Tie Require Import Tactics.
From Verif.Tie.Loops Require Import Common.
From Verif.Tie.Parse Require Import Common.
From Verif.Tie.Cli Require Import Common.
From Verif.Tie.Vers Require Import Common CoreNormalize CoreContains CoreDispatch.
From Verif.Tie.E2E Require Import Common VersCommon VersCommon2.
From Verif.Tie.E2E Require Maven.
From Verif.Tie.Vers Require Import CoreContainsOn CoreContainsOn2.
From Verif Require Top.
Import ListNotations.
Local Open Scope Z_scope.

Module Maven := Verif.Tie.E2E.Maven.
Module M := Verif.Vers.Model.
Module D := Verif.Gen.VersDispatch.
Module C := Verif.Gen.Parse.SpecVersCore.

Lemma maven_rops_coherent : rops_coherent Verif.Eco.Maven.Entry.r.
Proof.
  intros vok vcmp t v. unfold Verif.Eco.Maven.Entry.r; cbn [r_contains r_show].
  destruct (Verif.Eco.Maven.Range.parse_range vok t) as [rg|]; cbn [option_map andb]; [|reflexivity].
  destruct (vok v); reflexivity.
Qed.

(* every accepted text is tame: the version texts on which the statement is made (a rejected text is fine) *)
Definition mtame (s : bytes) : bool := Maven.tame s || negb (l_vok (Top.model_lib $"maven") s).
(* the two domains of Tie/Vers/CoreContainsOn2.v: version texts [mdomV], range texts [short] *)
Definition mdomV (s : bytes) : bool := short s && mtame s.

Section MavenDom.
  Variable O : Maven.oracles.
  Local Notation Sm := (Top.model_scheme_ops $"maven").
  Local Notation Lm := (Top.model_lib $"maven").

  Lemma maven_vok_on s : mdomV s = true -> (Maven.NV O s = None <-> M.s_vok Sm s = false).
  Proof.
    intros H. apply andb_prop in H as [H _].
    exact (gscheme_vok_on ($"maven") _ Maven.eco_found _ _ _ _ _ _ _ _ short (Maven.maven_lib_ties_on O) s H).
  Qed.

  Lemma maven_cmp_on a b va vb : mdomV a = true -> mdomV b = true ->
    Maven.NV O a = Some va -> Maven.NV O b = Some vb ->
    Maven.Compare O va vb = Z_of_cmp (M.s_vcmp Sm a b).
  Proof.
    intros Ha Hb. apply andb_prop in Ha as [Ha _]. apply andb_prop in Hb as [Hb _].
    exact (gscheme_cmp_on ($"maven") _ Maven.eco_found _ _ _ _ _ _ _ _ short (Maven.maven_lib_ties_on O) a b va vb Ha Hb).
  Qed.

  Lemma maven_range_on t v ver : short t = true -> mdomV v = true -> Maven.NV O v = Some ver ->
    M.s_rcontains Sm t v = option_map (fun r => Maven.Contains O r ver) (Maven.NVR O t).
  Proof.
    intros Ht Hv. apply andb_prop in Hv as [Hv _].
    exact (gscheme_range_on ($"maven") _ Maven.eco_found maven_rops_coherent _ _ _ _ _ _ _ _ short
             (Maven.maven_lib_ties_on O) t v ver Ht Hv).
  Qed.

  (* the model's comparison is a total preorder on the accepted texts of the version domain: they are tame *)
  Lemma maven_tpo_on :
    TotalPreorderOn (FactsC16.vok_text (restrict_ops2 mdomV short Sm)) (M.s_vcmp (restrict_ops2 mdomV short Sm)).
  Proof.
    assert (Sub : forall t, FactsC16.vok_text (restrict_ops2 mdomV short Sm) t -> Maven.tame t = true).
    { intros t H. unfold FactsC16.vok_text in H.
      change (M.s_vok (restrict_ops2 mdomV short Sm) t) with (mdomV t && M.s_vok Sm t) in H.
      apply andb_prop in H as [H1 H2]. unfold mdomV in H1. apply andb_prop in H1 as [_ H1].
      rewrite (gscheme_vok ($"maven") _ Maven.eco_found) in H2. unfold mtame in H1. rewrite H2 in H1.
      cbn [negb] in H1. rewrite orb_false_r in H1. exact H1. }
    assert (E : forall a b, M.s_vcmp (restrict_ops2 mdomV short Sm) a b = l_vcmp Lm a b).
    { intros a b. change (M.s_vcmp (restrict_ops2 mdomV short Sm) a b) with (M.s_vcmp Sm a b).
      apply (gscheme_vcmp ($"maven") _ Maven.eco_found). }
    pose proof Maven.maven_model_tpo as TP.
    constructor.
    - intros a Pa. rewrite E. apply (tpo_refl TP). apply Sub; exact Pa.
    - intros a b Pa Pb. rewrite !E. apply (tpo_anti TP); apply Sub; assumption.
    - intros a b c x Pa Pb Pc. rewrite !E. apply (tpo_trans TP); apply Sub; assumption.
    - intros a b c Pa Pb Pc. rewrite !E. apply (tpo_eq_l TP); apply Sub; assumption.
  Qed.
End MavenDom.

Section VersMaven.
  Variable O : Maven.oracles.

  (* the zero value of the version type; the bundles of the other ecosystems; the library oracles *)
  Variable alpine_Version : Type.
  Variable cargo_Version : Type.
  Variable debian_Version : Type.
  Variable gem_Version : Type.
  Variable golang_Version : Type.
  Variable npm_Version : Type.
  Variable nuget_Version : Type.
  Variable rpm_Version : Type.
  Variable semver_Version : Type.
  Variable alpine_VersionRange : Type.
  Variable cargo_VersionRange : Type.
  Variable debian_VersionRange : Type.
  Variable gem_VersionRange : Type.
  Variable golang_VersionRange : Type.
  Variable npm_VersionRange : Type.
  Variable nuget_VersionRange : Type.
  Variable pypi_VersionRange : Type.
  Variable rpm_VersionRange : Type.
  Variable semver_VersionRange : Type.
  Variable pypi_Version : Type.
  Variable alpine_Version_zero : alpine_Version.
  Variable cargo_Version_zero : cargo_Version.
  Variable debian_Version_zero : debian_Version.
  Variable gem_Version_zero : gem_Version.
  Variable golang_Version_zero : golang_Version.
  Variable maven_Version_zero : Maven.G.Version.
  Variable npm_Version_zero : npm_Version.
  Variable nuget_Version_zero : nuget_Version.
  Variable pypi_Version_zero : pypi_Version.
  Variable rpm_Version_zero : rpm_Version.
  Variable semver_Version_zero : semver_Version.
  Variable alpine_Ecosystem_Name : bytes.
  Variable alpine_Ecosystem_NewVersion : bytes -> option alpine_Version.
  Variable alpine_Ecosystem_NewVersionRange : bytes -> option alpine_VersionRange.
  Variable alpine_VersionRange_Contains : alpine_VersionRange -> alpine_Version -> bool.
  Variable alpine_Version_Compare : alpine_Version -> alpine_Version -> Z.
  Variable cargo_Ecosystem_Name : bytes.
  Variable cargo_Ecosystem_NewVersion : bytes -> option cargo_Version.
  Variable cargo_Ecosystem_NewVersionRange : bytes -> option cargo_VersionRange.
  Variable cargo_VersionRange_Contains : cargo_VersionRange -> cargo_Version -> bool.
  Variable cargo_Version_Compare : cargo_Version -> cargo_Version -> Z.
  Variable debian_Ecosystem_Name : bytes.
  Variable debian_Ecosystem_NewVersion : bytes -> option debian_Version.
  Variable debian_Ecosystem_NewVersionRange : bytes -> option debian_VersionRange.
  Variable debian_VersionRange_Contains : debian_VersionRange -> debian_Version -> bool.
  Variable debian_Version_Compare : debian_Version -> debian_Version -> Z.
  Variable gem_Ecosystem_Name : bytes.
  Variable gem_Ecosystem_NewVersion : bytes -> option gem_Version.
  Variable gem_Ecosystem_NewVersionRange : bytes -> option gem_VersionRange.
  Variable gem_VersionRange_Contains : gem_VersionRange -> gem_Version -> bool.
  Variable gem_Version_Compare : gem_Version -> gem_Version -> Z.
  Variable golang_Ecosystem_Name : bytes.
  Variable golang_Ecosystem_NewVersion : bytes -> option golang_Version.
  Variable golang_Ecosystem_NewVersionRange : bytes -> option golang_VersionRange.
  Variable golang_VersionRange_Contains : golang_VersionRange -> golang_Version -> bool.
  Variable golang_Version_Compare : golang_Version -> golang_Version -> Z.
  Variable npm_Ecosystem_Name : bytes.
  Variable npm_Ecosystem_NewVersion : bytes -> option npm_Version.
  Variable npm_Ecosystem_NewVersionRange : bytes -> option npm_VersionRange.
  Variable npm_VersionRange_Contains : npm_VersionRange -> npm_Version -> bool.
  Variable npm_Version_Compare : npm_Version -> npm_Version -> Z.
  Variable nuget_Ecosystem_Name : bytes.
  Variable nuget_Ecosystem_NewVersion : bytes -> option nuget_Version.
  Variable nuget_Ecosystem_NewVersionRange : bytes -> option nuget_VersionRange.
  Variable nuget_VersionRange_Contains : nuget_VersionRange -> nuget_Version -> bool.
  Variable nuget_Version_Compare : nuget_Version -> nuget_Version -> Z.
  Variable pypi_Ecosystem_Name : bytes.
  Variable pypi_Ecosystem_NewVersionRange : bytes -> option pypi_VersionRange.
  Variable pypi_VersionRange_Contains : pypi_VersionRange -> pypi_Version -> bool.
  Variable pypi_Version_Compare : pypi_Version -> pypi_Version -> Z.
  Variable rpm_Ecosystem_Name : bytes.
  Variable rpm_Ecosystem_NewVersion : bytes -> option rpm_Version.
  Variable rpm_Ecosystem_NewVersionRange : bytes -> option rpm_VersionRange.
  Variable rpm_VersionRange_Contains : rpm_VersionRange -> rpm_Version -> bool.
  Variable rpm_Version_Compare : rpm_Version -> rpm_Version -> Z.
  Variable semver_Ecosystem_Name : bytes.
  Variable semver_Ecosystem_NewVersion : bytes -> option semver_Version.
  Variable semver_Ecosystem_NewVersionRange : bytes -> option semver_VersionRange.
  Variable semver_VersionRange_Contains : semver_VersionRange -> semver_Version -> bool.
  Variable semver_Version_Compare : semver_Version -> semver_Version -> Z.
  Variable pypi_Ecosystem_NewVersion : bytes -> option pypi_Version.
  Variable pypi_Version_String : pypi_Version -> bytes.
  Variable sort_by : forall A : Type, (A -> A -> Z) -> list A -> list A.
  Variable strings_Map : (Z -> Z) -> bytes -> bytes.
  Variable strings_ReplaceAll : bytes -> bytes -> bytes -> bytes.
  Variable unicode_IsSpace : Z -> bool.

  Local Notation ALL f := (f alpine_Version cargo_Version debian_Version gem_Version golang_Version Maven.G.Version npm_Version nuget_Version rpm_Version semver_Version alpine_VersionRange cargo_VersionRange debian_VersionRange gem_VersionRange golang_VersionRange Maven.G.VersionRange npm_VersionRange nuget_VersionRange pypi_VersionRange rpm_VersionRange semver_VersionRange pypi_Version alpine_Version_zero cargo_Version_zero debian_Version_zero gem_Version_zero golang_Version_zero maven_Version_zero npm_Version_zero nuget_Version_zero pypi_Version_zero rpm_Version_zero semver_Version_zero alpine_Ecosystem_Name alpine_Ecosystem_NewVersion alpine_Ecosystem_NewVersionRange alpine_VersionRange_Contains alpine_Version_Compare cargo_Ecosystem_Name cargo_Ecosystem_NewVersion cargo_Ecosystem_NewVersionRange cargo_VersionRange_Contains cargo_Version_Compare debian_Ecosystem_Name debian_Ecosystem_NewVersion debian_Ecosystem_NewVersionRange debian_VersionRange_Contains debian_Version_Compare gem_Ecosystem_Name gem_Ecosystem_NewVersion gem_Ecosystem_NewVersionRange gem_VersionRange_Contains gem_Version_Compare golang_Ecosystem_Name golang_Ecosystem_NewVersion golang_Ecosystem_NewVersionRange golang_VersionRange_Contains golang_Version_Compare Maven.Name (Maven.NV O) (Maven.NVR O) (Maven.Contains O) (Maven.Compare O) npm_Ecosystem_Name npm_Ecosystem_NewVersion npm_Ecosystem_NewVersionRange npm_VersionRange_Contains npm_Version_Compare nuget_Ecosystem_Name nuget_Ecosystem_NewVersion nuget_Ecosystem_NewVersionRange nuget_VersionRange_Contains nuget_Version_Compare pypi_Ecosystem_Name pypi_Ecosystem_NewVersionRange pypi_VersionRange_Contains pypi_Version_Compare rpm_Ecosystem_Name rpm_Ecosystem_NewVersion rpm_Ecosystem_NewVersionRange rpm_VersionRange_Contains rpm_Version_Compare semver_Ecosystem_Name semver_Ecosystem_NewVersion semver_Ecosystem_NewVersionRange semver_VersionRange_Contains semver_Version_Compare pypi_Ecosystem_NewVersion pypi_Version_String sort_by strings_Map strings_ReplaceAll unicode_IsSpace) (only parsing).

  Hypothesis Hstrip : forall c, despace strings_Map unicode_IsSpace c = strip_spaces c.
  Hypothesis Hsort : sort_spec sort_by.

  Local Notation S := (Top.model_scheme_ops $"maven").

  (* the generic contains at the source-derived maven bundle *)
  Theorem maven_contains_e2e (cs : list bytes) (version : bytes) (fuel : nat) :
    fits cs -> (length cs + 6 < fuel)%nat ->
    Z.of_nat (tlen cs) + 71 < 2 ^ 63 ->
    short version = true ->
    mtame version = true ->
    (forall c0, In c0 cs -> mtame (snd (split_op (strip_spaces c0))) = true) ->
    FactsC16.pairwise_nonequiv S cs ->
    C.contains Maven.G.Version Maven.G.VersionRange maven_Version_zero Maven.Name (Maven.NV O) (Maven.NVR O)
               (Maven.Contains O) (Maven.Compare O) sort_by strings_Map unicode_IsSpace fuel cs version =
    Done (conc_vres (M.contains_generic S (lookup ($"maven") D.style_table) cs version)).
  Proof.
    intros F Lf Hlen Dv Tv Tcs PW.
    apply (contains_tie_on2 Maven.G.Version Maven.G.VersionRange maven_Version_zero Maven.Name (Maven.NV O) (Maven.NVR O)
             (Maven.Contains O) (Maven.Compare O) sort_by strings_Map unicode_IsSpace S mdomV short Hstrip
             (maven_vok_on O) (maven_cmp_on O) (maven_range_on O) Hsort maven_tpo_on cs version fuel F Lf PW).
    - unfold mdomV. rewrite Dv, Tv. reflexivity.
    - intros c0 Hc. unfold mdomV. rewrite (cs_short cs ltac:(blia) c0 Hc), (Tcs c0 Hc). reflexivity.
    - intros ncs st t NM _ Ht. apply (texts_short S cs ltac:(blia) ncs st t NM Ht).
  Qed.

  (* the generated wrapper `mavenContains` (what the dispatch table of vers.Contains holds for `maven`) *)
  Theorem mavenContains_e2e (cs : list bytes) (version : bytes) (fuel : nat) :
    fits cs -> (length cs + 6 < fuel)%nat ->
    Z.of_nat (tlen cs) + 71 < 2 ^ 63 ->
    short version = true ->
    mtame version = true ->
    (forall c0, In c0 cs -> mtame (snd (split_op (strip_spaces c0))) = true) ->
    FactsC16.pairwise_nonequiv S cs ->
    C.mavenContains Maven.G.Version Maven.G.VersionRange maven_Version_zero Maven.Name (Maven.NV O) (Maven.NVR O)
               (Maven.Contains O) (Maven.Compare O) sort_by strings_Map unicode_IsSpace fuel cs version =
    Done (conc_vres (M.contains_generic S (lookup ($"maven") D.style_table) cs version)).
  Proof.
    intros. etransitivity; [|apply (maven_contains_e2e cs version fuel); assumption].
    apply (mavenContains_is_contains Maven.G.Version Maven.G.VersionRange maven_Version_zero Maven.Name (Maven.NV O) (Maven.NVR O)
             (Maven.Contains O) (Maven.Compare O) sort_by strings_Map unicode_IsSpace fuel cs version).
  Qed.

  (* vers.Contains as computed by the source-derived code = the model *)
  Theorem vers_maven_e2e (s v : bytes) (fuel : nat) :
    short s = true -> short v = true -> (length s < fuel)%nat ->
    mtame v = true ->
    (forall name cl, M.valid s = Some (name, cl) ->
       forall c0, In c0 cl -> mtame (snd (split_op (strip_spaces c0))) = true) ->
    (forall name cl, M.valid s = Some (name, cl) -> name = $"maven") ->
    (forall name cl, M.valid s = Some (name, cl) -> FactsC16.pairwise_nonequiv S cl) ->
    ALL Contains_g fuel s v = Done (conc_vres (Top.model_vers s v)).
  Proof.
    intros Ds Dv Hf Tv Tcl Hname HPW. unfold Top.model_vers.
    pose proof (short_lt s Ds) as Ls.
    assert (Fits : fits s) by (unfold fits; lia).
    apply (ALL Contains_tie Top.model_scheme_ops s v fuel Fits Hf).
    intros name cl sc f V OS Fs Dn.
    pose proof (Hname name cl V) as E. subst name.
    assert (DK : ALL dispatch ($"maven") = Some (contains_maven Maven.G.Version Maven.G.VersionRange maven_Version_zero
                    Maven.Name (Maven.NV O) (Maven.NVR O) (Maven.Contains O) (Maven.Compare O) sort_by strings_Map unicode_IsSpace))
      by reflexivity.
    rewrite DK in Dn. injection Dn as <-.
    assert (Fs' : M.find_scheme ($"maven") D.scheme_table =
                  Some {| M.sc_name := $"maven"; M.sc_eco := $"maven"; M.sc_pypi_gate := false |}) by reflexivity.
    rewrite Fs' in Fs. injection Fs as <-.
    unfold model_of. cbn [M.sc_eco M.sc_pypi_gate]. unfold contains_maven.
    destruct (valid_lengths s _ cl V) as [L1 L2].
    apply maven_contains_e2e.
    - unfold fits. lia.
    - lia.
    - lia.
    - exact Dv.
    - exact Tv.
    - exact (Tcl _ cl V).
    - exact (HPW _ cl V).
  Qed.
End VersMaven.
Print Assumptions maven_contains_e2e.
Print Assumptions mavenContains_e2e.
Print Assumptions vers_maven_e2e.
Print Assumptions maven_rops_coherent.
Print Assumptions maven_vok_on.
Print Assumptions maven_cmp_on.
Print Assumptions maven_range_on.
Print Assumptions maven_tpo_on.
