(* Tie/E2E/VersNpm.v -- written by Tie/E2E/gen_vers.py.
   END TO END for the VERS scheme `npm`: the generated vers.Contains (Gen/Parse/SpecVersCore.v,
   Section Instances) with the bundle of `npmContains` instantiated by the source-derived npm bundle of
   Tie/E2E/NpmRange.v equals the model [Top.model_vers] -- the model that C04 / C16 / C17 are proved about.
   The bundles of the other ten ecosystems are arbitrary (Section variables): for a text of scheme `npm`
   the routing ([Contains_routing], through [Contains_tie]) never calls them.

   [npm_contains_e2e]   the generic [contains] at the npm bundle = [contains_generic] at [Top.model_scheme_ops "npm"]
   [npmContains_e2e]    the same for the generated wrapper `npmContains`
   [vers_npm_e2e]    Contains fuel s v = Done (conc_vres (Top.model_vers s v)) for every text s whose scheme is
                        `npm` (invalid texts included), s and v in the domain of the ecosystem's ties
                        ([NpmRange.dom]: 2 * length + 512 < 2^63), length s < fuel, constraint versions pairwise non-equivalent.
   Hypotheses left: the oracle agreements of NpmRange.oracles, [sort_spec sort_by],
   strings.Map(drop unicode.IsSpace) = strip_spaces ([Hstrip]). *)
From Coq Require Import ZArith List Ascii Bool Lia Permutation Sorted.
From Verif.Base Require Import Bytes GoNum GoOps Ord Sorting Imp ImpFacts ImpErr ImpCore BytesFacts.
From Verif.Vers Require Model FactsC16.
From Verif.Cli Require Import Model.
From Verif.Eco Require Import RangeCore Iface VLayer.
From Verif.Gen Require VersDispatch.
From Verif.Gen.Parse Require SpecVersCore.
From Verif.Tie Require Import Tactics.
From Verif.Tie.Loops Require Import Common.
From Verif.Tie.Parse Require Import Common.
From Verif.Tie.Cli Require Import Common.
From Verif.Tie.Vers Require Import Common CoreNormalize CoreContains CoreDispatch.
From Verif.Tie.E2E Require Import Common VersCommon VersCommon2.
From Verif.Tie.E2E Require NpmRange.
From Verif Require Top.
Import ListNotations.
Local Open Scope Z_scope.

Module NpmRange := Verif.Tie.E2E.NpmRange.
Module M := Verif.Vers.Model.
Module D := Verif.Gen.VersDispatch.
Module C := Verif.Gen.Parse.SpecVersCore.

Lemma npm_rops_coherent : rops_coherent Verif.Eco.Npm.Entry.r.
Proof.
  intros vok vcmp t v. unfold Verif.Eco.Npm.Entry.r; cbn [r_contains r_show].
  destruct (Verif.Eco.Npm.Range.parse_range vok t) as [rg|]; cbn [option_map andb]; [|reflexivity].
  destruct (vok v); reflexivity.
Qed.
Definition npm_domn (n : nat) : bool := 2 * Z.of_nat n + 512 <? 2 ^ 63.
Lemma npm_dom_len s : NpmRange.dom s = npm_domn (length s).
Proof. reflexivity. Qed.
Lemma npm_domn_mono n m : (m <= n)%nat -> npm_domn n = true -> npm_domn m = true.
Proof. unfold npm_domn. intros L H. apply Z.ltb_lt in H. apply Z.ltb_lt. lia. Qed.
Lemma npm_dom_lt s : NpmRange.dom s = true -> 2 * Z.of_nat (length s) + 512 < 2 ^ 63.
Proof. rewrite npm_dom_len. unfold npm_domn. intros H. apply Z.ltb_lt in H. exact H. Qed.

Section VersNpm.
  Variable O : NpmRange.oracles.

  (* the zero value of the version type; the bundles of the other ecosystems; the library oracles *)
  Variable alpine_Version : Type.
  Variable cargo_Version : Type.
  Variable debian_Version : Type.
  Variable gem_Version : Type.
  Variable golang_Version : Type.
  Variable maven_Version : Type.
  Variable nuget_Version : Type.
  Variable rpm_Version : Type.
  Variable semver_Version : Type.
  Variable alpine_VersionRange : Type.
  Variable cargo_VersionRange : Type.
  Variable debian_VersionRange : Type.
  Variable gem_VersionRange : Type.
  Variable golang_VersionRange : Type.
  Variable maven_VersionRange : Type.
  Variable nuget_VersionRange : Type.
  Variable pypi_VersionRange : Type.
  Variable rpm_VersionRange : Type.
  Variable semver_VersionRange : Type.
  Variable pypi_Version : Type.
  Variable alpine_Version_zero : alpine_Version.
  Variable cargo_Version_zero : cargo_Version.
  Variable debian_Version_zero : debian_Version.
  Variable gem_Version_zero : gem_Version.
  Variable golang_Version_zero : golang_Version.
  Variable maven_Version_zero : maven_Version.
  Variable npm_Version_zero : NpmRange.G.Version.
  Variable nuget_Version_zero : nuget_Version.
  Variable pypi_Version_zero : pypi_Version.
  Variable rpm_Version_zero : rpm_Version.
  Variable semver_Version_zero : semver_Version.
  Variable alpine_Ecosystem_Name : bytes.
  Variable alpine_Ecosystem_NewVersion : bytes -> option alpine_Version.
  Variable alpine_Ecosystem_NewVersionRange : bytes -> option alpine_VersionRange.
  Variable alpine_VersionRange_Contains : alpine_VersionRange -> alpine_Version -> bool.
  Variable alpine_Version_Compare : alpine_Version -> alpine_Version -> Z.
  Variable cargo_Ecosystem_Name : bytes.
  Variable cargo_Ecosystem_NewVersion : bytes -> option cargo_Version.
  Variable cargo_Ecosystem_NewVersionRange : bytes -> option cargo_VersionRange.
  Variable cargo_VersionRange_Contains : cargo_VersionRange -> cargo_Version -> bool.
  Variable cargo_Version_Compare : cargo_Version -> cargo_Version -> Z.
  Variable debian_Ecosystem_Name : bytes.
  Variable debian_Ecosystem_NewVersion : bytes -> option debian_Version.
  Variable debian_Ecosystem_NewVersionRange : bytes -> option debian_VersionRange.
  Variable debian_VersionRange_Contains : debian_VersionRange -> debian_Version -> bool.
  Variable debian_Version_Compare : debian_Version -> debian_Version -> Z.
  Variable gem_Ecosystem_Name : bytes.
  Variable gem_Ecosystem_NewVersion : bytes -> option gem_Version.
  Variable gem_Ecosystem_NewVersionRange : bytes -> option gem_VersionRange.
  Variable gem_VersionRange_Contains : gem_VersionRange -> gem_Version -> bool.
  Variable gem_Version_Compare : gem_Version -> gem_Version -> Z.
  Variable golang_Ecosystem_Name : bytes.
  Variable golang_Ecosystem_NewVersion : bytes -> option golang_Version.
  Variable golang_Ecosystem_NewVersionRange : bytes -> option golang_VersionRange.
  Variable golang_VersionRange_Contains : golang_VersionRange -> golang_Version -> bool.
  Variable golang_Version_Compare : golang_Version -> golang_Version -> Z.
  Variable maven_Ecosystem_Name : bytes.
  Variable maven_Ecosystem_NewVersion : bytes -> option maven_Version.
  Variable maven_Ecosystem_NewVersionRange : bytes -> option maven_VersionRange.
  Variable maven_VersionRange_Contains : maven_VersionRange -> maven_Version -> bool.
  Variable maven_Version_Compare : maven_Version -> maven_Version -> Z.
  Variable nuget_Ecosystem_Name : bytes.
  Variable nuget_Ecosystem_NewVersion : bytes -> option nuget_Version.
  Variable nuget_Ecosystem_NewVersionRange : bytes -> option nuget_VersionRange.
  Variable nuget_VersionRange_Contains : nuget_VersionRange -> nuget_Version -> bool.
  Variable nuget_Version_Compare : nuget_Version -> nuget_Version -> Z.
  Variable pypi_Ecosystem_Name : bytes.
  Variable pypi_Ecosystem_NewVersionRange : bytes -> option pypi_VersionRange.
  Variable pypi_VersionRange_Contains : pypi_VersionRange -> pypi_Version -> bool.
  Variable pypi_Version_Compare : pypi_Version -> pypi_Version -> Z.
  Variable rpm_Ecosystem_Name : bytes.
  Variable rpm_Ecosystem_NewVersion : bytes -> option rpm_Version.
  Variable rpm_Ecosystem_NewVersionRange : bytes -> option rpm_VersionRange.
  Variable rpm_VersionRange_Contains : rpm_VersionRange -> rpm_Version -> bool.
  Variable rpm_Version_Compare : rpm_Version -> rpm_Version -> Z.
  Variable semver_Ecosystem_Name : bytes.
  Variable semver_Ecosystem_NewVersion : bytes -> option semver_Version.
  Variable semver_Ecosystem_NewVersionRange : bytes -> option semver_VersionRange.
  Variable semver_VersionRange_Contains : semver_VersionRange -> semver_Version -> bool.
  Variable semver_Version_Compare : semver_Version -> semver_Version -> Z.
  Variable pypi_Ecosystem_NewVersion : bytes -> option pypi_Version.
  Variable pypi_Version_String : pypi_Version -> bytes.
  Variable sort_by : forall A : Type, (A -> A -> Z) -> list A -> list A.
  Variable strings_Map : (Z -> Z) -> bytes -> bytes.
  Variable strings_ReplaceAll : bytes -> bytes -> bytes -> bytes.
  Variable unicode_IsSpace : Z -> bool.

  Local Notation ALL f := (f alpine_Version cargo_Version debian_Version gem_Version golang_Version maven_Version NpmRange.G.Version nuget_Version rpm_Version semver_Version alpine_VersionRange cargo_VersionRange debian_VersionRange gem_VersionRange golang_VersionRange maven_VersionRange NpmRange.G.VersionRange nuget_VersionRange pypi_VersionRange rpm_VersionRange semver_VersionRange pypi_Version alpine_Version_zero cargo_Version_zero debian_Version_zero gem_Version_zero golang_Version_zero maven_Version_zero npm_Version_zero nuget_Version_zero pypi_Version_zero rpm_Version_zero semver_Version_zero alpine_Ecosystem_Name alpine_Ecosystem_NewVersion alpine_Ecosystem_NewVersionRange alpine_VersionRange_Contains alpine_Version_Compare cargo_Ecosystem_Name cargo_Ecosystem_NewVersion cargo_Ecosystem_NewVersionRange cargo_VersionRange_Contains cargo_Version_Compare debian_Ecosystem_Name debian_Ecosystem_NewVersion debian_Ecosystem_NewVersionRange debian_VersionRange_Contains debian_Version_Compare gem_Ecosystem_Name gem_Ecosystem_NewVersion gem_Ecosystem_NewVersionRange gem_VersionRange_Contains gem_Version_Compare golang_Ecosystem_Name golang_Ecosystem_NewVersion golang_Ecosystem_NewVersionRange golang_VersionRange_Contains golang_Version_Compare maven_Ecosystem_Name maven_Ecosystem_NewVersion maven_Ecosystem_NewVersionRange maven_VersionRange_Contains maven_Version_Compare NpmRange.V.Name (NpmRange.V.NV (NpmRange.vo O)) (NpmRange.NVR O) (NpmRange.Contains O) (NpmRange.V.Compare (NpmRange.vo O)) nuget_Ecosystem_Name nuget_Ecosystem_NewVersion nuget_Ecosystem_NewVersionRange nuget_VersionRange_Contains nuget_Version_Compare pypi_Ecosystem_Name pypi_Ecosystem_NewVersionRange pypi_VersionRange_Contains pypi_Version_Compare rpm_Ecosystem_Name rpm_Ecosystem_NewVersion rpm_Ecosystem_NewVersionRange rpm_VersionRange_Contains rpm_Version_Compare semver_Ecosystem_Name semver_Ecosystem_NewVersion semver_Ecosystem_NewVersionRange semver_VersionRange_Contains semver_Version_Compare pypi_Ecosystem_NewVersion pypi_Version_String sort_by strings_Map strings_ReplaceAll unicode_IsSpace) (only parsing).

  Hypothesis Hstrip : forall c, despace strings_Map unicode_IsSpace c = strip_spaces c.
  Hypothesis Hsort : sort_spec sort_by.

  Local Notation S := (Top.model_scheme_ops $"npm").

  (* the generic contains at the source-derived npm bundle *)
  Theorem npm_contains_e2e (cs : list bytes) (version : bytes) (fuel : nat) :
    fits cs -> (length cs + 6 < fuel)%nat ->
    npm_domn (tlen cs + 7) = true ->
    NpmRange.dom version = true ->
    FactsC16.pairwise_nonequiv S cs ->
    C.contains NpmRange.G.Version NpmRange.G.VersionRange npm_Version_zero NpmRange.V.Name (NpmRange.V.NV (NpmRange.vo O)) (NpmRange.NVR O)
               (NpmRange.Contains O) (NpmRange.V.Compare (NpmRange.vo O)) sort_by strings_Map unicode_IsSpace fuel cs version =
    Done (conc_vres (M.contains_generic S (lookup ($"npm") D.style_table) cs version)).
  Proof.
    exact (contains_e2e_len ($"npm") _ NpmRange.V.eco_found npm_rops_coherent
             NpmRange.G.Version NpmRange.G.VersionRange npm_Version_zero NpmRange.V.Name (NpmRange.V.NV (NpmRange.vo O)) (NpmRange.NVR O)
             (NpmRange.Contains O) (NpmRange.V.Compare (NpmRange.vo O)) NpmRange.G.Version_String sort_by strings_Map unicode_IsSpace NpmRange.dom
             (NpmRange.npm_lib_ties_on O) NpmRange.V.npm_model_tpo Hstrip Hsort npm_domn npm_dom_len npm_domn_mono cs version fuel).
  Qed.

  (* the generated wrapper `npmContains` (what the dispatch table of vers.Contains holds for `npm`) *)
  Theorem npmContains_e2e (cs : list bytes) (version : bytes) (fuel : nat) :
    fits cs -> (length cs + 6 < fuel)%nat ->
    npm_domn (tlen cs + 7) = true ->
    NpmRange.dom version = true ->
    FactsC16.pairwise_nonequiv S cs ->
    C.npmContains NpmRange.G.Version NpmRange.G.VersionRange npm_Version_zero NpmRange.V.Name (NpmRange.V.NV (NpmRange.vo O)) (NpmRange.NVR O)
               (NpmRange.Contains O) (NpmRange.V.Compare (NpmRange.vo O)) sort_by strings_Map unicode_IsSpace fuel cs version =
    Done (conc_vres (M.contains_generic S (lookup ($"npm") D.style_table) cs version)).
  Proof.
    intros. etransitivity; [|apply (npm_contains_e2e cs version fuel); assumption].
    apply (npmContains_is_contains NpmRange.G.Version NpmRange.G.VersionRange npm_Version_zero NpmRange.V.Name (NpmRange.V.NV (NpmRange.vo O)) (NpmRange.NVR O)
             (NpmRange.Contains O) (NpmRange.V.Compare (NpmRange.vo O)) sort_by strings_Map unicode_IsSpace fuel cs version).
  Qed.

  (* vers.Contains as computed by the source-derived code = the model *)
  Theorem vers_npm_e2e (s v : bytes) (fuel : nat) :
    NpmRange.dom s = true -> NpmRange.dom v = true -> (length s < fuel)%nat ->
    (forall name cl, M.valid s = Some (name, cl) -> name = $"npm") ->
    (forall name cl, M.valid s = Some (name, cl) -> FactsC16.pairwise_nonequiv S cl) ->
    ALL Contains_g fuel s v = Done (conc_vres (Top.model_vers s v)).
  Proof.
    intros Ds Dv Hf Hname HPW. unfold Top.model_vers.
    pose proof (npm_dom_lt s Ds) as Ls.
    assert (Fits : fits s) by (unfold fits; lia).
    apply (ALL Contains_tie Top.model_scheme_ops s v fuel Fits Hf).
    intros name cl sc f V OS Fs Dn.
    pose proof (Hname name cl V) as E. subst name.
    assert (DK : ALL dispatch ($"npm") = Some (contains_npm NpmRange.G.Version NpmRange.G.VersionRange npm_Version_zero
                    NpmRange.V.Name (NpmRange.V.NV (NpmRange.vo O)) (NpmRange.NVR O) (NpmRange.Contains O) (NpmRange.V.Compare (NpmRange.vo O)) sort_by strings_Map unicode_IsSpace))
      by reflexivity.
    rewrite DK in Dn. injection Dn as <-.
    assert (Fs' : M.find_scheme ($"npm") D.scheme_table =
                  Some {| M.sc_name := $"npm"; M.sc_eco := $"npm"; M.sc_pypi_gate := false |}) by reflexivity.
    rewrite Fs' in Fs. injection Fs as <-.
    unfold model_of. cbn [M.sc_eco M.sc_pypi_gate]. unfold contains_npm.
    destruct (valid_lengths s _ cl V) as [L1 L2].
    apply npm_contains_e2e.
    - unfold fits. lia.
    - lia.
    - apply (npm_domn_mono (length s)); [lia | rewrite <- npm_dom_len; exact Ds].
    - exact Dv.
    - exact (HPW _ cl V).
  Qed.
End VersNpm.
Print Assumptions npm_contains_e2e.
Print Assumptions npmContains_e2e.
Print Assumptions vers_npm_e2e.
Print Assumptions npm_rops_coherent.
Print Assumptions npm_dom_len.
Print Assumptions npm_domn_mono.
Print Assumptions npm_dom_lt.
