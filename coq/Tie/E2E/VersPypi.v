(* Tie/E2E/VersPypi.v -- written by Tie/E2E/gen_vers.py.
   END TO END for the VERS scheme `pypi`: the generated vers.Contains (Gen/Parse/SpecVersCore.v,
   Section Instances) with the bundle of `pypiContains` instantiated by the source-derived pypi bundle of
   Tie/E2E/Pypi.v equals the model [Top.model_vers] -- the model that C04 / C16 / C17 are proved about.
   The bundles of the other ten ecosystems are arbitrary (Section variables): for a text of scheme `pypi`
   the routing ([Contains_routing], through [Contains_tie]) never calls them.

   [pypi_contains_e2e]   the generic [contains] at the pypi bundle = [contains_generic] at [Top.model_scheme_ops "pypi"]
   [pypiContains_e2e]    the generated wrapper `pypiContains` = the model's [contains_pypi] (the PEP 440 gate included)
   [vers_pypi_e2e]    Contains fuel s v = Done (conc_vres (Top.model_vers s v)) for every text s whose scheme is
                        `pypi` (invalid texts included), s and v in the domain of the ecosystem's ties
                        ([short]: length + 64 < 2^63), length s + 1 < fuel, constraint versions pairwise non-equivalent.
   PYPI: the dispatch table holds the WRAPPER `pypiContains` (NewVersion, the PEP 440 pre-release gate around the
   generic contains): [pypiContains_e2e] is the model's [contains_pypi]; two more library hypotheses, on
   strings.ReplaceAll ([Hreplace_fits], [Hreplace_spec]); fuel above length s + 1.
   Hypotheses left: the oracle agreements of EP.oracles, [sort_spec sort_by],
   strings.Map(drop unicode.IsSpace) = strip_spaces ([Hstrip]). *)
From Coq Require Import ZArith List Ascii Bool Lia Permutation Sorted.
From Verif.Base Require Import Bytes GoNum GoOps Ord Sorting Imp ImpFacts ImpErr ImpCore BytesFacts.
From Verif.Vers Require Model FactsC16.
From Verif.Cli Require Import Model.
From Verif.Eco Require Import RangeCore Iface VLayer.
From Verif.Gen Require VersDispatch.
From Verif.Gen.Parse Require SpecVersCore.
From Verif.Tie Require Import Tactics.
From Verif.Tie.Loops Require Import Common.
From Verif.Tie.Parse Require Import Common.
From Verif.Tie.Cli Require Import Common.
From Verif.Tie.Vers Require Import Common CoreNormalize CoreContains CoreDispatch.
From Verif.Tie.E2E Require Import Common VersCommon VersCommon2.
From Verif.Tie.E2E Require Pypi.
From Verif.Tie.Vers Require Pypi.
From Verif Require Top.
Import ListNotations.
Local Open Scope Z_scope.

Module EP := Verif.Tie.E2E.Pypi.
Module M := Verif.Vers.Model.
Module D := Verif.Gen.VersDispatch.
Module C := Verif.Gen.Parse.SpecVersCore.

Module VP := Verif.Tie.Vers.Pypi.

Lemma pypi_rops_coherent : rops_coherent Verif.Eco.Pypi.Entry.r.
Proof.
  intros vok vcmp t v. unfold Verif.Eco.Pypi.Entry.r; cbn [r_contains r_show].
  destruct (Verif.Eco.Pypi.Range.parse_range vok t) as [rg|]; cbn [option_map andb]; [|reflexivity].
  destruct (vok v); reflexivity.
Qed.

(* [pypiContains_tie] / [pypiContains_model] of Tie/Vers/CoreDispatch.v ask that String() fits for EVERY value
   of the version type; for the generated record type (String() = the field `original`) that holds for the
   values NewVersion returns only.  The same two theorems with the hypothesis at the probe's value. *)
Section PypiWrapperAt.
  Variable V VR : Type.
  Variable V_zero : V.
  Variable E_Name : bytes.
  Variable NVR : bytes -> option VR.
  Variable VR_Contains : VR -> V -> bool.
  Variable V_Compare : V -> V -> Z.
  Variable NV : bytes -> option V.
  Variable V_String : V -> bytes.
  Variable sort_by : forall A : Type, (A -> A -> Z) -> list A -> list A.
  Variable strings_Map : (Z -> Z) -> bytes -> bytes.
  Variable strings_ReplaceAll : bytes -> bytes -> bytes -> bytes.
  Variable unicode_IsSpace : Z -> bool.

  Hypothesis replace_fits : forall c a b, fits c -> fits (strings_ReplaceAll c a b).
  Hypothesis replace_spec : forall c,
    strings_ReplaceAll c ($" ") [] = filter (fun x => negb (ceqb x " "%char)) c.

  Local Notation wrapper :=
    (C.pypiContains VR V V_zero E_Name NVR VR_Contains V_Compare NV V_String sort_by strings_Map strings_ReplaceAll
                    unicode_IsSpace).
  Local Notation generic :=
    (C.contains V VR V_zero E_Name NV NVR VR_Contains V_Compare sort_by strings_Map unicode_IsSpace).

  Theorem isPyPIPrerelease_tie_at (pv : V) (fuel : nat) :
    fits (V_String pv) -> (7 < fuel)%nat ->
    C.isPyPIPrerelease V V_String fuel pv = Done (M.pypi_is_prerelease (V_String pv)).
  Proof.
    intros F Hf. unfold C.isPyPIPrerelease, M.pypi_is_prerelease. cbv zeta.
    change (chr 43) with "+"%char.
    destruct (split_c_hd "+"%char (V_String pv)) as [rest E]. rewrite E.
    erewrite idx_known by reflexivity. cbn [bind].
    rewrite VP.containsPrereleaseMarkers_tie; [reflexivity | | exact Hf].
    pose proof (split2_fst_length "+"%char (V_String pv)) as L.
    unfold fits in *. unfold bytes in *. lia.
  Qed.

  Theorem pypiContains_tie_at (cs : list bytes) (v : bytes) (fuel : nat) :
    fits cs -> Forall fits cs -> (length cs + 7 < fuel)%nat ->
    (forall pv, NV v = Some pv -> fits (V_String pv)) ->
    wrapper fuel cs v =
    match NV v with
    | None => Done None
    | Some pv => bind (generic fuel cs v) (fun r1 => Done (pypi_gate (V_String pv) cs r1))
    end.
  Proof.
    intros Hfit Hall Hf Fpv. unfold C.pypiContains.
    destruct (NV v) as [pv|]; [|reflexivity].
    rewrite (isPyPIPrerelease_tie_at pv fuel (Fpv pv eq_refl)) by lia. cbn [bind].
    destruct (generic fuel cs v) as [r1| |]; cbn [bind]; try reflexivity.
    destruct r1 as [res|]; [|reflexivity]. cbn [pypi_gate].
    destruct (M.pypi_is_prerelease (V_String pv)); cbn [andb bind].
    - rewrite (VP.constraintsIncludePrerelease_tie strings_ReplaceAll replace_fits replace_spec cs fuel Hfit Hall Hf).
      cbn [bind]. fold (names_pre cs). destruct (names_pre cs); reflexivity.
    - reflexivity.
  Qed.

  Theorem pypiContains_model_at (S : M.scheme_ops) (st : option M.native_style)
          (cs : list bytes) (v : bytes) (fuel : nat) :
    fits cs -> Forall fits cs -> (length cs + 7 < fuel)%nat ->
    (forall pv, NV v = Some pv -> fits (V_String pv)) ->
    (NV v = None <-> M.s_vok S v = false) ->
    (forall pv, NV v = Some pv -> V_String pv = M.s_vshow S v) ->
    generic fuel cs v = Done (conc_vres (M.contains_generic S st cs v)) ->
    wrapper fuel cs v = Done (conc_vres (M.contains_pypi S st cs v)).
  Proof.
    intros Hfit Hall Hf Fpv Hok Hshow Hgen. rewrite (pypiContains_tie_at cs v fuel Hfit Hall Hf Fpv).
    unfold M.contains_pypi.
    destruct (NV v) as [pv|] eqn:ENV.
    - destruct (M.s_vok S v) eqn:OK; [|destruct Hok as [_ Hok]; specialize (Hok eq_refl); discriminate].
      cbn [negb]. rewrite Hgen. cbn [bind]. rewrite (Hshow pv eq_refl).
      fold (names_pre cs).
      destruct (M.contains_generic S st cs v); cbn [conc_vres pypi_gate];
        try reflexivity; destruct (M.pypi_is_prerelease _ && negb (names_pre cs)); reflexivity.
    - destruct Hok as [Hok _]. rewrite (Hok eq_refl). reflexivity.
  Qed.
End PypiWrapperAt.

Section VersPypi.
  Variable O : EP.oracles.

  (* the zero value of the version type; the bundles of the other ecosystems; the library oracles *)
  Variable alpine_Version : Type.
  Variable cargo_Version : Type.
  Variable debian_Version : Type.
  Variable gem_Version : Type.
  Variable golang_Version : Type.
  Variable maven_Version : Type.
  Variable npm_Version : Type.
  Variable nuget_Version : Type.
  Variable rpm_Version : Type.
  Variable semver_Version : Type.
  Variable alpine_VersionRange : Type.
  Variable cargo_VersionRange : Type.
  Variable debian_VersionRange : Type.
  Variable gem_VersionRange : Type.
  Variable golang_VersionRange : Type.
  Variable maven_VersionRange : Type.
  Variable npm_VersionRange : Type.
  Variable nuget_VersionRange : Type.
  Variable rpm_VersionRange : Type.
  Variable semver_VersionRange : Type.
  Variable alpine_Version_zero : alpine_Version.
  Variable cargo_Version_zero : cargo_Version.
  Variable debian_Version_zero : debian_Version.
  Variable gem_Version_zero : gem_Version.
  Variable golang_Version_zero : golang_Version.
  Variable maven_Version_zero : maven_Version.
  Variable npm_Version_zero : npm_Version.
  Variable nuget_Version_zero : nuget_Version.
  Variable pypi_Version_zero : EP.G.Version.
  Variable rpm_Version_zero : rpm_Version.
  Variable semver_Version_zero : semver_Version.
  Variable alpine_Ecosystem_Name : bytes.
  Variable alpine_Ecosystem_NewVersion : bytes -> option alpine_Version.
  Variable alpine_Ecosystem_NewVersionRange : bytes -> option alpine_VersionRange.
  Variable alpine_VersionRange_Contains : alpine_VersionRange -> alpine_Version -> bool.
  Variable alpine_Version_Compare : alpine_Version -> alpine_Version -> Z.
  Variable cargo_Ecosystem_Name : bytes.
  Variable cargo_Ecosystem_NewVersion : bytes -> option cargo_Version.
  Variable cargo_Ecosystem_NewVersionRange : bytes -> option cargo_VersionRange.
  Variable cargo_VersionRange_Contains : cargo_VersionRange -> cargo_Version -> bool.
  Variable cargo_Version_Compare : cargo_Version -> cargo_Version -> Z.
  Variable debian_Ecosystem_Name : bytes.
  Variable debian_Ecosystem_NewVersion : bytes -> option debian_Version.
  Variable debian_Ecosystem_NewVersionRange : bytes -> option debian_VersionRange.
  Variable debian_VersionRange_Contains : debian_VersionRange -> debian_Version -> bool.
  Variable debian_Version_Compare : debian_Version -> debian_Version -> Z.
  Variable gem_Ecosystem_Name : bytes.
  Variable gem_Ecosystem_NewVersion : bytes -> option gem_Version.
  Variable gem_Ecosystem_NewVersionRange : bytes -> option gem_VersionRange.
  Variable gem_VersionRange_Contains : gem_VersionRange -> gem_Version -> bool.
  Variable gem_Version_Compare : gem_Version -> gem_Version -> Z.
  Variable golang_Ecosystem_Name : bytes.
  Variable golang_Ecosystem_NewVersion : bytes -> option golang_Version.
  Variable golang_Ecosystem_NewVersionRange : bytes -> option golang_VersionRange.
  Variable golang_VersionRange_Contains : golang_VersionRange -> golang_Version -> bool.
  Variable golang_Version_Compare : golang_Version -> golang_Version -> Z.
  Variable maven_Ecosystem_Name : bytes.
  Variable maven_Ecosystem_NewVersion : bytes -> option maven_Version.
  Variable maven_Ecosystem_NewVersionRange : bytes -> option maven_VersionRange.
  Variable maven_VersionRange_Contains : maven_VersionRange -> maven_Version -> bool.
  Variable maven_Version_Compare : maven_Version -> maven_Version -> Z.
  Variable npm_Ecosystem_Name : bytes.
  Variable npm_Ecosystem_NewVersion : bytes -> option npm_Version.
  Variable npm_Ecosystem_NewVersionRange : bytes -> option npm_VersionRange.
  Variable npm_VersionRange_Contains : npm_VersionRange -> npm_Version -> bool.
  Variable npm_Version_Compare : npm_Version -> npm_Version -> Z.
  Variable nuget_Ecosystem_Name : bytes.
  Variable nuget_Ecosystem_NewVersion : bytes -> option nuget_Version.
  Variable nuget_Ecosystem_NewVersionRange : bytes -> option nuget_VersionRange.
  Variable nuget_VersionRange_Contains : nuget_VersionRange -> nuget_Version -> bool.
  Variable nuget_Version_Compare : nuget_Version -> nuget_Version -> Z.
  Variable rpm_Ecosystem_Name : bytes.
  Variable rpm_Ecosystem_NewVersion : bytes -> option rpm_Version.
  Variable rpm_Ecosystem_NewVersionRange : bytes -> option rpm_VersionRange.
  Variable rpm_VersionRange_Contains : rpm_VersionRange -> rpm_Version -> bool.
  Variable rpm_Version_Compare : rpm_Version -> rpm_Version -> Z.
  Variable semver_Ecosystem_Name : bytes.
  Variable semver_Ecosystem_NewVersion : bytes -> option semver_Version.
  Variable semver_Ecosystem_NewVersionRange : bytes -> option semver_VersionRange.
  Variable semver_VersionRange_Contains : semver_VersionRange -> semver_Version -> bool.
  Variable semver_Version_Compare : semver_Version -> semver_Version -> Z.
  Variable sort_by : forall A : Type, (A -> A -> Z) -> list A -> list A.
  Variable strings_Map : (Z -> Z) -> bytes -> bytes.
  Variable strings_ReplaceAll : bytes -> bytes -> bytes -> bytes.
  Variable unicode_IsSpace : Z -> bool.

  Local Notation ALL f := (f alpine_Version cargo_Version debian_Version gem_Version golang_Version maven_Version npm_Version nuget_Version rpm_Version semver_Version alpine_VersionRange cargo_VersionRange debian_VersionRange gem_VersionRange golang_VersionRange maven_VersionRange npm_VersionRange nuget_VersionRange EP.G.VersionRange rpm_VersionRange semver_VersionRange EP.G.Version alpine_Version_zero cargo_Version_zero debian_Version_zero gem_Version_zero golang_Version_zero maven_Version_zero npm_Version_zero nuget_Version_zero pypi_Version_zero rpm_Version_zero semver_Version_zero alpine_Ecosystem_Name alpine_Ecosystem_NewVersion alpine_Ecosystem_NewVersionRange alpine_VersionRange_Contains alpine_Version_Compare cargo_Ecosystem_Name cargo_Ecosystem_NewVersion cargo_Ecosystem_NewVersionRange cargo_VersionRange_Contains cargo_Version_Compare debian_Ecosystem_Name debian_Ecosystem_NewVersion debian_Ecosystem_NewVersionRange debian_VersionRange_Contains debian_Version_Compare gem_Ecosystem_Name gem_Ecosystem_NewVersion gem_Ecosystem_NewVersionRange gem_VersionRange_Contains gem_Version_Compare golang_Ecosystem_Name golang_Ecosystem_NewVersion golang_Ecosystem_NewVersionRange golang_VersionRange_Contains golang_Version_Compare maven_Ecosystem_Name maven_Ecosystem_NewVersion maven_Ecosystem_NewVersionRange maven_VersionRange_Contains maven_Version_Compare npm_Ecosystem_Name npm_Ecosystem_NewVersion npm_Ecosystem_NewVersionRange npm_VersionRange_Contains npm_Version_Compare nuget_Ecosystem_Name nuget_Ecosystem_NewVersion nuget_Ecosystem_NewVersionRange nuget_VersionRange_Contains nuget_Version_Compare EP.Name (EP.NVR O) (EP.Contains O) (EP.Compare) rpm_Ecosystem_Name rpm_Ecosystem_NewVersion rpm_Ecosystem_NewVersionRange rpm_VersionRange_Contains rpm_Version_Compare semver_Ecosystem_Name semver_Ecosystem_NewVersion semver_Ecosystem_NewVersionRange semver_VersionRange_Contains semver_Version_Compare (EP.NV O) EP.G.Version_String sort_by strings_Map strings_ReplaceAll unicode_IsSpace) (only parsing).

  Hypothesis Hstrip : forall c, despace strings_Map unicode_IsSpace c = strip_spaces c.
  Hypothesis Hsort : sort_spec sort_by.

  Local Notation S := (Top.model_scheme_ops $"pypi").

  (* the generic contains at the source-derived pypi bundle *)
  Theorem pypi_contains_e2e (cs : list bytes) (version : bytes) (fuel : nat) :
    fits cs -> (length cs + 6 < fuel)%nat ->
    shortn (tlen cs + 7) = true ->
    short version = true ->
    FactsC16.pairwise_nonequiv S cs ->
    C.contains EP.G.Version EP.G.VersionRange pypi_Version_zero EP.Name (EP.NV O) (EP.NVR O)
               (EP.Contains O) (EP.Compare) sort_by strings_Map unicode_IsSpace fuel cs version =
    Done (conc_vres (M.contains_generic S (lookup ($"pypi") D.style_table) cs version)).
  Proof.
    exact (contains_e2e_len ($"pypi") _ EP.eco_found pypi_rops_coherent
             EP.G.Version EP.G.VersionRange pypi_Version_zero EP.Name (EP.NV O) (EP.NVR O)
             (EP.Contains O) (EP.Compare) EP.G.Version_String sort_by strings_Map unicode_IsSpace short
             (EP.pypi_lib_ties_on O) EP.pypi_model_tpo Hstrip Hsort shortn short_len shortn_mono cs version fuel).
  Qed.

  (* strings.ReplaceAll: on a Go string it returns a Go string; ReplaceAll(c, " ", "") drops the spaces *)
  Hypothesis Hreplace_fits : forall c a b, fits c -> fits (strings_ReplaceAll c a b).
  Hypothesis Hreplace_spec : forall c,
    strings_ReplaceAll c ($" ") [] = filter (fun x => negb (ceqb x " "%char)) c.

  (* String() of the value NewVersion returns is the trimmed text *)
  Lemma pypi_string_fits v pv : short v = true -> EP.NV O v = Some pv -> fits (EP.G.Version_String pv).
  Proof.
    intros Dv E. rewrite EP.NV_eq in E. destruct (EP.nvm_abs v pv E) as [_ Oa].
    unfold EP.G.Version_String. rewrite Oa. apply short_fits. apply short_trim. exact Dv.
  Qed.

  (* the generated wrapper `pypiContains` (what the dispatch table of vers.Contains holds for `pypi`):
     the model's contains_pypi, the PEP 440 gate included *)
  Theorem pypiContains_e2e (cs : list bytes) (version : bytes) (fuel : nat) :
    fits cs -> Forall fits cs -> (length cs + 7 < fuel)%nat ->
    shortn (tlen cs + 7) = true ->
    short version = true ->
    FactsC16.pairwise_nonequiv S cs ->
    C.pypiContains EP.G.VersionRange EP.G.Version pypi_Version_zero EP.Name (EP.NVR O) (EP.Contains O) (EP.Compare)
               (EP.NV O) EP.G.Version_String sort_by strings_Map strings_ReplaceAll unicode_IsSpace fuel cs version =
    Done (conc_vres (M.contains_pypi S (lookup ($"pypi") D.style_table) cs version)).
  Proof.
    intros F FA Lf Hlen Dv PW.
    apply (pypiContains_model_at EP.G.Version EP.G.VersionRange pypi_Version_zero EP.Name (EP.NVR O) (EP.Contains O) (EP.Compare)
             (EP.NV O) EP.G.Version_String sort_by strings_Map strings_ReplaceAll unicode_IsSpace Hreplace_fits Hreplace_spec
             S (lookup ($"pypi") D.style_table) cs version fuel F FA Lf).
    - intros pv E. exact (pypi_string_fits version pv Dv E).
    - exact (gscheme_vok_on ($"pypi") _ EP.eco_found _ _ _ _ _ _ _ _ short (EP.pypi_lib_ties_on O) version Dv).
    - intros pv E.
      exact (gscheme_show_on ($"pypi") _ EP.eco_found _ _ _ _ _ _ _ _ short (EP.pypi_lib_ties_on O) version pv Dv E).
    - apply pypi_contains_e2e; try assumption. lia.
  Qed.

  (* vers.Contains as computed by the source-derived code = the model *)
  Theorem vers_pypi_e2e (s v : bytes) (fuel : nat) :
    short s = true -> short v = true -> (length s + 1 < fuel)%nat ->
    (forall name cl, M.valid s = Some (name, cl) -> name = $"pypi") ->
    (forall name cl, M.valid s = Some (name, cl) -> FactsC16.pairwise_nonequiv S cl) ->
    ALL Contains_g fuel s v = Done (conc_vres (Top.model_vers s v)).
  Proof.
    intros Ds Dv Hf Hname HPW. unfold Top.model_vers.
    pose proof (short_lt s Ds) as Ls.
    assert (Fits : fits s) by (unfold fits; lia).
    apply (ALL Contains_tie Top.model_scheme_ops s v fuel Fits ltac:(lia)).
    intros name cl sc f V OS Fs Dn.
    pose proof (Hname name cl V) as E. subst name.
    assert (DK : ALL dispatch ($"pypi") = Some (w_pypi EP.G.VersionRange EP.G.Version pypi_Version_zero EP.Name (EP.NVR O)
                    (EP.Contains O) (EP.Compare) (EP.NV O) EP.G.Version_String sort_by strings_Map strings_ReplaceAll
                    unicode_IsSpace))
      by reflexivity.
    rewrite DK in Dn. injection Dn as <-.
    assert (Fs' : M.find_scheme ($"pypi") D.scheme_table =
                  Some {| M.sc_name := $"pypi"; M.sc_eco := $"pypi"; M.sc_pypi_gate := true |}) by reflexivity.
    rewrite Fs' in Fs. injection Fs as <-.
    unfold model_of. cbn [M.sc_eco M.sc_pypi_gate]. unfold w_pypi.
    destruct (valid_lengths s _ cl V) as [L1 L2].
    apply pypiContains_e2e.
    - unfold fits. lia.
    - apply Forall_forall. intros c Hc. apply tlen_In in Hc. unfold fits. unfold bytes in *. lia.
    - lia.
    - apply (shortn_mono (length s)); [lia | rewrite <- short_len; exact Ds].
    - exact Dv.
    - exact (HPW _ cl V).
  Qed.
End VersPypi.
Print Assumptions pypi_contains_e2e.
Print Assumptions pypiContains_e2e.
Print Assumptions vers_pypi_e2e.
Print Assumptions pypi_rops_coherent.
Print Assumptions isPyPIPrerelease_tie_at.
Print Assumptions pypiContains_tie_at.
Print Assumptions pypiContains_model_at.
Print Assumptions pypi_string_fits.
