#!/usr/bin/env python3
# Tie/E2E/gen_all_k6.py -- gen_all.py extended (per-ecosystem domain, oracle-dependent Compare/Contains,
# alpm's pkgrel class); writes Tie/E2E/All.v from the Variable list of Tie/Cli/RunInst.v and the table
# DONE below (the ecosystems that have an end-to-end file).  Re-run when an ecosystem is added.
import re, os
here = os.path.dirname(os.path.abspath(__file__))
runinst = open(os.path.join(here, '..', 'Cli', 'RunInst.v')).read()
vars_ = re.findall(r'^Variable (\w+) : (.*)\.$', runinst, re.M)
# eco -> (module, Contains, Compare, oracles?)
DONE = {
  'apache':     ('Apache',     'M.G.VersionRange_Contains', 'M.G.Version_Compare'),
  'mattermost': ('Mattermost', 'M.G.VersionRange_Contains', 'M.G.Version_Compare'),
  'github':     ('Github',     'M.G.VersionRange_Contains', 'M.G.Version_Compare'),
  'gentoo':     ('Gentoo',     'M.Contains', 'M.Compare'),
  'debian':     ('Debian',     'M.Contains', 'M.Compare'),
  'rpm':        ('Rpm',        'M.Contains', 'M.Compare'),
  'alpm':       ('Alpm',       'M.Contains O_alpm', 'M.Compare O_alpm'),
  'cargo':      ('Cargo',      'M.Contains O_cargo', 'M.Compare O_cargo'),
  'semver':     ('Semver',     'M.Contains O_semver', 'M.Compare (M.vo O_semver)'),
  'nuget':      ('Nuget',      'M.Contains O_nuget', 'M.Compare O_nuget'),
  'npm':        ('NpmRange',   'M.Contains O_npm', 'Verif.Tie.E2E.Npm.Compare (M.vo O_npm)'),
}
# eco -> {component: expression} where the component does not live in the module M
EXPR = { 'npm': { 'Ecosystem_Name': 'Verif.Tie.E2E.Npm.Name',
                  'Ecosystem_NewVersion': 'Verif.Tie.E2E.Npm.NV (Verif.Tie.E2E.NpmRange.vo O_npm)' } }
# eco -> domain of the argument texts (default: short)
DOM = { 'alpm': 'Verif.Tie.E2E.Alpm.dom', 'npm': 'Verif.Tie.E2E.NpmRange.dom' }
# eco -> (extra binder, class of version texts for `sort`) when Compare is a total preorder on a class only
# eco -> the argument of M.NV when it is not the whole oracle record (a coercion is not active without Import)
NVARG = { 'semver': '(Verif.Tie.E2E.Semver.vo O_semver)' }
CLS = { 'alpm': ('(b : bool) ', 'Verif.Tie.E2E.Alpm.cls b', 'b ') }
extra = os.path.join(here, 'done_extra.txt')
if os.path.exists(extra):
    for line in open(extra):
        p = line.split()
        if len(p) >= 4: DONE[p[0]] = (p[1], p[2].replace('~', ' '), p[3].replace('~', ' '))
        if len(p) >= 5: DOM[p[0]] = p[4]
out = []
out.append('''(* Tie/E2E/All.v -- written by Tie/E2E/gen_all.py (re-run it when an ecosystem gets an end-to-end file).
   The generated [run] of Gen/Parse/CmdCore.v (through Tie/Cli/RunInst.generated_run) at the table in which the
   bundle of every ecosystem below is the CONCRETE one of its Tie/E2E/<Eco>.v (source-derived functions, regexp /
   library oracles as a record [oracles]); the bundles of the other ecosystems stay Section variables.
   [run_<eco>_e2e]: `univers <eco> <rest>` writes w ++ text ++ "\\n" and returns status with
   [shown (Top.model_cli (<eco> :: rest)) (text, status)], for fits rest, length rest < fuel, every argument
   [short] (alpm: short and ASCII, [Alpm.dom]; npm: 2 * length + 512 < 2^63, [NpmRange.dom]), the sort oracle a sorting permutation on accepted versions (alpm:
   on the versions of one pkgrel class [Alpm.cls b], in which `sort` arguments must lie), and (only for `sort`)
   Compare-equal arguments printing the same.  [run_<eco>_e2e_exit]: the exit status under "sort_by returns a permutation" only.
   [names_ok_done]: the Name constants of these bundles. *)
From Coq Require Import ZArith List Ascii Bool Lia Permutation Sorted.
From Verif.Base Require Import Bytes GoNum Ord Sorting Imp ImpFacts ImpErr ImpCore BytesFacts.
From Verif.Cli Require Import Model.
From Verif.Tie.Loops Require Import Common.
From Verif.Tie.Cli Require Import Common Spec Ties Run RunInst.
From Verif.Tie.E2E Require Import Common.
''')
for eco, (mod, _, _) in DONE.items():
    out.append('From Verif.Tie.E2E Require %s.' % mod)
out.append('From Verif Require Top.\nImport ListNotations.\nLocal Open Scope Z_scope.\n')
out.append('Section All.\n')
for eco, (mod, _, _) in DONE.items():
    out.append('Variable O_%s : Verif.Tie.E2E.%s.oracles.' % (eco, mod))
out.append('')
def eco_of(name):
    m = re.match(r'^([a-z]+)_(Version|VersionRange|Ecosystem)', name)
    return m.group(1) if m else None
for name, ty in vars_:
    eco = eco_of(name)
    if eco in DONE and 'error_text' not in name:
        mod, cont, comp = DONE[eco]
        M = 'Verif.Tie.E2E.%s' % mod
        suffix = name[len(eco)+1:]
        body = {
          'Version': M + '.G.Version',
          'VersionRange': M + '.G.VersionRange',
          'Ecosystem_Name': M + '.Name',
          'Ecosystem_NewVersion': '%s.NV %s' % (M, NVARG.get(eco, 'O_' + eco)),
          'Ecosystem_NewVersionRange': '%s.NVR O_%s' % (M, eco),
          'VersionRange_Contains': cont.replace('M.', M + '.'),
          'Version_Compare': comp.replace('M.', M + '.'),
          'Version_String': M + '.G.Version_String',
        }[suffix]
        body = EXPR.get(eco, {}).get(suffix, body)
        out.append('Let %s : %s := %s.' % (name, ty, body))
    else:
        out.append('Variable %s : %s.' % (name, ty))
out.append('')
args = ' '.join(n for n, _ in vars_)
out.append('Definition grun : nat -> bytes -> list bytes -> res (bytes * Z) :=\n  RunInst.generated_run %s.\n' % args)
for eco, (mod, _, _) in DONE.items():
    M = 'Verif.Tie.E2E.%s' % mod
    acc = '(fun s => l_vok (Top.model_lib $"%s") s = true)' % eco
    binder, cls, barg = CLS.get(eco, ('', acc, ''))
    srconcl = ('show_respects (Top.model_lib $"%s") r\'' % eco) if eco not in CLS else \
              ('Forall (%s) r\' /\\ show_respects (Top.model_lib $"%s") r\'' % (cls, eco))
    out.append('''Theorem run_%(eco)s_e2e %(binder)s(fuel : nat) (w : bytes) (rest : list bytes) :
  sort_ok %(eco)s_Version %(eco)s_Ecosystem_NewVersion %(eco)s_Version_Compare sort_by
          (%(cls)s) ->
  fits rest -> (length rest < fuel)%%nat -> Forall (fun a => %(dom)s a = true) rest ->
  (forall r', rest = $"sort" :: r' -> Forall (fun s => l_vok (Top.model_lib $"%(eco)s") s = true) r' ->
              %(srconcl)s) ->
  exists text status,
    grun fuel w ($"%(eco)s" :: rest) = Done (w ++ (text ++ [chr 10]), status) /\\
    shown (Top.model_cli ($"%(eco)s" :: rest)) (text, status).
Proof.
  intros SO F Hf FD SR. unfold grun.
  rewrite (RunInst.run_routing_%(eco)s %(args)s fuel w rest).
  destruct (%(M)s.%(eco)s_cli_e2e O_%(eco)s sort_by %(eco)s_Ecosystem_error_text_runEcosystem_1
              %(eco)s_Ecosystem_error_text_runEcosystem_2 %(eco)s_Ecosystem_error_text_runEcosystem_3
              %(barg)sfuel rest SO F Hf FD SR) as (r & E1 & E2).
  unfold %(M)s.runEcosystem in E1.
  unfold %(eco)s_Version, %(eco)s_VersionRange, %(eco)s_Ecosystem_Name, %(eco)s_Ecosystem_NewVersion,
    %(eco)s_Ecosystem_NewVersionRange, %(eco)s_VersionRange_Contains, %(eco)s_Version_Compare, %(eco)s_Version_String.
  rewrite E1. cbn [bind]. exists (fst r), (snd r). split; [reflexivity|].
  rewrite <- surjective_pairing. exact E2.
Qed.

Theorem run_%(eco)s_e2e_exit (fuel : nat) (w : bytes) (rest : list bytes) :
  (forall l, Permutation (sort_by %(eco)s_Version %(eco)s_Version_Compare l) l) ->
  fits rest -> (length rest < fuel)%%nat -> Forall (fun a => %(dom)s a = true) rest ->
  exists text status,
    grun fuel w ($"%(eco)s" :: rest) = Done (w ++ (text ++ [chr 10]), status) /\\
    status = exit_code (Top.model_cli ($"%(eco)s" :: rest)).
Proof.
  intros SP F Hf FD. unfold grun.
  rewrite (RunInst.run_routing_%(eco)s %(args)s fuel w rest).
  destruct (%(M)s.%(eco)s_cli_e2e_exit O_%(eco)s sort_by %(eco)s_Ecosystem_error_text_runEcosystem_1
              %(eco)s_Ecosystem_error_text_runEcosystem_2 %(eco)s_Ecosystem_error_text_runEcosystem_3
              fuel rest SP F Hf FD) as (r & E1 & E2).
  unfold %(M)s.runEcosystem in E1.
  unfold %(eco)s_Version, %(eco)s_VersionRange, %(eco)s_Ecosystem_Name, %(eco)s_Ecosystem_NewVersion,
    %(eco)s_Ecosystem_NewVersionRange, %(eco)s_VersionRange_Contains, %(eco)s_Version_Compare, %(eco)s_Version_String.
  rewrite E1. cbn [bind]. exists (fst r), (snd r). split; [reflexivity | exact E2].
Qed.
''' % dict(eco=eco, M=M, args=args, dom=DOM.get(eco, 'short'), binder=binder, cls=cls, barg=barg, srconcl=srconcl))
out.append('Theorem names_ok_done :\n  ' + ' /\\\n  '.join('%s_Ecosystem_Name = $"%s"' % (e, e) for e in DONE) + '.\nProof. repeat split. Qed.\n')
out.append('End All.\n')
for eco in DONE:
    out.append('Print Assumptions run_%s_e2e.' % eco)
    out.append('Print Assumptions run_%s_e2e_exit.' % eco)
out.append('Print Assumptions names_ok_done.')
open(os.path.join(here, 'All.v'), 'w').write('\n'.join(out) + '\n')
