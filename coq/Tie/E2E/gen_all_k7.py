#!/usr/bin/env python3
# Tie/E2E/gen_all_k7.py -- gen_all.py extended with per-ecosystem VARIANTS of the end-to-end statement (the domain of
# the argument texts, the predicate of the sort hypothesis).  Writes Tie/E2E/All.v from the Variable list of Tie/Cli/RunInst.v and the table
# DONE below (the ecosystems that have an end-to-end file).  Re-run when an ecosystem is added.
import re, os
here = os.path.dirname(os.path.abspath(__file__))
runinst = open(os.path.join(here, '..', 'Cli', 'RunInst.v')).read()
vars_ = re.findall(r'^Variable (\w+) : (.*)\.$', runinst, re.M)
# eco -> (module, Contains, Compare, oracles?)
DONE = {
  'apache':     ('Apache',     'M.G.VersionRange_Contains', 'M.G.Version_Compare'),
  'mattermost': ('Mattermost', 'M.G.VersionRange_Contains', 'M.G.Version_Compare'),
  'github':     ('Github',     'M.G.VersionRange_Contains', 'M.G.Version_Compare'),
  'gentoo':     ('Gentoo',     'M.Contains', 'M.Compare'),
  'debian':     ('Debian',     'M.Contains', 'M.Compare'),
  'rpm':        ('Rpm',        'M.Contains', 'M.Compare'),
}
# done_extra.txt: the ecosystems with the standard statement (also read by gen_all.py);
# done_extra_k7.txt: the ecosystems that need a VARIANT below (gem, maven)
for fn in ('done_extra.txt', 'done_extra_k7.txt'):
    extra = os.path.join(here, fn)
    if os.path.exists(extra):
        for line in open(extra):
            p = line.split()
            if len(p) == 4: DONE[p[0]] = (p[1], p[2], p[3])
# eco -> (domain predicate on argument texts, predicate P of sort_ok, extra conjunct of the sort hypothesis)
ACC = '(fun s => l_vok (Top.model_lib $"%(eco)s") s = true)'
VARIANT = {
  # gem: canonicalisation lengthens the text up to tenfold, the ties hold for 10 * length + 64 < 2^63
  'gem':   ('Verif.Tie.E2E.Gem.gshort', ACC, ''),
  # maven: the model's order is a total preorder on the accepted texts without unknown qualifier only
  'maven': ('short', '(fun s => Verif.Tie.E2E.Maven.tame s = true)', "Forall (fun s => Verif.Tie.E2E.Maven.tame s = true) r' /\\ "),
}
# the range parser of these ecosystems uses no oracle: NVR does not take O
NVR_NO_O = {'gem'}
def variant(eco):
    d, p, x = VARIANT.get(eco, ('short', ACC, ''))
    return d, p % dict(eco=eco), x
out = []
out.append('''(* Tie/E2E/All.v -- written by Tie/E2E/gen_all_k7.py (re-run it when an ecosystem gets an end-to-end file).
   The generated [run] of Gen/Parse/CmdCore.v (through Tie/Cli/RunInst.generated_run) at the table in which the
   bundle of every ecosystem below is the CONCRETE one of its Tie/E2E/<Eco>.v (source-derived functions, regexp /
   library oracles as a record [oracles]); the bundles of the other ecosystems stay Section variables.
   [run_<eco>_e2e]: `univers <eco> <rest>` writes w ++ text ++ "\\n" and returns status with
   [shown (Top.model_cli (<eco> :: rest)) (text, status)], for fits rest, length rest < fuel, every argument
   [short] (gem: [gshort], maven: the sort hypotheses on the [tame] texts), the sort oracle a sorting permutation on
   accepted versions, and (only for `sort`) Compare-equal arguments printing the same.  [run_<eco>_e2e_exit]: the exit status under "sort_by returns a permutation" only.
   [names_ok_done]: the Name constants of these bundles. *)
From Coq Require Import ZArith List Ascii Bool Lia Permutation Sorted.
From Verif.Base Require Import Bytes GoNum Ord Sorting Imp ImpFacts ImpErr ImpCore BytesFacts.
From Verif.Cli Require Import Model.
From Verif.Tie.Loops Require Import Common.
From Verif.Tie.Cli Require Import Common Spec Ties Run RunInst.
From Verif.Tie.E2E Require Import Common.
''')
for eco, (mod, _, _) in DONE.items():
    out.append('From Verif.Tie.E2E Require %s.' % mod)
out.append('From Verif Require Top.\nImport ListNotations.\nLocal Open Scope Z_scope.\n')
out.append('Section All.\n')
for eco, (mod, _, _) in DONE.items():
    out.append('Variable O_%s : Verif.Tie.E2E.%s.oracles.' % (eco, mod))
out.append('')
def eco_of(name):
    m = re.match(r'^([a-z]+)_(Version|VersionRange|Ecosystem)', name)
    return m.group(1) if m else None
for name, ty in vars_:
    eco = eco_of(name)
    if eco in DONE and 'error_text' not in name:
        mod, cont, comp = DONE[eco]
        M = 'Verif.Tie.E2E.%s' % mod
        suffix = name[len(eco)+1:]
        body = {
          'Version': M + '.G.Version',
          'VersionRange': M + '.G.VersionRange',
          'Ecosystem_Name': M + '.Name',
          'Ecosystem_NewVersion': '%s.NV O_%s' % (M, eco),
          'Ecosystem_NewVersionRange': ('%s.NVR' % M) if eco in NVR_NO_O else '%s.NVR O_%s' % (M, eco),
          'VersionRange_Contains': cont.replace('M.', M + '.'),
          'Version_Compare': comp.replace('M.', M + '.'),
          'Version_String': M + '.G.Version_String',
        }[suffix]
        out.append('Let %s : %s := %s.' % (name, ty, body))
    else:
        out.append('Variable %s : %s.' % (name, ty))
out.append('')
args = ' '.join(n for n, _ in vars_)
out.append('Definition grun : nat -> bytes -> list bytes -> res (bytes * Z) :=\n  RunInst.generated_run %s.\n' % args)
for eco, (mod, _, _) in DONE.items():
    M = 'Verif.Tie.E2E.%s' % mod
    out.append('''Theorem run_%(eco)s_e2e (fuel : nat) (w : bytes) (rest : list bytes) :
  sort_ok %(eco)s_Version %(eco)s_Ecosystem_NewVersion %(eco)s_Version_Compare sort_by
          %(P)s ->
  fits rest -> (length rest < fuel)%%nat -> Forall (fun a => %(dom)s a = true) rest ->
  (forall r', rest = $"sort" :: r' -> Forall (fun s => l_vok (Top.model_lib $"%(eco)s") s = true) r' ->
              %(extra)sshow_respects (Top.model_lib $"%(eco)s") r') ->
  exists text status,
    grun fuel w ($"%(eco)s" :: rest) = Done (w ++ (text ++ [chr 10]), status) /\\
    shown (Top.model_cli ($"%(eco)s" :: rest)) (text, status).
Proof.
  intros SO F Hf FD SR. unfold grun.
  rewrite (RunInst.run_routing_%(eco)s %(args)s fuel w rest).
  destruct (%(M)s.%(eco)s_cli_e2e O_%(eco)s sort_by %(eco)s_Ecosystem_error_text_runEcosystem_1
              %(eco)s_Ecosystem_error_text_runEcosystem_2 %(eco)s_Ecosystem_error_text_runEcosystem_3
              fuel rest SO F Hf FD SR) as (r & E1 & E2).
  unfold %(M)s.runEcosystem in E1.
  unfold %(eco)s_Version, %(eco)s_VersionRange, %(eco)s_Ecosystem_Name, %(eco)s_Ecosystem_NewVersion,
    %(eco)s_Ecosystem_NewVersionRange, %(eco)s_VersionRange_Contains, %(eco)s_Version_Compare, %(eco)s_Version_String.
  rewrite E1. cbn [bind]. exists (fst r), (snd r). split; [reflexivity|].
  rewrite <- surjective_pairing. exact E2.
Qed.

Theorem run_%(eco)s_e2e_exit (fuel : nat) (w : bytes) (rest : list bytes) :
  (forall l, Permutation (sort_by %(eco)s_Version %(eco)s_Version_Compare l) l) ->
  fits rest -> (length rest < fuel)%%nat -> Forall (fun a => %(dom)s a = true) rest ->
  exists text status,
    grun fuel w ($"%(eco)s" :: rest) = Done (w ++ (text ++ [chr 10]), status) /\\
    status = exit_code (Top.model_cli ($"%(eco)s" :: rest)).
Proof.
  intros SP F Hf FD. unfold grun.
  rewrite (RunInst.run_routing_%(eco)s %(args)s fuel w rest).
  destruct (%(M)s.%(eco)s_cli_e2e_exit O_%(eco)s sort_by %(eco)s_Ecosystem_error_text_runEcosystem_1
              %(eco)s_Ecosystem_error_text_runEcosystem_2 %(eco)s_Ecosystem_error_text_runEcosystem_3
              fuel rest SP F Hf FD) as (r & E1 & E2).
  unfold %(M)s.runEcosystem in E1.
  unfold %(eco)s_Version, %(eco)s_VersionRange, %(eco)s_Ecosystem_Name, %(eco)s_Ecosystem_NewVersion,
    %(eco)s_Ecosystem_NewVersionRange, %(eco)s_VersionRange_Contains, %(eco)s_Version_Compare, %(eco)s_Version_String.
  rewrite E1. cbn [bind]. exists (fst r), (snd r). split; [reflexivity | exact E2].
Qed.
''' % dict(eco=eco, M=M, args=args, dom=variant(eco)[0], P=variant(eco)[1], extra=variant(eco)[2]))
out.append('Theorem names_ok_done :\n  ' + ' /\\\n  '.join('%s_Ecosystem_Name = $"%s"' % (e, e) for e in DONE) + '.\nProof. repeat split. Qed.\n')
out.append('End All.\n')
for eco in DONE:
    out.append('Print Assumptions run_%s_e2e.' % eco)
    out.append('Print Assumptions run_%s_e2e_exit.' % eco)
out.append('Print Assumptions names_ok_done.')
open(os.path.join(here, 'All.v'), 'w').write('\n'.join(out) + '\n')
