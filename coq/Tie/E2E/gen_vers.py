#!/usr/bin/env python3
# Tie/E2E/gen_vers.py -- writes Tie/E2E/Vers<Scheme>.v for the VERS schemes whose end-to-end statement has the
# shape of VersDeb.v (alpine, golang, generic, cargo, nuget, npm, gem, maven, pypi): the Section variables of
# Tie/Vers/CoreDispatch.v (Section Instances) with the bundle of ONE ecosystem replaced by the concrete one of its
# Tie/E2E/<Eco>.v, then <eco>_contains_e2e / <eco>Contains_e2e / vers_<scheme>_e2e.
# maven (two domains, the [tame] texts) and pypi (the wrapper with the PEP 440 gate) have their own proof texts below.
# (VersDeb.v / VersRpm.v were written by hand in the same shape.)
import os
here = os.path.dirname(os.path.abspath(__file__))

ECOS_V = ['alpine', 'cargo', 'debian', 'gem', 'golang', 'maven', 'npm', 'nuget', 'rpm', 'semver']
ECOS_VR = ['alpine', 'cargo', 'debian', 'gem', 'golang', 'maven', 'npm', 'nuget', 'pypi', 'rpm', 'semver']
ECOS_Z = ECOS_VR
BUNDLES = ['alpine', 'cargo', 'debian', 'gem', 'golang', 'maven', 'npm', 'nuget', 'pypi', 'rpm', 'semver']

def section_vars(eco, P):
    """the Variable declarations (the chosen ecosystem's left out) and the argument list of ALL"""
    decl, args = [], []
    def var(name, ty, concrete=None):
        if concrete is None:
            decl.append('  Variable %s : %s.' % (name, ty)); args.append(name)
        else:
            args.append(concrete)
    for e in ECOS_V:
        var(e + '_Version', 'Type', P['V'] if e == eco else None)
    for e in ECOS_VR:
        var(e + '_VersionRange', 'Type', P['VR'] if e == eco else None)
    var('pypi_Version', 'Type', P['V'] if eco == 'pypi' else None)
    for e in ECOS_Z:
        vt = (P['V'] if e == eco else e + '_Version')
        var(e + '_Version_zero', vt)
    for e in BUNDLES:
        me = (e == eco)
        V = P['V'] if me else e + '_Version'
        VR = P['VR'] if me else e + '_VersionRange'
        var(e + '_Ecosystem_Name', 'bytes', P['Name'] if me else None)
        if e != 'pypi':
            var(e + '_Ecosystem_NewVersion', 'bytes -> option %s' % V, '(%s)' % P['NV'] if me else None)
        var(e + '_Ecosystem_NewVersionRange', 'bytes -> option %s' % VR, '(%s)' % P['NVR'] if me else None)
        var(e + '_VersionRange_Contains', '%s -> %s -> bool' % (VR, V), '(%s)' % P['Contains'] if me else None)
        var(e + '_Version_Compare', '%s -> %s -> Z' % (V, V), '(%s)' % P['Compare'] if me else None)
    pv = P['V'] if eco == 'pypi' else 'pypi_Version'
    var('pypi_Ecosystem_NewVersion', 'bytes -> option %s' % pv, '(%s)' % P['NV'] if eco == 'pypi' else None)
    var('pypi_Version_String', '%s -> bytes' % pv, P['String'] if eco == 'pypi' else None)
    var('sort_by', 'forall A : Type, (A -> A -> Z) -> list A -> list A')
    var('strings_Map', '(Z -> Z) -> bytes -> bytes')
    var('strings_ReplaceAll', 'bytes -> bytes -> bytes -> bytes')
    var('unicode_IsSpace', 'Z -> bool')
    return '\n'.join(decl), ' '.join(args)

HEAD = '''(* Tie/E2E/Vers%(Sch)s.v -- written by Tie/E2E/gen_vers.py.
   END TO END for the VERS scheme `%(scheme)s`: the generated vers.Contains (Gen/Parse/SpecVersCore.v,
   Section Instances) with the bundle of `%(eco)sContains` instantiated by the source-derived %(eco)s bundle of
   Tie/E2E/%(File)s.v equals the model [Top.model_vers] -- the model that C04 / C16 / C17 are proved about.
   The bundles of the other ten ecosystems are arbitrary (Section variables): for a text of scheme `%(scheme)s`
   the routing ([Contains_routing], through [Contains_tie]) never calls them.

   [%(eco)s_contains_e2e]   the generic [contains] at the %(eco)s bundle = [contains_generic] at [Top.model_scheme_ops "%(eco)s"]
   [%(eco)sContains_e2e]    %(wrapdoc)s
   [vers_%(scheme)s_e2e]    Contains fuel s v = Done (conc_vres (Top.model_vers s v)) for every text s whose scheme is
                        `%(scheme)s` (invalid texts included), s and v in the domain of the ecosystem's ties
                        (%(domdoc)s), %(fueldoc)s, constraint versions pairwise non-equivalent.
%(tpodoc)s   Hypotheses left: the oracle agreements of %(oracles)s, [sort_spec sort_by],
   strings.Map(drop unicode.IsSpace) = strip_spaces ([Hstrip]). *)
From Coq Require Import ZArith List Ascii Bool Lia Permutation Sorted.
From Verif.Base Require Import Bytes GoNum GoOps Ord Sorting Imp ImpFacts ImpErr ImpCore BytesFacts.
From Verif.Vers Require Model FactsC16.
From Verif.Cli Require Import Model.
From Verif.Eco Require Import RangeCore Iface VLayer.
From Verif.Gen Require VersDispatch.
From Verif.Gen.Parse Require SpecVersCore.
From Verif.Tie Require Import Tactics.
From Verif.Tie.Loops Require Import Common.
From Verif.Tie.Parse Require Import Common.
From Verif.Tie.Cli Require Import Common.
From Verif.Tie.Vers Require Import Common CoreNormalize CoreContains CoreDispatch.
From Verif.Tie.E2E Require Import Common VersCommon VersCommon2.
%(requires)s
From Verif Require Top.
Import ListNotations.
Local Open Scope Z_scope.

%(modules)s
Module M := Verif.Vers.Model.
Module D := Verif.Gen.VersDispatch.
Module C := Verif.Gen.Parse.SpecVersCore.

%(prelude)s
Section Vers%(Sch)s.
  Variable O : %(oracles)s.

  (* the zero value of the version type; the bundles of the other ecosystems; the library oracles *)
%(decl)s

  Local Notation ALL f := (f %(args)s) (only parsing).

  Hypothesis Hstrip : forall c, despace strings_Map unicode_IsSpace c = strip_spaces c.
  Hypothesis Hsort : sort_spec sort_by.

  Local Notation S := (Top.model_scheme_ops $"%(eco)s").

  (* the generic contains at the source-derived %(eco)s bundle *)
  Theorem %(eco)s_contains_e2e (cs : list bytes) (version : bytes) (fuel : nat) :
    fits cs -> (length cs + 6 < fuel)%%nat ->
    %(sizehyp)s ->
    %(dom)s version = true ->%(c_extra_hyps)s
    FactsC16.pairwise_nonequiv S cs ->
    C.contains %(V)s %(VR)s %(eco)s_Version_zero %(Name)s (%(NV)s) (%(NVR)s)
               (%(Contains)s) (%(Compare)s) sort_by strings_Map unicode_IsSpace fuel cs version =
    Done (conc_vres (M.contains_generic S (lookup ($"%(eco)s") D.style_table) cs version)).
  Proof.
%(contains_proof)s
  Qed.

  (* the generated wrapper `%(eco)sContains` (what the dispatch table of vers.Contains holds for `%(scheme)s`) *)
  Theorem %(eco)sContains_e2e (cs : list bytes) (version : bytes) (fuel : nat) :
    fits cs -> (length cs + 6 < fuel)%%nat ->
    %(sizehyp)s ->
    %(dom)s version = true ->%(c_extra_hyps)s
    FactsC16.pairwise_nonequiv S cs ->
    C.%(eco)sContains %(V)s %(VR)s %(eco)s_Version_zero %(Name)s (%(NV)s) (%(NVR)s)
               (%(Contains)s) (%(Compare)s) sort_by strings_Map unicode_IsSpace fuel cs version =
    Done (conc_vres (M.contains_generic S (lookup ($"%(eco)s") D.style_table) cs version)).
  Proof.
    intros. etransitivity; [|apply (%(eco)s_contains_e2e cs version fuel); assumption].
    apply (%(eco)sContains_is_contains %(V)s %(VR)s %(eco)s_Version_zero %(Name)s (%(NV)s) (%(NVR)s)
             (%(Contains)s) (%(Compare)s) sort_by strings_Map unicode_IsSpace fuel cs version).
  Qed.

  (* vers.Contains as computed by the source-derived code = the model *)
  Theorem vers_%(scheme)s_e2e (s v : bytes) (fuel : nat) :
    %(dom)s s = true -> %(dom)s v = true -> (length s < fuel)%%nat ->%(v_extra_hyps)s
    (forall name cl, M.valid s = Some (name, cl) -> name = $"%(scheme)s") ->
    (forall name cl, M.valid s = Some (name, cl) -> FactsC16.pairwise_nonequiv S cl) ->
    ALL Contains_g fuel s v = Done (conc_vres (Top.model_vers s v)).
  Proof.
    intros Ds Dv Hf%(v_extra_intros)s Hname HPW. unfold Top.model_vers.
    pose proof (%(dom_lt)s s Ds) as Ls.
    assert (Fits : fits s) by (unfold fits; lia).
    apply (ALL Contains_tie Top.model_scheme_ops s v fuel Fits Hf).
    intros name cl sc f V OS Fs Dn.
    pose proof (Hname name cl V) as E. subst name.
    assert (DK : ALL dispatch ($"%(scheme)s") = Some (contains_%(eco)s %(V)s %(VR)s %(eco)s_Version_zero
                    %(Name)s (%(NV)s) (%(NVR)s) (%(Contains)s) (%(Compare)s) sort_by strings_Map unicode_IsSpace))
      by reflexivity.
    rewrite DK in Dn. injection Dn as <-.
    assert (Fs' : M.find_scheme ($"%(scheme)s") D.scheme_table =
                  Some {| M.sc_name := $"%(scheme)s"; M.sc_eco := $"%(eco)s"; M.sc_pypi_gate := false |}) by reflexivity.
    rewrite Fs' in Fs. injection Fs as <-.
    unfold model_of. cbn [M.sc_eco M.sc_pypi_gate]. unfold contains_%(eco)s.
    destruct (valid_lengths s _ cl V) as [L1 L2].
    apply %(eco)s_contains_e2e.
    - unfold fits. lia.
    - lia.
    - %(size_from_s)s
    - exact Dv.%(v_extra_bullets)s
    - exact (HPW _ cl V).
  Qed.
End Vers%(Sch)s.
Print Assumptions %(eco)s_contains_e2e.
Print Assumptions %(eco)sContains_e2e.
Print Assumptions vers_%(scheme)s_e2e.
%(prints)s'''

SIMPLE_PROOF = '''    exact (contains_e2e ($"%(eco)s") _ _ %(eco_found)s
             %(V)s %(VR)s %(eco)s_Version_zero %(Name)s (%(NV)s) (%(NVR)s)
             (%(Contains)s) (%(Compare)s) %(String)s sort_by strings_Map unicode_IsSpace
             (%(ties)s) %(tpo)s Hstrip Hsort cs version fuel).'''

GEN_PROOF = '''    exact (contains_e2e_len ($"%(eco)s") _ %(eco_found)s %(coh)s
             %(V)s %(VR)s %(eco)s_Version_zero %(Name)s (%(NV)s) (%(NVR)s)
             (%(Contains)s) (%(Compare)s) %(String)s sort_by strings_Map unicode_IsSpace %(dom)s
             (%(ties)s) %(tpo)s Hstrip Hsort %(domn)s %(dom_len)s %(domn_mono)s cs version fuel).'''

def std(File, eco, scheme, **kw):
    Mod = kw.pop('Mod', File)
    P = dict(File=File, eco=eco, scheme=scheme, Sch=scheme.capitalize(),
             requires='From Verif.Tie.E2E Require %s.' % File,
             modules='Module %s := Verif.Tie.E2E.%s.' % (Mod, File),
             oracles='%s.oracles' % Mod,
             V='%s.G.Version' % Mod, VR='%s.G.VersionRange' % Mod, Name='%s.Name' % Mod,
             NV='%s.NV O' % Mod, NVR='%s.NVR O' % Mod, Contains='%s.Contains O' % Mod, Compare='%s.Compare O' % Mod,
             String='%s.G.Version_String' % Mod,
             ties='%s.%s_lib_ties_on O' % (Mod, eco), tpo='%s.%s_model_tpo' % (Mod, eco),
             eco_found='%s.eco_found' % Mod,
             dom='short', domn='shortn', dom_len='short_len', domn_mono='shortn_mono', dom_lt='short_lt',
             domdoc='[short]: length + 64 < 2^63',
             prelude='', prints='', c_extra_hyps='', v_extra_hyps='', v_extra_intros='', v_extra_bullets='',
             tpodoc='', fueldoc='length s < fuel', wrapdoc='the same for the generated wrapper `%sContains`' % eco)
    P.update(kw)
    return P

def short_sizes(P, simple):
    if simple:
        P['sizehyp'] = 'Z.of_nat (tlen cs) + 71 < 2 ^ 63'
        P['size_from_s'] = 'lia.'
        P['contains_proof'] = SIMPLE_PROOF % P
    else:
        P['sizehyp'] = '%s (tlen cs + 7) = true' % P['domn']
        P['size_from_s'] = ('apply (%s (length s)); [lia | rewrite <- %s; exact Ds].' % (P['domn_mono'], P['dom_len']))
        P['contains_proof'] = GEN_PROOF % P
    return P

COH = '''Lemma %(eco)s_rops_coherent : rops_coherent %(r)s.
Proof.
  intros vok vcmp t v. %(unf)s
  destruct (%(pr)s t) as [rg|]; cbn [option_map andb]; [|reflexivity].
  destruct (vok v); reflexivity.
Qed.
'''

SCHEMES = []
SCHEMES.append((short_sizes(std('Alpine', 'alpine', 'alpine'), True)))
SCHEMES.append((short_sizes(std('Golang', 'golang', 'golang'), True)))

def custom(File, eco, scheme, r, unf, pr, **kw):
    P = std(File, eco, scheme, **kw)
    P['coh'] = '%s_rops_coherent' % eco
    P['prelude'] = COH % dict(eco=eco, r=r, unf=unf, pr=pr)
    P['prints'] = 'Print Assumptions %s_rops_coherent.\n' % eco
    return short_sizes(P, False)

SCHEMES.append(custom('Semver', 'semver', 'generic', 'Verif.Eco.Semver.Entry.r',
    'unfold Verif.Eco.Semver.Entry.r; cbn [r_contains r_show].', 'Verif.Eco.Semver.Range.parse_range vok',
    NV='Semver.NV (Semver.vo O)', Compare='Semver.Compare (Semver.vo O)'))
SCHEMES.append(custom('Cargo', 'cargo', 'cargo', 'Verif.Eco.Cargo.Entry.r',
    'unfold Verif.Eco.Cargo.Entry.r; cbn [r_contains r_show]; unfold Verif.Eco.Cargo.Range.r_contains, Verif.Eco.Cargo.Range.r_show.',
    'Verif.Eco.Cargo.Range.parse_range vok'))
SCHEMES.append(custom('Nuget', 'nuget', 'nuget', 'Verif.Eco.Nuget.Entry.r',
    'unfold Verif.Eco.Nuget.Entry.r; cbn [r_contains r_show].', 'Verif.Eco.Nuget.Range.parse_range vok'))

LEN_DOM = '''Definition %(eco)s_domn (n : nat) : bool := %(k)s * Z.of_nat n + %(c)s <? 2 ^ 63.
Lemma %(eco)s_dom_len s : %(dom)s s = %(eco)s_domn (length s).
Proof. reflexivity. Qed.
Lemma %(eco)s_domn_mono n m : (m <= n)%%nat -> %(eco)s_domn n = true -> %(eco)s_domn m = true.
Proof. unfold %(eco)s_domn. intros L H. apply Z.ltb_lt in H. apply Z.ltb_lt. lia. Qed.
Lemma %(eco)s_dom_lt s : %(dom)s s = true -> %(k)s * Z.of_nat (length s) + %(c)s < 2 ^ 63.
Proof. rewrite %(eco)s_dom_len. unfold %(eco)s_domn. intros H. apply Z.ltb_lt in H. exact H. Qed.
'''
def lendom(P, k, c):
    eco = P['eco']
    P['prelude'] += LEN_DOM % dict(eco=eco, dom=P['dom'], k=k, c=c)
    P['prints'] += ''.join('Print Assumptions %s_%s.\n' % (eco, x) for x in ('dom_len', 'domn_mono', 'dom_lt'))
    return P

SCHEMES.append(custom('NpmRange', 'npm', 'npm', 'Verif.Eco.Npm.Entry.r',
    'unfold Verif.Eco.Npm.Entry.r; cbn [r_contains r_show].', 'Verif.Eco.Npm.Range.parse_range vok',
    Name='NpmRange.V.Name', NV='NpmRange.V.NV (NpmRange.vo O)', Compare='NpmRange.V.Compare (NpmRange.vo O)',
    tpo='NpmRange.V.npm_model_tpo', eco_found='NpmRange.V.eco_found',
    dom='NpmRange.dom', domn='npm_domn', dom_len='npm_dom_len', domn_mono='npm_domn_mono', dom_lt='npm_dom_lt',
    domdoc='[NpmRange.dom]: 2 * length + 512 < 2^63', lendom=(2, 512)))
SCHEMES.append(custom('Gem', 'gem', 'gem', 'Verif.Eco.Gem.Entry.r',
    'unfold Verif.Eco.Gem.Entry.r; cbn [r_contains r_show]; unfold Verif.Eco.Gem.Range.r_contains, Verif.Eco.Gem.Range.r_show.',
    'Verif.Eco.Gem.Range.parse_range vok',
    NVR='Gem.NVR', Compare='Gem.Compare',
    dom='Gem.gshort', domn='gem_domn', dom_len='gem_dom_len', domn_mono='gem_domn_mono', dom_lt='gem_dom_lt',
    domdoc='[Gem.gshort]: 10 * length + 64 < 2^63', lendom=(10, 64)))

MAVEN_PRELUDE = '''Lemma maven_rops_coherent : rops_coherent Verif.Eco.Maven.Entry.r.
Proof.
  intros vok vcmp t v. unfold Verif.Eco.Maven.Entry.r; cbn [r_contains r_show].
  destruct (Verif.Eco.Maven.Range.parse_range vok t) as [rg|]; cbn [option_map andb]; [|reflexivity].
  destruct (vok v); reflexivity.
Qed.

(* every accepted text is tame: the version texts on which the statement is made (a rejected text is fine) *)
Definition mtame (s : bytes) : bool := Maven.tame s || negb (l_vok (Top.model_lib $"maven") s).
(* the two domains of Tie/Vers/CoreContainsOn2.v: version texts [mdomV], range texts [short] *)
Definition mdomV (s : bytes) : bool := short s && mtame s.

Section MavenDom.
  Variable O : Maven.oracles.
  Local Notation Sm := (Top.model_scheme_ops $"maven").
  Local Notation Lm := (Top.model_lib $"maven").

  Lemma maven_vok_on s : mdomV s = true -> (Maven.NV O s = None <-> M.s_vok Sm s = false).
  Proof.
    intros H. apply andb_prop in H as [H _].
    exact (gscheme_vok_on ($"maven") _ Maven.eco_found _ _ _ _ _ _ _ _ short (Maven.maven_lib_ties_on O) s H).
  Qed.

  Lemma maven_cmp_on a b va vb : mdomV a = true -> mdomV b = true ->
    Maven.NV O a = Some va -> Maven.NV O b = Some vb ->
    Maven.Compare O va vb = Z_of_cmp (M.s_vcmp Sm a b).
  Proof.
    intros Ha Hb. apply andb_prop in Ha as [Ha _]. apply andb_prop in Hb as [Hb _].
    exact (gscheme_cmp_on ($"maven") _ Maven.eco_found _ _ _ _ _ _ _ _ short (Maven.maven_lib_ties_on O) a b va vb Ha Hb).
  Qed.

  Lemma maven_range_on t v ver : short t = true -> mdomV v = true -> Maven.NV O v = Some ver ->
    M.s_rcontains Sm t v = option_map (fun r => Maven.Contains O r ver) (Maven.NVR O t).
  Proof.
    intros Ht Hv. apply andb_prop in Hv as [Hv _].
    exact (gscheme_range_on ($"maven") _ Maven.eco_found maven_rops_coherent _ _ _ _ _ _ _ _ short
             (Maven.maven_lib_ties_on O) t v ver Ht Hv).
  Qed.

  (* the model's comparison is a total preorder on the accepted texts of the version domain: they are tame *)
  Lemma maven_tpo_on :
    TotalPreorderOn (FactsC16.vok_text (restrict_ops2 mdomV short Sm)) (M.s_vcmp (restrict_ops2 mdomV short Sm)).
  Proof.
    assert (Sub : forall t, FactsC16.vok_text (restrict_ops2 mdomV short Sm) t -> Maven.tame t = true).
    { intros t H. unfold FactsC16.vok_text in H.
      change (M.s_vok (restrict_ops2 mdomV short Sm) t) with (mdomV t && M.s_vok Sm t) in H.
      apply andb_prop in H as [H1 H2]. unfold mdomV in H1. apply andb_prop in H1 as [_ H1].
      rewrite (gscheme_vok ($"maven") _ Maven.eco_found) in H2. unfold mtame in H1. rewrite H2 in H1.
      cbn [negb] in H1. rewrite orb_false_r in H1. exact H1. }
    assert (E : forall a b, M.s_vcmp (restrict_ops2 mdomV short Sm) a b = l_vcmp Lm a b).
    { intros a b. change (M.s_vcmp (restrict_ops2 mdomV short Sm) a b) with (M.s_vcmp Sm a b).
      apply (gscheme_vcmp ($"maven") _ Maven.eco_found). }
    pose proof Maven.maven_model_tpo as TP.
    constructor.
    - intros a Pa. rewrite E. apply (tpo_refl TP). apply Sub; exact Pa.
    - intros a b Pa Pb. rewrite !E. apply (tpo_anti TP); apply Sub; assumption.
    - intros a b c x Pa Pb Pc. rewrite !E. apply (tpo_trans TP); apply Sub; assumption.
    - intros a b c Pa Pb Pc. rewrite !E. apply (tpo_eq_l TP); apply Sub; assumption.
  Qed.
End MavenDom.
'''
MAVEN_PROOF = '''    intros F Lf Hlen Dv Tv Tcs PW.
    apply (contains_tie_on2 Maven.G.Version Maven.G.VersionRange maven_Version_zero Maven.Name (Maven.NV O) (Maven.NVR O)
             (Maven.Contains O) (Maven.Compare O) sort_by strings_Map unicode_IsSpace S mdomV short Hstrip
             (maven_vok_on O) (maven_cmp_on O) (maven_range_on O) Hsort maven_tpo_on cs version fuel F Lf PW).
    - unfold mdomV. rewrite Dv, Tv. reflexivity.
    - intros c0 Hc. unfold mdomV. rewrite (cs_short cs ltac:(blia) c0 Hc), (Tcs c0 Hc). reflexivity.
    - intros ncs st t NM _ Ht. apply (texts_short S cs ltac:(blia) ncs st t NM Ht).'''
Pm = std('Maven', 'maven', 'maven')
Pm['requires'] += '\nFrom Verif.Tie.Vers Require Import CoreContainsOn CoreContainsOn2.'
Pm['prelude'] = MAVEN_PRELUDE
Pm['prints'] = ''.join('Print Assumptions %s.\n' % x for x in
    ('maven_rops_coherent', 'maven_vok_on', 'maven_cmp_on', 'maven_range_on', 'maven_tpo_on'))
Pm['sizehyp'] = 'Z.of_nat (tlen cs) + 71 < 2 ^ 63'
Pm['size_from_s'] = 'lia.'
Pm['c_extra_hyps'] = '''
    mtame version = true ->
    (forall c0, In c0 cs -> mtame (snd (split_op (strip_spaces c0))) = true) ->'''
Pm['v_extra_hyps'] = '''
    mtame v = true ->
    (forall name cl, M.valid s = Some (name, cl) ->
       forall c0, In c0 cl -> mtame (snd (split_op (strip_spaces c0))) = true) ->'''
Pm['v_extra_intros'] = ' Tv Tcl'
Pm['v_extra_bullets'] = '''
    - exact Tv.
    - exact (Tcl _ cl V).'''
Pm['contains_proof'] = MAVEN_PROOF
Pm['tpodoc'] = '''   MAVEN: the model's comparison is a total preorder on the [tame] texts only (Tie/E2E/Maven.v: the recorded order
   cycle 1-foo < 1.5 < 1-sp < 1-foo), so the statement is made for probes and constraint versions that are
   tame when accepted ([mtame]); the native range texts (`[1.0,2.0)`: accepted, non-tame VERSION texts) are in
   the second domain of Tie/Vers/CoreContainsOn2.v.
'''
SCHEMES.append(Pm)

# ---------- pypi: the wrapper with the PEP 440 gate ----------
PYPI_PRELUDE = '''Module VP := Verif.Tie.Vers.Pypi.

Lemma pypi_rops_coherent : rops_coherent Verif.Eco.Pypi.Entry.r.
Proof.
  intros vok vcmp t v. unfold Verif.Eco.Pypi.Entry.r; cbn [r_contains r_show].
  destruct (Verif.Eco.Pypi.Range.parse_range vok t) as [rg|]; cbn [option_map andb]; [|reflexivity].
  destruct (vok v); reflexivity.
Qed.

(* [pypiContains_tie] / [pypiContains_model] of Tie/Vers/CoreDispatch.v ask that String() fits for EVERY value
   of the version type; for the generated record type (String() = the field `original`) that holds for the
   values NewVersion returns only.  The same two theorems with the hypothesis at the probe's value. *)
Section PypiWrapperAt.
  Variable V VR : Type.
  Variable V_zero : V.
  Variable E_Name : bytes.
  Variable NVR : bytes -> option VR.
  Variable VR_Contains : VR -> V -> bool.
  Variable V_Compare : V -> V -> Z.
  Variable NV : bytes -> option V.
  Variable V_String : V -> bytes.
  Variable sort_by : forall A : Type, (A -> A -> Z) -> list A -> list A.
  Variable strings_Map : (Z -> Z) -> bytes -> bytes.
  Variable strings_ReplaceAll : bytes -> bytes -> bytes -> bytes.
  Variable unicode_IsSpace : Z -> bool.

  Hypothesis replace_fits : forall c a b, fits c -> fits (strings_ReplaceAll c a b).
  Hypothesis replace_spec : forall c,
    strings_ReplaceAll c ($" ") [] = filter (fun x => negb (ceqb x " "%char)) c.

  Local Notation wrapper :=
    (C.pypiContains VR V V_zero E_Name NVR VR_Contains V_Compare NV V_String sort_by strings_Map strings_ReplaceAll
                    unicode_IsSpace).
  Local Notation generic :=
    (C.contains V VR V_zero E_Name NV NVR VR_Contains V_Compare sort_by strings_Map unicode_IsSpace).

  Theorem isPyPIPrerelease_tie_at (pv : V) (fuel : nat) :
    fits (V_String pv) -> (7 < fuel)%nat ->
    C.isPyPIPrerelease V V_String fuel pv = Done (M.pypi_is_prerelease (V_String pv)).
  Proof.
    intros F Hf. unfold C.isPyPIPrerelease, M.pypi_is_prerelease. cbv zeta.
    change (chr 43) with "+"%char.
    destruct (split_c_hd "+"%char (V_String pv)) as [rest E]. rewrite E.
    erewrite idx_known by reflexivity. cbn [bind].
    rewrite VP.containsPrereleaseMarkers_tie; [reflexivity | | exact Hf].
    pose proof (split2_fst_length "+"%char (V_String pv)) as L.
    unfold fits in *. unfold bytes in *. lia.
  Qed.

  Theorem pypiContains_tie_at (cs : list bytes) (v : bytes) (fuel : nat) :
    fits cs -> Forall fits cs -> (length cs + 7 < fuel)%nat ->
    (forall pv, NV v = Some pv -> fits (V_String pv)) ->
    wrapper fuel cs v =
    match NV v with
    | None => Done None
    | Some pv => bind (generic fuel cs v) (fun r1 => Done (pypi_gate (V_String pv) cs r1))
    end.
  Proof.
    intros Hfit Hall Hf Fpv. unfold C.pypiContains.
    destruct (NV v) as [pv|]; [|reflexivity].
    rewrite (isPyPIPrerelease_tie_at pv fuel (Fpv pv eq_refl)) by lia. cbn [bind].
    destruct (generic fuel cs v) as [r1| |]; cbn [bind]; try reflexivity.
    destruct r1 as [res|]; [|reflexivity]. cbn [pypi_gate].
    destruct (M.pypi_is_prerelease (V_String pv)); cbn [andb bind].
    - rewrite (VP.constraintsIncludePrerelease_tie strings_ReplaceAll replace_fits replace_spec cs fuel Hfit Hall Hf).
      cbn [bind]. fold (names_pre cs). destruct (names_pre cs); reflexivity.
    - reflexivity.
  Qed.

  Theorem pypiContains_model_at (S : M.scheme_ops) (st : option M.native_style)
          (cs : list bytes) (v : bytes) (fuel : nat) :
    fits cs -> Forall fits cs -> (length cs + 7 < fuel)%nat ->
    (forall pv, NV v = Some pv -> fits (V_String pv)) ->
    (NV v = None <-> M.s_vok S v = false) ->
    (forall pv, NV v = Some pv -> V_String pv = M.s_vshow S v) ->
    generic fuel cs v = Done (conc_vres (M.contains_generic S st cs v)) ->
    wrapper fuel cs v = Done (conc_vres (M.contains_pypi S st cs v)).
  Proof.
    intros Hfit Hall Hf Fpv Hok Hshow Hgen. rewrite (pypiContains_tie_at cs v fuel Hfit Hall Hf Fpv).
    unfold M.contains_pypi.
    destruct (NV v) as [pv|] eqn:ENV.
    - destruct (M.s_vok S v) eqn:OK; [|destruct Hok as [_ Hok]; specialize (Hok eq_refl); discriminate].
      cbn [negb]. rewrite Hgen. cbn [bind]. rewrite (Hshow pv eq_refl).
      fold (names_pre cs).
      destruct (M.contains_generic S st cs v); cbn [conc_vres pypi_gate];
        try reflexivity; destruct (M.pypi_is_prerelease _ && negb (names_pre cs)); reflexivity.
    - destruct Hok as [Hok _]. rewrite (Hok eq_refl). reflexivity.
  Qed.
End PypiWrapperAt.
'''

PYPI_TAIL = '''
  (* strings.ReplaceAll: on a Go string it returns a Go string; ReplaceAll(c, " ", "") drops the spaces *)
  Hypothesis Hreplace_fits : forall c a b, fits c -> fits (strings_ReplaceAll c a b).
  Hypothesis Hreplace_spec : forall c,
    strings_ReplaceAll c ($" ") [] = filter (fun x => negb (ceqb x " "%%char)) c.

  (* String() of the value NewVersion returns is the trimmed text *)
  Lemma pypi_string_fits v pv : short v = true -> %(NV)s v = Some pv -> fits (%(String)s pv).
  Proof.
    intros Dv E. rewrite EP.NV_eq in E. destruct (EP.nvm_abs v pv E) as [_ Oa].
    unfold EP.G.Version_String. rewrite Oa. apply short_fits. apply short_trim. exact Dv.
  Qed.

  (* the generated wrapper `pypiContains` (what the dispatch table of vers.Contains holds for `pypi`):
     the model's contains_pypi, the PEP 440 gate included *)
  Theorem pypiContains_e2e (cs : list bytes) (version : bytes) (fuel : nat) :
    fits cs -> Forall fits cs -> (length cs + 7 < fuel)%%nat ->
    %(sizehyp)s ->
    %(dom)s version = true ->
    FactsC16.pairwise_nonequiv S cs ->
    C.pypiContains %(VR)s %(V)s pypi_Version_zero %(Name)s (%(NVR)s) (%(Contains)s) (%(Compare)s)
               (%(NV)s) %(String)s sort_by strings_Map strings_ReplaceAll unicode_IsSpace fuel cs version =
    Done (conc_vres (M.contains_pypi S (lookup ($"pypi") D.style_table) cs version)).
  Proof.
    intros F FA Lf Hlen Dv PW.
    apply (pypiContains_model_at %(V)s %(VR)s pypi_Version_zero %(Name)s (%(NVR)s) (%(Contains)s) (%(Compare)s)
             (%(NV)s) %(String)s sort_by strings_Map strings_ReplaceAll unicode_IsSpace Hreplace_fits Hreplace_spec
             S (lookup ($"pypi") D.style_table) cs version fuel F FA Lf).
    - intros pv E. exact (pypi_string_fits version pv Dv E).
    - exact (gscheme_vok_on ($"pypi") _ %(eco_found)s _ _ _ _ _ _ _ _ short (%(ties)s) version Dv).
    - intros pv E.
      exact (gscheme_show_on ($"pypi") _ %(eco_found)s _ _ _ _ _ _ _ _ short (%(ties)s) version pv Dv E).
    - apply pypi_contains_e2e; try assumption. lia.
  Qed.

  (* vers.Contains as computed by the source-derived code = the model *)
  Theorem vers_pypi_e2e (s v : bytes) (fuel : nat) :
    short s = true -> short v = true -> (length s + 1 < fuel)%%nat ->
    (forall name cl, M.valid s = Some (name, cl) -> name = $"pypi") ->
    (forall name cl, M.valid s = Some (name, cl) -> FactsC16.pairwise_nonequiv S cl) ->
    ALL Contains_g fuel s v = Done (conc_vres (Top.model_vers s v)).
  Proof.
    intros Ds Dv Hf Hname HPW. unfold Top.model_vers.
    pose proof (short_lt s Ds) as Ls.
    assert (Fits : fits s) by (unfold fits; lia).
    apply (ALL Contains_tie Top.model_scheme_ops s v fuel Fits ltac:(lia)).
    intros name cl sc f V OS Fs Dn.
    pose proof (Hname name cl V) as E. subst name.
    assert (DK : ALL dispatch ($"pypi") = Some (w_pypi %(VR)s %(V)s pypi_Version_zero %(Name)s (%(NVR)s)
                    (%(Contains)s) (%(Compare)s) (%(NV)s) %(String)s sort_by strings_Map strings_ReplaceAll
                    unicode_IsSpace))
      by reflexivity.
    rewrite DK in Dn. injection Dn as <-.
    assert (Fs' : M.find_scheme ($"pypi") D.scheme_table =
                  Some {| M.sc_name := $"pypi"; M.sc_eco := $"pypi"; M.sc_pypi_gate := true |}) by reflexivity.
    rewrite Fs' in Fs. injection Fs as <-.
    unfold model_of. cbn [M.sc_eco M.sc_pypi_gate]. unfold w_pypi.
    destruct (valid_lengths s _ cl V) as [L1 L2].
    apply pypiContains_e2e.
    - unfold fits. lia.
    - apply Forall_forall. intros c Hc. apply tlen_In in Hc. unfold fits. unfold bytes in *. lia.
    - lia.
    - apply (shortn_mono (length s)); [lia | rewrite <- short_len; exact Ds].
    - exact Dv.
    - exact (HPW _ cl V).
  Qed.
End VersPypi.
Print Assumptions pypi_contains_e2e.
Print Assumptions pypiContains_e2e.
Print Assumptions vers_pypi_e2e.
Print Assumptions pypi_rops_coherent.
Print Assumptions isPyPIPrerelease_tie_at.
Print Assumptions pypiContains_tie_at.
Print Assumptions pypiContains_model_at.
Print Assumptions pypi_string_fits.
'''
Pp = std('Pypi', 'pypi', 'pypi', Mod='EP', Compare='EP.Compare')
Pp['requires'] += '\nFrom Verif.Tie.Vers Require Pypi.'
Pp['coh'] = 'pypi_rops_coherent'
Pp['prelude'] = PYPI_PRELUDE
short_sizes(Pp, False)
Pp['pypi_tail'] = PYPI_TAIL % Pp
Pp['fueldoc'] = 'length s + 1 < fuel'
Pp['wrapdoc'] = 'the generated wrapper `pypiContains` = the model\'s [contains_pypi] (the PEP 440 gate included)'
Pp['tpodoc'] = '''   PYPI: the dispatch table holds the WRAPPER `pypiContains` (NewVersion, the PEP 440 pre-release gate around the
   generic contains): [pypiContains_e2e] is the model's [contains_pypi]; two more library hypotheses, on
   strings.ReplaceAll ([Hreplace_fits], [Hreplace_spec]); fuel above length s + 1.
'''
SCHEMES.append(Pp)

for P in SCHEMES:
    if 'lendom' in P: lendom(P, *P['lendom'])
    decl, args = section_vars(P['eco'], P)
    P['decl'] = decl; P['args'] = args
    fn = os.path.join(here, 'Vers%s.v' % P['Sch'])
    text = HEAD % P
    if 'pypi_tail' in P:
        cut = text.index("  (* the generated wrapper `pypiContains`")
        text = text[:cut].rstrip() + '\n' + P['pypi_tail']
    open(fn, 'w').write(text)
    print('wrote', fn)
