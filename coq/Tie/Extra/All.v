(* Tie/Extra/All.v — ties for the four generated functions that no other tie theorem names:
   composer normalizeOperator, maven normalizeQualifier, alpm compareALMPVersionString,
   npm Version.normalize (with its callers padPartial / parseCaretRange / parseTildeRange). *)
From Verif.Tie.Extra Require Composer Maven Alpm Npm.
