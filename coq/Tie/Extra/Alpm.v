(* Tie/Extra/Alpm.v — the generated translation of alpm's compareALMPVersionString
   (Gen/Code/Alpm.v, version.go:192) against the model Eco/Alpm/Version.v.

   WHY IT WAS UNTIED.  compareALMPVersionString is live code: Version.Compare calls it on the two
   pkgver strings (version.go:161).  It is in the loop-free fragment, generalised over the
   Section variable compareSegmentBySegment (the loop).  The existing theorems
   Tie/Alpm.tie_alpm_compare and Tie/Loops/Alpm.tie_alpm_compare_closed are stated about its
   caller G.Version_Compare; [tie_solve] unfolds the helper silently (CODE.md: "never mention
   generated helpers"), so its name occurs in no theorem although its body is covered.  The
   model function that plays its role is M.cmp_pkgver (same shape: the [a == b] shortcut, then
   cmp_segs over split_to_segments).

   THE TIES.
   - [tie_alpm_compareALMPVersionString]: for any callee that agrees with the model of the loop,
     the function is Z_of_cmp (M.cmp_pkgver a b) — on ALL inputs.
   - [tie_alpm_compareALMPVersionString_closed]: the same with the Section variable discharged by
     the real generated loop (Gen/Loops/Alpm.v compareSegmentBySegment, run with the fuel
     S (max (len a) (len b)) that Tie/Loops/Alpm.v proves sufficient), for strings of int length
     and any splitter that agrees with the model's split_to_segments (splitToSegments is outside
     all fragments: strings.Builder); [_closed_model_split] passes the model's splitter itself.
     This gives "no panic / terminates" for the composition as well: the total function never
     falls back to its default.
   - [compareALMPVersionString_alpm_refl]: equal strings compare 0 whatever the callee does (no
     hypothesis), and [tie_alpm_compareALMPVersionString_segs]: the shortcut is redundant — the
     result is always the segment comparison (Eco/Alpm/VersionFacts.cmp_pkgver_as_segs). *)
From Coq Require Import ZArith List Bool Lia.
From Verif.Base Require Import Bytes GoNum GoOps Ord BytesFacts Imp ImpFacts.
From Verif.Eco.Alpm Require Version VersionFacts.
From Verif.Gen.Code Require Alpm.
From Verif.Gen.Loops Require Alpm.
From Verif.Tie Require Import Tactics.
From Verif.Tie Require Alpm.
From Verif.Tie.Loops Require Import Common.
From Verif.Tie.Loops Require Alpm.
Import ListNotations.
Local Open Scope Z_scope.

Module G := Verif.Gen.Code.Alpm.
Module L := Verif.Gen.Loops.Alpm.
Module M := Verif.Eco.Alpm.Version.
Module MF := Verif.Eco.Alpm.VersionFacts.
Module TL := Verif.Tie.Loops.Alpm.

(* equal strings: 0, for ANY callee (the shortcut never calls it) *)
Theorem compareALMPVersionString_alpm_refl : forall (cs : bytes -> bytes -> Z) a,
  G.compareALMPVersionString cs a a = 0.
Proof. intros cs a. unfold G.compareALMPVersionString. rewrite beq_refl. reflexivity. Qed.
Print Assumptions compareALMPVersionString_alpm_refl.

(* different strings: exactly the callee *)
Theorem compareALMPVersionString_alpm_neq : forall (cs : bytes -> bytes -> Z) a b,
  a <> b -> G.compareALMPVersionString cs a b = cs a b.
Proof.
  intros cs a b H. unfold G.compareALMPVersionString.
  apply beq_false_iff in H. rewrite H. reflexivity.
Qed.
Print Assumptions compareALMPVersionString_alpm_neq.

Section Compare.
  Variable compareSegmentBySegment : bytes -> bytes -> Z.
  Hypothesis compareSegmentBySegment_model : forall p q,
    compareSegmentBySegment p q = Z_of_cmp (M.cmp_segs (M.split_to_segments p) (M.split_to_segments q)).

  Theorem tie_alpm_compareALMPVersionString : forall a b,
    G.compareALMPVersionString compareSegmentBySegment a b = Z_of_cmp (M.cmp_pkgver a b).
  Proof.
    intros a b. unfold G.compareALMPVersionString, M.cmp_pkgver.
    destruct (beq a b); [reflexivity|]. apply compareSegmentBySegment_model.
  Qed.

  (* the shortcut is redundant: always the segment comparison *)
  Theorem tie_alpm_compareALMPVersionString_segs : forall a b,
    G.compareALMPVersionString compareSegmentBySegment a b =
    Z_of_cmp (M.cmp_segs (M.split_to_segments a) (M.split_to_segments b)).
  Proof.
    intros a b. rewrite tie_alpm_compareALMPVersionString, MF.cmp_pkgver_as_segs. reflexivity.
  Qed.

  (* hence the shortcut could be removed from the Go code without changing any result *)
  Theorem compareALMPVersionString_alpm_is_callee : forall a b,
    G.compareALMPVersionString compareSegmentBySegment a b = compareSegmentBySegment a b.
  Proof.
    intros a b. rewrite tie_alpm_compareALMPVersionString_segs, compareSegmentBySegment_model. reflexivity.
  Qed.

  (* the sign laws, transported from the model (cmp_pkgver is a total preorder) *)
  Theorem compareALMPVersionString_alpm_anti : forall a b,
    G.compareALMPVersionString compareSegmentBySegment b a =
    - G.compareALMPVersionString compareSegmentBySegment a b.
  Proof.
    intros a b. rewrite !tie_alpm_compareALMPVersionString.
    rewrite (tp_anti MF.cmp_pkgver_tp a b). destruct (M.cmp_pkgver a b); reflexivity.
  Qed.
End Compare.
Print Assumptions tie_alpm_compareALMPVersionString.
Print Assumptions tie_alpm_compareALMPVersionString_segs.
Print Assumptions compareALMPVersionString_alpm_is_callee.
Print Assumptions compareALMPVersionString_alpm_anti.

(* ---------- closed: the callee is the generated loop ---------- *)

Section Closed.
  Variable splitToSegments : bytes -> list bytes.
  Hypothesis splitToSegments_model : forall s, splitToSegments s = M.split_to_segments s.

  (* compareALMPVersionString with the real compareSegmentBySegment below it *)
  Definition compareALMPVersionString_total (a b : bytes) : Z :=
    G.compareALMPVersionString (TL.compareSegmentBySegment_total splitToSegments) a b.

  Theorem tie_alpm_compareALMPVersionString_closed : forall a b,
    fits a -> fits b ->
    compareALMPVersionString_total a b = Z_of_cmp (M.cmp_pkgver a b).
  Proof.
    intros a b Fa Fb. unfold compareALMPVersionString_total, G.compareALMPVersionString, M.cmp_pkgver.
    destruct (beq a b); [reflexivity|].
    apply (TL.compareSegmentBySegment_total_model splitToSegments splitToSegments_model); assumption.
  Qed.

  (* the run of the loop underneath really ends in Done (no panic, enough fuel): the answer is not
     the default of [total] *)
  Theorem compareALMPVersionString_alpm_no_panic : forall a b,
    fits a -> fits b ->
    a = b /\ compareALMPVersionString_total a b = 0 \/
    a <> b /\ L.compareSegmentBySegment splitToSegments (S (Nat.max (length a) (length b))) a b =
              Done (compareALMPVersionString_total a b).
  Proof.
    intros a b Fa Fb. unfold compareALMPVersionString_total, G.compareALMPVersionString.
    destruct (beq a b) eqn:E.
    - left. apply beq_eq in E. auto.
    - right. split; [apply beq_false_iff; exact E|].
      unfold TL.compareSegmentBySegment_total.
      rewrite (TL.tie_loops_alpm_compareSegmentBySegment splitToSegments splitToSegments_model)
        by (assumption || lia).
      reflexivity.
  Qed.
End Closed.
Print Assumptions tie_alpm_compareALMPVersionString_closed.
Print Assumptions compareALMPVersionString_alpm_no_panic.

Theorem tie_alpm_compareALMPVersionString_closed_model_split : forall a b,
  fits a -> fits b ->
  compareALMPVersionString_total M.split_to_segments a b = Z_of_cmp (M.cmp_pkgver a b).
Proof. apply tie_alpm_compareALMPVersionString_closed. reflexivity. Qed.
Print Assumptions tie_alpm_compareALMPVersionString_closed_model_split.
