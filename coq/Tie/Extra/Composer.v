(* Tie/Extra/Composer.v — the generated translation of composer's normalizeOperator
   (Gen/Code/Composer.v, range.go:140) against the model Eco/Composer/Range.v.

   WHY IT WAS UNTIED.  normalizeOperator is live code: its only caller is parseSingleConstraint
   (range.go:121), which stores  normalizeOperator(op)  in the operator field of the constraint;
   the only reader of that field is the switch of constraint.matches (range.go:514).  Both the
   caller and the reader are OUTSIDE all translated fragments (a nil pointer as a value /
   pointer comparison), so in Tie/Parse/ComposerRange.v and Tie/E2E/Composer.v they are the
   oracles [single], [matches] and the reading [cc]: no existing theorem could mention the
   function.  The model has no function of that name either: Eco/Composer/Range.v inlines it
   into [sem_op] ("normalizeOperator followed by the switch in matches"), which maps the raw
   operator text to a [cop].

   THE TIE.  The switch of matches on the six spellings "=", "!=", "<", "<=", ">", ">=" with
   default false is exactly RangeCore.sem6 (read through [sat]).  So the model function that
   plays the role of normalizeOperator is the factor of sem_op through sem6:

       sem_op op = sem6 (normalizeOperator op)            for EVERY text op,

   which is [tie_composer_normalizeOperator].  On the operator list of parseSingleConstraint the
   result is moreover the canonical spelling [cop_text] of the model's comparator
   ([normalizeOperator_composer_canonical]) — this is the explicit abstraction between the two
   representations (Go: operator text, model: cop) and agrees with the hypotheses cc_ge / cc_le
   of Tie/Parse/ComposerRange.v (">=" for CGe, "<=" for CLe). *)
From Coq Require Import ZArith List Bool Lia.
From Verif.Base Require Import Bytes GoNum GoOps Ord BytesFacts.
From Verif.Eco Require Import RangeCore.
From Verif.Eco.Composer Require Range.
From Verif.Gen.Code Require Composer.
From Verif.Tie Require Import Tactics.
Import ListNotations.

Module G := Verif.Gen.Code.Composer.
Module RM := Verif.Eco.Composer.Range.

(* the spelling that the switch of constraint.matches reads for a comparator (the inverse of sem6
   on the six comparators; CNever has no spelling: any text outside the switch) *)
Definition cop_text (c : cop) : bytes :=
  match c with
  | CEq => $"=" | CNe => $"!=" | CLt => $"<" | CLe => $"<=" | CGt => $">" | CGe => $">="
  | CNever => $""
  end.

(* ---- the tie: the model's operator semantics is "normalize, then the switch of matches" ---- *)
Theorem tie_composer_normalizeOperator : forall op,
  RM.sem_op op = sem6 (G.normalizeOperator op).
Proof. tie_solve. Qed.
Print Assumptions tie_composer_normalizeOperator.

(* the same, read through sat: what matches answers for a comparison result c *)
Theorem tie_composer_normalizeOperator_sat : forall op c,
  sat (RM.sem_op op) c = sat (sem6 (G.normalizeOperator op)) c.
Proof. intros op c. rewrite tie_composer_normalizeOperator. reflexivity. Qed.
Print Assumptions tie_composer_normalizeOperator_sat.

(* ---- characterisation on all inputs ---- *)
Theorem normalizeOperator_composer_spec : forall op,
  (op = $"==" /\ G.normalizeOperator op = $"=") \/
  (op = $"<>" /\ G.normalizeOperator op = $"!=") \/
  (op <> $"==" /\ op <> $"<>" /\ G.normalizeOperator op = op).
Proof.
  intros op. unfold G.normalizeOperator.
  destruct (beq op $"==") eqn:E1.
  - left. apply beq_eq in E1. auto.
  - destruct (beq op $"<>") eqn:E2.
    + right; left. apply beq_eq in E2. auto.
    + right; right. apply beq_false_iff in E1. apply beq_false_iff in E2. auto.
Qed.
Print Assumptions normalizeOperator_composer_spec.

Theorem normalizeOperator_composer_idem : forall op,
  G.normalizeOperator (G.normalizeOperator op) = G.normalizeOperator op.
Proof.
  intros op.
  destruct (normalizeOperator_composer_spec op) as [[_ H]|[[_ H]|[_ [_ H]]]]; rewrite H; try reflexivity.
  exact H.
Qed.
Print Assumptions normalizeOperator_composer_idem.

(* the model never needs a second normalisation: sem_op is invariant under it *)
Theorem sem_op_normalizeOperator : forall op,
  RM.sem_op (G.normalizeOperator op) = RM.sem_op op.
Proof.
  intros op. rewrite !tie_composer_normalizeOperator, normalizeOperator_composer_idem. reflexivity.
Qed.
Print Assumptions sem_op_normalizeOperator.

(* ---- on the operator list of parseSingleConstraint (generated: Gen/Operators.v) ---- *)
Theorem normalizeOperator_composer_table :
  map G.normalizeOperator RM.composer_ops = [$">="; $"<="; $"!="; $"!="; $"="; $">"; $"<"; $"="].
Proof. reflexivity. Qed.
Print Assumptions normalizeOperator_composer_table.

(* the stored operator is the canonical spelling of the model's comparator, and never CNever *)
Theorem normalizeOperator_composer_canonical : forall op,
  In op RM.composer_ops ->
  G.normalizeOperator op = cop_text (RM.sem_op op) /\ RM.sem_op op <> CNever.
Proof.
  intros op H. cbv [RM.composer_ops In] in H.
  repeat (destruct H as [H|H]; [subst op; split; [reflexivity | discriminate]|]).
  contradiction.
Qed.
Print Assumptions normalizeOperator_composer_canonical.

(* the switch of matches reads a canonical spelling back as the comparator *)
Theorem sem6_cop_text : forall c, sem6 (cop_text c) = c.
Proof. intros []; reflexivity. Qed.
Print Assumptions sem6_cop_text.
