(* Tie/Extra/Maven.v — the generated translation of maven's normalizeQualifier
   (Gen/Code/Maven.v, version.go:273) against the model Eco/Maven/Version.v.

   WHY IT WAS UNTIED.  normalizeQualifier is live code: parseVersionString (version.go:220) calls
   it on every non-empty token.  But parseVersionString is outside ALL translated fragments (the
   field element.value has type interface{}), so it is the oracle [parseVersionString] of
   Tie/Parse/Maven.v about which nothing is assumed, and no generated caller of normalizeQualifier
   exists.  The model has the function under the same name (Eco.Maven.Version.normalizeQualifier,
   used by elem_of); nobody had stated the (syntactically immediate) equality.

   THE TIE.  [tie_maven_normalizeQualifier]: the two functions are equal on EVERY byte string
   (both use to_lower, i.e. the statement is about strings.ToLower on bytes < 0x80 — the
   ASCII-only marker of the generated definition).  Corollaries transport the model's facts to
   the generated function: the step "normalize, then strconv.Atoi" of parseVersionString is the
   model's elem_of; the result is never one of the seven spellings the switch rewrites
   (the parser invariant wf_elem of VersionFacts); digit tokens are unchanged; the function is
   idempotent and case-insensitive. *)
From Coq Require Import ZArith List Bool Lia.
From Verif.Base Require Import Bytes GoNum GoOps Ord BytesFacts.
From Verif.Eco.Maven Require Version VersionFacts.
From Verif.Spec Require MavenCVFacts.
From Verif.Gen.Code Require Maven.
From Verif.Tie Require Import Tactics.
Import ListNotations.

Module G := Verif.Gen.Code.Maven.
Module M := Verif.Eco.Maven.Version.
Module MF := Verif.Eco.Maven.VersionFacts.

Theorem tie_maven_normalizeQualifier : forall s, G.normalizeQualifier s = M.normalizeQualifier s.
Proof. tie_solve. Qed.
Print Assumptions tie_maven_normalizeQualifier.

(* the body of the loop of parseVersionString: "normalized := normalizeQualifier(part);
   if num, ok := new(big.Int).SetString(normalized, 10); ok { number num } else { string normalized }"
   is the model's elem_of.  Explicit abstraction: Go's element{value interface{}; isNumber bool} is
   read as the model's elem, Num z for {z, true} and Str s for {s, false}; the generated record
   drops the field value (interface{}), see the header of Tie/Loops/Maven.v, so the statement is
   about the two values the Go code computes, not about the generated record. *)
Theorem tie_maven_elem_of : forall part,
  match M.big_of (G.normalizeQualifier part) with
  | Some z => M.Num z
  | None => M.Str (G.normalizeQualifier part)
  end = M.elem_of part.
Proof. intros part. rewrite tie_maven_normalizeQualifier. reflexivity. Qed.
Print Assumptions tie_maven_elem_of.

(* characterisation on all inputs *)
Theorem normalizeQualifier_maven_spec : forall s,
  let l := to_lower s in
  G.normalizeQualifier s =
    match lookup l [($"a", $"alpha"); ($"b", $"beta"); ($"m", $"milestone"); ($"cr", $"rc");
                    ($"ga", []); ($"final", []); ($"release", [])] with
    | Some r => r
    | None => l
    end.
Proof.
  intros s l. unfold G.normalizeQualifier. fold l. cbn [lookup].
  repeat (match goal with |- context [beq l ?k] => destruct (beq l k) eqn:?; cbn [orb] end;
          [reflexivity|]).
  reflexivity.
Qed.
Print Assumptions normalizeQualifier_maven_spec.

(* what it never returns: the parser invariant of Eco/Maven/VersionFacts.v (wf_elem) *)
Theorem normalizeQualifier_maven_wf : forall s,
  mem (G.normalizeQualifier s) MF.denormal = false.
Proof. intros s. rewrite tie_maven_normalizeQualifier. apply MF.normalize_wf. Qed.
Print Assumptions normalizeQualifier_maven_wf.

(* digit tokens pass unchanged *)
Theorem normalizeQualifier_maven_digits : forall d,
  nonempty_digits d = true -> G.normalizeQualifier d = d.
Proof. intros d H. rewrite tie_maven_normalizeQualifier. apply MF.normalize_digits. exact H. Qed.
Print Assumptions normalizeQualifier_maven_digits.

(* case-insensitive *)
Theorem normalizeQualifier_maven_lower : forall s,
  G.normalizeQualifier (to_lower s) = G.normalizeQualifier s.
Proof.
  intros s. unfold G.normalizeQualifier. rewrite Verif.Spec.MavenCVFacts.to_lower_idem. reflexivity.
Qed.
Print Assumptions normalizeQualifier_maven_lower.

(* idempotent *)
Theorem normalizeQualifier_maven_idem : forall s,
  G.normalizeQualifier (G.normalizeQualifier s) = G.normalizeQualifier s.
Proof.
  intros s. unfold G.normalizeQualifier at 2 3. cbv zeta.
  set (l := to_lower s).
  assert (Hl : to_lower l = l) by apply Verif.Spec.MavenCVFacts.to_lower_idem.
  destruct (beq l $"a") eqn:E1; [reflexivity|].
  destruct (beq l $"b") eqn:E2; [reflexivity|].
  destruct (beq l $"m") eqn:E3; [reflexivity|].
  destruct (beq l $"cr") eqn:E4; [reflexivity|].
  destruct (beq l $"ga" || beq l $"final" || beq l $"release") eqn:E5; [reflexivity|].
  unfold G.normalizeQualifier. cbv zeta. rewrite Hl, E1, E2, E3, E4, E5. reflexivity.
Qed.
Print Assumptions normalizeQualifier_maven_idem.
