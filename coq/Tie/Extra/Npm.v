(* Tie/Extra/Npm.v — the generated translation of npm's method Version.normalize
   (Gen/Parse/Npm.v Version_normalize, version.go:68) against the model Eco/Npm/Version.v.

   WHY IT WAS UNTIED.  normalize is live code: parseCaretRange and parseTildeRange print the
   parsed base of "^1.2" / "~1.2" with it as the text of their ">=" bound (range.go:163-200).
   It uses fmt.Sprintf, so only the third pass translates it (Gen/Parse/Npm.v; Gen/Code and
   Gen/Loops skip it).  Its two callers are generated too, but THEIR only caller
   parseSingleConstraint is outside every fragment (slices.ContainsFunc): in
   Tie/Parse/NpmRange.v, Tie/E2E/NpmParse.v and Tie/E2E/NpmRange.v it is the oracle [single]
   with the agreement hypothesis [single_agrees] ("its callees parseCaretRange / parseTildeRange
   / parseXRange / padPartial are generated but not tied here"), so no theorem reached normalize.
   The model has the function as Eco.Npm.Version.normalize on the parsed core.

   THE TIES.
   - [tie_npm_normalize]: Version_normalize v = M.normalize (abs v) for EVERY Go value v (abs =
     Tie/Npm.abs, which forgets only the original text); [tie_npm_normalize_conc] for the value
     NewVersion builds.  Pure function: nothing can panic.
   - and, so that the function is tied in the place where it is used, its callers:
     [tie_parse_npm_padPartial], [tie_parse_npm_parseCaretRange], [tie_parse_npm_parseTildeRange]:
     under the oracle agreements already used by Tie/Parse/Npm.v (the regexp engine computes
     ref_match) and for strings.ContainsAny (it computes the model's contains_any), the two
     desugaring functions never panic and return exactly the model's parse_caret / parse_tilde,
     read as Go constraints through Tie/E2E/NpmParse.lift.  These are two of the branches of the
     hypothesis [single_agrees]. *)
From Coq Require Import ZArith NArith List Ascii Bool Lia.
From Verif.Base Require Import Bytes GoNum GoOps Imp ImpFacts ImpErr BytesFacts.
From Verif.Eco Require Import RangeCore.
From Verif.Eco.Npm Require Version Range.
From Verif.Gen.Code Require Npm.
From Verif.Gen.Parse Require Npm.
From Verif.Tie Require Import Tactics.
From Verif.Tie Require Npm.
From Verif.Tie.Parse Require Npm.
From Verif.Tie.E2E Require NpmParse.
Import ListNotations.
Local Open Scope Z_scope.

Module G := Verif.Gen.Code.Npm.
Module P := Verif.Gen.Parse.Npm.
Module M := Verif.Eco.Npm.Version.
Module RM := Verif.Eco.Npm.Range.
Module TV := Verif.Tie.Npm.
Module PV := Verif.Tie.Parse.Npm.
Module PR := Verif.Tie.E2E.NpmParse.

(* ---------- normalize ---------- *)

Theorem tie_npm_normalize : forall v : G.Version,
  P.Version_normalize v = M.normalize (TV.abs v).
Proof.
  intros [ma mi pa pre bld orig].
  unfold P.Version_normalize, M.normalize, TV.abs.
  cbn [G.Version_major G.Version_minor G.Version_patch G.Version_prerelease G.Version_build
       M.major M.minor M.patch M.prerelease M.build].
  cbv zeta.
  destruct pre as [|p pre]; destruct bld as [|b bld]; cbn [beq negb];
    rewrite <- ?app_assoc, ?app_nil_r; reflexivity.
Qed.
Print Assumptions tie_npm_normalize.

(* on the value NewVersion builds for a parsed core (Tie/Parse/Npm.conc) *)
Corollary tie_npm_normalize_conc : forall s c, P.Version_normalize (PV.conc s c) = M.normalize c.
Proof. intros s c. rewrite tie_npm_normalize, PV.abs_conc. reflexivity. Qed.
Print Assumptions tie_npm_normalize_conc.

(* the original text plays no role *)
Corollary normalize_npm_original_irrelevant : forall v w : G.Version,
  TV.abs v = TV.abs w -> P.Version_normalize v = P.Version_normalize w.
Proof. intros v w H. rewrite !tie_npm_normalize, H. reflexivity. Qed.
Print Assumptions normalize_npm_original_irrelevant.

(* ---------- the callers: padPartial, parseCaretRange, parseTildeRange ---------- *)

Lemma Z_ltb_of_N a b : Z.ltb (Z.of_N a) (Z.of_N b) = N.ltb a b.
Proof. destruct (Z.ltb_spec (Z.of_N a) (Z.of_N b)), (N.ltb_spec a b); try reflexivity; lia. Qed.
Print Assumptions Z_ltb_of_N.

Lemma Z_eqb_of_N a b : Z.eqb (Z.of_N a) (Z.of_N b) = N.eqb a b.
Proof. destruct (Z.eqb_spec (Z.of_N a) (Z.of_N b)), (N.eqb_spec a b); try reflexivity; lia. Qed.
Print Assumptions Z_eqb_of_N.

(* the printed upper bounds: fmt.Sprintf("0.0.%d-0", ..) etc. against ver3_0 *)
Lemma ver3_0_00 c : RM.ver3_0 0 0 c = $"0.0." ++ dec_z c ++ $"-0".
Proof. reflexivity. Qed.
Print Assumptions ver3_0_00.
Lemma ver3_0_0 b : RM.ver3_0 0 b 0 = $"0." ++ dec_z b ++ $".0-0".
Proof. unfold RM.ver3_0. change (dec_z 0) with ($"0"). cbn [app list_ascii_of_string String.string_dec]. 
  rewrite <- ?app_assoc. reflexivity. Qed.
Print Assumptions ver3_0_0.
Lemma ver3_0_a a : RM.ver3_0 a 0 0 = dec_z a ++ $".0.0-0".
Proof. unfold RM.ver3_0. change (dec_z 0) with ($"0"). rewrite <- ?app_assoc. reflexivity. Qed.
Print Assumptions ver3_0_a.
Lemma ver3_0_ab a b : RM.ver3_0 a b 0 = dec_z a ++ $"." ++ dec_z b ++ $".0-0".
Proof. unfold RM.ver3_0. change (dec_z 0) with ($"0"). rewrite <- ?app_assoc. reflexivity. Qed.
Print Assumptions ver3_0_ab.

Section Callers.
  Variable cany : bytes -> bytes -> bool.                 (* strings.ContainsAny(s, chars) *)
  Variable find : bytes -> option (list bytes).           (* versionPattern.FindStringSubmatch *)
  (* ORACLE AGREEMENTS: the library function and the regexp engine compute what the model's
     scanners compute (the second is the hypothesis of Tie/Parse/Npm.tie_parse_npm_newversion) *)
  Hypothesis cany_agrees : forall s chars, cany s chars = RM.contains_any chars s.
  Hypothesis find_agrees : forall t, find t = PV.ref_match t.

  (* padPartial: the same text, the same count of written components (Go int against N) *)
  Theorem tie_parse_npm_padPartial : forall s,
    P.padPartial cany s = (fst (RM.pad_partial s), Z.of_N (snd (RM.pad_partial s))).
  Proof.
    intros s. unfold P.padPartial, RM.pad_partial. rewrite cany_agrees.
    destruct (RM.contains_any _ s); [reflexivity|]. cbv zeta.
    change (chr 46) with "."%char.
    destruct (count_c "."%char s) as [|[|n]]; [reflexivity|reflexivity|].
    replace (Z.of_nat (S (S n)) =? 0) with false by (symmetry; apply Z.eqb_neq; lia).
    replace (Z.of_nat (S (S n)) =? 1) with false by (symmetry; apply Z.eqb_neq; lia).
    reflexivity.
  Qed.

  Local Opaque M.parse_core M.normalize dec_z wrap64 trim_space RM.ver3_0.

  (* parseCaretRange: pad, NewVersion, then the three shapes of the upper bound *)
  Theorem tie_parse_npm_parseCaretRange : forall s,
    P.parseCaretRange cany find s = Done (PR.lift (RM.parse_caret s)).
  Proof.
    intros s. unfold P.parseCaretRange, RM.parse_caret. cbv zeta.
    rewrite tie_parse_npm_padPartial.
    destruct (RM.pad_partial s) as [padded written]. cbn [fst snd].
    rewrite (PV.tie_parse_npm_newversion find find_agrees). cbn [bind].
    unfold RM.own_parse.
    destruct (M.parse_core (trim_space padded)) as [c|]; cbn [option_map]; [|reflexivity].
    rewrite tie_npm_normalize_conc.
    destruct c as [ma mi pa pre bld].
    cbn [PV.conc G.Version_major G.Version_minor G.Version_patch M.major M.minor M.patch].
    change 1 with (Z.of_N 1) at 1. change 2 with (Z.of_N 2) at 1. rewrite !Z_ltb_of_N.
    unfold RM.succ64.
    destruct ((ma =? 0) && (1 <? written)%N).
    - destruct ((mi =? 0) && (2 <? written)%N).
      + rewrite ver3_0_00. reflexivity.
      + rewrite ver3_0_0. reflexivity.
    - rewrite ver3_0_a. reflexivity.
  Qed.

  (* parseTildeRange *)
  Theorem tie_parse_npm_parseTildeRange : forall s,
    P.parseTildeRange cany find s = Done (PR.lift (RM.parse_tilde s)).
  Proof.
    intros s. unfold P.parseTildeRange, RM.parse_tilde. cbv zeta.
    rewrite tie_parse_npm_padPartial.
    destruct (RM.pad_partial s) as [padded written]. cbn [fst snd].
    rewrite (PV.tie_parse_npm_newversion find find_agrees). cbn [bind].
    unfold RM.own_parse.
    destruct (M.parse_core (trim_space padded)) as [c|]; cbn [option_map]; [|reflexivity].
    rewrite tie_npm_normalize_conc.
    destruct c as [ma mi pa pre bld].
    cbn [PV.conc G.Version_major G.Version_minor G.Version_patch M.major M.minor M.patch].
    change 1 with (Z.of_N 1) at 1. rewrite Z_eqb_of_N.
    unfold RM.succ64.
    destruct (written =? 1)%N.
    - rewrite ver3_0_a. reflexivity.
    - rewrite ver3_0_ab. reflexivity.
  Qed.

  (* C06 for the two: no panic, no fuel needed (no loop) *)
  Corollary parseCaretRange_npm_no_panic : forall s, exists r, P.parseCaretRange cany find s = Done r.
  Proof. intros s. eexists. apply tie_parse_npm_parseCaretRange. Qed.
  Corollary parseTildeRange_npm_no_panic : forall s, exists r, P.parseTildeRange cany find s = Done r.
  Proof. intros s. eexists. apply tie_parse_npm_parseTildeRange. Qed.

  (* the text of the lower bound IS normalize of the parsed base: where Version_normalize ends up *)
  Corollary parseCaretRange_npm_lower : forall s cs,
    P.parseCaretRange cany find s = Done (Some cs) ->
    exists c up, RM.own_parse (fst (RM.pad_partial s)) = Some c /\
                 cs =[G.mk_constraint $">=" (M.normalize c); G.mk_constraint $"<" up].
  Proof.
    intros s cs H. rewrite tie_parse_npm_parseCaretRange in H.
    unfold RM.parse_caret in H. destruct (RM.pad_partial s) as [padded written]. cbn [fst].
    destruct (RM.own_parse padded) as [c|]; [|discriminate H].
    exists c.
    destruct (_ && _) in H; [destruct (_ && _) in H|];
      cbn [PR.lift option_map map PR.cc fst snd] in H; injection H as <-; eexists; split; reflexivity.
  Qed.
End Callers.
Print Assumptions tie_parse_npm_padPartial.
Print Assumptions tie_parse_npm_parseCaretRange.
Print Assumptions tie_parse_npm_parseTildeRange.
Print Assumptions parseCaretRange_npm_no_panic.
Print Assumptions parseTildeRange_npm_no_panic.
Print Assumptions parseCaretRange_npm_lower.
