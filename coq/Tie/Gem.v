(* Tie/Gem.v — the generated translation of pkg/ecosystem/gem (Gen/Code/Gem.v) against the model
   (Eco/Gem), version level.

   Version.Compare (splitNumericAndPrerelease returns two results; compareSegmentArrays is a
   loop) is outside the translated fragment and has no tie: only its loop-free helpers
   compareInt and compareSegments, and String, are tied.

   Representation: a Go segment is the struct {value, isNumeric, numValue}; the model's [seg] is
   the sum SNum numValue | SStr value.  [abs_seg] chooses by isNumeric, so the tie needs no
   well-formedness hypothesis (compareSegments reads numValue only when isNumeric holds and
   value only when it does not). *)
From Coq Require Import ZArith List Bool Lia.
From Verif.Base Require Import Bytes GoNum GoOps Ord.
From Verif.Eco Require Import VLayer.
From Verif.Eco.Gem Require Version.
From Verif.Gen.Code Require Gem.
From Verif.Tie Require Import Tactics.
Import ListNotations.

Module G := Verif.Gen.Code.Gem.
Module M := Verif.Eco.Gem.Version.

Definition abs_seg (s : G.segment) : M.seg :=
  if G.segment_isNumeric s then M.SNum (G.segment_numValue s) else M.SStr (G.segment_value s).

Definition abs (v : G.Version) : M.core := map abs_seg (G.Version_segments v).

(* the version value of the model: the core and the text String() returns *)
Definition abs_ver (v : G.Version) : M.ver :=
  {| v_core := abs v; v_orig := G.Version_original v |}.

Theorem tie_gem_compareInt : forall a b, G.compareInt a b = Z_of_cmp (Z.compare a b).
Proof. tie_solve. Qed.
Print Assumptions tie_gem_compareInt.

Theorem tie_gem_Version_String : forall v, G.Version_String v = M.show (abs_ver v).
Proof. tie_solve. Qed.
Print Assumptions tie_gem_Version_String.

Theorem tie_gem_compareSegments : forall a b,
  G.compareSegments a b = Z_of_cmp (M.seg_cmp (abs_seg a) (abs_seg b)).
Proof. tie_solve. Qed.
Print Assumptions tie_gem_compareSegments.
