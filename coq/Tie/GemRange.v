(* Tie/GemRange.v — the generated translation of pkg/ecosystem/gem (Gen/Code/Gem.v) against the
   model (Eco/Gem/Range.v), range level.  satisfiesConstraint calls NewVersion (a result pair)
   and is outside the translated fragment: Contains is tied generically in it. *)
From Coq Require Import ZArith List Bool Lia.
From Verif.Base Require Import Bytes GoNum GoOps Ord.
From Verif.Eco Require Import RangeCore.
From Verif.Eco.Gem Require Version Range.
From Verif.Gen.Code Require Gem.
From Verif.Tie Require Import Tactics.
From Verif.Tie Require Gem.
Import ListNotations.

Module G := Verif.Gen.Code.Gem.
Module M := Verif.Eco.Gem.Version.
Module R := Verif.Eco.Gem.Range.
Module T := Verif.Tie.Gem.

(* the constraint and range records, field by field *)
Definition abs_c (c : G.constraint) : RangeCore.constraint :=
  (G.constraint_operator c, G.constraint_version c).
Definition abs_r (r : G.VersionRange) : R.range :=
  {| r_cs := map abs_c (G.VersionRange_constraints r); r_orig := G.VersionRange_original r |}.

Theorem tie_gem_VersionRange_String : forall r, G.VersionRange_String r = R.show (abs_r r).
Proof. tie_solve. Qed.
Print Assumptions tie_gem_VersionRange_String.

(* Contains: the conjunction of satisfiesConstraint over the constraints.  The model's
   [sat_constraint] works on the text the probed version was parsed from (satisfiesPessimistic
   re-reads segments through the model's parser) and on the oracles vok / vcmp for NewVersion /
   Compare; [txt] is that text.  The Ecosystem argument is an empty struct. *)
Section Contains.
  Variable vok : bytes -> bool.
  Variable vcmp : bytes -> bytes -> comparison.
  Variable txt : G.Version -> bytes.
  Variable satisfiesConstraint : G.Version -> G.constraint -> G.Ecosystem -> bool.
  Hypothesis satisfiesConstraint_model : forall v c e,
    satisfiesConstraint v c e = R.sat_constraint vok vcmp (txt v) (abs_c c).

  Theorem tie_gem_VersionRange_Contains : forall r v,
    G.VersionRange_Contains satisfiesConstraint r v = R.contains vok vcmp (abs_r r) (txt v).
  Proof.
    intros r v. unfold G.VersionRange_Contains, R.contains, abs_r. cbn [r_cs].
    apply forallb_map_eq. intros c. apply satisfiesConstraint_model.
  Qed.
End Contains.
Print Assumptions tie_gem_VersionRange_Contains.
