(* Tie/Gentoo.v — VERSION level: the generated translation of pkg/ecosystem/gentoo
   (Gen/Code/Gentoo.v) against the model (Eco/Gentoo/Version).  Version.Compare has a loop and is outside
   the translated fragment: only its helpers and String are tied here.  The range-level ties are in
   Tie/GentooRange.v (which depends on this file, never the other way round). *)
From Coq Require Import ZArith List Bool Lia.
From Verif.Base Require Import Bytes GoNum GoOps Ord.
From Verif.Eco.Gentoo Require Version.
From Verif.Gen.Code Require Gentoo.
From Verif.Tie Require Import Tactics.
Import ListNotations.

Module G := Verif.Gen.Code.Gentoo.
Module M := Verif.Eco.Gentoo.Version.

Definition abs (v : G.Version) : M.core :=
  {| M.numbers := G.Version_numbers v; M.letter := G.Version_letter v; M.suffix := G.Version_suffix v;
     M.suffixNum := G.Version_suffixNum v; M.revision := G.Version_revision v |}.

Theorem tie_gentoo_compareInt : forall a b, G.compareInt a b = Z_of_cmp (Z.compare a b).
Proof. tie_solve. Qed.
Print Assumptions tie_gentoo_compareInt.

Theorem tie_gentoo_string : forall v, G.Version_String v = G.Version_original v.
Proof. tie_solve. Qed.
Print Assumptions tie_gentoo_string.
