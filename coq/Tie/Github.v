(* Tie/Github.v — VERSION level: the generated translation of pkg/ecosystem/github
   (Gen/Code/Github.v) equals the hand-written model (Eco/Github/Version).  The range-level ties are
   in Tie/GithubRange.v (which depends on this file, never the other way round). *)
From Coq Require Import ZArith List Bool Lia.
From Verif.Base Require Import Bytes GoNum GoOps Ord.
From Verif.Eco.Github Require Version.
From Verif.Gen.Code Require Github.
From Verif.Tie Require Import Tactics.
Import ListNotations.

Module G := Verif.Gen.Code.Github.
Module M := Verif.Eco.Github.Version.

(* abstraction: the Go struct without the original text *)
Definition abs (v : G.Version) : M.core :=
  {| M.c_prefix := G.Version_prefix v; M.c_major := G.Version_major v; M.c_minor := G.Version_minor v;
     M.c_patch := G.Version_patch v; M.c_qual := G.Version_qualifier v; M.c_num := G.Version_number v;
     M.c_date := G.Version_isDateBased v |}.

Theorem tie_github_compareInt : forall a b, G.compareInt a b = Z_of_cmp (Z.compare a b).
Proof. tie_solve. Qed.
Print Assumptions tie_github_compareInt.

Theorem tie_github_getQualifierPrecedence : forall q, G.getQualifierPrecedence q = M.qual_prec q.
Proof. tie_solve. Qed.
Print Assumptions tie_github_getQualifierPrecedence.

Theorem tie_github_compareQualifiers : forall q1 n1 q2 n2,
  G.compareQualifiers q1 n1 q2 n2 = Z_of_cmp (M.cmp_qual q1 n1 q2 n2).
Proof. tie_solve. Qed.
Print Assumptions tie_github_compareQualifiers.

Theorem tie_github_compare : forall a b, G.Version_Compare a b = Z_of_cmp (M.cmp_core (abs a) (abs b)).
Proof. tie_solve. Qed.
Print Assumptions tie_github_compare.

Theorem tie_github_string : forall v, G.Version_String v = G.Version_original v.
Proof. tie_solve. Qed.
Print Assumptions tie_github_string.
