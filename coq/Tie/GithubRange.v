(* Tie/GithubRange.v — RANGE level: the generated translation of pkg/ecosystem/github
   (Gen/Code/Github.v) equals the hand-written model (Eco/Github/Range).  Reuses [abs] and
   tie_github_compare of Tie/Github.v. *)
From Coq Require Import ZArith List Bool Lia.
From Verif.Base Require Import Bytes GoNum GoOps Ord.
From Verif.Eco Require Import RangeCore.
From Verif.Eco.Github Require Version Range.
From Verif.Gen.Code Require Github.
From Verif.Tie Require Import Tactics.
From Verif.Tie Require Import Github.
Import ListNotations.

(* range: the operator switch is the model's sem5/sat on the sign of Compare (any Compare: it
   stays folded) *)
Local Opaque G.Version_Compare.
Theorem tie_github_matches : forall c v,
  G.constraint_matches c v =
  sat (rc_sem Range.cfg (G.constraint_operator c)) (cmp_of_Z (G.Version_Compare v (G.constraint_version c))).
Proof. tie_solve. Qed.
Print Assumptions tie_github_matches.

(* ... hence the model's comparison of the abstracted versions *)
Corollary tie_github_matches_model : forall c v,
  G.constraint_matches c v =
  sat (rc_sem Range.cfg (G.constraint_operator c)) (M.cmp_core (abs v) (abs (G.constraint_version c))).
Proof. intros. rewrite tie_github_matches, tie_github_compare, cmp_of_Z_of_cmp. reflexivity. Qed.
Print Assumptions tie_github_matches_model.

(* Contains: conjunction over the constraints, as RangeCore.contains *)
Theorem tie_github_contains : forall r v,
  G.VersionRange_Contains r v =
  forallb (fun c => sat (rc_sem Range.cfg (G.constraint_operator c)) (M.cmp_core (abs v) (abs (G.constraint_version c))))
          (G.VersionRange_constraints r).
Proof.
  intros. unfold G.VersionRange_Contains. apply forallb_ext_in. intros c _. apply tie_github_matches_model.
Qed.
Print Assumptions tie_github_contains.
