(* Tie/Golang.v — the generated translation of pkg/ecosystem/golang (Gen/Code/Golang.v) against
   the model (Eco/Golang), version level.  semverPrerelease (tests v.pseudo == nil) and
   comparePrerelease (strings.Split + loop) are outside the translated fragment: Version.Compare
   is tied generically in both.

   Representation: the model's [pre] is the text Compare hands to comparePrerelease, i.e. the
   RESULT of v.semverPrerelease() (the prerelease field for an ordinary version, the text re-read
   from the original for a pseudo-version), not the struct field.  [abs] is therefore a function
   of the Section variable semverPrerelease; no hypothesis about it is needed.  The fields
   prerelease, build and pseudo of the struct have no counterpart in the model's core. *)
From Coq Require Import ZArith List Bool Lia.
From Verif.Base Require Import Bytes GoNum GoOps Ord.
From Verif.Eco Require Import VLayer.
From Verif.Eco.Golang Require Version.
From Verif.Gen.Code Require Golang.
From Verif.Tie Require Import Tactics.
Import ListNotations.

Module G := Verif.Gen.Code.Golang.
Module M := Verif.Eco.Golang.Version.

Definition abs (semverPrerelease : G.Version -> bytes) (v : G.Version) : M.core :=
  {| M.major := G.Version_major v; M.minor := G.Version_minor v; M.patch := G.Version_patch v;
     M.pre := semverPrerelease v |}.

(* the version value of the model: the core and the text String() returns *)
Definition abs_ver (semverPrerelease : G.Version -> bytes) (v : G.Version) : M.ver :=
  {| v_core := abs semverPrerelease v; v_orig := G.Version_original v |}.

Theorem tie_golang_compareInt : forall a b, G.compareInt a b = Z_of_cmp (Z.compare a b).
Proof. tie_solve. Qed.
Print Assumptions tie_golang_compareInt.

Theorem tie_golang_Version_String : forall sp v, G.Version_String v = M.show (abs_ver sp v).
Proof. tie_solve. Qed.
Print Assumptions tie_golang_Version_String.

(* the model's pre-release comparison stays folded: it is the specification of the Section
   variable comparePrerelease *)
Local Opaque M.compare_prerelease.

Section Compare.
  Variable semverPrerelease : G.Version -> bytes.
  Variable comparePrerelease : bytes -> bytes -> Z.
  Hypothesis comparePrerelease_model : forall p q,
    comparePrerelease p q = Z_of_cmp (M.compare_prerelease p q).

  Theorem tie_golang_Version_Compare : forall a b,
    G.Version_Compare semverPrerelease comparePrerelease a b =
    Z_of_cmp (M.cmp_core (abs semverPrerelease a) (abs semverPrerelease b)).
  Proof. tie_solve_with comparePrerelease_model. Qed.
End Compare.
Print Assumptions tie_golang_Version_Compare.
