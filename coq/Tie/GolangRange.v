(* Tie/GolangRange.v — the generated translation of pkg/ecosystem/golang (Gen/Code/Golang.v)
   against the model (Eco/Golang/Range.v, an instance of RangeCore), range level.
   constraint.matches calls NewVersion (a result pair) and is outside the translated fragment:
   Contains is tied generically in it. *)
From Coq Require Import ZArith List Bool Lia.
From Verif.Base Require Import Bytes GoNum GoOps Ord.
From Verif.Eco Require Import RangeCore.
From Verif.Eco.Golang Require Version Range.
From Verif.Gen.Code Require Golang.
From Verif.Tie Require Import Tactics.
From Verif.Tie Require Golang.
Import ListNotations.

Module G := Verif.Gen.Code.Golang.
Module M := Verif.Eco.Golang.Version.
Module R := Verif.Eco.Golang.Range.
Module T := Verif.Tie.Golang.

(* the constraint and range records, field by field *)
Definition abs_c (c : G.constraint) : RangeCore.constraint :=
  (G.constraint_operator c, G.constraint_version c).
Definition abs_r (r : G.VersionRange) : RangeCore.range :=
  {| r_cs := map abs_c (G.VersionRange_constraints r); r_orig := G.VersionRange_original r |}.

Theorem tie_golang_VersionRange_String : forall r, G.VersionRange_String r = RangeCore.show (abs_r r).
Proof. tie_solve. Qed.
Print Assumptions tie_golang_VersionRange_String.

(* Contains: the conjunction of constraint.matches over the constraints; the specification of
   the Section variable constraint_matches is RangeCore.sat_constraint (bound parsed by the
   model's NewVersion, then the switch golang_sem on the model's Compare) *)
Section Contains.
  Variable semverPrerelease : G.Version -> bytes.
  Variable constraint_matches : G.constraint -> G.Version -> bool.
  Hypothesis constraint_matches_model : forall c v,
    constraint_matches c v =
    sat_constraint M.ver M.parse M.cmp R.cfg (T.abs_ver semverPrerelease v) (abs_c c).

  Theorem tie_golang_VersionRange_Contains : forall r v,
    G.VersionRange_Contains constraint_matches r v =
    RangeCore.contains M.ver M.parse M.cmp R.cfg (abs_r r) (T.abs_ver semverPrerelease v).
  Proof.
    intros r v. unfold G.VersionRange_Contains, RangeCore.contains, abs_r. cbn [r_cs].
    apply forallb_map_eq. intros c. apply constraint_matches_model.
  Qed.
End Contains.
Print Assumptions tie_golang_VersionRange_Contains.
