(* Tie/Hex.v — the generated translation of pkg/ecosystem/hex (Gen/Code/Hex.v) against the model
   (Eco/Hex).  comparePreRelease has a loop and is outside the fragment: Version.Compare is tied
   generically in it. *)
From Coq Require Import ZArith List Bool Lia.
From Verif.Base Require Import Bytes GoNum GoOps Ord.
From Verif.Eco Require Import RangeCore.
From Verif.Eco.Hex Require Version Range.
From Verif.Gen.Code Require Hex.
From Verif.Tie Require Import Tactics.
Import ListNotations.

Module G := Verif.Gen.Code.Hex.
Module M := Verif.Eco.Hex.Version.

Definition abs (v : G.Version) : M.core :=
  {| M.major := G.Version_major v; M.minor := G.Version_minor v; M.patch := G.Version_patch v;
     M.pre := G.Version_preRelease v; M.build := G.Version_buildMetadata v |}.

Theorem tie_hex_compareInt : forall a b, G.compareInt a b = Z_of_cmp (Z.compare a b).
Proof. tie_solve. Qed.
Print Assumptions tie_hex_compareInt.

Theorem tie_hex_string : forall v, G.Version_String v = G.Version_original v.
Proof. tie_solve. Qed.
Print Assumptions tie_hex_string.

(* the model's pre-release comparison stays folded: it is the specification of the Section
   variable comparePreRelease *)
Local Opaque M.cmp_pre.

Section Compare.
  Variable comparePreRelease : list bytes -> list bytes -> Z.
  Hypothesis comparePreRelease_model : forall p q, comparePreRelease p q = Z_of_cmp (M.cmp_pre p q).

  Theorem tie_hex_compare : forall a b,
    G.Version_Compare comparePreRelease a b = Z_of_cmp (M.cmp_core (abs a) (abs b)).
  Proof. tie_solve_with comparePreRelease_model. Qed.

  (* range: the operator switch, for any Compare (it stays folded) *)
  Local Opaque G.Version_Compare.
  Theorem tie_hex_matches : forall c v,
    G.constraint_matches comparePreRelease c v =
    sat (sem5 (G.constraint_operator c)) (cmp_of_Z (G.Version_Compare comparePreRelease v (G.constraint_version c))).
  Proof. tie_solve. Qed.

  Corollary tie_hex_matches_model : forall c v,
    G.constraint_matches comparePreRelease c v =
    sat (sem5 (G.constraint_operator c)) (M.cmp_core (abs v) (abs (G.constraint_version c))).
  Proof. intros. rewrite tie_hex_matches, tie_hex_compare, cmp_of_Z_of_cmp. reflexivity. Qed.

  Theorem tie_hex_contains : forall r v,
    G.VersionRange_Contains comparePreRelease r v =
    forallb (fun c => sat (sem5 (G.constraint_operator c)) (M.cmp_core (abs v) (abs (G.constraint_version c))))
            (G.VersionRange_constraints r).
  Proof.
    intros. unfold G.VersionRange_Contains. apply forallb_ext_in. intros c _. apply tie_hex_matches_model.
  Qed.
End Compare.
Print Assumptions tie_hex_compare.
Print Assumptions tie_hex_matches.
Print Assumptions tie_hex_matches_model.
Print Assumptions tie_hex_contains.
