(* Tie/Hex.v — VERSION level: the generated translation of pkg/ecosystem/hex
   (Gen/Code/Hex.v) against the model (Eco/Hex/Version).  comparePreRelease (loop) is outside the
   translated fragment: Compare is tied generically in it.  The range-level ties are in
   Tie/HexRange.v (which depends on this file, never the other way round). *)
From Coq Require Import ZArith List Bool Lia.
From Verif.Base Require Import Bytes GoNum GoOps Ord.
From Verif.Eco.Hex Require Version.
From Verif.Gen.Code Require Hex.
From Verif.Tie Require Import Tactics.
Import ListNotations.

Module G := Verif.Gen.Code.Hex.
Module M := Verif.Eco.Hex.Version.

Definition abs (v : G.Version) : M.core :=
  {| M.major := G.Version_major v; M.minor := G.Version_minor v; M.patch := G.Version_patch v;
     M.pre := G.Version_preRelease v; M.build := G.Version_buildMetadata v |}.

Theorem tie_hex_compareInt : forall a b, G.compareInt a b = Z_of_cmp (Z.compare a b).
Proof. tie_solve. Qed.
Print Assumptions tie_hex_compareInt.

Theorem tie_hex_string : forall v, G.Version_String v = G.Version_original v.
Proof. tie_solve. Qed.
Print Assumptions tie_hex_string.

(* the model's pre-release comparison stays folded: it is the specification of the Section
   variable comparePreRelease *)
Local Opaque M.cmp_pre.

Section Compare.
  Variable comparePreRelease : list bytes -> list bytes -> Z.
  Hypothesis comparePreRelease_model : forall p q, comparePreRelease p q = Z_of_cmp (M.cmp_pre p q).

  Theorem tie_hex_compare : forall a b,
    G.Version_Compare comparePreRelease a b = Z_of_cmp (M.cmp_core (abs a) (abs b)).
  Proof. tie_solve_with comparePreRelease_model. Qed.
End Compare.
Print Assumptions tie_hex_compare.
