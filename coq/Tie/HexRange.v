(* Tie/HexRange.v — RANGE level: the generated translation of pkg/ecosystem/hex
   (Gen/Code/Hex.v) against the range model of Eco/Hex.  The operator switch and Contains are tied
   generically in comparePreRelease (outside the translated fragment).  Reuses [abs] and
   tie_hex_compare of Tie/Hex.v. *)
From Coq Require Import ZArith List Bool Lia.
From Verif.Base Require Import Bytes GoNum GoOps Ord.
From Verif.Eco Require Import RangeCore.
From Verif.Eco.Hex Require Version Range.
From Verif.Gen.Code Require Hex.
From Verif.Tie Require Import Tactics.
From Verif.Tie Require Import Hex.
Import ListNotations.

(* the model's pre-release comparison stays folded: it is the specification of the Section
   variable comparePreRelease *)
Local Opaque M.cmp_pre.

Section Compare.
  Variable comparePreRelease : list bytes -> list bytes -> Z.
  Hypothesis comparePreRelease_model : forall p q, comparePreRelease p q = Z_of_cmp (M.cmp_pre p q).

  (* range: the operator switch, for any Compare (it stays folded) *)
  Local Opaque G.Version_Compare.
  Theorem tie_hex_matches : forall c v,
    G.constraint_matches comparePreRelease c v =
    sat (sem5 (G.constraint_operator c)) (cmp_of_Z (G.Version_Compare comparePreRelease v (G.constraint_version c))).
  Proof. tie_solve. Qed.

  Corollary tie_hex_matches_model : forall c v,
    G.constraint_matches comparePreRelease c v =
    sat (sem5 (G.constraint_operator c)) (M.cmp_core (abs v) (abs (G.constraint_version c))).
  Proof. intros. rewrite tie_hex_matches, (tie_hex_compare _ comparePreRelease_model), cmp_of_Z_of_cmp. reflexivity. Qed.

  Theorem tie_hex_contains : forall r v,
    G.VersionRange_Contains comparePreRelease r v =
    forallb (fun c => sat (sem5 (G.constraint_operator c)) (M.cmp_core (abs v) (abs (G.constraint_version c))))
            (G.VersionRange_constraints r).
  Proof.
    intros. unfold G.VersionRange_Contains. apply forallb_ext_in. intros c _. apply tie_hex_matches_model.
  Qed.
End Compare.
Print Assumptions tie_hex_matches.
Print Assumptions tie_hex_matches_model.
Print Assumptions tie_hex_contains.
