(* Tie/Loops/All.v — the theorems about the generated loop functions (Gen/Loops/<Eco>.v):
   no panic, termination with linear fuel, tie to the model. *)
From Verif.Tie.Loops Require Common Scan Cran Semver Debian.
From Verif.Tie.Loops Require CranRange.
From Verif.Tie.Loops Require ScanMore Rpm RpmRange.
From Verif.Tie.Loops Require Alpm AlpmRange Gem.
From Verif.Tie.Loops Require PadIdx Pypi Alpine Maven.
From Verif.Tie.Loops Require Idents Npm Nuget Hex Cargo Golang CargoRange.
From Verif.Tie.Loops Require Conan ConanRange.
From Verif.Tie.Loops Require DebianRange HexRange NugetRange GolangRange PypiRange.
