(* Tie/Loops/Alpine.v — the generated translations of alpine's hasLeadingZero (index expression),
   compareNumericArraysNumeric and compareSuffixArrays (index loops over two slices, the shorter
   one padded; Gen/Loops/Alpine.v) do not panic, terminate with fuel linear in the input lengths,
   and return the model's answer (Eco/Alpine/Version.v: has_leading_zero, cmp_numeric,
   cmp_suffixes).

   Representation: the generated code works on the Go records (Gen/Code/Alpine.v numericComponent,
   suffix), the model on its own records; the bridge is Tie/Alpine.v abs_numcomp / abs_suffix,
   mapped over the slices.

   compareSuffixes (two-result map lookups) is outside both translated fragments: the generated
   compareSuffixArrays takes it as an argument, and its theorem assumes that this argument is
   the model's cmp_suffix.  Version.Compare is not translated (numeric == nil), so Tie/Alpine.v
   has no Section hypothesis to discharge. *)
From Coq Require Import ZArith List Bool Lia Ascii.
From Verif.Base Require Import Bytes GoNum GoOps Ord BytesFacts Imp ImpFacts.
From Verif.Eco.Alpine Require Version.
From Verif.Gen.Code Require Alpine.
From Verif.Gen.Loops Require Alpine.
From Verif.Tie Require Import Tactics.
From Verif.Tie Require Alpine.
From Verif.Tie.Loops Require Import Common PadIdx.
Import ListNotations.
Local Open Scope Z_scope.

Module G := Verif.Gen.Code.Alpine.
Module L := Verif.Gen.Loops.Alpine.
Module M := Verif.Eco.Alpine.Version.
Module T := Verif.Tie.Alpine.

(* ---------- hasLeadingZero: len(s) > 1 && s[0] == '0' ---------- *)

(* no fuel (no loop), no length hypothesis (the only index is the constant 0) *)
Theorem tie_loops_alpine_hasLeadingZero : forall s : bytes,
  L.hasLeadingZero s = Done (M.has_leading_zero s).
Proof.
  intros s. unfold L.hasLeadingZero, M.has_leading_zero.
  destruct s as [|c [|c' s]]; [reflexivity | reflexivity |].
  destruct (Z.ltb_spec 1 (Z.of_nat (length (c :: c' :: s)))) as [H|H].
  - reflexivity.
  - cbn [length] in H. lia.
Qed.
Print Assumptions tie_loops_alpine_hasLeadingZero.

Corollary loops_alpine_hasLeadingZero_no_panic : forall s, exists r, L.hasLeadingZero s = Done r.
Proof. intros s. eexists. apply tie_loops_alpine_hasLeadingZero. Qed.
Print Assumptions loops_alpine_hasLeadingZero_no_panic.

Definition hasLeadingZero_total (s : bytes) : bool := total false (L.hasLeadingZero s).

Lemma hasLeadingZero_total_model : forall s, hasLeadingZero_total s = M.has_leading_zero s.
Proof. intros s. unfold hasLeadingZero_total. rewrite tie_loops_alpine_hasLeadingZero. reflexivity. Qed.
Print Assumptions hasLeadingZero_total_model.

(* ---------- compareNumericArraysNumeric ---------- *)

(* Go's padding component {0, "0"} *)
Definition gpad_numcomp : G.numericComponent := G.mk_numericComponent 0 $"0".

Lemma abs_gpad_numcomp : T.abs_numcomp gpad_numcomp = M.pad_numcomp.
Proof. reflexivity. Qed.

Lemma cmp_numcomp_pad : M.cmp_numcomp M.pad_numcomp M.pad_numcomp = Eq.
Proof. reflexivity. Qed.

(* the comparison the loop body makes at position i: by value at 0, cmp_numcomp elsewhere *)
Definition cmp_at (i : Z) (x y : M.numcomp) : comparison :=
  if Z.eqb i 0 then Z.compare (M.nc_value x) (M.nc_value y) else M.cmp_numcomp x y.

(* the model from position n on *)
Definition numeric_from (n : nat) (A B : list M.numcomp) : comparison :=
  match n with
  | O => M.cmp_numeric A B
  | S _ => lex_pad M.pad_numcomp M.cmp_numcomp (skipn n A) (skipn n B)
  end.

Lemma hd_nth {A} (l : list A) d : hd d l = nth 0 l d.
Proof. destruct l; reflexivity. Qed.

Lemma tl_skipn {A} (l : list A) : tl l = skipn 1 l.
Proof. destruct l; reflexivity. Qed.

Lemma numeric_from_step (i : Z) (A B : list M.numcomp) : 0 <= i ->
  numeric_from (Z.to_nat i) A B =
  thenc (cmp_at i (nth (Z.to_nat i) A M.pad_numcomp) (nth (Z.to_nat i) B M.pad_numcomp))
        (numeric_from (S (Z.to_nat i)) A B).
Proof.
  intros Hi. unfold cmp_at. destruct (Z.eqb_spec i 0) as [E|N].
  - subst i. cbn [Z.to_nat numeric_from]. unfold M.cmp_numeric.
    rewrite !hd_nth, !tl_skipn. reflexivity.
  - destruct (Z.to_nat i) as [|n] eqn:En; [lia|]. cbn [numeric_from].
    apply lex_pad_skipn_step. exact cmp_numcomp_pad.
Qed.

Lemma numeric_from_exhausted (n : nat) (A B : list M.numcomp) :
  (length A <= n)%nat -> (length B <= n)%nat -> numeric_from n A B = Eq.
Proof.
  intros La Lb. destruct n as [|n]; cbn [numeric_from].
  - destruct A; [|cbn [length] in La; lia]. destruct B; [|cbn [length] in Lb; lia]. reflexivity.
  - apply lex_pad_exhausted; assumption.
Qed.

Lemma Z_of_cmp_eq0 c : Z.eqb (Z_of_cmp c) 0 = match c with Eq => true | _ => false end.
Proof. destruct c; reflexivity. Qed.

(* no panic, linear fuel (max of the two lengths), and the model's answer *)
Theorem tie_loops_alpine_compareNumericArraysNumeric :
  forall (a b : list G.numericComponent) (fuel : nat),
  fits a -> fits b -> (Nat.max (length a) (length b) < fuel)%nat ->
  L.compareNumericArraysNumeric fuel a b =
  Done (Z_of_cmp (M.cmp_numeric (map T.abs_numcomp a) (map T.abs_numcomp b))).
Proof.
  intros a b fuel Fa Fb Hfuel. unfold L.compareNumericArraysNumeric.
  cbv zeta.
  set (n := Z.max (Z.of_nat (length a)) (Z.of_nat (length b))).
  assert (En : n = Z.of_nat (Nat.max (length a) (length b))) by (subst n; lia).
  clearbody n.
  set (A := map T.abs_numcomp a). set (B := map T.abs_numcomp b).
  set (body := fun i : Z => _).
  pose (Inv := fun i : Z => 0 <= i <= n /\ M.cmp_numeric A B = numeric_from (Z.to_nat i) A B).
  pose (Q := fun r : Z => r = Z_of_cmp (M.cmp_numeric A B)).
  pose (Qb := fun _ : Z => M.cmp_numeric A B = Eq).
  assert (R : exit_ok Qb Q (while fuel body 0)).
  { apply (while_rule_fuel body Inv (fun i => Z.to_nat (n - i))).
    - intros i [Hi E]. unfold step_ok, body.
      destruct (Z.ltb_spec i n) as [Hlt|Hge].
      + fold gpad_numcomp.
        rewrite (idx_or_default a gpad_numcomp i), (idx_or_default b gpad_numcomp i) by lia.
        cbn [bind].
        set (x := nth (Z.to_nat i) a gpad_numcomp). set (y := nth (Z.to_nat i) b gpad_numcomp).
        rewrite (numeric_from_step i A B) in E by lia.
        assert (Ex : nth (Z.to_nat i) A M.pad_numcomp = T.abs_numcomp x).
        { unfold A, x. rewrite <- abs_gpad_numcomp. apply map_nth. }
        assert (Ey : nth (Z.to_nat i) B M.pad_numcomp = T.abs_numcomp y).
        { unfold B, y. rewrite <- abs_gpad_numcomp. apply map_nth. }
        rewrite Ex, Ey in E. clear Ex Ey.
        rewrite !tie_loops_alpine_hasLeadingZero. cbn [bind].
        set (cmpv := bind _ _).
        assert (Ec : cmpv = (fun k => k (Z_of_cmp (cmp_at i (T.abs_numcomp x) (T.abs_numcomp y))))
                             (fun c => if negb (Z.eqb c 0) then Done (Ret c)
                                       else Done (Next (wrap64 (i + 1))))).
        { subst cmpv. unfold cmp_at, M.cmp_numcomp, T.abs_numcomp.
          cbn [M.nc_value M.nc_orig].
          destruct (Z.eqb i 0); cbn [bind].
          - rewrite T.tie_alpine_compareInt. reflexivity.
          - destruct (M.has_leading_zero (G.numericComponent_originalStr x)); cbn [bind orb].
            + reflexivity.
            + destruct (M.has_leading_zero (G.numericComponent_originalStr y)); cbn [bind orb].
              * reflexivity.
              * rewrite T.tie_alpine_compareInt. reflexivity. }
        rewrite Ec. clear Ec cmpv. cbv beta.
        rewrite Z_of_cmp_eq0.
        destruct (cmp_at i (T.abs_numcomp x) (T.abs_numcomp y)) eqn:C; cbn [negb].
        * rewrite (wrap64_succ i n) by (unfold fits in *; lia).
          split; [|lia]. split; [lia|].
          rewrite E, Z_to_nat_succ by lia. reflexivity.
        * unfold Q. rewrite E. reflexivity.
        * unfold Q. rewrite E. reflexivity.
      + unfold Qb. rewrite E. apply numeric_from_exhausted; unfold A, B; rewrite map_length; lia.
    - split; [lia | reflexivity].
    - lia. }
  destruct (while fuel body 0) as [[i|r]| |]; cbn [exit_ok] in R; try contradiction; cbn [bind].
  - unfold Qb in R. rewrite R. reflexivity.
  - unfold Q in R. rewrite R. reflexivity.
Qed.
Print Assumptions tie_loops_alpine_compareNumericArraysNumeric.

(* C06 for compareNumericArraysNumeric: no panic, termination within max (len a) (len b) + 1 iterations *)
Corollary loops_alpine_compareNumericArraysNumeric_no_panic : forall a b, fits a -> fits b ->
  exists r, L.compareNumericArraysNumeric (S (Nat.max (length a) (length b))) a b = Done r.
Proof.
  intros a b Fa Fb. eexists.
  apply tie_loops_alpine_compareNumericArraysNumeric; [assumption | assumption | lia].
Qed.
Print Assumptions loops_alpine_compareNumericArraysNumeric_no_panic.

Definition compareNumericArraysNumeric_total (a b : list G.numericComponent) : Z :=
  total 0 (L.compareNumericArraysNumeric (S (Nat.max (length a) (length b))) a b).

Lemma compareNumericArraysNumeric_total_model : forall a b, fits a -> fits b ->
  compareNumericArraysNumeric_total a b =
  Z_of_cmp (M.cmp_numeric (map T.abs_numcomp a) (map T.abs_numcomp b)).
Proof.
  intros a b Fa Fb. unfold compareNumericArraysNumeric_total.
  rewrite tie_loops_alpine_compareNumericArraysNumeric by (assumption || lia). reflexivity.
Qed.
Print Assumptions compareNumericArraysNumeric_total_model.

(* ---------- compareSuffixArrays ---------- *)

(* Go's padding suffix {"", 0} *)
Definition gpad_suffix : G.suffix := G.mk_suffix [] 0.

Lemma abs_gpad_suffix : T.abs_suffix gpad_suffix = M.pad_suffix.
Proof. reflexivity. Qed.

Lemma cmp_suffix_pad : M.cmp_suffix M.pad_suffix M.pad_suffix = Eq.
Proof. vm_compute. reflexivity. Qed.

Section Suffixes.
  (* compareSuffixes *)
  Variable compareSuffixes : G.suffix -> G.suffix -> Z.
  Hypothesis compareSuffixes_model : forall x y,
    compareSuffixes x y = Z_of_cmp (M.cmp_suffix (T.abs_suffix x) (T.abs_suffix y)).

  (* no panic, linear fuel (max of the two lengths), and the model's answer *)
  Theorem tie_loops_alpine_compareSuffixArrays : forall (a b : list G.suffix) (fuel : nat),
    fits a -> fits b -> (Nat.max (length a) (length b) < fuel)%nat ->
    L.compareSuffixArrays compareSuffixes fuel a b =
    Done (Z_of_cmp (M.cmp_suffixes (map T.abs_suffix a) (map T.abs_suffix b))).
  Proof.
    intros a b fuel Fa Fb Hfuel. unfold L.compareSuffixArrays, M.cmp_suffixes.
    cbv zeta.
    set (n := Z.max (Z.of_nat (length a)) (Z.of_nat (length b))).
    assert (En : n = Z.of_nat (Nat.max (length a) (length b))) by (subst n; lia).
    clearbody n.
    set (A := map T.abs_suffix a). set (B := map T.abs_suffix b).
    set (body := fun i : Z => _).
    pose (cmpAB := lex_pad M.pad_suffix M.cmp_suffix).
    pose (Inv := fun i : Z => 0 <= i <= n /\
       cmpAB A B = cmpAB (skipn (Z.to_nat i) A) (skipn (Z.to_nat i) B)).
    pose (Q := fun r : Z => r = Z_of_cmp (cmpAB A B)).
    pose (Qb := fun _ : Z => cmpAB A B = Eq).
    assert (R : exit_ok Qb Q (while fuel body 0)).
    { apply (while_rule_fuel body Inv (fun i => Z.to_nat (n - i))).
      - intros i [Hi E]. unfold step_ok, body.
        destruct (Z.ltb_spec i n) as [Hlt|Hge].
        + fold gpad_suffix.
          rewrite (idx_or_default a gpad_suffix i), (idx_or_default b gpad_suffix i) by lia.
          cbn [bind].
          set (x := nth (Z.to_nat i) a gpad_suffix). set (y := nth (Z.to_nat i) b gpad_suffix).
          assert (E' : cmpAB A B = thenc (M.cmp_suffix (T.abs_suffix x) (T.abs_suffix y))
                         (cmpAB (skipn (S (Z.to_nat i)) A) (skipn (S (Z.to_nat i)) B))).
          { rewrite E. unfold cmpAB. rewrite (lex_pad_skipn_step _ _ A B _ cmp_suffix_pad).
            unfold A, B, x, y. rewrite <- abs_gpad_suffix, !map_nth. reflexivity. }
          clear E. rename E' into E.
          rewrite compareSuffixes_model, Z_of_cmp_eq0.
          destruct (M.cmp_suffix (T.abs_suffix x) (T.abs_suffix y)) eqn:C; cbn [negb].
          * rewrite (wrap64_succ i n) by (unfold fits in *; lia).
            split; [|lia]. split; [lia|].
            rewrite E, Z_to_nat_succ by lia. reflexivity.
          * unfold Q. rewrite E. reflexivity.
          * unfold Q. rewrite E. reflexivity.
        + unfold Qb. rewrite E. apply lex_pad_exhausted; unfold A, B; rewrite map_length; lia.
      - split; [lia | reflexivity].
      - lia. }
    destruct (while fuel body 0) as [[i|r]| |]; cbn [exit_ok] in R; try contradiction; cbn [bind].
    - unfold Qb, cmpAB in R. rewrite R. reflexivity.
    - unfold Q, cmpAB in R. rewrite R. reflexivity.
  Qed.

  (* C06 for compareSuffixArrays: no panic, termination within max (len a) (len b) + 1 iterations *)
  Corollary loops_alpine_compareSuffixArrays_no_panic : forall a b, fits a -> fits b ->
    exists r, L.compareSuffixArrays compareSuffixes (S (Nat.max (length a) (length b))) a b = Done r.
  Proof.
    intros a b Fa Fb. eexists.
    apply tie_loops_alpine_compareSuffixArrays; [assumption | assumption | lia].
  Qed.

  Definition compareSuffixArrays_total (a b : list G.suffix) : Z :=
    total 0 (L.compareSuffixArrays compareSuffixes (S (Nat.max (length a) (length b))) a b).

  Lemma compareSuffixArrays_total_model : forall a b, fits a -> fits b ->
    compareSuffixArrays_total a b =
    Z_of_cmp (M.cmp_suffixes (map T.abs_suffix a) (map T.abs_suffix b)).
  Proof.
    intros a b Fa Fb. unfold compareSuffixArrays_total.
    rewrite tie_loops_alpine_compareSuffixArrays by (assumption || lia). reflexivity.
  Qed.
End Suffixes.
Print Assumptions tie_loops_alpine_compareSuffixArrays.
Print Assumptions loops_alpine_compareSuffixArrays_no_panic.
Print Assumptions compareSuffixArrays_total_model.
