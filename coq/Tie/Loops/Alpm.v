(* Tie/Loops/Alpm.v — the generated translations of alpm's segment comparison
   (Gen/Loops/Alpm.v: isAlphaSegment, compareALMPDigits, compareSegments and the loop
   compareSegmentBySegment) do not panic, terminate with fuel linear in the input lengths, and
   return what the model computes (Eco/Alpm/Version.v: is_alpha_segment, compare_digits,
   cmp_seg, cmp_segs over split_to_segments).  Discharges the Section variable
   [compareSegmentBySegment] of Tie/Alpm.v.

   splitToSegments (strings.Builder, range over a string) is outside the translated fragment:
   the generated loop takes it as an argument.  The theorems are stated for an arbitrary
   argument that agrees with the model's split_to_segments, and then closed by passing
   split_to_segments itself.

   Representation: the Go loop runs one index i over both segment slices up to the longer
   length, with "missing" flags past the end of the shorter one; the model recurses on the two
   lists.  The bridge is the suffix view: at index i the model on the whole lists equals the
   model on (skipn i A) (skipn i B); a missing segment is an exhausted suffix. *)
From Coq Require Import ZArith List Bool Lia Ascii.
From Verif.Base Require Import Bytes GoNum GoOps Ord BytesFacts Imp ImpFacts.
From Verif.Eco.Alpm Require Version.
From Verif.Gen.Code Require Alpm.
From Verif.Gen.Loops Require Alpm.
From Verif.Tie Require Import Tactics.
From Verif.Tie Require Alpm.
From Verif.Tie.Loops Require Import Common.
Import ListNotations.
Local Open Scope Z_scope.

Module G := Verif.Gen.Code.Alpm.
Module L := Verif.Gen.Loops.Alpm.
Module M := Verif.Eco.Alpm.Version.
Module T := Verif.Tie.Alpm.

(* s[0] of a non-empty string *)
Lemma idx_head {A} (c : A) (s : list A) : idx (c :: s) 0 = Done c.
Proof. apply idx_Done. split; [rewrite len_cons; pose proof (len_nonneg s); lia | reflexivity]. Qed.

Lemma len_cons_pos {A} (c : A) (s : list A) : Z.ltb 0 (Z.of_nat (length (c :: s))) = true.
Proof. apply Z.ltb_lt. cbn [length]. lia. Qed.

(* ---------- isAlphaSegment (no loop: no fuel, no length hypothesis) ---------- *)

Theorem tie_loops_alpm_isAlphaSegment : forall seg : bytes,
  L.isAlphaSegment seg = Done (M.is_alpha_segment seg).
Proof.
  intros [|c s]; unfold L.isAlphaSegment, M.is_alpha_segment; cbn [beq negb bind]; [reflexivity|].
  rewrite idx_head. reflexivity.
Qed.
Print Assumptions tie_loops_alpm_isAlphaSegment.

Corollary loops_alpm_isAlphaSegment_no_panic : forall seg : bytes, exists r, L.isAlphaSegment seg = Done r.
Proof. intros seg. eexists. apply tie_loops_alpm_isAlphaSegment. Qed.
Print Assumptions loops_alpm_isAlphaSegment_no_panic.

Definition isAlphaSegment_total (seg : bytes) : bool := total false (L.isAlphaSegment seg).

Lemma isAlphaSegment_total_model : forall seg, isAlphaSegment_total seg = M.is_alpha_segment seg.
Proof. intros seg. unfold isAlphaSegment_total. rewrite tie_loops_alpm_isAlphaSegment. reflexivity. Qed.
Print Assumptions isAlphaSegment_total_model.

(* ---------- compareALMPDigits (translated as a pure function) ---------- *)

Theorem tie_loops_alpm_compareALMPDigits : forall a b : bytes,
  L.compareALMPDigits a b = Z_of_cmp (M.compare_digits a b).
Proof.
  intros [|ca a] [|cb b]; unfold L.compareALMPDigits, M.compare_digits; cbn [beq andb]; try reflexivity.
  change (chr 48) with "0"%char. cbv zeta.
  unfold digits_cmp, strip_zeros.
  set (a' := drop_while (ceqb "0"%char) (ca :: a)). set (b' := drop_while (ceqb "0"%char) (cb :: b)).
  unfold thenc.
  destruct (Z.ltb_spec (Z.of_nat (length a')) (Z.of_nat (length b'))) as [H1|H1].
  - replace (Nat.compare (length a') (length b')) with Lt; [reflexivity|].
    symmetry. apply Nat.compare_lt_iff. lia.
  - destruct (Z.ltb_spec (Z.of_nat (length b')) (Z.of_nat (length a'))) as [H2|H2].
    + replace (Nat.compare (length a') (length b')) with Gt; [reflexivity|].
      symmetry. apply Nat.compare_gt_iff. lia.
    + replace (Nat.compare (length a') (length b')) with Eq; [reflexivity|].
      symmetry. apply Nat.compare_eq_iff. lia.
Qed.
Print Assumptions tie_loops_alpm_compareALMPDigits.

(* ---------- compareSegments (index expressions a[0], b[0] under their guards) ---------- *)

Theorem tie_loops_alpm_compareSegments : forall a b : bytes,
  L.compareSegments a b = Done (Z_of_cmp (M.cmp_seg a b)).
Proof.
  intros [|ca a] [|cb b]; unfold L.compareSegments, M.cmp_seg; cbn [beq andb]; try reflexivity.
  rewrite !len_cons_pos, !idx_head. cbn [bind M.is_num_segment].
  destruct (is_digit ca), (is_digit cb); cbn [andb]; try reflexivity.
  rewrite tie_loops_alpm_compareALMPDigits. reflexivity.
Qed.
Print Assumptions tie_loops_alpm_compareSegments.

Corollary loops_alpm_compareSegments_no_panic : forall a b : bytes, exists r, L.compareSegments a b = Done r.
Proof. intros a b. eexists. apply tie_loops_alpm_compareSegments. Qed.
Print Assumptions loops_alpm_compareSegments_no_panic.

Definition compareSegments_total (a b : bytes) : Z := total 0 (L.compareSegments a b).

Lemma compareSegments_total_model : forall a b, compareSegments_total a b = Z_of_cmp (M.cmp_seg a b).
Proof. intros a b. unfold compareSegments_total. rewrite tie_loops_alpm_compareSegments. reflexivity. Qed.
Print Assumptions compareSegments_total_model.

(* ---------- the model on the unread suffixes ---------- *)

Lemma cmp_segs_skipn_both (A B : list bytes) (n : nat) :
  (n < length A)%nat -> (n < length B)%nat ->
  M.cmp_segs (skipn n A) (skipn n B) =
  thenc (M.cmp_seg (nth n A []) (nth n B [])) (M.cmp_segs (skipn (S n) A) (skipn (S n) B)).
Proof.
  intros La Lb. rewrite (skipn_nth_cons A n [] La), (skipn_nth_cons B n [] Lb). reflexivity.
Qed.

Lemma cmp_segs_skipn_a_missing (A B : list bytes) (n : nat) :
  (length A <= n)%nat -> (n < length B)%nat ->
  M.cmp_segs (skipn n A) (skipn n B) = if M.is_alpha_segment (nth n B []) then Gt else Lt.
Proof.
  intros La Lb. rewrite (skipn_all2 A La), (skipn_nth_cons B n [] Lb). reflexivity.
Qed.

Lemma cmp_segs_skipn_b_missing (A B : list bytes) (n : nat) :
  (n < length A)%nat -> (length B <= n)%nat ->
  M.cmp_segs (skipn n A) (skipn n B) = if M.is_alpha_segment (nth n A []) then Lt else Gt.
Proof.
  intros La Lb. rewrite (skipn_all2 B Lb), (skipn_nth_cons A n [] La). reflexivity.
Qed.

Lemma cmp_segs_exhausted (A B : list bytes) (n : nat) :
  (length A <= n)%nat -> (length B <= n)%nat -> M.cmp_segs (skipn n A) (skipn n B) = Eq.
Proof. intros La Lb. rewrite (skipn_all2 A La), (skipn_all2 B Lb). reflexivity. Qed.

(* ---------- compareSegmentBySegment over two segment slices ---------- *)

(* every segment but the empty ones holds at least one byte of the input, every empty one stands
   for a delimiter byte: no more segments than bytes.  ([cur] empty implies [last] = None on
   every state split_to_segments reaches.) *)
Lemma split_segs_length s : forall cur last, (cur = [] -> last = None) ->
  (length (M.split_segs cur last s) <= length s + match cur with [] => 0 | _ => 1 end)%nat.
Proof.
  induction s as [|c s IH]; intros cur last H; cbn [M.split_segs].
  - destruct cur; cbn [length]; lia.
  - destruct (is_letter c || is_digit c).
    + destruct last as [l|].
      * destruct (Bool.eqb l (is_letter c)).
        -- pose proof (IH (c :: cur) (Some (is_letter c)) ltac:(discriminate)) as P.
           cbv beta iota in P. cbn [length] in *. eapply Nat.le_trans; [exact P|]. destruct cur; lia.
        -- destruct cur as [|x cur]; [specialize (H eq_refl); discriminate|].
           pose proof (IH [c] (Some (is_letter c)) ltac:(discriminate)) as P.
           cbv beta iota in P. cbn [length] in *. eapply Nat.le_trans; [apply le_n_S; exact P|]. lia.
      * pose proof (IH (c :: cur) (Some (is_letter c)) ltac:(discriminate)) as P.
        cbv beta iota in P. cbn [length] in *. eapply Nat.le_trans; [exact P|]. destruct cur; lia.
    + destruct cur as [|x cur].
      * pose proof (IH [] last H) as P. cbv beta iota in P. cbn [length] in *. eapply Nat.le_trans; [apply le_n_S; exact P|]. lia.
      * pose proof (IH [] None ltac:(reflexivity)) as P. cbv beta iota in P. cbn [length] in *.
        eapply Nat.le_trans; [apply le_n_S, le_n_S; exact P|]. lia.
Qed.

Lemma split_to_segments_length s : (length (M.split_to_segments s) <= length s)%nat.
Proof.
  unfold M.split_to_segments. pose proof (split_segs_length s [] None ltac:(reflexivity)) as P.
  cbv beta iota in P. rewrite Nat.add_0_r in P. exact P.
Qed.

Lemma fits_split_to_segments (s : bytes) : fits s -> fits (M.split_to_segments s).
Proof. unfold fits. pose proof (split_to_segments_length s). unfold bytes in *. lia. Qed.

(* the loop, for ANY splitter: the bound is in the numbers of segments *)
Lemma loops_alpm_segment_loop : forall (split : bytes -> list bytes) (a b : bytes) (fuel : nat),
  fits (split a) -> fits (split b) ->
  (Nat.max (length (split a)) (length (split b)) < fuel)%nat ->
  L.compareSegmentBySegment split fuel a b = Done (Z_of_cmp (M.cmp_segs (split a) (split b))).
Proof.
  intros split a b fuel Fa Fb Hfuel. unfold L.compareSegmentBySegment.
  set (A := split a) in *. set (B := split b) in *. cbv zeta.
  set (maxLen := if Z.ltb (Z.of_nat (length A)) (Z.of_nat (length B)) then _ else _).
  assert (EmaxLen : maxLen = Z.of_nat (Nat.max (length A) (length B))).
  { subst maxLen. destruct (Z.ltb_spec (Z.of_nat (length A)) (Z.of_nat (length B))); lia. }
  clearbody maxLen.
  set (body := fun i : Z => _).
  pose (Inv := fun i : Z => 0 <= i <= maxLen /\
     M.cmp_segs A B = M.cmp_segs (skipn (Z.to_nat i) A) (skipn (Z.to_nat i) B)).
  pose (Q := fun r : Z => r = Z_of_cmp (M.cmp_segs A B)).
  pose (Qb := fun _ : Z => M.cmp_segs A B = Eq).
  assert (R : exit_ok Qb Q (while fuel body 0)).
  { apply (while_rule_fuel body Inv (fun i => Z.to_nat (maxLen - i))).
    - intros i [Hi E]. unfold step_ok, body.
      destruct (Z.ltb_spec i maxLen) as [Hlt|Hge].
      + rewrite (wrap64_succ i maxLen) by (unfold fits in *; lia).
        destruct (Z.ltb_spec i (Z.of_nat (length A))) as [HA|HA];
          destruct (Z.ltb_spec i (Z.of_nat (length B))) as [HB|HB].
        * (* both present *)
          rewrite (idx_in_range A i []), (idx_in_range B i []) by (unfold len; lia).
          cbn [bind andb]. rewrite tie_loops_alpm_compareSegments. cbn [bind].
          rewrite cmp_segs_skipn_both in E by lia.
          set (x := nth (Z.to_nat i) A []) in *. set (y := nth (Z.to_nat i) B []) in *.
          destruct (M.cmp_seg x y) eqn:C; cbn [Z_of_cmp z_sign Z.eqb negb thenc] in *.
          -- split; [|lia]. split; [lia|]. rewrite Z_to_nat_succ by lia. exact E.
          -- unfold Q. rewrite E. reflexivity.
          -- unfold Q. rewrite E. reflexivity.
        * (* b is shorter *)
          rewrite (idx_in_range A i []) by (unfold len; lia).
          cbn [bind andb]. rewrite tie_loops_alpm_isAlphaSegment. cbn [bind].
          rewrite cmp_segs_skipn_b_missing in E by lia.
          unfold Q. rewrite E. destruct (M.is_alpha_segment _); reflexivity.
        * (* a is shorter *)
          rewrite (idx_in_range B i []) by (unfold len; lia).
          cbn [bind andb]. rewrite tie_loops_alpm_isAlphaSegment. cbn [bind].
          rewrite cmp_segs_skipn_a_missing in E by lia.
          unfold Q. rewrite E. destruct (M.is_alpha_segment _); reflexivity.
        * (* both missing: not below the longer length *)
          exfalso. unfold bytes in *. lia.
      + unfold Qb. rewrite E. apply cmp_segs_exhausted; unfold bytes in *; lia.
    - split; [lia | reflexivity].
    - unfold bytes in *. lia. }
  destruct (while fuel body 0) as [[i|r]| |]; cbn [exit_ok] in R; try contradiction; cbn [bind].
  - unfold Qb in R. rewrite R. reflexivity.
  - unfold Q in R. rewrite R. reflexivity.
Qed.
Print Assumptions loops_alpm_segment_loop.

Section Alpm.
  (* splitToSegments *)
  Variable splitToSegments : bytes -> list bytes.
  Hypothesis splitToSegments_model : forall s, splitToSegments s = M.split_to_segments s.

  (* the bound is max (len a) (len b): there are no more segments than bytes *)
  Theorem tie_loops_alpm_compareSegmentBySegment : forall (a b : bytes) (fuel : nat),
    fits a -> fits b -> (Nat.max (length a) (length b) < fuel)%nat ->
    L.compareSegmentBySegment splitToSegments fuel a b =
    Done (Z_of_cmp (M.cmp_segs (M.split_to_segments a) (M.split_to_segments b))).
  Proof.
    intros a b fuel Fa Fb Hfuel.
    pose proof (split_to_segments_length a) as La. pose proof (split_to_segments_length b) as Lb.
    rewrite loops_alpm_segment_loop.
    - rewrite !splitToSegments_model. reflexivity.
    - rewrite splitToSegments_model. apply fits_split_to_segments. exact Fa.
    - rewrite splitToSegments_model. apply fits_split_to_segments. exact Fb.
    - rewrite !splitToSegments_model. unfold bytes in *. lia.
  Qed.

  (* C06: no panic, termination within S (max (len a) (len b)) iterations *)
  Corollary loops_alpm_compareSegmentBySegment_no_panic : forall a b, fits a -> fits b ->
    exists r, L.compareSegmentBySegment splitToSegments (S (Nat.max (length a) (length b))) a b = Done r.
  Proof. intros a b Fa Fb. eexists. apply tie_loops_alpm_compareSegmentBySegment; [assumption | assumption | lia]. Qed.

  (* the total function that Gen/Code's Version.Compare is generalised over *)
  Definition compareSegmentBySegment_total (a b : bytes) : Z :=
    total 0 (L.compareSegmentBySegment splitToSegments (S (Nat.max (length a) (length b))) a b).

  Lemma compareSegmentBySegment_total_model : forall a b, fits a -> fits b ->
    compareSegmentBySegment_total a b = Z_of_cmp (M.cmp_segs (M.split_to_segments a) (M.split_to_segments b)).
  Proof.
    intros a b Fa Fb. unfold compareSegmentBySegment_total.
    rewrite tie_loops_alpm_compareSegmentBySegment by (assumption || lia). reflexivity.
  Qed.

  (* Version.Compare with the real compareSegmentBySegment: the Hypothesis
     compareSegmentBySegment_model of Tie/Alpm.v, discharged for versions whose pkgver has an
     int length *)
  Local Opaque M.cmp_segs M.split_to_segments.
  Corollary tie_alpm_compare_closed : forall a b : G.Version,
    fits (G.Version_pkgver a) -> fits (G.Version_pkgver b) ->
    G.Version_Compare compareSegmentBySegment_total a b = Z_of_cmp (M.cmp_core (T.abs a) (T.abs b)).
  Proof.
    intros a b Fa Fb. pose proof (compareSegmentBySegment_total_model _ _ Fa Fb) as H.
    set (cp := compareSegmentBySegment_total) in *. clearbody cp.
    destruct a, b. cbn [G.Version_pkgver] in H. clear Fa Fb.
    tie_solve_with H.
  Qed.
End Alpm.
Print Assumptions tie_loops_alpm_compareSegmentBySegment.
Print Assumptions loops_alpm_compareSegmentBySegment_no_panic.
Print Assumptions compareSegmentBySegment_total_model.
Print Assumptions tie_alpm_compare_closed.

(* ---------- closed: the splitter is the model's split_to_segments ---------- *)

Theorem tie_loops_alpm_compareSegmentBySegment_closed : forall (a b : bytes) (fuel : nat),
  fits a -> fits b -> (Nat.max (length a) (length b) < fuel)%nat ->
  L.compareSegmentBySegment M.split_to_segments fuel a b =
  Done (Z_of_cmp (M.cmp_segs (M.split_to_segments a) (M.split_to_segments b))).
Proof. apply tie_loops_alpm_compareSegmentBySegment. reflexivity. Qed.
Print Assumptions tie_loops_alpm_compareSegmentBySegment_closed.

Theorem tie_alpm_compare_closed_model_split : forall a b : G.Version,
  fits (G.Version_pkgver a) -> fits (G.Version_pkgver b) ->
  G.Version_Compare (compareSegmentBySegment_total M.split_to_segments) a b =
  Z_of_cmp (M.cmp_core (T.abs a) (T.abs b)).
Proof. apply tie_alpm_compare_closed. reflexivity. Qed.
Print Assumptions tie_alpm_compare_closed_model_split.
