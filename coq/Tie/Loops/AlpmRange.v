(* Tie/Loops/AlpmRange.v — range level: constraint.matches / Contains of the generated code applied
   to the REAL compareSegmentBySegment (the total function of Tie/Loops/Alpm.v, with the model's
   split_to_segments for the untranslated splitToSegments) equal the model's comparators.
   Discharges the Hypothesis compareSegmentBySegment_model of Tie/AlpmRange.v on ranges and
   versions whose pkgver has an int length. *)
From Coq Require Import ZArith List Bool Lia.
From Verif.Base Require Import Bytes GoNum GoOps Ord Imp ImpFacts.
From Verif.Eco Require Import RangeCore.
From Verif.Eco.Alpm Require Version Range.
From Verif.Gen.Code Require Alpm.
From Verif.Tie Require Import Tactics.
From Verif.Tie Require Alpm AlpmRange.
From Verif.Tie.Loops Require Import Common.
From Verif.Tie.Loops Require Alpm.
Import ListNotations.
Local Open Scope Z_scope.

Module G := Verif.Gen.Code.Alpm.
Module M := Verif.Eco.Alpm.Version.
Module T := Verif.Tie.Alpm.
Module TR := Verif.Tie.AlpmRange.
Module TL := Verif.Tie.Loops.Alpm.

Section AlpmRange.
  (* splitToSegments *)
  Variable splitToSegments : bytes -> list bytes.
  Hypothesis splitToSegments_model : forall s, splitToSegments s = M.split_to_segments s.

  Corollary tie_alpm_matches_closed : forall c v,
    fits (G.Version_pkgver v) -> fits (G.Version_pkgver (G.constraint_version c)) ->
    G.constraint_matches (TL.compareSegmentBySegment_total splitToSegments) c v =
    sat (rc_sem Range.cfg (G.constraint_operator c)) (M.cmp_core (T.abs v) (T.abs (G.constraint_version c))).
  Proof.
    intros c v Fv Fc. rewrite TR.tie_alpm_matches.
    rewrite (TL.tie_alpm_compare_closed splitToSegments splitToSegments_model) by assumption.
    rewrite cmp_of_Z_of_cmp. reflexivity.
  Qed.

  Corollary tie_alpm_contains_closed : forall r v,
    fits (G.Version_pkgver v) ->
    (forall c, In c (G.VersionRange_constraints r) -> fits (G.Version_pkgver (G.constraint_version c))) ->
    G.VersionRange_Contains (TL.compareSegmentBySegment_total splitToSegments) r v =
    forallb (fun c => sat (rc_sem Range.cfg (G.constraint_operator c)) (M.cmp_core (T.abs v) (T.abs (G.constraint_version c))))
            (G.VersionRange_constraints r).
  Proof.
    intros r v Fv Fr. unfold G.VersionRange_Contains. apply forallb_ext_in. intros c Hc.
    apply tie_alpm_matches_closed; auto.
  Qed.
End AlpmRange.
Print Assumptions tie_alpm_matches_closed.
Print Assumptions tie_alpm_contains_closed.

(* closed: the splitter is the model's split_to_segments *)
Theorem tie_alpm_contains_closed_model_split : forall r v,
  fits (G.Version_pkgver v) ->
  (forall c, In c (G.VersionRange_constraints r) -> fits (G.Version_pkgver (G.constraint_version c))) ->
  G.VersionRange_Contains (TL.compareSegmentBySegment_total M.split_to_segments) r v =
  forallb (fun c => sat (rc_sem Range.cfg (G.constraint_operator c)) (M.cmp_core (T.abs v) (T.abs (G.constraint_version c))))
          (G.VersionRange_constraints r).
Proof. apply tie_alpm_contains_closed. reflexivity. Qed.
Print Assumptions tie_alpm_contains_closed_model_split.
