(* Tie/Loops/Cargo.v — the generated translation of cargo's comparePrereleaseIdentifiers
   (identifier loop over the dot-separated parts, Gen/Loops/Cargo.v) does not panic, terminates
   with fuel linear in the input lengths, and returns the sign of the model's comparison
   (Eco/Cargo/Version.v, idents_cmp on the split texts).  Discharges the Section variable [cpi]
   of Tie/Cargo.v.

   tryParseInt (strings.TrimLeft + strconv.Atoi) is outside the translated fragment: the
   generated function takes it as an argument of type bytes -> Z * bool, and the theorems assume
   that this argument is the model's try_parse_int (an option Z: Some n is (n, true), None is
   (0, false) — [num_pair], Tie/Loops/Idents.v).

   countVersionComponents (pure, no loop) is tied to the range model in Tie/Loops/CargoRange.v. *)
From Coq Require Import ZArith List Bool Lia Ascii.
From Verif.Base Require Import Bytes GoNum GoOps Ord BytesFacts Imp ImpFacts.
From Verif.Eco.Cargo Require Version.
From Verif.Gen.Code Require Cargo.
From Verif.Gen.Loops Require Cargo.
From Verif.Tie Require Import Tactics.
From Verif.Tie Require Cargo.
From Verif.Tie.Loops Require Import Common Idents.
Import ListNotations.
Local Open Scope Z_scope.

Module G := Verif.Gen.Code.Cargo.
Module L := Verif.Gen.Loops.Cargo.
Module M := Verif.Eco.Cargo.Version.
Module T := Verif.Tie.Cargo.

(* ---------- the model, one identifier at a time ---------- *)

Lemma ident_cmp_num_num x y n m : M.try_parse_int x = Some n -> M.try_parse_int y = Some m ->
  M.ident_cmp x y = Z.compare n m.
Proof.
  intros Nx Ny. unfold M.ident_cmp, cmp_on, M.ident_key. rewrite Nx, Ny.
  unfold lex2, thenc. cbn [fst snd bool_cmp]. destruct (Z.compare _ _); reflexivity.
Qed.

Lemma ident_cmp_num_str x y n : M.try_parse_int x = Some n -> M.try_parse_int y = None ->
  M.ident_cmp x y = Lt.
Proof. intros Nx Ny. unfold M.ident_cmp, cmp_on, M.ident_key. rewrite Nx, Ny. reflexivity. Qed.

Lemma ident_cmp_str_num x y m : M.try_parse_int x = None -> M.try_parse_int y = Some m ->
  M.ident_cmp x y = Gt.
Proof. intros Nx Ny. unfold M.ident_cmp, cmp_on, M.ident_key. rewrite Nx, Ny. reflexivity. Qed.

Lemma ident_cmp_str_str x y : M.try_parse_int x = None -> M.try_parse_int y = None ->
  M.ident_cmp x y = bytes_cmp x y.
Proof. intros Nx Ny. unfold M.ident_cmp, cmp_on, M.ident_key. rewrite Nx, Ny. reflexivity. Qed.

Section Cargo.
  (* tryParseInt *)
  Variable tryParseInt : bytes -> Z * bool.
  Hypothesis tryParseInt_model : forall s, tryParseInt s = num_pair (M.try_parse_int s).

  (* bound: S (max (len a) (len b)) — at most max (len a) (len b) + 1 identifiers *)
  Theorem tie_loops_cargo_comparePrereleaseIdentifiers : forall (a b : bytes) (fuel : nat),
    fits1 a -> fits1 b -> (S (Nat.max (length a) (length b)) < fuel)%nat ->
    L.comparePrereleaseIdentifiers tryParseInt fuel a b =
    Done (Z_of_cmp (M.idents_cmp (split_c "."%char a) (split_c "."%char b))).
  Proof.
    intros a b fuel Fa Fb Hfuel.
    unfold L.comparePrereleaseIdentifiers, M.idents_cmp.
    change (chr 46) with "."%char.
    set (A := split_c "."%char a). set (B := split_c "."%char b).
    cbv zeta.
    set (maxLen := Z.max (Z.of_nat (length A)) (Z.of_nat (length B))).
    assert (EmaxLen : maxLen = Z.of_nat (Nat.max (length A) (length B))) by (subst maxLen; lia).
    clearbody maxLen.
    pose proof (split_c_length "."%char a) as LA. pose proof (split_c_length "."%char b) as LB.
    fold A in LA. fold B in LB. clearbody A B.
    set (body := fun i : Z => _).
    pose (cmpAB := lex_short M.ident_cmp).
    pose (Inv := fun i : Z => 0 <= i <= maxLen /\
       cmpAB A B = cmpAB (skipn (Z.to_nat i) A) (skipn (Z.to_nat i) B)).
    pose (Q := fun r : Z => r = Z_of_cmp (cmpAB A B)).
    pose (Qb := fun _ : Z => cmpAB A B = Eq).
    assert (R : exit_ok Qb Q (while fuel body 0)).
    { apply (while_rule_fuel body Inv (fun i => Z.to_nat (maxLen - i))).
      - intros i [Hi E]. unfold step_ok, body.
        destruct (Z.ltb_spec i maxLen) as [Hlt|Hge].
        + cbv zeta.
          destruct (Z.leb_spec (Z.of_nat (length A)) i) as [La|La].
          { unfold Q. rewrite E. unfold cmpAB. rewrite lex_short_skipn_lt by lia. reflexivity. }
          destruct (Z.leb_spec (Z.of_nat (length B)) i) as [Lb|Lb].
          { unfold Q. rewrite E. unfold cmpAB. rewrite lex_short_skipn_gt by lia. reflexivity. }
          rewrite (idx_in_range A i []) by (unfold len; lia).
          rewrite (idx_in_range B i []) by (unfold len; lia).
          cbn [bind].
          set (x := nth (Z.to_nat i) A []). set (y := nth (Z.to_nat i) B []).
          assert (E' : cmpAB A B = thenc (M.ident_cmp x y)
                         (cmpAB (skipn (S (Z.to_nat i)) A) (skipn (S (Z.to_nat i)) B))).
          { rewrite E. unfold cmpAB. apply lex_short_skipn_step; lia. }
          clear E. rename E' into E.
          rewrite (wrap64_succ i maxLen) by (unfold fits1 in *; unfold bytes in *; lia).
          assert (Step : forall c, M.ident_cmp x y = c -> c <> Eq -> Q (Z_of_cmp c)).
          { intros c Ec Ne. unfold Q. rewrite E, Ec, thenc_ne by exact Ne. reflexivity. }
          assert (Go : M.ident_cmp x y = Eq -> Inv (i + 1) /\ (Z.to_nat (maxLen - (i + 1)) < Z.to_nat (maxLen - i))%nat).
          { intros Ec. split; [|lia]. split; [lia|]. rewrite E, Ec, Z_to_nat_succ by lia. reflexivity. }
          rewrite !tryParseInt_model.
          destruct (M.try_parse_int x) as [n|] eqn:Nx, (M.try_parse_int y) as [m|] eqn:Ny;
            cbn [num_pair andb negb].
          * pose proof (ident_cmp_num_num x y n m Nx Ny) as P.
            rewrite T.tie_cargo_compareInt.
            destruct (Z.eqb_spec (Z_of_cmp (Z.compare n m)) 0) as [Ec|Ec]; cbn [negb].
            -- apply Go. rewrite P. apply Z_of_cmp_eq0. exact Ec.
            -- apply Step; [exact P|]. intros C. apply Ec. rewrite C. reflexivity.
          * apply (Step Lt); [eapply ident_cmp_num_str; eassumption | discriminate].
          * apply (Step Gt); [eapply ident_cmp_str_num; eassumption | discriminate].
          * pose proof (ident_cmp_str_str x y Nx Ny) as P.
            change (z_sign (bytes_cmp x y)) with (Z_of_cmp (bytes_cmp x y)).
            destruct (Z.eqb_spec (Z_of_cmp (bytes_cmp x y)) 0) as [Ec|Ec]; cbn [negb].
            -- apply Go. rewrite P. apply Z_of_cmp_eq0. exact Ec.
            -- apply Step; [exact P|]. intros C. apply Ec. rewrite C. reflexivity.
        + unfold Qb. rewrite E. apply lex_short_skipn_eq; lia.
      - split; [lia | reflexivity].
      - unfold bytes in *. lia. }
    destruct (while fuel body 0) as [[i|r]| |]; cbn [exit_ok] in R; try contradiction; cbn [bind].
    - unfold Qb, cmpAB in R. rewrite R. reflexivity.
    - unfold Q, cmpAB in R. rewrite R. reflexivity.
  Qed.

  (* C06: no panic, termination within max length + 2 iterations *)
  Corollary loops_cargo_comparePrereleaseIdentifiers_no_panic : forall a b, fits1 a -> fits1 b ->
    exists r, L.comparePrereleaseIdentifiers tryParseInt (S (S (Nat.max (length a) (length b)))) a b = Done r.
  Proof.
    intros a b Fa Fb. eexists.
    apply tie_loops_cargo_comparePrereleaseIdentifiers; [assumption | assumption | lia].
  Qed.

  (* the total function that Gen/Code's Version.Compare is generalised over *)
  Definition comparePrereleaseIdentifiers_total (a b : bytes) : Z :=
    total 0 (L.comparePrereleaseIdentifiers tryParseInt (S (S (Nat.max (length a) (length b)))) a b).

  Lemma comparePrereleaseIdentifiers_total_model : forall a b, fits1 a -> fits1 b ->
    comparePrereleaseIdentifiers_total a b =
    Z_of_cmp (M.idents_cmp (split_c "."%char a) (split_c "."%char b)).
  Proof.
    intros a b Fa Fb. unfold comparePrereleaseIdentifiers_total.
    rewrite tie_loops_cargo_comparePrereleaseIdentifiers by (assumption || lia). reflexivity.
  Qed.

  (* Version.Compare with the real comparePrereleaseIdentifiers: the Hypothesis cpi_model of
     Tie/Cargo.v, discharged for versions whose pre-release text has an int length *)
  Local Opaque M.idents_cmp split_c.
  Corollary tie_cargo_compare_closed : forall a b : G.Version,
    fits1 (G.Version_prerelease a) -> fits1 (G.Version_prerelease b) ->
    G.Version_Compare comparePrereleaseIdentifiers_total a b = Z_of_cmp (M.cmp_core (T.abs a) (T.abs b)).
  Proof.
    intros a b Fa Fb. pose proof (comparePrereleaseIdentifiers_total_model _ _ Fa Fb) as H.
    set (cp := comparePrereleaseIdentifiers_total) in *. clearbody cp.
    destruct a, b. cbn [G.Version_prerelease] in H. clear Fa Fb.
    tie_solve_with H.
  Qed.
End Cargo.
Print Assumptions tie_loops_cargo_comparePrereleaseIdentifiers.
Print Assumptions loops_cargo_comparePrereleaseIdentifiers_no_panic.
Print Assumptions comparePrereleaseIdentifiers_total_model.
Print Assumptions tie_cargo_compare_closed.
