(* Tie/Loops/CargoRange.v — range level.
   1. countVersionComponents (Gen/Loops/Cargo.v; pure: strings.Split, no loop, no index) equals
      the range model's count_components (Eco/Cargo/Range.v).  Representation: the model counts
      in nat, the Go code returns an int — the bridge is Z.of_nat, and the count is at most
      len version + 1.
   2. the range predicates of the generated code applied to the REAL comparePrereleaseIdentifiers
      (the total function of Tie/Loops/Cargo.v) in terms of the model's cmp_core: the theorems of
      Tie/CargoRange.v with Version.Compare resolved. *)
From Coq Require Import ZArith List Bool Lia Ascii.
From Verif.Base Require Import Bytes GoNum GoOps Ord BytesFacts Imp ImpFacts.
From Verif.Eco Require Import RangeCore.
From Verif.Eco.Cargo Require Version Range.
From Verif.Gen.Code Require Cargo.
From Verif.Gen.Loops Require Cargo.
From Verif.Tie Require Import Tactics.
From Verif.Tie Require Cargo CargoRange.
From Verif.Tie.Loops Require Import Common Idents.
From Verif.Tie.Loops Require Cargo.
Import ListNotations.
Local Open Scope Z_scope.

Module G := Verif.Gen.Code.Cargo.
Module L := Verif.Gen.Loops.Cargo.
Module M := Verif.Eco.Cargo.Version.
Module R := Verif.Eco.Cargo.Range.
Module T := Verif.Tie.Cargo.
Module TR := Verif.Tie.CargoRange.
Module TL := Verif.Tie.Loops.Cargo.

(* ---------- countVersionComponents ---------- *)

Theorem tie_loops_cargo_countVersionComponents : forall version : bytes,
  L.countVersionComponents version = Z.of_nat (R.count_components version).
Proof.
  intros [|c v]; unfold L.countVersionComponents, R.count_components; cbn [beq]; reflexivity.
Qed.
Print Assumptions tie_loops_cargo_countVersionComponents.

(* the result is a length: between 0 and len version + 1 (so it is an int when len + 1 is) *)
Corollary loops_cargo_countVersionComponents_range : forall version : bytes,
  0 <= L.countVersionComponents version <= Z.of_nat (length version) + 1.
Proof.
  intros version. rewrite tie_loops_cargo_countVersionComponents. unfold R.count_components.
  destruct version as [|c v]; [cbn [length]; lia|].
  pose proof (split_c_length "."%char (c :: v)). unfold bytes in *. lia.
Qed.
Print Assumptions loops_cargo_countVersionComponents_range.

(* ---------- the range predicates with the real Compare ---------- *)

Section Cargo.
  (* tryParseInt *)
  Variable tryParseInt : bytes -> Z * bool.
  Hypothesis tryParseInt_model : forall s, tryParseInt s = num_pair (M.try_parse_int s).

  Let cpi := TL.comparePrereleaseIdentifiers_total tryParseInt.

  Lemma compare_closed : forall a b : G.Version,
    fits1 (G.Version_prerelease a) -> fits1 (G.Version_prerelease b) ->
    cmp_of_Z (G.Version_Compare cpi a b) = M.cmp_core (T.abs a) (T.abs b).
  Proof.
    intros a b Fa Fb. unfold cpi.
    rewrite (TL.tie_cargo_compare_closed tryParseInt tryParseInt_model a b Fa Fb).
    apply cmp_of_Z_of_cmp.
  Qed.

  Corollary tie_cargo_caret_closed : forall v c p,
    fits1 (G.Version_prerelease v) -> fits1 (G.Version_prerelease c) ->
    G.satisfiesCaretConstraint cpi v c (Z.of_nat p) =
    match M.cmp_core (T.abs v) (T.abs c) with
    | Lt => false
    | _ => R.caret_fields p (T.abs v) (T.abs c)
    end.
  Proof. intros v c p Fv Fc. rewrite TR.tie_cargo_caret, compare_closed by assumption. reflexivity. Qed.

  Corollary tie_cargo_tilde_closed : forall v c p,
    fits1 (G.Version_prerelease v) -> fits1 (G.Version_prerelease c) ->
    G.satisfiesTildeConstraint cpi v c (Z.of_nat p) =
    match M.cmp_core (T.abs v) (T.abs c) with
    | Lt => false
    | _ => R.tilde_fields p (T.abs v) (T.abs c)
    end.
  Proof. intros v c p Fv Fc. rewrite TR.tie_cargo_tilde, compare_closed by assumption. reflexivity. Qed.

  (* satisfiesConstraint for a non-negative precision field *)
  Corollary tie_cargo_satisfiesConstraint_closed : forall v c,
    fits1 (G.Version_prerelease v) -> fits1 (G.Version_prerelease (G.constraint_version c)) ->
    forall p, G.constraint_precision c = Z.of_nat p ->
    G.satisfiesConstraint cpi v c =
    let k := M.cmp_core (T.abs v) (T.abs (G.constraint_version c)) in
    if beq (G.constraint_operator c) $"^" then
      match k with Lt => false | _ => R.caret_fields p (T.abs v) (T.abs (G.constraint_version c)) end
    else if beq (G.constraint_operator c) $"~" then
      match k with Lt => false | _ => R.tilde_fields p (T.abs v) (T.abs (G.constraint_version c)) end
    else sat (sem6 (G.constraint_operator c)) k.
  Proof.
    intros v c Fv Fc p Ep. cbv zeta.
    rewrite TR.tie_cargo_satisfiesConstraint, Ep.
    rewrite tie_cargo_caret_closed, tie_cargo_tilde_closed, compare_closed by assumption.
    reflexivity.
  Qed.

  (* .. and when the precision is the one countVersionComponents computed from a text [pv]
     (the way parseConstraint fills the field for "~") *)
  Corollary tie_cargo_satisfiesConstraint_counted : forall v c pv,
    fits1 (G.Version_prerelease v) -> fits1 (G.Version_prerelease (G.constraint_version c)) ->
    G.constraint_precision c = L.countVersionComponents pv ->
    G.satisfiesConstraint cpi v c =
    let k := M.cmp_core (T.abs v) (T.abs (G.constraint_version c)) in
    let p := R.count_components pv in
    if beq (G.constraint_operator c) $"^" then
      match k with Lt => false | _ => R.caret_fields p (T.abs v) (T.abs (G.constraint_version c)) end
    else if beq (G.constraint_operator c) $"~" then
      match k with Lt => false | _ => R.tilde_fields p (T.abs v) (T.abs (G.constraint_version c)) end
    else sat (sem6 (G.constraint_operator c)) k.
  Proof.
    intros v c pv Fv Fc Ep. rewrite tie_loops_cargo_countVersionComponents in Ep.
    apply (tie_cargo_satisfiesConstraint_closed v c Fv Fc _ Ep).
  Qed.
End Cargo.
Print Assumptions tie_cargo_caret_closed.
Print Assumptions tie_cargo_tilde_closed.
Print Assumptions tie_cargo_satisfiesConstraint_closed.
Print Assumptions tie_cargo_satisfiesConstraint_counted.
