(* Tie/Loops/Common.v — shared facts for the theorems about the generated loop functions
   (Gen/Loops/<Eco>.v): Go's int arithmetic on cursors that stay inside a string or slice.

   A Go string or slice has an int length: [fits s] (len s <= MaxInt64) is the domain of every
   theorem here.  It is needed: a Coq list may be longer, and then i + 1 wraps around.

   RECIPE for a generated  f : nat -> args -> res Z  of Gen/Loops/<Eco>.v  (examples: Cran.v one
   cursor over two slices, Semver.v padded lists + a regexp Variable, Debian.v nested scanners):
   1. imports as in Cran.v; Module L := Gen.Loops.<Eco>, M := Eco.<Eco>.Version, T := Tie.<Eco>.
   2. state ONE theorem  forall args fuel, fits .. -> (bound args < fuel)%nat ->
        L.f fuel args = Done (Z_of_cmp (M.model args));  "no panic", "exists r" and the total
      function  total 0 (L.f (S (bound args)) args)  are corollaries.
   3. unfold L.f; [set] the inputs, the loop limit (prove  limit = Z.of_nat (Nat.min/max ..),
      then [clearbody]) and  set (body := fun i : Z => _)  — never name generated locals.
   4. pose Inv / Q / Qb and  assert (R : exit_ok Qb Q (while fuel body s0))  by
      apply (while_rule_fuel body Inv measure).  Inv = bounds on the cursors /\
      "model on the whole input = model on the unread suffixes (skipn (Z.to_nat i) ..)";
      measure = Z.to_nat (limit - i), or length (skipn i a) + length (skipn j b) for two cursors;
      Q r := r = Z_of_cmp (model ..); Qb := what the code after the loop needs.
   5. in the step case: destruct (Z.ltb_spec i limit); rewrite idx_in_range (default element = the
      pad of the model) / slice_in_range / Scan.scan_while_ext for inner scanners; cbn [bind];
      wrap64_succ for i++; then case-split exactly as the Go code does, closing each leaf with a
      model-side lemma (lex_short_skipn_eq/ne, lex_pad_skipn_step ..).
   6. destruct the while result with R, cbn [bind exit_ok], rewrite.
   Pitfalls: lia sees  @length bytes l  and  @length (list ascii) l  as different atoms
   ([unfold bytes in *] first); hypotheses named Lt/Gt/Eq shadow the constructors; [set .. in *]
   silently skips hypotheses whose implicit types differ (state the step equation with [assert]
   and [apply], which unify up to conversion); make model functions Local Opaque only AFTER the
   main proof; cbn [beq] on two conses unfolds the comparison you want to case on. *)
From Coq Require Import ZArith List Bool Lia.
From Verif.Base Require Import Bytes GoNum Imp ImpFacts.
Import ListNotations.
Local Open Scope Z_scope.

Definition fits {A : Type} (s : list A) : Prop := Z.of_nat (length s) < 2 ^ 63.

Lemma wrap64_small z : - 2 ^ 63 <= z < 2 ^ 63 -> wrap64 z = z.
Proof.
  intros H. unfold wrap64, two64, two63.
  change (Z.of_N 18446744073709551616) with (2 ^ 64).
  change (Z.of_N 9223372036854775808) with (2 ^ 63).
  destruct (Z_lt_ge_dec z 0) as [N|N].
  - replace (z mod 2 ^ 64) with (z + 2 ^ 64).
    + destruct (Z.ltb_spec (z + 2 ^ 64) (2 ^ 63)); lia.
    + symmetry. rewrite <- (Z.mod_add z 1 (2 ^ 64)) by lia.
      rewrite Z.mul_1_l. apply Z.mod_small. lia.
  - rewrite Z.mod_small by lia. destruct (Z.ltb_spec z (2 ^ 63)); lia.
Qed.

(* a cursor below a length that fits moves on without wrapping *)
Lemma wrap64_succ i n : 0 <= i < n -> n < 2 ^ 63 -> wrap64 (i + 1) = i + 1.
Proof. intros H1 H2. apply wrap64_small. lia. Qed.

Lemma fits_skipn {A} (s : list A) n : fits s -> fits (skipn n s).
Proof. unfold fits. rewrite skipn_length. lia. Qed.

Lemma fits_firstn {A} (s : list A) n : fits s -> fits (firstn n s).
Proof. unfold fits. rewrite firstn_length. lia. Qed.

(* the suffix under a cursor: skipn i s is x :: the suffix under i + 1 *)
Lemma skipn_nth_cons {A} (s : list A) (n : nat) (d : A) :
  (n < length s)%nat -> skipn n s = nth n s d :: skipn (S n) s.
Proof.
  revert s. induction n as [|n IH]; intros [|x s] L; cbn [length] in L; try lia.
  - reflexivity.
  - cbn [skipn nth]. rewrite (IH s) by lia. reflexivity.
Qed.

Lemma Z_to_nat_succ i : 0 <= i -> Z.to_nat (i + 1) = S (Z.to_nat i).
Proof. intros H. lia. Qed.

(* what a loop makes of a total answer *)
Definition total {A} (d : A) (r : res A) : A := match r with Done a => a | _ => d end.
