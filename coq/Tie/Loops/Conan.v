(* Tie/Loops/Conan.v — the generated translations of conan's naturalCompare (slice expressions),
   compareVersionParts (index loop over two padded slices) and comparePrerelease (strings.Split +
   identifier loop) (Gen/Loops/Conan.v) do not panic, terminate with fuel linear in the input
   lengths, and return the sign of the model's comparisons (Eco/Conan/Version.v: natural_cmp,
   parts_cmp, pre_cmp).  Discharges the Section variables [compareVersionParts] and
   [comparePrerelease] of Tie/Conan.v.

   Two callees are outside the translated fragment and are arguments of the generated functions;
   the theorems assume what they compute:
   - extractLeadingNumber (a for-range over a string): [extract s = take_while is_digit s].
     (for i, r := range s stops at the first rune that is not an ASCII digit; digits are one byte
     each, so the byte index i is the number of leading digit bytes; i = 0 returns "" = s[:0].)
   - numericPattern.MatchString (^[0-9]+$): [numeric s = nonempty_digits s].

   Representation: comparePrerelease takes the pre-release TEXT ("" = none); the model takes
   [option (list bytes)]; the bridge is T.opt_pre of Tie/Conan.v (None for "", otherwise the
   dot-separated identifiers), exactly as in the Hypothesis comparePrerelease_model there. *)
From Coq Require Import ZArith List Bool Lia Ascii.
From Verif.Base Require Import Bytes GoNum GoOps Ord BytesFacts Imp ImpFacts.
From Verif.Eco.Conan Require Version.
From Verif.Gen.Code Require Conan.
From Verif.Gen.Loops Require Conan.
From Verif.Tie Require Import Tactics.
From Verif.Tie Require Conan.
From Verif.Tie.Loops Require Import Common.
Import ListNotations.
Local Open Scope Z_scope.

Module G := Verif.Gen.Code.Conan.
Module L := Verif.Gen.Loops.Conan.
Module M := Verif.Eco.Conan.Version.
Module T := Verif.Tie.Conan.

(* ---------- general lemmas (copies of the pilots' where noted) ---------- *)

Lemma take_while_length_le (p : ascii -> bool) (s : bytes) :
  (length (take_while p s) <= length s)%nat.
Proof.
  induction s as [|c s IH]; cbn [take_while length]; [lia|].
  destruct (p c); cbn [length]; lia.
Qed.

Lemma skipn_take_while (p : ascii -> bool) (s : bytes) :
  skipn (length (take_while p s)) s = drop_while p s.
Proof.
  induction s as [|c s IH]; cbn [take_while drop_while length skipn]; [reflexivity|].
  destruct (p c); cbn [length skipn]; [exact IH | reflexivity].
Qed.

(* s[len(prefix):] for the prefix the scanner took *)
Lemma slice_from_take_while (p : ascii -> bool) (s : bytes) :
  slice_from s (Z.of_nat (length (take_while p s))) = Done (drop_while p s).
Proof.
  rewrite slice_from_in_range.
  - rewrite Nat2Z.id, skipn_take_while. reflexivity.
  - pose proof (take_while_length_le p s). unfold len. lia.
Qed.

Lemma beq_nil_r (s : bytes) : beq s [] = match s with [] => true | _ => false end.
Proof. destruct s; reflexivity. Qed.

Lemma Z_of_cmp_Zcompare_ne x y : x <> y -> Z_of_cmp (Z.compare x y) <> 0.
Proof. intros H. destruct (Z.compare_spec x y); [contradiction | discriminate | discriminate]. Qed.

Lemma str_cmp3 (x y : bytes) :
  (if str_lt x y then Done (-1) else if str_lt y x then Done 1 else Done 0)
  = Done (Z_of_cmp (bytes_cmp x y)).
Proof.
  unfold str_lt. rewrite (tp_anti TP_bytes_cmp x y).
  destruct (bytes_cmp x y); reflexivity.
Qed.

(* ---------- 1. naturalCompare ---------- *)

Section Extract.
  (* extractLeadingNumber *)
  Variable extract : bytes -> bytes.
  Hypothesis extract_model : forall s, extract s = take_while is_digit s.

  (* no loop: no fuel; no length hypothesis: the slice bounds are lengths, never incremented *)
  Theorem tie_loops_conan_naturalCompare : forall a b : bytes,
    L.naturalCompare extract a b = Done (Z_of_cmp (M.natural_cmp a b)).
  Proof.
    intros a b. unfold L.naturalCompare. cbv zeta. rewrite !extract_model.
    rewrite !slice_from_take_while. cbn [bind].
    unfold M.natural_cmp, cmp_on, M.nat_key_cmp, lex2, M.nat_key. cbn [fst snd].
    rewrite !beq_nil_r.
    set (ra := drop_while is_digit a). set (rb := drop_while is_digit b).
    destruct (take_while is_digit a) as [|ca na] eqn:Ea;
      destruct (take_while is_digit b) as [|cb nb] eqn:Eb; cbn [negb andb opt_last thenc].
    - apply str_cmp3.
    - reflexivity.
    - reflexivity.
    - rewrite T.tie_conan_compareInt.
      destruct (Z.eqb_spec (atoi_sat (ca :: na)) (atoi_sat (cb :: nb))) as [E|N]; cbn [negb].
      + rewrite E, Z.compare_refl. cbn [thenc]. apply str_cmp3.
      + destruct (Z.compare_spec (atoi_sat (ca :: na)) (atoi_sat (cb :: nb)));
          [contradiction | reflexivity | reflexivity].
  Qed.

  Corollary loops_conan_naturalCompare_no_panic : forall a b,
    exists r, L.naturalCompare extract a b = Done r.
  Proof. intros a b. eexists. apply tie_loops_conan_naturalCompare. Qed.

  Definition naturalCompare_total (a b : bytes) : Z := total 0 (L.naturalCompare extract a b).

  Lemma naturalCompare_total_model : forall a b,
    naturalCompare_total a b = Z_of_cmp (M.natural_cmp a b).
  Proof. intros a b. unfold naturalCompare_total. rewrite tie_loops_conan_naturalCompare. reflexivity. Qed.
End Extract.
Print Assumptions tie_loops_conan_naturalCompare.
Print Assumptions loops_conan_naturalCompare_no_panic.
Print Assumptions naturalCompare_total_model.

(* ---------- 2. compareVersionParts ---------- *)

(* copies of the lemmas of the semver pilot (Tie/Loops/Semver.v) *)
Lemma lex_pad_skipn_step {A} (pad : A) (cmp : A -> A -> comparison) (a b : list A) (n : nat) :
  cmp pad pad = Eq ->
  lex_pad pad cmp (skipn n a) (skipn n b) =
  thenc (cmp (nth n a pad) (nth n b pad)) (lex_pad pad cmp (skipn (S n) a) (skipn (S n) b)).
Proof.
  intros R.
  destruct (Nat.lt_ge_cases n (length a)) as [La|La], (Nat.lt_ge_cases n (length b)) as [Lb|Lb].
  - rewrite (skipn_nth_cons a n pad La), (skipn_nth_cons b n pad Lb). reflexivity.
  - rewrite (skipn_nth_cons a n pad La), (skipn_all2 b Lb), (skipn_all2 b) by lia.
    rewrite (nth_overflow b pad Lb). reflexivity.
  - rewrite (skipn_nth_cons b n pad Lb), (skipn_all2 a La), (skipn_all2 a) by lia.
    rewrite (nth_overflow a pad La). reflexivity.
  - rewrite (skipn_all2 a La), (skipn_all2 b Lb), (skipn_all2 a), (skipn_all2 b) by lia.
    rewrite (nth_overflow a pad La), (nth_overflow b pad Lb), R. reflexivity.
Qed.

Lemma lex_pad_exhausted {A} (pad : A) (cmp : A -> A -> comparison) (a b : list A) (n : nat) :
  (length a <= n)%nat -> (length b <= n)%nat -> lex_pad pad cmp (skipn n a) (skipn n b) = Eq.
Proof. intros La Lb. rewrite (skipn_all2 a La), (skipn_all2 b Lb). reflexivity. Qed.

(* a[i], with a default past the end (the `if i < len(a) { x = a[i] }` idiom) *)
(* the pad's Done is at type [list ascii] in the generated term (a literal), the element's at
   [bytes]: stated with exactly these implicit arguments so that [rewrite] finds it *)
Lemma idx_or_pad (l : list bytes) (i : Z) (d : list ascii) : 0 <= i ->
  (if Z.ltb i (Z.of_nat (length l)) then bind (idx l i) (fun p => Done p) else @Done (list ascii) d)
  = Done (nth (Z.to_nat i) l d).
Proof.
  intros Hi. destruct (Z.ltb_spec i (Z.of_nat (length l))) as [Hlt|Hge].
  - rewrite (idx_in_range l i d) by (unfold len; lia). reflexivity.
  - rewrite nth_overflow by lia. reflexivity.
Qed.

Lemma Z_of_cmp_eqb0 c : Z.eqb (Z_of_cmp c) 0 = match c with Eq => true | _ => false end.
Proof. destruct c; reflexivity. Qed.

Lemma natural_cmp_refl x : M.natural_cmp x x = Eq.
Proof.
  unfold M.natural_cmp, cmp_on, M.nat_key_cmp, lex2.
  assert (E1 : forall o, opt_last Z.compare o o = Eq).
  { intros [z|]; cbn [opt_last]; [apply Z.compare_refl | reflexivity]. }
  rewrite E1. cbn [thenc]. apply bytes_cmp_eq. reflexivity.
Qed.

Section Parts.
  Variable extract : bytes -> bytes.
  Hypothesis extract_model : forall s, extract s = take_while is_digit s.

  Theorem tie_loops_conan_compareVersionParts : forall (a b : list bytes) (fuel : nat),
    fits a -> fits b -> (Nat.max (length a) (length b) < fuel)%nat ->
    L.compareVersionParts extract fuel a b = Done (Z_of_cmp (M.parts_cmp a b)).
  Proof.
    intros a b fuel Fa Fb Hfuel. unfold L.compareVersionParts, M.parts_cmp.
    cbv zeta.
    set (maxLen := if Z.ltb (Z.of_nat (length a)) (Z.of_nat (length b)) then _ else _).
    assert (EmaxLen : maxLen = Z.of_nat (Nat.max (length a) (length b))).
    { subst maxLen. destruct (Z.ltb_spec (Z.of_nat (length a)) (Z.of_nat (length b))); lia. }
    clearbody maxLen.
    set (body := fun i : Z => _).
    pose (cmpAB := lex_pad $"0" M.natural_cmp).
    pose (Inv := fun i : Z => 0 <= i <= maxLen /\
       cmpAB a b = cmpAB (skipn (Z.to_nat i) a) (skipn (Z.to_nat i) b)).
    pose (Q := fun r : Z => r = Z_of_cmp (cmpAB a b)).
    pose (Qb := fun _ : Z => cmpAB a b = Eq).
    assert (R : exit_ok Qb Q (while fuel body 0)).
    { apply (while_rule_fuel body Inv (fun i => Z.to_nat (maxLen - i))).
      - intros i [Hi E]. unfold step_ok, body.
        destruct (Z.ltb_spec i maxLen) as [Hlt|Hge].
        + rewrite (idx_or_pad a i $"0"), (idx_or_pad b i $"0") by lia. cbn [bind].
          set (x := nth (Z.to_nat i) a $"0"). set (y := nth (Z.to_nat i) b $"0").
          assert (E' : cmpAB a b = thenc (M.natural_cmp x y)
                         (cmpAB (skipn (S (Z.to_nat i)) a) (skipn (S (Z.to_nat i)) b))).
          { rewrite E. unfold cmpAB. apply lex_pad_skipn_step. apply natural_cmp_refl. }
          clear E. rename E' into E.
          rewrite (wrap64_succ i maxLen) by (unfold fits in *; lia).
          assert (Go : M.natural_cmp x y = Eq ->
                       Inv (i + 1) /\ (Z.to_nat (maxLen - (i + 1)) < Z.to_nat (maxLen - i))%nat).
          { intros Ec. split; [|lia]. split; [lia|]. rewrite E, Ec, Z_to_nat_succ by lia. reflexivity. }
          destruct (beq x y) eqn:Exy; cbn [negb].
          * apply beq_eq in Exy. apply Go. rewrite Exy. apply natural_cmp_refl.
          * rewrite (tie_loops_conan_naturalCompare extract extract_model). cbn [bind].
            rewrite Z_of_cmp_eqb0.
            destruct (M.natural_cmp x y) eqn:C; cbn [negb].
            -- apply Go. reflexivity.
            -- unfold Q. rewrite E. reflexivity.
            -- unfold Q. rewrite E. reflexivity.
        + unfold Qb. rewrite E. apply lex_pad_exhausted; clear - EmaxLen Hge Hi; unfold bytes in *; lia.
      - split; [lia | reflexivity].
      - lia. }
    destruct (while fuel body 0) as [[i|r]| |]; cbn [exit_ok] in R; try contradiction; cbn [bind].
    - unfold Qb, cmpAB in R. rewrite R. reflexivity.
    - unfold Q, cmpAB in R. rewrite R. reflexivity.
  Qed.

  (* no panic, termination within max (len a) (len b) + 1 iterations *)
  Corollary loops_conan_compareVersionParts_no_panic : forall a b, fits a -> fits b ->
    exists r, L.compareVersionParts extract (S (Nat.max (length a) (length b))) a b = Done r.
  Proof. intros a b Fa Fb. eexists. apply tie_loops_conan_compareVersionParts; [assumption | assumption | lia]. Qed.

  (* the total function that Gen/Code's Version.Compare is generalised over *)
  Definition compareVersionParts_total (a b : list bytes) : Z :=
    total 0 (L.compareVersionParts extract (S (Nat.max (length a) (length b))) a b).

  Lemma compareVersionParts_total_model : forall a b, fits a -> fits b ->
    compareVersionParts_total a b = Z_of_cmp (M.parts_cmp a b).
  Proof.
    intros a b Fa Fb. unfold compareVersionParts_total.
    rewrite tie_loops_conan_compareVersionParts by (assumption || lia). reflexivity.
  Qed.
End Parts.
Print Assumptions tie_loops_conan_compareVersionParts.
Print Assumptions loops_conan_compareVersionParts_no_panic.
Print Assumptions compareVersionParts_total_model.

(* ---------- 3. comparePrerelease ---------- *)

(* DOMAIN.  The model compares the identifier lists with lex_short (a proper prefix is smaller);
   the Go loop pads the shorter list with "" and treats "" as "no identifier".  The two agree
   exactly when no identifier of a non-empty pre-release text is empty ([pre_wf]); NewVersion
   guarantees this (validateIdentifiers; model: [idents_ok], lemma idents_ok_pre_wf below).
   Without it they differ: see [comparePrerelease_model_needs_wf] at the end of this part. *)
Definition pre_wf (p : bytes) : Prop :=
  p <> [] -> Forall (fun x : bytes => x <> []) (split_c "."%char p).

Lemma idents_ok_pre_wf p : M.idents_ok (split_c "."%char p) = true -> pre_wf p.
Proof.
  intros H _. apply Forall_forall. intros x Hx E. subst x.
  unfold M.idents_ok in H. rewrite forallb_forall in H. specialize (H _ Hx).
  discriminate H.
Qed.

Definition fits1 (s : bytes) : Prop := Z.of_nat (length s) + 1 < 2 ^ 63.

(* copy of the semver pilot's *)
Lemma split_c_length c s : (1 <= length (split_c c s) <= S (length s))%nat.
Proof.
  induction s as [|x s IH]; cbn [split_c length]; [lia|].
  destruct (ceqb c x); cbn [length]; [lia|].
  destruct (split_c c s) as [|f fs]; cbn [length] in *; lia.
Qed.

(* a[i] with Go's zero value past the end *)
Lemma idx_or_nil (l : list bytes) (i : Z) : 0 <= i ->
  (if Z.ltb i (Z.of_nat (length l)) then bind (idx l i) (fun p => Done p) else Done ([] : bytes))
  = Done (nth (Z.to_nat i) l []).
Proof.
  intros Hi. destruct (Z.ltb_spec i (Z.of_nat (length l))) as [Hlt|Hge].
  - rewrite (idx_in_range l i []) by (unfold len; lia). reflexivity.
  - rewrite nth_overflow by lia. reflexivity.
Qed.

(* in a list without empty texts, the padded read tells whether the list is exhausted *)
Lemma nth_nil_exhausted (l : list bytes) n :
  Forall (fun x : bytes => x <> []) l -> nth n l [] = [] -> (length l <= n)%nat.
Proof.
  intros F E. destruct (Nat.lt_ge_cases n (length l)) as [H|H]; [|exact H].
  rewrite Forall_forall in F. exfalso. apply (F (nth n l [])); [apply nth_In; exact H | exact E].
Qed.

Lemma nth_cons_present (l : list bytes) n c x : nth n l [] = c :: x -> (n < length l)%nat.
Proof.
  intros E. destruct (Nat.lt_ge_cases n (length l)) as [H|H]; [exact H|].
  rewrite nth_overflow in E by exact H. discriminate.
Qed.

(* the model, one identifier at a time *)
Lemma ident_cmp_num_num x y : nonempty_digits x = true -> nonempty_digits y = true ->
  M.ident_cmp x y = Z.compare (atoi_sat x) (atoi_sat y).
Proof.
  intros Nx Ny. unfold M.ident_cmp, cmp_on, M.ident_key. rewrite Nx, Ny.
  unfold lex2, thenc. cbn [fst snd bool_cmp bytes_cmp]. destruct (Z.compare _ _); reflexivity.
Qed.

Lemma ident_cmp_num_str x y : nonempty_digits x = true -> nonempty_digits y = false ->
  M.ident_cmp x y = Lt.
Proof. intros Nx Ny. unfold M.ident_cmp, cmp_on, M.ident_key. rewrite Nx, Ny. reflexivity. Qed.

Lemma ident_cmp_str_num x y : nonempty_digits x = false -> nonempty_digits y = true ->
  M.ident_cmp x y = Gt.
Proof. intros Nx Ny. unfold M.ident_cmp, cmp_on, M.ident_key. rewrite Nx, Ny. reflexivity. Qed.

Lemma ident_cmp_str_str x y : nonempty_digits x = false -> nonempty_digits y = false ->
  M.ident_cmp x y = bytes_cmp x y.
Proof. intros Nx Ny. unfold M.ident_cmp, cmp_on, M.ident_key. rewrite Nx, Ny. reflexivity. Qed.

Section Prerelease.
  (* numericPattern.MatchString *)
  Variable numeric : bytes -> bool.
  Hypothesis numeric_model : forall s, numeric s = nonempty_digits s.

  Theorem tie_loops_conan_comparePrerelease : forall (a b : bytes) (fuel : nat),
    fits1 a -> fits1 b -> pre_wf a -> pre_wf b ->
    (S (Nat.max (length a) (length b)) < fuel)%nat ->
    L.comparePrerelease numeric fuel a b = Done (Z_of_cmp (M.pre_cmp (T.opt_pre a) (T.opt_pre b))).
  Proof.
    intros a b fuel Fa Fb Wa Wb Hfuel.
    unfold L.comparePrerelease, M.pre_cmp, T.opt_pre.
    destruct a as [|ca a']; destruct b as [|cb b']; cbn [beq andb opt_last]; try reflexivity.
    set (a := ca :: a') in *. set (b := cb :: b') in *.
    specialize (Wa ltac:(discriminate)). specialize (Wb ltac:(discriminate)).
    change (chr 46) with "."%char.
    set (A := split_c "."%char a) in *. set (B := split_c "."%char b) in *.
    cbv zeta.
    set (maxLen := if Z.ltb (Z.of_nat (length A)) (Z.of_nat (length B)) then _ else _).
    assert (EmaxLen : maxLen = Z.of_nat (Nat.max (length A) (length B))).
    { subst maxLen. destruct (Z.ltb_spec (Z.of_nat (length A)) (Z.of_nat (length B))); lia. }
    clearbody maxLen.
    pose proof (split_c_length "."%char a) as LA. pose proof (split_c_length "."%char b) as LB.
    fold A in LA. fold B in LB.
    set (body := fun i : Z => _).
    pose (cmpAB := lex_short M.ident_cmp).
    pose (Inv := fun i : Z => 0 <= i <= maxLen /\
       cmpAB A B = cmpAB (skipn (Z.to_nat i) A) (skipn (Z.to_nat i) B)).
    pose (Q := fun r : Z => r = Z_of_cmp (cmpAB A B)).
    pose (Qb := fun _ : Z => cmpAB A B = Eq).
    assert (R : exit_ok Qb Q (while fuel body 0)).
    { apply (while_rule_fuel body Inv (fun i => Z.to_nat (maxLen - i))).
      - intros i [Hi E]. unfold step_ok, body.
        destruct (Z.ltb_spec i maxLen) as [Hlt|Hge].
        + rewrite (idx_or_nil A i), (idx_or_nil B i) by lia. cbn [bind].
          set (n := Z.to_nat i) in *.
          destruct (nth n A []) as [|c1 x'] eqn:Ex; destruct (nth n B []) as [|c2 y'] eqn:Ey;
            cbn [beq andb negb].
          * (* both lists exhausted: impossible below maxLen *)
            exfalso. apply (nth_nil_exhausted A n Wa) in Ex. apply (nth_nil_exhausted B n Wb) in Ey.
            clear - EmaxLen Hlt Hi Ex Ey. unfold bytes in *. lia.
          * apply (nth_nil_exhausted A n Wa) in Ex. pose proof (nth_cons_present B n _ _ Ey) as Ly.
            unfold Q. rewrite E, (skipn_all2 A Ex), (skipn_nth_cons B n [] Ly). reflexivity.
          * apply (nth_nil_exhausted B n Wb) in Ey. pose proof (nth_cons_present A n _ _ Ex) as Lx.
            unfold Q. rewrite E, (skipn_all2 B Ey), (skipn_nth_cons A n [] Lx). reflexivity.
          * pose proof (nth_cons_present A n _ _ Ex) as Lx. pose proof (nth_cons_present B n _ _ Ey) as Ly.
            change (ceqb c1 c2 && beq x' y')%bool with (beq (c1 :: x') (c2 :: y')).
            set (x := c1 :: x') in *. set (y := c2 :: y') in *.
            assert (E' : cmpAB A B = thenc (M.ident_cmp x y)
                           (cmpAB (skipn (S n) A) (skipn (S n) B))).
            { rewrite E, (skipn_nth_cons A n [] Lx), (skipn_nth_cons B n [] Ly), Ex, Ey. reflexivity. }
            clear E. rename E' into E.
            rewrite (wrap64_succ i maxLen) by (unfold fits1 in *; simpl length in *; lia).
            assert (Step : forall c, M.ident_cmp x y = c -> c <> Eq -> Q (Z_of_cmp c)).
            { intros c Ec Ne. unfold Q. rewrite E, Ec. destruct c; [congruence| |]; reflexivity. }
            assert (Go : M.ident_cmp x y = Eq ->
                         Inv (i + 1) /\ (Z.to_nat (maxLen - (i + 1)) < Z.to_nat (maxLen - i))%nat).
            { intros Ec. split; [|lia]. split; [lia|]. rewrite E, Ec, Z_to_nat_succ by lia. reflexivity. }
            rewrite !numeric_model.
            destruct (nonempty_digits x) eqn:Nx, (nonempty_digits y) eqn:Ny; cbn [andb].
            -- pose proof (ident_cmp_num_num x y Nx Ny) as P.
               destruct (Z.eqb_spec (atoi_sat x) (atoi_sat y)) as [Eq|Ne]; cbn [negb].
               ++ apply Go. rewrite P, Eq. apply Z.compare_refl.
               ++ rewrite T.tie_conan_compareInt. apply Step; [exact P|].
                  intros C. apply Z.compare_eq in C. contradiction.
            -- apply (Step Lt); [apply ident_cmp_num_str; assumption | discriminate].
            -- apply (Step Gt); [apply ident_cmp_str_num; assumption | discriminate].
            -- pose proof (ident_cmp_str_str x y Nx Ny) as P.
               destruct (beq x y) eqn:Exy; cbn [negb].
               ++ apply beq_eq in Exy. apply Go. rewrite P. apply bytes_cmp_eq. exact Exy.
               ++ assert (Ne : bytes_cmp x y <> Eq).
                  { intros C. apply bytes_cmp_eq in C. apply beq_eq in C. congruence. }
                  unfold str_lt. destruct (bytes_cmp x y) eqn:C; [congruence| |].
                  ** apply (Step Lt); [exact P | discriminate].
                  ** apply (Step Gt); [exact P | discriminate].
        + unfold Qb. rewrite E.
          rewrite (skipn_all2 A), (skipn_all2 B) by (clear - EmaxLen Hge Hi; unfold bytes in *; lia).
          reflexivity.
      - split; [lia | reflexivity].
      - lia. }
    destruct (while fuel body 0) as [[i|r]| |]; cbn [exit_ok] in R; try contradiction; cbn [bind].
    - unfold Qb, cmpAB in R. rewrite R. reflexivity.
    - unfold Q, cmpAB in R. rewrite R. reflexivity.
  Qed.
End Prerelease.
Print Assumptions tie_loops_conan_comparePrerelease.

Section PrereleaseCorollaries.
  Variable numeric : bytes -> bool.
  Hypothesis numeric_model : forall s, numeric s = nonempty_digits s.

  (* no panic, termination within max (len a) (len b) + 2 iterations *)
  Corollary loops_conan_comparePrerelease_no_panic : forall a b,
    fits1 a -> fits1 b -> pre_wf a -> pre_wf b ->
    exists r, L.comparePrerelease numeric (S (S (Nat.max (length a) (length b)))) a b = Done r.
  Proof.
    intros a b Fa Fb Wa Wb. eexists.
    apply (tie_loops_conan_comparePrerelease numeric numeric_model); (assumption || lia).
  Qed.

  Definition comparePrerelease_total (a b : bytes) : Z :=
    total 0 (L.comparePrerelease numeric (S (S (Nat.max (length a) (length b)))) a b).

  Lemma comparePrerelease_total_model : forall a b,
    fits1 a -> fits1 b -> pre_wf a -> pre_wf b ->
    comparePrerelease_total a b = Z_of_cmp (M.pre_cmp (T.opt_pre a) (T.opt_pre b)).
  Proof.
    intros a b Fa Fb Wa Wb. unfold comparePrerelease_total.
    rewrite (tie_loops_conan_comparePrerelease numeric numeric_model) by (assumption || lia).
    reflexivity.
  Qed.
End PrereleaseCorollaries.
Print Assumptions loops_conan_comparePrerelease_no_panic.
Print Assumptions comparePrerelease_total_model.

(* [pre_wf] is needed: on pre-release texts with an empty identifier (which NewVersion rejects)
   the Go function and the model differ, so the Hypothesis comparePrerelease_model of
   Tie/Conan.v, quantified over ALL texts, does not hold of the real function.
   "1." against "1": Go pads "1" with "" and finds the second identifiers equal (0), the model
   sees a proper prefix (Gt).  "." against "1": Go returns -1 ("" is "missing"), the model
   ranks the non-numeric "" above the numeric "1" (Gt). *)
Lemma comparePrerelease_model_needs_wf :
  (L.comparePrerelease nonempty_digits 10 $"1." $"1" = Done 0 /\
   M.pre_cmp (T.opt_pre $"1.") (T.opt_pre $"1") = Gt) /\
  (L.comparePrerelease nonempty_digits 10 $"." $"1" = Done (-1) /\
   M.pre_cmp (T.opt_pre $".") (T.opt_pre $"1") = Gt).
Proof. vm_compute. repeat split. Qed.
Print Assumptions comparePrerelease_model_needs_wf.

(* ---------- closing the Section hypotheses of Tie/Conan.v ---------- *)

(* what NewVersion guarantees of a Version value, as far as Compare needs it *)
Definition fits_version (v : G.Version) : Prop :=
  fits (G.Version_parts v) /\ fits1 (G.Version_prerelease v) /\ pre_wf (G.Version_prerelease v).

(* Version.Compare only asks its parameters about the parts and the pre-release texts *)
Lemma Version_Compare_agree (f f' : list bytes -> list bytes -> Z) (g g' : bytes -> bytes -> Z) a b :
  (forall p q, fits p -> fits q -> f p q = f' p q) ->
  (forall p q, fits1 p -> fits1 q -> pre_wf p -> pre_wf q -> g p q = g' p q) ->
  fits_version a -> fits_version b ->
  G.Version_Compare f g a b = G.Version_Compare f' g' a b.
Proof.
  intros Hf Hg (Pa & Fa & Wa) (Pb & Fb & Wb). unfold G.Version_Compare. cbv zeta.
  rewrite (Hf _ _ Pa Pb), (Hg _ _ Fa Fb Wa Wb). reflexivity.
Qed.

Section Closed.
  Variable extract : bytes -> bytes.
  Hypothesis extract_model : forall s, extract s = take_while is_digit s.
  Variable numeric : bytes -> bool.
  Hypothesis numeric_model : forall s, numeric s = nonempty_digits s.

  (* Version.Compare with the real compareVersionParts and comparePrerelease: both Hypotheses
     of Section Compare of Tie/Conan.v discharged, on the values NewVersion can return *)
  Corollary tie_conan_compare_closed : forall a b, fits_version a -> fits_version b ->
    G.Version_Compare (compareVersionParts_total extract) (comparePrerelease_total numeric) a b =
    Z_of_cmp (M.cmp_core (T.abs a) (T.abs b)).
  Proof.
    intros a b Ha Hb.
    rewrite (Version_Compare_agree _ (fun p q => Z_of_cmp (M.parts_cmp p q))
               _ (fun p q => Z_of_cmp (M.pre_cmp (T.opt_pre p) (T.opt_pre q))) a b
               (compareVersionParts_total_model extract extract_model)
               (comparePrerelease_total_model numeric numeric_model) Ha Hb).
    apply T.tie_conan_Version_Compare; intros p q; reflexivity.
  Qed.
End Closed.
Print Assumptions tie_conan_compare_closed.
