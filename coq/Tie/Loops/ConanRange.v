(* Tie/Loops/ConanRange.v — range level: the generated translations of conan's tildeMatch and
   caretMatch (index expressions, loops over the leading parts; Gen/Loops/Conan.v) do not panic,
   terminate with fuel linear in the number of parts of the constraint, and compute
   "version >= bound" && the model's test on the main parts (Eco/Conan/Range.v: tilde_parts,
   caret_parts).  Discharges the Hypotheses tildeMatch_model / caretMatch_model of
   Tie/ConanRange.v, and with Tie/Loops/Conan.v all four function hypotheses of its Section
   Model (tie_conan_contains_closed).

   Both functions call Version.Compare, which Gen/Code generalises over compareVersionParts /
   comparePrerelease: the generated functions take total stand-ins for them as arguments and the
   theorems hold for ARBITRARY stand-ins (the result is stated in terms of the same Compare).
   extractLeadingNumber is assumed as in Tie/Loops/Conan.v. *)
From Coq Require Import ZArith List Bool Lia Ascii.
From Verif.Base Require Import Bytes GoNum GoOps Ord BytesFacts Imp ImpFacts.
From Verif.Eco Require Import RangeCore.
From Verif.Eco.Conan Require Version Range.
From Verif.Gen.Code Require Conan.
From Verif.Gen.Loops Require Conan.
From Verif.Tie Require Import Tactics.
From Verif.Tie Require Conan ConanRange.
From Verif.Tie.Loops Require Import Common.
From Verif.Tie.Loops Require Conan.
Import ListNotations.
Local Open Scope Z_scope.

Module G := Verif.Gen.Code.Conan.
Module L := Verif.Gen.Loops.Conan.
Module M := Verif.Eco.Conan.Version.
Module R := Verif.Eco.Conan.Range.
Module T := Verif.Tie.Conan.
Module TR := Verif.Tie.ConanRange.
Module TL := Verif.Tie.Loops.Conan.

(* ---------- the model on the unread suffixes ---------- *)

Lemma hd_pad_skipn {A} (l : list A) n (d : A) :
  match skipn n l with x :: _ => x | [] => d end = nth n l d.
Proof.
  revert l. induction n as [|n IH]; intros [|x l]; cbn [skipn nth]; try reflexivity. apply IH.
Qed.

Lemma hd_pad_nth0 {A} (l : list A) (d : A) : nth 0 l d = match l with x :: _ => x | [] => d end.
Proof. destruct l; reflexivity. Qed.

Lemma tl_skipn {A} (l : list A) n : tl (skipn n l) = skipn (S n) l.
Proof.
  revert l. induction n as [|n IH]; intros [|x l].
  - reflexivity.
  - reflexivity.
  - reflexivity.
  - change (skipn (S n) (x :: l)) with (skipn n l). rewrite IH. reflexivity.
Qed.

Lemma parts_match_skipn_S k n vp cp :
  R.parts_match (S k) (skipn n vp) (skipn n cp) =
  R.part_eq (nth n vp $"0") (nth n cp $"0") && R.parts_match k (skipn (S n) vp) (skipn (S n) cp).
Proof. cbn [R.parts_match]. rewrite !hd_pad_skipn, !tl_skipn. reflexivity. Qed.

(* ---------- the three loops, once ---------- *)

(* a loop that compares part i of the version (padded with "0") with part i of the constraint
   for i = 0 .. limit-1 and returns false at the first difference *)
Section MatchLoop.
  Variable body : Z -> res (step Z bool).
  Variable limit : Z.
  Variable vp cp : list bytes.
  Hypothesis body_in : forall i, 0 <= i < limit ->
    body i = Done (if R.part_eq (nth (Z.to_nat i) vp $"0") (nth (Z.to_nat i) cp $"0")
                   then Next (i + 1) else Ret false).
  Hypothesis body_out : forall i, limit <= i -> body i = Done (Break i).

  Lemma match_loop_from : forall (k : nat) (i : Z) (fuel : nat),
    0 <= i -> i + Z.of_nat k = limit -> (k < fuel)%nat ->
    while fuel body i =
    Done (if R.parts_match k (skipn (Z.to_nat i) vp) (skipn (Z.to_nat i) cp)
          then Fell limit else Returned false).
  Proof.
    induction k as [|k IH]; intros i fuel Hi E Hf; (destruct fuel as [|fuel]; [lia|]); cbn [while].
    - rewrite body_out by lia. cbn [R.parts_match]. f_equal. f_equal. lia.
    - rewrite body_in by lia. rewrite parts_match_skipn_S.
      destruct (R.part_eq _ _); cbn [andb]; [|reflexivity].
      rewrite (IH (i + 1) fuel) by lia. rewrite Z_to_nat_succ by lia. reflexivity.
  Qed.

  Lemma match_loop : forall fuel, 0 <= limit -> (Z.to_nat limit < fuel)%nat ->
    while fuel body 0 =
    Done (if R.parts_match (Z.to_nat limit) vp cp then Fell limit else Returned false).
  Proof.
    intros fuel Hl Hf. rewrite (match_loop_from (Z.to_nat limit) 0 fuel) by lia. reflexivity.
  Qed.
End MatchLoop.

Lemma ge_c_cmp_of_Z z : R.ge_c (cmp_of_Z z) = negb (Z.ltb z 0).
Proof.
  unfold R.ge_c, cmp_of_Z. destruct (Z.compare_spec z 0), (Z.ltb_spec z 0); try reflexivity; lia.
Qed.

Lemma part_eq_Z x y : Z.eqb (Z_of_cmp (M.natural_cmp x y)) 0 = R.part_eq x y.
Proof. unfold R.part_eq. destruct (M.natural_cmp x y); reflexivity. Qed.

Section Range.
  Variable cvp : list bytes -> list bytes -> Z.     (* stand-in for compareVersionParts *)
  Variable cpr : bytes -> bytes -> Z.               (* stand-in for comparePrerelease *)
  Variable extract : bytes -> bytes.
  Hypothesis extract_model : forall s, extract s = take_while is_digit s.

  Local Notation compare := (G.Version_Compare cvp cpr).
  Local Notation nc_ok := (TL.tie_loops_conan_naturalCompare extract extract_model).

  (* ---------- 4. tildeMatch ---------- *)

  Theorem tie_loops_conan_tildeMatch : forall (r : G.VersionRange) (v c : G.Version) (fuel : nat),
    (2 < fuel)%nat ->
    L.VersionRange_tildeMatch cvp cpr extract fuel r v c =
    Done (R.ge_c (cmp_of_Z (compare v c)) && R.tilde_parts (G.Version_parts v) (G.Version_parts c)).
  Proof.
    intros r v c fuel Hfuel. unfold L.VersionRange_tildeMatch. rewrite ge_c_cmp_of_Z.
    generalize (compare v c). intros z.
    generalize (G.Version_parts v) (G.Version_parts c). intros vp cp.
    destruct (Z.ltb z 0); cbn [negb andb]; [reflexivity|].
    destruct cp as [|c0 [|c1 cr]].
    - reflexivity.
    - cbn [length Z.of_nat Z.eqb Pos.of_succ_nat Pos.eqb]. cbv zeta.
      change (Z.ltb 0 1) with true. cbn [R.tilde_parts R.parts_match tl].
      rewrite (idx_in_range [c0] 0 []) by (cbn; lia). cbn [Z.to_nat nth].
      etransitivity; [|rewrite andb_true_r; reflexivity].
      rewrite (TL.idx_or_pad vp 0 $"0") by lia. cbn [bind Z.to_nat].
      rewrite nc_ok. cbn [bind]. rewrite part_eq_Z. rewrite hd_pad_nth0. reflexivity.
    - set (cp := c0 :: c1 :: cr).
      assert (Lcp : 2 <= Z.of_nat (length cp)) by (cbn [cp length]; lia).
      destruct (Z.eqb_spec (Z.of_nat (length cp)) 0) as [H0|_]; [lia|]. cbv zeta.
      destruct (Z.eqb_spec (Z.of_nat (length cp)) 1) as [H1|_]; [lia|].
      set (body := fun i : Z => _).
      assert (W := match_loop body 2 vp cp).
      rewrite W; [| | |lia|exact Hfuel].
      + cbn [bind]. change (R.tilde_parts vp cp) with (R.parts_match 2 vp cp).
        change (Z.to_nat 2) with 2%nat. destruct (R.parts_match 2 vp cp); reflexivity.
      + intros i Hi. unfold body. destruct (Z.ltb_spec i 2) as [_|]; [|lia].
        rewrite (TL.idx_or_pad vp i $"0") by lia. cbn [bind].
        rewrite (idx_in_range cp i $"0") by (unfold len; lia). cbn [bind].
        rewrite nc_ok. cbn [bind]. rewrite part_eq_Z, (wrap64_succ i 2) by lia.
        destruct (R.part_eq _ _); reflexivity.
      + intros i Hi. unfold body. destruct (Z.ltb_spec i 2) as [|_]; [lia|]. reflexivity.
  Qed.

  (* ---------- 5. caretMatch ---------- *)

  (* fuel: the third loop runs over all parts of the constraint but the last *)
  Theorem tie_loops_conan_caretMatch : forall (r : G.VersionRange) (v c : G.Version) (fuel : nat),
    fits (G.Version_parts c) ->
    (Nat.max 2 (length (G.Version_parts c)) < fuel)%nat ->
    L.VersionRange_caretMatch cvp cpr extract fuel r v c =
    Done (R.ge_c (cmp_of_Z (compare v c)) && R.caret_parts (G.Version_parts v) (G.Version_parts c)).
  Proof.
    intros r v c fuel Fc Hfuel. unfold L.VersionRange_caretMatch. rewrite ge_c_cmp_of_Z.
    generalize (compare v c). intros z.
    revert Fc Hfuel. generalize (G.Version_parts v) (G.Version_parts c). intros vp cp Fc Hfuel.
    destruct (Z.ltb z 0); cbn [negb andb]; [reflexivity|].
    destruct cp as [|c0 cr]; [reflexivity|].
    set (cp := c0 :: cr) in *.
    assert (Lcp : 1 <= Z.of_nat (length cp)) by (cbn [cp length]; lia).
    destruct (Z.eqb_spec (Z.of_nat (length cp)) 0) as [H0|_]; [lia|].
    destruct (Z.leb_spec 1 (Z.of_nat (length cp))) as [_|]; [|lia].
    rewrite (idx_in_range cp 0 $"0") by (unfold len; lia). cbn [bind Z.to_nat].
    change (nth 0 cp $"0") with c0.
    rewrite nc_ok. cbn [bind]. rewrite part_eq_Z.
    change (R.caret_parts vp cp) with
      (if negb (R.part_eq c0 $"0") then R.parts_match 1 vp cp
       else match cr with
            | c1 :: _ => if negb (R.part_eq c1 $"0") then R.parts_match 2 vp cp
                         else R.parts_match (length cp - 1) vp cp
            | [] => R.parts_match (length cp - 1) vp cp
            end).
    destruct (negb (R.part_eq c0 $"0")).
    - (* major is not zero: the first part *)
      cbv zeta. rewrite (TL.idx_or_pad vp 0 $"0") by lia. cbn [bind Z.to_nat].
      rewrite nc_ok. cbn [bind]. rewrite part_eq_Z, hd_pad_nth0.
      cbn [R.parts_match cp]. rewrite andb_true_r. reflexivity.
    - assert (Third :
        forall body : Z -> res (step Z bool),
        (forall i, body i =
           if Z.ltb i (wrap64 (Z.of_nat (length cp) - 1)) then
             bind (if Z.ltb i (Z.of_nat (length vp)) then bind (idx vp i) (fun p => Done p)
                   else @Done (list ascii) $"0")
               (fun vPart => bind (idx cp i) (fun e7 =>
                bind (L.naturalCompare extract vPart e7) (fun r6 =>
                if negb (Z.eqb r6 0) then Done (Ret false) else Done (Next (wrap64 (i + 1))))))
           else Done (Break i)) ->
        bind (while fuel body 0)
             (fun lp => match lp with Fell _ => Done true | Returned r7 => Done r7 end)
        = Done (R.parts_match (length cp - 1) vp cp)).
      { intros body Hbody.
        assert (Elim : wrap64 (Z.of_nat (length cp) - 1) = Z.of_nat (length cp) - 1).
        { apply wrap64_small. unfold fits in Fc. lia. }
        rewrite (match_loop body (Z.of_nat (length cp) - 1) vp cp); [| | |lia|lia].
        + cbn [bind]. replace (Z.to_nat (Z.of_nat (length cp) - 1)) with (length cp - 1)%nat by lia.
          destruct (R.parts_match _ vp cp); reflexivity.
        + intros i Hi. rewrite Hbody, Elim. destruct (Z.ltb_spec i (Z.of_nat (length cp) - 1)) as [_|]; [|lia].
          rewrite (TL.idx_or_pad vp i $"0") by lia. cbn [bind].
          rewrite (idx_in_range cp i $"0") by (unfold len; lia). cbn [bind].
          rewrite nc_ok. cbn [bind].
          rewrite part_eq_Z, (wrap64_succ i (Z.of_nat (length cp))) by (unfold fits in Fc; lia).
          destruct (R.part_eq _ _); reflexivity.
        + intros i Hi. rewrite Hbody, Elim.
          destruct (Z.ltb_spec i (Z.of_nat (length cp) - 1)) as [|_]; [lia|]. reflexivity. }
      destruct cr as [|c1 cr'].
      + (* one part, zero: the third loop, over no part *)
        cbn [cp length Z.of_nat Pos.of_succ_nat]. change (Z.leb 2 1) with false. cbn [bind].
        cbv zeta. apply (Third _). intros i. reflexivity.
      + assert (Lcp2 : 2 <= Z.of_nat (length cp)) by (cbn [cp length]; lia).
        destruct (Z.leb_spec 2 (Z.of_nat (length cp))) as [_|]; [|lia].
        rewrite (idx_in_range cp 1 $"0") by (unfold len; lia). cbn [bind].
        change (nth (Z.to_nat 1) cp $"0") with c1.
        rewrite nc_ok. cbn [bind]. rewrite part_eq_Z.
        destruct (negb (R.part_eq c1 $"0")).
        * (* minor is not zero: the first two parts, both padded *)
          cbv zeta. set (body := fun i : Z => _).
          rewrite (match_loop body 2 vp cp); [| | |lia|lia].
          -- cbn [bind]. change (Z.to_nat 2) with 2%nat. destruct (R.parts_match 2 vp cp); reflexivity.
          -- intros i Hi. unfold body. destruct (Z.ltb_spec i 2) as [_|]; [|lia].
             rewrite (TL.idx_or_pad vp i $"0"), (TL.idx_or_pad cp i $"0") by lia. cbn [bind].
             rewrite nc_ok. cbn [bind]. rewrite part_eq_Z, (wrap64_succ i 2) by lia.
             destruct (R.part_eq _ _); reflexivity.
          -- intros i Hi. unfold body. destruct (Z.ltb_spec i 2) as [|_]; [lia|]. reflexivity.
        * cbv zeta. apply (Third _). intros i. reflexivity.
  Qed.
End Range.
Print Assumptions tie_loops_conan_tildeMatch.
Print Assumptions tie_loops_conan_caretMatch.

(* ---------- corollaries ---------- *)

Section RangeCorollaries.
  Variable cvp : list bytes -> list bytes -> Z.
  Variable cpr : bytes -> bytes -> Z.
  Variable extract : bytes -> bytes.
  Hypothesis extract_model : forall s, extract s = take_while is_digit s.

  Local Notation compare := (G.Version_Compare cvp cpr).

  (* no panic; tildeMatch runs at most 2 iterations, caretMatch at most max 2 (len parts - 1) *)
  Corollary loops_conan_tildeMatch_no_panic : forall r v c,
    exists b, L.VersionRange_tildeMatch cvp cpr extract 3 r v c = Done b.
  Proof. intros r v c. eexists. apply (tie_loops_conan_tildeMatch cvp cpr extract extract_model). lia. Qed.

  Corollary loops_conan_caretMatch_no_panic : forall r v c, fits (G.Version_parts c) ->
    exists b, L.VersionRange_caretMatch cvp cpr extract
                (S (Nat.max 2 (length (G.Version_parts c)))) r v c = Done b.
  Proof.
    intros r v c Fc. eexists.
    apply (tie_loops_conan_caretMatch cvp cpr extract extract_model); [exact Fc | lia].
  Qed.

  (* the total functions that Gen/Code's constraintSatisfied is generalised over *)
  Definition tildeMatch_total (r : G.VersionRange) (v c : G.Version) : bool :=
    total false (L.VersionRange_tildeMatch cvp cpr extract 3 r v c).
  Definition caretMatch_total (r : G.VersionRange) (v c : G.Version) : bool :=
    total false (L.VersionRange_caretMatch cvp cpr extract
                   (S (Nat.max 2 (length (G.Version_parts c)))) r v c).

  (* the Hypothesis tildeMatch_model of Tie/ConanRange.v, unconditionally *)
  Lemma tildeMatch_total_model : forall r v c,
    tildeMatch_total r v c =
    R.ge_c (cmp_of_Z (compare v c)) && R.tilde_parts (G.Version_parts v) (G.Version_parts c).
  Proof.
    intros r v c. unfold tildeMatch_total.
    rewrite (tie_loops_conan_tildeMatch cvp cpr extract extract_model) by lia. reflexivity.
  Qed.

  (* the Hypothesis caretMatch_model, for constraints whose part list has an int length *)
  Lemma caretMatch_total_model : forall r v c, fits (G.Version_parts c) ->
    caretMatch_total r v c =
    R.ge_c (cmp_of_Z (compare v c)) && R.caret_parts (G.Version_parts v) (G.Version_parts c).
  Proof.
    intros r v c Fc. unfold caretMatch_total.
    rewrite (tie_loops_conan_caretMatch cvp cpr extract extract_model) by (assumption || lia).
    reflexivity.
  Qed.
End RangeCorollaries.
Print Assumptions loops_conan_tildeMatch_no_panic.
Print Assumptions loops_conan_caretMatch_no_panic.
Print Assumptions tildeMatch_total_model.
Print Assumptions caretMatch_total_model.

(* ---------- closing the function hypotheses of Section Model of Tie/ConanRange.v ---------- *)

Lemma existsb_ext_in {A} (f g : A -> bool) l :
  (forall x, In x l -> f x = g x) -> existsb f l = existsb g l.
Proof.
  induction l as [|a l IH]; intros H; cbn [existsb]; [reflexivity|].
  rewrite (H a (or_introl eq_refl)), IH; [reflexivity|].
  intros x Hx. apply H. right. exact Hx.
Qed.

Section Closed.
  Variable extract : bytes -> bytes.
  Hypothesis extract_model : forall s, extract s = take_while is_digit s.
  Variable numeric : bytes -> bool.
  Hypothesis numeric_model : forall s, numeric s = nonempty_digits s.

  (* the representation bridge of Tie/ConanRange.v (parsed struct <-> text + oracle) stays *)
  Variable vcmp : bytes -> bytes -> comparison.
  Variable txt : G.Version -> bytes.
  Hypothesis txt_cmp : forall a b, vcmp (txt a) (txt b) = M.cmp_core (T.abs a) (T.abs b).
  Hypothesis txt_parts : forall a, R.parts_of (txt a) = Some (G.Version_parts a).

  (* the real callees *)
  Let cvpT := TL.compareVersionParts_total extract.
  Let cprT := TL.comparePrerelease_total numeric.
  Let tildeT := tildeMatch_total cvpT cprT extract.
  Let caretT := caretMatch_total cvpT cprT extract.
  (* what they compute, as total functions defined from the model *)
  Let cvpI := fun p q : list bytes => Z_of_cmp (M.parts_cmp p q).
  Let cprI := fun p q : bytes => Z_of_cmp (M.pre_cmp (T.opt_pre p) (T.opt_pre q)).
  Let tildeI := fun (r : G.VersionRange) (v c : G.Version) =>
    R.ge_c (cmp_of_Z (G.Version_Compare cvpI cprI v c)) && R.tilde_parts (G.Version_parts v) (G.Version_parts c).
  Let caretI := fun (r : G.VersionRange) (v c : G.Version) =>
    R.ge_c (cmp_of_Z (G.Version_Compare cvpI cprI v c)) && R.caret_parts (G.Version_parts v) (G.Version_parts c).

  Lemma compare_agree a b : TL.fits_version a -> TL.fits_version b ->
    G.Version_Compare cvpT cprT a b = G.Version_Compare cvpI cprI a b.
  Proof.
    intros Ha Hb. apply TL.Version_Compare_agree; try assumption.
    - apply (TL.compareVersionParts_total_model extract extract_model).
    - apply (TL.comparePrerelease_total_model numeric numeric_model).
  Qed.

  (* Contains with the real tildeMatch, caretMatch, compareVersionParts and comparePrerelease
     equals the model's contains, on the values NewVersion / NewVersionRange can return *)
  Corollary tie_conan_contains_closed : forall r v,
    TL.fits_version v ->
    (forall g c, In g (G.VersionRange_orGroups r) -> In c g ->
                 TL.fits_version (G.constraint_version c)) ->
    G.VersionRange_Contains tildeT caretT cvpT cprT r v = R.contains vcmp (TR.abs_r txt r) (txt v).
  Proof.
    intros r v Fv Fr.
    rewrite <- (TR.tie_conan_VersionRange_Contains tildeI caretI cvpI cprI
                  (fun _ _ => eq_refl) (fun _ _ => eq_refl) (fun _ _ _ => eq_refl)
                  (fun _ _ _ => eq_refl) vcmp txt txt_cmp txt_parts r v).
    unfold G.VersionRange_Contains.
    destruct (Z.eqb _ 0); [reflexivity|].
    apply existsb_ext_in. intros g Hg. unfold G.VersionRange_groupSatisfied.
    apply forallb_ext_in. intros c Hc. specialize (Fr g c Hg Hc).
    unfold G.VersionRange_constraintSatisfied. cbv zeta.
    rewrite (compare_agree v (G.constraint_version c) Fv Fr).
    assert (Et : tildeT r v (G.constraint_version c) = tildeI r v (G.constraint_version c)).
    { unfold tildeT, tildeI. rewrite (tildeMatch_total_model _ _ extract extract_model).
      rewrite (compare_agree _ _ Fv Fr). reflexivity. }
    assert (Ec : caretT r v (G.constraint_version c) = caretI r v (G.constraint_version c)).
    { unfold caretT, caretI. rewrite (caretMatch_total_model _ _ extract extract_model) by apply Fr.
      rewrite (compare_agree _ _ Fv Fr). reflexivity. }
    rewrite Et, Ec. reflexivity.
  Qed.
End Closed.
Print Assumptions tie_conan_contains_closed.
