(* Tie/Loops/Cran.v — the generated translation of cran's Version.Compare (index loop,
   Gen/Loops/Cran.v) does not panic, terminates with linear fuel, and returns the sign of the
   model's comparison (Eco/Cran/Version.v, cmp_core).  Discharges the Section variable
   [compare] of Tie/Cran.v. *)
From Coq Require Import ZArith List Bool Lia.
From Verif.Base Require Import Bytes GoNum GoOps Ord Imp ImpFacts.
From Verif.Eco Require Import RangeCore.
From Verif.Eco.Cran Require Version.
From Verif.Gen.Code Require Cran.
From Verif.Gen.Loops Require Cran.
From Verif.Tie Require Import Tactics.
From Verif.Tie Require Cran.
From Verif.Tie.Loops Require Import Common.
Import ListNotations.
Local Open Scope Z_scope.

Module G := Verif.Gen.Code.Cran.
Module L := Verif.Gen.Loops.Cran.
Module M := Verif.Eco.Cran.Version.
Module T := Verif.Tie.Cran.

(* the model on the unread suffixes *)
Lemma lex_short_skipn_eq (a b : list Z) (n : nat) :
  (n < length a)%nat -> (n < length b)%nat -> nth n a 0 = nth n b 0 ->
  lex_short Z.compare (skipn n a) (skipn n b) = lex_short Z.compare (skipn (S n) a) (skipn (S n) b).
Proof.
  intros La Lb E. rewrite (skipn_nth_cons a n 0 La), (skipn_nth_cons b n 0 Lb).
  cbn [lex_short]. rewrite E, Z.compare_refl. reflexivity.
Qed.

Lemma lex_short_skipn_ne (a b : list Z) (n : nat) :
  (n < length a)%nat -> (n < length b)%nat -> nth n a 0 <> nth n b 0 ->
  lex_short Z.compare (skipn n a) (skipn n b) = Z.compare (nth n a 0) (nth n b 0).
Proof.
  intros La Lb E. rewrite (skipn_nth_cons a n 0 La), (skipn_nth_cons b n 0 Lb).
  cbn [lex_short]. destruct (Z.compare_spec (nth n a 0) (nth n b 0)); [contradiction | reflexivity | reflexivity].
Qed.

Lemma lex_short_exhausted (a b : list Z) (n : nat) :
  n = Nat.min (length a) (length b) ->
  lex_short Z.compare (skipn n a) (skipn n b) = Z.compare (Z.of_nat (length a)) (Z.of_nat (length b)).
Proof.
  intros E. destruct (Nat.le_ge_cases (length a) (length b)) as [H|H].
  - rewrite Nat.min_l in E by exact H. subst n. rewrite skipn_all.
    destruct (skipn (length a) b) eqn:S; cbn [lex_short].
    + apply skipn_nil_len in S. symmetry. apply Z.compare_eq_iff. lia.
    + apply skipn_cons_len in S. symmetry. apply Z.compare_lt_iff. lia.
  - rewrite Nat.min_r in E by exact H. subst n. rewrite (skipn_all b).
    destruct (skipn (length b) a) eqn:S; cbn [lex_short].
    + apply skipn_nil_len in S. symmetry. apply Z.compare_eq_iff. lia.
    + apply skipn_cons_len in S. symmetry. apply Z.compare_gt_iff. lia.
Qed.

(* no panic, linear fuel, and the model's answer *)
Theorem tie_loops_cran_compare : forall (v o : G.Version) (fuel : nat),
  fits (G.Version_components v) -> fits (G.Version_components o) ->
  (Nat.min (length (G.Version_components v)) (length (G.Version_components o)) < fuel)%nat ->
  L.Version_Compare fuel v o = Done (Z_of_cmp (M.cmp_core (T.abs v) (T.abs o))).
Proof.
  intros v o fuel Fa Fb Hfuel. unfold L.Version_Compare, T.abs, M.cmp_core.
  set (a := G.Version_components v) in *. set (b := G.Version_components o) in *.
  cbv zeta.
  set (minLen := if Z.ltb (Z.of_nat (length b)) (Z.of_nat (length a)) then _ else _).
  assert (EminLen : minLen = Z.of_nat (Nat.min (length a) (length b))).
  { subst minLen. destruct (Z.ltb_spec (Z.of_nat (length b)) (Z.of_nat (length a))); lia. }
  set (body := fun i : Z => _).
  pose (Inv := fun i : Z => 0 <= i <= minLen /\
     lex_short Z.compare a b = lex_short Z.compare (skipn (Z.to_nat i) a) (skipn (Z.to_nat i) b)).
  pose (Q := fun r : Z => r = Z_of_cmp (lex_short Z.compare a b)).
  pose (Qb := fun _ : Z => Q (G.compareInt (Z.of_nat (length a)) (Z.of_nat (length b)))).
  assert (R : exit_ok Qb Q (while fuel body 0)).
  { apply (while_rule_fuel body Inv (fun i => Z.to_nat (minLen - i))).
    - intros i [Hi E]. unfold step_ok, body.
      destruct (Z.ltb_spec i minLen) as [Lt|Ge].
      + assert (La : (Z.to_nat i < length a)%nat) by lia.
        assert (Lb : (Z.to_nat i < length b)%nat) by lia.
        rewrite (idx_in_range a i 0) by (unfold len; lia).
        rewrite (idx_in_range b i 0) by (unfold len; lia).
        cbn [bind].
        destruct (Z.eqb_spec (nth (Z.to_nat i) a 0) (nth (Z.to_nat i) b 0)) as [Eq|Ne]; cbn [negb].
        * rewrite (wrap64_succ i minLen) by (unfold fits in *; lia).
          split; [|lia]. split; [lia|].
          rewrite E, Z_to_nat_succ by lia. apply lex_short_skipn_eq; assumption.
        * unfold Q. rewrite T.tie_cran_compareInt, E. f_equal. symmetry.
          apply lex_short_skipn_ne; assumption.
      + unfold Qb, Q. rewrite T.tie_cran_compareInt, E. f_equal. symmetry.
        apply lex_short_exhausted. lia.
    - split; [lia | reflexivity].
    - lia. }
  destruct (while fuel body 0) as [[i|r]| |]; cbn [exit_ok] in R; try contradiction; cbn [bind].
  - unfold Qb, Q in R. rewrite R. reflexivity.
  - unfold Q in R. rewrite R. reflexivity.
Qed.
Print Assumptions tie_loops_cran_compare.

(* C06 for Compare: no panic and termination within S (min (len a) (len b)) iterations *)
Corollary loops_cran_compare_no_panic : forall v o,
  fits (G.Version_components v) -> fits (G.Version_components o) ->
  exists r, L.Version_Compare (S (Nat.min (length (G.Version_components v)) (length (G.Version_components o)))) v o = Done r.
Proof. intros v o Fa Fb. eexists. apply tie_loops_cran_compare; [assumption | assumption | lia]. Qed.
Print Assumptions loops_cran_compare_no_panic.

(* the total function that Gen/Code's range functions are generalised over *)
Definition Version_Compare_total (v o : G.Version) : Z :=
  total 0 (L.Version_Compare (S (Nat.min (length (G.Version_components v)) (length (G.Version_components o)))) v o).

Lemma Version_Compare_total_model : forall v o,
  fits (G.Version_components v) -> fits (G.Version_components o) ->
  Version_Compare_total v o = Z_of_cmp (M.cmp_core (T.abs v) (T.abs o)).
Proof.
  intros v o Fa Fb. unfold Version_Compare_total.
  rewrite tie_loops_cran_compare by (assumption || lia). reflexivity.
Qed.
Print Assumptions Version_Compare_total_model.
