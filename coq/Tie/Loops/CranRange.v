(* Tie/Loops/CranRange.v — range level: Contains of the generated code applied to the REAL Compare
   (the total function of Tie/Loops/Cran.v) equals the model's conjunction of comparators. *)
From Coq Require Import ZArith List Bool Lia.
From Verif.Base Require Import Bytes GoNum GoOps Ord Imp ImpFacts.
From Verif.Eco Require Import RangeCore.
From Verif.Eco.Cran Require Version Range.
From Verif.Gen.Code Require Cran.
From Verif.Tie Require Import Tactics.
From Verif.Tie Require Cran CranRange.
From Verif.Tie.Loops Require Import Common.
From Verif.Tie.Loops Require Cran.
Import ListNotations.
Local Open Scope Z_scope.

Module G := Verif.Gen.Code.Cran.
Module M := Verif.Eco.Cran.Version.
Module T := Verif.Tie.Cran.
Module TR := Verif.Tie.CranRange.
Module TL := Verif.Tie.Loops.Cran.

(* Contains with the real Compare: the Hypothesis compare_model of Tie/Cran.v, discharged on
   ranges and versions whose component lists have an int length *)
Corollary tie_cran_contains_closed : forall r v,
  fits (G.Version_components v) ->
  (forall c, In c (G.VersionRange_constraints r) -> fits (G.Version_components (G.constraint_version c))) ->
  G.VersionRange_Contains TL.Version_Compare_total r v =
  forallb (fun c => sat (rc_sem Range.cfg (G.constraint_operator c)) (M.cmp_core (T.abs v) (T.abs (G.constraint_version c))))
          (G.VersionRange_constraints r).
Proof.
  intros r v Fv Fr. rewrite TR.tie_cran_contains. apply forallb_ext_in. intros c Hc.
  rewrite TL.Version_Compare_total_model by auto. rewrite cmp_of_Z_of_cmp. reflexivity.
Qed.
Print Assumptions tie_cran_contains_closed.
