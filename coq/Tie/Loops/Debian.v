(* Tie/Loops/Debian.v — the generated translation of the functions WITH loops of
   pkg/ecosystem/debian/version.go (Gen/Loops/Debian.v: compareDebianVersionString,
   compareDebianNonDigits, getDebianCharWeight, compareDebianDigits) against the model
   (Eco/Debian/Version.v): no panic, termination within an explicit fuel, and the result.

   DOMAIN.  Theorems 3-5 carry the hypothesis [fits s] (Tie/Loops/Common.v: len s < 2^63) on both
   strings.  It is needed: a Coq list may be longer than MaxInt64, and then the cursor increment
   wrap64 (i + 1) of the generated code wraps around; a Go string cannot be that long, so this
   is the real domain.  For the same reason the closed form of Tie/Debian.tie_debian_compare
   ([tie_debian_compare_closed]) asks that the upstream and revision fields of both versions fit.

   FUEL.  compareDebianNonDigits: any fuel above max (len a) (len b); compareDebianVersionString:
   any fuel above len a + len b (the inner scanners and compareDebianNonDigits run on the same
   fuel in the generated code; each needs at most the length of one string).

   The proofs depend on the four top-level definitions of Gen/Loops/Debian.v only, never on the
   names of their local variables: loop bodies are captured with [set] / [match goal], the
   scanners are recognised up to conversion ([scan_while_ext ... (fun _ => eq_refl)]). *)
From Coq Require Import ZArith List Bool Lia Ascii.
From Verif.Base Require Import Bytes GoNum GoOps Ord BytesFacts Imp ImpFacts.
From Verif.Eco.Debian Require Version VersionFacts.
From Verif.Gen.Code Require Debian.
From Verif.Gen.Loops Require Debian.
From Verif.Tie Require Import Tactics.
From Verif.Tie Require Debian.
From Verif.Tie.Loops Require Import Common Scan.
Import ListNotations.
Local Open Scope Z_scope.

Module L := Verif.Gen.Loops.Debian.
Module M := Verif.Eco.Debian.Version.
Module MF := Verif.Eco.Debian.VersionFacts.

Theorem tie_loops_debian_compareDebianDigits : forall a b,
  L.compareDebianDigits a b = Z_of_cmp (digits_cmp a b).
Proof.
  intros a b. unfold L.compareDebianDigits, digits_cmp, strip_zeros.
  change (chr 48) with "0"%char. cbv zeta.
  set (a' := drop_while _ a). set (b' := drop_while _ b).
  destruct (Nat.compare_spec (length a') (length b')) as [E|E|E]; cbn [thenc].
  - rewrite E. rewrite Z.ltb_irrefl. reflexivity.
  - destruct (Z.ltb_spec (Z.of_nat (length a')) (Z.of_nat (length b'))); [reflexivity | lia].
  - destruct (Z.ltb_spec (Z.of_nat (length a')) (Z.of_nat (length b'))); [lia|].
    destruct (Z.ltb_spec (Z.of_nat (length b')) (Z.of_nat (length a'))); [reflexivity | lia].
Qed.
Print Assumptions tie_loops_debian_compareDebianDigits.

Theorem tie_loops_debian_getDebianCharWeight : forall c,
  L.getDebianCharWeight (byte_z c) = M.weight c.
Proof.
  intros c. destruct c as [[] [] [] [] [] [] [] []]; vm_compute; reflexivity.
Qed.
Print Assumptions tie_loops_debian_getDebianCharWeight.

Lemma weight_zero_char : L.getDebianCharWeight 0 = 0.
Proof. reflexivity. Qed.

Section NonDigits.
  Variables a b : bytes.
  Hypothesis Fa : fits a.
  Hypothesis Fb : fits b.
  Let maxLen := Z.max (Z.of_nat (length a)) (Z.of_nat (length b)).
  Let wsuf (i : Z) := lex_pad 0 Z.compare (map M.weight (skipn (Z.to_nat i) a)) (map M.weight (skipn (Z.to_nat i) b)).
  Let Inv (i : Z) := 0 <= i <= maxLen /\ M.nondigits_cmp a b = wsuf i.
  Let Qb (_ : Z) := Z_of_cmp (M.nondigits_cmp a b) = 0.
  Let Qr (r : Z) := r = Z_of_cmp (M.nondigits_cmp a b).

  (* the three ways the comparison of two weights goes on *)
  Ltac weigh wa wb :=
    destruct (Z.compare_spec wa wb) as [C|C|C]; cbn [thenc];
    [ rewrite (proj2 (Z.eqb_eq wa wb) C)
    | rewrite (proj2 (Z.eqb_neq wa wb)) by lia; rewrite (proj2 (Z.ltb_lt wa wb) C)
    | rewrite (proj2 (Z.eqb_neq wa wb)) by lia; rewrite (proj2 (Z.ltb_ge wa wb)) by lia ];
    cbn [negb].

  Lemma nondigits_loop fuel :
    (Z.to_nat maxLen < fuel)%nat ->
    L.compareDebianNonDigits fuel a b = Done (Z_of_cmp (M.nondigits_cmp a b)).
  Proof.
    intros Hf. unfold L.compareDebianNonDigits. cbv zeta.
    match goal with |- bind (while _ ?bd _) _ = _ => set (body := bd) end.
    assert (B : forall s, Inv s -> step_ok body Inv (fun i => Z.to_nat (maxLen - i)) Qb Qr s).
    { intros i [Hb Hinv]. unfold step_ok, body. fold maxLen.
      destruct (Z.ltb_spec i maxLen) as [Hi|Hi].
      - assert (W : wrap64 (i + 1) = i + 1).
        { apply (wrap64_succ i maxLen); [lia|]. unfold maxLen, fits in *. lia. }
        unfold wsuf in Hinv. unfold Qr. rewrite W.
        assert (N : wsuf (i + 1) = wsuf (i + 1)) by reflexivity. unfold wsuf at 1 in N.
        destruct (Z.ltb_spec i (Z.of_nat (length a))) as [Ha|Ha];
        [ destruct (skipn_at_cursor a i) as (ca & ra & Ea & Ea' & Ia); [lia|]; rewrite Ia
        | destruct (skipn_past_cursor a i Ha) as [Ea Ea'] ];
        (destruct (Z.ltb_spec i (Z.of_nat (length b))) as [Hb'|Hb'];
        [ destruct (skipn_at_cursor b i) as (cb & rb & Eb & Eb' & Ib); [lia|]; rewrite Ib
        | destruct (skipn_past_cursor b i Hb') as [Eb Eb'] ]);
        rewrite Ea, Eb in Hinv; rewrite Ea', Eb' in N; cbn [map lex_pad lex_pad_l] in Hinv, N;
        cbv beta iota delta [bind];
        rewrite ?tie_loops_debian_getDebianCharWeight, ?weight_zero_char; rewrite Hinv.
        + weigh (M.weight ca) (M.weight cb); try reflexivity.
          split; [split; [lia | cbn [thenc] in Hinv; congruence] | lia].
        + weigh (M.weight ca) 0; try reflexivity.
          split; [split; [lia | cbn [thenc] in Hinv; congruence] | lia].
        + weigh 0 (M.weight cb); try reflexivity.
          split; [split; [lia | cbn [thenc] in Hinv; congruence] | lia].
        + unfold maxLen in Hi. lia.
      - unfold Qb. assert (i = maxLen) by lia. subst i. unfold wsuf in Hinv. rewrite Hinv.
        rewrite !skipn_all2 by (unfold maxLen; lia). reflexivity. }
    pose proof (while_rule_fuel body Inv _ Qb Qr B fuel 0) as R. cbv beta in R.
    assert (I0 : Inv 0).
    { split; [unfold maxLen; lia | reflexivity]. }
    specialize (R I0). rewrite Z.sub_0_r in R. specialize (R Hf).
    destruct (while fuel body 0) as [[s|r]| |]; cbn [exit_ok] in R; try contradiction; cbn [bind].
    - unfold Qb in R. congruence.
    - unfold Qr in R. congruence.
  Qed.
End NonDigits.

Theorem tie_loops_debian_compareDebianNonDigits : forall a b fuel,
  fits a -> fits b -> (Nat.max (length a) (length b) < fuel)%nat ->
  L.compareDebianNonDigits fuel a b = Done (Z_of_cmp (M.nondigits_cmp a b)).
Proof. intros a b fuel Fa Fb H. apply nondigits_loop; [exact Fa | exact Fb | lia]. Qed.
Print Assumptions tie_loops_debian_compareDebianNonDigits.

Corollary tie_loops_debian_compareDebianNonDigits_sum : forall a b fuel,
  fits a -> fits b -> (length a + length b < fuel)%nat ->
  L.compareDebianNonDigits fuel a b = Done (Z_of_cmp (M.nondigits_cmp a b)).
Proof. intros a b fuel Fa Fb H. apply tie_loops_debian_compareDebianNonDigits; [exact Fa | exact Fb | lia]. Qed.
Print Assumptions tie_loops_debian_compareDebianNonDigits_sum.

Lemma rest1_shorter s : s <> [] -> (length (MF.rest1 s) < length s)%nat.
Proof. destruct s as [|c s]; [congruence|]. intros _. pose proof (MF.rest1_len_cons c s). cbn [length]. lia. Qed.

Lemma rest1_le s : (length (MF.rest1 s) <= length s)%nat.
Proof. destruct s as [|c s]; [cbn; lia|]. pose proof (MF.rest1_len_cons c s). cbn [length]. lia. Qed.

Section VersionString.
  Variables a b : bytes.
  Hypothesis Fa : fits a.
  Hypothesis Fb : fits b.
  Variable fuel : nat.
  Hypothesis Hfuel : (length a + length b < fuel)%nat.

  Let Inv (st : Z * Z) :=
    let (i, j) := st in
    0 <= i <= Z.of_nat (length a) /\ 0 <= j <= Z.of_nat (length b) /\
    M.vstring_cmp a b = M.vstring_cmp (skipn (Z.to_nat i) a) (skipn (Z.to_nat j) b).
  Let ms (st : Z * Z) : nat :=
    let (i, j) := st in (length (skipn (Z.to_nat i) a) + length (skipn (Z.to_nat j) b))%nat.
  Let Qb (_ : Z * Z) := Z_of_cmp (M.vstring_cmp a b) = 0.
  Let Qr (r : Z) := r = Z_of_cmp (M.vstring_cmp a b).

  Lemma vstring_loop : L.compareDebianVersionString fuel a b = Done (Z_of_cmp (M.vstring_cmp a b)).
  Proof.
    unfold L.compareDebianVersionString. cbv zeta.
    match goal with |- bind (while _ ?bd _) _ = _ => set (body := bd) end.
    assert (B : forall s, Inv s -> step_ok body Inv ms Qb Qr s).
    { intros [i j] (Hi & Hj & Hinv). unfold step_ok, body. cbv beta iota.
      destruct (orb _ _) eqn:Cnd.
      - match goal with |- context [while fuel ?bd i] =>
          rewrite (scan_while_ext M.is_nondigit a bd Fa (fun _ => eq_refl) fuel i) by lia end.
        cbv beta iota zeta delta [bind].
        rewrite (scan_slice M.is_nondigit a i) by lia.
        cbv beta iota zeta delta [bind].
        match goal with |- context [while fuel ?bd j] =>
          rewrite (scan_while_ext M.is_nondigit b bd Fb (fun _ => eq_refl) fuel j) by lia end.
        cbv beta iota zeta delta [bind].
        rewrite (scan_slice M.is_nondigit b j) by lia.
        cbv beta iota zeta delta [bind].
        set (sa := skipn (Z.to_nat i) a) in *. set (sb := skipn (Z.to_nat j) b) in *.
        pose proof (scan_bounds M.is_nondigit a i Hi) as Bi.
        pose proof (scan_bounds M.is_nondigit b j Hj) as Bj.
        set (i1 := scan M.is_nondigit a i) in *. set (j1 := scan M.is_nondigit b j) in *.
        assert (Ei1 : skipn (Z.to_nat i1) a = drop_while M.is_nondigit sa) by (apply scan_skipn; exact Hi).
        assert (Ej1 : skipn (Z.to_nat j1) b = drop_while M.is_nondigit sb) by (apply scan_skipn; exact Hj).
        assert (NE : sa <> [] \/ sb <> []).
        { apply orb_true_iff in Cnd. destruct Cnd as [C|C]; apply Z.ltb_lt in C; [left|right]; intros E;
          apply (f_equal (@length ascii)) in E; unfold sa, sb in E; rewrite skipn_length in E; cbn [length] in E; lia. }
        pose proof (MF.vstring_cmp_step sa sb NE) as Step. rewrite <- Hinv in Step.
        unfold M.token_cmp, lex2, MF.tok1 in Step. cbn [fst snd] in Step.
        rewrite tie_loops_debian_compareDebianNonDigits;
          [| apply (fits_le a); [apply take_while_skipn_len | exact Fa]
           | apply (fits_le b); [apply take_while_skipn_len | exact Fb]
           | pose proof (take_while_skipn_len M.is_nondigit a (Z.to_nat i)) as T1;
             pose proof (take_while_skipn_len M.is_nondigit b (Z.to_nat j)) as T2; fold sa in T1; fold sb in T2; lia ].
        destruct (M.nondigits_cmp _ _) eqn:ND; cbn [thenc] in Step;
          cbv beta iota zeta delta [bind Z_of_cmp z_sign negb Z.eqb];
          [| unfold Qr; rewrite Step; reflexivity | unfold Qr; rewrite Step; reflexivity].
        match goal with |- context [while fuel ?bd i1] =>
          rewrite (scan_while_ext is_digit a bd Fa (fun _ => eq_refl) fuel i1) by lia end.
        cbv beta iota zeta delta [bind].
        rewrite (scan_slice is_digit a i1) by lia.
        cbv beta iota zeta delta [bind].
        match goal with |- context [while fuel ?bd j1] =>
          rewrite (scan_while_ext is_digit b bd Fb (fun _ => eq_refl) fuel j1) by lia end.
        cbv beta iota zeta delta [bind].
        rewrite (scan_slice is_digit b j1) by lia.
        cbv beta iota zeta delta [bind].
        rewrite Ei1, Ej1, tie_loops_debian_compareDebianDigits.
        assert (Bi2 : i1 <= scan is_digit a i1 <= Z.of_nat (length a)) by (apply scan_bounds; lia).
        assert (Bj2 : j1 <= scan is_digit b j1 <= Z.of_nat (length b)) by (apply scan_bounds; lia).
        assert (Ei2 : skipn (Z.to_nat (scan is_digit a i1)) a = MF.rest1 sa)
          by (rewrite scan_skipn by lia; rewrite Ei1; reflexivity).
        assert (Ej2 : skipn (Z.to_nat (scan is_digit b j1)) b = MF.rest1 sb)
          by (rewrite scan_skipn by lia; rewrite Ej1; reflexivity).
        destruct (digits_cmp _ _) eqn:DG; cbn [thenc] in Step;
          cbv beta iota zeta delta [bind Z_of_cmp z_sign negb Z.eqb];
          [| unfold Qr; rewrite Step; reflexivity | unfold Qr; rewrite Step; reflexivity].
        unfold Inv, ms. rewrite Ei2, Ej2. fold sa sb.
        split; [split; [lia | split; [lia | exact Step]] |].
        pose proof (rest1_le sa). pose proof (rest1_le sb).
        destruct NE as [N|N]; apply rest1_shorter in N; lia.
      - unfold Qb. apply orb_false_iff in Cnd. destruct Cnd as [C1 C2].
        apply Z.ltb_ge in C1, C2. rewrite Hinv. rewrite !skipn_all2 by lia. reflexivity. }
    pose proof (while_rule_fuel body Inv ms Qb Qr B fuel (0, 0)) as R.
    assert (I0 : Inv (0, 0)).
    { unfold Inv. split; [lia | split; [lia | reflexivity]]. }
    specialize (R I0). unfold ms in R. cbn [Z.to_nat skipn] in R. specialize (R Hfuel).
    destruct (while fuel body (0, 0)) as [[[i j]|r]| |]; cbn [exit_ok] in R; try contradiction; cbn [bind].
    - unfold Qb in R. congruence.
    - unfold Qr in R. congruence.
  Qed.
End VersionString.

Theorem tie_loops_debian_compareDebianVersionString : forall a b fuel,
  fits a -> fits b -> (length a + length b < fuel)%nat ->
  L.compareDebianVersionString fuel a b = Done (Z_of_cmp (M.vstring_cmp a b)).
Proof. intros a b fuel Fa Fb H. apply vstring_loop; assumption. Qed.
Print Assumptions tie_loops_debian_compareDebianVersionString.

(* ---------- corollaries ---------- *)

Corollary loops_debian_no_panic : forall a b, fits a -> fits b ->
  exists v, L.compareDebianVersionString (S (length a + length b)) a b = Done v.
Proof.
  intros a b Fa Fb. eexists. apply tie_loops_debian_compareDebianVersionString; [exact Fa | exact Fb | lia].
Qed.
Print Assumptions loops_debian_no_panic.

(* the total function the loop-free code (Gen/Code/Debian.v) takes as its parameter *)
Definition compareDebianVersionString_total (a b : bytes) : Z :=
  match L.compareDebianVersionString (S (length a + length b)) a b with
  | Done v => v
  | _ => 0
  end.

Lemma compareDebianVersionString_total_model : forall p q, fits p -> fits q ->
  compareDebianVersionString_total p q = Z_of_cmp (M.vstring_cmp p q).
Proof.
  intros p q Fp Fq. unfold compareDebianVersionString_total.
  rewrite tie_loops_debian_compareDebianVersionString; [reflexivity | exact Fp | exact Fq | lia].
Qed.
Print Assumptions compareDebianVersionString_total_model.

(* ---------- closing the Section hypothesis of Tie/Debian.v ---------- *)

Module G := Verif.Gen.Code.Debian.
Module T := Verif.Tie.Debian.

Definition fits_version (v : G.Version) : Prop :=
  fits (G.Version_upstream v) /\ fits (G.Version_revision v).

(* Version_Compare only asks its parameter about the upstream parts and the revisions (or "0") *)
Lemma Version_Compare_agree (f g : bytes -> bytes -> Z) a b :
  (forall p q, fits p -> fits q -> f p q = g p q) ->
  fits_version a -> fits_version b ->
  G.Version_Compare f a b = G.Version_Compare g a b.
Proof.
  intros H [Ua Ra] [Ub Rb]. unfold G.Version_Compare. cbv zeta.
  rewrite !H by
    (first [ assumption
           | match goal with |- fits (if ?c then _ else _) => destruct c end;
             [vm_compute; reflexivity | assumption] ]).
  reflexivity.
Qed.

Corollary tie_debian_compare_closed : forall a b, fits_version a -> fits_version b ->
  G.Version_Compare compareDebianVersionString_total a b =
  Z_of_cmp (M.cmp_core (T.abs a) (T.abs b)).
Proof.
  intros a b Ha Hb.
  rewrite (Version_Compare_agree _ (fun p q => Z_of_cmp (M.vstring_cmp p q)) a b
             compareDebianVersionString_total_model Ha Hb).
  apply T.tie_debian_compare. intros p q. reflexivity.
Qed.
Print Assumptions tie_debian_compare_closed.
