(* Tie/Loops/DebianRange.v — range level: satisfiesConstraint / Contains of the generated code
   (Gen/Code/Debian.v) applied to the REAL compareDebianVersionString (the total function of
   Tie/Loops/Debian.v) equal the model's conjunction of comparators: the Hypothesis
   compareDebianVersionString_model of Tie/DebianRange.v, discharged on ranges and versions whose
   upstream / revision strings have an int length. *)
From Coq Require Import ZArith List Bool Lia.
From Verif.Base Require Import Bytes GoNum GoOps Ord Imp ImpFacts.
From Verif.Eco Require Import RangeCore.
From Verif.Eco.Debian Require Version Range.
From Verif.Gen.Code Require Debian.
From Verif.Tie Require Import Tactics.
From Verif.Tie Require Debian DebianRange.
From Verif.Tie.Loops Require Import Common.
From Verif.Tie.Loops Require Debian.
Import ListNotations.
Local Open Scope Z_scope.

Module G := Verif.Gen.Code.Debian.
Module M := Verif.Eco.Debian.Version.
Module T := Verif.Tie.Debian.
Module TR := Verif.Tie.DebianRange.
Module TL := Verif.Tie.Loops.Debian.

Corollary tie_debian_satisfiesConstraint_closed : forall c v,
  TL.fits_version v -> TL.fits_version (G.constraint_version c) ->
  G.satisfiesConstraint TL.compareDebianVersionString_total v c =
  sat (rc_sem Range.cfg (G.constraint_operator c)) (M.cmp_core (T.abs v) (T.abs (G.constraint_version c))).
Proof.
  intros c v Fv Fc. rewrite TR.tie_debian_satisfiesConstraint.
  rewrite TL.tie_debian_compare_closed by assumption.
  rewrite cmp_of_Z_of_cmp. reflexivity.
Qed.
Print Assumptions tie_debian_satisfiesConstraint_closed.

Corollary tie_debian_contains_closed : forall r v,
  TL.fits_version v ->
  (forall c, In c (G.VersionRange_constraints r) -> TL.fits_version (G.constraint_version c)) ->
  G.VersionRange_Contains TL.compareDebianVersionString_total r v =
  forallb (fun c => sat (rc_sem Range.cfg (G.constraint_operator c)) (M.cmp_core (T.abs v) (T.abs (G.constraint_version c))))
          (G.VersionRange_constraints r).
Proof.
  intros r v Fv Fr. unfold G.VersionRange_Contains. apply forallb_ext_in. intros c Hc.
  apply tie_debian_satisfiesConstraint_closed; [exact Fv | apply Fr; exact Hc].
Qed.
Print Assumptions tie_debian_contains_closed.
