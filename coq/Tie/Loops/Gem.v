(* Tie/Loops/Gem.v — the generated translations of gem's loop functions (Gen/Loops/Gem.v):
   removeTrailingZeros, Version.splitNumericAndPrerelease, compareSegmentArrays and
   Version.Compare do not panic, terminate with fuel linear in the number of segments, and
   compute what the model (Eco/Gem/Version.v) computes.

   Representation.  The generated code works on lists of the record [G.segment]
   {value, isNumeric, numValue}; the model on lists of the sum [M.seg] = SNum numValue | SStr value.
   The abstraction is [T.abs_seg] of Tie/Gem.v (chooses by isNumeric).  The two functions that
   RETURN segment lists (removeTrailingZeros, splitNumericAndPrerelease) are therefore stated
   twice: once with the exact list of records they return (g_rtz, take_while_l / drop_while_l on
   the record list: the Go sub-slices of the receiver's array are just lists here), and once
   through [map T.abs_seg] as an equation with the model's remove_trailing_zeros /
   numeric_part / prerelease_part.  Tie/Gem.v has no Section with a callee hypothesis for
   Compare, so there is no "closed" corollary to discharge. *)
From Coq Require Import ZArith List Bool Lia.
From Verif.Base Require Import Bytes GoNum GoOps Ord Imp ImpFacts.
From Verif.Eco.Gem Require Import FieldsFunc.
From Verif.Eco.Gem Require Version VersionFacts.
From Verif.Gen.Code Require Gem.
From Verif.Gen.Loops Require Gem.
From Verif.Tie Require Import Tactics.
From Verif.Tie Require Gem.
From Verif.Tie.Loops Require Import Common.
Import ListNotations.
Local Open Scope Z_scope.

Module G := Verif.Gen.Code.Gem.
Module L := Verif.Gen.Loops.Gem.
Module M := Verif.Eco.Gem.Version.
Module MF := Verif.Eco.Gem.VersionFacts.
Module T := Verif.Tie.Gem.

(* ---------- small list facts (cursor at the end of a list) ---------- *)

Lemma idx_snoc {A} (l : list A) x : idx (l ++ [x]) (Z.of_nat (length l)) = Done x.
Proof.
  apply idx_Done. split.
  - unfold len. rewrite app_length. cbn [length]. lia.
  - rewrite Nat2Z.id, nth_error_app2, Nat.sub_diag by lia. reflexivity.
Qed.

Lemma slice_to_snoc {A} (l : list A) x : slice_to (l ++ [x]) (Z.of_nat (length l)) = Done l.
Proof.
  rewrite slice_to_in_range.
  - rewrite Nat2Z.id, firstn_app, firstn_all, Nat.sub_diag. cbn [firstn]. rewrite app_nil_r. reflexivity.
  - unfold len. rewrite app_length. cbn [length]. lia.
Qed.

Lemma firstn_S_skipn {A} (l : list A) n x r :
  skipn n l = x :: r -> firstn (S n) l = firstn n l ++ [x].
Proof.
  revert l. induction n as [|n IH]; intros [|y l] E; cbn [skipn] in E; try discriminate.
  - inversion E; subst. reflexivity.
  - cbn [firstn app]. f_equal. change (firstn (S n) l = firstn n l ++ [x]). apply IH, E.
Qed.

(* ====================================================================================== *)
(* removeTrailingZeros                                                                     *)
(* ====================================================================================== *)

(* the model's remove_trailing_zeros, on the records *)
Definition g_is_zero (s : G.segment) : bool :=
  G.segment_isNumeric s && Z.eqb (G.segment_numValue s) 0.

Fixpoint g_drop_zeros_rev (l : list G.segment) : list G.segment :=
  match l with
  | [] => []
  | x :: t =>
      match t with
      | [] => l
      | _ => if g_is_zero x then g_drop_zeros_rev t else l
      end
  end.
Definition g_rtz (l : list G.segment) : list G.segment := rev (g_drop_zeros_rev (rev l)).

Lemma abs_is_zero s : M.seg_is_zero (T.abs_seg s) = g_is_zero s.
Proof. unfold T.abs_seg, g_is_zero. destruct (G.segment_isNumeric s); reflexivity. Qed.

Lemma abs_drop_zeros_rev l :
  map T.abs_seg (g_drop_zeros_rev l) = M.drop_zeros_rev (map T.abs_seg l).
Proof.
  induction l as [|x t IH]; [reflexivity|].
  destruct t as [|y t']; [reflexivity|].
  change (map T.abs_seg (if g_is_zero x then g_drop_zeros_rev (y :: t') else x :: y :: t') =
          if M.seg_is_zero (T.abs_seg x) then M.drop_zeros_rev (map T.abs_seg (y :: t'))
          else map T.abs_seg (x :: y :: t')).
  rewrite abs_is_zero. destruct (g_is_zero x); [exact IH | reflexivity].
Qed.

(* the abstraction commutes with removing trailing zeros *)
Lemma abs_rtz l : map T.abs_seg (g_rtz l) = M.remove_trailing_zeros (map T.abs_seg l).
Proof.
  unfold g_rtz, M.remove_trailing_zeros. rewrite map_rev, abs_drop_zeros_rev, map_rev. reflexivity.
Qed.

Lemma g_rtz_nil : g_rtz [] = [].
Proof. reflexivity. Qed.

Lemma g_rtz_single x : g_rtz [x] = [x].
Proof. reflexivity. Qed.

Lemma g_rtz_snoc_keep l x : g_is_zero x = false -> g_rtz (l ++ [x]) = l ++ [x].
Proof.
  intros Z. unfold g_rtz. rewrite rev_app_distr. cbn [rev app g_drop_zeros_rev]. rewrite Z.
  destruct (rev l) eqn:E.
  - cbn [rev app]. apply (f_equal (@rev _)) in E. rewrite rev_involutive in E. subst l. reflexivity.
  - rewrite <- E. change (rev (x :: rev l)) with (rev (rev l) ++ [x]). rewrite rev_involutive. reflexivity.
Qed.

Lemma g_rtz_snoc_zero l x : l <> [] -> g_is_zero x = true -> g_rtz (l ++ [x]) = g_rtz l.
Proof.
  intros N Z. unfold g_rtz. rewrite rev_app_distr. cbn [rev app g_drop_zeros_rev]. rewrite Z.
  destruct (rev l) eqn:E.
  - apply (f_equal (@rev _)) in E. rewrite rev_involutive in E. contradiction.
  - reflexivity.
Qed.

(* no panic, linear fuel, the exact list returned *)
Theorem tie_loops_gem_removeTrailingZeros_exact : forall (s : list G.segment) (fuel : nat),
  fits s -> (length s < fuel)%nat -> L.removeTrailingZeros fuel s = Done (g_rtz s).
Proof.
  intros s fuel Fs Hfuel. unfold L.removeTrailingZeros.
  set (body := fun segments : list G.segment => _).
  pose (Inv := fun s' : list G.segment => fits s' /\ g_rtz s = g_rtz s').
  pose (Q := fun r : list G.segment => r = g_rtz s).
  assert (R : exit_ok Q Q (while fuel body s)).
  { apply (while_rule_fuel body Inv (fun s' => length s')).
    - intros s' [F E]. unfold step_ok, body.
      destruct s' as [|y t].
      + cbn. unfold Q. rewrite E. reflexivity.
      + destruct (@exists_last _ (y :: t)) as (l & x & El); [discriminate|].
        revert F E. rewrite El. clear El y t. intros F E. cbv beta.
        set (n := Z.of_nat (length (l ++ [x]))).
        assert (En : n = Z.of_nat (length l) + 1) by (subst n; rewrite app_length; cbn [length]; lia).
        assert (W : wrap64 (n - 1) = Z.of_nat (length l)).
        { rewrite wrap64_small; unfold fits in F; fold n in F; lia. }
        rewrite W. clearbody n.
        destruct (Z.ltb_spec 1 n) as [H1|H1].
        * rewrite idx_snoc. cbn [bind].
          destruct (G.segment_isNumeric x) eqn:Nx.
          -- cbn [bind].
             destruct (Z.eqb_spec (G.segment_numValue x) 0) as [Z0|Z0].
             ++ rewrite slice_to_snoc. cbn [bind]. split; [split|].
                ** unfold fits in *. rewrite app_length in F. lia.
                ** rewrite E. apply g_rtz_snoc_zero.
                   --- destruct l; [cbn [length] in En; lia | discriminate].
                   --- unfold g_is_zero. rewrite Nx, Z0. reflexivity.
                ** rewrite app_length. cbn [length]. lia.
             ++ unfold Q. rewrite E. symmetry. apply g_rtz_snoc_keep.
                unfold g_is_zero. rewrite Nx. apply Z.eqb_neq in Z0. rewrite Z0. reflexivity.
          -- unfold Q. rewrite E. symmetry. apply g_rtz_snoc_keep.
             unfold g_is_zero. rewrite Nx. reflexivity.
        * cbn [bind]. destruct l as [|z l]; [|cbn [length] in En; lia].
          unfold Q. rewrite E. reflexivity.
    - split; [exact Fs | reflexivity].
    - exact Hfuel. }
  destruct (while fuel body s) as [[s'|r]| |]; cbn [exit_ok] in R; try contradiction; cbn [bind];
    unfold Q in R; rewrite R; reflexivity.
Qed.
Print Assumptions tie_loops_gem_removeTrailingZeros_exact.

(* ... and, through the abstraction, the model's remove_trailing_zeros *)
Theorem tie_loops_gem_removeTrailingZeros : forall (s : list G.segment) (fuel : nat),
  fits s -> (length s < fuel)%nat ->
  rmap (map T.abs_seg) (L.removeTrailingZeros fuel s) =
  Done (M.remove_trailing_zeros (map T.abs_seg s)).
Proof.
  intros s fuel Fs Hfuel. rewrite tie_loops_gem_removeTrailingZeros_exact by assumption.
  unfold rmap. cbn [bind]. rewrite abs_rtz. reflexivity.
Qed.
Print Assumptions tie_loops_gem_removeTrailingZeros.

Corollary loops_gem_removeTrailingZeros_no_panic : forall s, fits s ->
  exists r, L.removeTrailingZeros (S (length s)) s = Done r.
Proof. intros s Fs. eexists. apply tie_loops_gem_removeTrailingZeros_exact; [assumption | lia]. Qed.
Print Assumptions loops_gem_removeTrailingZeros_no_panic.

Definition removeTrailingZeros_total (s : list G.segment) : list G.segment :=
  total [] (L.removeTrailingZeros (S (length s)) s).

Lemma removeTrailingZeros_total_model : forall s, fits s ->
  map T.abs_seg (removeTrailingZeros_total s) = M.remove_trailing_zeros (map T.abs_seg s).
Proof.
  intros s Fs. unfold removeTrailingZeros_total.
  rewrite tie_loops_gem_removeTrailingZeros_exact by (assumption || lia). cbn [total]. apply abs_rtz.
Qed.
Print Assumptions removeTrailingZeros_total_model.

(* ====================================================================================== *)
(* Version.splitNumericAndPrerelease                                                       *)
(* ====================================================================================== *)

Lemma take_while_l_length {A} (p : A -> bool) l : (length (take_while_l p l) <= length l)%nat.
Proof. induction l as [|x l IH]; cbn [take_while_l length]; [lia|]. destruct (p x); cbn [length]; lia. Qed.

Lemma drop_while_l_length {A} (p : A -> bool) l : (length (drop_while_l p l) <= length l)%nat.
Proof. induction l as [|x l IH]; cbn [drop_while_l length]; [lia|]. destruct (p x); cbn [length]; lia. Qed.

(* the abstraction commutes with the split: isNumeric of a record is seg_is_num of its image *)
Lemma abs_is_num s : M.seg_is_num (T.abs_seg s) = G.segment_isNumeric s.
Proof. unfold T.abs_seg. destruct (G.segment_isNumeric s); reflexivity. Qed.

Lemma abs_take_while l :
  map T.abs_seg (take_while_l G.segment_isNumeric l) = take_while_l M.seg_is_num (map T.abs_seg l).
Proof.
  induction l as [|x l IH]; [reflexivity|]. cbn [map take_while_l]. rewrite abs_is_num.
  destruct (G.segment_isNumeric x); [cbn [map]; rewrite IH|]; reflexivity.
Qed.

Lemma abs_drop_while l :
  map T.abs_seg (drop_while_l G.segment_isNumeric l) = drop_while_l M.seg_is_num (map T.abs_seg l).
Proof.
  induction l as [|x l IH]; [reflexivity|]. cbn [map drop_while_l]. rewrite abs_is_num.
  destruct (G.segment_isNumeric x); [exact IH | reflexivity].
Qed.

(* the split of the whole list in terms of the unread suffix under the cursor *)
Definition split_at {A} (p : A -> bool) (l : list A) (n : nat) : Prop :=
  take_while_l p l = firstn n l ++ take_while_l p (skipn n l) /\
  drop_while_l p l = drop_while_l p (skipn n l).

Lemma split_at_0 {A} (p : A -> bool) l : split_at p l 0.
Proof. split; reflexivity. Qed.

Lemma split_at_S {A} (p : A -> bool) l n x r :
  split_at p l n -> skipn n l = x :: r -> p x = true -> split_at p l (S n).
Proof.
  intros [H1 H2] E Px. rewrite E in H1, H2. cbn [take_while_l drop_while_l] in H1, H2.
  rewrite Px in H1, H2. unfold split_at. rewrite (skipn_cons_next l n x r E).
  split; [|exact H2]. rewrite H1, (firstn_S_skipn l n x r E), <- app_assoc. reflexivity.
Qed.

Lemma split_at_stop {A} (p : A -> bool) l n x r :
  split_at p l n -> skipn n l = x :: r -> p x = false ->
  take_while_l p l = firstn n l /\ drop_while_l p l = skipn n l.
Proof.
  intros [H1 H2] E Px. rewrite E in H1, H2. cbn [take_while_l drop_while_l] in H1, H2.
  rewrite Px in H1, H2. rewrite app_nil_r in H1. rewrite E. split; assumption.
Qed.

Lemma split_at_end {A} (p : A -> bool) l n :
  split_at p l n -> (length l <= n)%nat -> take_while_l p l = l /\ drop_while_l p l = [].
Proof.
  intros [H1 H2] Ln. rewrite (skipn_all2 l Ln) in H1, H2. cbn [take_while_l drop_while_l] in H1, H2.
  rewrite app_nil_r, firstn_all2 in H1 by exact Ln. split; assumption.
Qed.

(* no panic, linear fuel, and the two lists returned: the longest numeric prefix and the rest *)
Theorem tie_loops_gem_split_exact : forall (v : G.Version) (fuel : nat),
  fits (G.Version_segments v) -> (length (G.Version_segments v) < fuel)%nat ->
  L.Version_splitNumericAndPrerelease fuel v =
  Done (take_while_l G.segment_isNumeric (G.Version_segments v),
        drop_while_l G.segment_isNumeric (G.Version_segments v)).
Proof.
  intros v fuel Fx Hfuel. unfold L.Version_splitNumericAndPrerelease.
  set (xs := G.Version_segments v) in *. cbv zeta.
  set (body := fun st : Z * list G.segment * list G.segment => _).
  set (p := G.segment_isNumeric).
  pose (d := G.mk_segment [] false 0).
  pose (Inv := fun st : Z * list G.segment * list G.segment =>
     let '(i, numeric, prerelease) := st in
     0 <= i <= Z.of_nat (length xs) /\ split_at p xs (Z.to_nat i) /\
     numeric = firstn (Z.to_nat i) xs /\ prerelease = []).
  pose (Qb := fun st : Z * list G.segment * list G.segment =>
     let '(i, numeric, prerelease) := st in
     numeric = take_while_l p xs /\ prerelease = drop_while_l p xs).
  pose (Q := fun r : list G.segment * list G.segment => r = (take_while_l p xs, drop_while_l p xs)).
  assert (R : exit_ok Qb Q (while fuel body (0, [], []))).
  { apply (while_rule_fuel body Inv (fun st => Z.to_nat (Z.of_nat (length xs) - fst (fst st)))).
    - intros [[i numeric] prerelease] (Hi & Sp & En & Ep). unfold step_ok, body.
      destruct (Z.ltb_spec i (Z.of_nat (length xs))) as [Hlt|Hge].
      + assert (Li : (Z.to_nat i < length xs)%nat) by lia.
        pose proof (skipn_nth_cons xs (Z.to_nat i) d Li) as Es.
        rewrite (idx_in_range xs i d) by (unfold len; lia). cbn [bind].
        destruct (G.segment_isNumeric (nth (Z.to_nat i) xs d)) eqn:Px; cbn [negb].
        * rewrite (wrap64_succ i (Z.of_nat (length xs))) by (unfold fits in Fx; lia).
          rewrite slice_to_in_range by (unfold len; lia). cbn [bind].
          unfold Inv. rewrite !Z_to_nat_succ by lia.
          split; [|cbn [fst]; lia]. split; [lia|]. split; [|split; [reflexivity | exact Ep]].
          eapply split_at_S; [exact Sp | exact Es | exact Px].
        * rewrite slice_to_in_range by (unfold len; lia).
          rewrite slice_from_in_range by (unfold len; lia). cbn [bind].
          destruct (split_at_stop p xs _ _ _ Sp Es Px) as [T1 T2].
          unfold Qb. rewrite T1, T2. split; reflexivity.
      + destruct (split_at_end p xs _ Sp) as [T1 T2]; [lia|].
        unfold Qb. rewrite T1, T2, En, Ep. split; [|reflexivity].
        apply firstn_all2. lia.
    - split; [lia|]. split; [apply split_at_0|]. split; reflexivity.
    - cbn [fst]. lia. }
  destruct (while fuel body (0, [], [])) as [[[[i numeric] prerelease]|r]| |];
    cbn [exit_ok] in R; try contradiction; cbn [bind].
  - destruct R as [R1 R2]. rewrite R1, R2. reflexivity.
  - unfold Q in R. rewrite R. reflexivity.
Qed.
Print Assumptions tie_loops_gem_split_exact.

(* ... and, through the abstraction, the model's numeric_part / prerelease_part *)
Definition abs_pair (r : list G.segment * list G.segment) : list M.seg * list M.seg :=
  (map T.abs_seg (fst r), map T.abs_seg (snd r)).

Theorem tie_loops_gem_split : forall (v : G.Version) (fuel : nat),
  fits (G.Version_segments v) -> (length (G.Version_segments v) < fuel)%nat ->
  rmap abs_pair (L.Version_splitNumericAndPrerelease fuel v) =
  Done (M.numeric_part (T.abs v), M.prerelease_part (T.abs v)).
Proof.
  intros v fuel Fx Hfuel. rewrite tie_loops_gem_split_exact by assumption.
  unfold rmap, abs_pair, M.numeric_part, M.prerelease_part, T.abs. cbn [bind fst snd].
  rewrite abs_take_while, abs_drop_while. reflexivity.
Qed.
Print Assumptions tie_loops_gem_split.

Corollary loops_gem_split_no_panic : forall v, fits (G.Version_segments v) ->
  exists r, L.Version_splitNumericAndPrerelease (S (length (G.Version_segments v))) v = Done r.
Proof. intros v Fx. eexists. apply tie_loops_gem_split_exact; [assumption | lia]. Qed.
Print Assumptions loops_gem_split_no_panic.

Definition Version_splitNumericAndPrerelease_total (v : G.Version) : list G.segment * list G.segment :=
  total ([], []) (L.Version_splitNumericAndPrerelease (S (length (G.Version_segments v))) v).

Lemma Version_splitNumericAndPrerelease_total_model : forall v, fits (G.Version_segments v) ->
  abs_pair (Version_splitNumericAndPrerelease_total v) =
  (M.numeric_part (T.abs v), M.prerelease_part (T.abs v)).
Proof.
  intros v Fx. unfold Version_splitNumericAndPrerelease_total.
  rewrite tie_loops_gem_split_exact by (assumption || lia).
  unfold abs_pair, M.numeric_part, M.prerelease_part, T.abs. cbn [total fst snd].
  rewrite abs_take_while, abs_drop_while. reflexivity.
Qed.
Print Assumptions Version_splitNumericAndPrerelease_total_model.

(* ====================================================================================== *)
(* compareSegmentArrays                                                                    *)
(* ====================================================================================== *)

(* the padded comparison on the unread suffixes (as in the semver pilot) *)
Lemma lex_pad_skipn_step {A} (pad : A) (cmp : A -> A -> comparison) (a b : list A) (n : nat) :
  cmp pad pad = Eq ->
  lex_pad pad cmp (skipn n a) (skipn n b) =
  thenc (cmp (nth n a pad) (nth n b pad)) (lex_pad pad cmp (skipn (S n) a) (skipn (S n) b)).
Proof.
  intros R.
  destruct (Nat.lt_ge_cases n (length a)) as [La|La], (Nat.lt_ge_cases n (length b)) as [Lb|Lb].
  - rewrite (skipn_nth_cons a n pad La), (skipn_nth_cons b n pad Lb). reflexivity.
  - rewrite (skipn_nth_cons a n pad La), (skipn_all2 b Lb), (skipn_all2 b) by lia.
    rewrite (nth_overflow b pad Lb). reflexivity.
  - rewrite (skipn_nth_cons b n pad Lb), (skipn_all2 a La), (skipn_all2 a) by lia.
    rewrite (nth_overflow a pad La). reflexivity.
  - rewrite (skipn_all2 a La), (skipn_all2 b Lb), (skipn_all2 a), (skipn_all2 b) by lia.
    rewrite (nth_overflow a pad La), (nth_overflow b pad Lb), R. reflexivity.
Qed.

Lemma lex_pad_exhausted {A} (pad : A) (cmp : A -> A -> comparison) (a b : list A) (n : nat) :
  (length a <= n)%nat -> (length b <= n)%nat -> lex_pad pad cmp (skipn n a) (skipn n b) = Eq.
Proof. intros La Lb. rewrite (skipn_all2 a La), (skipn_all2 b Lb). reflexivity. Qed.

(* the segment the Go code substitutes past the end of the shorter array: numeric 0; its image
   is the pad of the model's lex_pad *)
Definition pad_g : G.segment := G.mk_segment $"0" true 0.

Lemma abs_pad_g : T.abs_seg pad_g = M.SNum 0.
Proof. reflexivity. Qed.

(* a[i], or the pad past the end *)
Lemma idx_or_pad (l : list G.segment) (i : Z) : 0 <= i ->
  (if Z.ltb i (Z.of_nat (length l)) then bind (idx l i) (fun p => Done p) else Done pad_g)
  = Done (nth (Z.to_nat i) l pad_g).
Proof.
  intros Hi. destruct (Z.ltb_spec i (Z.of_nat (length l))) as [Hlt|Hge].
  - rewrite (idx_in_range l i pad_g) by (unfold len; lia). reflexivity.
  - rewrite nth_overflow by lia. reflexivity.
Qed.

Theorem tie_loops_gem_compareSegmentArrays : forall (a b : list G.segment) (fuel : nat),
  fits a -> fits b -> (Nat.max (length a) (length b) < fuel)%nat ->
  L.compareSegmentArrays fuel a b =
  Done (Z_of_cmp (M.segs_cmp (map T.abs_seg a) (map T.abs_seg b))).
Proof.
  intros a b fuel Fa Fb Hfuel. unfold L.compareSegmentArrays, M.segs_cmp.
  cbv zeta.
  set (maxLen := Z.max (Z.of_nat (length a)) (Z.of_nat (length b))).
  assert (EmaxLen : maxLen = Z.of_nat (Nat.max (length a) (length b))) by (subst maxLen; lia).
  clearbody maxLen.
  fold pad_g.
  set (body := fun i : Z => _).
  set (A := map T.abs_seg a). set (B := map T.abs_seg b).
  pose (cmpAB := lex_pad (M.SNum 0) M.seg_cmp).
  pose (Inv := fun i : Z => 0 <= i <= maxLen /\
     cmpAB A B = cmpAB (skipn (Z.to_nat i) A) (skipn (Z.to_nat i) B)).
  pose (Q := fun r : Z => r = Z_of_cmp (cmpAB A B)).
  pose (Qb := fun _ : Z => cmpAB A B = Eq).
  assert (R : exit_ok Qb Q (while fuel body 0)).
  { apply (while_rule_fuel body Inv (fun i => Z.to_nat (maxLen - i))).
    - intros i [Hi E]. unfold step_ok, body.
      destruct (Z.ltb_spec i maxLen) as [Hlt|Hge].
      + rewrite (idx_or_pad a i), (idx_or_pad b i) by lia. cbn [bind].
        set (x := nth (Z.to_nat i) a pad_g). set (y := nth (Z.to_nat i) b pad_g).
        assert (E' : cmpAB A B = thenc (M.seg_cmp (T.abs_seg x) (T.abs_seg y))
                       (cmpAB (skipn (S (Z.to_nat i)) A) (skipn (S (Z.to_nat i)) B))).
        { rewrite E. unfold cmpAB. rewrite lex_pad_skipn_step by reflexivity.
          subst A B x y. rewrite <- abs_pad_g, !map_nth. reflexivity. }
        clear E. rename E' into E.
        rewrite (wrap64_succ i maxLen) by (unfold fits in *; lia).
        rewrite T.tie_gem_compareSegments.
        destruct (M.seg_cmp (T.abs_seg x) (T.abs_seg y)) eqn:C; cbn [Z_of_cmp z_sign Z.eqb negb].
        * split; [|lia]. split; [lia|]. rewrite E, Z_to_nat_succ by lia. reflexivity.
        * unfold Q. rewrite E. reflexivity.
        * unfold Q. rewrite E. reflexivity.
      + unfold Qb. rewrite E. subst A B. apply lex_pad_exhausted; rewrite map_length; lia.
    - split; [lia | reflexivity].
    - lia. }
  destruct (while fuel body 0) as [[i|r]| |]; cbn [exit_ok] in R; try contradiction; cbn [bind].
  - unfold Qb, cmpAB in R. rewrite R. reflexivity.
  - unfold Q, cmpAB in R. rewrite R. reflexivity.
Qed.
Print Assumptions tie_loops_gem_compareSegmentArrays.

Corollary loops_gem_compareSegmentArrays_no_panic : forall a b, fits a -> fits b ->
  exists r, L.compareSegmentArrays (S (Nat.max (length a) (length b))) a b = Done r.
Proof. intros a b Fa Fb. eexists. apply tie_loops_gem_compareSegmentArrays; [assumption | assumption | lia]. Qed.
Print Assumptions loops_gem_compareSegmentArrays_no_panic.

Definition compareSegmentArrays_total (a b : list G.segment) : Z :=
  total 0 (L.compareSegmentArrays (S (Nat.max (length a) (length b))) a b).

Lemma compareSegmentArrays_total_model : forall a b, fits a -> fits b ->
  compareSegmentArrays_total a b = Z_of_cmp (M.segs_cmp (map T.abs_seg a) (map T.abs_seg b)).
Proof.
  intros a b Fa Fb. unfold compareSegmentArrays_total.
  rewrite tie_loops_gem_compareSegmentArrays by (assumption || lia). reflexivity.
Qed.
Print Assumptions compareSegmentArrays_total_model.

(* ====================================================================================== *)
(* Version.Compare                                                                         *)
(* ====================================================================================== *)

Lemma fits_le {A B} (s : list A) (t : list B) : (length t <= length s)%nat -> fits s -> fits t.
Proof. unfold fits. lia. Qed.

Theorem tie_loops_gem_compare : forall (v o : G.Version) (fuel : nat),
  fits (G.Version_segments v) -> fits (G.Version_segments o) ->
  (Nat.max (length (G.Version_segments v)) (length (G.Version_segments o)) < fuel)%nat ->
  L.Version_Compare fuel v o = Done (Z_of_cmp (M.cmp_core (T.abs v) (T.abs o))).
Proof.
  intros v o fuel Fv Fo Hfuel. unfold L.Version_Compare.
  rewrite !tie_loops_gem_split_exact by (assumption || lia). cbn [bind].
  rewrite MF.cmp_core_unfold. unfold M.numeric_part, M.prerelease_part, T.abs.
  rewrite <- !abs_take_while, <- !abs_drop_while.
  set (p := G.segment_isNumeric).
  set (sv := G.Version_segments v) in *. set (so := G.Version_segments o) in *.
  pose proof (take_while_l_length p sv) as Lvn. pose proof (take_while_l_length p so) as Lon.
  pose proof (drop_while_l_length p sv) as Lvp. pose proof (drop_while_l_length p so) as Lop.
  rewrite tie_loops_gem_compareSegmentArrays;
    [| eapply fits_le; eassumption | eapply fits_le; eassumption | lia].
  cbn [bind].
  destruct (M.segs_cmp (map T.abs_seg (take_while_l p sv)) (map T.abs_seg (take_while_l p so)));
    cbn [Z_of_cmp z_sign Z.eqb negb]; try reflexivity.
  assert (Fvp : fits (drop_while_l p sv)) by (eapply fits_le; eassumption).
  assert (Fop : fits (drop_while_l p so)) by (eapply fits_le; eassumption).
  assert (Hf : (Nat.max (length (drop_while_l p sv)) (length (drop_while_l p so)) < fuel)%nat) by lia.
  pose proof (tie_loops_gem_compareSegmentArrays _ _ fuel Fvp Fop Hf) as Hp.
  destruct (drop_while_l p sv) as [|x vp], (drop_while_l p so) as [|y op];
    cbn [length map Z.of_nat Z.eqb andb]; try reflexivity.
  rewrite Hp. reflexivity.
Qed.
Print Assumptions tie_loops_gem_compare.

(* C06 for Compare: no panic and termination within S (max (len v) (len o)) iterations of
   every loop *)
Corollary loops_gem_compare_no_panic : forall v o,
  fits (G.Version_segments v) -> fits (G.Version_segments o) ->
  exists r, L.Version_Compare (S (Nat.max (length (G.Version_segments v)) (length (G.Version_segments o)))) v o = Done r.
Proof. intros v o Fv Fo. eexists. apply tie_loops_gem_compare; [assumption | assumption | lia]. Qed.
Print Assumptions loops_gem_compare_no_panic.

Definition Version_Compare_total (v o : G.Version) : Z :=
  total 0 (L.Version_Compare (S (Nat.max (length (G.Version_segments v)) (length (G.Version_segments o)))) v o).

Lemma Version_Compare_total_model : forall v o,
  fits (G.Version_segments v) -> fits (G.Version_segments o) ->
  Version_Compare_total v o = Z_of_cmp (M.cmp_core (T.abs v) (T.abs o)).
Proof.
  intros v o Fv Fo. unfold Version_Compare_total.
  rewrite tie_loops_gem_compare by (assumption || lia). reflexivity.
Qed.
Print Assumptions Version_Compare_total_model.

(* on the model's version values (VLayer): the sign of the model's cmp *)
Corollary Version_Compare_total_cmp : forall v o,
  fits (G.Version_segments v) -> fits (G.Version_segments o) ->
  Version_Compare_total v o = Z_of_cmp (M.cmp (T.abs_ver v) (T.abs_ver o)).
Proof. intros v o Fv Fo. rewrite Version_Compare_total_model by assumption. reflexivity. Qed.
Print Assumptions Version_Compare_total_cmp.
