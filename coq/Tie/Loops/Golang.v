(* Tie/Loops/Golang.v — the generated translation of golang's comparePrerelease (identifier loop
   over the common dot-separated parts, then the number of parts; Gen/Loops/Golang.v) does not
   panic, terminates with fuel linear in the input lengths, and returns the sign of the model's
   comparison (Eco/Golang/Version.v, compare_prerelease).  Discharges the Section variable
   [comparePrerelease] of Tie/Golang.v.

   compareIdentifier (strings.TrimLeft) is outside the translated fragment: the generated
   function takes it as an argument, and the theorems assume that this argument returns the sign
   of the model's compare_identifier. *)
From Coq Require Import ZArith List Bool Lia Ascii.
From Verif.Base Require Import Bytes GoNum GoOps Ord BytesFacts Imp ImpFacts.
From Verif.Eco.Golang Require Version.
From Verif.Gen.Code Require Golang.
From Verif.Gen.Loops Require Golang.
From Verif.Tie Require Import Tactics.
From Verif.Tie Require Golang.
From Verif.Tie.Loops Require Import Common Idents.
Import ListNotations.
Local Open Scope Z_scope.

Module G := Verif.Gen.Code.Golang.
Module L := Verif.Gen.Loops.Golang.
Module M := Verif.Eco.Golang.Version.
Module T := Verif.Tie.Golang.

Section Golang.
  (* compareIdentifier *)
  Variable cmpIdent : bytes -> bytes -> Z.
  Hypothesis cmpIdent_model : forall x y, cmpIdent x y = Z_of_cmp (M.compare_identifier x y).

  (* bound: S (min (len a) (len b)) — the loop runs over the common identifiers only *)
  Theorem tie_loops_golang_comparePrerelease : forall (a b : bytes) (fuel : nat),
    fits1 a -> fits1 b -> (S (Nat.min (length a) (length b)) < fuel)%nat ->
    L.comparePrerelease cmpIdent fuel a b = Done (Z_of_cmp (M.compare_prerelease a b)).
  Proof.
    intros a b fuel Fa Fb Hfuel.
    unfold L.comparePrerelease, M.compare_prerelease.
    destruct a as [|ca a']; destruct b as [|cb b']; cbn [beq andb]; try reflexivity.
    set (a := ca :: a') in *. set (b := cb :: b') in *.
    change (chr 46) with "."%char.
    set (A := split_c "."%char a). set (B := split_c "."%char b).
    cbv zeta.
    pose proof (split_c_length "."%char a) as LA. pose proof (split_c_length "."%char b) as LB.
    fold A in LA. fold B in LB. clearbody A B.
    pose (minLen := Z.of_nat (Nat.min (length A) (length B))).
    set (body := fun i : Z => _).
    pose (cmpAB := lex_short M.compare_identifier).
    pose (Inv := fun i : Z => 0 <= i <= minLen /\
       cmpAB A B = cmpAB (skipn (Z.to_nat i) A) (skipn (Z.to_nat i) B)).
    pose (Q := fun r : Z => r = Z_of_cmp (cmpAB A B)).
    pose (Qb := fun _ : Z => Q (G.compareInt (Z.of_nat (length A)) (Z.of_nat (length B)))).
    assert (R : exit_ok Qb Q (while fuel body 0)).
    { apply (while_rule_fuel body Inv (fun i => Z.to_nat (minLen - i))).
      - intros i [Hi E]. unfold step_ok, body.
        destruct (Z.ltb_spec i (Z.of_nat (length A))) as [La|La];
          [destruct (Z.ltb_spec i (Z.of_nat (length B))) as [Lb|Lb]|]; cbn [andb].
        + rewrite (idx_in_range A i []) by (unfold len; lia).
          rewrite (idx_in_range B i []) by (unfold len; lia).
          cbn [bind]. cbv zeta.
          set (x := nth (Z.to_nat i) A []). set (y := nth (Z.to_nat i) B []).
          assert (E' : cmpAB A B = thenc (M.compare_identifier x y)
                         (cmpAB (skipn (S (Z.to_nat i)) A) (skipn (S (Z.to_nat i)) B))).
          { rewrite E. unfold cmpAB. apply lex_short_skipn_step; lia. }
          clear E. rename E' into E.
          rewrite cmpIdent_model.
          destruct (Z.eqb_spec (Z_of_cmp (M.compare_identifier x y)) 0) as [Ec|Ec]; cbn [negb].
          * apply Z_of_cmp_eq0 in Ec.
            rewrite (wrap64_succ i (Z.of_nat (length A))) by (unfold fits1 in *; unfold bytes in *; lia).
            split; [|lia]. split; [lia|]. rewrite E, Ec, Z_to_nat_succ by lia. reflexivity.
          * unfold Q. rewrite E, thenc_ne; [reflexivity|].
            intros C. apply Ec. rewrite C. reflexivity.
        + unfold Qb, Q. rewrite T.tie_golang_compareInt, E. f_equal. symmetry.
          apply lex_short_exhausted. lia.
        + unfold Qb, Q. rewrite T.tie_golang_compareInt, E. f_equal. symmetry.
          apply lex_short_exhausted. lia.
      - split; [lia | reflexivity].
      - unfold bytes in *. lia. }
    destruct (while fuel body 0) as [[i|r]| |]; cbn [exit_ok] in R; try contradiction; cbn [bind].
    - unfold Qb, Q, cmpAB in R. rewrite R. reflexivity.
    - unfold Q, cmpAB in R. rewrite R. reflexivity.
  Qed.

  (* C06 for comparePrerelease: no panic, termination within min length + 2 iterations *)
  Corollary loops_golang_comparePrerelease_no_panic : forall a b, fits1 a -> fits1 b ->
    exists r, L.comparePrerelease cmpIdent (S (S (Nat.min (length a) (length b)))) a b = Done r.
  Proof. intros a b Fa Fb. eexists. apply tie_loops_golang_comparePrerelease; [assumption | assumption | lia]. Qed.

  (* the total function that Gen/Code's Version.Compare is generalised over *)
  Definition comparePrerelease_total (a b : bytes) : Z :=
    total 0 (L.comparePrerelease cmpIdent (S (S (Nat.min (length a) (length b)))) a b).

  Lemma comparePrerelease_total_model : forall a b, fits1 a -> fits1 b ->
    comparePrerelease_total a b = Z_of_cmp (M.compare_prerelease a b).
  Proof.
    intros a b Fa Fb. unfold comparePrerelease_total.
    rewrite tie_loops_golang_comparePrerelease by (assumption || lia). reflexivity.
  Qed.

  (* Version.Compare with the real comparePrerelease: the Hypothesis comparePrerelease_model of
     Tie/Golang.v, discharged for versions whose SemVer pre-release text (the result of
     semverPrerelease, still a Section variable of the generated code) has an int length *)
  Local Opaque M.compare_prerelease.
  Corollary tie_golang_compare_closed : forall (sp : G.Version -> bytes) (a b : G.Version),
    fits1 (sp a) -> fits1 (sp b) ->
    G.Version_Compare sp comparePrerelease_total a b =
    Z_of_cmp (M.cmp_core (T.abs sp a) (T.abs sp b)).
  Proof.
    intros sp a b Fa Fb. pose proof (comparePrerelease_total_model _ _ Fa Fb) as H.
    set (cp := comparePrerelease_total) in *. clearbody cp. clear Fa Fb.
    tie_solve_with H.
  Qed.
End Golang.
Print Assumptions tie_loops_golang_comparePrerelease.
Print Assumptions loops_golang_comparePrerelease_no_panic.
Print Assumptions comparePrerelease_total_model.
Print Assumptions tie_golang_compare_closed.
