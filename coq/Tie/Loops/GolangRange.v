(* Tie/Loops/GolangRange.v — range level: constraint.matches (translated in Gen/Parse/Golang.v,
   where NewVersion's (T, error) result is an option) and Contains of the generated code, applied
   to the REAL comparePrerelease (the total function of Tie/Loops/Golang.v, with an identifier
   comparison that returns the sign of the model's compare_identifier), equal the model's
   sat_constraint / contains.  This discharges the Hypothesis constraint_matches_model of
   Tie/GolangRange.v: the Section variable constraint_matches of Gen/Code/Golang.v is instantiated
   with the translated function.  What remains assumed is that NewVersion (outside both
   translated fragments: a Section variable of Gen/Parse/Golang.v) agrees with the model's parser;
   the domain is versions whose SemVer pre-release text has an int length. *)
From Coq Require Import ZArith List Bool Lia.
From Verif.Base Require Import Bytes GoNum GoOps Ord Imp ImpFacts.
From Verif.Eco Require Import VLayer RangeCore.
From Verif.Eco.Golang Require Version Range.
From Verif.Gen.Code Require Golang.
From Verif.Gen.Parse Require Golang.
From Verif.Tie Require Import Tactics.
From Verif.Tie Require Golang GolangRange.
From Verif.Tie.Loops Require Import Common Idents.
From Verif.Tie.Loops Require Golang.
Import ListNotations.
Local Open Scope Z_scope.

Module G := Verif.Gen.Code.Golang.
Module P := Verif.Gen.Parse.Golang.
Module M := Verif.Eco.Golang.Version.
Module R := Verif.Eco.Golang.Range.
Module T := Verif.Tie.Golang.
Module TR := Verif.Tie.GolangRange.
Module TL := Verif.Tie.Loops.Golang.

Section GolangRange.
  (* compareIdentifier *)
  Variable cmpIdent : bytes -> bytes -> Z.
  Hypothesis cmpIdent_model : forall x y, cmpIdent x y = Z_of_cmp (M.compare_identifier x y).
  (* Version.semverPrerelease: any function (the model's core is defined through it) *)
  Variable sp : G.Version -> bytes.
  (* NewVersion, and its agreement with the model's parser *)
  Variable newVersion : G.Ecosystem -> bytes -> option G.Version.
  Hypothesis newVersion_model : forall e t,
    option_map (T.abs_ver sp) (newVersion e t) = M.parse t.

  Local Opaque G.Version_Compare M.cmp_core.

  Theorem tie_golang_matches_closed : forall c v,
    fits1 (sp v) ->
    (forall w, newVersion G.mk_Ecosystem (G.constraint_version c) = Some w -> fits1 (sp w)) ->
    P.constraint_matches newVersion sp (TL.comparePrerelease_total cmpIdent) c v =
    sat_constraint M.ver M.parse M.cmp R.cfg (T.abs_ver sp v) (TR.abs_c c).
  Proof.
    intros c v Fv Fc. unfold P.constraint_matches, sat_constraint, TR.abs_c. cbv zeta. cbn [fst snd].
    rewrite <- (newVersion_model G.mk_Ecosystem).
    destruct (newVersion G.mk_Ecosystem (G.constraint_version c)) as [w|]; [|reflexivity].
    cbn [option_map]. specialize (Fc w eq_refl).
    rewrite (TL.tie_golang_compare_closed cmpIdent cmpIdent_model sp v w Fv Fc).
    unfold M.cmp, VLayer.cmp, T.abs_ver. cbn [v_core].
    change (rc_sem R.cfg) with R.golang_sem. unfold R.golang_sem.
    set (z := M.cmp_core _ _).
    repeat match goal with |- context [beq ?a ?b] => destruct (beq a b) end;
      destruct z; reflexivity.
  Qed.

  Theorem tie_golang_contains_closed : forall r v,
    fits1 (sp v) ->
    (forall c w, In c (G.VersionRange_constraints r) ->
       newVersion G.mk_Ecosystem (G.constraint_version c) = Some w -> fits1 (sp w)) ->
    G.VersionRange_Contains (P.constraint_matches newVersion sp (TL.comparePrerelease_total cmpIdent)) r v =
    RangeCore.contains M.ver M.parse M.cmp R.cfg (TR.abs_r r) (T.abs_ver sp v).
  Proof.
    intros r v Fv Fr. unfold G.VersionRange_Contains, RangeCore.contains, TR.abs_r. cbn [r_cs].
    induction (G.VersionRange_constraints r) as [|c l IH]; [reflexivity|].
    cbn [map forallb]. f_equal.
    - apply tie_golang_matches_closed; [exact Fv | intros w; apply Fr; left; reflexivity].
    - apply IH. intros c' w Hc. apply Fr. right. exact Hc.
  Qed.
End GolangRange.
Print Assumptions tie_golang_matches_closed.
Print Assumptions tie_golang_contains_closed.
