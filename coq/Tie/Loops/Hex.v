(* Tie/Loops/Hex.v — the generated translation of hex's comparePreRelease (index loop over two
   identifier slices, Gen/Loops/Hex.v) does not panic, terminates with fuel linear in the
   number of identifiers, and returns the sign of the model's comparison (Eco/Hex/Version.v,
   cmp_pre).  Discharges the Section variable [comparePreRelease] of Tie/Hex.v.

   comparePreReleaseIdentifier (it calls parseNumericIdentifier, which returns (int, error)) is
   outside the translated fragment: the generated function takes it as an argument, and the
   theorems assume that this argument returns the sign of the model's cmp_ident. *)
From Coq Require Import ZArith List Bool Lia Ascii.
From Verif.Base Require Import Bytes GoNum GoOps Ord BytesFacts Imp ImpFacts.
From Verif.Eco.Hex Require Version.
From Verif.Gen.Code Require Hex.
From Verif.Gen.Loops Require Hex.
From Verif.Tie Require Import Tactics.
From Verif.Tie Require Hex.
From Verif.Tie.Loops Require Import Common Idents.
Import ListNotations.
Local Open Scope Z_scope.

Module G := Verif.Gen.Code.Hex.
Module L := Verif.Gen.Loops.Hex.
Module M := Verif.Eco.Hex.Version.
Module T := Verif.Tie.Hex.

Section Hex.
  (* comparePreReleaseIdentifier *)
  Variable cmpIdent : bytes -> bytes -> Z.
  Hypothesis cmpIdent_model : forall x y, cmpIdent x y = Z_of_cmp (M.cmp_ident x y).

  (* bound: max (len pr1) (len pr2) *)
  Theorem tie_loops_hex_comparePreRelease : forall (pr1 pr2 : list bytes) (fuel : nat),
    fits pr1 -> fits pr2 -> (Nat.max (length pr1) (length pr2) < fuel)%nat ->
    L.comparePreRelease cmpIdent fuel pr1 pr2 = Done (Z_of_cmp (M.cmp_pre pr1 pr2)).
  Proof.
    intros pr1 pr2 fuel Fa Fb Hfuel.
    unfold L.comparePreRelease, M.cmp_pre.
    destruct pr1 as [|x1 p1]; destruct pr2 as [|x2 p2]; try reflexivity.
    set (A := x1 :: p1) in *. set (B := x2 :: p2) in *.
    assert (NA : Z.of_nat (length A) <> 0) by (subst A; cbn [length]; lia).
    assert (NB : Z.of_nat (length B) <> 0) by (subst B; cbn [length]; lia).
    destruct (Z.eqb_spec (Z.of_nat (length A)) 0) as [?|_]; [contradiction|].
    destruct (Z.eqb_spec (Z.of_nat (length B)) 0) as [?|_]; [contradiction|].
    cbn [andb]. cbv zeta.
    set (maxLen := if Z.ltb (Z.of_nat (length A)) (Z.of_nat (length B)) then _ else _).
    assert (EmaxLen : maxLen = Z.of_nat (Nat.max (length A) (length B))).
    { subst maxLen. destruct (Z.ltb_spec (Z.of_nat (length A)) (Z.of_nat (length B))); lia. }
    clearbody maxLen. clearbody A B.
    set (body := fun i : Z => _).
    pose (cmpAB := lex_short M.cmp_ident).
    pose (Inv := fun i : Z => 0 <= i <= maxLen /\
       cmpAB A B = cmpAB (skipn (Z.to_nat i) A) (skipn (Z.to_nat i) B)).
    pose (Q := fun r : Z => r = Z_of_cmp (cmpAB A B)).
    pose (Qb := fun _ : Z => cmpAB A B = Eq).
    assert (R : exit_ok Qb Q (while fuel body 0)).
    { apply (while_rule_fuel body Inv (fun i => Z.to_nat (maxLen - i))).
      - intros i [Hi E]. unfold step_ok, body.
        destruct (Z.ltb_spec i maxLen) as [Hlt|Hge].
        + destruct (Z.leb_spec (Z.of_nat (length A)) i) as [La|La].
          { unfold Q. rewrite E. unfold cmpAB. rewrite lex_short_skipn_lt by lia. reflexivity. }
          destruct (Z.leb_spec (Z.of_nat (length B)) i) as [Lb|Lb].
          { unfold Q. rewrite E. unfold cmpAB. rewrite lex_short_skipn_gt by lia. reflexivity. }
          rewrite (idx_in_range A i []) by (unfold len; lia).
          rewrite (idx_in_range B i []) by (unfold len; lia).
          cbn [bind]. cbv zeta.
          set (x := nth (Z.to_nat i) A []). set (y := nth (Z.to_nat i) B []).
          assert (E' : cmpAB A B = thenc (M.cmp_ident x y)
                         (cmpAB (skipn (S (Z.to_nat i)) A) (skipn (S (Z.to_nat i)) B))).
          { rewrite E. unfold cmpAB. apply lex_short_skipn_step; lia. }
          clear E. rename E' into E.
          rewrite cmpIdent_model.
          destruct (Z.eqb_spec (Z_of_cmp (M.cmp_ident x y)) 0) as [Ec|Ec]; cbn [negb].
          * apply Z_of_cmp_eq0 in Ec.
            rewrite (wrap64_succ i maxLen) by (unfold fits in *; lia).
            split; [|lia]. split; [lia|]. rewrite E, Ec, Z_to_nat_succ by lia. reflexivity.
          * unfold Q. rewrite E, thenc_ne; [reflexivity|].
            intros C. apply Ec. rewrite C. reflexivity.
        + unfold Qb. rewrite E. apply lex_short_skipn_eq; lia.
      - split; [lia | reflexivity].
      - lia. }
    destruct (while fuel body 0) as [[i|r]| |]; cbn [exit_ok] in R; try contradiction; cbn [bind].
    - unfold Qb, cmpAB in R.
      destruct A; [exfalso; apply NA; reflexivity|]. destruct B; [exfalso; apply NB; reflexivity|].
      rewrite R. reflexivity.
    - unfold Q, cmpAB in R.
      destruct A; [exfalso; apply NA; reflexivity|]. destruct B; [exfalso; apply NB; reflexivity|].
      rewrite R. reflexivity.
  Qed.

  (* C06 for comparePreRelease: no panic, termination within max length + 1 iterations *)
  Corollary loops_hex_comparePreRelease_no_panic : forall pr1 pr2, fits pr1 -> fits pr2 ->
    exists r, L.comparePreRelease cmpIdent (S (Nat.max (length pr1) (length pr2))) pr1 pr2 = Done r.
  Proof. intros a b Fa Fb. eexists. apply tie_loops_hex_comparePreRelease; [assumption | assumption | lia]. Qed.

  (* the total function that Gen/Code's Version.Compare is generalised over *)
  Definition comparePreRelease_total (pr1 pr2 : list bytes) : Z :=
    total 0 (L.comparePreRelease cmpIdent (S (Nat.max (length pr1) (length pr2))) pr1 pr2).

  Lemma comparePreRelease_total_model : forall pr1 pr2, fits pr1 -> fits pr2 ->
    comparePreRelease_total pr1 pr2 = Z_of_cmp (M.cmp_pre pr1 pr2).
  Proof.
    intros a b Fa Fb. unfold comparePreRelease_total.
    rewrite tie_loops_hex_comparePreRelease by (assumption || lia). reflexivity.
  Qed.

  (* Version.Compare with the real comparePreRelease: the Hypothesis comparePreRelease_model of
     Tie/Hex.v, discharged for versions whose identifier slices have an int length *)
  Local Opaque M.cmp_pre.
  Corollary tie_hex_compare_closed : forall a b : G.Version,
    fits (G.Version_preRelease a) -> fits (G.Version_preRelease b) ->
    G.Version_Compare comparePreRelease_total a b = Z_of_cmp (M.cmp_core (T.abs a) (T.abs b)).
  Proof.
    intros a b Fa Fb. pose proof (comparePreRelease_total_model _ _ Fa Fb) as H.
    set (cp := comparePreRelease_total) in *. clearbody cp.
    destruct a, b. cbn [G.Version_preRelease] in H. clear Fa Fb.
    tie_solve_with H.
  Qed.
End Hex.
Print Assumptions tie_loops_hex_comparePreRelease.
Print Assumptions loops_hex_comparePreRelease_no_panic.
Print Assumptions comparePreRelease_total_model.
Print Assumptions tie_hex_compare_closed.
