(* Tie/Loops/HexRange.v — range level: constraint.matches / Contains of the generated code
   (Gen/Code/Hex.v) applied to the REAL comparePreRelease (the total function of Tie/Loops/Hex.v,
   with an identifier comparison that returns the sign of the model's cmp_ident for the
   untranslated comparePreReleaseIdentifier) equal the model's comparators.  Discharges the
   Hypothesis comparePreRelease_model of Tie/HexRange.v on ranges and versions whose pre-release
   identifier slices have an int length. *)
From Coq Require Import ZArith List Bool Lia.
From Verif.Base Require Import Bytes GoNum GoOps Ord Imp ImpFacts.
From Verif.Eco Require Import RangeCore.
From Verif.Eco.Hex Require Version Range.
From Verif.Gen.Code Require Hex.
From Verif.Tie Require Import Tactics.
From Verif.Tie Require Hex HexRange.
From Verif.Tie.Loops Require Import Common.
From Verif.Tie.Loops Require Hex.
Import ListNotations.
Local Open Scope Z_scope.

Module G := Verif.Gen.Code.Hex.
Module M := Verif.Eco.Hex.Version.
Module T := Verif.Tie.Hex.
Module TR := Verif.Tie.HexRange.
Module TL := Verif.Tie.Loops.Hex.

Section HexRange.
  (* comparePreReleaseIdentifier *)
  Variable cmpIdent : bytes -> bytes -> Z.
  Hypothesis cmpIdent_model : forall x y, cmpIdent x y = Z_of_cmp (M.cmp_ident x y).

  Corollary tie_hex_matches_closed : forall c v,
    fits (G.Version_preRelease v) -> fits (G.Version_preRelease (G.constraint_version c)) ->
    G.constraint_matches (TL.comparePreRelease_total cmpIdent) c v =
    sat (sem5 (G.constraint_operator c)) (M.cmp_core (T.abs v) (T.abs (G.constraint_version c))).
  Proof.
    intros c v Fv Fc. rewrite TR.tie_hex_matches.
    rewrite (TL.tie_hex_compare_closed cmpIdent cmpIdent_model) by assumption.
    rewrite cmp_of_Z_of_cmp. reflexivity.
  Qed.

  Corollary tie_hex_contains_closed : forall r v,
    fits (G.Version_preRelease v) ->
    (forall c, In c (G.VersionRange_constraints r) -> fits (G.Version_preRelease (G.constraint_version c))) ->
    G.VersionRange_Contains (TL.comparePreRelease_total cmpIdent) r v =
    forallb (fun c => sat (sem5 (G.constraint_operator c)) (M.cmp_core (T.abs v) (T.abs (G.constraint_version c))))
            (G.VersionRange_constraints r).
  Proof.
    intros r v Fv Fr. unfold G.VersionRange_Contains. apply forallb_ext_in. intros c Hc.
    apply tie_hex_matches_closed; auto.
  Qed.
End HexRange.
Print Assumptions tie_hex_matches_closed.
Print Assumptions tie_hex_contains_closed.

(* closed: the identifier comparison is the model's cmp_ident *)
Theorem tie_hex_contains_closed_model_ident : forall r v,
  fits (G.Version_preRelease v) ->
  (forall c, In c (G.VersionRange_constraints r) -> fits (G.Version_preRelease (G.constraint_version c))) ->
  G.VersionRange_Contains (TL.comparePreRelease_total (fun x y => Z_of_cmp (M.cmp_ident x y))) r v =
  forallb (fun c => sat (sem5 (G.constraint_operator c)) (M.cmp_core (T.abs v) (T.abs (G.constraint_version c))))
          (G.VersionRange_constraints r).
Proof. apply tie_hex_contains_closed. reflexivity. Qed.
Print Assumptions tie_hex_contains_closed_model_ident.
