(* Tie/Loops/Idents.v — shared model-side facts for the identifier loops of the semver family
   (npm, nuget, hex, cargo, golang: comparePrerelease and friends, Gen/Loops/<Eco>.v): the
   padded / short lexicographic comparison of two identifier lists seen from a cursor
   (skipn n ..), the length of strings.Split, and a[i] with Go's zero value past the end.
   The first four lemmas are copies of the ones in the semver pilot (Tie/Loops/Semver.v). *)
From Coq Require Import ZArith List Bool Lia Ascii.
From Verif.Base Require Import Bytes GoNum GoOps Ord BytesFacts Imp ImpFacts.
From Verif.Tie Require Import Tactics.
From Verif.Tie.Loops Require Import Common.
Import ListNotations.
Local Open Scope Z_scope.

(* ---------- lex_pad on the unread suffixes ---------- *)

Lemma lex_pad_skipn_step {A} (pad : A) (cmp : A -> A -> comparison) (a b : list A) (n : nat) :
  cmp pad pad = Eq ->
  lex_pad pad cmp (skipn n a) (skipn n b) =
  thenc (cmp (nth n a pad) (nth n b pad)) (lex_pad pad cmp (skipn (S n) a) (skipn (S n) b)).
Proof.
  intros R.
  destruct (Nat.lt_ge_cases n (length a)) as [La|La], (Nat.lt_ge_cases n (length b)) as [Lb|Lb].
  - rewrite (skipn_nth_cons a n pad La), (skipn_nth_cons b n pad Lb). reflexivity.
  - rewrite (skipn_nth_cons a n pad La), (skipn_all2 b Lb), (skipn_all2 b) by lia.
    rewrite (nth_overflow b pad Lb). reflexivity.
  - rewrite (skipn_nth_cons b n pad Lb), (skipn_all2 a La), (skipn_all2 a) by lia.
    rewrite (nth_overflow a pad La). reflexivity.
  - rewrite (skipn_all2 a La), (skipn_all2 b Lb), (skipn_all2 a), (skipn_all2 b) by lia.
    rewrite (nth_overflow a pad La), (nth_overflow b pad Lb), R. reflexivity.
Qed.

Lemma lex_pad_exhausted {A} (pad : A) (cmp : A -> A -> comparison) (a b : list A) (n : nat) :
  (length a <= n)%nat -> (length b <= n)%nat -> lex_pad pad cmp (skipn n a) (skipn n b) = Eq.
Proof. intros La Lb. rewrite (skipn_all2 a La), (skipn_all2 b Lb). reflexivity. Qed.

Lemma split_c_length c s : (1 <= length (split_c c s) <= S (length s))%nat.
Proof.
  induction s as [|x s IH]; cbn [split_c length]; [lia|].
  destruct (ceqb c x); cbn [length]; [lia|].
  destruct (split_c c s) as [|f fs]; cbn [length] in *; lia.
Qed.

(* a[i] with Go's zero value past the end *)
Lemma idx_or_default (l : list bytes) (i : Z) : 0 <= i ->
  (if Z.ltb i (Z.of_nat (length l)) then bind (idx l i) (fun p => Done p) else Done ([] : bytes))
  = Done (nth (Z.to_nat i) l []).
Proof.
  intros Hi. destruct (Z.ltb_spec i (Z.of_nat (length l))) as [Hlt|Hge].
  - rewrite (idx_in_range l i []) by (unfold len; lia). reflexivity.
  - rewrite nth_overflow by lia. reflexivity.
Qed.

(* strings.Split(s, ".") has at most len s + 1 parts: that number must be an int *)
Definition fits1 (s : bytes) : Prop := Z.of_nat (length s) + 1 < 2 ^ 63.

(* ---------- lex_short on the unread suffixes ---------- *)

Lemma lex_short_skipn_step {A} (d : A) (cmp : A -> A -> comparison) (a b : list A) (n : nat) :
  (n < length a)%nat -> (n < length b)%nat ->
  lex_short cmp (skipn n a) (skipn n b) =
  thenc (cmp (nth n a d) (nth n b d)) (lex_short cmp (skipn (S n) a) (skipn (S n) b)).
Proof.
  intros La Lb. rewrite (skipn_nth_cons a n d La), (skipn_nth_cons b n d Lb). reflexivity.
Qed.

(* one list is exhausted: the shorter one is smaller *)
Lemma lex_short_skipn_lt {A} (cmp : A -> A -> comparison) (a b : list A) (n : nat) :
  (length a <= n)%nat -> (n < length b)%nat -> lex_short cmp (skipn n a) (skipn n b) = Lt.
Proof.
  intros La Lb. rewrite (skipn_all2 a La).
  destruct (skipn n b) eqn:S; [|reflexivity]. apply skipn_nil_len in S. lia.
Qed.

Lemma lex_short_skipn_gt {A} (cmp : A -> A -> comparison) (a b : list A) (n : nat) :
  (n < length a)%nat -> (length b <= n)%nat -> lex_short cmp (skipn n a) (skipn n b) = Gt.
Proof.
  intros La Lb. rewrite (skipn_all2 b Lb).
  destruct (skipn n a) eqn:S; [|reflexivity]. apply skipn_nil_len in S. lia.
Qed.

Lemma lex_short_skipn_eq {A} (cmp : A -> A -> comparison) (a b : list A) (n : nat) :
  (length a <= n)%nat -> (length b <= n)%nat -> lex_short cmp (skipn n a) (skipn n b) = Eq.
Proof. intros La Lb. rewrite (skipn_all2 a La), (skipn_all2 b Lb). reflexivity. Qed.

(* the cursor stopped at the end of the shorter list: the lengths decide *)
Lemma lex_short_exhausted {A} (cmp : A -> A -> comparison) (a b : list A) (n : nat) :
  n = Nat.min (length a) (length b) ->
  lex_short cmp (skipn n a) (skipn n b) = Z.compare (Z.of_nat (length a)) (Z.of_nat (length b)).
Proof.
  intros E. destruct (Nat.lt_trichotomy (length a) (length b)) as [H|[H|H]].
  - rewrite lex_short_skipn_lt by lia. symmetry. apply Z.compare_lt_iff. lia.
  - rewrite lex_short_skipn_eq by lia. symmetry. apply Z.compare_eq_iff. lia.
  - rewrite lex_short_skipn_gt by lia. symmetry. apply Z.compare_gt_iff. lia.
Qed.

(* ---------- Go's (value, ok) results ---------- *)

(* a model function returning option Z  ->  the (value, ok) pair of the Go function
   (parseNum, tryParseInt: "return 0, false" on failure) *)
Definition num_pair (o : option Z) : Z * bool :=
  match o with Some n => (n, true) | None => (0, false) end.

(* ---------- small facts about signs ---------- *)

Lemma Z_of_cmp_eq0 c : Z_of_cmp c = 0 <-> c = Eq.
Proof. destruct c; cbv; split; congruence. Qed.

Lemma thenc_Eq_l (c : comparison) : thenc Eq c = c.
Proof. reflexivity. Qed.

Lemma thenc_ne c d : c <> Eq -> thenc c d = c.
Proof. destruct c; [congruence| |]; reflexivity. Qed.

Print Assumptions lex_pad_skipn_step.
Print Assumptions lex_pad_exhausted.
Print Assumptions split_c_length.
Print Assumptions idx_or_default.
Print Assumptions lex_short_skipn_step.
Print Assumptions lex_short_skipn_lt.
Print Assumptions lex_short_skipn_gt.
Print Assumptions lex_short_skipn_eq.
Print Assumptions lex_short_exhausted.
Print Assumptions Z_of_cmp_eq0.
Print Assumptions thenc_ne.
