(* Tie/Loops/Maven.v — the generated translation of maven's trimTrailingNulls (a loop that shrinks
   the slice from its end: elements[len-1], elements[:len-1]; Gen/Loops/Maven.v) does not panic,
   terminates with fuel linear in the input length, and returns the model's answer
   (Eco/Maven/Version.v, trimTrailingNulls = rev . drop_while isNullElement . rev).

   Representation (explicit abstraction).  The Go element is {value interface{}; isNumber bool};
   the field [value] is outside the translated fragment, so the generated record
   Gen/Code/Maven.v element keeps only isNumber and there is NO function from it to the model's
   [elem] (Num z | Str s).  isNullElement (a type assertion) is outside both fragments too: the
   generated function takes it as an argument.  The theorems are therefore stated
     (1) for an ARBITRARY predicate, against the generic [trim_by] on any element type, and
     (2) for an arbitrary representation function  rep : element -> elem  under which the
         predicate argument is the model's isNullElement:  the result, read through rep, is the
         model's trimTrailingNulls of the input read through rep.
   maven has no Tie/Maven.v (no version-level function is translated), so there is no Section
   hypothesis to discharge. *)
From Coq Require Import ZArith List Bool Lia.
From Verif.Base Require Import Bytes GoNum GoOps Ord Imp ImpFacts.
From Verif.Eco.Maven Require Version.
From Verif.Gen.Code Require Maven.
From Verif.Gen.Loops Require Maven.
From Verif.Tie Require Import Tactics.
From Verif.Tie.Loops Require Import Common.
Import ListNotations.
Local Open Scope Z_scope.

Module G := Verif.Gen.Code.Maven.
Module L := Verif.Gen.Loops.Maven.
Module M := Verif.Eco.Maven.Version.

(* ---------- the model, on any element type ---------- *)

Fixpoint drop_while_g {A} (p : A -> bool) (l : list A) : list A :=
  match l with
  | e :: l' => if p e then drop_while_g p l' else l
  | [] => []
  end.

Definition trim_by {A} (p : A -> bool) (l : list A) : list A := rev (drop_while_g p (rev l)).

Lemma trim_by_nil {A} (p : A -> bool) : trim_by p [] = [].
Proof. reflexivity. Qed.

Lemma trim_by_snoc_true {A} (p : A -> bool) l x : p x = true -> trim_by p (l ++ [x]) = trim_by p l.
Proof. intros H. unfold trim_by. rewrite rev_unit. cbn [drop_while_g]. rewrite H. reflexivity. Qed.

Lemma trim_by_snoc_false {A} (p : A -> bool) l x : p x = false -> trim_by p (l ++ [x]) = l ++ [x].
Proof.
  intros H. unfold trim_by. rewrite rev_unit. cbn [drop_while_g]. rewrite H.
  cbn [rev]. rewrite rev_involutive. reflexivity.
Qed.

Lemma trim_by_length {A} (p : A -> bool) l : (length (trim_by p l) <= length l)%nat.
Proof.
  unfold trim_by. rewrite rev_length, <- (rev_length l).
  induction (rev l) as [|e r IH]; cbn [drop_while_g length]; [lia|].
  destruct (p e); cbn [length]; lia.
Qed.

(* the model's drop_while_e is the generic one, through a representation function *)
Lemma drop_while_rep {A} (rep : A -> M.elem) (p : A -> bool) :
  (forall e, p e = M.isNullElement (rep e)) ->
  forall l, map rep (drop_while_g p l) = M.drop_while_e M.isNullElement (map rep l).
Proof.
  intros H. induction l as [|e l IH]; cbn [drop_while_g map M.drop_while_e]; [reflexivity|].
  rewrite <- H. destruct (p e); [exact IH | reflexivity].
Qed.

Lemma trim_by_rep {A} (rep : A -> M.elem) (p : A -> bool) :
  (forall e, p e = M.isNullElement (rep e)) ->
  forall l, map rep (trim_by p l) = M.trimTrailingNulls (map rep l).
Proof.
  intros H l. unfold trim_by, M.trimTrailingNulls.
  rewrite map_rev, (drop_while_rep rep p H), map_rev. reflexivity.
Qed.

(* ---------- the last element and the slice without it ---------- *)

Lemma idx_last {A} (l : list A) (x : A) : idx (l ++ [x]) (len l) = Done x.
Proof.
  apply idx_Done. split.
  - unfold len. rewrite app_length. cbn [length]. lia.
  - unfold len. rewrite Nat2Z.id, nth_error_app2, Nat.sub_diag by lia. reflexivity.
Qed.

Lemma slice_to_init {A} (l : list A) (x : A) : slice_to (l ++ [x]) (len l) = Done l.
Proof.
  rewrite slice_to_in_range.
  - unfold len. rewrite Nat2Z.id, firstn_app, Nat.sub_diag, firstn_all. cbn [firstn].
    rewrite app_nil_r. reflexivity.
  - unfold len. rewrite app_length. cbn [length]. lia.
Qed.

Lemma snoc_cases {A} (l : list A) : l = [] \/ exists l' x, l = l' ++ [x].
Proof.
  destruct (rev l) as [|x r] eqn:E.
  - left. rewrite <- (rev_involutive l), E. reflexivity.
  - right. exists (rev r), x. rewrite <- (rev_involutive l), E. reflexivity.
Qed.

Section Trim.
  (* isNullElement *)
  Variable isNull : G.element -> bool.

  (* no panic, linear fuel (the length), and the answer for an arbitrary predicate *)
  Theorem tie_loops_maven_trimTrailingNulls_gen : forall (l : list G.element) (fuel : nat),
    fits l -> (length l < fuel)%nat ->
    L.trimTrailingNulls isNull fuel l = Done (trim_by isNull l).
  Proof.
    intros l fuel Fl Hfuel. unfold L.trimTrailingNulls.
    set (body := fun s : list G.element => _).
    pose (Inv := fun s : list G.element => fits s /\ trim_by isNull l = trim_by isNull s).
    pose (Q := fun _ : list G.element => False).
    pose (Qb := fun s : list G.element => s = trim_by isNull l).
    assert (R : exit_ok Qb Q (while fuel body l)).
    { apply (while_rule_fuel body Inv (fun s => length s)).
      - intros s [Fs E]. unfold step_ok, body.
        destruct (snoc_cases s) as [Es|[s' [x Es]]]; subst s.
        + cbn [length Z.of_nat Z.ltb Z.compare]. unfold Qb. rewrite E. reflexivity.
        + assert (Hlen : Z.of_nat (length (s' ++ [x])) - 1 = len s').
          { rewrite app_length. cbn [length]. unfold len. lia. }
          rewrite Hlen.
          assert (Hw : wrap64 (len s') = len s').
          { apply wrap64_small. unfold fits in Fs. rewrite app_length in Fs. unfold len. lia. }
          rewrite Hw.
          destruct (Z.ltb_spec 0 (Z.of_nat (length (s' ++ [x])))) as [Hpos|Hpos];
            [|rewrite app_length in Hpos; cbn [length] in Hpos; lia].
          rewrite idx_last. cbn [bind].
          destruct (isNull x) eqn:Px.
          * rewrite slice_to_init. cbn [bind]. split.
            -- split.
               ++ unfold fits in *. rewrite app_length in Fs. lia.
               ++ rewrite E. apply trim_by_snoc_true. exact Px.
            -- rewrite app_length. cbn [length]. lia.
          * unfold Qb. rewrite E. symmetry. apply trim_by_snoc_false. exact Px.
      - split; [exact Fl | reflexivity].
      - exact Hfuel. }
    destruct (while fuel body l) as [[s|r]| |]; cbn [exit_ok] in R; try contradiction; cbn [bind].
    unfold Qb in R. rewrite R. reflexivity.
  Qed.

  (* the same against the model, through a representation of the elements *)
  Variable rep : G.element -> M.elem.
  Hypothesis isNull_model : forall e, isNull e = M.isNullElement (rep e).

  Theorem tie_loops_maven_trimTrailingNulls : forall (l : list G.element) (fuel : nat),
    fits l -> (length l < fuel)%nat ->
    rmap (map rep) (L.trimTrailingNulls isNull fuel l) = Done (M.trimTrailingNulls (map rep l)).
  Proof.
    intros l fuel Fl Hfuel. rewrite tie_loops_maven_trimTrailingNulls_gen by assumption.
    unfold rmap. cbn [bind]. rewrite (trim_by_rep rep isNull isNull_model). reflexivity.
  Qed.

  (* C06 for trimTrailingNulls: no panic, termination within len + 1 iterations *)
  Corollary loops_maven_trimTrailingNulls_no_panic : forall l, fits l ->
    exists r, L.trimTrailingNulls isNull (S (length l)) l = Done r.
  Proof. intros l Fl. eexists. apply tie_loops_maven_trimTrailingNulls_gen; [assumption | lia]. Qed.

  Definition trimTrailingNulls_total (l : list G.element) : list G.element :=
    total [] (L.trimTrailingNulls isNull (S (length l)) l).

  Lemma trimTrailingNulls_total_model : forall l, fits l ->
    map rep (trimTrailingNulls_total l) = M.trimTrailingNulls (map rep l).
  Proof.
    intros l Fl. unfold trimTrailingNulls_total.
    rewrite tie_loops_maven_trimTrailingNulls_gen by (assumption || lia). cbn [total].
    apply (trim_by_rep rep isNull isNull_model).
  Qed.

  (* the result is a prefix-length-bounded slice of the input: it never grows *)
  Lemma trimTrailingNulls_total_length : forall l, fits l ->
    (length (trimTrailingNulls_total l) <= length l)%nat.
  Proof.
    intros l Fl. unfold trimTrailingNulls_total.
    rewrite tie_loops_maven_trimTrailingNulls_gen by (assumption || lia). cbn [total].
    apply trim_by_length.
  Qed.
End Trim.
Print Assumptions tie_loops_maven_trimTrailingNulls_gen.
Print Assumptions tie_loops_maven_trimTrailingNulls.
Print Assumptions loops_maven_trimTrailingNulls_no_panic.
Print Assumptions trimTrailingNulls_total_model.
Print Assumptions trimTrailingNulls_total_length.
