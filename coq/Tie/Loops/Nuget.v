(* Tie/Loops/Nuget.v — the generated translation of nuget's comparePrerelease (identifier loop
   over the dot-separated parts, Gen/Loops/Nuget.v) does not panic, terminates with fuel linear in
   the input lengths, and returns the sign of the model's comparison (Eco/Nuget/Version.v,
   compare_prerelease).
   Discharges the Section variable [comparePrerelease] of Tie/Nuget.v.

   parseNum (strings.TrimLeft + strconv.Atoi) is outside the translated fragment: the generated
   function takes it as an argument of type bytes -> Z * bool, and the theorems assume that this
   argument is the model's parse_num (an option Z: Some n is (n, true), None is (0, false) — the
   sentinel pair the Go function returns). *)
From Coq Require Import ZArith List Bool Lia Ascii.
From Verif.Base Require Import Bytes GoNum GoOps Ord BytesFacts Imp ImpFacts.
From Verif.Eco.Nuget Require Version.
From Verif.Gen.Code Require Nuget.
From Verif.Gen.Loops Require Nuget.
From Verif.Tie Require Import Tactics.
From Verif.Tie Require Nuget.
From Verif.Tie.Loops Require Import Common Idents.
Import ListNotations.
Local Open Scope Z_scope.

Module G := Verif.Gen.Code.Nuget.
Module L := Verif.Gen.Loops.Nuget.
Module M := Verif.Eco.Nuget.Version.
Module T := Verif.Tie.Nuget.

(* ---------- the model, one identifier at a time ---------- *)

Lemma part_cmp_nil_nil : M.part_cmp [] [] = Eq.
Proof. reflexivity. Qed.

Lemma part_cmp_nil_cons c y : M.part_cmp [] (c :: y) = Lt.
Proof. reflexivity. Qed.

Lemma part_cmp_cons_nil c x : M.part_cmp (c :: x) [] = Gt.
Proof. reflexivity. Qed.

Lemma part_cmp_num_num x y n m : x <> [] -> y <> [] -> M.parse_num x = Some n -> M.parse_num y = Some m ->
  M.part_cmp x y = Z.compare n m.
Proof.
  intros Hx Hy Nx Ny. unfold M.part_cmp.
  destruct x; [congruence|]. destruct y; [congruence|]. rewrite Nx, Ny. reflexivity.
Qed.

Lemma part_cmp_num_str x y n : x <> [] -> y <> [] -> M.parse_num x = Some n -> M.parse_num y = None ->
  M.part_cmp x y = Lt.
Proof.
  intros Hx Hy Nx Ny. unfold M.part_cmp.
  destruct x; [congruence|]. destruct y; [congruence|]. rewrite Nx, Ny. reflexivity.
Qed.

Lemma part_cmp_str_num x y m : x <> [] -> y <> [] -> M.parse_num x = None -> M.parse_num y = Some m ->
  M.part_cmp x y = Gt.
Proof.
  intros Hx Hy Nx Ny. unfold M.part_cmp.
  destruct x; [congruence|]. destruct y; [congruence|]. rewrite Nx, Ny. reflexivity.
Qed.

Lemma part_cmp_str_str x y : x <> [] -> y <> [] -> M.parse_num x = None -> M.parse_num y = None ->
  M.part_cmp x y = bytes_cmp x y.
Proof.
  intros Hx Hy Nx Ny. unfold M.part_cmp.
  destruct x; [congruence|]. destruct y; [congruence|]. rewrite Nx, Ny. reflexivity.
Qed.

Section Nuget.
  (* parseNum *)
  Variable parseNum : bytes -> Z * bool.
  Hypothesis parseNum_model : forall s, parseNum s = num_pair (M.parse_num s).

  (* bound: S (max (len a) (len b)) — at most max (len a) (len b) + 1 identifiers *)
  Theorem tie_loops_nuget_comparePrerelease : forall (a b : bytes) (fuel : nat),
    fits1 a -> fits1 b -> (S (Nat.max (length a) (length b)) < fuel)%nat ->
    L.comparePrerelease parseNum fuel a b = Done (Z_of_cmp (M.compare_prerelease a b)).
  Proof.
    intros a b fuel Fa Fb Hfuel.
    unfold L.comparePrerelease, M.compare_prerelease.
    destruct a as [|ca a']; destruct b as [|cb b']; cbn [beq andb]; try reflexivity.
    set (a := ca :: a') in *. set (b := cb :: b') in *.
    change (chr 46) with "."%char.
    set (A := split_c "."%char a). set (B := split_c "."%char b).
    cbv zeta.
    set (maxLen := if Z.ltb (Z.of_nat (length A)) (Z.of_nat (length B)) then _ else _).
    assert (EmaxLen : maxLen = Z.of_nat (Nat.max (length A) (length B))).
    { subst maxLen. destruct (Z.ltb_spec (Z.of_nat (length A)) (Z.of_nat (length B))); lia. }
    clearbody maxLen.
    pose proof (split_c_length "."%char a) as LA. pose proof (split_c_length "."%char b) as LB.
    fold A in LA. fold B in LB.
    set (body := fun i : Z => _).
    pose (cmpAB := lex_pad [] M.part_cmp).
    pose (Inv := fun i : Z => 0 <= i <= maxLen /\
       cmpAB A B = cmpAB (skipn (Z.to_nat i) A) (skipn (Z.to_nat i) B)).
    pose (Q := fun r : Z => r = Z_of_cmp (cmpAB A B)).
    pose (Qb := fun _ : Z => cmpAB A B = Eq).
    assert (R : exit_ok Qb Q (while fuel body 0)).
    { apply (while_rule_fuel body Inv (fun i => Z.to_nat (maxLen - i))).
      - intros i [Hi E]. unfold step_ok, body.
        destruct (Z.ltb_spec i maxLen) as [Hlt|Hge].
        + cbv zeta.
          rewrite (idx_or_default A i), (idx_or_default B i) by lia. cbn [bind].
          set (x := nth (Z.to_nat i) A []). set (y := nth (Z.to_nat i) B []).
          assert (E' : cmpAB A B = thenc (M.part_cmp x y)
                         (cmpAB (skipn (S (Z.to_nat i)) A) (skipn (S (Z.to_nat i)) B))).
          { rewrite E. unfold cmpAB. apply lex_pad_skipn_step. reflexivity. }
          clear E. rename E' into E.
          rewrite (wrap64_succ i maxLen) by (unfold fits1 in *; simpl length in *; lia).
          assert (Step : forall c, M.part_cmp x y = c -> c <> Eq -> Q (Z_of_cmp c)).
          { intros c Ec Ne. unfold Q. rewrite E, Ec. destruct c; [congruence| |]; reflexivity. }
          assert (Go : M.part_cmp x y = Eq -> Inv (i + 1) /\ (Z.to_nat (maxLen - (i + 1)) < Z.to_nat (maxLen - i))%nat).
          { intros Ec. split; [|lia]. split; [lia|]. rewrite E, Ec, Z_to_nat_succ by lia. reflexivity. }
          rewrite !parseNum_model.
          destruct x as [|c1 x']; destruct y as [|c2 y']; cbn [beq andb negb].
          * (* both exhausted or empty: equal parts *)
            change (M.parse_num []) with (@None Z). cbn [num_pair andb].
            apply Go. reflexivity.
          * apply (Step Lt); [apply part_cmp_nil_cons | discriminate].
          * apply (Step Gt); [apply part_cmp_cons_nil | discriminate].
          * change (ceqb c1 c2 && beq x' y')%bool with (beq (c1 :: x') (c2 :: y')).
            set (x := c1 :: x') in *. set (y := c2 :: y') in *.
            assert (Hx : x <> []) by discriminate. assert (Hy : y <> []) by discriminate.
            destruct (M.parse_num x) as [n|] eqn:Nx, (M.parse_num y) as [m|] eqn:Ny;
              cbn [num_pair andb].
            -- pose proof (part_cmp_num_num x y n m Hx Hy Nx Ny) as P.
               destruct (Z.eqb_spec n m) as [Enm|Ne]; cbn [negb].
               ++ apply Go. rewrite P, Enm. apply Z.compare_refl.
               ++ rewrite T.tie_nuget_compareInt. apply Step; [exact P|].
                  intros C. apply Z.compare_eq in C. contradiction.
            -- apply (Step Lt); [eapply part_cmp_num_str; eassumption | discriminate].
            -- apply (Step Gt); [eapply part_cmp_str_num; eassumption | discriminate].
            -- pose proof (part_cmp_str_str x y Hx Hy Nx Ny) as P.
               destruct (beq x y) eqn:Exy; cbn [negb].
               ++ apply beq_eq in Exy. apply Go. rewrite P. apply bytes_cmp_eq. exact Exy.
               ++ apply (Step (bytes_cmp x y)); [exact P|].
                  intros C. apply bytes_cmp_eq in C. apply beq_eq in C. congruence.
        + unfold Qb. rewrite E. apply lex_pad_exhausted; clear - EmaxLen Hge Hi; unfold bytes in *; lia.
      - split; [lia | reflexivity].
      - lia. }
    destruct (while fuel body 0) as [[i|r]| |]; cbn [exit_ok] in R; try contradiction; cbn [bind].
    - unfold Qb, cmpAB in R. rewrite R. reflexivity.
    - unfold Q, cmpAB in R. rewrite R. reflexivity.
  Qed.

  (* C06 for comparePrerelease: no panic, termination within max length + 2 iterations *)
  Corollary loops_nuget_comparePrerelease_no_panic : forall a b, fits1 a -> fits1 b ->
    exists r, L.comparePrerelease parseNum (S (S (Nat.max (length a) (length b)))) a b = Done r.
  Proof. intros a b Fa Fb. eexists. apply tie_loops_nuget_comparePrerelease; [assumption | assumption | lia]. Qed.

  (* the total function that Gen/Code's Version.Compare is generalised over *)
  Definition comparePrerelease_total (a b : bytes) : Z :=
    total 0 (L.comparePrerelease parseNum (S (S (Nat.max (length a) (length b)))) a b).

  Lemma comparePrerelease_total_model : forall a b, fits1 a -> fits1 b ->
    comparePrerelease_total a b = Z_of_cmp (M.compare_prerelease a b).
  Proof.
    intros a b Fa Fb. unfold comparePrerelease_total.
    rewrite tie_loops_nuget_comparePrerelease by (assumption || lia). reflexivity.
  Qed.

  (* Version.Compare with the real comparePrerelease: the Hypothesis comparePrerelease_model of
     Tie/Nuget.v, discharged for versions whose pre-release text has an int length *)
  Local Opaque M.compare_prerelease.
  Corollary tie_nuget_compare_closed : forall a b : G.Version,
    fits1 (G.Version_prerelease a) -> fits1 (G.Version_prerelease b) ->
    G.Version_Compare comparePrerelease_total a b = Z_of_cmp (M.cmp_core (T.abs a) (T.abs b)).
  Proof.
    intros a b Fa Fb. pose proof (comparePrerelease_total_model _ _ Fa Fb) as H.
    set (cp := comparePrerelease_total) in *. clearbody cp.
    destruct a, b. cbn [G.Version_prerelease] in H. clear Fa Fb.
    tie_solve_with H.
  Qed.
End Nuget.
Print Assumptions tie_loops_nuget_comparePrerelease.
Print Assumptions loops_nuget_comparePrerelease_no_panic.
Print Assumptions comparePrerelease_total_model.
Print Assumptions tie_nuget_compare_closed.
