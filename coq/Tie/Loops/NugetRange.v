(* Tie/Loops/NugetRange.v — range level: constraint.matches / Contains of the generated code
   (Gen/Code/Nuget.v) applied to the REAL comparePrerelease (the total function of
   Tie/Loops/Nuget.v, with a numeric-identifier parser that agrees with the model's parse_num for
   the untranslated strconv.Atoi call) equal the model's comparators.  Discharges the Hypothesis
   comparePrerelease_model of Tie/NugetRange.v on ranges and versions whose pre-release text has an
   int length. *)
From Coq Require Import ZArith List Bool Lia.
From Verif.Base Require Import Bytes GoNum GoOps Ord Imp ImpFacts.
From Verif.Eco Require Import RangeCore.
From Verif.Eco.Nuget Require Version Range.
From Verif.Gen.Code Require Nuget.
From Verif.Tie Require Import Tactics.
From Verif.Tie Require Nuget NugetRange.
From Verif.Tie.Loops Require Import Common Idents.
From Verif.Tie.Loops Require Nuget.
Import ListNotations.
Local Open Scope Z_scope.

Module G := Verif.Gen.Code.Nuget.
Module M := Verif.Eco.Nuget.Version.
Module T := Verif.Tie.Nuget.
Module TR := Verif.Tie.NugetRange.
Module TL := Verif.Tie.Loops.Nuget.

Section NugetRange.
  (* the numeric-identifier parser (strconv.Atoi and its error flag) *)
  Variable parseNum : bytes -> Z * bool.
  Hypothesis parseNum_model : forall s, parseNum s = num_pair (M.parse_num s).

  Corollary tie_nuget_matches_closed : forall c v,
    fits1 (G.Version_prerelease v) -> fits1 (G.Version_prerelease (G.constraint_version c)) ->
    G.constraint_matches (TL.comparePrerelease_total parseNum) c v =
    sat (sem6 (G.constraint_operator c)) (M.cmp_core (T.abs v) (T.abs (G.constraint_version c))).
  Proof.
    intros c v Fv Fc. rewrite TR.tie_nuget_matches.
    rewrite (TL.tie_nuget_compare_closed parseNum parseNum_model) by assumption.
    rewrite cmp_of_Z_of_cmp. reflexivity.
  Qed.

  Corollary tie_nuget_contains_closed : forall r v,
    fits1 (G.Version_prerelease v) ->
    (forall c, In c (G.VersionRange_constraints r) -> fits1 (G.Version_prerelease (G.constraint_version c))) ->
    G.VersionRange_Contains (TL.comparePrerelease_total parseNum) r v =
    forallb (fun c => sat (sem6 (G.constraint_operator c)) (M.cmp_core (T.abs v) (T.abs (G.constraint_version c))))
            (G.VersionRange_constraints r).
  Proof.
    intros r v Fv Fr. unfold G.VersionRange_Contains. apply forallb_ext_in. intros c Hc.
    apply tie_nuget_matches_closed; auto.
  Qed.
End NugetRange.
Print Assumptions tie_nuget_matches_closed.
Print Assumptions tie_nuget_contains_closed.

(* closed: the numeric-identifier parser is the model's parse_num *)
Theorem tie_nuget_contains_closed_model_num : forall r v,
  fits1 (G.Version_prerelease v) ->
  (forall c, In c (G.VersionRange_constraints r) -> fits1 (G.Version_prerelease (G.constraint_version c))) ->
  G.VersionRange_Contains (TL.comparePrerelease_total (fun s => num_pair (M.parse_num s))) r v =
  forallb (fun c => sat (sem6 (G.constraint_operator c)) (M.cmp_core (T.abs v) (T.abs (G.constraint_version c))))
          (G.VersionRange_constraints r).
Proof. apply tie_nuget_contains_closed. reflexivity. Qed.
Print Assumptions tie_nuget_contains_closed_model_num.
