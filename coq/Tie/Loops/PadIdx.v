(* Tie/Loops/PadIdx.v — reusable facts for index loops over one or two lists whose model is a
   padded / positional comparison (copied from the pilots Semver.v / Cran.v so that new files do
   not depend on a pilot): lex_pad on the unread suffixes, and Go's "x := zero; if i < len(a)
   { x = a[i] }" as [nth] with a default. *)
From Coq Require Import ZArith List Bool Lia.
From Verif.Base Require Import Bytes GoNum Ord Imp ImpFacts.
From Verif.Tie.Loops Require Import Common.
Import ListNotations.
Local Open Scope Z_scope.

Lemma lex_pad_skipn_step {A} (pad : A) (cmp : A -> A -> comparison) (a b : list A) (n : nat) :
  cmp pad pad = Eq ->
  lex_pad pad cmp (skipn n a) (skipn n b) =
  thenc (cmp (nth n a pad) (nth n b pad)) (lex_pad pad cmp (skipn (S n) a) (skipn (S n) b)).
Proof.
  intros R.
  destruct (Nat.lt_ge_cases n (length a)) as [La|La], (Nat.lt_ge_cases n (length b)) as [Lb|Lb].
  - rewrite (skipn_nth_cons a n pad La), (skipn_nth_cons b n pad Lb). reflexivity.
  - rewrite (skipn_nth_cons a n pad La), (skipn_all2 b Lb), (skipn_all2 b) by lia.
    rewrite (nth_overflow b pad Lb). reflexivity.
  - rewrite (skipn_nth_cons b n pad Lb), (skipn_all2 a La), (skipn_all2 a) by lia.
    rewrite (nth_overflow a pad La). reflexivity.
  - rewrite (skipn_all2 a La), (skipn_all2 b Lb), (skipn_all2 a), (skipn_all2 b) by lia.
    rewrite (nth_overflow a pad La), (nth_overflow b pad Lb), R. reflexivity.
Qed.

Lemma lex_pad_exhausted {A} (pad : A) (cmp : A -> A -> comparison) (a b : list A) (n : nat) :
  (length a <= n)%nat -> (length b <= n)%nat -> lex_pad pad cmp (skipn n a) (skipn n b) = Eq.
Proof. intros La Lb. rewrite (skipn_all2 a La), (skipn_all2 b Lb). reflexivity. Qed.

(* a[i] with a default past the end: Go's  x := d; if i < len(a) { x = a[i] } *)
Lemma idx_or_default {A} (l : list A) (d : A) (i : Z) : 0 <= i ->
  (if Z.ltb i (Z.of_nat (length l)) then bind (idx l i) (fun p => Done p) else Done d)
  = Done (nth (Z.to_nat i) l d).
Proof.
  intros Hi. destruct (Z.ltb_spec i (Z.of_nat (length l))) as [Hlt|Hge].
  - rewrite (idx_in_range l i d) by (unfold len; lia). reflexivity.
  - rewrite nth_overflow by lia. reflexivity.
Qed.

(* Go's  m := len(a); if m < len(b) { m = len(b) }  /  if len(b) > m *)
Lemma max_len_Z (x y : nat) :
  (if Z.ltb (Z.of_nat x) (Z.of_nat y) then Z.of_nat y else Z.of_nat x) = Z.of_nat (Nat.max x y).
Proof. destruct (Z.ltb_spec (Z.of_nat x) (Z.of_nat y)); lia. Qed.
