(* Tie/Loops/Pypi.v — the generated translation of pypi's compareReleaseVersions (index loop over
   the two release lists, the shorter one padded with 0; Gen/Loops/Pypi.v) does not panic,
   terminates with fuel linear in the input lengths, and returns the sign of the model's
   comparison (lex_pad 0 Z.compare, the release part of Eco/Pypi/Version.v cmp_core).
   Discharges the Section variable [compareReleaseVersions] of Tie/Pypi.v. *)
From Coq Require Import ZArith List Bool Lia.
From Verif.Base Require Import Bytes GoNum GoOps Ord Imp ImpFacts.
From Verif.Eco.Pypi Require Version.
From Verif.Gen.Code Require Pypi.
From Verif.Gen.Loops Require Pypi.
From Verif.Tie Require Import Tactics.
From Verif.Tie Require Pypi.
From Verif.Tie.Loops Require Import Common PadIdx.
Import ListNotations.
Local Open Scope Z_scope.

Module G := Verif.Gen.Code.Pypi.
Module L := Verif.Gen.Loops.Pypi.
Module M := Verif.Eco.Pypi.Version.
Module T := Verif.Tie.Pypi.

(* no panic, linear fuel (max of the two lengths), and the model's answer *)
Theorem tie_loops_pypi_compareReleaseVersions : forall (a b : list Z) (fuel : nat),
  fits a -> fits b -> (Nat.max (length a) (length b) < fuel)%nat ->
  L.compareReleaseVersions fuel a b = Done (Z_of_cmp (lex_pad 0 Z.compare a b)).
Proof.
  intros a b fuel Fa Fb Hfuel. unfold L.compareReleaseVersions.
  cbv zeta.
  set (maxLen := if Z.ltb (Z.of_nat (length a)) (Z.of_nat (length b)) then _ else _).
  assert (EmaxLen : maxLen = Z.of_nat (Nat.max (length a) (length b))).
  { subst maxLen. apply max_len_Z. }
  clearbody maxLen.
  set (body := fun i : Z => _).
  pose (cmpAB := lex_pad 0 Z.compare).
  pose (Inv := fun i : Z => 0 <= i <= maxLen /\
     cmpAB a b = cmpAB (skipn (Z.to_nat i) a) (skipn (Z.to_nat i) b)).
  pose (Q := fun r : Z => r = Z_of_cmp (cmpAB a b)).
  pose (Qb := fun _ : Z => cmpAB a b = Eq).
  assert (R : exit_ok Qb Q (while fuel body 0)).
  { apply (while_rule_fuel body Inv (fun i => Z.to_nat (maxLen - i))).
    - intros i [Hi E]. unfold step_ok, body.
      destruct (Z.ltb_spec i maxLen) as [Hlt|Hge].
      + rewrite (idx_or_default a 0 i), (idx_or_default b 0 i) by lia. cbn [bind].
        set (x := nth (Z.to_nat i) a 0). set (y := nth (Z.to_nat i) b 0).
        assert (E' : cmpAB a b = thenc (Z.compare x y)
                       (cmpAB (skipn (S (Z.to_nat i)) a) (skipn (S (Z.to_nat i)) b))).
        { rewrite E. unfold cmpAB. apply lex_pad_skipn_step. reflexivity. }
        clear E. rename E' into E.
        destruct (Z.eqb_spec x y) as [Exy|Nxy]; cbn [negb].
        * rewrite (wrap64_succ i maxLen) by (unfold fits in *; lia).
          split; [|lia]. split; [lia|].
          rewrite E, Exy, Z.compare_refl, Z_to_nat_succ by lia. reflexivity.
        * unfold Q. rewrite T.tie_pypi_compareInt, E. f_equal.
          destruct (Z.compare_spec x y); [contradiction | reflexivity | reflexivity].
      + unfold Qb. rewrite E. apply lex_pad_exhausted; lia.
    - split; [lia | reflexivity].
    - lia. }
  destruct (while fuel body 0) as [[i|r]| |]; cbn [exit_ok] in R; try contradiction; cbn [bind].
  - unfold Qb, cmpAB in R. rewrite R. reflexivity.
  - unfold Q, cmpAB in R. rewrite R. reflexivity.
Qed.
Print Assumptions tie_loops_pypi_compareReleaseVersions.

(* C06 for compareReleaseVersions: no panic, termination within max (len a) (len b) + 1 iterations *)
Corollary loops_pypi_compareReleaseVersions_no_panic : forall a b, fits a -> fits b ->
  exists r, L.compareReleaseVersions (S (Nat.max (length a) (length b))) a b = Done r.
Proof. intros a b Fa Fb. eexists. apply tie_loops_pypi_compareReleaseVersions; [assumption | assumption | lia]. Qed.
Print Assumptions loops_pypi_compareReleaseVersions_no_panic.

(* the total function that Gen/Code's Version.Compare is generalised over *)
Definition compareReleaseVersions_total (a b : list Z) : Z :=
  total 0 (L.compareReleaseVersions (S (Nat.max (length a) (length b))) a b).

Lemma compareReleaseVersions_total_model : forall a b, fits a -> fits b ->
  compareReleaseVersions_total a b = Z_of_cmp (lex_pad 0 Z.compare a b).
Proof.
  intros a b Fa Fb. unfold compareReleaseVersions_total.
  rewrite tie_loops_pypi_compareReleaseVersions by (assumption || lia). reflexivity.
Qed.
Print Assumptions compareReleaseVersions_total_model.

(* Version.Compare with the real compareReleaseVersions: the Hypothesis
   compareReleaseVersions_model of Tie/Pypi.v, discharged for versions whose release lists have
   an int length *)
Local Opaque lex_pad.
Corollary tie_pypi_compare_closed : forall a b : G.Version,
  fits (G.Version_release a) -> fits (G.Version_release b) ->
  G.Version_Compare compareReleaseVersions_total a b = Z_of_cmp (M.cmp_core (T.abs a) (T.abs b)).
Proof.
  intros a b Fa Fb. pose proof (compareReleaseVersions_total_model _ _ Fa Fb) as H.
  set (cp := compareReleaseVersions_total) in *. clearbody cp.
  destruct a, b. cbn [G.Version_release] in H. clear Fa Fb.
  tie_solve_with H.
Qed.
Print Assumptions tie_pypi_compare_closed.
