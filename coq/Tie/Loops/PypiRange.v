(* Tie/Loops/PypiRange.v — range level: constraint.matches (translated in Gen/Parse/Pypi.v, where
   NewVersion's (T, error) result is an option) and Contains of the generated code, applied to the
   REAL compareReleaseVersions (the total function of Tie/Loops/Pypi.v), equal the model's
   matches / contains (Eco/Pypi/Range.v).  This discharges the Hypothesis constraint_matches_model
   of Tie/PypiRange.v: the Section variable constraint_matches of Gen/Code/Pypi.v is instantiated
   with the translated function.

   The model's range layer works on TEXTS with the oracles vok / vcmp for NewVersion / Compare.
   NewVersion is outside the translated fragments (a Section variable of Gen/Parse/Pypi.v), so the
   oracles are linked to it by hypotheses: vok t says that NewVersion accepts t; vcmp (txt v) t is
   the model's comparison of v with what NewVersion returns on t; String() of v is the trimmed
   text v was parsed from.  Domain: release lists of an int length. *)
From Coq Require Import ZArith List Bool Lia.
From Verif.Base Require Import Bytes GoNum GoOps Ord Imp ImpFacts.
From Verif.Eco Require Import RangeCore.
From Verif.Eco.Pypi Require Version Range.
From Verif.Gen.Code Require Pypi.
From Verif.Gen.Parse Require Pypi.
From Verif.Tie Require Import Tactics.
From Verif.Tie Require Pypi PypiRange.
From Verif.Tie.Loops Require Import Common.
From Verif.Tie.Loops Require Pypi.
Import ListNotations.
Local Open Scope Z_scope.

Module G := Verif.Gen.Code.Pypi.
Module P := Verif.Gen.Parse.Pypi.
Module M := Verif.Eco.Pypi.Version.
Module R := Verif.Eco.Pypi.Range.
Module T := Verif.Tie.Pypi.
Module TR := Verif.Tie.PypiRange.
Module TL := Verif.Tie.Loops.Pypi.

Section PypiRange.
  Variable newVersion : G.Ecosystem -> bytes -> option G.Version.   (* NewVersion *)
  Variable vok : bytes -> bool.
  Variable vcmp : bytes -> bytes -> comparison.
  Variable txt : G.Version -> bytes.
  Hypothesis vok_newVersion : forall t,
    vok t = match newVersion G.mk_Ecosystem t with Some _ => true | None => false end.
  Hypothesis vcmp_newVersion : forall v t w,
    newVersion G.mk_Ecosystem t = Some w -> vcmp (txt v) t = M.cmp_core (T.abs v) (T.abs w).
  Hypothesis txt_string : forall v, G.Version_String v = trim_space (txt v).

  (* the versions NewVersion returns on the two bound texts of a constraint fit *)
  Definition fits_constraint (c : G.constraint) : Prop :=
    (forall w, newVersion G.mk_Ecosystem (G.constraint_version c) = Some w -> fits (G.Version_release w)) /\
    (forall w, newVersion G.mk_Ecosystem (G.constraint_upper c) = Some w -> fits (G.Version_release w)).

  Local Opaque G.Version_Compare M.cmp_core G.Version_String.

  Theorem tie_pypi_matches_closed : forall c v,
    fits (G.Version_release v) -> fits_constraint c ->
    P.constraint_matches TL.compareReleaseVersions_total newVersion c v =
    R.matches vok vcmp (txt v) (TR.abs_c c).
  Proof.
    intros c v Fv [Fc Fu]. unfold P.constraint_matches, R.matches, TR.abs_c. cbv zeta.
    cbn [R.c_op R.c_ver R.c_upper].
    rewrite txt_string.
    destruct (beq (G.constraint_operator c) $"==="); [reflexivity|].
    rewrite vok_newVersion.
    destruct (newVersion G.mk_Ecosystem (G.constraint_version c)) as [w|] eqn:Ew; [|reflexivity].
    specialize (Fc w eq_refl).
    rewrite (TL.tie_pypi_compare_closed v w Fv Fc).
    rewrite (vcmp_newVersion v _ w Ew).
    destruct (beq (G.constraint_operator c) $"!=*").
    - rewrite vok_newVersion.
      destruct (newVersion G.mk_Ecosystem (G.constraint_upper c)) as [u|] eqn:Eu; [|reflexivity].
      specialize (Fu u eq_refl).
      rewrite (TL.tie_pypi_compare_closed v u Fv Fu).
      rewrite (vcmp_newVersion v _ u Eu).
      destruct (M.cmp_core (T.abs v) (T.abs w)), (M.cmp_core (T.abs v) (T.abs u)); reflexivity.
    - unfold R.sem. set (z := M.cmp_core _ _).
      repeat match goal with |- context [beq ?a ?b] => destruct (beq a b) end;
        destruct z; reflexivity.
  Qed.

  Theorem tie_pypi_contains_closed : forall r v,
    fits (G.Version_release v) ->
    (forall c, In c (G.VersionRange_constraints r) -> fits_constraint c) ->
    G.VersionRange_Contains (P.constraint_matches TL.compareReleaseVersions_total newVersion) r v =
    R.contains vok vcmp (TR.abs_r r) (txt v).
  Proof.
    intros r v Fv Fr. unfold G.VersionRange_Contains, R.contains, TR.abs_r. cbn [R.r_cs].
    induction (G.VersionRange_constraints r) as [|c l IH]; [reflexivity|].
    cbn [map forallb]. f_equal.
    - apply tie_pypi_matches_closed; [exact Fv | apply Fr; left; reflexivity].
    - apply IH. intros c' Hc. apply Fr. right. exact Hc.
  Qed.
End PypiRange.
Print Assumptions tie_pypi_matches_closed.
Print Assumptions tie_pypi_contains_closed.
