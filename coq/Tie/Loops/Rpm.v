(* Tie/Loops/Rpm.v — the generated translation of the functions of pkg/ecosystem/rpm/version.go
   that lie outside the loop-free fragment (Gen/Loops/Rpm.v: isSeparator, compareRPMDigits,
   compareRPMVersionString) against the model (Eco/Rpm/Version.v): no panic, termination within
   an explicit linear fuel, and the result.  Structure as in the debian pilot (Debian.v, Scan.v).

   REPRESENTATIONS.  isSeparator takes a rune (Z); the model's is_sep takes a byte: the bridge is
   byte_z (the only way the generated code calls it: isSeparator (byte_z c) for a byte c of the
   string).  The model cuts a string into a list of segments (M.segments, by fuel on the length)
   and compares the lists with lex_pad; the generated code moves two cursors: the bridge is the
   one-turn unfolding  str_cmp sa sb = thenc (seg_cmp (seg_head sa) (seg_head sb)) (str_cmp
   (seg_rest sa) (seg_rest sb))  on the unread suffixes  sa = skipn i a, sb = skipn j b
   ([str_cmp_step] below, from MF.segments_S).

   DOMAIN.  [fits s] (len s < 2^63) on both strings, as for debian: the cursor increment is
   wrap64 (i + 1).  FUEL.  compareRPMVersionString: any fuel above len a + len b (every turn of
   the outer loop consumes at least one byte of a or b; each inner scanner needs at most the
   length of one string; all loops run on the same fuel).

   The proofs depend on the top-level definitions of Gen/Loops/Rpm.v only, never on the names of
   their local variables. *)
From Coq Require Import ZArith List Bool Lia Ascii.
From Verif.Base Require Import Bytes GoNum GoOps Ord BytesFacts Imp ImpFacts.
From Verif.Eco.Rpm Require Version VersionFacts.
From Verif.Gen.Code Require Rpm.
From Verif.Gen.Loops Require Rpm.
From Verif.Tie Require Import Tactics.
From Verif.Tie Require Rpm.
From Verif.Tie.Loops Require Import Common Scan ScanMore.
Import ListNotations.
Local Open Scope Z_scope.

Module G := Verif.Gen.Code.Rpm.
Module L := Verif.Gen.Loops.Rpm.
Module M := Verif.Eco.Rpm.Version.
Module MF := Verif.Eco.Rpm.VersionFacts.
Module T := Verif.Tie.Rpm.

(* ---------- 1. isSeparator ---------- *)

(* pure: nothing to bound.  On the rune of a byte it is the model's is_sep. *)
Theorem tie_loops_rpm_isSeparator : forall c, L.isSeparator (byte_z c) = M.is_sep c.
Proof.
  intros c. destruct c as [[] [] [] [] [] [] [] []]; vm_compute; reflexivity.
Qed.
Print Assumptions tie_loops_rpm_isSeparator.

(* on an arbitrary rune: exactly the four code points . + - ^ *)
Theorem tie_loops_rpm_isSeparator_rune : forall r,
  L.isSeparator r = true <-> (r = 46 \/ r = 43 \/ r = 45 \/ r = 94).
Proof.
  intros r. unfold L.isSeparator. rewrite !orb_true_iff, !Z.eqb_eq. tauto.
Qed.
Print Assumptions tie_loops_rpm_isSeparator_rune.

(* ---------- 2. compareRPMDigits ---------- *)

Lemma beq_nil_r (a : bytes) : beq a [] = match a with [] => true | _ => false end.
Proof. destruct a; reflexivity. Qed.

(* pure: nothing to bound *)
Theorem tie_loops_rpm_compareRPMDigits : forall a b,
  L.compareRPMDigits a b = Z_of_cmp (M.digit_cmp a b).
Proof.
  intros a b. unfold L.compareRPMDigits, M.digit_cmp, cmp_on, M.digit_key. rewrite !beq_nil_r.
  destruct a as [|ca a]; destruct b as [|cb b]; cbn [andb opt_first]; try reflexivity.
  unfold digits_cmp, strip_zeros. change (chr 48) with "0"%char. cbv zeta.
  set (a' := drop_while _ (ca :: a)). set (b' := drop_while _ (cb :: b)).
  destruct (Nat.compare_spec (length a') (length b')) as [E|E|E]; cbn [thenc].
  - rewrite E. rewrite Z.ltb_irrefl. reflexivity.
  - destruct (Z.ltb_spec (Z.of_nat (length a')) (Z.of_nat (length b'))); [reflexivity | lia].
  - destruct (Z.ltb_spec (Z.of_nat (length a')) (Z.of_nat (length b'))); [lia|].
    destruct (Z.ltb_spec (Z.of_nat (length b')) (Z.of_nat (length a'))); [reflexivity | lia].
Qed.
Print Assumptions tie_loops_rpm_compareRPMDigits.

(* ---------- 3. compareRPMVersionString ---------- *)

(* its loop-free callee of Gen/Code *)
Lemma tie_rpm_compareRPMNonDigits : forall a b,
  G.compareRPMNonDigits a b = Z_of_cmp (M.nondigit_cmp a b).
Proof.
  intros a b. unfold G.compareRPMNonDigits, M.nondigit_cmp, lexc, cmp_on, M.has_tilde. cbv zeta.
  destruct (has_prefix _ a), (has_prefix _ b); reflexivity.
Qed.
Print Assumptions tie_rpm_compareRPMNonDigits.

(* the test of the non-digit scanner *)
Lemma nd_pointwise c : negb (is_digit c) && negb (L.isSeparator (byte_z c)) = M.is_nd c.
Proof. rewrite tie_loops_rpm_isSeparator. reflexivity. Qed.

(* model side: one turn of the loop on the unread suffixes (tokens vs cursors) *)
Lemma str_cmp_step sa sb : sa <> [] \/ sb <> [] ->
  M.str_cmp sa sb =
  thenc (M.seg_cmp (MF.seg_head sa) (MF.seg_head sb)) (M.str_cmp (MF.seg_rest sa) (MF.seg_rest sb)).
Proof.
  intros NE. unfold M.str_cmp, cmp_on.
  destruct sa as [|ca sa]; destruct sb as [|cb sb].
  - destruct NE as [N|N]; contradiction N; reflexivity.
  - rewrite (MF.segments_S (cb :: sb)) by discriminate.
    change (MF.seg_rest []) with (@nil ascii). change (MF.seg_head []) with M.seg_pad.
    rewrite MF.segments_nil. reflexivity.
  - rewrite (MF.segments_S (ca :: sa)) by discriminate.
    change (MF.seg_rest []) with (@nil ascii). change (MF.seg_head []) with M.seg_pad.
    rewrite MF.segments_nil. reflexivity.
  - rewrite (MF.segments_S (ca :: sa)), (MF.segments_S (cb :: sb)) by discriminate. reflexivity.
Qed.

Lemma seg_rest_shorter s : s <> [] -> (length (MF.seg_rest s) < length s)%nat.
Proof. destruct s as [|c s]; [congruence|]. intros _. pose proof (MF.seg_rest_lt c s). cbn [length]. lia. Qed.

Lemma seg_rest_le s : (length (MF.seg_rest s) <= length s)%nat.
Proof. destruct s as [|c s]; [cbn; lia|]. pose proof (MF.seg_rest_lt c s). cbn [length]. lia. Qed.

Section VersionString.
  Variables a b : bytes.
  Hypothesis Fa : fits a.
  Hypothesis Fb : fits b.
  Variable fuel : nat.
  Hypothesis Hfuel : (length a + length b < fuel)%nat.

  Let Inv (st : Z * Z) :=
    let (i, j) := st in
    0 <= i <= Z.of_nat (length a) /\ 0 <= j <= Z.of_nat (length b) /\
    M.str_cmp a b = M.str_cmp (skipn (Z.to_nat i) a) (skipn (Z.to_nat j) b).
  Let ms (st : Z * Z) : nat :=
    let (i, j) := st in (length (skipn (Z.to_nat i) a) + length (skipn (Z.to_nat j) b))%nat.
  Let Qb (_ : Z * Z) := Z_of_cmp (M.str_cmp a b) = 0.
  Let Qr (r : Z) := r = Z_of_cmp (M.str_cmp a b).

  Lemma str_loop : L.compareRPMVersionString fuel a b = Done (Z_of_cmp (M.str_cmp a b)).
  Proof.
    unfold L.compareRPMVersionString. cbv zeta.
    match goal with |- bind (while _ ?bd _) _ = _ => set (body := bd) end.
    assert (B : forall s, Inv s -> step_ok body Inv ms Qb Qr s).
    { intros [i j] (Hi & Hj & Hinv). unfold step_ok, body. cbv beta iota.
      destruct (orb _ _) eqn:Cnd.
      - (* separators *)
        match goal with |- context [while fuel ?bd i] =>
          rewrite (scan_while_ext_p (fun c => L.isSeparator (byte_z c)) M.is_sep a bd Fa
                     tie_loops_rpm_isSeparator (fun _ => eq_refl) fuel i) by lia end.
        cbv beta iota zeta delta [bind].
        match goal with |- context [while fuel ?bd j] =>
          rewrite (scan_while_ext_p (fun c => L.isSeparator (byte_z c)) M.is_sep b bd Fb
                     tie_loops_rpm_isSeparator (fun _ => eq_refl) fuel j) by lia end.
        cbv beta iota zeta delta [bind].
        set (sa := skipn (Z.to_nat i) a) in *. set (sb := skipn (Z.to_nat j) b) in *.
        pose proof (scan_bounds M.is_sep a i Hi) as Bi1.
        pose proof (scan_bounds M.is_sep b j Hj) as Bj1.
        assert (Ei1 : skipn (Z.to_nat (scan M.is_sep a i)) a = drop_while M.is_sep sa) by (apply scan_skipn; exact Hi).
        assert (Ej1 : skipn (Z.to_nat (scan M.is_sep b j)) b = drop_while M.is_sep sb) by (apply scan_skipn; exact Hj).
        set (i1 := scan M.is_sep a i) in *. set (j1 := scan M.is_sep b j) in *.
        (* non-digit segments *)
        match goal with |- context [while fuel ?bd i1] =>
          rewrite (scan_while_ext2 (fun c => negb (is_digit c)) (fun c => negb (L.isSeparator (byte_z c)))
                     M.is_nd a bd Fa nd_pointwise (fun _ => eq_refl) fuel i1) by lia end.
        cbv beta iota zeta delta [bind].
        rewrite (scan_slice M.is_nd a i1) by lia.
        cbv beta iota zeta delta [bind].
        match goal with |- context [while fuel ?bd j1] =>
          rewrite (scan_while_ext2 (fun c => negb (is_digit c)) (fun c => negb (L.isSeparator (byte_z c)))
                     M.is_nd b bd Fb nd_pointwise (fun _ => eq_refl) fuel j1) by lia end.
        cbv beta iota zeta delta [bind].
        rewrite (scan_slice M.is_nd b j1) by lia.
        cbv beta iota zeta delta [bind].
        assert (Bi2 : i1 <= scan M.is_nd a i1 <= Z.of_nat (length a)) by (apply scan_bounds; lia).
        assert (Bj2 : j1 <= scan M.is_nd b j1 <= Z.of_nat (length b)) by (apply scan_bounds; lia).
        assert (Ei2 : skipn (Z.to_nat (scan M.is_nd a i1)) a = drop_while M.is_nd (drop_while M.is_sep sa))
          by (rewrite scan_skipn by lia; rewrite Ei1; reflexivity).
        assert (Ej2 : skipn (Z.to_nat (scan M.is_nd b j1)) b = drop_while M.is_nd (drop_while M.is_sep sb))
          by (rewrite scan_skipn by lia; rewrite Ej1; reflexivity).
        set (i2 := scan M.is_nd a i1) in *. set (j2 := scan M.is_nd b j1) in *.
        assert (NE : sa <> [] \/ sb <> []).
        { apply orb_true_iff in Cnd. destruct Cnd as [C|C]; apply Z.ltb_lt in C; [left|right]; intros E;
          apply (f_equal (@length ascii)) in E; unfold sa, sb in E; rewrite skipn_length in E; cbn [length] in E; lia. }
        pose proof (str_cmp_step sa sb NE) as Step. rewrite <- Hinv in Step.
        unfold M.seg_cmp, lex2, MF.seg_head in Step. cbn [fst snd] in Step.
        rewrite Ei1, Ej1, tie_rpm_compareRPMNonDigits.
        destruct (M.nondigit_cmp _ _) eqn:ND; cbn [thenc] in Step;
          cbv beta iota zeta delta [bind Z_of_cmp z_sign negb Z.eqb];
          [| unfold Qr; rewrite Step; reflexivity | unfold Qr; rewrite Step; reflexivity].
        (* digit segments *)
        match goal with |- context [while fuel ?bd i2] =>
          rewrite (scan_while_ext is_digit a bd Fa (fun _ => eq_refl) fuel i2) by lia end.
        cbv beta iota zeta delta [bind].
        rewrite (scan_slice is_digit a i2) by lia.
        cbv beta iota zeta delta [bind].
        match goal with |- context [while fuel ?bd j2] =>
          rewrite (scan_while_ext is_digit b bd Fb (fun _ => eq_refl) fuel j2) by lia end.
        cbv beta iota zeta delta [bind].
        rewrite (scan_slice is_digit b j2) by lia.
        cbv beta iota zeta delta [bind].
        rewrite Ei2, Ej2, tie_loops_rpm_compareRPMDigits.
        assert (Bi3 : i2 <= scan is_digit a i2 <= Z.of_nat (length a)) by (apply scan_bounds; lia).
        assert (Bj3 : j2 <= scan is_digit b j2 <= Z.of_nat (length b)) by (apply scan_bounds; lia).
        assert (Ei3 : skipn (Z.to_nat (scan is_digit a i2)) a = MF.seg_rest sa)
          by (rewrite scan_skipn by lia; rewrite Ei2; reflexivity).
        assert (Ej3 : skipn (Z.to_nat (scan is_digit b j2)) b = MF.seg_rest sb)
          by (rewrite scan_skipn by lia; rewrite Ej2; reflexivity).
        destruct (M.digit_cmp _ _) eqn:DG; cbn [thenc] in Step;
          cbv beta iota zeta delta [bind Z_of_cmp z_sign negb Z.eqb];
          [| unfold Qr; rewrite Step; reflexivity | unfold Qr; rewrite Step; reflexivity].
        unfold Inv, ms. rewrite Ei3, Ej3. fold sa sb.
        split; [split; [lia | split; [lia | exact Step]] |].
        pose proof (seg_rest_le sa). pose proof (seg_rest_le sb).
        destruct NE as [N|N]; apply seg_rest_shorter in N; lia.
      - unfold Qb. apply orb_false_iff in Cnd. destruct Cnd as [C1 C2].
        apply Z.ltb_ge in C1, C2. rewrite Hinv. rewrite !skipn_all2 by lia. reflexivity. }
    pose proof (while_rule_fuel body Inv ms Qb Qr B fuel (0, 0)) as R.
    assert (I0 : Inv (0, 0)).
    { unfold Inv. split; [lia | split; [lia | reflexivity]]. }
    specialize (R I0). unfold ms in R. cbn [Z.to_nat skipn] in R. specialize (R Hfuel).
    destruct (while fuel body (0, 0)) as [[[i j]|r]| |]; cbn [exit_ok] in R; try contradiction; cbn [bind].
    - unfold Qb in R. congruence.
    - unfold Qr in R. congruence.
  Qed.
End VersionString.

(* no panic, fuel above len a + len b, and the model's answer *)
Theorem tie_loops_rpm_compareRPMVersionString : forall a b fuel,
  fits a -> fits b -> (length a + length b < fuel)%nat ->
  L.compareRPMVersionString fuel a b = Done (Z_of_cmp (M.str_cmp a b)).
Proof. intros a b fuel Fa Fb H. apply str_loop; assumption. Qed.
Print Assumptions tie_loops_rpm_compareRPMVersionString.

(* ---------- corollaries ---------- *)

(* the bound, an explicit linear function of the input lengths *)
Definition compareRPMVersionString_bound (a b : bytes) : nat := (length a + length b)%nat.

Corollary loops_rpm_compareRPMVersionString_no_panic : forall a b, fits a -> fits b ->
  exists r, L.compareRPMVersionString (S (compareRPMVersionString_bound a b)) a b = Done r.
Proof.
  intros a b Fa Fb. eexists. apply tie_loops_rpm_compareRPMVersionString; [exact Fa | exact Fb |].
  unfold compareRPMVersionString_bound. lia.
Qed.
Print Assumptions loops_rpm_compareRPMVersionString_no_panic.

(* the total function the loop-free code (Gen/Code/Rpm.v) takes as its parameter *)
Definition compareRPMVersionString_total (a b : bytes) : Z :=
  total 0 (L.compareRPMVersionString (S (compareRPMVersionString_bound a b)) a b).

Lemma compareRPMVersionString_total_model : forall p q, fits p -> fits q ->
  compareRPMVersionString_total p q = Z_of_cmp (M.str_cmp p q).
Proof.
  intros p q Fp Fq. unfold compareRPMVersionString_total, compareRPMVersionString_bound.
  rewrite tie_loops_rpm_compareRPMVersionString; [reflexivity | exact Fp | exact Fq | lia].
Qed.
Print Assumptions compareRPMVersionString_total_model.

(* ---------- closing the Section hypothesis of Tie/Rpm.v ---------- *)

Definition fits_version (v : G.Version) : Prop :=
  fits (G.Version_version v) /\ fits (G.Version_release v).

(* Version_Compare only asks its parameter about the version parts and the release parts *)
Lemma Version_Compare_agree (f g : bytes -> bytes -> Z) a b :
  (forall p q, fits p -> fits q -> f p q = g p q) ->
  fits_version a -> fits_version b ->
  G.Version_Compare f a b = G.Version_Compare g a b.
Proof.
  intros H [Va Ra] [Vb Rb]. unfold G.Version_Compare. cbv zeta.
  rewrite !H by assumption. reflexivity.
Qed.

Corollary tie_rpm_compare_closed : forall a b, fits_version a -> fits_version b ->
  G.Version_Compare compareRPMVersionString_total a b =
  Z_of_cmp (M.cmp_core (T.abs a) (T.abs b)).
Proof.
  intros a b Ha Hb.
  rewrite (Version_Compare_agree _ (fun p q => Z_of_cmp (M.str_cmp p q)) a b
             compareRPMVersionString_total_model Ha Hb).
  apply T.tie_rpm_compare. intros p q. reflexivity.
Qed.
Print Assumptions tie_rpm_compare_closed.
