(* Tie/Loops/RpmRange.v — range level: Contains of the generated code (Gen/Code/Rpm.v) applied to
   the REAL compareRPMVersionString (the total function of Tie/Loops/Rpm.v) equals the model's
   conjunction of comparators: the Hypothesis compareRPMVersionString_model of Tie/RpmRange.v,
   discharged on ranges and versions whose version / release strings have an int length. *)
From Coq Require Import ZArith List Bool Lia.
From Verif.Base Require Import Bytes GoNum GoOps Ord Imp ImpFacts.
From Verif.Eco Require Import RangeCore.
From Verif.Eco.Rpm Require Version Range.
From Verif.Gen.Code Require Rpm.
From Verif.Tie Require Import Tactics.
From Verif.Tie Require Rpm RpmRange.
From Verif.Tie.Loops Require Import Common.
From Verif.Tie.Loops Require Rpm.
Import ListNotations.
Local Open Scope Z_scope.

Module G := Verif.Gen.Code.Rpm.
Module M := Verif.Eco.Rpm.Version.
Module T := Verif.Tie.Rpm.
Module TR := Verif.Tie.RpmRange.
Module TL := Verif.Tie.Loops.Rpm.

(* the operator switch only asks its parameter through Version_Compare *)
Lemma satisfiesRPMConstraint_agree (f g : bytes -> bytes -> Z) v c :
  (forall p q, fits p -> fits q -> f p q = g p q) ->
  TL.fits_version v -> TL.fits_version (G.constraint_version c) ->
  G.satisfiesRPMConstraint f v c = G.satisfiesRPMConstraint g v c.
Proof.
  intros H Fv Fc. unfold G.satisfiesRPMConstraint.
  rewrite (TL.Version_Compare_agree f g v (G.constraint_version c) H Fv Fc). reflexivity.
Qed.

Corollary tie_rpm_satisfiesRPMConstraint_closed : forall c v,
  TL.fits_version v -> TL.fits_version (G.constraint_version c) ->
  G.satisfiesRPMConstraint TL.compareRPMVersionString_total v c =
  sat (rc_sem Range.cfg (G.constraint_operator c)) (M.cmp_core (T.abs v) (T.abs (G.constraint_version c))).
Proof.
  intros c v Fv Fc.
  rewrite (satisfiesRPMConstraint_agree _ (fun p q => Z_of_cmp (M.str_cmp p q)) v c
             TL.compareRPMVersionString_total_model Fv Fc).
  apply TR.tie_rpm_satisfiesRPMConstraint_model. intros p q. reflexivity.
Qed.
Print Assumptions tie_rpm_satisfiesRPMConstraint_closed.

Corollary tie_rpm_contains_closed : forall r v,
  TL.fits_version v ->
  (forall c, In c (G.VersionRange_constraints r) -> TL.fits_version (G.constraint_version c)) ->
  G.VersionRange_Contains TL.compareRPMVersionString_total r v =
  forallb (fun c => sat (rc_sem Range.cfg (G.constraint_operator c)) (M.cmp_core (T.abs v) (T.abs (G.constraint_version c))))
          (G.VersionRange_constraints r).
Proof.
  intros r v Fv Fr. unfold G.VersionRange_Contains. apply forallb_ext_in. intros c Hc.
  apply tie_rpm_satisfiesRPMConstraint_closed; [exact Fv | apply Fr; exact Hc].
Qed.
Print Assumptions tie_rpm_contains_closed.
