(* Tie/Loops/Scan.v — cursors over strings and the scanner loop "advance while the byte under the
   cursor passes a test" (for i < len(s) && p(s[i]) { i++ }), as tools/gen/loops.go generates it:
   the loop leaves the cursor at  scan p s i = i + len (take_while p (skipn i s)), the bytes
   passed are  slice s i (scan p s i) = take_while p (skipn i s), the unread rest is drop_while.
   Used for the nested scanners of debian; reusable for rpm / alpm. *)
From Coq Require Import ZArith List Bool Lia Ascii.
From Verif.Base Require Import Bytes GoNum Imp ImpFacts.
From Verif.Tie.Loops Require Import Common.
Import ListNotations.
Local Open Scope Z_scope.

Lemma take_drop_app (p : ascii -> bool) (s : bytes) : take_while p s ++ drop_while p s = s.
Proof.
  induction s as [|c s IH]; cbn [take_while drop_while]; [reflexivity|].
  destruct (p c); cbn [app]; [rewrite IH|]; reflexivity.
Qed.

(* ---------- cursors and suffixes ---------- *)

Lemma skipn_at_cursor (s : bytes) i :
  0 <= i < Z.of_nat (length s) ->
  exists c r, skipn (Z.to_nat i) s = c :: r /\ skipn (Z.to_nat (i + 1)) s = r /\ idx s i = Done c.
Proof.
  intros H. exists (nth (Z.to_nat i) s "000"%char), (skipn (S (Z.to_nat i)) s).
  assert (E : skipn (Z.to_nat i) s = nth (Z.to_nat i) s "000"%char :: skipn (S (Z.to_nat i)) s)
    by (apply skipn_nth_cons; lia).
  split; [exact E|]. split.
  - rewrite Z_to_nat_succ by lia. reflexivity.
  - eapply idx_skipn; [lia | exact E].
Qed.

Lemma skipn_past_cursor (s : bytes) i :
  Z.of_nat (length s) <= i -> skipn (Z.to_nat i) s = [] /\ skipn (Z.to_nat (i + 1)) s = [].
Proof. intros H. split; apply skipn_all2; lia. Qed.

(* ---------- a scanner: advance the cursor while the byte under it passes a test ---------- *)

Definition scan (p : ascii -> bool) (s : bytes) (i : Z) : Z :=
  i + Z.of_nat (length (take_while p (skipn (Z.to_nat i) s))).

Definition scan_body (p : ascii -> bool) (s : bytes) : Z -> res (step Z Z) :=
  fun i =>
    bind (if Z.ltb i (Z.of_nat (length s)) then bind (idx s i) (fun c => Done (p c)) else Done false)
         (fun t => if t then Done (Next (wrap64 (i + 1))) else Done (Break i)).

Lemma scan_while p s : fits s -> forall fuel i,
  0 <= i <= Z.of_nat (length s) -> (length (skipn (Z.to_nat i) s) < fuel)%nat ->
  while fuel (scan_body p s) i = Done (Fell (scan p s i)).
Proof.
  intros F. induction fuel as [|fuel IH]; intros i Hi Hf; [lia|].
  rewrite while_S. unfold scan_body at 1. unfold scan.
  destruct (Z.ltb_spec i (Z.of_nat (length s))) as [H|H].
  - destruct (skipn_at_cursor s i) as (c & r & E & E' & I); [lia|].
    rewrite I, E. cbn [bind take_while]. destruct (p c) eqn:P.
    + rewrite (wrap64_succ i (Z.of_nat (length s))) by (unfold fits in F; lia).
      rewrite IH; [| lia | rewrite E'; rewrite E in Hf; cbn [length] in Hf; lia].
      unfold scan. rewrite E'. cbn [length]. do 2 f_equal. lia.
    + cbn [length]. do 2 f_equal. lia.
  - destruct (skipn_past_cursor s i H) as [E _]. rewrite E. cbn [bind take_while length].
    do 2 f_equal. lia.
Qed.

(* for a generated body, whatever its bound names are *)
Lemma scan_while_ext p s body : fits s -> (forall i, body i = scan_body p s i) -> forall fuel i,
  0 <= i <= Z.of_nat (length s) -> (length s < fuel)%nat ->
  while fuel body i = Done (Fell (scan p s i)).
Proof.
  intros F E fuel i Hi Hf. rewrite (while_ext body (scan_body p s) E).
  apply scan_while; [exact F | exact Hi |]. rewrite skipn_length. lia.
Qed.

Lemma scan_bounds p s i : 0 <= i <= Z.of_nat (length s) -> i <= scan p s i <= Z.of_nat (length s).
Proof.
  intros H. unfold scan.
  pose proof (f_equal (@length ascii) (take_drop_app p (skipn (Z.to_nat i) s))) as E.
  rewrite app_length, skipn_length in E. lia.
Qed.

Lemma skipn_add {A} (s : list A) n m : skipn (m + n) s = skipn m (skipn n s).
Proof.
  revert s. induction n as [|n IH]; intros s.
  - rewrite Nat.add_0_r. reflexivity.
  - rewrite Nat.add_succ_r. destruct s as [|x s]; [rewrite !skipn_nil; reflexivity|].
    cbn [skipn]. apply IH.
Qed.

Lemma scan_skipn p s i : 0 <= i <= Z.of_nat (length s) ->
  skipn (Z.to_nat (scan p s i)) s = drop_while p (skipn (Z.to_nat i) s).
Proof.
  intros H. unfold scan.
  replace (Z.to_nat (i + _)) with (length (take_while p (skipn (Z.to_nat i) s)) + Z.to_nat i)%nat by lia.
  rewrite skipn_add.
  rewrite <- (take_drop_app p (skipn (Z.to_nat i) s)) at 2.
  rewrite skipn_app, skipn_all, Nat.sub_diag. reflexivity.
Qed.

Lemma scan_slice p s i : 0 <= i <= Z.of_nat (length s) ->
  slice s i (scan p s i) = Done (take_while p (skipn (Z.to_nat i) s)).
Proof.
  intros H. pose proof (scan_bounds p s i H) as B.
  rewrite slice_in_range by (unfold len; lia). f_equal. unfold scan.
  replace (Z.to_nat (i + _ - i)) with (length (take_while p (skipn (Z.to_nat i) s))) by lia.
  rewrite <- (take_drop_app p (skipn (Z.to_nat i) s)) at 2.
  rewrite firstn_app, firstn_all, Nat.sub_diag. cbn [firstn]. apply app_nil_r.
Qed.

Lemma take_while_skipn_len p (s : bytes) n : (length (take_while p (skipn n s)) <= length s)%nat.
Proof.
  pose proof (f_equal (@length ascii) (take_drop_app p (skipn n s))) as E.
  rewrite app_length, skipn_length in E. lia.
Qed.

Lemma fits_le {A B} (s : list A) (t : list B) : (length t <= length s)%nat -> fits s -> fits t.
Proof. unfold fits. lia. Qed.
