(* Tie/Loops/ScanMore.v — additions to Scan.v (which is not edited) for the scanners of rpm:
   - the test of a scanner may be replaced by a pointwise equal one (the generated code tests
     isSeparator (byte_z c), the model is_sep c);
   - the scanner with a two-part guard  for i < len(s) && p(s[i]) && q(s[i]) { i++ } : the
     generated body indexes s twice (the second time under the first test), so it is equal, not
     convertible, to the one-test scanner of Scan.v with the test  p c && q c. *)
From Coq Require Import ZArith List Bool Lia Ascii.
From Verif.Base Require Import Bytes GoNum Imp ImpFacts.
From Verif.Tie.Loops Require Import Common Scan.
Import ListNotations.
Local Open Scope Z_scope.

Lemma take_while_ext (p q : ascii -> bool) (s : bytes) :
  (forall c, p c = q c) -> take_while p s = take_while q s.
Proof.
  intros E. induction s as [|c s IH]; cbn [take_while]; [reflexivity|].
  rewrite E, IH. reflexivity.
Qed.

Lemma drop_while_ext (p q : ascii -> bool) (s : bytes) :
  (forall c, p c = q c) -> drop_while p s = drop_while q s.
Proof.
  intros E. induction s as [|c s IH]; cbn [drop_while]; [reflexivity|].
  rewrite E, IH. reflexivity.
Qed.

Lemma scan_ext (p q : ascii -> bool) (s : bytes) i :
  (forall c, p c = q c) -> scan p s i = scan q s i.
Proof. intros E. unfold scan. rewrite (take_while_ext p q _ E). reflexivity. Qed.

(* a generated one-test scanner whose test is pointwise the model's test q *)
Lemma scan_while_ext_p p q s body :
  fits s -> (forall c, p c = q c) -> (forall i, body i = scan_body p s i) -> forall fuel i,
  0 <= i <= Z.of_nat (length s) -> (length s < fuel)%nat ->
  while fuel body i = Done (Fell (scan q s i)).
Proof.
  intros F E B fuel i Hi Hf. rewrite (scan_while_ext p s body F B fuel i Hi Hf).
  rewrite (scan_ext p q s i E). reflexivity.
Qed.

(* the two-test scanner as tools/gen/loops.go generates it *)
Definition scan2_body (p q : ascii -> bool) (s : bytes) : Z -> res (step Z Z) :=
  fun i =>
    bind (if Z.ltb i (Z.of_nat (length s)) then bind (idx s i) (fun c => Done (p c)) else Done false)
      (fun t1 =>
        bind (if t1 then bind (idx s i) (fun c => Done (q c)) else Done false)
          (fun t2 => if t2 then Done (Next (wrap64 (i + 1))) else Done (Break i))).

Lemma scan2_body_eq p q s i : scan2_body p q s i = scan_body (fun c => p c && q c) s i.
Proof.
  unfold scan2_body, scan_body.
  destruct (Z.ltb i (Z.of_nat (length s))); [|reflexivity].
  destruct (idx s i) as [c| |]; cbn [bind]; try reflexivity.
  destruct (p c); cbn [bind andb]; reflexivity.
Qed.

Lemma scan_while_ext2 p q r s body :
  fits s -> (forall c, p c && q c = r c) -> (forall i, body i = scan2_body p q s i) -> forall fuel i,
  0 <= i <= Z.of_nat (length s) -> (length s < fuel)%nat ->
  while fuel body i = Done (Fell (scan r s i)).
Proof.
  intros F E B fuel i Hi Hf.
  apply (scan_while_ext_p (fun c => p c && q c) r s body F E); [|exact Hi|exact Hf].
  intros k. rewrite B. apply scan2_body_eq.
Qed.
