(* Tie/Loops/Semver.v — the generated translation of semver's comparePrerelease (identifier loop
   over the dot-separated parts, Gen/Loops/Semver.v) does not panic, terminates with fuel linear
   in the input lengths, and returns the sign of the model's comparison
   (Eco/Semver/Version.v, compare_prerelease).  Discharges the Section variable
   [comparePrerelease] of Tie/Semver.v.

   The regular expression numericPattern (^[0-9]+$) is outside the translated fragment: the
   generated function takes its MatchString as an argument, and the theorems assume that this
   argument is the model's is_numeric (non-empty, digits only). *)
From Coq Require Import ZArith List Bool Lia Ascii.
From Verif.Base Require Import Bytes GoNum GoOps Ord BytesFacts Imp ImpFacts.
From Verif.Eco.Semver Require Version.
From Verif.Gen.Code Require Semver.
From Verif.Gen.Loops Require Semver.
From Verif.Tie Require Import Tactics.
From Verif.Tie Require Semver.
From Verif.Tie.Loops Require Import Common.
Import ListNotations.
Local Open Scope Z_scope.

Module G := Verif.Gen.Code.Semver.
Module L := Verif.Gen.Loops.Semver.
Module M := Verif.Eco.Semver.Version.
Module T := Verif.Tie.Semver.

(* ---------- the model, one identifier at a time ---------- *)

Lemma part_cmp_nil_nil : M.part_cmp [] [] = Eq.
Proof. reflexivity. Qed.

Lemma part_cmp_nil_cons c y : M.part_cmp [] (c :: y) = Lt.
Proof. unfold M.part_cmp, cmp_on, M.part_key. destruct (M.is_numeric (c :: y)); reflexivity. Qed.

Lemma part_cmp_cons_nil c x : M.part_cmp (c :: x) [] = Gt.
Proof. unfold M.part_cmp, cmp_on, M.part_key. destruct (M.is_numeric (c :: x)); reflexivity. Qed.

Lemma part_cmp_num_num x y : x <> [] -> y <> [] -> M.is_numeric x = true -> M.is_numeric y = true ->
  M.part_cmp x y = Z.compare (atoi_sat x) (atoi_sat y).
Proof.
  intros Hx Hy Nx Ny. unfold M.part_cmp, cmp_on, M.part_key.
  destruct x; [congruence|]. destruct y; [congruence|]. rewrite Nx, Ny.
  unfold lex2, thenc. cbn [fst snd N.compare]. destruct (Z.compare _ _); reflexivity.
Qed.

Lemma part_cmp_num_str x y : x <> [] -> y <> [] -> M.is_numeric x = true -> M.is_numeric y = false ->
  M.part_cmp x y = Lt.
Proof.
  intros Hx Hy Nx Ny. unfold M.part_cmp, cmp_on, M.part_key.
  destruct x; [congruence|]. destruct y; [congruence|]. rewrite Nx, Ny. reflexivity.
Qed.

Lemma part_cmp_str_num x y : x <> [] -> y <> [] -> M.is_numeric x = false -> M.is_numeric y = true ->
  M.part_cmp x y = Gt.
Proof.
  intros Hx Hy Nx Ny. unfold M.part_cmp, cmp_on, M.part_key.
  destruct x; [congruence|]. destruct y; [congruence|]. rewrite Nx, Ny. reflexivity.
Qed.

Lemma part_cmp_str_str x y : x <> [] -> y <> [] -> M.is_numeric x = false -> M.is_numeric y = false ->
  M.part_cmp x y = bytes_cmp x y.
Proof.
  intros Hx Hy Nx Ny. unfold M.part_cmp, cmp_on, M.part_key.
  destruct x; [congruence|]. destruct y; [congruence|]. rewrite Nx, Ny. reflexivity.
Qed.

(* ---------- the padded comparison on the unread suffixes ---------- *)

Lemma lex_pad_nil_l {A} (pad : A) cmp l : lex_pad pad cmp [] l = lex_pad_l pad cmp l.
Proof. reflexivity. Qed.

Lemma lex_pad_skipn_step {A} (pad : A) (cmp : A -> A -> comparison) (a b : list A) (n : nat) :
  cmp pad pad = Eq ->
  lex_pad pad cmp (skipn n a) (skipn n b) =
  thenc (cmp (nth n a pad) (nth n b pad)) (lex_pad pad cmp (skipn (S n) a) (skipn (S n) b)).
Proof.
  intros R.
  destruct (Nat.lt_ge_cases n (length a)) as [La|La], (Nat.lt_ge_cases n (length b)) as [Lb|Lb].
  - rewrite (skipn_nth_cons a n pad La), (skipn_nth_cons b n pad Lb). reflexivity.
  - rewrite (skipn_nth_cons a n pad La), (skipn_all2 b Lb), (skipn_all2 b) by lia.
    rewrite (nth_overflow b pad Lb). reflexivity.
  - rewrite (skipn_nth_cons b n pad Lb), (skipn_all2 a La), (skipn_all2 a) by lia.
    rewrite (nth_overflow a pad La). reflexivity.
  - rewrite (skipn_all2 a La), (skipn_all2 b Lb), (skipn_all2 a), (skipn_all2 b) by lia.
    rewrite (nth_overflow a pad La), (nth_overflow b pad Lb), R. reflexivity.
Qed.

Lemma lex_pad_exhausted {A} (pad : A) (cmp : A -> A -> comparison) (a b : list A) (n : nat) :
  (length a <= n)%nat -> (length b <= n)%nat -> lex_pad pad cmp (skipn n a) (skipn n b) = Eq.
Proof. intros La Lb. rewrite (skipn_all2 a La), (skipn_all2 b Lb). reflexivity. Qed.

Lemma split_c_length c s : (1 <= length (split_c c s) <= S (length s))%nat.
Proof.
  induction s as [|x s IH]; cbn [split_c length]; [lia|].
  destruct (ceqb c x); cbn [length]; [lia|].
  destruct (split_c c s) as [|f fs]; cbn [length] in *; lia.
Qed.

(* a[i] with Go's zero value past the end *)
Lemma idx_or_default (l : list bytes) (i : Z) : 0 <= i ->
  (if Z.ltb i (Z.of_nat (length l)) then bind (idx l i) (fun p => Done p) else Done ([] : bytes))
  = Done (nth (Z.to_nat i) l []).
Proof.
  intros Hi. destruct (Z.ltb_spec i (Z.of_nat (length l))) as [Hlt|Hge].
  - rewrite (idx_in_range l i []) by (unfold len; lia). reflexivity.
  - rewrite nth_overflow by lia. reflexivity.
Qed.

Definition fits1 (s : bytes) : Prop := Z.of_nat (length s) + 1 < 2 ^ 63.

Section Semver.
  (* numericPattern.MatchString *)
  Variable numeric : bytes -> bool.
  Hypothesis numeric_model : forall s, numeric s = M.is_numeric s.

  Theorem tie_loops_semver_comparePrerelease : forall (a b : bytes) (fuel : nat),
    fits1 a -> fits1 b -> (S (Nat.max (length a) (length b)) < fuel)%nat ->
    L.comparePrerelease numeric fuel a b = Done (Z_of_cmp (M.compare_prerelease a b)).
  Proof.
    intros a b fuel Fa Fb Hfuel.
    unfold L.comparePrerelease, M.compare_prerelease, cmp_on, M.pre_key.
    destruct a as [|ca a']; destruct b as [|cb b']; cbn [beq andb opt_last]; try reflexivity.
    set (a := ca :: a') in *. set (b := cb :: b') in *.
    change (chr 46) with "."%char.
    set (A := split_c "."%char a). set (B := split_c "."%char b).
    cbv zeta.
    set (maxLen := if Z.ltb (Z.of_nat (length A)) (Z.of_nat (length B)) then _ else _).
    assert (EmaxLen : maxLen = Z.of_nat (Nat.max (length A) (length B))).
    { subst maxLen. destruct (Z.ltb_spec (Z.of_nat (length A)) (Z.of_nat (length B))); lia. }
    clearbody maxLen.
    pose proof (split_c_length "."%char a) as LA. pose proof (split_c_length "."%char b) as LB.
    fold A in LA. fold B in LB.
    set (body := fun i : Z => _).
    pose (cmpAB := lex_pad [] M.part_cmp).
    pose (Inv := fun i : Z => 0 <= i <= maxLen /\
       cmpAB A B = cmpAB (skipn (Z.to_nat i) A) (skipn (Z.to_nat i) B)).
    pose (Q := fun r : Z => r = Z_of_cmp (cmpAB A B)).
    pose (Qb := fun _ : Z => cmpAB A B = Eq).
    assert (R : exit_ok Qb Q (while fuel body 0)).
    { apply (while_rule_fuel body Inv (fun i => Z.to_nat (maxLen - i))).
      - intros i [Hi E]. unfold step_ok, body.
        destruct (Z.ltb_spec i maxLen) as [Hlt|Hge].
        + cbv zeta.
          rewrite (idx_or_default A i), (idx_or_default B i) by lia. cbn [bind].
          set (x := nth (Z.to_nat i) A []). set (y := nth (Z.to_nat i) B []).
          assert (E' : cmpAB A B = thenc (M.part_cmp x y)
                         (cmpAB (skipn (S (Z.to_nat i)) A) (skipn (S (Z.to_nat i)) B))).
          { rewrite E. unfold cmpAB. apply lex_pad_skipn_step. reflexivity. }
          clear E. rename E' into E.
          rewrite (wrap64_succ i maxLen) by (unfold fits1 in *; simpl length in *; lia).
          assert (Step : forall c, M.part_cmp x y = c -> c <> Eq -> Q (Z_of_cmp c)).
          { intros c Ec Ne. unfold Q. rewrite E, Ec. destruct c; [congruence| |]; reflexivity. }
          assert (Go : M.part_cmp x y = Eq -> Inv (i + 1) /\ (Z.to_nat (maxLen - (i + 1)) < Z.to_nat (maxLen - i))%nat).
          { intros Ec. split; [|lia]. split; [lia|]. rewrite E, Ec, Z_to_nat_succ by lia. reflexivity. }
          rewrite !numeric_model.
          destruct x as [|c1 x']; destruct y as [|c2 y']; cbn [beq andb negb].
          * (* both exhausted or empty: equal parts *)
            destruct (M.is_numeric []) eqn:N0; [discriminate N0|]. cbn [andb].
            apply Go. reflexivity.
          * apply (Step Lt); [apply part_cmp_nil_cons | discriminate].
          * apply (Step Gt); [apply part_cmp_cons_nil | discriminate].
          * change (ceqb c1 c2 && beq x' y')%bool with (beq (c1 :: x') (c2 :: y')).
            set (x := c1 :: x') in *. set (y := c2 :: y') in *.
            assert (Hx : x <> []) by discriminate. assert (Hy : y <> []) by discriminate.
            destruct (M.is_numeric x) eqn:Nx, (M.is_numeric y) eqn:Ny; cbn [andb].
            -- pose proof (part_cmp_num_num x y Hx Hy Nx Ny) as P.
               destruct (Z.eqb_spec (atoi_sat x) (atoi_sat y)) as [Eq|Ne]; cbn [negb].
               ++ apply Go. rewrite P, Eq. apply Z.compare_refl.
               ++ rewrite T.tie_semver_compareInt. apply Step; [exact P|].
                  intros C. apply Z.compare_eq in C. contradiction.
            -- apply (Step Lt); [apply part_cmp_num_str; assumption | discriminate].
            -- apply (Step Gt); [apply part_cmp_str_num; assumption | discriminate].
            -- pose proof (part_cmp_str_str x y Hx Hy Nx Ny) as P.
               destruct (beq x y) eqn:Exy; cbn [negb].
               ++ apply beq_eq in Exy. apply Go. rewrite P. apply bytes_cmp_eq. exact Exy.
               ++ assert (Ne : bytes_cmp x y <> Eq).
                  { intros C. apply bytes_cmp_eq in C. apply beq_eq in C. congruence. }
                  unfold str_lt. destruct (bytes_cmp x y) eqn:C; [congruence| |].
                  ** apply (Step Lt); [exact P | discriminate].
                  ** apply (Step Gt); [exact P | discriminate].
        + unfold Qb. rewrite E. apply lex_pad_exhausted; clear - EmaxLen Hge Hi; unfold bytes in *; lia.
      - split; [lia | reflexivity].
      - lia. }
    destruct (while fuel body 0) as [[i|r]| |]; cbn [exit_ok] in R; try contradiction; cbn [bind].
    - unfold Qb, cmpAB in R. rewrite R. reflexivity.
    - unfold Q, cmpAB in R. rewrite R. reflexivity.
  Qed.

  (* C06 for comparePrerelease: no panic, termination within length + 2 iterations *)
  Corollary loops_semver_comparePrerelease_no_panic : forall a b, fits1 a -> fits1 b ->
    exists r, L.comparePrerelease numeric (S (S (Nat.max (length a) (length b)))) a b = Done r.
  Proof. intros a b Fa Fb. eexists. apply tie_loops_semver_comparePrerelease; [assumption | assumption | lia]. Qed.

  (* the total function that Gen/Code's Version.Compare is generalised over *)
  Definition comparePrerelease_total (a b : bytes) : Z :=
    total 0 (L.comparePrerelease numeric (S (S (Nat.max (length a) (length b)))) a b).

  Lemma comparePrerelease_total_model : forall a b, fits1 a -> fits1 b ->
    comparePrerelease_total a b = Z_of_cmp (M.compare_prerelease a b).
  Proof.
    intros a b Fa Fb. unfold comparePrerelease_total.
    rewrite tie_loops_semver_comparePrerelease by (assumption || lia). reflexivity.
  Qed.

  (* Version.Compare with the real comparePrerelease: the Hypothesis comparePrerelease_model of
     Tie/Semver.v, discharged for versions whose pre-release text has an int length *)
  Local Opaque M.compare_prerelease.
  Corollary tie_semver_compare_closed : forall a b : G.Version,
    fits1 (G.Version_prerelease a) -> fits1 (G.Version_prerelease b) ->
    G.Version_Compare comparePrerelease_total a b = Z_of_cmp (M.cmp_core (T.abs a) (T.abs b)).
  Proof.
    intros a b Fa Fb. pose proof (comparePrerelease_total_model _ _ Fa Fb) as H.
    set (cp := comparePrerelease_total) in *. clearbody cp.
    destruct a, b. cbn [G.Version_prerelease] in H. clear Fa Fb.
    tie_solve_with H.
  Qed.
End Semver.
Print Assumptions tie_loops_semver_comparePrerelease.
Print Assumptions loops_semver_comparePrerelease_no_panic.
Print Assumptions comparePrerelease_total_model.
Print Assumptions tie_semver_compare_closed.
