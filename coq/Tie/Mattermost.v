(* Tie/Mattermost.v — the generated translation of pkg/ecosystem/mattermost (Gen/Code/Mattermost.v) equals
   the hand-written model (Eco/Mattermost). *)
From Coq Require Import ZArith List Bool Lia.
From Verif.Base Require Import Bytes GoNum GoOps Ord.
From Verif.Eco Require Import RangeCore.
From Verif.Eco.Mattermost Require Version Range.
From Verif.Gen.Code Require Mattermost.
From Verif.Tie Require Import Tactics.
Import ListNotations.

Module G := Verif.Gen.Code.Mattermost.
Module M := Verif.Eco.Mattermost.Version.

(* abstraction: the Go struct without the original text *)
Definition abs (v : G.Version) : M.core :=
  {| M.prefix := G.Version_prefix v; M.major := G.Version_major v; M.minor := G.Version_minor v; M.patch := G.Version_patch v;
     M.qualifier := G.Version_qualifier v; M.number := G.Version_number v |}.

Theorem tie_mattermost_compareInt : forall a b, G.compareInt a b = Z_of_cmp (Z.compare a b).
Proof. tie_solve. Qed.
Print Assumptions tie_mattermost_compareInt.

Theorem tie_mattermost_getQualifierPrecedence : forall q, G.getQualifierPrecedence q = M.qualifier_precedence q.
Proof. tie_solve. Qed.
Print Assumptions tie_mattermost_getQualifierPrecedence.

Theorem tie_mattermost_compare : forall a b, G.Version_Compare a b = Z_of_cmp (M.cmp_core (abs a) (abs b)).
Proof. tie_solve. Qed.
Print Assumptions tie_mattermost_compare.

Theorem tie_mattermost_string : forall v, G.Version_String v = G.Version_original v.
Proof. tie_solve. Qed.
Print Assumptions tie_mattermost_string.

(* range: the operator switch is the model's sem5/sat on the sign of Compare (any Compare: it
   stays folded) *)
Local Opaque G.Version_Compare.
Theorem tie_mattermost_matches : forall c v,
  G.constraint_matches c v =
  sat (rc_sem Range.cfg (G.constraint_operator c)) (cmp_of_Z (G.Version_Compare v (G.constraint_version c))).
Proof. tie_solve. Qed.
Print Assumptions tie_mattermost_matches.

(* ... hence the model's comparison of the abstracted versions *)
Corollary tie_mattermost_matches_model : forall c v,
  G.constraint_matches c v =
  sat (rc_sem Range.cfg (G.constraint_operator c)) (M.cmp_core (abs v) (abs (G.constraint_version c))).
Proof. intros. rewrite tie_mattermost_matches, tie_mattermost_compare, cmp_of_Z_of_cmp. reflexivity. Qed.
Print Assumptions tie_mattermost_matches_model.

(* Contains: conjunction over the constraints, as RangeCore.contains *)
Theorem tie_mattermost_contains : forall r v,
  G.VersionRange_Contains r v =
  forallb (fun c => sat (rc_sem Range.cfg (G.constraint_operator c)) (M.cmp_core (abs v) (abs (G.constraint_version c))))
          (G.VersionRange_constraints r).
Proof.
  intros. unfold G.VersionRange_Contains. apply forallb_ext_in. intros c _. apply tie_mattermost_matches_model.
Qed.
Print Assumptions tie_mattermost_contains.
