(* Tie/MattermostRange.v — RANGE level: the generated translation of pkg/ecosystem/mattermost
   (Gen/Code/Mattermost.v) equals the hand-written model (Eco/Mattermost/Range).  Reuses [abs] and
   tie_mattermost_compare of Tie/Mattermost.v. *)
From Coq Require Import ZArith List Bool Lia.
From Verif.Base Require Import Bytes GoNum GoOps Ord.
From Verif.Eco Require Import RangeCore.
From Verif.Eco.Mattermost Require Version Range.
From Verif.Gen.Code Require Mattermost.
From Verif.Tie Require Import Tactics.
From Verif.Tie Require Import Mattermost.
Import ListNotations.

(* range: the operator switch is the model's sem5/sat on the sign of Compare (any Compare: it
   stays folded) *)
Local Opaque G.Version_Compare.
Theorem tie_mattermost_matches : forall c v,
  G.constraint_matches c v =
  sat (rc_sem Range.cfg (G.constraint_operator c)) (cmp_of_Z (G.Version_Compare v (G.constraint_version c))).
Proof. tie_solve. Qed.
Print Assumptions tie_mattermost_matches.

(* ... hence the model's comparison of the abstracted versions *)
Corollary tie_mattermost_matches_model : forall c v,
  G.constraint_matches c v =
  sat (rc_sem Range.cfg (G.constraint_operator c)) (M.cmp_core (abs v) (abs (G.constraint_version c))).
Proof. intros. rewrite tie_mattermost_matches, tie_mattermost_compare, cmp_of_Z_of_cmp. reflexivity. Qed.
Print Assumptions tie_mattermost_matches_model.

(* Contains: conjunction over the constraints, as RangeCore.contains *)
Theorem tie_mattermost_contains : forall r v,
  G.VersionRange_Contains r v =
  forallb (fun c => sat (rc_sem Range.cfg (G.constraint_operator c)) (M.cmp_core (abs v) (abs (G.constraint_version c))))
          (G.VersionRange_constraints r).
Proof.
  intros. unfold G.VersionRange_Contains. apply forallb_ext_in. intros c _. apply tie_mattermost_matches_model.
Qed.
Print Assumptions tie_mattermost_contains.
