(* Tie/MavenRange.v — RANGE level (maven has no translated version-level function, so there is
   no Tie/Maven.v): the generated translation of pkg/ecosystem/maven (Gen/Code/Maven.v) against the
   model (Eco/Maven).  Version.Compare (ComparableVersion items, loops) is outside the translated
   fragment: the interval test is tied generically in it. *)
From Coq Require Import ZArith List Bool Lia.
From Verif.Base Require Import Bytes GoNum GoOps Ord.
From Verif.Eco Require Import RangeCore.
From Verif.Gen.Code Require Maven.
From Verif.Tie Require Import Tactics.
Import ListNotations.

Module G := Verif.Gen.Code.Maven.

(* the comparator a bound stands for (Eco/Maven/Range.v keeps it as a [cop]) *)
Definition bound_op (c : G.constraint) : cop :=
  if G.constraint_isLower c then (if G.constraint_inclusive c then CGe else CGt)
  else (if G.constraint_inclusive c then CLe else CLt).

Section Range.
  Variable compare : G.Version -> G.Version -> Z.

  Theorem tie_maven_satisfiesConstraint : forall v c,
    G.satisfiesConstraint compare v c = sat (bound_op c) (cmp_of_Z (compare v (G.constraint_version c))).
  Proof. tie_solve. Qed.

  (* Contains: a range without bounds contains nothing, otherwise the conjunction *)
  Theorem tie_maven_contains : forall r v,
    G.VersionRange_Contains compare r v =
    match G.VersionRange_constraints r with
    | [] => false
    | cs => forallb (fun c => sat (bound_op c) (cmp_of_Z (compare v (G.constraint_version c)))) cs
    end.
  Proof.
    intros r v. unfold G.VersionRange_Contains.
    destruct (G.VersionRange_constraints r) as [|c cs] eqn:E; [reflexivity|].
    replace (Z.of_nat (length (c :: cs)) =? 0)%Z with false by (cbn [length]; lia).
    apply forallb_ext_in. intros x _. apply tie_maven_satisfiesConstraint.
  Qed.
End Range.
Print Assumptions tie_maven_satisfiesConstraint.
Print Assumptions tie_maven_contains.
