(* Tie/Npm.v — the generated translation of pkg/ecosystem/npm (Gen/Code/Npm.v) against the
   model (Eco/Npm).  comparePrerelease is outside the translated fragment: Version.Compare is tied
   generically in it (a Section variable of the generated code). *)
From Coq Require Import ZArith List Bool Lia.
From Verif.Base Require Import Bytes GoNum GoOps Ord.
From Verif.Eco Require Import RangeCore.
From Verif.Eco.Npm Require Version.
From Verif.Gen.Code Require Npm.
From Verif.Tie Require Import Tactics.
Import ListNotations.

Module G := Verif.Gen.Code.Npm.
Module M := Verif.Eco.Npm.Version.

Definition abs (v : G.Version) : M.core :=
  {| M.major := G.Version_major v; M.minor := G.Version_minor v; M.patch := G.Version_patch v;
     M.prerelease := G.Version_prerelease v; M.build := G.Version_build v |}.

Theorem tie_npm_compareInt : forall a b, G.compareInt a b = Z_of_cmp (Z.compare a b).
Proof. tie_solve. Qed.
Print Assumptions tie_npm_compareInt.

Theorem tie_npm_string : forall v, G.Version_String v = G.Version_original v.
Proof. tie_solve. Qed.
Print Assumptions tie_npm_string.

(* the model's pre-release comparison stays folded: it is the specification of the Section
   variable comparePrerelease *)
Local Opaque M.pre_cmp.

Section Compare.
  Variable comparePrerelease : bytes -> bytes -> Z.
  Hypothesis comparePrerelease_model : forall p q, comparePrerelease p q = Z_of_cmp (M.pre_cmp p q).

  Theorem tie_npm_compare : forall a b,
    G.Version_Compare comparePrerelease a b = Z_of_cmp (M.cmp_core (abs a) (abs b)).
  Proof. tie_solve_with comparePrerelease_model. Qed.
End Compare.
Print Assumptions tie_npm_compare.
