(* Tie/Nuget.v — VERSION level: the generated translation of pkg/ecosystem/nuget
   (Gen/Code/Nuget.v) against the model (Eco/Nuget/Version).  comparePrerelease (loop) is outside the
   translated fragment: Compare is tied generically in it.  The range-level ties are in
   Tie/NugetRange.v (which depends on this file, never the other way round). *)
From Coq Require Import ZArith List Bool Lia.
From Verif.Base Require Import Bytes GoNum GoOps Ord.
From Verif.Eco.Nuget Require Version.
From Verif.Gen.Code Require Nuget.
From Verif.Tie Require Import Tactics.
Import ListNotations.

Module G := Verif.Gen.Code.Nuget.
Module M := Verif.Eco.Nuget.Version.

Definition abs (v : G.Version) : M.core :=
  {| M.major := G.Version_major v; M.minor := G.Version_minor v; M.patch := G.Version_patch v;
     M.revision := G.Version_revision v; M.prerelease := G.Version_prerelease v; M.build := G.Version_build v |}.

Theorem tie_nuget_compareInt : forall a b, G.compareInt a b = Z_of_cmp (Z.compare a b).
Proof. tie_solve. Qed.
Print Assumptions tie_nuget_compareInt.

Theorem tie_nuget_string : forall v, G.Version_String v = G.Version_original v.
Proof. tie_solve. Qed.
Print Assumptions tie_nuget_string.

(* the model's pre-release comparison stays folded: it is the specification of the Section
   variable comparePrerelease *)
Local Opaque M.compare_prerelease.

Section Compare.
  Variable comparePrerelease : bytes -> bytes -> Z.
  Hypothesis comparePrerelease_model : forall p q, comparePrerelease p q = Z_of_cmp (M.compare_prerelease p q).

  Theorem tie_nuget_compare : forall a b,
    G.Version_Compare comparePrerelease a b = Z_of_cmp (M.cmp_core (abs a) (abs b)).
  Proof. tie_solve_with comparePrerelease_model. Qed.
End Compare.
Print Assumptions tie_nuget_compare.
