(* Tie/NugetRange.v — RANGE level: the generated translation of pkg/ecosystem/nuget
   (Gen/Code/Nuget.v) against the range model of Eco/Nuget.  The operator switch and Contains are tied
   generically in comparePrerelease (outside the translated fragment).  Reuses [abs] and
   tie_nuget_compare of Tie/Nuget.v. *)
From Coq Require Import ZArith List Bool Lia.
From Verif.Base Require Import Bytes GoNum GoOps Ord.
From Verif.Eco Require Import RangeCore.
From Verif.Eco.Nuget Require Version.
From Verif.Gen.Code Require Nuget.
From Verif.Tie Require Import Tactics.
From Verif.Tie Require Import Nuget.
Import ListNotations.

(* the model's pre-release comparison stays folded: it is the specification of the Section
   variable comparePrerelease *)
Local Opaque M.compare_prerelease.

Section Compare.
  Variable comparePrerelease : bytes -> bytes -> Z.
  Hypothesis comparePrerelease_model : forall p q, comparePrerelease p q = Z_of_cmp (M.compare_prerelease p q).

  (* range: the operator switch, for any Compare (it stays folded) *)
  Local Opaque G.Version_Compare.
  Theorem tie_nuget_matches : forall c v,
    G.constraint_matches comparePrerelease c v =
    sat (sem6 (G.constraint_operator c)) (cmp_of_Z (G.Version_Compare comparePrerelease v (G.constraint_version c))).
  Proof. tie_solve. Qed.

  Corollary tie_nuget_matches_model : forall c v,
    G.constraint_matches comparePrerelease c v =
    sat (sem6 (G.constraint_operator c)) (M.cmp_core (abs v) (abs (G.constraint_version c))).
  Proof. intros. rewrite tie_nuget_matches, (tie_nuget_compare _ comparePrerelease_model), cmp_of_Z_of_cmp. reflexivity. Qed.

  Theorem tie_nuget_contains : forall r v,
    G.VersionRange_Contains comparePrerelease r v =
    forallb (fun c => sat (sem6 (G.constraint_operator c)) (M.cmp_core (abs v) (abs (G.constraint_version c))))
            (G.VersionRange_constraints r).
  Proof.
    intros. unfold G.VersionRange_Contains. apply forallb_ext_in. intros c _. apply tie_nuget_matches_model.
  Qed.
End Compare.
Print Assumptions tie_nuget_matches.
Print Assumptions tie_nuget_matches_model.
Print Assumptions tie_nuget_contains.
