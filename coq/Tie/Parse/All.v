(* Tie/Parse/All.v — the theorems about the generated parsers (Gen/Parse). *)
From Verif.Tie.Parse Require Common Apache Hex Mattermost.
