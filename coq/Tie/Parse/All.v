(* Tie/Parse/All.v — the theorems about the generated parsers (Gen/Parse). *)
From Verif.Tie.Parse Require Common Apache Hex Mattermost.
From Verif.Tie.Parse Require Scan Cargo Npm Nuget Github Gentoo.
From Verif.Tie.Parse Require ListCursor Debian Rpm Semver Conan.
From Verif.Tie.Parse Require Scanners Alpm Gem Maven.
From Verif.Tie.Parse Require RangeCommon RangeTie CranRange DebianRange RpmRange GentooRange ApacheRange NugetRange NpmRange.
From Verif.Tie.Parse Require RangeOptTie RangeLazyTie AlpineRange AlpmRange GithubRange MattermostRange HexRange GolangRange.
From Verif.Tie.Parse Require DebianRangeClosed RpmRangeClosed GentooRangeClosed NugetRangeClosed NpmRangeClosed.
From Verif.Tie.Parse Require RangeInv SemverRange CargoRange GemRange PypiRange ConanRange MavenRange ComposerRange.
