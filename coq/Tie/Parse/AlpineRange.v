(* Tie/Parse/AlpineRange.v — the generated translation of alpine's NewVersionRange
   (Gen/Parse/Alpine.v: parseConstraints = a loop over strings.Fields(s), parseConstraint = a loop
   over the six operators with the slice constraintStr[len(op):] guarded by strings.HasPrefix)
   never panics and terminates with fuel linear in the length of the input.  The range parser of
   alpine does NOT call NewVersion (the bound is kept as text; it is parsed in Contains), so the
   theorem is closed: no hypothesis about NewVersion. *)
From Coq Require Import ZArith List Bool Lia.
From Verif.Base Require Import Bytes GoNum GoOps Imp ImpFacts ImpErr BytesFacts.
From Verif.Gen.Code Require Alpine.
From Verif.Gen.Parse Require Alpine.
From Verif.Eco Require Import RangeCore.
From Verif.Eco.Alpine Require Range.
From Verif.Tie.Parse Require Import Common RangeCommon RangeTie RangeLazyTie.
Import ListNotations.
Local Open Scope Z_scope.

Module G := Verif.Gen.Code.Alpine.
Module P := Verif.Gen.Parse.Alpine.
Module RM := Verif.Eco.Alpine.Range.

Section Range.
  Local Opaque trim_space beq fields has_prefix.

  (* parseConstraint: 6 operators, one iteration each *)
  Lemma parseConstraint_alpine_no_panic : forall fuel c,
    (6 < fuel)%nat -> finished (P.parseConstraint fuel c).
  Proof.
    intros fuel c Hf. unfold P.parseConstraint. cbv zeta.
    apply (ops_loop_finished [$">="; $"<="; $"!="; $">"; $"<"; $"="] (trim_space c)
             (fun op sl =>
                if beq (trim_space sl) [] then Done (Ret None)
                else Done (Ret (Some (G.mk_constraint op (trim_space sl)))))).
    - intros op _ _. destruct (beq _ _); eauto.
    - cbn. lia.
    - cbn [length]. lia.
    - intros [k|r]; np.
  Qed.

  (* parseConstraints: one iteration per field *)
  Lemma parseConstraints_alpine_no_panic : forall fuel s,
    Z.of_nat (length s) + 1 < 2 ^ 63 -> (length s + 6 < fuel)%nat ->
    finished (P.parseConstraints fuel s).
  Proof.
    intros fuel s Hfit Hf. unfold P.parseConstraints. cbv zeta.
    pose proof (fields_length_le s) as SL.
    apply (parts_loop_finished (fields s) (fun part => P.parseConstraint fuel part)).
    - intros part _. apply parseConstraint_alpine_no_panic. lia.
    - lia.
    - lia.
    - intros [[k cs]|r]; np.
  Qed.

  (* C06 for alpine's NewVersionRange: no panic, fuel length s + 7 is enough *)
  Theorem newversionrange_alpine_no_panic : forall fuel e s,
    Z.of_nat (length s) + 1 < 2 ^ 63 -> (length s + 6 < fuel)%nat ->
    finished (P.Ecosystem_NewVersionRange fuel e s).
  Proof.
    intros fuel e s Hfit Hf. unfold P.Ecosystem_NewVersionRange. cbv zeta.
    pose proof (trim_space_length_le s) as TL.
    destruct (beq (trim_space s) []); [np|].
    apply finished_bind; [|intros; np].
    apply parseConstraints_alpine_no_panic; lia.
  Qed.
End Range.
Print Assumptions newversionrange_alpine_no_panic.

(* ---------- the tie to the model (Eco/Alpine/Range.v = RangeCore with RM.cfg) ---------- *)

Section Tie.
  (* the model is parametric in the version type and parser (they matter in Contains only) *)
  Variable MV : Type.
  Variable vparse : bytes -> option MV.

  (* the Go value of a parsed model range: operator and bound text of every constraint *)
  Definition conc (r : range) : G.VersionRange :=
    G.mk_VersionRange (map (mkc G.mk_constraint) (r_cs r)) (r_orig r).

  Lemma tie_parse_alpine_parseConstraint : forall fuel c,
    (6 < fuel)%nat ->
    P.parseConstraint fuel c = Done (lazy_pc G.mk_constraint RM.cfg c).
  Proof.
    intros fuel c Hf. unfold P.parseConstraint. cbv zeta.
    unfold lazy_pc, parse_constraint. change (rc_style RM.cfg) with HasPrefixErr. cbv iota zeta.
    match goal with |- context [while fuel ?b 0] =>
      change b with (ops_body [$">="; $"<="; $"!="; $">"; $"<"; $"="] (trim_space c)
             (fun op sl =>
                if beq (trim_space sl) [] then Done (Ret None)
                else Done (Ret (Some (G.mk_constraint op (trim_space sl))))))
    end.
    rewrite (ops_loop_result _ _ _
               (fun op sl => if beq (trim_space sl) [] then None
                             else Some (G.mk_constraint op (trim_space sl)))).
    - cbn [bind]. change (rc_ops RM.cfg) with [$">="; $"<="; $"!="; $">"; $"<"; $"="].
      destruct (first_prefix _ _) as [[op rest]|]; [|reflexivity].
      destruct (trim_space rest); reflexivity.
    - intros op. destruct (beq _ _); reflexivity.
    - cbn. lia.
    - cbn [length]. lia.
  Qed.

  Lemma tie_parse_alpine_parseConstraints : forall fuel s,
    Z.of_nat (length s) + 1 < 2 ^ 63 -> (length s + 6 < fuel)%nat ->
    P.parseConstraints fuel s =
    Done (match parse_constraints MV vparse RM.cfg (rc_split RM.cfg s) with
          | Some (c :: l) => Some (map (mkc G.mk_constraint) (c :: l))
          | _ => None
          end).
  Proof.
    intros fuel s Hfit Hf. unfold P.parseConstraints. cbv zeta.
    pose proof (fields_length_le s) as SL.
    match goal with |- context [while fuel ?b (0, [])] =>
      change b with (range_body (R := option (list G.constraint)) (fields s)
             (fun k part cs =>
                let part := trim_space part in
                if beq part [] then Done (Next (wrap64 (k + 1), cs))
                else bind (P.parseConstraint fuel part) (fun r =>
                  match r with
                  | None => Done (Ret None)
                  | Some c => Done (Next (wrap64 (k + 1), cs ++ [c]))
                  end)))
    end.
    rewrite (range_loop_result _ _ (lazy_parts_g G.mk_constraint RM.cfg)); [| |lia|lia].
    - rewrite (run_lazy_parts MV vparse G.mk_constraint RM.cfg eq_refl). cbn [bind app].
      rewrite fields_trim_filter. change (rc_split RM.cfg s) with (fields s).
      destruct (parse_constraints _ _ _ _) as [l|]; [|reflexivity].
      destruct l as [|c l]; reflexivity.
    - intros k part cs. unfold lazy_parts_g, lazy_plain_g. cbv zeta.
      destruct (beq (trim_space part) []); [reflexivity|].
      rewrite tie_parse_alpine_parseConstraint by lia. cbn [bind].
      destruct (lazy_pc _ _ _); reflexivity.
  Qed.

  (* the generated NewVersionRange computes the model's parse_range *)
  Theorem tie_parse_alpine_newversionrange : forall fuel e s,
    Z.of_nat (length s) + 1 < 2 ^ 63 -> (length s + 6 < fuel)%nat ->
    P.Ecosystem_NewVersionRange fuel e s =
    Done (option_map conc (parse_range MV vparse RM.cfg s)).
  Proof.
    intros fuel e s Hfit Hf. unfold P.Ecosystem_NewVersionRange, parse_range. cbv zeta.
    pose proof (trim_space_length_le s) as TL.
    rewrite beq_nil_nonempty. destruct (trim_space s) as [|x t] eqn:E; [reflexivity|].
    cbn [nonempty negb]. rewrite <- E in TL |- *.
    rewrite tie_parse_alpine_parseConstraints by lia. cbn [bind].
    destruct (parse_constraints _ _ _ _) as [[|c l]|]; reflexivity.
  Qed.
End Tie.
Print Assumptions tie_parse_alpine_newversionrange.
