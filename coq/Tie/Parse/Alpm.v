(* Tie/Parse/Alpm.v — the generated translation of alpm's NewVersion (Gen/Parse/Alpm.v: a hand
   scanner — strings.Index for the epoch colon, a loop from the right over versionPart that
   slices after every hyphen and calls isAllDigits, two more slices at the hyphen found,
   validateALMPVersionString over pkgver) never panics and terminates with fuel linear in the
   length of the input.  unicode.IsDigit / unicode.IsLetter are oracles about which NOTHING is
   assumed there: no index depends on their answers.  Second part: on ASCII input, and when the
   two oracles agree with is_digit / is_letter on ASCII bytes, NewVersion computes exactly the
   model's parse_core (Eco/Alpm/Version.v) of the trimmed text. *)
From Coq Require Import ZArith List Ascii Bool Lia.
From Verif.Base Require Import Bytes GoNum GoOps Imp ImpFacts ImpErr BytesFacts.
From Verif.Eco.Alpm Require Version.
From Verif.Eco.Rpm Require VersionFacts.
From Verif.Eco.Debian Require SpecFacts.
From Verif.Gen.Code Require Alpm.
From Verif.Gen.Parse Require Alpm.
From Verif.Tie.Loops Require Import Common.
From Verif.Tie.Parse Require Import Common Scanners.
Import ListNotations.
Local Open Scope Z_scope.

Module G := Verif.Gen.Code.Alpm.
Module P := Verif.Gen.Parse.Alpm.
Module M := Verif.Eco.Alpm.Version.

Local Opaque atoi trim_space beq wrap64.

Section NoPanic.
  Variable isdigit : Z -> bool.     (* unicode.IsDigit: any function *)
  Variable isletter : Z -> bool.    (* unicode.IsLetter: any function *)

  (* isAllDigits: `for _, r := range s`, one iteration per byte *)
  Lemma isAllDigits_no_panic : forall fuel s,
    fits s -> (length s < fuel)%nat -> finished (P.isAllDigits isdigit fuel s).
  Proof.
    intros fuel s F Hf. unfold P.isAllDigits.
    destruct (Z.of_nat (length s) =? 0); [np|]. cbv zeta.
    apply (finished_while_bind fuel _ 0 _ (fun k => 0 <= k <= Z.of_nat (length s))
             (up_to (Z.of_nat (length s)))).
    - intros k Hk. unfold step_ok, up_to.
      destruct (Z.ltb_spec k (Z.of_nat (length s))) as [Lt|Ge]; [|exact I].
      rewrite (idx_in_range s k "000"%char) by (unfold len; lia). cbn [bind].
      destruct (negb _); [exact I|].
      rewrite (wrap64_succ k (Z.of_nat (length s))) by (unfold fits in F; lia). split; lia.
    - lia.
    - unfold up_to. lia.
    - intros [k|r]; np.
  Qed.

  (* validateALMPVersionString: the same loop shape *)
  Lemma validateALMPVersionString_no_panic : forall fuel s part,
    fits s -> (length s < fuel)%nat ->
    finished (P.validateALMPVersionString isdigit isletter fuel s part).
  Proof.
    intros fuel s part F Hf. unfold P.validateALMPVersionString. cbv zeta.
    apply (finished_while_bind fuel _ 0 _ (fun k => 0 <= k <= Z.of_nat (length s))
             (up_to (Z.of_nat (length s)))).
    - intros k Hk. unfold step_ok, up_to.
      destruct (Z.ltb_spec k (Z.of_nat (length s))) as [Lt|Ge]; [|exact I].
      rewrite (idx_in_range s k "000"%char) by (unfold len; lia). cbn [bind].
      destruct (negb _); [exact I|].
      rewrite (wrap64_succ k (Z.of_nat (length s))) by (unfold fits in F; lia). split; lia.
    - lia.
    - unfold up_to. lia.
    - intros [k|r]; np.
  Qed.

  (* the part of NewVersion after the two splits: atoi, validate, atoi *)
  Local Ltac np_validate :=
    match goal with
    | |- finished (bind (P.validateALMPVersionString _ _ _ _ _) _) =>
        apply finished_bind; [apply validateALMPVersionString_no_panic; assumption | intros ? _]
    end.

  (* the loop from the right: for i := len(versionPart) - 1; i >= 0; i-- *)
  Definition hyphen_ok (vp : bytes) (st : Z * Z) : Prop :=
    snd st = -1 \/ (0 <= snd st /\ snd st + 1 <= Z.of_nat (length vp)).

  (* C06 for alpm's NewVersion: no panic, and fuel length s + 1 is enough *)
  Theorem newversion_alpm_no_panic : forall e s fuel,
    fits s -> (length s < fuel)%nat ->
    finished (P.Ecosystem_NewVersion isdigit isletter fuel e s).
  Proof.
    intros e s fuel F Hf. unfold P.Ecosystem_NewVersion. cbv zeta.
    pose proof (trim_space_length_le s) as TL. set (t := trim_space s) in *. clearbody t.
    assert (Ft : fits t) by (unfold fits in *; lia).
    destruct (beq t []); [np|].
    (* the epoch split: both pieces are no longer than t *)
    apply finished_bind with (r := if negb (go_index $":" t =? -1) then _ else _).
    { destruct (go_index_bounds $":" t) as [E|[B1 B2]].
      - rewrite E. change (negb (-1 =? -1)) with false. cbv iota. np.
      - change (Z.of_nat (length $":")) with 1 in B2.
        destruct (negb _); [|np].
        rewrite slice_to_Done by lia. cbn [bind].
        rewrite wrap64_id by (unfold fits in Ft; lia).
        rewrite slice_from_Done by lia. np. }
    intros [epochStr vp] Evp.
    assert (Lvp : (length vp <= length t)%nat).
    { destruct (go_index_bounds $":" t) as [E|[B1 B2]].
      - rewrite E in Evp. cbn in Evp. injection Evp as _ <-. lia.
      - change (Z.of_nat (length $":")) with 1 in B2.
        destruct (negb _).
        + rewrite slice_to_Done in Evp by lia. cbn [bind] in Evp.
          rewrite wrap64_id in Evp by (unfold fits in Ft; lia).
          rewrite slice_from_Done in Evp by lia. cbn [bind] in Evp. injection Evp as _ <-.
          rewrite skipn_length. lia.
        + injection Evp as _ <-. lia. }
    clear Evp. assert (Fvp : fits vp) by (unfold fits in *; lia).
    set (n := Z.of_nat (length vp)).
    rewrite (wrap64_id (n - 1)) by (unfold fits in Fvp; lia).
    (* the loop *)
    apply (finished_while_bind_post fuel _ (n - 1, -1) _
             (fun st => -1 <= fst st < n /\ snd st = -1)
             (fun st => Z.to_nat (fst st + 1))
             (hyphen_ok vp) (fun _ => True)).
    - intros [i lvh] [Hi Hl]. cbn [fst snd] in Hi, Hl. subst lvh. unfold step_ok, hyphen_ok.
      destruct (Z.leb_spec 0 i) as [Ge|Lt]; [|left; reflexivity].
      rewrite (idx_in_range vp i "000"%char) by (unfold len; fold n; lia). cbn [bind].
      assert (W : wrap64 (i + 1) = i + 1) by (apply wrap64_id; unfold fits in Fvp; fold n in Fvp; lia).
      assert (W' : wrap64 (i - 1) = i - 1) by (apply wrap64_id; unfold fits in Fvp; fold n in Fvp; lia).
      rewrite W, W'.
      destruct (ceqb _ _ && (i + 1 <? n)) eqn:C; [|cbn [fst snd]; split; [split|]; lia].
      apply andb_prop in C as [_ C]. apply Z.ltb_lt in C.
      rewrite slice_from_Done by (fold n; lia). cbn [bind].
      set (ah := skipn (Z.to_nat (i + 1)) vp).
      assert (Lah : (length ah <= length vp)%nat) by (unfold ah; rewrite skipn_length; lia).
      destruct (0 <? Z.of_nat (length ah)).
      + rewrite bind_assoc.
        destruct (isAllDigits_no_panic fuel ah) as [b Eb]; [unfold fits in *; lia | lia |].
        rewrite Eb. cbn [bind].
        destruct b; cbn [fst snd]; [right; fold n; lia | split; [split|]; lia].
      + cbn [bind fst snd]. split; [split|]; lia.
    - cbn [fst snd]. pose proof (Zle_0_nat (length vp)). fold n in H. split; [lia | reflexivity].
    - cbn [fst]. lia.
    - intros [[i lvh]|r] Q; [|np].
      unfold hyphen_ok in Q. cbn [snd] in Q.
      (* pkgver / pkgrelStr: two slices at the hyphen found *)
      apply finished_bind with (r := if negb (lvh =? -1) then _ else _).
      { destruct Q as [->|[Q1 Q2]]; [change (negb (-1 =? -1)) with false; cbv iota; np|].
        destruct (negb _); [|np].
        rewrite slice_to_Done by lia. cbn [bind].
        rewrite wrap64_id by (unfold fits in Fvp; lia).
        rewrite slice_from_Done by lia. np. }
      intros [pkgver pkgrelStr] Epk.
      assert (Lpk : (length pkgver <= length vp)%nat).
      { destruct Q as [->|[Q1 Q2]].
        - cbn in Epk. injection Epk as <- _. lia.
        - destruct (negb _).
          + rewrite slice_to_Done in Epk by lia. cbn [bind] in Epk.
            rewrite wrap64_id in Epk by (unfold fits in Fvp; lia).
            rewrite slice_from_Done in Epk by lia. cbn [bind] in Epk. injection Epk as <- _.
            rewrite firstn_length. lia.
          + injection Epk as <- _. lia. }
      clear Epk Q.
      assert (Fpk : fits pkgver) by (unfold fits in *; lia).
      assert (Hpk : (length pkgver < fuel)%nat) by lia.
      repeat (np_step || np_validate).
  Qed.
End NoPanic.
Print Assumptions newversion_alpm_no_panic.

(* ====================================================================================== *)
(* the tie to the model                                                                    *)
(* ====================================================================================== *)

Local Transparent beq.

(* the Go value for a parsed core *)
Definition conc (s : bytes) (c : M.core) : G.Version :=
  G.mk_Version (M.c_epoch c) (M.c_pkgver c) (M.c_pkgrel c) (M.c_has_pkgrel c) s.

(* ---------- the epoch split: strings.Index and two slices = cut ---------- *)

Definition colon_split (t : bytes) : res (bytes * bytes) :=
  if negb (go_index $":" t =? -1) then
    bind (slice_to t (go_index $":" t)) (fun epochStr =>
    bind (slice_from t (wrap64 (go_index $":" t + 1))) (fun versionPart =>
    Done (epochStr, versionPart)))
  else Done ([], t).

Lemma colon_split_tie t : fits t -> colon_split t = Done (M.split_epoch t).
Proof.
  intros F. unfold colon_split, M.split_epoch, go_index, index_sub.
  destruct (cut $":" t) as [[a b]|] eqn:C; [|reflexivity].
  destruct (cut_length _ _ _ _ C) as [L _]. destruct (cut_firstn_skipn _ _ _ _ C) as [E1 E2].
  change (length $":") with 1%nat in *.
  destruct (Z.eqb_spec (Z.of_nat (length a)) (-1)) as [X|_]; [lia|]. cbn [negb].
  rewrite slice_to_Done by lia. cbn [bind].
  rewrite wrap64_id by (unfold fits in F; lia). rewrite slice_from_Done by lia. cbn [bind].
  rewrite Nat2Z.id, E1. replace (Z.to_nat (Z.of_nat (length a) + 1)) with (length a + 1)%nat by lia.
  rewrite E2. reflexivity.
Qed.

Lemma split_epoch_snd t : exists n, snd (M.split_epoch t) = skipn n t.
Proof.
  unfold M.split_epoch. destruct (cut $":" t) as [[a b]|] eqn:C.
  - destruct (cut_firstn_skipn _ _ _ _ C) as [_ E2]. eexists. cbn [snd]. symmetry. exact E2.
  - exists 0%nat. reflexivity.
Qed.

(* ---------- the pkgrel split ---------- *)

Definition hyphen_split (vp : bytes) (lvh : Z) : res (bytes * bytes) :=
  if negb (lvh =? -1) then
    bind (slice_to vp lvh) (fun pkgver =>
    bind (slice_from vp (wrap64 (lvh + 1))) (fun pkgrelStr =>
    Done (pkgver, pkgrelStr)))
  else Done (vp, []).

(* position j holds a hyphen followed by a non-empty run of digits up to the end *)
Definition valid_at (vp : bytes) (j : Z) : bool :=
  ceqb (nth (Z.to_nat j) vp "000"%char) (chr 45) && (j + 1 <? Z.of_nat (length vp))
  && nonempty_digits (skipn (Z.to_nat (j + 1)) vp).

Lemma digits_no_hyphen (r : bytes) : forallb is_digit r = true -> contains_c "-"%char r = false.
Proof.
  unfold contains_c. induction r as [|c r IH]; intros H; [reflexivity|]. cbn [forallb existsb] in *.
  apply andb_prop in H as [H1 H2]. rewrite (IH H2), orb_false_r.
  unfold is_digit, in_range in H1. apply andb_prop in H1 as [H1 _]. apply N.leb_le in H1.
  unfold ceqb. apply N.eqb_neq. intros X. rewrite <- X in H1. vm_compute in H1. congruence.
Qed.

Lemma nonempty_digits_forallb (r : bytes) : nonempty_digits r = true -> forallb is_digit r = true /\ r <> [].
Proof. destruct r; [discriminate|]. intros H. split; [exact H | discriminate]. Qed.

Lemma nth_split_mid {A} (s : list A) (k : nat) (d : A) :
  (k < length s)%nat -> s = firstn k s ++ nth k s d :: skipn (S k) s.
Proof.
  intros L. rewrite <- (firstn_skipn k s) at 1. f_equal. apply skipn_nth_cons. exact L.
Qed.

Lemma split_pkgrel_valid vp p : fits vp -> 0 <= p -> valid_at vp p = true ->
  hyphen_split vp p = Done (M.split_pkgrel vp).
Proof.
  intros F P0 V. unfold valid_at in V. apply andb_prop in V as [V V3]. apply andb_prop in V as [V1 V2].
  apply Z.ltb_lt in V2. apply ceqb_eq in V1.
  unfold hyphen_split. destruct (Z.eqb_spec p (-1)) as [X|_]; [lia|]. cbn [negb].
  rewrite slice_to_Done by lia. cbn [bind].
  rewrite wrap64_id by (unfold fits in F; lia). rewrite slice_from_Done by lia. cbn [bind].
  unfold M.split_pkgrel.
  destruct (nonempty_digits_forallb _ V3) as [D _].
  rewrite (nth_split_mid vp (Z.to_nat p) "000"%char) at 3 by lia. rewrite V1.
  replace (S (Z.to_nat p)) with (Z.to_nat (p + 1)) by lia.
  change (chr 45) with "-"%char.
  rewrite (Verif.Eco.Rpm.VersionFacts.cut_last_hit "-"%char _ _ (digits_no_hyphen _ D)).
  rewrite V3. reflexivity.
Qed.

Lemma split_pkgrel_novalid vp :
  (forall j, -1 < j < Z.of_nat (length vp) -> valid_at vp j = false) ->
  hyphen_split vp (-1) = Done (M.split_pkgrel vp).
Proof.
  intros NV. unfold hyphen_split. change (negb (-1 =? -1)) with false. cbv iota.
  unfold M.split_pkgrel. destruct (cut_last_c "-"%char vp) as [[u r]|] eqn:C; [|reflexivity].
  destruct (nonempty_digits r) eqn:ND; [|reflexivity]. exfalso.
  destruct (Verif.Eco.Debian.SpecFacts.cut_last_spec _ _ _ _ C) as [E _].
  assert (r <> []) by (destruct r; [discriminate | discriminate]).
  assert (Lr : (0 < length r)%nat) by (destruct r; [congruence | cbn; lia]).
  specialize (NV (Z.of_nat (length u))).
  rewrite E in NV. rewrite app_length in NV. cbn [length] in NV.
  assert (V : valid_at (u ++ "-"%char :: r) (Z.of_nat (length u)) = true).
  { unfold valid_at. rewrite Nat2Z.id, app_nth2, Nat.sub_diag by lia. cbn [nth].
    rewrite app_length. cbn [length].
    replace (Z.to_nat (Z.of_nat (length u) + 1)) with (length u + 1)%nat by lia.
    rewrite skipn_app, skipn_all2 by lia. replace (length u + 1 - length u)%nat with 1%nat by lia.
    cbn [app skipn]. rewrite ND.
    replace (Z.of_nat (length u) + 1 <? Z.of_nat (length u + S (length r))) with true
      by (symmetry; apply Z.ltb_lt; lia).
    reflexivity. }
  rewrite V in NV. assert (true = false) by (apply NV; lia). discriminate.
Qed.

Lemma split_pkgrel_fst vp : exists n, fst (M.split_pkgrel vp) = firstn n vp.
Proof.
  unfold M.split_pkgrel. destruct (cut_last_c "-"%char vp) as [[u r]|] eqn:C.
  - destruct (nonempty_digits r).
    + destruct (Verif.Eco.Debian.SpecFacts.cut_last_spec _ _ _ _ C) as [E _].
      exists (length u). cbn [fst]. rewrite E, firstn_app, firstn_all, Nat.sub_diag. cbn [firstn].
      symmetry. apply app_nil_r.
    + exists (length vp). cbn [fst]. symmetry. apply firstn_all.
  - exists (length vp). cbn [fst]. symmetry. apply firstn_all.
Qed.

(* the model's parse_core on a non-empty text *)
Definition parse_tail (epoch : Z) (pkgver pkgrelStr : bytes) : option M.core :=
  match pkgver with
  | [] => None
  | _ =>
      if negb (forallb M.valid_char pkgver) then None
      else match pkgrelStr with
           | [] => Some {| M.c_epoch := epoch; M.c_pkgver := pkgver;
                           M.c_pkgrel := 0%Z; M.c_has_pkgrel := false |}
           | _ =>
               match atoi pkgrelStr with
               | None => None
               | Some rel =>
                   if (rel <? 0)%Z then None
                   else Some {| M.c_epoch := epoch; M.c_pkgver := pkgver;
                                M.c_pkgrel := rel; M.c_has_pkgrel := true |}
               end
           end
  end.

Definition parse_body (t : bytes) : option M.core :=
  let '(epochStr, versionPart) := M.split_epoch t in
  let '(pkgver, pkgrelStr) := M.split_pkgrel versionPart in
  match (match epochStr with [] => Some 0%Z | _ => atoi epochStr end) with
  | None => None
  | Some epoch => if (epoch <? 0)%Z then None else parse_tail epoch pkgver pkgrelStr
  end.

Lemma parse_core_body t : t <> [] -> M.parse_core t = parse_body t.
Proof. destruct t; [congruence | reflexivity]. Qed.

Section Tie.
  Variable isdigit : Z -> bool.     (* unicode.IsDigit *)
  Variable isletter : Z -> bool.    (* unicode.IsLetter *)
  (* ORACLE AGREEMENT, on ASCII bytes only *)
  Hypothesis isdigit_agrees : forall c, is_ascii c = true -> isdigit (byte_z c) = is_digit c.
  Hypothesis isletter_agrees : forall c, is_ascii c = true -> isletter (byte_z c) = is_letter c.

  Lemma isAllDigits_tie : forall fuel s,
    all_ascii s = true -> fits s -> (length s < fuel)%nat ->
    P.isAllDigits isdigit fuel s = Done (nonempty_digits s).
  Proof.
    intros fuel s A F Hf. unfold P.isAllDigits.
    destruct (Z.eqb_spec (Z.of_nat (length s)) 0) as [E|E].
    { destruct s; [reflexivity | cbn [length] in E; lia]. }
    cbv zeta.
    rewrite (forallb_loop fuel _ s (fun c => isdigit (byte_z c)) false);
      [| intros k; reflexivity | exact F | exact Hf].
    rewrite (forallb_agree is_ascii (fun c => isdigit (byte_z c)) is_digit s isdigit_agrees A).
    destruct s as [|c r]; [cbn [length] in E; lia|].
    unfold nonempty_digits. destruct (forallb is_digit (c :: r)); reflexivity.
  Qed.

  Lemma valid_char_agrees : forall c, is_ascii c = true ->
    P.isValidALMPVersionChar isdigit isletter (byte_z c) = M.valid_char c.
  Proof.
    intros c A. unfold P.isValidALMPVersionChar, M.valid_char.
    rewrite (isdigit_agrees c A), (isletter_agrees c A).
    change 46 with (Z.of_N (code "."%char)). change 95 with (Z.of_N (code "_"%char)).
    change 43 with (Z.of_N (code "+"%char)). change 45 with (Z.of_N (code "-"%char)).
    rewrite !byte_z_eqb. reflexivity.
  Qed.

  Lemma validate_tie : forall fuel s part,
    all_ascii s = true -> fits s -> (length s < fuel)%nat ->
    P.validateALMPVersionString isdigit isletter fuel s part =
    Done (if forallb M.valid_char s then Some tt else None).
  Proof.
    intros fuel s part A F Hf. unfold P.validateALMPVersionString. cbv zeta.
    rewrite (forallb_loop fuel _ s (fun c => P.isValidALMPVersionChar isdigit isletter (byte_z c)) None);
      [| intros k; reflexivity | exact F | exact Hf].
    rewrite (forallb_agree is_ascii _ M.valid_char s valid_char_agrees A).
    destruct (forallb M.valid_char s); reflexivity.
  Qed.

  (* the code after the two splits and the epoch *)
  Lemma tail_tie : forall fuel s epoch pkgver pkgrelStr,
    all_ascii pkgver = true -> fits pkgver -> (length pkgver < fuel)%nat ->
    (if beq pkgver [] then Done None
     else
       bind (P.validateALMPVersionString isdigit isletter fuel pkgver $"pkgver") (fun r2 =>
       match r2 with
       | None => Done None
       | Some _ =>
           if negb (beq pkgrelStr []) then
             match atoi pkgrelStr with
             | None => Done None
             | Some pkgrel =>
                 if Z.ltb pkgrel 0 then Done None
                 else Done (Some (G.mk_Version epoch pkgver pkgrel (negb (beq pkgrelStr [])) s))
             end
           else Done (Some (G.mk_Version epoch pkgver 0 (negb (beq pkgrelStr [])) s))
       end)) = Done (option_map (conc s) (parse_tail epoch pkgver pkgrelStr)).
  Proof.
    intros fuel s epoch pkgver pkgrelStr A F Hf.
    destruct pkgver as [|p0 pv]; [reflexivity|].
    change (beq (p0 :: pv) []) with false. cbv iota.
    rewrite validate_tie by assumption. cbn [bind]. unfold parse_tail.
    destruct (forallb M.valid_char (p0 :: pv)); [|reflexivity]. cbn [negb].
    destruct pkgrelStr as [|r0 rs]; [reflexivity|].
    change (beq (r0 :: rs) []) with false. cbn [negb].
    destruct (atoi (r0 :: rs)) as [rel|]; [|reflexivity].
    destruct (rel <? 0); reflexivity.
  Qed.

  Theorem tie_parse_alpm_newversion : forall e s fuel,
    all_ascii s = true -> fits s -> (length s < fuel)%nat ->
    P.Ecosystem_NewVersion isdigit isletter fuel e s =
    Done (option_map (conc s) (M.parse_core (trim_space s))).
  Proof.
    intros e s fuel A F Hf. unfold P.Ecosystem_NewVersion. cbv zeta.
    pose proof (trim_space_length_le s) as TL.
    pose proof (forallb_trim_space is_ascii s A) as At.
    set (t := trim_space s) in *. clearbody t.
    assert (Ft : fits t) by (unfold fits in *; lia).
    destruct (beq t []) eqn:B.
    { apply beq_eq in B. subst t. reflexivity. }
    rewrite parse_core_body by (intros ->; discriminate). unfold parse_body.
    eapply bind_eq; [apply colon_split_tie; exact Ft|].
    destruct (split_epoch_snd t) as [n0 Evp].
    destruct (M.split_epoch t) as [epochStr vp]. cbn [snd] in Evp.
    assert (Lvp : (length vp <= length t)%nat) by (rewrite Evp, skipn_length; lia).
    assert (Avp : all_ascii vp = true) by (rewrite Evp; apply forallb_skipn; exact At).
    clear Evp n0. assert (Fvp : fits vp) by (unfold fits in *; lia).
    set (n := Z.of_nat (length vp)).
    rewrite (wrap64_id (n - 1)) by (unfold fits in Fvp; lia).
    (* the loop from the right *)
    match goal with |- bind (while fuel ?b ?s0) _ = _ =>
      destruct (while_rule_ex b
        (fun st => -1 <= fst st < n /\ snd st = -1 /\
                   forall j, fst st < j < n -> valid_at vp j = false)
        (fun st => Z.to_nat (fst st + 1))
        (fun st => hyphen_split vp (snd st) = Done (M.split_pkgrel vp))
        (fun _ => False)) with (fuel := fuel) (s := s0) as (x & E & Q)
    end.
    - intros [i lvh] (Hi & Hl & NV). cbn [fst snd] in Hi, Hl, NV. subst lvh. unfold step_ok.
      destruct (Z.leb_spec 0 i) as [Ge|Lt].
      2:{ cbn [snd]. apply split_pkgrel_novalid. intros j Hj. apply NV. fold n in Hj. lia. }
      rewrite (idx_in_range vp i "000"%char) by (unfold len; fold n; lia). cbn [bind].
      assert (W : wrap64 (i + 1) = i + 1) by (apply wrap64_id; unfold fits in Fvp; fold n in Fvp; lia).
      assert (W' : wrap64 (i - 1) = i - 1) by (apply wrap64_id; unfold fits in Fvp; fold n in Fvp; lia).
      rewrite W, W'.
      assert (step_down : valid_at vp i = false ->
                -1 <= i - 1 < n /\ -1 = -1 /\ forall j, i - 1 < j < n -> valid_at vp j = false).
      { intros V. split; [lia|]. split; [reflexivity|]. intros j Hj.
        destruct (Z.eq_dec j i) as [->|Ne]; [exact V | apply NV; lia]. }
      destruct (ceqb _ _ && (i + 1 <? n)) eqn:C.
      2:{ cbn [fst snd]. split; [|lia]. apply step_down. unfold valid_at. fold n. rewrite C. reflexivity. }
      rewrite slice_from_Done by (apply andb_prop in C as [_ C]; apply Z.ltb_lt in C; fold n; lia).
      cbn [bind].
      set (ah := skipn (Z.to_nat (i + 1)) vp).
      assert (Lah : (length ah <= length vp)%nat) by (unfold ah; rewrite skipn_length; lia).
      assert (Aah : all_ascii ah = true) by (apply forallb_skipn; exact Avp).
      assert (Eb : (if 0 <? Z.of_nat (length ah)
                    then bind (P.isAllDigits isdigit fuel ah) (fun r => Done r)
                    else Done false) = Done (nonempty_digits ah)).
      { destruct (Z.ltb_spec 0 (Z.of_nat (length ah))) as [Pos|Zero].
        - rewrite isAllDigits_tie; [reflexivity | exact Aah | unfold fits in *; lia | lia].
        - destruct ah; [reflexivity | cbn [length] in Zero; lia]. }
      rewrite Eb. cbn [bind].
      assert (V : valid_at vp i = nonempty_digits ah).
      { unfold valid_at. fold n. rewrite C. reflexivity. }
      destruct (nonempty_digits ah) eqn:ND.
      + cbn [snd]. apply split_pkgrel_valid; [exact Fvp | lia | exact V].
      + cbn [fst snd]. split; [|lia]. apply step_down. exact V.
    - cbn [fst snd]. pose proof (Zle_0_nat (length vp)) as N0. fold n in N0.
      split; [lia|]. split; [reflexivity|]. intros j Hj. lia.
    - cbn [fst]. lia.
    - rewrite E. cbn [bind]. destruct x as [[i lvh]|r]; [|contradiction]. cbn [snd] in Q.
      eapply bind_eq; [exact Q|].
      destruct (split_pkgrel_fst vp) as [n1 Epk].
      destruct (M.split_pkgrel vp) as [pkgver pkgrelStr]. cbn [fst] in Epk.
      assert (Lpk : (length pkgver <= length vp)%nat) by (rewrite Epk, firstn_length; lia).
      assert (Apk : all_ascii pkgver = true) by (rewrite Epk; apply forallb_firstn; exact Avp).
      clear Epk n1.
      assert (Fpk : fits pkgver) by (unfold fits in *; lia).
      assert (Hpk : (length pkgver < fuel)%nat) by lia.
      destruct epochStr as [|e0 es].
      + change (negb (beq [] [])) with false. cbv iota.
        change (0 <? 0) with false. cbv iota.
        apply tail_tie; assumption.
      + change (negb (beq (e0 :: es) [])) with true. cbv iota.
        destruct (atoi (e0 :: es)) as [epoch|]; [|reflexivity].
        destruct (epoch <? 0); [reflexivity|].
        apply tail_tie; assumption.
  Qed.
End Tie.
Print Assumptions tie_parse_alpm_newversion.
